(* SliceLine.v -- SlicePara's "this line is paragraph text" lemmas, generalised:
   (i) the cursor may stand anywhere in the line (after "> " or a list marker): only `indent p = 0` and
       `bytesAfterIndent p = c :: r` are used;  (ii) '+' is allowed as first byte (parseListMarker decides);
   (iii) the container may be any block that does not accept lines and is not a paragraph. *)
From Coq Require Import List ZArith Lia Bool.
Import ListNotations.
Require Import Base Tables Utf8 Tree Rdr Link Collect Html Recog LP Rules Starts Driver SliceBase SlicePara.
Open Scope Z_scope.

Ltac lensimp := repeat (rewrite sl_len_app || rewrite sl_len_cons || rewrite sl_len_nil).

(* the cursor stands at byte c of its line, after the prefix pre *)
Definition atLineK (p : lp) (pre : bytes) (c : Z) (r : bytes) : Prop := li p = len pre /\ line p = pre ++ c :: r.

Section LineK.
Variables (p : lp) (pre : bytes) (c : Z) (r : bytes).
Hypothesis H : atLineK p pre c r.
Lemma alk_rest : rest p = c :: r.
Proof. destruct H as [H1 H2]. unfold rest. rewrite H1, H2. apply sl_from_app_len. Qed.
Lemma alk_len_pos : (len (line p) <=? li p) = false.
Proof. destruct H as [H1 H2]. rewrite H1, H2. lensimp. pose proof (sl_len_nonneg r). apply Z.leb_gt. lia. Qed.
Lemma alk_at : at_ (line p) (li p) = c.
Proof. destruct H as [H1 H2]. rewrite H1, H2. apply sl_at_app_len. Qed.
Lemma alk_indent : isSpTab c = false -> indent p = 0.
Proof.
  intros Hc. unfold indent. rewrite alk_len_pos, alk_at. unfold isSpTab in Hc. apply orb_false_iff in Hc. destruct Hc as [-> ->]. reflexivity.
Qed.
Lemma alk_bai : isSpTab c = false -> bytesAfterIndent p = c :: r.
Proof. intros Hc. unfold bytesAfterIndent. rewrite alk_rest. cbn [trimLeftSpTab]. rewrite Hc. reflexivity. Qed.
Lemma alk_blank : isSpaceTabOrLineEnding c = false -> isRestBlank p = false.
Proof. intros Hc. unfold isRestBlank. rewrite alk_rest. cbn [isBlankLine forallb]. rewrite Hc. reflexivity. Qed.
End LineK.

Definition paraStart2 (c : Z) : bool :=
  negb (isSpaceTabOrLineEnding c) && negb (existsb (Z.eqb c) [62; 35; 96; 126; 60; 45; 95; 42]).
Lemma ps2_ws c : paraStart2 c = true -> isSpaceTabOrLineEnding c = false.
Proof. unfold paraStart2. intros Hc. apply andb_true_iff in Hc. destruct Hc as [Hc _]. apply negb_true_iff in Hc. exact Hc. Qed.
Lemma ps2_sptab c : paraStart2 c = true -> isSpTab c = false.
Proof.
  intros Hc. apply ps2_ws in Hc. unfold isSpaceTabOrLineEnding in Hc. unfold isSpTab.
  destruct (c =? 32); [discriminate|]. destruct (c =? 9); [discriminate|]. reflexivity.
Qed.
Lemma ps2_ne c x : paraStart2 c = true -> In x [62; 35; 96; 126; 60; 45; 95; 42] -> (c =? x) = false.
Proof.
  unfold paraStart2. intros Hc Hx. apply andb_true_iff in Hc. destruct Hc as [_ Hc]. apply negb_true_iff in Hc.
  destruct (c =? x) eqn:E; [|reflexivity]. exfalso.
  assert (existsb (Z.eqb c) [62; 35; 96; 126; 60; 45; 95; 42] = true) by (apply existsb_exists; exists x; split; assumption).
  congruence.
Qed.
Lemma paraStartByte_2 c : paraStartByte c = true -> paraStart2 c = true.
Proof.
  intros Hc. unfold paraStart2. rewrite (psb_ws c Hc). cbn [negb andb existsb].
  rewrite !(psb_ne c _ Hc) by (cbn; tauto). reflexivity.
Qed.

Section Starts2.
Variables (p : lp) (c : Z) (r : bytes).
Hypothesis Hi : indent p = 0.
Hypothesis Hb : bytesAfterIndent p = c :: r.
Hypothesis Hc : paraStart2 c = true.

Lemma st2_bq : startBlockQuote p = p.
Proof.
  unfold startBlockQuote. rewrite Hi. cbn [codeBlockIndentLimit Z.leb Z.compare]. rewrite Hb. cbn [hasBytePrefix].
  assert (E : (62 =? c) = false) by (rewrite Z.eqb_sym; apply ps2_ne; [exact Hc|cbn; tauto]).
  rewrite E. reflexivity.
Qed.
Lemma st2_atx : startATX p = p.
Proof.
  unfold startATX. rewrite Hi. cbn [codeBlockIndentLimit Z.leb Z.compare]. rewrite Hb. unfold parseATXHeading. cbn [countWhile].
  rewrite (ps2_ne c 35 Hc) by (cbn; tauto). reflexivity.
Qed.
Lemma st2_fenced : startFenced p = p.
Proof.
  unfold startFenced. rewrite Hi. cbn [codeBlockIndentLimit Z.leb Z.compare]. rewrite Hb. unfold parseCodeFence.
  rewrite (ps2_ne c 96 Hc) by (cbn; tauto). rewrite (ps2_ne c 126 Hc) by (cbn; tauto). cbn [orb negb]. rewrite orb_true_r. reflexivity.
Qed.
Lemma st2_html : startHTML p = p.
Proof.
  unfold startHTML. rewrite Hi. cbn [codeBlockIndentLimit Z.leb Z.compare]. rewrite Hb. cbn [hasBytePrefix].
  assert (E : (60 =? c) = false) by (rewrite Z.eqb_sym; apply ps2_ne; [exact Hc|cbn; tauto]).
  rewrite E. reflexivity.
Qed.
Lemma st2_thematic : startThematic p = p.
Proof.
  unfold startThematic. rewrite Hi. cbn [codeBlockIndentLimit Z.leb Z.compare]. rewrite Hb. unfold parseThematicBreak. cbn [tb_loop].
  rewrite (ps2_ne c 45 Hc) by (cbn; tauto). rewrite (ps2_ne c 95 Hc) by (cbn; tauto). rewrite (ps2_ne c 42 Hc) by (cbn; tauto).
  cbn [orb]. rewrite (ps2_ws c Hc). reflexivity.
Qed.
Lemma st2_list : snd (parseListMarker (c :: r)) < 0 -> startListItem p = p.
Proof.
  intros Hm. unfold startListItem. rewrite Hi. cbn [codeBlockIndentLimit Z.leb Z.compare]. rewrite Hb.
  destruct (parseListMarker (c :: r)) as [[d n] m]. cbn [snd] in Hm. destruct (Z.ltb_spec m 0); [|lia]. reflexivity.
Qed.
Lemma st2_indented : startIndented p = p.
Proof. unfold startIndented. rewrite Hi. reflexivity. Qed.
End Starts2.

Lemma tryStarts_none2 p c r : indent p = 0 -> bytesAfterIndent p = c :: r -> paraStart2 c = true ->
  (containerKind p =? ParagraphKind) = false -> snd (parseListMarker (c :: r)) < 0 ->
  tryStarts blockStarts p = (false, withState p stOpening).
Proof.
  intros Hi Hb Hc Hk Hm.
  assert (Hiq : indent (withState p stOpening) = 0) by exact Hi.
  assert (Hbq : bytesAfterIndent (withState p stOpening) = c :: r) by exact Hb.
  assert (Hkq : (containerKind (withState p stOpening) =? ParagraphKind) = false) by exact Hk.
  apply tryStarts_id; [|discriminate].
  intros f Hin. unfold blockStarts in Hin. cbn [In] in Hin.
  destruct Hin as [<-|[<-|[<-|[<-|[<-|[<-|[<-|[<-|[]]]]]]]]].
  - apply (st2_bq _ c r Hiq Hbq Hc).
  - apply (st2_atx _ c r Hiq Hbq Hc).
  - apply (st2_fenced _ c r Hiq Hbq Hc).
  - apply (st2_html _ c r Hiq Hbq Hc).
  - apply (st_setext _ Hkq).
  - apply (st2_thematic _ c r Hiq Hbq Hc).
  - apply (st2_list _ c r Hiq Hbq Hm).
  - apply (st2_indented _ Hiq).
Qed.

Lemma opening_loop_text2 f p c r : indent p = 0 -> bytesAfterIndent p = c :: r -> paraStart2 c = true ->
  (containerKind p =? ParagraphKind) = false -> acceptsLines (containerKind p) = false ->
  snd (parseListMarker (c :: r)) < 0 -> opening_loop (S f) p = (true, withState p stOpening).
Proof.
  intros Hi Hb Hc Hk Ha Hm. cbn [opening_loop]. rewrite Hk, Ha. cbn [orb negb].
  rewrite (tryStarts_none2 p c r Hi Hb Hc Hk Hm). reflexivity.
Qed.

(* ---- SlicePara.parseBlocks_one_para with the weaker first-byte condition ---- *)
Lemma processLine_first_para2 src ls c r : from_ src ls = c :: r -> paraStart2 c = true ->
  snd (parseListMarker (c :: r)) < 0 ->
  processLine 0 [] ls src = ([paraOpen ls (ls + len (c :: r))], stOpenMatched, 0).
Proof.
  intros Hl Hc Hm. unfold processLine, resetLP. rewrite Hl.
  set (p0 := {| source := src; root := Blk documentKind 0 (-1) [] [] 0 0 0 false false; container := Some 0%nat;
               lineStart := ls; line := c :: r; li := 0; col := 0; tabRem := computeTabRem (c :: r) 0 0; state := 0; panicked := 0 |}).
  assert (Hd : descendOpenBlocks p0 = (true, p0)) by reflexivity.
  rewrite Hd. change (negb (state p0 =? stDescendTerminated)) with true. cbv iota.
  assert (Hal : atLine p0 c r) by (split; reflexivity).
  assert (Ho : openNewBlocks p0 true = (true, withState p0 stOpening)).
  { unfold openNewBlocks. change (line p0) with (c :: r).
    destruct (Z.eqb_spec (len (c :: r)) 0) as [E|_]; [rewrite sl_len_cons in E; pose proof (sl_len_nonneg r); lia|].
    cbn [length]. rewrite (opening_loop_text2 _ p0 c r); try reflexivity; try assumption.
    - apply (al_indent p0 c r Hal (ps2_sptab c Hc)).
    - apply (al_bai p0 c r Hal (ps2_sptab c Hc)). }
  rewrite Ho.
  assert (Hal' : atLine (withState p0 stOpening) c r) by (split; reflexivity).
  rewrite (addLineText_open_para (withState p0 stOpening) c r Hal' (ps2_ws c Hc) eq_refl eq_refl eq_refl).
  cbn [root setLP bkids rootDoc state panicked withState p0 lineStart li line].
  rewrite Z.add_0_r. reflexivity.
Qed.

Theorem parseBlocks_one_para2 c r :
  let body := c :: r in let L := body ++ [10] in
  noEolB body -> noNul body -> paraStart2 c = true -> c <> 91 -> snd (parseListMarker L) < 0 ->
  parseBlocks L = ([oneRoot L (paraClosed 0 (len L) (len L))], 0).
Proof.
  intros body L Heol Hnul Hc H91 Hm.
  assert (HnulL : noNul L) by (apply noNul_app; [exact Hnul|constructor; [lia|constructor]]).
  assert (HL : L = c :: (r ++ [10])) by reflexivity.
  assert (Hlen : 0 < len L) by (rewrite HL, sl_len_cons; pose proof (sl_len_nonneg (r ++ [10])); lia).
  assert (Hc0 : c <> 0) by (inversion Hnul; assumption).
  unfold parseBlocks. rewrite (pad_noNul L HnulL).
  assert (Hfuel : exists f, length L = S (S f)).
  { rewrite HL. cbn [length]. rewrite app_length. cbn [length]. exists (length r). lia. }
  destruct Hfuel as [f Hf]. rewrite Hf.
  rewrite sl_allBlocks_S. cbn [buf]. rewrite Hf. rewrite sl_nextBlock_start.
  change (3 + S (S f))%nat with (S (S (S (S (S f))))). rewrite sl_skipLoop_S. cbv zeta. cbn [buf bi boff bline pending].
  assert (Hle : lineEnd L 0 = len L).
  { change L with ([] ++ body ++ [10]). change 0 with (len (@nil Z)) at 1. rewrite (lineEnd_lf [] body [] Heol).
    rewrite !sl_len_app. rewrite sl_len_nil. change (len [10]) with 1. lia. }
  rewrite Hle. destruct (Z.ltb_spec 0 (len L)); [|lia]. cbn [negb]. rewrite sl_upto_all.
  rewrite HL at 1. rewrite (noEolB_blank_hd c (r ++ [10]) (ps2_ws c Hc)).
  rewrite sl_lineLoop_S. cbn [buf bi boff bline pending]. rewrite sl_upto_all.
  rewrite (processLine_first_para2 L 0 c (r ++ [10]) eq_refl Hc Hm).
  change (negb (0 =? 0)) with false. cbv iota. cbn [makeRoot paraOpen isOpen bend Z.ltb Z.compare].
  rewrite sl_lineLoop_S. cbn [buf bi boff bline pending].
  rewrite lineEnd_end. rewrite sl_upto_all.
  rewrite <- HL. rewrite Z.add_0_l.
  rewrite (processLine_eof_para stOpenMatched L 0 (len L)); [|lia|lia|lia|rewrite HL; exact Hc0|rewrite HL; exact H91].
  change (negb (0 =? 0)) with false. cbv iota. unfold makeRoot, paraClosed. unfold isOpen. cbn [bend buf bi boff bline pending].
  destruct (Z.ltb_spec (len L) 0); [lia|]. rewrite sl_upto_all, sl_from_all, Z.sub_diag.
  rewrite (unpadded_noNul L HnulL), (fillNulls_noNul L HnulL).
  rewrite sl_allBlocks_S. cbn [buf length Nat.add map app]. rewrite nextBlock_eof.
  unfold oneRoot. rewrite Z.add_0_l. reflexivity.
Qed.
