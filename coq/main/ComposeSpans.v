From Coq Require Import List ZArith Lia Bool.
Import ListNotations.
Require Import Base Tables Utf8 Tree Rdr Link Collect Html Recog Inl3a Inl3b Inl3c Inl3d Inl3e LP Rules Starts Driver Props.
Require L2Kind2.
Require Import BSDef BSTree BlockSpans BShDef BlockShapes BlockShapesNul.
Require Import ShapesBase SpanHypDef SpanHyp.
Require Import EntBase EntRdr1 EntOcpDefs En2Tree En2Drv EntDefs En2OK ComposeBase EntTest.
Open Scope Z_scope.

(* ================================================================================================
   T45 (2): SpanHypDef.entriesOKroots (fst (parseBlocks input)), property C02 at the inline level.

   PROVED here for every input: every clause of SpanHypDef.entriesOKX (entriesBasicX, kindsOKX, indentsOKX, linesOKX, and
   tailOKX for ATX headings) on every leaf the inline parser runs on.
   NOT PROVED: tailOKX for Paragraph / SetextHeading leaves.  What is missing is exactly `paraTailRoots` below: the byte of the
   root's Source just after the last entry of a paragraph / setext heading, when there is one, is not ')'.
   (That byte is the first byte of the line that closed the paragraph: a container prefix byte, a blank, or the first byte of
   a block start, never ')'; but the block-layer invariant `en` does not record that the last entry of an OPEN paragraph ends
   exactly at the start of the line being processed, which is what is needed to identify that byte at closing time.)
   parseBlocks_entriesOKroots_partial reduces the wanted statement to paraTailRoots, an executable check; it evaluates to true
   on the sample documents (Example below), as does entriesOKroots itself.
   ================================================================================================ *)
Definition paraTail (src : bytes) (b : block) : bool :=
  if (bkind b =? ParagraphKind) || (bkind b =? SetextHeadingKind) then
    match rev (bik b) with L :: _ => (len src <=? iend L) || negb (at_ src (iend L) =? 41) | [] => true end
  else true.
Fixpoint paraTailB (fuel : nat) (src : bytes) (b : block) : bool :=
  match fuel with
  | O => true
  | S f => if isLeafU b then paraTail src b else forallb (paraTailB f src) (bkids b)
  end.
Definition paraTailRoots (roots : list rootB) : bool :=
  forallb (fun r => paraTailB (bheight (rb_blk r)) (rb_src r) (rb_blk r)) roots.

Definition sample_docs : list bytes :=
  [q_quote; q_list; q_nested; q_lazy; q_tab; q_tabq; q_tick; q_tickq; q_cs; q_cr; q_nul; q_def; q_setext; q_atx; q_atx0; q_atx1].
Example spans_samples :
  forallb (fun d => entriesOKroots (fst (parseBlocks d)) && paraTailRoots (fst (parseBlocks d))) sample_docs = true.
Proof. vm_compute. reflexivity. Qed.

Lemma ordered_inX_eq2 : forall ks lo hi, ordered_inX lo hi ks = ordered_in lo hi ks.
Proof. induction ks as [|k r IH]; intros lo hi; [reflexivity|]. cbn [ordered_inX ordered_in]. rewrite IH. reflexivity. Qed.

Lemma lines_ind B E : forall ik u, lines B E ik -> In u ik -> ikind u = IndentKind -> iend u = istart u + 1 /\ iindent u <= 3.
Proof.
  induction ik as [|v r IH]; intros u Hl Hin Hk; [destruct Hin|]. destruct Hin as [<-|Hin]; [|apply IH; [eapply lines_tail; exact Hl|exact Hin|exact Hk]].
  destruct (lines_head_cases _ _ _ _ Hl) as [(X & _)|[(_ & _ & _ & X1 & _ & X2) _]]; [rewrite Hk in X; discriminate|lia].
Qed.

Lemma last_rev {A} (l : list A) x r : rev l = x :: r -> In x l.
Proof. intros H. apply in_rev. rewrite H. left. reflexivity. Qed.

Section Root.
  Variables (B pre src pre' : bytes) (M n : Z).
  Hypothesis Hn : 0 <= n <= len B.
  Hypothesis Epre : pre = upto B n.
  Hypothesis Esrc : src = fillNulls pre.
  Hypothesis Htri : tri pre.
  Hypothesis Lp' : len pre' = n.
  Notation facts := (facts B pre' M).

  Lemma Ls : len src = n. Proof. apply (src_len B pre src n Hn Epre Esrc). Qed.
  Lemma Seol i : 0 <= i < n -> isEOLbX (at_ src i) = ((at_ B i =? 10) || (at_ B i =? 13)).
  Proof. intros Hi. unfold isEOLbX. apply (src_eol B pre src n Epre Esrc Htri i Hi). Qed.
  Lemma Ssim i : 0 <= i < n -> simz (at_ B i) (at_ src i).
  Proof. apply (src_simz B pre src n Epre Esrc Htri). Qed.

  Lemma stle_src i : 0 <= i < n -> isSTLEz (at_ B i) -> isSpaceTabOrLineEnding (at_ src i) = true.
  Proof.
    intros Hi Hz. pose proof (Ssim i Hi) as Hs. unfold isSTLEz in Hz.
    assert (E : at_ src i = at_ B i) by (eapply simz_eq; [exact Hs|reflexivity|lia]). rewrite E. unfold isSpaceTabOrLineEnding.
    destruct Hz as [->|[->|[->| ->]]]; reflexivity.
  Qed.
  Lemma not41_src i : 0 <= i < n -> at_ B i <> 41 -> (at_ src i =? 41) = false.
  Proof.
    intros Hi Hz. apply Z.eqb_neq. destruct (Ssim i Hi) as [[[_ ->]|[_ [->|[->| ->]]]]|[_ ->]]; try exact Hz; discriminate.
  Qed.

  (* the clauses that `lines` gives *)
  Lemma lines_kinds E : forall ik, lines B E ik -> kindsOKX ik = true.
  Proof.
    intros ik H. apply forallb_forall. intros u Hu. destruct (lines_entry B E ik u H Hu) as (_ & _ & _ & _ & [-> | ->]); reflexivity.
  Qed.
  Lemma lines_indents E : forall ik, lines B E ik -> indentsOKX ik = true.
  Proof.
    intros ik H. apply forallb_forall. intros u Hu. destruct (Z.eqb_spec (ikind u) IndentKind) as [Ek|Nk]; [|reflexivity].
    destruct (lines_ind B E ik u H Hu Ek) as [X1 X2]. apply andb_true_iff. split; [apply Z.eqb_eq; exact X1|apply Z.leb_le; exact X2].
  Qed.
  Lemma lines_linesOKX E : E <= n -> forall ik, lines B E ik -> linesOKX src ik = true.
  Proof.
    intros HE. induction ik as [|u r IH]; intros Hl; [reflexivity|]. destruct r as [|v r']; [reflexivity|].
    change (linesOKX src (u :: v :: r')) with
      ((istart u <? iend u) && (if ikind u =? IndentKind then true else isEOLbX (at_ src (iend u - 1))) && linesOKX src (v :: r')).
    rewrite (IH (lines_tail _ _ _ _ Hl)), andb_true_r.
    destruct (lines_entry B E _ u Hl (or_introl eq_refl)) as (A1 & A2 & A3 & _).
    replace (istart u <? iend u) with true by (symmetry; apply Z.ltb_lt; lia). cbn [andb].
    destruct (Z.eqb_spec (ikind u) IndentKind) as [Ek|Nk]; [reflexivity|].
    assert (HU : unpOK B E u) by (destruct (lines_head_cases _ _ _ _ Hl) as [X|[(X & _) _]]; [exact X|contradiction]).
    assert (Hlt : iend u < len B) by (eapply lines_notlast_lt; [exact Hl|lia]).
    pose proof (lines_unp_last B E u HU Hlt) as Hz. rewrite Seol by lia. unfold isEOLz in Hz. destruct Hz as [-> | ->]; reflexivity.
  Qed.

  Lemma leaf_entriesOKX b : facts b -> hasUnparsed b = true -> paraTail src b = true -> entriesOKX src b = true.
  Proof.
    intros Hf Hu Ht. pose proof Ls as Hls.
    destruct (leaf_cases B pre' M n Lp' b Hf Hu) as (S1 & S2 & S3 & [(HK & HL & Hlo)|(HK & a & t & E & D1 & D2 & D3 & D4 & D5 & D6)]).
    - destruct (lines_basic B src (bend b) ltac:(lia) (bik b) (bstart b) HL Hlo) as [X1 X2].
      unfold entriesOKX, entriesBasicX. rewrite ordered_inX_eq2, X1, (X2 (bstart b) ltac:(lia)).
      rewrite (lines_kinds _ _ HL), (lines_indents _ _ HL), (lines_linesOKX _ S3 _ HL). cbn [andb].
      (* the tail *)
      unfold paraTail in Ht. replace ((bkind b =? ParagraphKind) || (bkind b =? SetextHeadingKind)) with true in Ht
        by (symmetry; destruct HK as [-> | ->]; reflexivity).
      unfold tailOKX. destruct (rev (bik b)) as [|L rr] eqn:Er; [reflexivity|]. cbv zeta.
      pose proof (last_rev _ _ _ Er) as HinL. destruct (lines_entry B _ _ L HL HinL) as (A1 & A2 & A3 & _ & Hkind).
      destruct (Z.leb_spec (len src) (iend L)) as [Lp|Lp]; [reflexivity|]. cbn [orb] in *.
      (* the last entry is Unparsed and ends with a line ending *)
      assert (HUL : unpOK B (bend b) L /\ ikind L <> IndentKind).
      { clear Ht X1 X2. assert (G : forall ik, lines B (bend b) ik -> forall rr', rev ik = L :: rr' -> unpOK B (bend b) L /\ ikind L <> IndentKind).
        { induction ik as [|u r IH]; intros Hl rr' Hr; [discriminate|]. destruct r as [|v r'].
          - cbn in Hr. inversion Hr; subst. destruct (lines_head_cases _ _ _ _ Hl) as [X|[_ (v & r' & X & _)]]; [|discriminate].
            split; [exact X|]. destruct X as (X & _). rewrite X. discriminate.
          - cbn [rev] in Hr. destruct (rev r' ++ [v]) as [|z zs] eqn:Ez; [destruct (rev r'); discriminate|].
            cbn [app] in Hr. inversion Hr; subst. apply (IH (lines_tail _ _ _ _ Hl) zs). cbn [rev]. exact Ez. }
        exact (G _ HL rr Er). }
      destruct HUL as [HUL NI]. assert (Hlt : iend L < len B) by lia.
      pose proof (lines_unp_last B _ L HUL Hlt) as Hz.
      apply orb_true_iff. left. apply orb_true_iff. right.
      replace (ikind L =? IndentKind) with false by (symmetry; apply Z.eqb_neq; exact NI). cbn [negb andb].
      replace (istart L <? iend L) with true by (symmetry; apply Z.ltb_lt; lia). cbn [andb].
      rewrite (stle_src (iend L - 1) ltac:(lia)) by (unfold isSTLEz; destruct Hz as [-> | ->]; lia). cbn [andb]. exact Ht.
    - unfold entriesOKX, entriesBasicX. rewrite E. unfold mkI.
      cbn [ordered_inX forallb kindsOKX indentsOKX linesOKX tailOKX rev app ikind istart iend].
      rewrite (spansI_leaf src (bstart b) (bend b) (Inl UnparsedKind a t 0 [] []) eq_refl) by (cbn [istart iend]; lia).
      replace (bstart b <=? a) with true by (symmetry; apply Z.leb_le; lia). replace (t <=? bend b) with true by (symmetry; apply Z.leb_le; lia).
      change (UnparsedKind =? UnparsedKind) with true. change (UnparsedKind =? IndentKind) with false. cbn [andb orb negb]. cbv zeta.
      destruct (Z.leb_spec (len src) t) as [Lp|Lp]; [reflexivity|]. cbn [orb].
      destruct (Z.eqb_spec a t) as [Eat|Nat]; [apply orb_true_r|]. rewrite orb_false_r.
      destruct D6 as [X|[X|[X|[X1 X2]]]]; [lia|lia| |].
      + rewrite (stle_src t ltac:(lia) X). reflexivity.
      + rewrite (stle_src (t - 1) ltac:(lia) X1), (not41_src t ltac:(lia) X2).
        replace (a <? t) with true by (symmetry; apply Z.ltb_lt; lia). apply orb_true_r.
  Qed.

  Lemma root_entriesOKB : forall fuel b, facts b -> paraTailB fuel src b = true -> entriesOKB fuel src b = true.
  Proof.
    induction fuel as [|f IH]; intros b Hf Ht; [reflexivity|]. cbn [entriesOKB paraTailB] in *. destruct (isLeafU b) eqn:El.
    - unfold isLeafU in El. apply andb_true_iff in El. apply leaf_entriesOKX; [exact Hf|exact (proj2 El)|exact Ht].
    - rewrite forallb_forall in Ht. apply forallb_forall. intros c Hc. apply IH; [eapply facts_kids; eassumption|apply Ht, Hc].
  Qed.
End Root.

Theorem parseBlocks_entriesOKroots_partial : forall input,
  paraTailRoots (fst (parseBlocks input)) = true -> entriesOKroots (fst (parseBlocks input)) = true.
Proof.
  intros input HT. unfold entriesOKroots. unfold paraTailRoots in HT. rewrite forallb_forall in HT. apply forallb_forall. intros r Hr.
  destruct (root_facts input r Hr) as (B & pre' & M & Hn & Es & Ht & Lp & Hf).
  apply (root_entriesOKB B (upto B (bend (rb_blk r))) (rb_src r) pre' M (bend (rb_blk r)) Hn eq_refl Es Ht Lp); [exact Hf|apply HT, Hr].
Qed.
Print Assumptions parseBlocks_entriesOKroots_partial.

(* C02 at the inline level, for every input whose paragraphs pass the residual check *)
Theorem parseBlocks_inline_spans_partial : forall input matcher, paraTailRoots (fst (parseBlocks input)) = true ->
  forallb (fun r => spansAfter (bheight (rb_blk r)) (rb_src r) matcher (rb_blk r)) (fst (parseBlocks input)) = true.
Proof. intros input matcher H. apply rewrite_roots_inline_spans, parseBlocks_entriesOKroots_partial, H. Qed.
Print Assumptions parseBlocks_inline_spans_partial.
