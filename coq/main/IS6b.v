From Coq Require Import List ZArith Lia Bool.
Import ListNotations.
Require Import Base Tables Utf8 Tree Rdr Link Collect Html Recog Inl3a Inl3b Inl3c Inl3d Inl3e Props PEProof.
Require Import Leaf3e GI0 GI1 GI7 ShapesBase ShapesA ShapesR ShapesCS ShapesHT Shapes IS0 IS2 IS1 IS3 IS6a IS8c.
Open Scope Z_scope.

(* ================================================================== *)
(* IS6b: scanner facts used by the tokeniser step: lines, hard breaks, *)
(* where a code span's closing run lies, collectCodeSpan.              *)
(* ================================================================== *)

(* ---------------------------------------------------------------- entries are lines *)
(* an entry that is not an Indent span is a line: line-ending bytes only as a suffix, which is non-empty unless the
   entry is the last one *)
Fixpoint linesOK (src : bytes) (sp : list inline) : bool :=
  match sp with
  | [] => true
  | i :: r =>
    (if ikind i =? IndentKind then true
     else
       let t := sub src (istart i) (iend i) in
       forallb (fun c => negb (isEol c)) (trimEOLr t) && (match r with [] => true | _ => len (trimEOLr t) <? len t end)) && linesOK src r
  end.

Definition lineAt (src : bytes) (u : inline) (m : Z) : Prop :=
  istart u <= m <= iend u /\ (forall i, istart u <= i < m -> isEol (at_ src i) = false) /\ (forall i, m <= i < iend u -> isEol (at_ src i) = true).

Lemma line_of_trim src u : 0 <= istart u -> istart u <= iend u -> iend u <= len src ->
  forallb (fun c => negb (isEol c)) (trimEOLr (sub src (istart u) (iend u))) = true ->
  lineAt src u (istart u + len (trimEOLr (sub src (istart u) (iend u)))).
Proof.
  intros A B C Hb. set (t := sub src (istart u) (iend u)) in *.
  destruct (trimEOLr_split t) as (eol & Et & He).
  assert (Hl : len t = iend u - istart u) by (apply len_sub_in; lia).
  assert (Hl2 : len t = len (trimEOLr t) + len eol) by (rewrite Et at 1; apply ShapesBase.len_app).
  pose proof (ShapesBase.len_nonneg (trimEOLr t)). pose proof (ShapesBase.len_nonneg eol).
  split; [lia|]. split.
  - intros i Hi. replace (at_ src i) with (at_ t (i - istart u)) by (unfold t; rewrite at_sub by lia; f_equal; lia).
    rewrite Et, at_app_l by lia. pose proof (at_forallb _ _ Hb (i - istart u) ltac:(lia)) as Hc. apply negb_true_iff in Hc. exact Hc.
  - intros i Hi. replace (at_ src i) with (at_ t (i - istart u)) by (unfold t; rewrite at_sub by lia; f_equal; lia).
    rewrite Et, at_app_r by lia. apply (at_forallb _ _ He). lia.
Qed.

Lemma linesOK_nth src : forall sp k, linesOK src sp = true -> (k < length sp)%nat ->
  let u := nth k sp (mkI 0 0 0) in
  ikind u <> IndentKind ->
     forallb (fun c => negb (isEol c)) (trimEOLr (sub src (istart u) (iend u))) = true /\
     ((S k < length sp)%nat -> len (trimEOLr (sub src (istart u) (iend u))) < len (sub src (istart u) (iend u))).
Proof.
  induction sp as [|x r IH]; intros k H Hk; [cbn in Hk; lia|]. cbn [linesOK] in H. apply andb_true_iff in H. destruct H as [Hx Hr].
  destruct k as [|k].
  - cbn [nth]. destruct (Z.eqb_spec (ikind x) IndentKind) as [Ek|Ek]; [intros; contradiction|].
    intros _. apply andb_true_iff in Hx. destruct Hx as [H1 H2]. split; [exact H1|].
    intros Hlen. destruct r; [cbn in Hlen; lia|]. apply Z.ltb_lt in H2. exact H2.
  - cbn [nth length] in *. intros Hne. destruct (IH k Hr ltac:(lia) Hne) as [J1 J2].
    split; [exact J1|]. intros Hlen. apply J2. lia.
Qed.

(* ---------------------------------------------------------------- nodeIdx finds a span that is there *)
Lemma nodeIdx_found src : forall sp p k node, spOK src sp = true -> In node sp -> spanHas node p = true -> 0 <= k -> k <= nodeIdx sp p k.
Proof.
  induction sp as [|i r IH]; intros p k node H Hin Hh Hk; [contradiction|]. cbn [nodeIdx].
  pose proof (spOK_cons _ _ _ H) as (A & B & C & D & F & G). pose proof (spanHas_range _ _ Hh) as (R1 & R2 & R3).
  destruct (Z.ltb_spec p (istart i)) as [L|L].
  - exfalso. destruct Hin as [->|Hin]; [lia|]. destruct (C node Hin) as (C1 & _). lia.
  - destruct (spanHas i p) eqn:Ei; [lia|]. destruct Hin as [->|Hin]; [congruence|].
    specialize (IH p (k + 1) node G Hin Hh ltac:(lia)). lia.
Qed.

(* ---------------------------------------------------------------- where a code span's closing run starts *)
Section CSin.
  Variable src : bytes.
  Variable sp0 : list inline.
  Notation RJ := (RJ src sp0).

  Lemma InNode_has r : RJ r -> InNode r -> exists node, In node sp0 /\ spanHas node (r_pos r) = true.
  Proof.
    intros (_ & HS) (node & Hn). destruct (curNode_cases r) as [E|(pre & n & rest & E1 & E & E3)]; rewrite E in Hn; cbn [fst] in Hn; [discriminate|].
    inversion Hn; subst node. exists n. split; [|exact E3]. apply HS. rewrite E1. apply in_or_app. right. left. reflexivity.
  Qed.

  Lemma cs_close_in blen : 1 <= blen -> forall fuel r ce se, RJ r -> InNode r ->
    mu src r < Z.of_nat fuel ->
    cs_close fuel r blen = (ce, se) -> 0 <= se -> exists node, In node sp0 /\ spanHas node ce = true.
  Proof.
    intros Hb. induction fuel as [|f IH]; intros r ce se HJ HI Hmu H Hse; [inversion H; lia|].
    cbn [cs_close] in H. destruct (Z.eqb_spec (cur r) 96) as [Ec|Ec]; cbn [negb] in H.
    - pose proof HJ as ((Hs & _) & _). destruct (cur_tick src r Hs Ec) as (Ht & _).
      destruct (current_fields r) as (F1 & F2 & F3 & F4). cbv zeta in *.
      destruct (cs_run (S f) (snd (current r)) 1) as [[r1 k] alive] eqn:Er.
      destruct (cs_run_spec src sp0 (S f) (snd (current r)) 1 r1 k alive (RJ_current src sp0 _ HJ) (InNode_current _ HI)
                  ltac:(rewrite F2; exact Ht) ltac:(rewrite mu_current; exact Hmu) Er) as (A & B & C & D & E).
      rewrite F2 in *. rewrite mu_current in D.
      destruct (Z.eqb_spec k blen) as [Ek|Ek].
      + inversion H; subst ce se. apply InNode_has; assumption.
      + destruct (next r1) as [ok r2] eqn:En. destruct ok; cbn [negb] in H; [|inversion H; lia].
        destruct alive; [|destruct (E eq_refl) as (E1 & _); rewrite ?En in E1; cbn in E1; discriminate].
        destruct (D eq_refl) as (D1 & D2 & D3 & D4 & D5).
        pose proof (cur_not_tick src r1 (proj1 D1) D4) as Hnt.
        destruct (nontick_step src sp0 r1 r2 D1 Hnt En) as (N1 & N2 & N3 & N4 & N5 & N6).
        apply (IH r2 ce se N1 N2 ltac:(lia) H Hse).
    - rewrite next_current in H. destruct (next r) as [ok r'] eqn:En. destruct ok; cbn [negb] in H; [|inversion H; lia].
      pose proof (cur_not_tick src r (proj1 HJ) Ec) as Hnt.
      destruct (nontick_step src sp0 r r' HJ Hnt En) as (N1 & N2 & N3 & N4 & N5 & N6).
      apply (IH r' ce se N1 N2 ltac:(lia) H Hse).
  Qed.

  Lemma cs_open_ge B : forall fuel r n cstart, RJ r -> B <= r_pos r -> B <= cstart -> B <= snd (cs_open fuel r n cstart).
  Proof.
    induction fuel as [|f IH]; intros r n cstart HJ Hr Hc; [exact Hc|]. cbn [cs_open].
    destruct (cur r =? 96); [|exact Hc]. rewrite next_current. destruct (next r) as [ok r1] eqn:En. destruct ok; cbn [negb snd].
    - destruct (next_step src r r1 (proj1 HJ) En) as (A1 & _ & _ & Hcase).
      assert (Hp : r_pos r <= r_pos r1) by (destruct Hcase as [(P & _)|[(P & _)|(P & _)]]; lia).
      apply IH; [split; [exact A1|eapply RJ_next; eassumption]|lia|lia].
    - destruct (next_false_pos r r1 En) as (P & _). lia.
  Qed.
End CSin.

Lemma parseCodeSpan_in0 fuel st start cS cE sE :
  spOK (isrc st) (unpFrom st) = true ->
  len (isrc st) - start + ibudget (unpFrom st) < Z.of_nat fuel ->
  parseCodeSpan fuel st start = (cS, cE, sE) -> 0 <= sE ->
  0 <= nodeIndexForPosition (unpFrom st) cE.
Proof.
  intros Hok Hfuel H Hse.
  unfold parseCodeSpan in H. set (src := isrc st) in *. set (sp0 := unpFrom st) in *.
  set (r0 := newReader src sp0 start) in *.
  assert (HJ0 : RJ src sp0 r0) by (split; [split; [reflexivity|exact Hok]|apply sublist_refl]).
  assert (Hmu0 : mu src r0 < Z.of_nat fuel).
  { pose proof (mu_le_start src r0 ltac:(cbn; lia)) as Hm. cbn [r0 newReader r_pos r_spans] in Hm. lia. }
  destruct (cs_open fuel r0 0 start) as [[[[r1 n] c1]|] c2] eqn:Eo; [|inversion H; lia].
  destruct (cs_open_spec src sp0 _ _ _ _ _ _ _ _ HJ0 Eo) as (A & B & C & D & E & F & G & M).
  destruct (cs_close fuel r1 n) as [ce se] eqn:Ecl. inversion H; subst cS cE sE. clear H.
  destruct (Z.lt_ge_cases n 1) as [Hn|Hn]; [rewrite (cs_close_zero n Hn) in Ecl; inversion Ecl; lia|].
  destruct (F ltac:(lia)) as (HI1 & Ec1).
  destruct (cs_close_in src sp0 n Hn fuel r1 ce se A HI1 ltac:(lia) Ecl Hse) as (node & Hin & Hh).
  unfold nodeIndexForPosition. apply (nodeIdx_found src sp0 ce 0 node Hok Hin Hh). lia.
Qed.
Lemma parseCodeSpan_in fuel st start cS cE sE :
  spOK (isrc st) (unpFrom st) = true ->
  len (isrc st) - start + ibudget (unpFrom st) < Z.of_nat fuel ->
  parseCodeSpan fuel st start = (cS, cE, sE) -> 0 <= sE ->
  0 <= nodeIndexForPosition (unpFrom st) cE /\ cE <= sE.
Proof.
  intros Hok Hfuel H Hse. split; [eapply parseCodeSpan_in0; eassumption|].
  destruct (parseCodeSpan_shape fuel st start cS cE sE Hok Hfuel H Hse) as (n0 & Hn0 & _ & _ & EsE & _). lia.
Qed.

Lemma parseCodeSpan_cS_ge fuel st start cS cE sE : spOK (isrc st) (unpFrom st) = true ->
  parseCodeSpan fuel st start = (cS, cE, sE) -> start <= cS.
Proof.
  intros Hok H. unfold parseCodeSpan in H. set (src := isrc st) in *. set (sp0 := unpFrom st) in *.
  set (r0 := newReader src sp0 start) in *.
  assert (HJ0 : RJ src sp0 r0) by (split; [split; [reflexivity|exact Hok]|apply sublist_refl]).
  pose proof (cs_open_ge src sp0 start fuel r0 0 start HJ0 ltac:(cbn; lia) ltac:(lia)) as Hge.
  destruct (cs_open fuel r0 0 start) as [[[[r1 n] c1]|] c2] eqn:Eo; cbn [snd] in Hge.
  - destruct (cs_open_spec src sp0 _ _ _ _ _ _ _ _ HJ0 Eo) as (A & B & C & D & E & F & G & M).
    destruct (cs_close fuel r1 n) as [ce se]. inversion H; subst.
    destruct (Z.eq_dec n 0) as [->|Hn]; [destruct (G eq_refl) as (-> & _); lia|]. destruct (F ltac:(lia)) as (_ & ->). cbn [r0 newReader r_pos] in C. lia.
  - inversion H; subst. exact Hge.
Qed.

(* ---------------------------------------------------------------- collectCodeSpan: the cursor afterwards *)
Lemma collectCodeSpan_sameF st a b c d : 0 <= nodeIndexForPosition (unpFrom st) d ->
  sameF (advanceTo st d) (collectCodeSpan st a b c d).
Proof.
  intros Hn. unfold collectCodeSpan. cbv zeta. unfold advanceTo. destruct (Z.leb_spec 0 (nodeIndexForPosition (unpFrom st) d)); [|lia].
  destruct (Z.eqb_spec (nodeIndexForPosition (unpFrom st) d) 0) as [E0|E0].
  - rewrite E0. eapply sameF_trans; [|apply addNode_sameF]. repeat split. cbn. lia.
  - match goal with |- context [?F (Z.to_nat _) (cs_addSpan (isrc st) [] ?x ?y) (upos st)] =>
      assert (HM : forall k acc up, snd (F k acc up) = up + Z.of_nat k) end.
    { induction k as [|k IHk]; intros acc up; [cbn; lia|]. cbn [snd]. rewrite IHk. lia. }
    match goal with |- context [?F (Z.to_nat ?n) (cs_addSpan (isrc st) [] ?x ?y) (upos st)] =>
      specialize (HM (Z.to_nat n) (cs_addSpan (isrc st) [] x y) (upos st));
      destruct (F (Z.to_nat n) (cs_addSpan (isrc st) [] x y) (upos st)) as [acc up] end.
    cbn [snd] in HM. eapply sameF_trans; [|apply addNode_sameF]. repeat split. cbn [upos setUpos]. lia.
Qed.

(* ---------------------------------------------------------------- children of a code span *)
Lemma csT_zok src l : Forall csT l -> forallb (zok src) l = true.
Proof.
  intros H. apply forallb_forall. intros x Hx. rewrite Forall_forall in H. destruct (H x Hx) as (H1 & H2 & H3).
  destruct x as [i k s e ind rf ks]. cbn [pid pkind pkids] in *. subst i ks. cbn [zok forallb]. cbn [Z.eqb andb].
  replace (isC k) with false; [reflexivity|]. symmetry. unfold txk in H2.
  repeat (apply orb_true_iff in H2; destruct H2 as [H2|H2]); apply Z.eqb_eq in H2; subst k; reflexivity.
Qed.
Lemma collectCodeSpan_kids src U hi st a b c d : J src U hi st -> nOK src CodeSpanKind a b = true ->
  (forall n, 0 <= istart (nth n (unp st) (mkI 0 0 0)) /\ iend (nth n (unp st) (mkI 0 0 0)) <= len src) -> 0 <= c -> d <= len src ->
  J src U hi (collectCodeSpan st a b c d).
Proof.
  intros HJ Hc HUb Hc0 Hd. pose proof (j_src _ _ _ _ HJ) as Esrc.
  assert (Hb : b <= len src) by (unfold nOK in Hc; apply andb_true_iff in Hc; destruct Hc as [Hv _]; apply span_valid_elim in Hv; lia).
  unfold collectCodeSpan. cbv zeta. rewrite Esrc.
  destruct (nodeIndexForPosition (unpFrom st) d =? 0).
  - destruct (cvT_both src _ (strip_cvT src _ (cs_addSpan_cvT src [] c d Hc0 Hd (Forall_nil _)))) as (K1 & K2).
    apply J_addNode; [exact HJ|intros _; exact Hc|apply csT_zok; exact K1|exact Hb|exact K2].
  - match goal with |- context [?F (Z.to_nat _) (cs_addSpan src [] ?x ?y) (upos st)] =>
      assert (HM : forall k acc up, Forall (cvT src) acc -> Forall (cvT src) (fst (F k acc up))) end.
    { induction k as [|k IHk]; intros acc up Ha; [exact Ha|]. cbn [fst]. apply IHk.
      destruct (ikind _ =? UnparsedKind); [apply cs_addSpan_cvT; [apply HUb|apply HUb|exact Ha]|exact Ha]. }
    match goal with |- context [?F (Z.to_nat ?n) (cs_addSpan src [] ?x ?y) (upos st)] =>
      specialize (HM (Z.to_nat n) (cs_addSpan src [] x y) (upos st) (cs_addSpan_cvT src [] x y Hc0 ltac:(apply HUb) (Forall_nil _)));
      destruct (F (Z.to_nat n) (cs_addSpan src [] x y) (upos st)) as [acc up] end.
    cbn [fst] in HM.
    match goal with |- context [stripCodeSpanSpace src (cs_addSpan src acc ?x d)] =>
      destruct (cvT_both src _ (strip_cvT src _ (cs_addSpan_cvT src acc x d ltac:(apply HUb) Hd HM))) as (K1 & K2) end.
    apply J_addNode; [apply J_setUpos; exact HJ|intros _; exact Hc|apply csT_zok; exact K1|exact Hb|exact K2].
Qed.

(* ---------------------------------------------------------------- line-ending runs *)
Lemma eolRun_spec src lim : forall fuel e0,
  e0 <= eolRun fuel src e0 lim /\ (forall i, e0 <= i < eolRun fuel src e0 lim -> isEol (at_ src i) = true) /\
  (e0 <= lim -> eolRun fuel src e0 lim <= lim).
Proof.
  induction fuel as [|f IH]; intros e0; cbn [eolRun]; [repeat split; intros; lia|].
  destruct (Z.ltb_spec e0 lim) as [L|L]; cbn [andb]; [|repeat split; intros; lia].
  destruct ((at_ src e0 =? 10) || (at_ src e0 =? 13)) eqn:E; [|repeat split; intros; lia].
  destruct (IH (e0 + 1)) as (H1 & H2 & H3). split; [lia|]. split; [|intros; apply H3; lia].
  intros i Hi. destruct (Z.eq_dec i e0) as [->|Hne]; [exact E|]. apply H2. lia.
Qed.
Lemma eolRun_step src lim f e0 : e0 < lim -> isEol (at_ src e0) = true -> e0 + 1 <= eolRun (S f) src e0 lim.
Proof.
  intros L E. cbn [eolRun]. destruct (Z.ltb_spec e0 lim); [|lia]. unfold isEol in E. rewrite E. cbn [andb].
  destruct (eolRun_spec src lim f (e0 + 1)) as (Hge & _). exact Hge.
Qed.

Lemma hlb_nonneg rem : 0 <= fst (parseHardLineBreakSpace rem).
Proof.
  unfold parseHardLineBreakSpace. destruct rem as [|c0 rem]; [cbn; lia|].
  destruct (Z.eq_dec c0 32) as [->|N0].
  2:{ destruct c0 as [|p|p]; try (cbn; lia). do 6 (destruct p as [p|p|]; try (cbn; lia)). }
  destruct rem as [|c1 rem]; [cbn; lia|].
  destruct (Z.eq_dec c1 32) as [->|N1].
  2:{ destruct c1 as [|p|p]; try (cbn; lia). do 6 (destruct p as [p|p|]; try (cbn; lia)). }
  destruct (hlb_rest rem 2) as [e b] eqn:E. cbn [fst]. destruct b.
  - apply hlb_rest_true in E. pose proof (ShapesBase.len_nonneg rem). lia.
  - apply hlb_rest_false in E. lia.
Qed.
