From Coq Require Import List ZArith Lia Bool.
Import ListNotations.
Require Import Base Tree Driver EolFinalDefs EolCRLFDefs.
Open Scope Z_scope.

(* The two unrestricted statements of C14 at the block layer (final newline; LF -> CRLF) are FALSE on the model; the
   witnesses were found while attempting the simulation proofs (copied here from EolFinal.v / EolCRLF.v of coq/slow so that
   the default build does not pay for the bounded-exhaustive evidence in those files):
   - " <?>": the helper `contains` (parse.go:683) loops over i < len b - len search and so misses a match at the very end
     of its argument; a line lacks its line ending only at the end of the input, so an HTML block whose end marker is the
     last bytes of an input without final newline is not closed by its end condition on that line: the tree differs
     (one RawHTML entry for the whole line instead of Indent + RawHTML); the rendering in safe mode does not.
   - a link label of 996 bytes containing three line endings is a label with LF and is not one with CR LF (999 bytes reach
     the limit of parseLinkLabel): known finding D24. *)
Example final_newline_unrestricted_refuted : ~ parseBlocks_final_newline_unrestricted.
Proof.
  intros H. specialize (H [32; 60; 63; 62] ltac:(discriminate) eq_refl). vm_compute in H. discriminate H.
Qed.

Definition longLabelDoc : bytes := [91] ++ repeat 97 990 ++ [10; 98; 10; 99; 10; 100] ++ [93; 58; 32; 120; 10].
Example crlf_unrestricted_refuted : ~ parseBlocks_crlf_unrestricted.
Proof.
  intros H. specialize (H longLabelDoc).
  assert (Hk : map (fun r => bkind (rb_blk r)) (fst (parseBlocks (crlf longLabelDoc))) =
               map (fun r => bkind (rb_blk r)) (fst (map (phiRoot longLabelDoc) (fst (parseBlocks longLabelDoc)), snd (parseBlocks longLabelDoc)))).
  { rewrite <- H; [reflexivity|]. vm_compute. intros G. repeat (destruct G as [G|G]; [discriminate G|]). exact G. }
  vm_compute in Hk. discriminate Hk.
Qed.
Print Assumptions final_newline_unrestricted_refuted.
Print Assumptions crlf_unrestricted_refuted.
