(* ChkE6.v -- T30, stage 3: the entry bounds through the driver; every input whose block-layer output contains no link
   reference definition satisfies ChkW8.entryBounds, hence chkDoc. *)
From Coq Require Import List ZArith Lia Bool.
Import ListNotations.
Require Import Base Tables Utf8 Tree Rdr Link Collect Html Recog Inl3a Inl3b Inl3c Inl3d Inl3e LP Rules Starts Driver Render Props Leaf3e RdrBound
  L2Kind L2Kind2 L2CC L2CCfull L2Bnd L2BndS Rec16 Rec17 Rec18 ShapesBase
  BSDef BSRdr BSTree BSOcp BSOrph BSClose BSLine1 BSLine10 BSShift BlockSpans BShDef ShDef BlockShapes GramDefs GramTree GramLP GramLP4 GramBlocks
  C17chk ChkB ChkW1 ChkW7 ChkW8 ChkE1 ChkE2 ChkE3 ChkE4 ChkE5.
Open Scope Z_scope.

(* ---- the shift of pending blocks ---- *)
Lemma hasRefB_shiftB n : forall b, hasRefB (shiftB n b) = hasRefB b.
Proof.
  fix IH 1. intros [k s e bk ik a nn c l lb]. cbn [shiftB hasRefB]. f_equal.
  induction bk as [|x r IHr]; [reflexivity|]. cbn [map existsb]. rewrite (IH x), IHr. reflexivity.
Qed.
Lemma eb_shift s e U n u : 0 <= n -> n <= U -> (e < 0 \/ n <= e) -> eb s e U u = true ->
  eb (s + - n) (if 0 <=? e then e + - n else e) (U - n) (shiftI (- n) u) = true.
Proof.
  intros Hn HU He. destruct (shiftI_fields (- n) u) as (Es & Ee & Ek). unfold eb, cons3. rewrite Es, Ee, Ek.
  fold (cons3 u). destruct (negb (cons3 u)); [reflexivity|]. cbn [orb]. intros H. apply andb_true_iff in H. destruct H as [A B].
  apply Z.leb_le in A. apply andb_true_iff. split; [apply Z.leb_le; lia|].
  destruct (Z.ltb_spec e 0) as [L|L].
  - replace (0 <=? e) with false by (symmetry; apply Z.leb_gt; lia). replace (e <? 0) with true by (symmetry; apply Z.ltb_lt; lia).
    apply Z.leb_le in B. apply Z.leb_le. destruct (Z.leb_spec 0 (iend u)); lia.
  - replace (0 <=? e) with true by (symmetry; apply Z.leb_le; lia). destruct He as [He|He]; [lia|].
    replace (e + - n <? 0) with false by (symmetry; apply Z.ltb_ge; lia). apply Z.leb_le in B. apply Z.leb_le. destruct (Z.leb_spec 0 (iend u)); lia.
Qed.
Lemma Eb_shift M U n : 0 <= n -> n <= U -> forall b, lbB n b -> Eb M U b = true -> Eb (M - n) (U - n) (shiftB (- n) b) = true.
Proof.
  intros Hn HU. fix IH 1. intros b Hl H. rewrite lbB_eq in Hl. destruct Hl as [Hl1 Hl2]. apply Eb_parts in H. destruct H as (A & B & C).
  destruct b as [K s e bk ik a nn c l lb]. cbn [bstart bend bik bkids] in *. cbn [shiftB]. apply Eb_mk; cbn [bstart bend bik bkids].
  - lia.
  - rewrite forallb_forall in *. intros u Hu. apply in_map_iff in Hu. destruct Hu as (v & <- & Hv). apply eb_shift; try assumption. apply B, Hv.
  - unfold EbL in *. clear A B. induction bk as [|x r IHr]; [reflexivity|]. destruct Hl2 as [L1 L2]. cbn [map forallb] in *.
    apply andb_true_iff in C. destruct C as [C1 C2]. rewrite (IH x L1 C1). apply IHr; assumption.
Qed.
Lemma EP_shift M U n : 0 <= n -> n <= U -> forall l, allP (lbB n) l -> EP M U l = true -> EP (M - n) (U - n) (map (shiftB (- n)) l) = true.
Proof.
  intros Hn HU. induction l as [|c r IH]; intros Hl H; [reflexivity|]. destruct Hl as [L1 L2]. cbn [map EP] in *. rewrite hasRefB_shiftB.
  destruct (hasRefB c); [reflexivity|]. cbn [orb] in *. apply andb_true_iff in H. destruct H as [A B].
  rewrite (Eb_shift M U n Hn HU c L1 A). apply IH; assumption.
Qed.

(* ---- the driver ---- *)
Definition EbX (b : block) : Prop := exists M U, Eb M U b = true.
Definition SJE (s : bpst) (ch : list block) (ns : bool) : Prop := SJ s ch ns /\ gF ch /\ EP (bi s) (bi s) ch = true.
Definition okJE (x : nb) : Prop :=
  match x with
  | NBBlock r s' => hasRefB (rb_blk r) = true \/ (EbX (rb_blk r) /\ exists ns, SJE s' (pending s') ns)
  | _ => True
  end.

Lemma SJE_makeRoot s children ns r s' : SJE s children ns -> makeRoot children s = Some (r, s') ->
  hasRefB (rb_blk r) = true \/ (EbX (rb_blk r) /\ SJE s' (pending s') ns).
Proof.
  intros (HJ & HgF & HW) Hm. destruct (SJ_makeRoot _ _ _ _ _ HJ Hm) as [_ HJ']. destruct (gF_makeRoot _ _ _ _ HgF Hm) as [_ HgF'].
  destruct HJ as (HS & Hcc & Ha & Hch). destruct HS as (Hb & _).
  unfold makeRoot in Hm. destruct children as [|b rest]; [discriminate|].
  destruct (isOpen b) eqn:Eo; [discriminate|]. inversion Hm; subst. clear Hm.
  unfold isOpen in Eo. apply Z.ltb_ge in Eo. destruct Ha as [Sb Sr]. destruct Hch as (C1 & _ & C3).
  pose proof (sp_bounds _ _ Sb) as Hbd. cbn [rb_blk].
  cbn [EP] in HW. destruct (hasRefB b); [left; reflexivity|right]. cbn [orb] in HW. apply andb_true_iff in HW. destruct HW as [HWb HWr].
  split; [exists (bi s), (bi s); exact HWb|]. split; [exact HJ'|]. split; [exact HgF'|]. cbn [buf bi pending].
  apply EP_shift; [lia|lia| |exact HWr].
  apply allP_intro. intros x Hx. apply (sp_lbB (bi s)); [eapply allP_In; eassumption|].
  pose proof (chain_starts _ _ _ x C3 Hx). lia.
Qed.

Lemma SJE_lineLoop : forall fuel st children ls s ns, 0 <= ls <= len (buf s) -> bi s = lineEnd (buf s) ls ->
  bndL ls ns children = true -> (ns = false -> ls = len (buf s)) -> ccF children = true -> kidsOK ls children ->
  gbL children = true -> EP ls ls children = true ->
  okJE (lineLoop fuel st children ls s).
Proof.
  induction fuel as [|f IH]; intros st children ls s ns Hls Hbi Hc Hn Hcc Hk Hgb HW; [exact I|]. cbn [lineLoop].
  destruct (lineEnd_spec (buf s) ls Hls) as [A B]. rewrite <- Hbi in A, B.
  set (ln := from_ (upto (buf s) (bi s)) ls).
  destruct (line_of (buf s) ls (bi s) ltac:(lia) ltac:(lia)) as [Ll _]. fold ln in Ll.
  set (ns' := if ns then hasByteSuffixEOL ln else false).
  assert (Hc' : bndL (bi s) ns' children = true).
  { unfold ns'. destruct ns.
    - pose proof (bndL_mono ls (bi s) children ltac:(lia) Hc) as Hm. destruct (hasByteSuffixEOL ln); [exact Hm|apply bndL_weaken, Hm].
    - rewrite (Hn eq_refl) in *. replace (bi s) with (len (buf s)) by lia. exact Hc. }
  assert (Hn' : ns' = false -> bi s = len (buf s)).
  { unfold ns'. destruct ns; [|intros _; rewrite (Hn eq_refl) in *; lia].
    intros Ee. destruct (Z.lt_ge_cases (bi s) (len (buf s))) as [Lt|Ge]; [|lia].
    exfalso. rewrite Hbi in Lt. pose proof (line_hasEOL (buf s) ls Hls Lt) as Hh. rewrite <- Hbi in Hh. fold ln in Hh. congruence. }
  assert (Hlu : len (upto (buf s) (bi s)) = bi s) by (rewrite ShapesBase.len_upto; lia).
  pose proof (bnd_processLine (bi s) ns' st children ls (upto (buf s) (bi s)) ltac:(lia) ltac:(lia) ltac:(fold ln; lia)
                ltac:(rewrite Hlu; lia) ltac:(unfold ns'; fold ln; destruct ns; [tauto|discriminate]) Hc') as H1.
  pose proof (sp_processLine (bi s) ns' st children ls (upto (buf s) (bi s)) ltac:(lia) ltac:(lia) ltac:(fold ln; lia)
                ltac:(rewrite Hlu; lia) ltac:(unfold ns'; fold ln; destruct ns; [tauto|discriminate]) Hc' Hcc Hk) as H2.
  pose proof (cc_processLine st children ls (upto (buf s) (bi s)) Hcc) as H3.
  pose proof (gb_processLine st children ls (upto (buf s) (bi s)) Hcc Hgb) as H5.
  pose proof (E_processLine st children ls (upto (buf s) (bi s)) ltac:(rewrite Hlu; lia) Hcc Hgb HW) as H4.
  fold ln in H4. replace (ls + len ln) with (bi s) in H4 by lia.
  destruct (processLine st children ls (upto (buf s) (bi s))) as [[children' st'] pn]. cbn [fst] in H1, H2, H3, H4, H5.
  destruct (negb (pn =? 0)); [exact I|].
  assert (HS : SJE s children' ns').
  { split; [split; [repeat split; try lia; assumption|split; assumption]|]. split; [split; assumption|exact H4]. }
  destruct (makeRoot children' s) as [[r s']|] eqn:Em.
  - cbn [okJE]. destruct (SJE_makeRoot _ _ _ _ _ HS Em) as [Hr|[Hr Hs']]; [left; exact Hr|right; split; [exact Hr|eauto]].
  - apply (IH st' children' (bi s) _ ns'); cbn [buf bi]; try assumption; try lia; reflexivity.
Qed.

Lemma SJE_skipLoop : forall fuel s, bi s = 0 -> okJE (skipLoop fuel s).
Proof.
  induction fuel as [|f IH]; intros s Hb; [exact I|]. cbn [skipLoop]. cbv zeta.
  destruct (negb _); [exact I|]. destruct (isBlankLine _); [apply IH; reflexivity|].
  apply (SJE_lineLoop f 0 [] 0 _ true); cbn [buf bi];
    [pose proof (len_nonneg (buf s)); lia|rewrite Hb; reflexivity|reflexivity|discriminate|reflexivity|split; exact I|reflexivity|reflexivity].
Qed.
Lemma SJE_nextBlock fuel s ns : SJE s (pending s) ns -> okJE (nextBlock fuel s).
Proof.
  intros HS. unfold nextBlock. destruct (makeRoot (pending s) s) as [[r s']|] eqn:Em.
  - cbn [okJE]. destruct (SJE_makeRoot _ _ _ _ _ HS Em) as [Hr|[Hr Hs']]; [left; exact Hr|right; split; [exact Hr|eauto]].
  - destruct HS as (((Hb & Hc & Hn) & Hcc & Hk) & [_ Hgb] & HW). destruct (pending s) as [|b0 rest] eqn:Ep; [apply SJE_skipLoop; reflexivity|].
    apply (SJE_lineLoop fuel 0 (b0 :: rest) (bi s) _ ns); cbn [buf bi]; try assumption; try lia; reflexivity.
Qed.

(* the emitted root blocks: those before the first one with a link reference definition satisfy the bounds *)
Fixpoint PREr (l : list rootB) : Prop :=
  match l with [] => True | r :: t => hasRefB (rb_blk r) = true \/ (EbX (rb_blk r) /\ PREr t) end.
Definition refSeen (l : list rootB) : bool := existsb (fun r => hasRefB (rb_blk r)) l.
Lemma PREr_app_ref a b : refSeen a = true -> PREr a -> PREr (a ++ b).
Proof.
  induction a as [|r t IH]; intros H HP; [discriminate|]. cbn [refSeen existsb app PREr] in *.
  destruct (hasRefB (rb_blk r)) eqn:E; [left; reflexivity|]. cbn [orb] in H.
  destruct HP as [HP|[HP1 HP2]]; [discriminate|]. right. split; [exact HP1|apply IH; assumption].
Qed.
Lemma PREr_snoc a r : refSeen a = false -> PREr a -> (hasRefB (rb_blk r) = true \/ EbX (rb_blk r)) -> PREr (a ++ [r]).
Proof.
  induction a as [|x t IH]; intros H HP Hr.
  - cbn [app PREr]. destruct Hr as [Hr|Hr]; [left; exact Hr|right; split; [exact Hr|exact I]].
  - cbn [refSeen existsb app PREr] in *. apply orb_false_iff in H. destruct H as [H1 H2].
    destruct HP as [HP|[HP1 HP2]]; [congruence|]. right. split; [exact HP1|apply IH; assumption].
Qed.
Lemma refSeen_app a b : refSeen (a ++ b) = refSeen a || refSeen b. Proof. apply existsb_app. Qed.

Lemma SJE_allBlocks : forall fuel s acc, (refSeen acc = true \/ exists ns, SJE s (pending s) ns) -> PREr acc -> PREr (fst (allBlocks fuel s acc)).
Proof.
  induction fuel as [|f IH]; intros s acc HS Ha; [exact Ha|]. cbn [allBlocks].
  destruct (refSeen acc) eqn:Er.
  - destruct (nextBlock _ s) as [r s'| | |]; try exact Ha.
    apply IH; [left; rewrite refSeen_app, Er; reflexivity|apply PREr_app_ref; assumption].
  - destruct HS as [HS|(ns & HS)]; [discriminate|].
    pose proof (SJE_nextBlock (3 + length (buf s)) s ns HS) as Hn.
    destruct (nextBlock _ s) as [r s'| | |]; try exact Ha.
    destruct Hn as [Hr|[Hr (ns' & Hs')]].
    + apply IH; [left; rewrite refSeen_app; cbn [refSeen existsb]; rewrite Hr; rewrite orb_true_r; reflexivity|].
      apply PREr_snoc; [exact Er|exact Ha|left; exact Hr].
    + apply IH; [right; eauto|]. apply PREr_snoc; [exact Er|exact Ha|right; exact Hr].
Qed.

Theorem parseBlocks_PREr input : PREr (fst (parseBlocks input)).
Proof.
  unfold parseBlocks. apply SJE_allBlocks; [|exact I]. right. exists true.
  split; [|split; [split; reflexivity|reflexivity]]. split; [|split; [reflexivity|split; exact I]].
  unfold SI. cbn [buf bi pending]. pose proof (len_nonneg (pad input)). repeat split; try lia.
Qed.

(* ---- documents without link reference definitions ---- *)
Definition noRefDefs (input : bytes) : bool := forallb (fun r => negb (hasRefB (rb_blk r))) (fst (parseBlocks input)).

Lemma PREr_noref l : forallb (fun r => negb (hasRefB (rb_blk r))) l = true -> PREr l -> Forall (fun r => EbX (rb_blk r)) l.
Proof.
  induction l as [|r t IH]; intros H HP; [constructor|]. cbn [forallb PREr] in *. apply andb_true_iff in H. destruct H as [H1 H2].
  apply negb_true_iff in H1. destruct HP as [HP|[HP1 HP2]]; [congruence|]. constructor; [exact HP1|apply IH; assumption].
Qed.

(* all block spans are valid in the text before the filling *)
Lemma bshapes_span src : forall b, bshapes src b = true -> 0 <= bstart b /\ bstart b <= bend b /\ bend b <= len src /\ forallb (bshapes src) (bkids b) = true.
Proof.
  intros [K s e bk ik a n c l lb] H. cbn [bshapes bstart bend bkids] in *. apply andb_true_iff in H. destruct H as [H Hk].
  apply andb_true_iff in H. destruct H as [H _]. unfold span_valid in H. apply andb_true_iff in H. destruct H as [H H3].
  apply andb_true_iff in H. destruct H as [H1 H2]. apply Z.leb_le in H1, H2, H3. repeat split; try lia. exact Hk.
Qed.
Lemma bndsB_of_Eb M U src : forall b, Eb M U b = true -> bshapes src b = true -> bndsB (len src) b = true.
Proof.
  fix IH 1. intros b H Hs. destruct (bshapes_span src b Hs) as (S1 & S2 & S3 & S4). apply Eb_parts in H. destruct H as (A & B & C).
  rewrite bndsB_eq. apply andb_true_iff. split.
  - rewrite forallb_forall in *. intros u Hu. specialize (B u Hu). unfold eb in B. rewrite cons3_freeK, negb_involutive in B.
    destruct (freeK u); [reflexivity|]. cbn [orb] in *. apply andb_true_iff in B. destruct B as [B1 B2]. apply Z.leb_le in B1.
    replace (bend b <? 0) with false in B2 by (symmetry; apply Z.ltb_ge; lia). apply Z.leb_le in B2.
    unfold ebnd. apply andb_true_iff. split; [apply Z.leb_le; lia|]. apply orb_true_iff. right. apply Z.leb_le. lia.
  - destruct b as [K s e bk ik a n c l lb]. cbn [bkids] in *. unfold EbL in C. clear -IH C S4.
    induction bk as [|x r IHr]; [reflexivity|]. cbn [forallb] in *. apply andb_true_iff in C. destruct C as [C1 C2].
    apply andb_true_iff in S4. destruct S4 as [T1 T2]. rewrite (IH x C1 T1). apply IHr; assumption.
Qed.

Theorem entryBounds_noRefDefs input : noRefDefs input = true -> entryBounds input = true.
Proof.
  intros Hn. unfold entryBounds. pose proof (PREr_noref _ Hn (parseBlocks_PREr input)) as HE.
  pose proof (parseBlocks_block_shapes_prefill_partial input) as HS.
  apply forallb_forall. intros r Hr. rewrite Forall_forall in HE, HS.
  destruct (HE r Hr) as (M & U & He). destruct (HS r Hr) as (pre & _ & Es & Hsh).
  rewrite Es. unfold fillNulls. rewrite len_fill. apply (bndsB_of_Eb M U pre); assumption.
Qed.
Print Assumptions entryBounds_noRefDefs.

(* chkDoc for every input whose block structure contains no link reference definition *)
Theorem chkDoc_noRefDefs : forall c input, filterOn c = true -> noRefDefs input = true -> chkDoc c input = true.
Proof. intros c input Hf Hn. apply chkDoc_of_bounds_partial; [exact Hf|apply entryBounds_noRefDefs, Hn]. Qed.
Print Assumptions chkDoc_noRefDefs.
