From Coq Require Import List ZArith Lia Bool.
Import ListNotations.
Require Import Base Tables Utf8 Tree Rdr Link Collect Html Recog Inl3a Inl3b Inl3c Inl3d Inl3e LP Rules Starts Driver Props.
Require L2Kind2.
Require Import BSDef BSTree BlockSpans BShDef BlockShapes BlockShapesNul.
Require Import ShapesBase SpanHypDef SpanHyp.
Require Import EntBase EntRdr1 EntOcpDefs EntDefs.
Require En3Tree En3Drv.
Require Import En2Tree En2Drv En2OK ComposeBase ComposeSpans.
Open Scope Z_scope.

(* ================================================================================================
   T46 (1): the residual check of T45 (ComposeSpans.paraTailRoots) holds for every input, hence C02's inline-level
   statement does.

   The block-layer invariant En3* (En3Tree.en; the En2* development with three more facts, see En3Tree.ikOK) says of a
   CLOSED paragraph / setext heading: the byte of the buffer after its last entry is not ')' or lies beyond the buffer
   (En3Tree.nb41).  It is established when the block is closed: the last entry of an OPEN paragraph ends exactly at
   the start of the line being processed (exactness clause of En3Tree.ikOK), a line that does not add text to an open
   paragraph leaves no paragraph open (En3LP2.NPc, the ~ppT conclusions of En3LP3.startOKe / En3LP6), and the first byte
   of a line that closes a paragraph is a prefix byte (space, tab, '>'), a blank-line byte or the first byte of a block
   start, none of which is ')' (En3LP3.nb41_first, first_*; En3LP6.nb41_blank), or the end of the input (En3LP6.ls_eof).
   ================================================================================================ *)

(* the En3 invariant contains the En2 one *)
Lemma en3_en2 B M : forall b, En3Tree.en B M b -> En2Tree.en B M b.
Proof.
  fix IH 1. intros [K s e bk ik a n c l lb]. cbn [En3Tree.en En2Tree.en]. intros ((A & A1 & A2 & A3 & (A4 & _)) & C).
  split; [exact (conj A (conj A1 (conj A2 (conj A3 A4))))|].
  induction bk as [|x r IHr]; [exact I|]. destruct C as [C1 C2]. split; [apply IH, C1|apply IHr, C2].
Qed.

Section Root.
  Variables (B pre src pre' : bytes) (M n : Z).
  Hypothesis Hn : 0 <= n <= len B.
  Hypothesis Epre : pre = upto B n.
  Hypothesis Esrc : src = fillNulls pre.
  Hypothesis Htri : tri pre.
  Hypothesis Lp' : len pre' = n.

  Lemma leaf_paraTail b : En3Tree.en B M b -> bshapes pre' b = true -> paraTail src b = true.
  Proof.
    intros He Hs. pose proof (bshapes_bounds pre' _ Hs) as (S1 & S2 & S3). rewrite Lp' in S3.
    unfold paraTail. destruct ((bkind b =? ParagraphKind) || (bkind b =? SetextHeadingKind)) eqn:Ek; [|reflexivity].
    destruct (rev (bik b)) as [|L r] eqn:Er; [reflexivity|].
    assert (HK : En3Tree.isPS (bkind b)).
    { apply orb_true_iff in Ek. destruct Ek as [Ek|Ek]; apply Z.eqb_eq in Ek; [left|right]; exact Ek. }
    destruct b as [K s e bk ik a nn c l lb]. cbn [bstart bend bkind bik] in *. cbn [En3Tree.en] in He.
    destruct He as ((A & _ & _ & _ & (_ & A5 & _)) & _).
    assert (HL : En3Tree.lastI ik = Some L) by (unfold En3Tree.lastI; rewrite Er; reflexivity).
    specialize (A5 HK L HL). destruct (Z.ltb_spec e 0) as [X|_]; [lia|].
    destruct (A HK) as (L1 & _).
    assert (HinL : In L ik) by (apply in_rev; rewrite Er; left; reflexivity).
    destruct (lines_entry B _ ik L L1 HinL) as (E1 & E2 & _).
    rewrite (Ls B pre src n Hn Epre Esrc).
    destruct (Z.leb_spec n (iend L)) as [Ge|Lt]; [reflexivity|]. cbn [orb].
    destruct A5 as [X|X]; [lia|]. rewrite (not41_src B pre src n Epre Esrc Htri (iend L) ltac:(lia) X). reflexivity.
  Qed.

  Lemma root_paraTailB : forall fuel b, En3Tree.en B M b -> bshapes pre' b = true -> paraTailB fuel src b = true.
  Proof.
    induction fuel as [|f IH]; intros b He Hs; [reflexivity|]. cbn [paraTailB].
    destruct (isLeafU b); [apply leaf_paraTail; assumption|].
    apply forallb_forall. intros c Hc. apply IH.
    - destruct b as [K s e bk ik a nn cc l lb]. cbn [bkids] in Hc. cbn [En3Tree.en] in He. destruct He as (_ & C). eapply allP_In; eassumption.
    - destruct b as [K s e bk ik a nn cc l lb]. cbn [bkids] in Hc. cbn [bshapes bkids] in Hs. apply andb_true_iff in Hs. destruct Hs as [_ Hk].
      rewrite forallb_forall in Hk. apply Hk, Hc.
  Qed.
End Root.

(* ---- T46 (1) ---- *)
Theorem parseBlocks_paraTail : forall input, paraTailRoots (fst (parseBlocks input)) = true.
Proof.
  intros input. unfold paraTailRoots. apply forallb_forall. intros r Hr.
  pose proof (En3Drv.parseBlocks_okRE input) as H1. pose proof (parseBlocks_block_shapes_prefill_partial input) as H2.
  rewrite Forall_forall in *.
  destruct (H1 r Hr) as (B & M & Hn & Es & He & Ht). destruct (H2 r Hr) as (pre' & _ & Es' & Hs).
  assert (Lp : len pre' = bend (rb_blk r)).
  { rewrite <- (len_fillNulls pre'), <- Es', Es, len_fillNulls, ShapesBase.len_upto. lia. }
  apply (root_paraTailB B (upto B (bend (rb_blk r))) (rb_src r) pre' M (bend (rb_blk r)) Hn eq_refl Es Ht Lp); assumption.
Qed.
Print Assumptions parseBlocks_paraTail.

Theorem parseBlocks_entriesOKroots : forall input, SpanHypDef.entriesOKroots (fst (parseBlocks input)) = true.
Proof. intros input. apply parseBlocks_entriesOKroots_partial, parseBlocks_paraTail. Qed.
Print Assumptions parseBlocks_entriesOKroots.

(* C02 at the inline level, for every input *)
Theorem parseBlocks_inline_spans : forall input matcher,
  forallb (fun r => spansAfter (bheight (rb_blk r)) (rb_src r) matcher (rb_blk r)) (fst (parseBlocks input)) = true.
Proof. intros input matcher. apply parseBlocks_inline_spans_partial, parseBlocks_paraTail. Qed.
Print Assumptions parseBlocks_inline_spans.
