(* QRender3.v -- T64 (renderer): renderB and extractDefs on a mapped block (shift by the root offset, then QFullDefs.qB3). *)
From Coq Require Import List ZArith Lia Bool.
Import ListNotations.
Require Import Base Tables Utf8 Tree Recog Inl3b LP Driver Inl3e Render RenderWalkProof QuoteSimDefs QCutsDef QCuts QIRdrBase QInlDefs QFullDefs QS2Drv1 LA2 QRender1 QRenderDefs QRender2.
Open Scope Z_scope.

Lemma okB_parts src k s e bk ik a nn ch l lb : okB src (Blk k s e bk ik a nn ch l lb) = true ->
  ((k =? ListMarkerKind) = true -> s < e /\ oneLn src s e = true) /\ ((k =? LinkReferenceDefinitionKind) = true -> defHead ik = true) /\
  forallb (okI src) ik = true /\ forallb (okB src) bk = true.
Proof.
  intros H. cbn [okB] in H. rewrite !andb_true_iff in H. destruct H as (((H1 & H2) & H3) & H4).
  split; [intros E; rewrite E in H1; apply andb_true_iff in H1; destruct H1 as [A B]; apply Z.ltb_lt in A; split; assumption|].
  split; [intros E; rewrite E in H2; exact H2|]. split; assumption.
Qed.
Lemma isize_le_sum l : forall p, In p l -> (isize p <= fold_right (fun q a => isize q + a) 0 l)%nat.
Proof. induction l as [|x l IH]; intros p Hp; [destruct Hp|]. cbn [fold_right]. destruct Hp as [->|Hp]; [lia|]. specialize (IH p Hp). lia. Qed.

Section Blk.
  Variables (D src : bytes) (o : Z).
  Hypothesis o_nn : 0 <= o.
  Hypothesis src_sub : forall s e, 0 <= s -> s <= e -> e <= len src -> e + o <= len D /\ sub D (s + o) (e + o) = sub src s e.
  Variables (c : cfg) (refs : list (bytes * linkDef)).
  Hypothesis c_safe : ignoreRaw c = true.
  Notation Q := (quote D).
  Notation sg := (sigma D).
  Notation mp := (mp D o).
  Notation img := (img D o).

  Definition mpB (b : block) : block := qB3 D (shiftB o b).
  Lemma mpB_eq k s e bk ik a nn ch l lb : mpB (Blk k s e bk ik a nn ch l lb) =
    Blk k (sg (s + o)) (epsB D (she o e)) (map mpB bk) (flat_map mp ik) a nn ch l lb.
  Proof. unfold mpB at 1. cbn [shiftB qB3]. rewrite map_map, fm_map. reflexivity. Qed.

  Lemma kidsI_mp ik : forallb (okI src) ik = true ->
    flat_map (fun i => renderI (isize i) c refs Q i) (flat_map mp ik) = flat_map (fun i => renderI (isize i) c refs src i) ik.
  Proof.
    intros H. rewrite forallb_forall in H. rewrite fm_fm. apply fm_ext. intros x Hx.
    set (M := fold_right (fun q a => (isize q + a)%nat) O (mp x)).
    rewrite (fm_ext (fun p => renderI (isize p) c refs Q p) (renderI M c refs Q)).
    - apply (renderI_mp D src o o_nn src_sub c refs c_safe); [apply H, Hx|apply le_n|]. intros p Hp. apply isize_le_sum, Hp.
    - intros p Hp. apply renderI_fuel; [apply le_n|apply isize_le_sum, Hp].
  Qed.

  Lemma listItemNumber_mp b : okB src b = true -> listItemNumber Q (mpB b) = listItemNumber src b.
  Proof.
    destruct b as [k s e bk ik a nn ch l lb]. intros H. destruct (okB_parts _ _ _ _ _ _ _ _ _ _ _ H) as (_ & _ & _ & P4).
    rewrite mpB_eq. unfold listItemNumber, isOrdered. cbn [bchar bkind bkids].
    destruct (negb ((ch =? 46) || (ch =? 41)) || negb (k =? ListItemKind)); [reflexivity|].
    destruct bk as [|m bk']; [reflexivity|]. cbn [map]. cbn [forallb] in P4. apply andb_true_iff in P4. destruct P4 as [Pm _].
    destruct m as [km sm em bkm ikm am nm cm lm lbm]. rewrite mpB_eq. cbn [bkind bstart bend].
    destruct (km =? ListMarkerKind) eqn:EM; [|reflexivity]. cbn [negb].
    destruct (okB_parts _ _ _ _ _ _ _ _ _ _ _ Pm) as (Q1 & _). destruct (Q1 EM) as [Hlt Hol].
    unfold oneLn in Hol. apply andb_true_iff in Hol. destruct Hol as [Hi Hn]. pose proof (inSp_parts _ _ _ Hi) as (A & B & C).
    rewrite (she_in src o o_nn sm em Hi). unfold epsB. destruct (Z.leb_spec (em + o) 0); [lia|].
    destruct (src_sub sm em A B C) as [L E]. rewrite sub_sigma; [rewrite E; reflexivity|lia|lia|exact L|].
    apply (noLF_D D src o o_nn src_sub sm em Hi Hn).
  Qed.

  Lemma first_mp (i0 : inline) rest : exists q l, flat_map mp (i0 :: rest) = q :: l /\ In q (mp i0).
  Proof.
    cbn [flat_map]. pose proof (mp_nonempty D o i0) as Hne. destruct (mp i0) as [|q l0]; [contradiction|].
    exists q, (l0 ++ flat_map mp rest). split; [reflexivity|left; reflexivity].
  Qed.

  Lemma renderB_mp : forall f f' pt b, okB src b = true -> (bheight b <= f)%nat -> (bheight b <= f')%nat ->
    renderB f' c refs Q pt (mpB b) = renderB f c refs src pt b.
  Proof.
    induction f as [|f IH]; intros f' pt b H Hf Hf'; [destruct b; cbn [bheight] in Hf; lia|].
    destruct f' as [|f']; [destruct b; cbn [bheight] in Hf'; lia|].
    destruct b as [k s e bk ik a nn ch l lb]. destruct (okB_parts _ _ _ _ _ _ _ _ _ _ _ H) as (_ & _ & P3 & P4).
    rewrite mpB_eq.
    assert (HkB : forall tight, flat_map (renderB f' c refs Q tight) (map mpB bk) = flat_map (renderB f c refs src tight) bk).
    { intros tight. rewrite fm_map. apply fm_ext. intros x Hx. pose proof (bheight_kid (Blk k s e bk ik a nn ch l lb) x Hx) as Hh.
      rewrite forallb_forall in P4. apply IH; [apply P4, Hx|lia|lia]. }
    pose proof (kidsI_mp ik P3) as HkI.
    assert (Hinfo : match flat_map mp ik with
                    | i0 :: _ => if ikind i0 =? InfoStringKind then Some (textOfChildren Q i0) else None | [] => None end =
                    match ik with i0 :: _ => if ikind i0 =? InfoStringKind then Some (textOfChildren src i0) else None | [] => None end).
    { destruct ik as [|i0 rest]; [reflexivity|]. destruct (first_mp i0 rest) as (q & l0 & E & Hq). rewrite E.
      destruct (mp_props D o i0 q Hq) as (K & _). rewrite K. destruct (ikind i0 =? InfoStringKind) eqn:EI; [|reflexivity].
      f_equal. apply (toc_mp D src o o_nn src_sub); [|apply Z.eqb_eq in EI; rewrite EI; reflexivity|exact Hq]. cbn [forallb] in P3. apply andb_true_iff in P3. apply P3. }
    assert (Hlin : match map mpB bk with it :: _ => listItemNumber Q it | [] => -1 end = match bk with it :: _ => listItemNumber src it | [] => -1 end).
    { destruct bk as [|b0 bk']; [reflexivity|]. cbn [map]. apply listItemNumber_mp. cbn [forallb] in P4. apply andb_true_iff in P4. apply P4. }
    cbn [renderB]. unfold isTightList. cbn [bkind bkids bik bn bchar bloose]. rewrite HkB, HkI.
    assert (Hkids : match map mpB bk with
                    | [] => flat_map (fun i => renderI (isize i) c refs src i) ik
                    | _ :: _ => flat_map (renderB f c refs src (((k =? ListKind) || (k =? ListItemKind)) && negb l)) bk end =
                    match bk with
                    | [] => flat_map (fun i => renderI (isize i) c refs src i) ik
                    | _ :: _ => flat_map (renderB f c refs src (((k =? ListKind) || (k =? ListItemKind)) && negb l)) bk end)
      by (destruct bk; reflexivity).
    rewrite Hkids. clear Hkids.
    destruct (k =? ParagraphKind); [reflexivity|]. destruct (k =? ThematicBreakKind); [reflexivity|]. destruct (isHeading k); [reflexivity|].
    destruct (isCode k).
    { destruct (k =? FencedCodeBlockKind); [|reflexivity].
      destruct ik as [|i0 rest]; [reflexivity|]. destruct (first_mp i0 rest) as (q & l0 & E & Hq). rewrite E in Hinfo |- *.
      destruct (mp_props D o i0 q Hq) as (K & _). rewrite K in Hinfo |- *. destruct (ikind i0 =? InfoStringKind); [|reflexivity].
      injection Hinfo as Hinfo. rewrite Hinfo. reflexivity. }
    destruct (k =? BlockQuoteKind); [reflexivity|].
    destruct (k =? ListKind).
    { unfold isOrdered. cbn [bchar]. destruct ((ch =? 46) || (ch =? 41)); [|reflexivity]. rewrite Hlin. reflexivity. }
    destruct (k =? ListItemKind); [reflexivity|]. destruct (k =? HTMLBlockKind); [|reflexivity]. rewrite c_safe. reflexivity.
  Qed.

  (* ---- the reference map ---- *)
  Lemma extractDefs_mp : forall f f' b acc, okB src b = true -> (bheight b <= f)%nat -> (bheight b <= f')%nat ->
    extractDefs f' Q (mpB b) acc = extractDefs f src b acc.
  Proof.
    induction f as [|f IH]; intros f' b acc H Hf Hf'; [destruct b; cbn [bheight] in Hf; lia|].
    destruct f' as [|f']; [destruct b; cbn [bheight] in Hf'; lia|].
    destruct b as [k s e bk ik a nn ch l lb]. destruct (okB_parts _ _ _ _ _ _ _ _ _ _ _ H) as (_ & P2 & P3 & P4).
    rewrite mpB_eq. cbn [extractDefs bkind bik bkids]. destruct (k =? LinkReferenceDefinitionKind) eqn:EK.
    - specialize (P2 eq_refl). unfold defHead in P2. destruct ik as [|l0 rest]; [reflexivity|].
      apply andb_true_iff in P2. destruct P2 as [Sl Sd]. apply negb_true_iff in Sl.
      cbn [forallb] in P3. apply andb_true_iff in P3. destruct P3 as [Ol P3].
      cbn [flat_map]. rewrite (mp_nosplit D o l0 Sl). cbn [app].
      destruct rest as [|d rest2]; [reflexivity|]. apply andb_true_iff in Sd. destruct Sd as [Kd Kt]. apply Z.eqb_eq in Kd.
      assert (Sd : splitK (ikind d) = false) by (rewrite Kd; reflexivity).
      cbn [forallb] in P3. apply andb_true_iff in P3. destruct P3 as [Od P3].
      cbn [flat_map]. rewrite (mp_nosplit D o d Sd). cbn [app].
      assert (Er : iref (img l0) = iref l0) by (destruct l0; reflexivity). rewrite Er.
      destruct ((len (iref l0) =? 0) || existsb (fun kv => Utf8.bytes_eqb (fst kv) (iref l0)) acc); [reflexivity|].
      f_equal. f_equal.
      assert (Ed : textOfChildren Q (img d) = textOfChildren src d).
      { apply (toc_mp D src o o_nn src_sub); [exact Od|rewrite Kd; reflexivity|]. rewrite (mp_nosplit D o d Sd). left. reflexivity. }
      rewrite Ed. destruct rest2 as [|t rest3]; [reflexivity|]. apply Z.eqb_eq in Kt.
      destruct (first_mp t rest3) as (q & l1 & E & Hq). rewrite E.
      cbn [forallb] in P3. apply andb_true_iff in P3. destruct P3 as [Ot _].
      rewrite (toc_mp D src o o_nn src_sub t q Ot ltac:(rewrite Kt; reflexivity) Hq). reflexivity.
    - clear P2 P3 H. revert acc. induction bk as [|x bk IHbk]; intros acc; [reflexivity|].
      cbn [map fold_left]. cbn [forallb] in P4. apply andb_true_iff in P4. destruct P4 as [Ox P4].
      assert (Hx : (bheight x <= f)%nat /\ (bheight x <= f')%nat).
      { pose proof (bheight_kid (Blk k s e (x :: bk) ik a nn ch l lb) x (or_introl eq_refl)). lia. }
      rewrite (IH f' x acc Ox (proj1 Hx) (proj2 Hx)). apply IHbk; [| |exact P4].
      + cbn [bheight fold_right] in Hf |- *. lia.
      + cbn [bheight fold_right] in Hf' |- *. lia.
  Qed.
End Blk.
