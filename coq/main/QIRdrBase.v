(* QIRdrBase.v -- T64: QRdrBase generalised for the inline pass:
     * sQ may extend beyond the image of sD (the whole quoted document while sD is the source of one root block): the end of sD is
       mapped to sgEnd = sg (len sD - 1) + 1 <= len sQ, with equality when sD does not end with a line feed;
     * the last span of the list may end inside a line (the content of an ATX heading);
     * InE has a third case: exhausted inside a line (behind the last span); RX also covers the line feed that ends sD.
   Original header:
   QIRdrBase.v -- T58 (C09 block-quote clause, link reference definitions): the multi-line reader under per-span shifts.
   Two readers: r over (sD, spans), r' over (sQ, spans moved each by its own shift sg (istart u) - istart u).
   sg is a strictly increasing embedding of the positions of sD into sQ that preserves bytes, is a translation inside every span,
   steps by one after a byte that is not LF and leaves a gap after a LF (in quote D: the "> " of the next line).
   RR r r' : the two readers are at corresponding places (r_pos r' = sgE (r_pos r)); every observation (curNode, current,
             remainingNodeBytes) agrees, and `next` keeps RR -- except when the reader is exhausted by stepping over a LF that is not
             the last byte of sD: then r_pos r' = r_prev r' + 1 lies in the gap (relation RX). *)
From Coq Require Import List ZArith Lia Bool.
Import ListNotations.
Require Import Base Tree Rdr Link Collect ShapesBase ShapesR IFBase QuoteSimMap.
Open Scope Z_scope.

Lemma from_map {A B} (f : A -> B) (l : list A) i : from_ (map f l) i = map f (from_ l i).
Proof. unfold from_. apply skipn_map. Qed.
Lemma hd_error_map {A B} (f : A -> B) (l : list A) : hd_error (map f l) = option_map f (hd_error l).
Proof. destruct l; reflexivity. Qed.
Lemma nth_firstn_lt' {A} (d : A) : forall n k (l : list A), (k < n)%nat -> nth k (firstn n l) d = nth k l d.
Proof.
  induction n as [|n IH]; intros k l H; [lia|]. destruct l as [|x l]; [destruct k; reflexivity|]. destruct k as [|k]; [reflexivity|]. cbn [firstn nth]. apply IH. lia.
Qed.
Lemma nth_skipn' {A} (d : A) : forall n k (l : list A), nth k (skipn n l) d = nth (n + k) l d.
Proof.
  induction n as [|n IH]; intros k l; [reflexivity|]. destruct l as [|x l]; [destruct k; reflexivity|]. cbn [skipn Nat.add nth]. apply IH.
Qed.
Lemma okind_map f n : (forall u, ikind (f u) = ikind u) -> okind (option_map f n) = okind n.
Proof. intros H. destruct n as [u|]; [apply H|reflexivity]. Qed.

Section QR.
  Variables (sD sQ : bytes) (sg : Z -> Z).
  Variable IK : list inline.   (* the span list the reader was created with: its spans are always a suffix of IK *)
  Variable ie : bool.   (* ie = true: the relation also says that the position is inside a span or at the end of sD *)
  Hypothesis sg_mono : forall x y, 0 <= x -> x < y -> sg x < sg y.
  Hypothesis sg_nn : forall x, 0 <= x -> 0 <= sg x.
  Hypothesis sg_at : forall x, 0 <= x < len sD -> at_ sQ (sg x) = at_ sD x.
  Hypothesis sg_lt : forall x, 0 <= x < len sD -> sg x < len sQ.
  Hypothesis sg_succ : forall x, 0 <= x < len sD -> at_ sD x <> 10 -> sg (x + 1) = sg x + 1.
  Hypothesis sg_lf : forall x, 0 <= x < len sD -> at_ sD x = 10 -> sg x + 1 < sg (x + 1).
  Hypothesis sg_last : 0 < len sD -> at_ sD (len sD - 1) <> 10 -> sg (len sD - 1) + 1 = len sQ.
  Hypothesis sg_end_le : sg (len sD - 1) + 1 <= len sQ.
  Hypothesis sD_nonul : forall x, 0 <= x < len sD -> at_ sD x <> 0.
  Hypothesis sD_pos : 0 < len sD.

  Lemma sg_le x y : 0 <= x -> x <= y -> sg x <= sg y.
  Proof. intros Hx H. destruct (Z.eq_dec x y) as [->|N]; [lia|]. pose proof (sg_mono x y Hx ltac:(lia)). lia. Qed.
  Lemma sg_lt_inv x y : 0 <= x -> 0 <= y -> sg x < sg y -> x < y.
  Proof. intros Hx Hy H. destruct (Z.lt_ge_cases x y) as [L|L]; [exact L|]. pose proof (sg_le y x Hy L). lia. Qed.
  Lemma sg_le_inv x y : 0 <= x -> 0 <= y -> sg x <= sg y -> x <= y.
  Proof. intros Hx Hy H. destruct (Z.le_gt_cases x y) as [L|L]; [exact L|]. pose proof (sg_mono y x Hy L). lia. Qed.
  Lemma sg_inj x y : 0 <= x -> 0 <= y -> sg x = sg y -> x = y.
  Proof. intros Hx Hy H. pose proof (sg_le_inv x y Hx Hy). pose proof (sg_le_inv y x Hy Hx). lia. Qed.

  (* positions of the reader: inside sD, or at its end *)
  Definition sgEnd : Z := sg (len sD - 1) + 1.
  Definition sgE (p : Z) : Z := if p <? len sD then sg p else sgEnd + (p - len sD).
  Lemma sgE_in p : p < len sD -> sgE p = sg p. Proof. intros H. unfold sgE. destruct (Z.ltb_spec p (len sD)); [reflexivity|lia]. Qed.
  Lemma sgE_end : sgE (len sD) = sgEnd. Proof. unfold sgE. destruct (Z.ltb_spec (len sD) (len sD)); lia. Qed.
  Lemma sgE_lt p q : 0 <= p -> p < q -> q <= len sD -> sgE p < sgE q.
  Proof.
    intros Hp H Hq. rewrite (sgE_in p) by lia. unfold sgE, sgEnd. destruct (Z.ltb_spec q (len sD)); [apply sg_mono; lia|].
    pose proof (sg_le p (len sD - 1) Hp ltac:(lia)). lia.
  Qed.
  Lemma sgE_ltb p q : 0 <= p <= len sD -> 0 <= q <= len sD -> (sgE p <? sgE q) = (p <? q).
  Proof.
    intros Hp Hq. destruct (Z.ltb_spec p q) as [L|L].
    - apply Z.ltb_lt. apply sgE_lt; lia.
    - apply Z.ltb_ge. destruct (Z.eq_dec p q) as [->|N]; [lia|]. pose proof (sgE_lt q p ltac:(lia) ltac:(lia) ltac:(lia)). lia.
  Qed.
  Lemma sgE_leb p q : 0 <= p <= len sD -> 0 <= q <= len sD -> (sgE p <=? sgE q) = (p <=? q).
  Proof.
    intros Hp Hq. rewrite !Z.leb_antisym. rewrite sgE_ltb by lia. reflexivity.
  Qed.
  Lemma sgE_eqb p q : 0 <= p <= len sD -> 0 <= q <= len sD -> (sgE p =? sgE q) = (p =? q).
  Proof.
    intros Hp Hq. destruct (Z.eqb_spec p q) as [->|N]; [apply Z.eqb_refl|]. apply Z.eqb_neq.
    destruct (Z.lt_ge_cases p q) as [L|L]; [pose proof (sgE_lt p q ltac:(lia) L ltac:(lia)); lia|pose proof (sgE_lt q p ltac:(lia) ltac:(lia) ltac:(lia)); lia].
  Qed.
  Lemma sgE_nn p : 0 <= p -> 0 <= sgE p.
  Proof. intros H. unfold sgE, sgEnd. destruct (Z.ltb_spec p (len sD)); [apply sg_nn, H|pose proof (sg_nn (len sD - 1) ltac:(lia)); lia]. Qed.
  (* one step to the right *)
  Lemma sgE_succ p : 0 <= p < len sD -> (at_ sD p <> 10 \/ p + 1 = len sD) -> sgE (p + 1) = sg p + 1.
  Proof.
    intros Hp H. destruct (Z.eq_dec (p + 1) (len sD)) as [E|N].
    - rewrite E, sgE_end. unfold sgEnd. replace p with (len sD - 1) by lia. reflexivity.
    - destruct H as [H|H]; [|contradiction]. rewrite sgE_in by lia. apply sg_succ; [lia|exact H].
  Qed.

  (* ---- the spans ---- *)
  (* a span: an Unparsed entry, non-empty, inside sD, sg is a translation on it, and it ends with a line feed or at the end of sD *)
  Definition gsp (u : inline) : Prop :=
    0 <= istart u /\ istart u < iend u /\ iend u <= len sD /\ (forall x, istart u <= x < iend u -> sg x = sg (istart u) + (x - istart u)) /\
    ikind u = UnparsedKind /\ (at_ sD (iend u - 1) = 10 \/ iend u = len sD \/ exists pre, IK = pre ++ [u]).
  Definition mvS (u : inline) : inline := mvI (sg (istart u) - istart u) u.
  Lemma unp_ne u : ikind u = UnparsedKind -> (ikind u =? IndentKind) = false.
  Proof. intros ->. reflexivity. Qed.
  Lemma ikind_mvS u : ikind (mvS u) = ikind u. Proof. destruct u; reflexivity. Qed.
  Lemma iindent_mvS u : iindent (mvS u) = iindent u. Proof. destruct u; reflexivity. Qed.
  Lemma istart_mvS u : istart (mvS u) = sg (istart u). Proof. destruct u; cbn. lia. Qed.
  Lemma iend_mvS u : iend (mvS u) = sg (istart u) + (iend u - istart u). Proof. destruct u; cbn. lia. Qed.
  Lemma iend_mvS' u : gsp u -> iend (mvS u) = sg (iend u - 1) + 1.
  Proof. intros (A & B & C & T & _). rewrite iend_mvS, (T (iend u - 1)) by lia. lia. Qed.
  Lemma gsp_pos u p : gsp u -> istart u <= p < iend u -> sgE p = sg (istart u) + (p - istart u).
  Proof. intros (A & B & C & T & _) H. rewrite sgE_in by lia. apply T, H. Qed.

  Lemma spanHas_mvS u p : gsp u -> 0 <= p <= len sD -> spanHas (mvS u) (sgE p) = spanHas u p.
  Proof.
    intros G Hp. pose proof G as (A & B & C & T & _). unfold spanHas. rewrite istart_mvS, (iend_mvS' u G).
    replace (0 <=? sg (istart u)) with true by (symmetry; apply Z.leb_le, sg_nn, A).
    replace (0 <=? sg (iend u - 1) + 1) with true by (symmetry; apply Z.leb_le; pose proof (sg_nn (iend u - 1) ltac:(lia)); lia).
    replace (sg (istart u) <=? sg (iend u - 1) + 1) with true by (symmetry; apply Z.leb_le; pose proof (sg_le (istart u) (iend u - 1) A ltac:(lia)); lia).
    replace (0 <=? istart u) with true by (symmetry; apply Z.leb_le; lia). replace (0 <=? iend u) with true by (symmetry; apply Z.leb_le; lia).
    replace (istart u <=? iend u) with true by (symmetry; apply Z.leb_le; lia). cbn [andb].
    rewrite <- (sgE_in (istart u)) by lia. rewrite sgE_leb by lia. f_equal.
    replace (sgE p <? sg (iend u - 1) + 1) with (sgE p <=? sgE (iend u - 1)) by (rewrite (sgE_in (iend u - 1)) by lia; destruct (Z.leb_spec (sgE p) (sg (iend u - 1))); destruct (Z.ltb_spec (sgE p) (sg (iend u - 1) + 1)); lia || reflexivity).
    rewrite sgE_leb by lia. destruct (Z.leb_spec p (iend u - 1)); destruct (Z.ltb_spec p (iend u)); lia || reflexivity.
  Qed.

  Lemma nodeIdx_mvS : forall sp p k, Forall gsp sp -> 0 <= p <= len sD -> nodeIdx (map mvS sp) (sgE p) k = nodeIdx sp p k.
  Proof.
    induction sp as [|i r IH]; intros p k H Hp; [reflexivity|]. inversion H as [|? ? Hi Hr]; subst. cbn [map nodeIdx].
    pose proof Hi as (A & B & C & _). rewrite istart_mvS, <- (sgE_in (istart i)) by lia. rewrite sgE_ltb by lia.
    rewrite (spanHas_mvS i p Hi Hp). rewrite (IH p (k + 1) Hr Hp). reflexivity.
  Qed.

  Lemma nextSpan_mvS : forall l, nextSpan (map mvS l) = option_map (fun isp => (mvS (fst isp), map mvS (snd isp))) (nextSpan l).
  Proof.
    induction l as [|i r IH]; [reflexivity|]. cbn [map nextSpan]. rewrite ikind_mvS. destruct (_ || _); [reflexivity|exact IH].
  Qed.
  Lemma nextSpan_spW l i sp : spW sD l = true -> nextSpan l = Some (i, sp) -> spW sD sp = true.
  Proof. intros H E. destruct (nextSpan_split _ _ _ E) as (pre & rest & E1 & E2). subst l sp. apply (spW_app_r sD pre), H. Qed.
  Lemma nextSpan_gsp : forall l i sp, Forall gsp l -> nextSpan l = Some (i, sp) -> gsp i /\ Forall gsp sp.
  Proof.
    intros l i sp H E. destruct (nextSpan_split _ _ _ E) as (pre & rest & E1 & E2). subst l sp.
    apply Forall_app in H. destruct H as [_ H]. split; [inversion H; assumption|exact H].
  Qed.

  (* ---- the relation ---- *)
  (* the position is the end of sD or lies inside one of the spans *)
  Definition InE (sp : list inline) (p : Z) : Prop :=
    (p = len sD /\ sgEnd = len sQ) \/ (exists u, In u sp /\ istart u <= p < iend u) \/
    (sp = [] /\ 0 < p < len sD /\ at_ sD (p - 1) <> 10 /\ forall u, In u IK -> iend u <= p).
  Lemma nodeIdx_found : forall sp p k u, spW sD sp = true -> Forall gsp sp -> In u sp -> istart u <= p < iend u -> 0 <= k -> k <= nodeIdx sp p k.
  Proof.
    induction sp as [|i r IH]; intros p k u W G Hu Hp Hk; [destruct Hu|]. inversion G as [|? ? Gi Gr]; subst. pose proof (spW_cons _ _ _ W) as (A & B & C & D & Wr).
    cbn [nodeIdx]. destruct (Z.ltb_spec p (istart i)) as [L|L].
    - exfalso. destruct Hu as [->|Hu]; [lia|]. specialize (D u Hu). destruct Gi as (_ & Gi & _). lia.
    - destruct (spanHas i p) eqn:Eh; [lia|]. destruct Hu as [->|Hu].
      + rewrite spanHas_intro in Eh by (destruct Gi; lia). discriminate.
      + specialize (IH p (k + 1) u Wr Gr Hu Hp ltac:(lia)). lia.
  Qed.
  Definition PrevR (v v' : Z) : Prop := (v = -1 /\ v' = -1) \/ (0 <= v < len sD /\ v' = sg v).
  Definition RR (r r' : reader) : Prop :=
    r_src r = sD /\ r_src r' = sQ /\ r_spans r' = map mvS (r_spans r) /\ Forall gsp (r_spans r) /\ spW sD (r_spans r) = true /\ r_vpos r' = r_vpos r /\
    (0 <= r_pos r <= len sD /\ (r_pos r = len sD -> sgEnd = len sQ)) /\ r_pos r' = sgE (r_pos r) /\ PrevR (r_prev r) (r_prev r') /\ (ie = true -> InE (r_spans r) (r_pos r)) /\ (exists pre, IK = pre ++ r_spans r).
  Hypothesis IK_w : spW sD IK = true.
  (* sorted: the spans before the last one end before it starts *)
  Lemma spW_before : forall pre n u, spW sD (pre ++ [n]) = true -> In u pre -> iend u <= istart n.
  Proof.
    induction pre as [|x pre IH]; intros n u W Hu; [destruct Hu|]. cbn [app] in W. pose proof (spW_cons _ _ _ W) as (_ & _ & _ & D & Wr).
    destruct Hu as [->|Hu]; [apply D, in_or_app; right; left; reflexivity|apply (IH n u Wr Hu)].
  Qed.
  (* exhausted after a line feed inside sD: the position of r' is in the gap; every span of IK lies before the position *)
  Definition RX (r r' : reader) : Prop :=
    r_src r = sD /\ r_src r' = sQ /\ r_spans r = [] /\ r_spans r' = [] /\ r_vpos r' = r_vpos r /\
    0 <= r_prev r /\ r_prev r + 1 <= len sD /\ at_ sD (r_prev r) = 10 /\ r_prev r' = sg (r_prev r) /\
    r_pos r = r_prev r + 1 /\ r_pos r' = r_prev r' + 1 /\ (forall u, In u IK -> iend u <= r_pos r).

  Lemma RR_new sp p : Forall gsp sp -> spW sD sp = true -> 0 <= p <= len sD -> (p = len sD -> sgEnd = len sQ) -> (ie = true -> InE sp p) -> (exists pre, IK = pre ++ sp) -> RR (newReader sD sp p) (newReader sQ (map mvS sp) (sgE p)).
  Proof. intros H Hw Hp Hpe Hi Hx. unfold RR, newReader. cbn. split; [reflexivity|]. split; [reflexivity|]. split; [reflexivity|]. split; [exact H|]. split; [exact Hw|]. split; [reflexivity|]. split; [split; [exact Hp|exact Hpe]|]. split; [reflexivity|]. split; [left; split; reflexivity|]. split; [exact Hi|exact Hx]. Qed.

  Lemma RR_curNode r r' : RR r r' ->
    fst (curNode r') = option_map mvS (fst (curNode r)) /\ RR (snd (curNode r)) (snd (curNode r')).
  Proof.
    intros (A & B & C & G & W & V & (P & Pe) & P' & PV & IE & SX). unfold curNode. cbv zeta. unfold nodeIndexForPosition.
    rewrite C, P', (nodeIdx_mvS _ _ 0 G P). destruct (Z.ltb_spec (nodeIdx (r_spans r) (r_pos r) 0) 0) as [Lx|Lx].
    - cbn [fst snd]. split; [reflexivity|]. unfold RR. cbn. repeat split; try assumption; try lia; [constructor| |exists IK; rewrite app_nil_r; reflexivity].
      intros Hie. destruct (IE Hie) as [IE0|[(u & Hu & Hin)|(_ & I2 & I3 & I4)]]; [left; exact IE0| |right; right; repeat split; try assumption; lia]. pose proof (nodeIdx_found _ _ 0 u W G Hu Hin ltac:(lia)). lia.
    - cbn [fst snd]. rewrite from_map, hd_error_map. split; [reflexivity|]. unfold RR. cbn. repeat split; try assumption; try lia.
      + unfold from_. rewrite <- (firstn_skipn (Z.to_nat (nodeIdx (r_spans r) (r_pos r) 0)) (r_spans r)) in G. apply Forall_app in G. apply G.
      + apply spW_from, W.
      + intros _. right. left. destruct (nodeIdx_split (r_spans r) (r_pos r) 0 ltac:(lia)) as [Hn|(_ & pre & n & rest & E1 & E2 & E3)]; [lia|].
        exists n. unfold from_. replace (nodeIdx (r_spans r) (r_pos r) 0) with (nodeIdx (r_spans r) (r_pos r) 0 - 0) by lia. rewrite E2.
        split; [left; reflexivity|]. pose proof (spanHas_range _ _ E3). lia.
      + destruct SX as (pre & SX). exists (pre ++ firstn (Z.to_nat (nodeIdx (r_spans r) (r_pos r) 0)) (r_spans r)). unfold from_. rewrite <- app_assoc, firstn_skipn. exact SX.
  Qed.
  Lemma RR_curNode_in r r' n : RR r r' -> fst (curNode r) = Some n ->
    gsp n /\ istart n <= r_pos r < iend n /\ r_pos r' = sg (r_pos r) /\ r_pos r < len sD.
  Proof.
    intros (A & B & C & G & W & V & (P & Pe) & P' & PV & IE & SX) E.
    destruct (curNode_cases r) as [E0|(pre & m & rest & E1 & E2 & E3)]; rewrite ?E0, ?E2 in E; cbn [fst] in E; [discriminate|]. inversion E; subst m.
    rewrite E1 in G. apply Forall_app in G. destruct G as [_ G]. inversion G as [|? ? Gn _]; subst.
    pose proof (spanHas_range _ _ E3) as (R1 & R2 & R3). pose proof Gn as (_ & _ & Ge & _).
    split; [exact Gn|]. split; [lia|]. split; [rewrite P'; apply sgE_in; lia|lia].
  Qed.

  Lemma RR_current r r' : RR r r' -> fst (current r') = fst (current r) /\ RR (snd (current r)) (snd (current r')).
  Proof.
    intros H. pose proof H as (A & B & C & G & W & V & (P & Pe) & P' & PV & IE & SX). unfold current. rewrite A, B.
    assert (El : (len sQ <=? r_pos r') = (len sD <=? r_pos r)).
    { destruct (Z.eq_dec (r_pos r) (len sD)) as [Ee|Ne].
      - rewrite P', Ee, sgE_end, (Pe Ee). destruct (Z.leb_spec (len sQ) (len sQ)); destruct (Z.leb_spec (len sD) (len sD)); lia || reflexivity.
      - rewrite P', sgE_in by lia. pose proof (sg_lt (r_pos r) ltac:(lia)). destruct (Z.leb_spec (len sQ) (sg (r_pos r))); destruct (Z.leb_spec (len sD) (r_pos r)); lia || reflexivity. }
    rewrite El. destruct (Z.leb_spec (len sD) (r_pos r)) as [L|L]; [split; [reflexivity|exact H]|].
    destruct (RR_curNode r r' H) as [E1 E2]. destruct (curNode r) as [n r1]. destruct (curNode r') as [n' r1']. cbn [fst snd] in *. subst n'.
    rewrite (okind_map mvS n ikind_mvS). destruct (okind n =? IndentKind); [split; [reflexivity|exact E2]|].
    rewrite P', (sgE_in _ L), sg_at by lia. rewrite V. destruct (_ =? 0); split; reflexivity || exact E2.
  Qed.
  Lemma RR_cur r r' : RR r r' -> cur r' = cur r. Proof. intros H. unfold cur. apply RR_current, H. Qed.

  (* the byte behind the result of `current` *)
  Lemma current_raw r c : fst (current r) = c -> c <> 32 -> c <> 0 -> c <> 239 -> c <> 191 -> c <> 189 -> at_ (r_src r) (r_pos r) = c.
  Proof.
    unfold current. destruct (len (r_src r) <=? r_pos r); [cbn; intros <-; congruence|]. destruct (curNode r) as [n r1].
    destruct (okind n =? IndentKind); [cbn; intros <-; congruence|]. destruct (Z.eqb_spec (at_ (r_src r) (r_pos r)) 0) as [E0|N0]; cbn [fst].
    - unfold nullRepl. intros <-. destruct (_ =? 0); [congruence|]. destruct (_ =? 1); congruence.
    - intros <-. reflexivity.
  Qed.

  Lemma computeNVP_0 src p : at_ src p <> 0 -> computeNullVirtualPosition src p = 0.
  Proof. intros H. unfold computeNullVirtualPosition. destruct (Z.eqb_spec (at_ src p) 0); [contradiction|]. cbn [negb]. rewrite orb_true_r. reflexivity. Qed.

  Lemma RR_next r r' : RR r r' ->
    fst (next r') = fst (next r) /\
    (RR (snd (next r)) (snd (next r')) \/ (fst (next r) = false /\ RX (snd (next r)) (snd (next r')))) /\
    (at_ sD (r_pos r) <> 10 -> RR (snd (next r)) (snd (next r'))) /\
    (fst (next r) = true -> r_prev (snd (next r)) = r_pos r /\ r_pos r < len sD /\ r_prev (snd (next r')) = sg (r_pos r)).
  Proof.
    intros H. pose proof H as (A & B & C & G & W & V & (P & Pe) & P' & PV & IE & SX).
    destruct (RR_curNode r r' H) as [E1 E2]. unfold next.
    destruct (curNode r) as [n r1] eqn:Ec. destruct (curNode r') as [n' r1'] eqn:Ec'. cbn [fst snd] in E1, E2. subst n'.
    destruct n as [node|]; cbn [option_map].
    2:{ cbn [fst snd]. split; [reflexivity|]. split; [left; exact E2|]. split; [intros _; exact E2|discriminate]. }
    destruct (RR_curNode_in r r' node H ltac:(rewrite Ec; reflexivity)) as (Gn & Hin & Hp' & Hlt).
    pose proof E2 as (A1 & B1 & C1 & G1 & W1 & V1 & (P1 & Pe1) & P1' & PV1 & IE1 & SX1).
    assert (Ep1 : r_pos r1 = r_pos r) by (pose proof (curNode_fields r) as F; rewrite Ec in F; apply F).
    assert (Ep1' : r_pos r1' = r_pos r') by (pose proof (curNode_fields r') as F; rewrite Ec' in F; apply F).
    assert (Hsp1 : exists rest, r_spans r1 = node :: rest).
    { destruct (curNode_cases r) as [E0|(pre & m & rest & _ & E0 & _)]; rewrite E0 in Ec; inversion Ec; subst. exists rest. reflexivity. }
    destruct Hsp1 as (rest & Esp1).
    rewrite ikind_mvS, iindent_mvS, V1, A1, B1, Ep1, Ep1'.
    pose proof Gn as (Ga & Gb & Gc & Gt & Gk & Gl). pose proof (unp_ne _ Gk) as Gk'. rewrite Gk'. cbn [andb negb].
    assert (Ee : (r_pos r' + 1 <? iend (mvS node)) = (r_pos r + 1 <? iend node)).
    { rewrite iend_mvS, Hp', (Gt (r_pos r)) by lia. destruct (Z.ltb_spec (r_pos r + 1) (iend node)); destruct (Z.ltb_spec (sg (istart node) + (r_pos r - istart node) + 1) (sg (istart node) + (iend node - istart node))); lia || reflexivity. }
    rewrite Ee. destruct (Z.ltb_spec (r_pos r + 1) (iend node)) as [Es|Es].
    { cbn [fst snd]. split; [reflexivity|].
      assert (Hs : r_pos r' + 1 = sg (r_pos r + 1)) by (rewrite Hp', (Gt (r_pos r)), (Gt (r_pos r + 1)) by lia; lia).
      assert (Ea : at_ sQ (r_pos r' + 1) = at_ sD (r_pos r + 1)) by (rewrite Hs; apply sg_at; lia).
      assert (Eb : at_ sQ (r_pos r') = at_ sD (r_pos r)) by (rewrite Hp'; apply sg_at; lia).
      rewrite Ea, Eb.
      match goal with |- (RR ?x ?y \/ _) /\ _ => assert (HR : RR x y) end.
      { unfold RR. cbn. split; [reflexivity|]. split; [reflexivity|]. split; [exact C1|]. split; [exact G1|]. split; [exact W1|]. split; [reflexivity|].
        split; [split; [lia|intros; lia]|]. split; [rewrite sgE_in by lia; exact Hs|]. split; [right; split; [lia|exact Hp']|].
        split; [intros _; right; left; exists node; rewrite Esp1; split; [left; reflexivity|lia]|exact SX1]. }
      split; [left; exact HR|]. split; [intros _; exact HR|]. intros _. cbn. repeat split; [lia|exact Hp']. }
    rewrite C1. replace (tl (map mvS (r_spans r1))) with (map mvS (tl (r_spans r1))) by (destruct (r_spans r1); reflexivity).
    rewrite nextSpan_mvS.
    assert (Gtl : Forall gsp (tl (r_spans r1))) by (destruct (r_spans r1); [constructor|inversion G1; assumption]).
    destruct (nextSpan (tl (r_spans r1))) as [[i sp]|] eqn:En; cbn [option_map fst snd].
    - destruct (nextSpan_gsp _ _ _ Gtl En) as [Gi Gsp]. pose proof Gi as (Ia & Ib & Ic & It & _). split; [reflexivity|].
      rewrite istart_mvS.
      rewrite (computeNVP_0 sD (istart i)) by (apply sD_nonul; lia).
      rewrite (computeNVP_0 sQ (sg (istart i))) by (rewrite sg_at by lia; apply sD_nonul; lia).
      match goal with |- (RR ?x ?y \/ _) /\ _ => assert (HR : RR x y) end.
      { assert (Wsp : spW sD sp = true) by (apply (nextSpan_spW (tl (r_spans r1)) i sp); [rewrite Esp1; cbn [tl]; rewrite Esp1 in W1; apply (spW_tail sD node), W1|exact En]).
        destruct (nextSpan_split _ _ _ En) as (pre' & rest' & _ & Esp).
        unfold RR. cbn. split; [reflexivity|]. split; [reflexivity|]. split; [reflexivity|]. split; [exact Gsp|]. split; [exact Wsp|]. split; [reflexivity|].
        split; [split; [lia|intros; lia]|]. split; [rewrite sgE_in by lia; reflexivity|]. split; [right; split; [lia|exact Hp']|].
        split; [intros _; right; left; exists i; rewrite Esp; split; [left; reflexivity|lia]|].
        destruct SX1 as (pre1 & SX1). destruct (nextSpan_split _ _ _ En) as (pre2 & rest2 & Ea & Eb). rewrite Esp1 in SX1, Ea. cbn [tl] in Ea.
        exists (pre1 ++ node :: pre2). rewrite SX1, Ea, Eb, <- app_assoc. reflexivity. }
      split; [left; exact HR|]. split; [intros _; exact HR|]. intros _. cbn. repeat split; [lia|exact Hp'].
    - split; [reflexivity|].
      (* the node is the last span of IK *)
      assert (Hrest : rest = []).
      { destruct rest as [|i0 rest0]; [reflexivity|]. exfalso. rewrite Esp1 in G1, En. cbn [tl] in En. inversion G1 as [|? ? _ G2]; subst. inversion G2 as [|? ? (_ & _ & _ & _ & Gk0 & _) _]; subst.
        cbn [nextSpan] in En. rewrite Gk0 in En. discriminate En. }
      assert (Hall : forall u, In u IK -> iend u <= r_pos r + 1).
      { intros u Hu. destruct SX1 as (pre1 & SX1). rewrite Esp1, Hrest in SX1. rewrite SX1 in Hu, IK_w. apply in_app_or in Hu. destruct Hu as [Hu|[<-|[]]]; [|lia].
        pose proof (spW_before pre1 node u IK_w Hu). lia. }
      assert (HRR : at_ sD (r_pos r) <> 10 ->
                RR {| r_src := sD; r_spans := []; r_pos := r_pos r + 1; r_vpos := r_vpos r1; r_prev := r_pos r |}
                   {| r_src := sQ; r_spans := []; r_pos := r_pos r' + 1; r_vpos := r_vpos r1; r_prev := r_pos r' |}).
      { intros Hc.
        unfold RR. cbn. split; [reflexivity|]. split; [reflexivity|]. split; [reflexivity|]. split; [constructor|]. split; [reflexivity|]. split; [reflexivity|].
        split; [split; [lia|]|].
        { intros El. unfold sgEnd. apply sg_last; [lia|]. replace (len sD - 1) with (r_pos r) by lia. exact Hc. }
        split; [rewrite Hp'; symmetry; apply sgE_succ; [lia|left; exact Hc]|]. split; [right; split; [lia|exact Hp']|]. split; [|exists IK; rewrite app_nil_r; reflexivity].
        intros _. destruct (Z.eq_dec (r_pos r + 1) (len sD)) as [El|Nl].
        - left. split; [exact El|]. unfold sgEnd. apply sg_last; [lia|]. replace (len sD - 1) with (r_pos r) by lia. exact Hc.
        - right. right. split; [reflexivity|]. split; [lia|]. split; [replace (r_pos r + 1 - 1) with (r_pos r) by lia; exact Hc|exact Hall]. }
      split; [|split; [exact HRR|discriminate]].
      destruct (Z.eq_dec (at_ sD (r_pos r)) 10) as [E10|N10]; [|left; apply HRR; exact N10].
      right. split; [reflexivity|]. unfold RX. cbn. repeat split; try lia; try assumption.
  Qed.

  (* ---- the rest of the current span ---- *)
  Lemma sub_ext (X Y : bytes) a b n : 0 <= a -> 0 <= b -> 0 <= n -> a + n <= len X -> b + n <= len Y ->
    (forall i, 0 <= i < n -> at_ X (a + i) = at_ Y (b + i)) -> sub X a (a + n) = sub Y b (b + n).
  Proof.
    intros Ha Hb Hn HX HY H. unfold sub, upto, from_. replace (a + n - a) with n by lia. replace (b + n - b) with n by lia.
    apply (nth_ext _ _ 0 0).
    - rewrite !firstn_length, !skipn_length. unfold len in *. lia.
    - intros k Hk. rewrite firstn_length, skipn_length in Hk. unfold len in *.
      rewrite !nth_firstn_lt' by lia. rewrite !nth_skipn'. specialize (H (Z.of_nat k) ltac:(lia)). unfold at_ in H.
      destruct (Z.ltb_spec (a + Z.of_nat k) 0); [lia|]. destruct (Z.ltb_spec (b + Z.of_nat k) 0); [lia|].
      replace (Z.to_nat (a + Z.of_nat k)) with (Z.to_nat a + k)%nat in H by lia. replace (Z.to_nat (b + Z.of_nat k)) with (Z.to_nat b + k)%nat in H by lia. exact H.
  Qed.

  Lemma RR_remaining r r' : RR r r' ->
    fst (remainingNodeBytes r') = fst (remainingNodeBytes r) /\ RR (snd (remainingNodeBytes r)) (snd (remainingNodeBytes r')).
  Proof.
    intros H. pose proof H as (A & B & C & G & W & V & (P & Pe) & P' & PV & IE & SX). destruct (RR_curNode r r' H) as [E1 E2]. unfold remainingNodeBytes.
    destruct (curNode r) as [n r1] eqn:Ec. destruct (curNode r') as [n' r1'] eqn:Ec'. cbn [fst snd] in E1, E2. subst n'.
    destruct n as [node|]; cbn [option_map fst snd]; [|split; [reflexivity|exact E2]]. split; [|exact E2].
    destruct (RR_curNode_in r r' node H ltac:(rewrite Ec; reflexivity)) as (Gn & Hin & Hp' & Hlt). pose proof Gn as (Ga & Gb & Gc & Gt & Gk & Gl).
    rewrite A, B, Hp', iend_mvS, (Gt (r_pos r)) by lia.
    replace (sg (istart node) + (iend node - istart node)) with (sg (istart node) + (r_pos r - istart node) + (iend node - r_pos r)) by lia.
    assert (Esub : sub sD (r_pos r) (iend node) = sub sD (r_pos r) (r_pos r + (iend node - r_pos r))) by (f_equal; lia). rewrite Esub.
    apply sub_ext; try lia.
    - pose proof (sg_nn (istart node) Ga). lia.
    - pose proof (sg_lt (iend node - 1) ltac:(lia)) as L. rewrite (Gt (iend node - 1)) in L by lia. lia.
    - intros i Hi. rewrite <- (Gt (r_pos r)) by lia. replace (sg (r_pos r) + i) with (sg (r_pos r + i)) by (rewrite (Gt (r_pos r)), (Gt (r_pos r + i)) by lia; lia).
      apply sg_at. lia.
  Qed.

  (* ---- with spans that are not Indent entries the reader returns the bytes of the source ---- *)
  Lemma RR_PL r r' : RR r r' -> PL sD r. Proof. intros (A & B & C & G & W & _). split; assumption. Qed.
  Lemma RR_current_raw r r' : RR r r' -> r_pos r < len sD -> fst (current r) = at_ sD (r_pos r).
  Proof.
    intros H L. pose proof H as (A & B & C & G & W & V & (P & Pe) & P' & PV & IE & SX). unfold current. rewrite A.
    destruct (Z.leb_spec (len sD) (r_pos r)); [lia|]. destruct (curNode r) as [n r1] eqn:Ec.
    assert (Hk : (okind n =? IndentKind) = false).
    { destruct n as [node|]; [|reflexivity]. destruct (RR_curNode_in r r' node H ltac:(rewrite Ec; reflexivity)) as ((_ & _ & _ & _ & Gk & _) & _). cbn [okind]. apply unp_ne, Gk. }
    rewrite Hk. destruct (Z.eqb_spec (at_ sD (r_pos r)) 0) as [E0|N0]; [exfalso; apply (sD_nonul (r_pos r)); [lia|exact E0]|reflexivity].
  Qed.
  Lemma RR_current_end r r' : RR r r' -> r_pos r = len sD -> fst (current r) = 0.
  Proof. intros (A & _) E. unfold current. rewrite A, E. destruct (Z.leb_spec (len sD) (len sD)); [reflexivity|lia]. Qed.
  Lemma RR_current_nz r r' : RR r r' -> fst (current r) <> 0 -> r_pos r < len sD /\ fst (current r) = at_ sD (r_pos r).
  Proof.
    intros H N. pose proof H as (_ & _ & _ & _ & _ & _ & P & _). destruct (Z.eq_dec (r_pos r) (len sD)) as [E|E]; [rewrite (RR_current_end r r' H E) in N; contradiction|].
    split; [lia|apply (RR_current_raw r r' H); lia].
  Qed.

  (* a span that is the last one of IK has nothing behind it in a suffix of IK *)
  Lemma last_span_rest (l0 : list inline) node rest : spW sD (node :: rest) = true -> istart node < iend node ->
    (exists pre, IK = pre ++ [node]) -> (exists preX, IK = preX ++ l0 ++ node :: rest) -> rest = [].
  Proof.
    intros W Hne (pre & E1) (preX & E2). destruct rest as [|x rest0]; [reflexivity|]. exfalso.
    destruct (@exists_last _ (x :: rest0) ltac:(discriminate)) as (rr & z & Ez). rewrite Ez in E2, W.
    rewrite E1 in E2. replace (preX ++ l0 ++ node :: rr ++ [z]) with ((preX ++ l0 ++ node :: rr) ++ [z]) in E2 by (rewrite <- !app_assoc; reflexivity).
    apply app_inj_tail in E2. destruct E2 as [_ <-]. pose proof (spW_cons _ _ _ W) as (_ & _ & _ & D & _).
    specialize (D node ltac:(apply in_or_app; right; left; reflexivity)). lia.
  Qed.
  (* a successful step from a byte that is not a line feed goes to the next byte *)
  Lemma RR_next_pos r r' : RR r r' -> fst (next r) = true -> at_ sD (r_pos r) <> 10 -> r_pos (snd (next r)) = r_pos r + 1.
  Proof.
    intros H Hok N10. pose proof H as (A & B & C & G & W & V & (P & Pe) & P' & PV & IE & SX). unfold next in *.
    destruct (curNode_cases r) as [E|(pre & node & rest & E1 & E & E3)]; rewrite E in *; [discriminate Hok|].
    cbn [withSpans r_src r_pos r_spans r_vpos] in *.
    rewrite E1 in G, W. apply Forall_app in G. destruct G as [_ G]. inversion G as [|? ? Gn Grest]; subst. apply spW_app_r in W.
    pose proof Gn as (Ga & Gb & Gc & Gt & Gk & Gl). pose proof (spanHas_range _ _ E3) as (R1 & R2 & R3).
    apply unp_ne in Gk. rewrite Gk in *. cbn [andb negb] in *.
    destruct (Z.ltb_spec (r_pos r + 1) (iend node)) as [L|L]; [reflexivity|]. exfalso.
    assert (Ep : r_pos r = iend node - 1) by lia. destruct Gl as [Gl|[Gl|Gl]]; [rewrite <- Ep in Gl; contradiction| |].
    2:{ assert (Hr : rest = []) by (apply (last_span_rest pre node rest W Gb Gl); destruct SX as (preX & SX); exists preX; rewrite SX, E1; reflexivity).
        subst rest. cbn [tl nextSpan] in Hok. discriminate Hok. }
    cbn [tl] in Hok. destruct (nextSpan rest) as [[i sp]|] eqn:En; [|discriminate Hok].
    destruct (nextSpan_split _ _ _ En) as (pre' & rest' & Ea & Eb). pose proof (spW_cons _ _ _ W) as (_ & _ & _ & D & _).
    assert (Hi : In i rest) by (rewrite Ea; apply in_or_app; right; left; reflexivity). specialize (D i Hi).
    rewrite Forall_forall in Grest. pose proof (Grest i Hi) as (Ia & Ib & Ic & _). lia.
  Qed.
  Lemma RR_next_in r r' : RR r r' -> fst (next r) = true -> r_pos (snd (next r)) < len sD.
  Proof.
    intros H Hok. pose proof H as (A & B & C & G & W & V & (P & Pe) & P' & PV & IE & SX). unfold next in *.
    destruct (curNode_cases r) as [E|(pre & node & rest & E1 & E & E3)]; rewrite E in *; [discriminate Hok|].
    cbn [withSpans r_src r_pos r_spans r_vpos] in *.
    rewrite E1 in G. apply Forall_app in G. destruct G as [_ G]. inversion G as [|? ? Gn Grest]; subst.
    pose proof Gn as (Ga & Gb & Gc & Gt & Gk & Gl). apply unp_ne in Gk. rewrite Gk in *. cbn [andb negb] in *.
    destruct (Z.ltb_spec (r_pos r + 1) (iend node)) as [L|L]; [cbn; lia|].
    cbn [tl] in *. destruct (nextSpan rest) as [[i sp]|] eqn:En; [|discriminate Hok]. cbn.
    destruct (nextSpan_gsp _ _ _ Grest En) as [(Ia & Ib & Ic & _) _]. lia.
  Qed.
  (* exhausted inside a line, behind the last span *)
  Definition ExhMid (r : reader) : Prop :=
    fst (curNode r) = None /\ 0 < r_pos r < len sD /\ at_ sD (r_pos r - 1) <> 10 /\ forall u, In u IK -> iend u <= r_pos r.
  Lemma RR_inside r r' : ie = true -> RR r r' -> r_pos r < len sD -> (exists n, fst (curNode r) = Some n) \/ ExhMid r.
  Proof.
    intros Hie H L. destruct (RR_curNode r r' H) as [_ E2]. destruct (curNode_cases r) as [E0|(pre & m & rest & _ & E0 & _)]; rewrite E0 in *; cbn [fst snd] in *; [|left; exists m; reflexivity].
    destruct E2 as (_ & _ & _ & _ & _ & _ & _ & _ & _ & IE & _). cbn [withSpans r_spans r_pos] in IE. destruct (IE Hie) as [[IE0 _]|[(u & [] & _)|(_ & I2 & I3 & I4)]]; [lia|].
    right. unfold ExhMid. rewrite E0. cbn [fst]. repeat split; try assumption; lia.
  Qed.
  Lemma RR_next_fail r r' : RR r r' -> (exists n, fst (curNode r) = Some n) -> fst (next r) = false -> r_pos r < len sD ->
    r_pos (snd (next r)) = r_pos r + 1 /\ r_pos (snd (next r')) = sg (r_pos r) + 1 /\ r_prev (snd (next r)) = r_pos r /\ r_prev (snd (next r')) = sg (r_pos r).
  Proof.
    intros H (node & En) Hf L. destruct (RR_curNode r r' H) as [E1 E2].
    destruct (RR_curNode_in r r' node H En) as (Gn & Hin & Hp' & Hlt). pose proof Gn as (Ga & Gb & Gc & Gt & Gk & Gl). apply unp_ne in Gk.
    unfold next in *. destruct (curNode r) as [n r1] eqn:Ec. destruct (curNode r') as [n' r1'] eqn:Ec'. cbn [fst snd] in *. subst n n'. cbn [option_map].
    pose proof E2 as (A1 & B1 & C1 & G1 & W1 & V1 & (P1 & Pe1) & P1' & PV1 & IE1 & SX1).
    assert (Ep1 : r_pos r1 = r_pos r) by (pose proof (curNode_fields r) as F; rewrite Ec in F; apply F).
    assert (Ep1' : r_pos r1' = r_pos r') by (pose proof (curNode_fields r') as F; rewrite Ec' in F; apply F).
    rewrite ikind_mvS, iindent_mvS, Ep1, Ep1' in *. rewrite Gk in *. cbn [andb negb] in *.
    assert (Ee : (r_pos r' + 1 <? iend (mvS node)) = (r_pos r + 1 <? iend node)).
    { rewrite iend_mvS, Hp', (Gt (r_pos r)) by lia. destruct (Z.ltb_spec (r_pos r + 1) (iend node)); destruct (Z.ltb_spec (sg (istart node) + (r_pos r - istart node) + 1) (sg (istart node) + (iend node - istart node))); lia || reflexivity. }
    rewrite Ee. destruct (r_pos r + 1 <? iend node); [discriminate Hf|].
    rewrite C1. replace (tl (map mvS (r_spans r1))) with (map mvS (tl (r_spans r1))) by (destruct (r_spans r1); reflexivity).
    rewrite nextSpan_mvS. destruct (nextSpan (tl (r_spans r1))) as [[i sp]|]; [discriminate Hf|]. cbn. rewrite Hp'. repeat split; reflexivity.
  Qed.
  (* exhausted inside a line: `next` fails and does not move; `current` returns the byte of the source on both sides *)
  Lemma ExhMid_next r : ExhMid r -> next r = (false, snd (curNode r)).
  Proof. intros (E & _). unfold next. destruct (curNode r) as [n r1]. cbn [fst] in E. subst n. reflexivity. Qed.
End QR.

(* ---- the hypotheses on (sD, sQ, sg) as one record, and the lemmas restated with it ---- *)
Record SGood (sD sQ : bytes) (sg : Z -> Z) : Prop := mkSGood {
  SG_mono : forall x y, 0 <= x -> x < y -> sg x < sg y;
  SG_nn : forall x, 0 <= x -> 0 <= sg x;
  SG_at : forall x, 0 <= x < len sD -> at_ sQ (sg x) = at_ sD x;
  SG_lt : forall x, 0 <= x < len sD -> sg x < len sQ;
  SG_succ : forall x, 0 <= x < len sD -> at_ sD x <> 10 -> sg (x + 1) = sg x + 1;
  SG_lf : forall x, 0 <= x < len sD -> at_ sD x = 10 -> sg x + 1 < sg (x + 1);
  SG_last : 0 < len sD -> at_ sD (len sD - 1) <> 10 -> sg (len sD - 1) + 1 = len sQ;
  SG_end_le : sg (len sD - 1) + 1 <= len sQ;
  SG_nonul : forall x, 0 <= x < len sD -> at_ sD x <> 0;
  SG_pos : 0 < len sD }.

Section Bundled.
  Variables (sD sQ : bytes) (sg : Z -> Z) (IK : list inline) (ie : bool).
  Hypothesis S : SGood sD sQ sg.
  Hypothesis IKw : spW sD IK = true.
  Notation RR := (RR sD sQ sg IK ie).
  Notation RX := (RX sD sQ sg IK).
  Notation sgE := (sgE sD sg).
  Ltac use L := destruct S; eapply L; eassumption.
  Lemma bRR_curNode r r' : RR r r' -> fst (curNode r') = option_map (mvS sg) (fst (curNode r)) /\ RR (snd (curNode r)) (snd (curNode r')).
  Proof. use RR_curNode. Qed.
  Lemma bRR_curNode_in r r' n : RR r r' -> fst (curNode r) = Some n ->
    gsp sD sg IK n /\ istart n <= r_pos r < iend n /\ r_pos r' = sg (r_pos r) /\ r_pos r < len sD.
  Proof. use RR_curNode_in. Qed.
  Lemma bRR_current r r' : RR r r' -> fst (current r') = fst (current r) /\ RR (snd (current r)) (snd (current r')).
  Proof. use RR_current. Qed.
  Lemma bRR_cur r r' : RR r r' -> cur r' = cur r. Proof. use RR_cur. Qed.
  Lemma bRR_next r r' : RR r r' ->
    fst (next r') = fst (next r) /\
    (RR (snd (next r)) (snd (next r')) \/ (fst (next r) = false /\ RX (snd (next r)) (snd (next r')))) /\
    (at_ sD (r_pos r) <> 10 -> RR (snd (next r)) (snd (next r'))) /\
    (fst (next r) = true -> r_prev (snd (next r)) = r_pos r /\ r_pos r < len sD /\ r_prev (snd (next r')) = sg (r_pos r)).
  Proof. use RR_next. Qed.
  Lemma bRR_remaining r r' : RR r r' ->
    fst (remainingNodeBytes r') = fst (remainingNodeBytes r) /\ RR (snd (remainingNodeBytes r)) (snd (remainingNodeBytes r')).
  Proof. use RR_remaining. Qed.
  Lemma bRR_current_raw r r' : RR r r' -> r_pos r < len sD -> fst (current r) = at_ sD (r_pos r).
  Proof. use RR_current_raw. Qed.
  Lemma bRR_current_end r r' : RR r r' -> r_pos r = len sD -> fst (current r) = 0.
  Proof. intros H E. eapply RR_current_end; eassumption. Qed.
  Lemma bRR_current_nz r r' : RR r r' -> fst (current r) <> 0 -> r_pos r < len sD /\ fst (current r) = at_ sD (r_pos r).
  Proof. use RR_current_nz. Qed.
  Lemma bRR_next_pos r r' : RR r r' -> fst (next r) = true -> at_ sD (r_pos r) <> 10 -> r_pos (snd (next r)) = r_pos r + 1.
  Proof. use RR_next_pos. Qed.
  Lemma bRR_next_in r r' : RR r r' -> fst (next r) = true -> r_pos (snd (next r)) < len sD.
  Proof. use RR_next_in. Qed.
  Lemma bRR_false r r' : QIRdrBase.RR sD sQ sg IK true r r' -> QIRdrBase.RR sD sQ sg IK false r r'.
  Proof. intros (A & B & C & G & W & V & P & P' & PV & _ & SX). repeat split; try assumption; try apply P. discriminate. Qed.
  (* the same readers over a shorter list, when the spans are a suffix of it *)
  Lemma gsp_suffix IK' x u : IK = x ++ IK' -> In u IK' -> gsp sD sg IK u -> gsp sD sg IK' u.
  Proof.
    intros E Hu (A & B & C & T & K & L). repeat split; try assumption; try apply A; try apply B. destruct L as [L|[L|(pre & L)]]; [left; exact L|right; left; exact L|right; right].
    destruct (@exists_last _ IK' ltac:(intros E0; rewrite E0 in Hu; destruct Hu)) as (rr & z & Ez). rewrite Ez in E. rewrite L, app_assoc in E.
    apply app_inj_tail in E. destruct E as [_ <-]. exists rr. exact Ez.
  Qed.
  Lemma bRR_reik IK' r r' : RR r r' -> (exists x, IK = x ++ IK') -> (exists pre, IK' = pre ++ r_spans r) -> QIRdrBase.RR sD sQ sg IK' ie r r'.
  Proof.
    intros (A & B & C & G & W & V & P & P' & PV & IE & _) (x & Ex) SX. split; [exact A|]. split; [exact B|]. split; [exact C|]. split.
    { destruct SX as (pre & SX). rewrite Forall_forall in *. intros u Hu. apply (gsp_suffix IK' x u Ex); [rewrite SX; apply in_or_app; right; exact Hu|apply G, Hu]. }
    split; [exact W|]. split; [exact V|]. split; [exact P|]. split; [exact P'|]. split; [exact PV|]. split; [|exact SX].
    intros Hie. destruct (IE Hie) as [I1|[I2|(I3 & I4 & I5 & I6)]]; [left; exact I1|right; left; exact I2|right; right].
    split; [exact I3|]. split; [exact I4|]. split; [exact I5|]. intros u Hu. apply I6. rewrite Ex. apply in_or_app. right. exact Hu.
  Qed.
  Lemma bRR_inside r r' : ie = true -> RR r r' -> r_pos r < len sD -> (exists n, fst (curNode r) = Some n) \/ ExhMid sD IK r.
  Proof. use RR_inside. Qed.
  Lemma bRR_next_fail r r' : RR r r' -> (exists n, fst (curNode r) = Some n) -> fst (next r) = false -> r_pos r < len sD ->
    r_pos (snd (next r)) = r_pos r + 1 /\ r_pos (snd (next r')) = sg (r_pos r) + 1 /\ r_prev (snd (next r)) = r_pos r /\ r_prev (snd (next r')) = sg (r_pos r).
  Proof. use RR_next_fail. Qed.
  Lemma bRR_new sp p : Forall (gsp sD sg IK) sp -> spW sD sp = true -> 0 <= p <= len sD -> (p = len sD -> sgEnd sD sg = len sQ) -> (ie = true -> InE sD sQ sg IK sp p) -> (exists pre, IK = pre ++ sp) -> RR (newReader sD sp p) (newReader sQ (map (mvS sg) sp) (sgE p)).
  Proof. use RR_new. Qed.
  Lemma bsgE_in p : p < len sD -> sgE p = sg p. Proof. use QIRdrBase.sgE_in. Qed.
  Lemma bsgE_end : sgE (len sD) = sgEnd sD sg. Proof. apply QIRdrBase.sgE_end. Qed.
  Lemma bsgE_succ p : 0 <= p < len sD -> (at_ sD p <> 10 \/ p + 1 = len sD) -> sgE (p + 1) = sg p + 1.
  Proof. use sgE_succ. Qed.
  Lemma bsgE_ltb p q : 0 <= p <= len sD -> 0 <= q <= len sD -> (sgE p <? sgE q) = (p <? q).
  Proof. use sgE_ltb. Qed.
  Lemma bsgE_leb p q : 0 <= p <= len sD -> 0 <= q <= len sD -> (sgE p <=? sgE q) = (p <=? q).
  Proof. use sgE_leb. Qed.
  Lemma bsgE_eqb p q : 0 <= p <= len sD -> 0 <= q <= len sD -> (sgE p =? sgE q) = (p =? q).
  Proof. use sgE_eqb. Qed.
  Lemma bsgE_nn p : 0 <= p -> 0 <= sgE p. Proof. use sgE_nn. Qed.
  Lemma bnodeIdx_mvS sp p k : Forall (gsp sD sg IK) sp -> 0 <= p <= len sD -> nodeIdx (map (mvS sg) sp) (sgE p) k = nodeIdx sp p k.
  Proof. use nodeIdx_mvS. Qed.

  (* positions inside a span of IK *)
  Definition InIK (p : Z) : Prop := exists u, In u IK /\ istart u <= p < iend u.
  Lemma bRR_InIK r r' : ie = true -> RR r r' -> r_pos r < len sD -> r_spans r <> [] -> InIK (r_pos r).
  Proof.
    intros Hie (_ & _ & _ & _ & _ & _ & _ & _ & _ & IE & (pre & SX)) L Hne. destruct (IE Hie) as [E|[(u & Hu & Hin)|(E & _)]]; [lia| |contradiction].
    exists u. split; [rewrite SX; apply in_or_app; right; exact Hu|exact Hin].
  Qed.
  Hypothesis IKg : Forall (gsp sD sg IK) IK.
End Bundled.
