From Coq Require Import List ZArith Lia Bool.
Import ListNotations.
Require Import Base Tables Utf8 Tree Rdr Link Collect Html Recog Inl3a Inl3b Inl3c Inl3d Inl3e LP Rules Starts Driver L2Kind L2CC.
Open Scope Z_scope.

(* the inline pass leaves the block structure alone *)
Lemma bkind_rewriteB src m : forall fuel b, bkind (rewriteB fuel src m b) = bkind b.
Proof.
  destruct fuel as [|f]; intros b; [reflexivity|]. cbn [rewriteB].
  destruct (_ && _); [apply bkind_set_bik|apply bkind_set_bkids].
Qed.
Lemma cc_rewriteB src m : forall fuel b, cc (rewriteB fuel src m b) = cc b.
Proof.
  induction fuel as [|f IH]; intros b; [reflexivity|]. cbn [rewriteB].
  destruct (_ && _); [apply cc_set_bik|].
  destruct b as [K s e bk ik a n c l lb]. cbn [set_bkids bkids cc]. f_equal.
  - induction bk as [|x r IHr]; [reflexivity|]. cbn [map forallb]. rewrite bkind_rewriteB, IHr. reflexivity.
  - induction bk as [|x r IHr]; [reflexivity|]. cbn [map forallb]. rewrite IH, IHr. reflexivity.
Qed.

(* C05, containment clause, for fully parsed documents *)
Theorem parseFull_contain input : Forall (fun r => rootOK (rb_blk r)) (fst (parseFull input)).
Proof.
  unfold parseFull. pose proof (parseBlocks_contain input) as H. destruct (parseBlocks input) as [roots code]. cbn [fst] in *.
  apply Forall_forall. intros r Hr. apply in_map_iff in Hr. destruct Hr as (r0 & <- & Hr0).
  rewrite Forall_forall in H. destruct (H r0 Hr0) as [A B]. unfold rootOK. cbn [rb_blk].
  rewrite cc_rewriteB, bkind_rewriteB. tauto.
Qed.
Print Assumptions parseFull_contain.
