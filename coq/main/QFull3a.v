(* QFull3a.v -- T64: the root blocks of a document without NUL: source, offsets (from Tiling.C01_partial and totality). *)
From Coq Require Import List ZArith Lia Bool.
Import ListNotations.
Require Import Base Tree LP Driver Props SliceBase TilBase Tiling Total ExDrv RefSliceFold EntriesOK QuoteSimDefs QuoteSimLines.
Open Scope Z_scope.

Lemma tiles_In D : forall rs p r, tiles D p rs = true -> In r rs ->
  p <= rb_start r /\ rb_start r <= rb_end r /\ rb_end r <= len D /\ rb_src r = Props.replaceNul (sub D (rb_start r) (rb_end r)) /\
  (forallb (fun c => negb (c =? 0)) D = true -> rb_end r - rb_start r = len (rb_src r)).
Proof.
  induction rs as [|x rest IH]; intros p r H Hin; [destruct Hin|]. cbn [tiles] in H. cbv zeta in H.
  apply andb_true_iff in H. destruct H as [H Hrest]. apply andb_true_iff in H. destruct H as [H Hlen]. apply andb_true_iff in H. destruct H as [H _].
  apply andb_true_iff in H. destruct H as [H Hsrc]. apply andb_true_iff in H. destruct H as [H _]. apply andb_true_iff in H. destruct H as [H H3].
  apply andb_true_iff in H. destruct H as [H1 H2]. apply Z.leb_le in H1, H2, H3.
  destruct Hin as [<-|Hin].
  - split; [exact H1|]. split; [exact H2|]. split; [exact H3|]. split; [apply bytes_eqb_eq, Hsrc|].
    intros Hz. rewrite Hz in Hlen. apply Z.eqb_eq, Hlen.
  - destruct (IH (rb_end x) r Hrest Hin) as (A & B). split; [lia|exact B].
Qed.

Section Roots.
  Variable D : bytes.
  Hypothesis D_nul : noNul D.
  Lemma D_nz : forallb (fun c => negb (c =? 0)) D = true.
  Proof. apply forallb_forall. intros c Hc. unfold noNul in D_nul. rewrite Forall_forall in D_nul. apply negb_true_iff, Z.eqb_neq, D_nul, Hc. Qed.

  Lemma root_src r : In r (fst (parseBlocks D)) ->
    0 <= rb_start r /\ rb_start r <= rb_end r /\ rb_end r <= len D /\ rb_src r = sub D (rb_start r) (rb_end r) /\
    len (rb_src r) = rb_end r - rb_start r /\ bend (rb_blk r) = len (rb_src r).
  Proof.
    intros Hr. pose proof (C01_partial D (parseBlocks_total D)) as HT. unfold chk_C01 in HT.
    destruct (tiles_In D _ 0 r HT Hr) as (A & B & C & E & F). specialize (F D_nz).
    assert (Hsub : forallb (fun c => negb (c =? 0)) (sub D (rb_start r) (rb_end r)) = true).
    { apply forallb_forall. intros c Hc. pose proof D_nz as Hz. rewrite forallb_forall in Hz. apply Hz.
      unfold sub, upto in Hc. pose proof (firstn_skipn (Z.to_nat (rb_end r - rb_start r)) (from_ D (rb_start r))) as X.
      assert (In c (from_ D (rb_start r))) by (rewrite <- X; apply in_or_app; left; exact Hc).
      unfold from_ in H. pose proof (firstn_skipn (Z.to_nat (rb_start r)) D) as Y. rewrite <- Y. apply in_or_app. right. exact H. }
    rewrite replaceNul_eq, (replaceNul_noNul _ Hsub) in E.
    split; [lia|]. split; [exact B|]. split; [exact C|]. split; [exact E|]. split; [lia|].
    pose proof (parseBlocks_okRX D) as HX. rewrite Forall_forall in HX. destruct (HX r Hr) as (Bf & M & Hb & Es & _).
    rewrite Es. rewrite EntriesOK.len_fillNulls, ShapesBase.len_upto. lia.
  Qed.
End Roots.
Print Assumptions root_src.
