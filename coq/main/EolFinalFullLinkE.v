From Coq Require Import List ZArith Lia Bool.
Import ListNotations.
Require Import Base Tree Rdr Link Collect LP ShapesBase ShapesR IFBase EolFinalDefs LADef EolGenRdrBase EolFinalFullRdrE.
Open Scope Z_scope.

(* C14 (i), final newline, inline pass, extension mode: the link scanners of Link.v (same spans, sources src and src ++ [10]). *)
Section LE.
Variable src : bytes.
Local Notation L := (len src).
Local Notation src2 := (src ++ [10]).
Hypothesis HL : 0 < L.
Hypothesis Hlast : isEOLz (at_ src (L - 1)) = false.
Local Notation ws := (ws src).
Local Notation WF := (WF src).

Ltac ecur r H Hp :=
  let Ec := fresh "Ec" in let Wc := fresh "Wc" in let Pc := fresh "Pc" in
  destruct (current_ws src HL Hlast r H Hp) as (Ec & Wc & Pc); rewrite Ec; destruct (current r) as [?c ?rc]; cbn [fst snd] in *.
Ltac enext r H :=
  let En := fresh "En" in let Wn := fresh "Wn" in let An := fresh "An" in
  destruct (next_ws src HL Hlast r H) as (En & Wn & An); rewrite En; destruct (next r) as [?ok ?rn]; cbn [fst snd] in *.
Ltac edead r H Hp :=
  let D1 := fresh "D1" in let D2 := fresh "D2" in destruct (current_dead src HL Hlast r H Hp) as [D1 D2]; rewrite ?D1, ?D2.
Lemma next_dead_ws r : WF r -> r_pos r = L -> next (ws r) = (false, ws r) /\ next r = (false, r).
Proof. intros H Hp. rewrite (next_ws1 src HL Hlast r H), (next_dead src r H Hp). split; reflexivity. Qed.
Lemma pos_cases r : WF r -> r_pos r < L \/ r_pos r = L.
Proof. intros (_ & _ & [C|[C _]]); [left|right]; exact C. Qed.

Lemma e_sls_loop : forall f r, WF r -> r_pos r < L ->
  skipLinkSpace_loop f (ws r) = (fst (skipLinkSpace_loop f r), ws (snd (skipLinkSpace_loop f r))) /\ WF (snd (skipLinkSpace_loop f r)) /\
  (fst (skipLinkSpace_loop f r) = true -> r_pos (snd (skipLinkSpace_loop f r)) < L).
Proof.
  induction f as [|f IH]; intros r H Hp; [cbn; tauto|]. cbn [skipLinkSpace_loop]. ecur r H Hp.
  destruct (isSpaceTabOrLineEnding c); [|cbn [fst snd]; split; [reflexivity|split; [exact Wc|intros _; lia]]].
  enext rc Wc. destruct ok; [apply IH; [exact Wn|apply An; reflexivity]|cbn [fst snd]; split; [reflexivity|split; [exact Wn|discriminate]]].
Qed.
Lemma e_skipLinkSpace f r : WF r -> (1 <= f)%nat ->
  skipLinkSpace f (ws r) = (fst (skipLinkSpace f r), ws (snd (skipLinkSpace f r))) /\ WF (snd (skipLinkSpace f r)) /\
  (fst (skipLinkSpace f r) = true -> r_pos (snd (skipLinkSpace f r)) < L).
Proof.
  intros H Hf. unfold skipLinkSpace. destruct (pos_cases r H) as [Hp|Hp].
  - ecur r H Hp. destruct (c =? 0); [cbn [fst snd]; split; [reflexivity|split; [exact Wc|discriminate]]|]. apply e_sls_loop; [exact Wc|lia].
  - edead r H Hp. change (0 =? 0) with true. change (10 =? 0) with false. cbv iota. destruct f as [|f]; [lia|]. cbn [skipLinkSpace_loop]. rewrite D2.
    change (isSpaceTabOrLineEnding 10) with true. cbv iota. rewrite (proj1 (next_dead_ws r H Hp)). cbn [fst snd]. split; [reflexivity|split; [exact H|discriminate]].
Qed.

Definition mapO {A} (o : option (reader * A)) : option (reader * A) := match o with Some (r, a) => Some (ws r, a) | None => None end.
Definition okO {A} (o : option (reader * A)) : Prop := match o with Some (r, _) => WF r /\ r_pos r < L | None => True end.
Lemma e_ll_skip : forall f r ch, WF r -> ll_skip f (ws r) ch = mapO (ll_skip f r ch) /\ okO (ll_skip f r ch).
Proof.
  induction f as [|f IH]; intros r ch H; [cbn; tauto|]. cbn [ll_skip]. enext r H. destruct ok; cbn [negb]; [|cbn; tauto].
  specialize (An eq_refl). ecur rn Wn An. destruct (_ || _ || _); [cbn; tauto|]. destruct (negb _); [cbn; split; [reflexivity|split; [exact Wc|lia]]|]. apply IH, Wc.
Qed.
Lemma e_ll_body : forall f r ch ie, WF r -> r_pos r < L -> ll_body f (ws r) ch ie = mapO (ll_body f r ch ie) /\ okO (ll_body f r ch ie).
Proof.
  induction f as [|f IH]; intros r ch ie H Hp; [cbn; tauto|]. cbn [ll_body]. ecur r H Hp.
  destruct (negb _); [cbn; split; [reflexivity|split; [exact Wc|lia]]|].
  destruct (c =? 92).
  - change (r_pos (ws rc)) with (r_pos rc). enext rc Wc. destruct ok; cbn [negb]; [|cbn; tauto]. specialize (An eq_refl). ecur rn Wn An.
    change (r_pos (ws rc0)) with (r_pos rc0). enext rc0 Wc0. destruct ok; cbn [negb]; [|cbn; tauto]. apply IH; [exact Wn0|apply An0; reflexivity].
  - change (r_pos (ws rc)) with (r_pos rc). enext rc Wc. destruct ok; cbn [negb]; [|cbn; tauto]. apply IH; [exact Wn|apply An; reflexivity].
Qed.
Lemma e_parseLinkLabel f r : WF r -> r_pos r < L ->
  parseLinkLabel f (ws r) = (fst (parseLinkLabel f r), ws (snd (parseLinkLabel f r))) /\ WF (snd (parseLinkLabel f r)).
Proof.
  intros H Hp. unfold parseLinkLabel. ecur r H Hp. destruct (negb (c =? 91)); [cbn [fst snd]; split; [reflexivity|exact Wc]|].
  change (r_pos (ws rc)) with (r_pos rc).
  destruct (e_ll_skip f rc 0 Wc) as [E1 O1]. rewrite E1. destruct (ll_skip f rc 0) as [[r1 chars]|]; cbn [mapO okO] in *; [|split; [reflexivity|exact Wc]].
  destruct O1 as [W1 P1]. change (r_pos (ws r1)) with (r_pos r1).
  destruct (e_ll_body f r1 chars (-1) W1 P1) as [E2 O2]. rewrite E2. destruct (ll_body f r1 chars (-1)) as [[r2 ie]|]; cbn [mapO okO] in *; [|split; [reflexivity|exact W1]].
  destruct O2 as [W2 P2]. ecur r2 W2 P2. destruct (negb (c0 =? 93)); [cbn [fst snd]; split; [reflexivity|exact Wc0]|].
  change (r_pos (ws rc0)) with (r_pos rc0). enext rc0 Wc0. cbn [fst snd]. split; [reflexivity|exact Wn].
Qed.

Lemma e_ld_angle : forall f r start, WF r ->
  ld_angle f (ws r) start = (fst (ld_angle f r start), ws (snd (ld_angle f r start))) /\ WF (snd (ld_angle f r start)).
Proof.
  induction f as [|f IH]; intros r start H; [cbn; tauto|]. cbn [ld_angle]. enext r H. destruct ok; cbn [negb]; [|cbn [fst snd]; tauto].
  specialize (An eq_refl). ecur rn Wn An. destruct (_ || _); [cbn [fst snd]; tauto|].
  destruct (c =? 92).
  - enext rc Wc. destruct ok; cbn [negb]; [|cbn [fst snd]; tauto]. specialize (An0 eq_refl). ecur rn0 Wn0 An0.
    destruct (_ || _); [cbn [fst snd]; tauto|]. apply IH, Wc0.
  - destruct (c =? 62); [|apply IH, Wc]. enext rc Wc. change (r_prev (ws rn0)) with (r_prev rn0). cbn [fst snd]. tauto.
Qed.
Lemma e_ld_bare : forall f r paren, WF r -> r_pos r < L -> ld_bare f (ws r) paren = ws (ld_bare f r paren) /\ WF (ld_bare f r paren).
Proof.
  induction f as [|f IH]; intros r paren H Hp; [cbn; tauto|]. cbn [ld_bare]. ecur r H Hp.
  destruct (_ || _); [tauto|].
  destruct (c =? 92).
  - enext rc Wc. destruct ok; cbn [negb]; [|tauto]. specialize (An eq_refl). ecur rn Wn An. destruct (_ || _); [tauto|].
    enext rc0 Wc0. destruct ok; [apply IH; [exact Wn0|apply An0; reflexivity]|tauto].
  - destruct (c =? 40); [enext rc Wc; destruct ok; [apply IH; [exact Wn|apply An; reflexivity]|tauto]|].
    destruct (c =? 41).
    + destruct (_ <? 0); [tauto|]. enext rc Wc. destruct ok; [apply IH; [exact Wn|apply An; reflexivity]|tauto].
    + enext rc Wc. destruct ok; [apply IH; [exact Wn|apply An; reflexivity]|tauto].
Qed.
Lemma e_parseLinkDestination f r : WF r -> r_pos r < L ->
  parseLinkDestination f (ws r) = (fst (parseLinkDestination f r), ws (snd (parseLinkDestination f r))) /\ WF (snd (parseLinkDestination f r)).
Proof.
  intros H Hp. unfold parseLinkDestination. ecur r H Hp. destruct (c =? 60).
  - change (r_pos (ws rc)) with (r_pos rc). apply e_ld_angle, Wc.
  - destruct (_ && _ && _); [|cbn [fst snd]; tauto]. change (r_pos (ws rc)) with (r_pos rc).
    destruct (e_ld_bare f rc 0 Wc ltac:(lia)) as [E1 W1]. rewrite E1. change (r_pos (ws (ld_bare f rc 0))) with (r_pos (ld_bare f rc 0)). cbn [fst snd]. tauto.
Qed.
Lemma e_lt_loop : forall f r start term, WF r ->
  lt_loop f (ws r) start term = (fst (lt_loop f r start term), ws (snd (lt_loop f r start term))) /\ WF (snd (lt_loop f r start term)).
Proof.
  induction f as [|f IH]; intros r start term H; [cbn; tauto|]. cbn [lt_loop]. enext r H. destruct ok; cbn [negb]; [|cbn [fst snd]; tauto].
  specialize (An eq_refl). ecur rn Wn An. destruct (c =? 92).
  - enext rc Wc. destruct ok; cbn [negb]; [|cbn [fst snd]; tauto]. apply IH, Wn0.
  - destruct (c =? term); [|apply IH, Wc]. enext rc Wc. change (r_prev (ws rn0)) with (r_prev rn0). cbn [fst snd]. tauto.
Qed.
Lemma e_parseLinkTitle f r : WF r -> r_pos r < L ->
  parseLinkTitle f (ws r) = (fst (parseLinkTitle f r), ws (snd (parseLinkTitle f r))) /\ WF (snd (parseLinkTitle f r)).
Proof.
  intros H Hp. unfold parseLinkTitle. ecur r H Hp. destruct (negb _); [cbn [fst snd]; tauto|]. change (r_pos (ws rc)) with (r_pos rc). apply e_lt_loop, Wc.
Qed.
End LE.
