(* QInlStepLab.v -- T64: two facts used by the full-reference path of parseEndBracket in the quoted / plain comparison.
   (1) tlr_cut: the normalised label computed from the cut Text nodes of the quoted side equals the one of the plain side.
   (2) collect_noesc_kinds: without escapes and over Unparsed entries only, collectTextNodes produces nodes of the text kind only. *)
From Coq Require Import List ZArith Lia Bool.
Import ListNotations.
Require Import Base Tables Utf8 Tree Rdr Link Collect Inl3e ShapesBase ShapesR IFBase IFLabel LabelNorm LabelNormSpans LabelNormEntries.
Require Import QCutsDef QCuts QIRdrBase QInlDefs QInlBytes QInlTree3 QRender1.
Open Scope Z_scope.

(* ================================================================================================================ *)
(* (2) the kinds of the nodes collected without escapes                                                              *)
(* ================================================================================================================ *)
Definition US (l : list inline) : Prop := forall u, In u l -> ikind u = UnparsedKind.

Lemma US_curNode r : US (r_spans r) -> US (r_spans (snd (curNode r))).
Proof. intros H u Hu. apply H. eapply Suf_In; [apply curNode_Suf|exact Hu]. Qed.

Lemma US_okind r : US (r_spans r) -> (okind (fst (curNode r)) =? IndentKind) = false.
Proof.
  intros H. destruct (curNode_cases r) as [E|(pre & n & rest & E1 & E & _)]; rewrite E; cbn [fst okind]; [reflexivity|].
  rewrite (H n) by (rewrite E1; apply in_or_app; right; left; reflexivity). reflexivity.
Qed.

Lemma US_next r r1 : US (r_spans r) -> next r = (true, r1) -> US (r_spans r1).
Proof.
  intros H En. destruct (next_true r r1 En) as (node & rest & _ & _ & (pre & Ep) & _ & _ & Hc).
  assert (Hnr : US (node :: rest)) by (intros u Hu; apply H; rewrite Ep; apply in_or_app; right; exact Hu).
  destruct Hc as [(_ & _ & Es)|[(_ & _ & _ & Es)|(pre' & j & rest' & Er & Es & _)]]; rewrite Es; [exact Hnr|exact Hnr|].
  intros u Hu. apply Hnr. right. rewrite Er. apply in_or_app. right. exact Hu.
Qed.

Lemma collect_loop_kinds tk e : forall f r ps acc, US (r_spans r) -> Forall (fun i => ikind i = tk) acc ->
  Forall (fun i => ikind i = tk) (fst (collect_loop f r e tk false ps acc)).
Proof.
  induction f as [|f IH]; intros r ps acc HU HA; [exact HA|].
  rewrite collect_noesc_S. destruct (e <=? r_pos r); [exact HA|].
  pose proof (US_curNode r HU) as HU0. pose proof (US_okind r HU) as Hk.
  destruct (curNode r) as [cn r0]. cbn [fst snd] in HU0, Hk. rewrite Hk.
  destruct (e <=? r_pos r0); [exact HA|].
  destruct (next r0) as [ok r1] eqn:En. destruct ok; cbn [negb]; [|exact HA].
  pose proof (US_next r0 r1 HU0 En) as HU1.
  destruct (jumped r1).
  - apply IH; [exact HU1|]. destruct (ps <=? r_prev r1); [|exact HA].
    apply Forall_app. split; [exact HA|]. constructor; [reflexivity|constructor].
  - apply IH; [exact HU1|exact HA].
Qed.

Lemma collect_noesc_kinds src (sp : list inline) f p e tk :
  Forall (fun u => ikind u = UnparsedKind) sp ->
  Forall (fun i => ikind i = tk) (collectTextNodes f (newReader src sp p) e tk false).
Proof.
  intros H. unfold collectTextNodes.
  assert (HU : US (r_spans (newReader src sp p))) by (cbn [newReader r_spans]; intros u Hu; rewrite Forall_forall in H; apply H, Hu).
  pose proof (collect_loop_kinds tk e f (newReader src sp p) (r_pos (newReader src sp p)) [] HU (Forall_nil _)) as HC.
  destruct (collect_loop f (newReader src sp p) e tk false (r_pos (newReader src sp p)) []) as [acc ps]. cbn [fst] in HC.
  destruct (ps <? e); [|exact HC]. apply Forall_app. split; [exact HC|]. constructor; [reflexivity|constructor].
Qed.

(* ================================================================================================================ *)
(* (1) the label of the cut nodes                                                                                    *)
(* ================================================================================================================ *)

(* ---- generic facts about sorted span lists ---- *)
Fixpoint chainOK (src : bytes) (lo : Z) (l : list inline) : Prop :=
  match l with
  | [] => True
  | i :: r => lo <= istart i /\ istart i <= iend i /\ iend i <= len src /\ chainOK src (iend i) r
  end.

Lemma chainOK_lo src : forall l lo j, chainOK src lo l -> In j l -> lo <= istart j.
Proof.
  induction l as [|i r IH]; intros lo j H Hj; [destruct Hj|]. cbn [chainOK] in H. destruct H as (A & B & C & D).
  destruct Hj as [<-|Hj]; [exact A|]. pose proof (IH (iend i) j D Hj). lia.
Qed.
Lemma chainOK_spW src : forall l lo, 0 <= lo -> chainOK src lo l -> spW src l = true.
Proof.
  induction l as [|i r IH]; intros lo Hlo H; [reflexivity|]. cbn [chainOK] in H. destruct H as (A & B & C & D).
  cbn [spW]. rewrite (IH (iend i) ltac:(lia) D), andb_true_r.
  replace (0 <=? istart i) with true by (symmetry; apply Z.leb_le; lia).
  replace (istart i <=? iend i) with true by (symmetry; apply Z.leb_le; lia).
  replace (iend i <=? len src) with true by (symmetry; apply Z.leb_le; lia). cbn [andb].
  apply forallb_forall. intros j Hj. apply Z.leb_le. apply (chainOK_lo src r (iend i) j D Hj).
Qed.
Lemma spW_chainOK src : forall l lo, spW src l = true -> (forall j, In j l -> lo <= istart j) -> chainOK src lo l.
Proof.
  induction l as [|i r IH]; intros lo W H; [exact I|]. destruct (spW_cons _ _ _ W) as (A & B & C & D & W').
  cbn [chainOK]. split; [apply H; left; reflexivity|]. split; [exact B|]. split; [exact C|]. apply IH; [exact W'|exact D].
Qed.

Lemma spW_ends src nodes f l : spW src nodes = true -> hd_error nodes = Some f -> hd_error (rev nodes) = Some l ->
  forall j, In j nodes -> istart f <= istart j /\ iend j <= iend l.
Proof.
  intros W Hf Hl j Hj. split.
  - destruct nodes as [|f' r]; [discriminate|]. cbn [hd_error] in Hf. inversion Hf; subst f'.
    destruct (spW_cons _ _ _ W) as (A & B & C & D & W'). destruct Hj as [<-|Hj]; [lia|]. pose proof (D j Hj). lia.
  - destruct (rev nodes) as [|l' rr] eqn:Er; [discriminate|]. cbn [hd_error] in Hl. inversion Hl; subst l'.
    assert (En : nodes = rev rr ++ [l]) by (rewrite <- (rev_involutive nodes), Er; reflexivity).
    assert (Hlin : In l nodes) by (rewrite En; apply in_or_app; right; left; reflexivity).
    destruct (spW_valid src nodes W l Hlin) as (V0 & V1 & V2).
    rewrite En in Hj. apply in_app_or in Hj. destruct Hj as [Hj|[<-|[]]]; [|lia].
    rewrite En in W. destruct (spW_pre_sorted src (rev rr) l [] W j Hj). lia.
Qed.

Lemma labelBytes_within src s e : forall l, (forall j, In j l -> ikind j <> IndentKind /\ s <= istart j /\ iend j <= e) ->
  labelBytes src l s e = flat_map (fun j => sub src (istart j) (iend j)) l.
Proof.
  induction l as [|i r IH]; intros H; [reflexivity|]. unfold labelBytes in *. cbn [flat_map].
  rewrite IH by (intros j Hj; apply H; right; exact Hj). f_equal.
  destruct (H i (or_introl eq_refl)) as (K & A & B). unfold contrib.
  destruct (Z.eqb_spec (ikind i) IndentKind) as [E|_]; [contradiction|]. f_equal; lia.
Qed.

Lemma ibudget_text : forall l, (forall j, In j l -> ikind j = TextKind) -> ibudget l = 0.
Proof.
  induction l as [|i r IH]; intros H; [reflexivity|]. cbn [ibudget]. rewrite IH by (intros j Hj; apply H; right; exact Hj).
  rewrite (H i (or_introl eq_refl)). reflexivity.
Qed.

Section Cut.
  Variables (sD sQ : bytes) (sg : Z -> Z).
  Hypothesis SG : SGood sD sQ sg.
  Notation qI3 := (QInlDefs.qI3 sD sg).

  Lemma sgm x y : 0 <= x -> x <= y -> sg x <= sg y.
  Proof. intros Hx H. destruct (Z.eq_dec x y) as [->|N]; [lia|]. pose proof (SG_mono _ _ _ SG x y Hx ltac:(lia)). lia. Qed.

  (* ---- the first line feed of a stretch ---- *)
  Lemma firstLF : forall (k : nat) a,
    noLFin sD a (a + Z.of_nat k) \/ exists x, a <= x < a + Z.of_nat k /\ noLFin sD a x /\ at_ sD x = 10.
  Proof.
    induction k as [|k IH]; intros a; [left; intros y Hy; exfalso; lia|].
    destruct (IH a) as [H|(x & Hx & Hn & Hlf)].
    - destruct (Z.eq_dec (at_ sD (a + Z.of_nat k)) 10) as [E|N].
      + right. exists (a + Z.of_nat k). split; [lia|]. split; [exact H|exact E].
      + left. intros y Hy. destruct (Z.eq_dec y (a + Z.of_nat k)) as [->|Ny]; [exact N|apply H; lia].
    - right. exists x. split; [lia|]. split; [exact Hn|exact Hlf].
  Qed.

  (* ---- the shape of cuts ---- *)
  Inductive pieces : Z -> Z -> list (Z * Z) -> Prop :=
  | P1 a e : a < e -> noLFin sD a (e - 1) -> pieces a e [(a, e)]
  | P2 a m e l : a < m -> m < e -> noLFin sD a (m - 1) -> at_ sD (m - 1) = 10 -> pieces m e l -> pieces a e ((a, m) :: l).

  Lemma cuts_pieces_n : forall (n : nat) a e, (Z.to_nat (e - a) <= n)%nat -> a < e -> pieces a e (cuts sD a e).
  Proof.
    induction n as [|n IH]; intros a e Hn Hae; [exfalso; lia|].
    destruct (firstLF (Z.to_nat (e - 1 - a)) a) as [H|(x & Hx & Hno & Hlf)].
    - assert (Hno : noLFin sD a (e - 1)) by (intros y Hy; apply H; lia).
      rewrite (cuts_single sD a e Hae Hno). apply P1; assumption.
    - assert (Hno' : noLFin sD a (x + 1 - 1)) by (replace (x + 1 - 1) with x by lia; exact Hno).
      assert (Hlf' : at_ sD (x + 1 - 1) = 10) by (replace (x + 1 - 1) with x by lia; exact Hlf).
      rewrite (cuts_lf sD a (x + 1) e ltac:(lia) ltac:(lia) Hno' Hlf').
      apply P2; try assumption; try lia. apply IH; lia.
  Qed.
  Lemma cuts_pieces a e : a < e -> pieces a e (cuts sD a e).
  Proof. intros H. apply (cuts_pieces_n (Z.to_nat (e - a))); [lia|exact H]. Qed.

  Lemma pieces_hd a e ps : pieces a e ps -> exists e1 tl, ps = (a, e1) :: tl.
  Proof. intros H. destruct H; eexists; eexists; reflexivity. Qed.
  Lemma pieces_last a e ps : pieces a e ps -> exists pre m, ps = pre ++ [(m, e)].
  Proof.
    intros H. induction H as [a e _ _|a m e l _ _ _ _ _ (pre & m' & ->)].
    - exists [], a. reflexivity.
    - exists ((a, m) :: pre), m'. reflexivity.
  Qed.

  (* ---- the image of a piece ---- *)
  Definition pc (ind : Z) (rf : bytes) (ks : list inline) (p : Z * Z) : inline :=
    Inl TextKind (sg (fst p)) (sg (snd p - 1) + 1) ind rf ks.

  Lemma piece_run m m' x : 0 <= m -> m <= x -> x < m' -> m' <= len sD -> noLFin sD m (m' - 1) -> sg x = sg m + (x - m).
  Proof.
    intros Hm Hx Hx' Hl Hn. apply (sg_run sD sQ sg SG m x); [lia|lia|]. intros y Hy. apply Hn. lia.
  Qed.

  Lemma piece_bytes m m' : 0 <= m -> m < m' -> m' <= len sD -> noLFin sD m (m' - 1) ->
    sub sQ (sg m) (sg (m' - 1) + 1) = sub sD m m'.
  Proof.
    intros Hm Hlt Hl Hn. rewrite (piece_run m m' (m' - 1)) by (lia || exact Hn).
    pose proof (SG_lt _ _ _ SG (m' - 1) ltac:(lia)) as Hq. rewrite (piece_run m m' (m' - 1)) in Hq by (lia || exact Hn).
    replace (sg m + (m' - 1 - m) + 1) with (sg m + (m' - m)) by lia.
    replace (sub sD m m') with (sub sD m (m + (m' - m))) by (f_equal; lia).
    apply sub_ext'; try lia.
    - apply (SG_nn _ _ _ SG). lia.
    - intros i Hi. rewrite <- (SG_at _ _ _ SG (m + i)) by lia. f_equal.
      rewrite (piece_run m m' (m + i)) by (lia || exact Hn). lia.
  Qed.

  Lemma pieces_bytes ind rf ks a e ps : pieces a e ps -> 0 <= a -> e <= len sD ->
    flat_map (fun j => sub sQ (istart j) (iend j)) (map (pc ind rf ks) ps) = sub sD a e.
  Proof.
    intros H. induction H as [a e Hae Hn|a m e l Ham Hme Hn Hlf Hp IH]; intros Ha He.
    - cbn [map flat_map pc istart iend fst snd]. rewrite app_nil_r. apply piece_bytes; assumption || lia.
    - cbn [map flat_map]. rewrite IH by lia. unfold pc at 1 2. cbn [istart iend fst snd].
      rewrite piece_bytes by (assumption || lia). symmetry. apply sub_split; lia.
  Qed.

  Lemma pieces_chain ind rf ks a e ps : pieces a e ps -> forall lo rest, 0 <= a -> e <= len sD -> lo <= sg a ->
    chainOK sQ (sg (e - 1) + 1) rest -> chainOK sQ lo (map (pc ind rf ks) ps ++ rest).
  Proof.
    intros H. induction H as [a e Hae Hn|a m e l Ham Hme Hn Hlf Hp IH]; intros lo rest Ha He Hlo Hr.
    - cbn [map app chainOK pc istart iend fst snd]. split; [exact Hlo|]. split; [pose proof (sgm a (e - 1) Ha ltac:(lia)); lia|].
      split; [pose proof (SG_lt _ _ _ SG (e - 1) ltac:(lia)); lia|exact Hr].
    - cbn [map app chainOK]. unfold pc at 1 2 3 4 5. cbn [istart iend fst snd]. split; [exact Hlo|].
      split; [pose proof (sgm a (m - 1) Ha ltac:(lia)); lia|]. split; [pose proof (SG_lt _ _ _ SG (m - 1) ltac:(lia)); lia|].
      apply IH; try lia; [|exact Hr]. pose proof (SG_mono _ _ _ SG (m - 1) m ltac:(lia) ltac:(lia)). lia.
  Qed.

  (* ---- the image of a Text node ---- *)
  Definition gd (i : inline) : Prop := ikind i = TextKind /\ 0 <= istart i /\ istart i < iend i /\ iend i <= len sD.
  Definition pcOf (i : inline) := pc (iindent i) (iref i) (flat_map qI3 (ikids i)).

  Lemma qI3_gd i : gd i -> qI3 i = map (pcOf i) (cuts sD (istart i) (iend i)).
  Proof.
    destruct i as [k s e ind rf ks]. unfold gd, pcOf. cbn [ikind istart iend iindent iref ikids]. intros (K & A & B & C). subst k.
    cbn [QInlDefs.qI3]. cbv zeta.
    replace (splitK TextKind && (s <? e)) with true by (symmetry; apply andb_true_iff; split; [reflexivity|apply Z.ltb_lt; exact B]).
    reflexivity.
  Qed.

  Lemma Q_in lk j : Forall gd lk -> In j (flat_map qI3 lk) ->
    exists i p, In i lk /\ gd i /\ In p (cuts sD (istart i) (iend i)) /\ j = pcOf i p.
  Proof.
    intros HF Hj. apply in_flat_map in Hj. destruct Hj as (i & Hi & Hj). rewrite Forall_forall in HF. pose proof (HF i Hi) as G.
    rewrite (qI3_gd i G) in Hj. apply in_map_iff in Hj. destruct Hj as (p & <- & Hp). exists i, p. repeat split; try assumption; apply G.
  Qed.

  Lemma Q_chain : forall lk lo lo', Forall gd lk -> chainOK sD lo lk -> 0 <= lo -> (forall x, 0 <= x -> lo <= x -> lo' <= sg x) ->
    chainOK sQ lo' (flat_map qI3 lk).
  Proof.
    induction lk as [|i r IH]; intros lo lo' HF HC Hlo Hsg; [exact I|].
    inversion HF as [|i' r' G HF']; subst i' r'. cbn [chainOK] in HC. destruct HC as (A & B & C & D).
    cbn [flat_map]. rewrite (qI3_gd i G). pose proof G as (K & G0 & G1 & G2).
    apply (pieces_chain _ _ _ (istart i) (iend i)); [apply cuts_pieces; exact G1|exact G0|exact G2|apply Hsg; lia|].
    apply (IH (iend i)); [exact HF'|exact D|lia|].
    intros x Hx Hx'. pose proof (SG_mono _ _ _ SG (iend i - 1) x ltac:(lia) ltac:(lia)). lia.
  Qed.

  Lemma Q_bytes : forall lk, Forall gd lk ->
    flat_map (fun j => sub sQ (istart j) (iend j)) (flat_map qI3 lk) = flat_map (fun i => sub sD (istart i) (iend i)) lk.
  Proof.
    induction lk as [|i r IH]; intros HF; [reflexivity|]. inversion HF as [|i' r' G HF']; subst i' r'.
    cbn [flat_map]. rewrite flat_map_app, (IH HF'). f_equal. rewrite (qI3_gd i G). pose proof G as (K & G0 & G1 & G2).
    apply (pieces_bytes _ _ _ (istart i) (iend i)); [apply cuts_pieces; exact G1|exact G0|exact G2].
  Qed.

  Lemma Q_hd f r : gd f -> exists f' t, flat_map qI3 (f :: r) = f' :: t /\ istart f' = sg (istart f).
  Proof.
    intros G. cbn [flat_map]. rewrite (qI3_gd f G). pose proof G as (K & G0 & G1 & G2).
    destruct (pieces_hd _ _ _ (cuts_pieces (istart f) (iend f) G1)) as (e1 & tl & ->).
    cbn [map app]. eexists; eexists. split; [reflexivity|]. reflexivity.
  Qed.
  Lemma Q_last pre l : gd l -> exists l' t, rev (flat_map qI3 (pre ++ [l])) = l' :: t /\ iend l' = sg (iend l - 1) + 1.
  Proof.
    intros G. rewrite flat_map_app. cbn [flat_map]. rewrite app_nil_r, (qI3_gd l G). pose proof G as (K & G0 & G1 & G2).
    destruct (pieces_last _ _ _ (cuts_pieces (istart l) (iend l) G1)) as (p0 & m & ->).
    rewrite map_app, app_assoc, rev_app_distr. cbn [map rev app]. eexists; eexists. split; [reflexivity|]. reflexivity.
  Qed.

  Theorem tlr_cut (lk : list inline) (F : nat) :
    spW sD lk = true ->
    Forall (fun i => ikind i = TextKind /\ 0 <= istart i /\ istart i < iend i /\ iend i <= len sD) lk ->
    len sQ < Z.of_nat F ->
    transformLinkReference F sQ (flat_map qI3 lk) = transformLinkReference F sD lk.
  Proof.
    intros W HF Hfuel. change (Forall gd lk) in HF.
    destruct lk as [|f r]; [reflexivity|].
    set (lk := f :: r) in *.
    assert (Gall : forall i, In i lk -> gd i) by (apply Forall_forall; exact HF).
    destruct (rev lk) as [|l rr] eqn:Er; [exfalso; apply (f_equal (@length _)) in Er; rewrite rev_length in Er; discriminate Er|].
    assert (En : lk = rev rr ++ [l]) by (rewrite <- (rev_involutive lk), Er; reflexivity).
    assert (Gf : gd f) by (apply Gall; left; reflexivity).
    assert (Gl : gd l) by (apply Gall; rewrite En; apply in_or_app; right; left; reflexivity).
    (* the plain side *)
    assert (Kp : forall j, In j lk -> ikind j = TextKind) by (intros j Hj; apply (Gall j Hj)).
    assert (EP : transformLinkReference F sD lk = norm_label (labelBytes sD lk (istart f) (iend l))).
    { apply transformLinkReference_norm; [reflexivity|rewrite Er; reflexivity|exact W| | | |].
      - apply Forall_forall. intros j Hj. right. left. apply Kp, Hj.
      - intros j Hj. destruct (Gall j Hj) as (K & G0 & G1 & G2). split; [exact G1|]. intros E. rewrite K in E. discriminate E.
      - intros j p Hj Hp. destruct (Gall j Hj) as (K & G0 & G1 & G2). apply (SG_nonul _ _ _ SG). lia.
      - rewrite (ibudget_text lk Kp). pose proof (len_sD_sQ sD sQ sg SG). lia. }
    (* the quoted side *)
    set (Q := flat_map qI3 lk) in *.
    assert (WQ : spW sQ Q = true).
    { apply (chainOK_spW sQ Q 0); [lia|]. apply (Q_chain lk 0 0 HF); [|lia|intros x Hx _; apply (SG_nn _ _ _ SG); exact Hx].
      apply spW_chainOK; [exact W|]. intros j Hj. apply (Gall j Hj). }
    assert (QI : forall j, In j Q -> ikind j = TextKind /\ istart j < iend j /\ forall p, istart j <= p < iend j -> at_ sQ p <> 0).
    { intros j Hj. destruct (Q_in lk j HF Hj) as (i & p & Hi & (K & G0 & G1 & G2) & Hp & ->).
      destruct (cuts_inv sD (istart i) (iend i) p G1 Hp) as (C1 & C2 & C3 & C4).
      unfold pcOf, pc. cbn [ikind istart iend]. split; [reflexivity|].
      pose proof (piece_run (fst p) (snd p) (snd p - 1) ltac:(lia) ltac:(lia) ltac:(lia) ltac:(lia) C4) as Er1.
      split; [lia|]. intros q Hq.
      pose proof (piece_run (fst p) (snd p) (fst p + (q - sg (fst p))) ltac:(lia) ltac:(lia) ltac:(lia) ltac:(lia) C4) as Er2.
      replace q with (sg (fst p + (q - sg (fst p)))) by lia. rewrite (SG_at _ _ _ SG) by lia. apply (SG_nonul _ _ _ SG). lia. }
    assert (Kq : forall j, In j Q -> ikind j = TextKind) by (intros j Hj; apply (QI j Hj)).
    destruct (Q_hd f r Gf) as (f' & t & Ehd & Ef'). fold lk in Ehd. fold Q in Ehd.
    destruct (Q_last (rev rr) l Gl) as (l' & t' & Elast & El'). rewrite <- En in Elast. fold Q in Elast.
    assert (EQ : transformLinkReference F sQ Q = norm_label (labelBytes sQ Q (istart f') (iend l'))).
    { apply transformLinkReference_norm; [rewrite Ehd; reflexivity|rewrite Elast; reflexivity|exact WQ| | | |].
      - apply Forall_forall. intros j Hj. right. left. apply Kq, Hj.
      - intros j Hj. destruct (QI j Hj) as (K & G1 & _). split; [exact G1|]. intros E. rewrite K in E. discriminate E.
      - intros j p Hj Hp. destruct (QI j Hj) as (_ & _ & N). apply N, Hp.
      - rewrite (ibudget_text Q Kq). lia. }
    rewrite EQ, EP. f_equal.
    rewrite (labelBytes_within sQ (istart f') (iend l') Q).
    - rewrite (labelBytes_within sD (istart f) (iend l) lk).
      + apply Q_bytes, HF.
      + intros j Hj. split; [rewrite (Kp j Hj); discriminate|].
        apply (spW_ends sD lk f l W); [reflexivity|rewrite Er; reflexivity|exact Hj].
    - intros j Hj. split; [rewrite (Kq j Hj); discriminate|].
      apply (spW_ends sQ Q f' l' WQ); [rewrite Ehd; reflexivity|rewrite Elast; reflexivity|exact Hj].
  Qed.
End Cut.

Check tlr_cut.
Check collect_noesc_kinds.
Print Assumptions tlr_cut.
Print Assumptions collect_noesc_kinds.
