(* QRootEnd4.v -- t64-rootend, part 4: the setext start, tryStarts, the opening loop, deferredClose, the end of input, addLineText,
   and the per-line theorem RA_processLine: after processLine every child of the root ends at a line boundary. *)
From Coq Require Import List ZArith Lia Bool.
Import ListNotations.
Require Import Base Tree Rdr Link Collect Html Recog LP Rules Starts Driver Leaf3e RdrBound L2Kind L2Kind2 L2CC TRdr TDefs TOcp TInv TDesc TStarts TLine
  Rec17 BSTree BSLine1 LADef LA1 LA2 LA9 LAR1 BSOrph QRootEnd1 QRootEnd2 QRootEnd3.
Require NoPanic47.
Open Scope Z_scope.

(* ---- a replacement list for the last child in which every paragraph-like block is closed ---- *)
Lemma RIl_gen src pre L : RA src pre -> Forall (fun x => LB src (bend x)) L -> Forall pcl L -> L <> [] -> RIl src (pre ++ L).
Proof.
  intros A HL HP Hne. split; [apply Forall_app; split; assumption|].
  intros pre2 x E Ho.
  destruct (list_snoc_cases L) as [E0|(q & y & E0)]; [contradiction|]. subst L.
  rewrite app_assoc in E. apply app_inj_tail in E. destruct E as [_ ->].
  rewrite Forall_forall in HP. specialize (HP x ltac:(apply in_or_app; right; left; reflexivity)). unfold pcl in HP.
  destruct (isParaKd (bkind x)) eqn:Ek; [rewrite (HP eq_refl) in Ho; discriminate|].
  unfold isParaKd in Ek. apply orb_false_iff in Ek. destruct Ek as [E1 E2]. apply Z.eqb_neq in E1, E2. split; [exact E2|contradiction].
Qed.

Lemma RA_pre src pre c : RA src (pre ++ [c]) -> RA src pre /\ LB src (bend c).
Proof. intros H. apply Forall_app in H. destruct H as [A B]. inversion B; subst. split; assumption. Qed.

(* ---- the setext start ---- *)
Lemma startY_Setext : StartY startSetext.
Proof.
  intros p HX Hs. pose proof (ccP_startSetext p (proj1 (proj2 HX))) as Hcc.
  unfold startSetext in *. cbv zeta in *.
  destruct (negb (containerKind p =? ParagraphKind)) eqn:Ek; [exact HX|].
  destruct (_ <=? _); [exact HX|].
  set (level := parseSetextHeadingUnderline (bytesAfterIndent p)) in *. destruct (level =? 0); [exact HX|].
  destruct (containerHasParagraphContent p) eqn:Ehc; cbn [negb] in *; [|exact HX].
  apply negb_false_iff, Z.eqb_eq in Ek. destruct HX as (a & b & c & d & e).
  assert (Hd : (1 <= cdepth p)%nat).
  { destruct (cdepth p) eqn:Ed; [|lia]. exfalso. rewrite (containerKind_root p Ed) in Ek. destruct b as (A & _). rewrite A in Ek. discriminate. }
  change (fun b0 : block => set_bn (set_bkind b0 SetextHeadingKind) level) with (setextG level) in *.
  set (q1 := updCont p (setextG level)) in *. set (q2 := consumeLine q1) in *.
  assert (S1 : st_open q1) by (left; exact Hs).
  assert (S2 : state q2 = stLineConsumed) by (apply state_consumeLine_open, S1).
  assert (C1 : CU q1) by exact c. assert (C2 : CU q2) by (apply CU_consumeLine, C1).
  assert (T12 : sameT q1 q2) by apply sameT_consumeLine.
  assert (L2 : li q2 = len (line q2)).
  { unfold q2. rewrite (li_consumeLine q1) by apply C1. destruct T12 as (_ & _ & _ & E & _). unfold q2 in E. rewrite E. reflexivity. }
  assert (D2 : cdepth q2 = cdepth p) by exact (cd_same _ _ (sameT_same _ _ T12)).
  assert (E2 : envS p q2) by (apply (envS_trans p q1 q2); [repeat split|apply envS_sameT, T12]).
  assert (V2 : EVL q2) by (eapply EVL_envS; eassumption).
  assert (E3 : envS p (endBlock q2)) by (eapply envS_trans; [exact E2|apply curS_endBlock]).
  split; [apply st3_endBlock, st3_consumeLine; exact a|]. split; [exact Hcc|].
  split; [eapply CU_curS; [apply curS_endBlock|exact C2]|]. split; [eapply EVL_envS; eassumption|].
  destruct (cdepth p) as [|[|dd]] eqn:Ed; [lia| |].
  2:{ (* the paragraph is below the root's last child *)
    assert (R1 : RI q1).
    { apply (RI_ksRel p _ e); [|reflexivity]. unfold ks, q1, updCont. rewrite Ed. cbn [root withRoot setLP]. apply ksRel_updAt_deep. lia. }
    assert (R2 : RI q2) by (eapply RI_sameT; eassumption).
    apply RI_endBlock; [exact R2|]. intros E1. rewrite D2 in E1. discriminate. }
  (* the paragraph is the root's last child *)
  destruct b as (b1 & b2 & (x & Hx)). rewrite Ed in Hx. cbn [getAt] in Hx.
  destruct (lastBlock (root p)) as [c0|] eqn:El; [|discriminate]. inversion Hx; subst x. clear Hx.
  destruct (lastBlock_some _ _ El) as (pre & Eks).
  assert (Ecb : contBlock p = c0) by (unfold contBlock; rewrite Ed; cbn [getAt]; rewrite El; reflexivity).
  assert (Kc : bkind c0 = ParagraphKind) by (rewrite <- Ecb; exact Ek).
  assert (Hlp : lastIsPara (onCloseParagraph (source p) c0) = true).
  { unfold containerHasParagraphContent in Ehc. rewrite Ek in Ehc. cbn [Z.eqb Pos.eqb negb ParagraphKind] in Ehc. rewrite Ecb in Ehc. exact Ehc. }
  assert (Ek1 : ks q1 = pre ++ [setextG level c0]).
  { unfold ks, q1, updCont. rewrite Ed. cbn [root withRoot setLP]. rewrite bkids_updAt_S, El, Eks, removelast_snoc. reflexivity. }
  assert (Ek2 : ks q2 = pre ++ [setextG level c0]) by (unfold ks; replace (root q2) with (root q1) by (symmetry; apply T12); exact Ek1).
  assert (Eq3 : ks (endBlock q2) = pre ++ closeBlock (bheight (root q2)) (source q2) (setextG level c0) (lineStart q2 + li q2)).
  { unfold endBlock. rewrite (st3_notdesc' q2 (st3_consumeLine q1 a)). cbv zeta. rewrite (opened_ne0 q2) by (rewrite S2; discriminate).
    rewrite D2. change (ks (withCont ?y _)) with (ks y). apply ks_close0_snoc. exact Ek2. }
  assert (Esrc : source q2 = source p) by apply T12.
  assert (Esrc3 : source (endBlock q2) = source p) by apply E3.
  unfold RI. rewrite Esrc3, Eq3, Esrc.
  unfold RI, ks in e. rewrite Eks in e. destruct e as [eA eP]. destruct (RA_pre _ _ _ eA) as [Apre Ac0].
  assert (He : LB (source p) (lineStart q2 + li q2)) by (rewrite <- Esrc; apply LB_line_end; assumption).
  assert (He0 : 0 <= lineStart q2 + li q2) by (destruct C2; lia).
  set (c' := setextG level c0).
  assert (Eb' : bend c' = bend c0) by (destruct c0; reflexivity).
  assert (Ei' : bik c' = bik c0) by (destruct c0; reflexivity).
  assert (Ek' : bkind c' = SetextHeadingKind) by (destruct c0; reflexivity).
  assert (Eo' : isOpen c' = isOpen c0) by (unfold isOpen; rewrite Eb'; reflexivity).
  apply RIl_gen; [exact Apre| | |apply closeBlock_ne].
  - apply closeBlock_LB; [exact He|rewrite Eb'; exact Ac0|]. intros Ho _. rewrite Ei'. rewrite Eo' in Ho.
    destruct (eP pre c0 eq_refl Ho) as [_ P]. apply P, Kc.
  - destruct (isOpen c') eqn:Eo.
    + destruct (bheight_S (root q2)) as [f Ef]. rewrite Ef.
      apply (closeBlock_setext_pcl f (source p) c0 c'); [exact Eo|exact Ek'|exact Ei'|rewrite Kc; discriminate|exact Hlp|exact He0].
    + rewrite (closeBlock_closed _ _ c' _ Eo). constructor; [intros _; exact Eo|constructor].
Qed.

Lemma blockStarts_Y : Forall StartY blockStarts.
Proof.
  unfold blockStarts.
  apply Forall_cons; [exact startY_BlockQuote|]. apply Forall_cons; [exact startY_ATX|].
  apply Forall_cons; [exact startY_Fenced|]. apply Forall_cons; [exact startY_HTML|].
  apply Forall_cons; [exact startY_Setext|]. apply Forall_cons; [exact startY_Thematic|].
  apply Forall_cons; [exact startY_ListItem|]. apply Forall_cons; [exact startY_Indented|]. apply Forall_nil.
Qed.

(* ---- tryStarts, the opening loop ---- *)
Lemma Y0_fields p p' : root p' = root p -> container p' = container p -> lineStart p' = lineStart p -> line p' = line p ->
  source p' = source p -> li p' = li p -> Y0 p -> Y0 p'.
Proof.
  intros A B C D E F (a & b & c & d).
  split; [eapply ccP_same; [split; eassumption|exact a]|]. split; [unfold CU; rewrite C, D, F; exact b|].
  split; [unfold EVL; rewrite C, D, E; exact c|apply (RI_root p _ d); assumption].
Qed.

Lemma tryStarts_Y0 : forall fs p, Forall StartY fs -> Y0 p -> Y0 (snd (tryStarts fs p)).
Proof.
  induction fs as [|f r IH]; intros p Hfs H; [exact H|]. inversion Hfs as [|? ? Hf Hr]; subst. cbn [tryStarts]. cbv zeta.
  assert (H1 : Y (f (withState p stOpening))).
  { apply Hf; [|reflexivity]. split; [left; left; reflexivity|]. eapply Y0_fields; [| | | | | |exact H]; reflexivity. }
  destruct (_ || _); [exact (proj2 H1)|]. apply IH; [exact Hr|exact (proj2 H1)].
Qed.
Lemma opening_loop_Y0 : forall fuel p, Y0 p -> Y0 (snd (opening_loop fuel p)).
Proof.
  induction fuel as [|f IH]; intros p H; [exact H|]. cbn [opening_loop].
  destruct (_ || _); [|exact H].
  pose proof (tryStarts_Y0 blockStarts p blockStarts_Y H) as H1.
  destruct (tryStarts blockStarts p) as [[|] p1]; cbn [snd] in H1; [|exact H1].
  destruct (_ =? stLineConsumed); [exact H1|apply IH, H1].
Qed.

Lemma deferredClose_Y0 p : Y0 p -> Y0 (deferredClose p).
Proof.
  intros H. pose proof (ccP_deferredClose p (proj1 H)) as Hcc. destruct H as (a & b & c & d).
  unfold deferredClose in *. cbv zeta in *.
  destruct (negb (isRestBlank p) && _).
  - split; [exact Hcc|]. split; [exact b|]. split; [exact c|apply (RI_root p _ d); reflexivity].
  - split; [exact Hcc|]. split; [exact b|]. split; [exact c|]. apply RI_closeAt; [exact d|]. intros _. split; [apply b|apply c].
Qed.

(* ---- the end of input ---- *)
Lemma eof_RI p : Y0 p ->
  RIl (source p) (bkids (match closeBlock (bheight (root p)) (source p) (root p) (lineStart p) with b :: _ => b | [] => root p end)).
Proof.
  intros ((Hk & _) & b & c & d).
  destruct (bheight_S (root p)) as [f0 Ef]. rewrite Ef. cbn [closeBlock].
  destruct (isOpen (root p)) eqn:Ho; cbn [negb]; [|exact d]. cbv zeta.
  rewrite !bkind_set_bend', Hk.
  change (documentKind =? ListKind) with false. change (documentKind =? IndentedCodeBlockKind) with false.
  change ((documentKind =? ParagraphKind) || (documentKind =? SetextHeadingKind)) with false. cbv iota.
  set (b1 := set_bend (root p) (lineStart p)).
  assert (Eb : bkids b1 = ks p) by (unfold b1, ks; destruct (root p); reflexivity).
  destruct (list_snoc_cases (ks p)) as [E|(pre & c0 & E)].
  - assert (El : lastBlock b1 = None) by (unfold lastBlock; rewrite Eb, E; reflexivity). rewrite El, Eb, E. apply RIl_nil.
  - assert (El : lastBlock b1 = Some c0) by (apply (lastBlock_snoc b1 pre c0); rewrite Eb; exact E). rewrite El.
    rewrite (bkids_set_lastBlocks b1 pre c0) by (rewrite Eb; exact E).
    assert (El0 : lastBlock (root p) = Some c0) by (apply (lastBlock_snoc _ pre c0); exact E).
    destruct (TLine.bheight_last _ _ El0) as (f1 & Ef1). rewrite Ef in Ef1. inversion Ef1; subst f0.
    unfold RI in d. rewrite E in d. apply RIl_close; [exact d|apply b|apply c|discriminate].
Qed.

(* ---- addLineText: only the ends matter ---- *)
Definition bsame (l l' : list block) : Prop := map bend l' = map bend l.
Lemma RA_bsame src l l' : bsame l l' -> RA src l -> RA src l'.
Proof.
  unfold bsame, RA. revert l'. induction l as [|x l IH]; intros l' E H; destruct l' as [|y l']; try discriminate; [constructor|].
  cbn [map] in E. inversion E as [[E1 E2]]. inversion H; subst. constructor; [rewrite E1; assumption|apply IH; assumption].
Qed.
Lemma bsame_updAt f : (forall x, bend (f x) = bend x) -> (forall x, bkids (f x) = bkids x) ->
  forall d r, bsame (bkids r) (bkids (updAt d f r)).
Proof.
  intros Hb Hk d r. unfold bsame. destruct d as [|d]; [cbn [updAt]; rewrite Hk; reflexivity|].
  rewrite bkids_updAt_S. destruct (lastBlock r) as [c|] eqn:El; [|reflexivity].
  destruct (lastBlock_some _ _ El) as (pre & E). rewrite E, removelast_snoc, !map_app. cbn [map].
  rewrite bend_updAt by (intros _; apply Hb). reflexivity.
Qed.
Lemma RA_set_ik q g : RA (source q) (ks q) -> RA (source q) (ks (updCont q (fun b => set_bik b (g b)))).
Proof.
  apply RA_bsame. unfold ks, updCont. cbn [root withRoot setLP]. apply bsame_updAt; intros x; destruct x; reflexivity.
Qed.
Lemma RA_goF q : RA (source q) (ks q) -> RA (source q) (ks (goF q)).
Proof.
  intros H. unfold goF. cbv zeta.
  set (q' := updCont q (fun b => set_bik b (bik b ++ [mkI _ (lineStart q + li q) (lineStart q + len (line q))]))).
  assert (H1 : RA (source q) (ks q')) by (apply (RA_set_ik q (fun b => bik b ++ [_])), H).
  destruct (_ && _); [|exact H1]. apply (RA_set_ik q' (fun b => bik b ++ [_])). exact H1.
Qed.

Lemma addLineText_RA p : Y0 p -> RA (source p) (ks (addLineText p)).
Proof.
  intros (a & b & c & d).
  unfold addLineText. cbv zeta.
  change (fun b : block => match lastBlock b with Some c => set_lastBlocks b [set_blast c true] | None => b end) with blankF.
  set (pa := if isRestBlank p then updCont p blankF else p).
  assert (Fa : ksRel (ks p) (ks pa)) by (unfold pa; destruct (isRestBlank p); [apply ksRel_blankF|apply ksRel_refl]).
  assert (Ea : lineStart pa = lineStart p /\ li pa = li p /\ line pa = line p /\ cdepth pa = cdepth p /\ source pa = source p)
    by (unfold pa; destruct (isRestBlank p); repeat split; reflexivity).
  destruct Ea as (Ea1 & Ea2 & Ea3 & Ea4 & Ea7).
  fold (containerKind pa).
  match goal with |- context [setLastBlankUpTo (cdepth pa) ?v (root pa)] => set (llb := v) end.
  set (pb := withRoot pa (setLastBlankUpTo (cdepth pa) llb (root pa))).
  assert (Fb : ksRel (ks p) (ks pb)) by (eapply ksRel_trans; [exact Fa|apply ksRel_setLB]).
  assert (Eb : lineStart pb = lineStart p /\ li pb = li p /\ line pb = line p /\ source pb = source p).
  { unfold pb. cbn [lineStart li line source withRoot setLP]. tauto. }
  destruct Eb as (Eb1 & Eb2 & Eb3 & Eb7).
  assert (Rb : RI pb) by (apply (RI_ksRel p _ d); [exact Fb|exact Eb7]).
  destruct (acceptsLines (containerKind pa)).
  - fold (goF pb).
    match goal with |- context [if ?c then consumeIndent ?x ?n else pb] => set (cnd := c); set (pi := x) end.
    set (pc := if cnd then consumeIndent pi (tabRem pi) else pb).
    fold (goF pc).
    assert (Hpc : RA (source pc) (ks pc) /\ source pc = source p).
    { unfold pc. destruct cnd.
      - pose proof (sameT_consumeIndent pi (tabRem pi)) as HT. destruct HT as (A & _ & _ & _ & B & _). unfold ks. rewrite A, B.
        split; [|exact Eb7]. apply (RA_set_ik pb (fun b => bik b ++ [_])). apply Rb.
      - split; [apply Rb|exact Eb7]. }
    destruct Hpc as [H1 H2]. rewrite <- H2. apply RA_goF, H1.
  - destruct (negb (isRestBlank p)).
    + fold (goF (consumeIndent (openBlock pb ParagraphKind) (indent (openBlock pb ParagraphKind)))).
      set (po := openBlock pb ParagraphKind).
      pose proof (curS_openBlock pb ParagraphKind) as [(Eo1 & Eo2 & Eo3) Eo4]. fold po in Eo1, Eo2, Eo3, Eo4.
      assert (Ro : RI po).
      { apply RI_openBlock; [rewrite Eb1; apply b|rewrite Eb1, Eb7; apply c|discriminate|exact Rb]. }
      set (pq := consumeIndent po (indent po)).
      pose proof (sameT_consumeIndent po (indent po)) as HT. fold pq in HT.
      assert (Rq : RI pq) by (eapply RI_sameT; eassumption).
      assert (Esq : source pq = source p) by (destruct HT as (_ & _ & _ & _ & B & _); rewrite B, Eo3; exact Eb7).
      rewrite <- Esq. apply RA_goF, Rq.
    + rewrite <- Eb7. apply Rb.
Qed.

(* ---- the source stays the same ---- *)
Lemma tryStarts_src : forall fs p, Forall startENV fs -> source (snd (tryStarts fs p)) = source p.
Proof.
  induction fs as [|f r IH]; intros p Hfs; [reflexivity|]. inversion Hfs as [|? ? Hf Hr]; subst. cbn [tryStarts]. cbv zeta.
  assert (E : source (f (withState p stOpening)) = source p) by (destruct (Hf (withState p stOpening)) as (_ & _ & E); exact E).
  destruct (_ || _); [exact E|]. rewrite IH by exact Hr. exact E.
Qed.
Lemma opening_loop_src : forall fuel p, source (snd (opening_loop fuel p)) = source p.
Proof.
  induction fuel as [|f IH]; intros p; [reflexivity|]. cbn [opening_loop]. destruct (_ || _); [|reflexivity].
  pose proof (tryStarts_src blockStarts p blockStarts_env) as E.
  destruct (tryStarts blockStarts p) as [[|] p1]; cbn [snd] in E; [|exact E].
  destruct (_ =? stLineConsumed); [exact E|]. rewrite IH. exact E.
Qed.
Lemma deferredClose_src p : source (deferredClose p) = source p.
Proof. unfold deferredClose. cbv zeta. destruct (_ && _); reflexivity. Qed.

(* ---- one line ---- *)
Theorem RA_processLine st children ls src :
  0 <= ls <= len src -> LB src ls -> ccF children = true -> RIl src children ->
  RA src (fst (fst (processLine st children ls src))).
Proof.
  intros Hls Hlb Hcf HR. unfold processLine. cbv zeta.
  set (p0 := resetLP st children ls src).
  assert (H0 : Y0 p0).
  { split; [unfold ccP, wf, p0, resetLP, cdepth; cbn [root container]; split; [reflexivity|split; [exact Hcf|eexists; reflexivity]]|].
    split; [unfold CU, p0, resetLP; cbn [lineStart li line]; split; [lia|]; pose proof (len_nonneg (from_ src ls)); lia|].
    split; [unfold EVL, p0, resetLP; cbn [lineStart line source]; split; [reflexivity|split; [lia|exact Hlb]]|exact HR]. }
  pose proof (Y0_descend (bheight (root p0)) p0 H0 eq_refl) as H1.
  unfold descendOpenBlocks.
  assert (Es1 : source (snd (descend_loop (bheight (root p0)) p0 0)) = src).
  { destruct (descend_DSp (bheight (root p0)) p0 O (proj1 (proj2 H0))) as ((_ & _ & E) & _). exact E. }
  destruct (descend_loop (bheight (root p0)) p0 0) as [am p1]. cbn [snd] in H1, Es1.
  destruct (negb (state p1 =? stDescendTerminated)); cbn [fst snd].
  2:{ rewrite <- Es1. apply H1. }
  unfold openNewBlocks.
  destruct (len (line p1) =? 0).
  - cbn [fst snd root withCont withRoot setLP]. rewrite <- Es1. apply (eof_RI p1 H1).
  - pose proof (opening_loop_Y0 (S (length (line p1))) p1 H1) as H2.
    pose proof (opening_loop_src (S (length (line p1))) p1) as Es2.
    destruct (opening_loop (S (length (line p1))) p1) as [ht p2]. cbn [snd] in H2, Es2.
    assert (Hfin : forall q, Y0 q -> source q = src -> RA src (bkids (root (if ht then addLineText q else q)))).
    { intros q Hq Eq. destruct ht; [rewrite <- Eq; apply (addLineText_RA q Hq)|rewrite <- Eq; apply Hq]. }
    destruct am; cbn [fst snd].
    + apply Hfin; [exact H2|congruence].
    + apply Hfin; [apply deferredClose_Y0, H2|rewrite deferredClose_src; congruence].
Qed.
Print Assumptions RA_processLine.
