(* QRender5.v -- T64 (renderer): the checker renderOK follows, for EVERY input, from the proved properties C05 (node grammar), C13 (span
   shapes, valid spans), EolCRRenderTree.destOK (no line ending in the text of an autolink) and the residual checker lineOK
   (character references and soft line breaks contain a line feed only as their last byte). *)
From Coq Require Import List ZArith Lia Bool.
Import ListNotations.
Require Import Base Tables Utf8 Tree Recog Inl3b LP Driver Inl3e Render RenderWalkProof Props EolCRRdr EolCRRenderDefs QuoteSimDefs QInlDefs QFullDefs QRender1 QRenderDefs QRender2 QRender3.
Require PropsFull EolCRRenderTree.
Lemma len_cons {A} (x : A) l : len (x :: l) = len l + 1. Proof. unfold len. cbn [length]. lia. Qed.
Open Scope Z_scope.

Lemma span_valid_inSp src s e : span_valid (len src) s e = inSp src s e. Proof. reflexivity. Qed.
Lemma in_firstn_le {A} : forall n m (l : list A) x, (n <= m)%nat -> In x (firstn n l) -> In x (firstn m l).
Proof.
  induction n as [|n IH]; intros m l x Hnm H; [destruct H|]. destruct m as [|m]; [lia|]. destruct l as [|y l]; [destruct H|].
  cbn [firstn] in *. destruct H as [->|H]; [left; reflexivity|right; apply (IH m); [lia|exact H]].
Qed.
Lemma noEol_noLF src s e : noEolb (sub src s e) = true -> noLFl (sub src s (e - 1)) = true.
Proof.
  unfold noEolb, noLFl. rewrite !forallb_forall. intros H x Hx. assert (Hin : In x (sub src s e)).
  { unfold sub, upto in *. apply (in_firstn_le (Z.to_nat (e - 1 - s)) (Z.to_nat (e - s))); [lia|exact Hx]. }
  specialize (H x Hin). apply andb_true_iff in H. apply H.
Qed.

(* a child that the renderer treats as a leaf *)
Lemma okI_leafkid src c :
  ((ikind c =? TextKind) || (ikind c =? CharacterReferenceKind) || (ikind c =? SoftLineBreakKind) || (ikind c =? IndentKind) = true \/
   ((ikind c =? RawHTMLKind) = true /\ ikids c = [])) -> shapesI src c = true -> lineI src c = true -> okI src c = true.
Proof.
  destruct c as [k s e ind rf ks]. cbn [ikind ikids]. intros Hk Hs Hl. cbn [shapesI] in Hs. cbn [lineI] in Hl.
  apply andb_true_iff in Hs. destruct Hs as [Hs _]. apply andb_true_iff in Hs. destruct Hs as [Hv _]. rewrite span_valid_inSp in Hv.
  apply andb_true_iff in Hl. destruct Hl as [Hl _]. cbn [okI]. unfold lineK, oneLn, leafK, brK in *.
  destruct Hk as [Hk|[Hk ->]].
  - destruct (k =? TextKind) eqn:E1.
    { apply Z.eqb_eq in E1. subst k. rewrite Hv. reflexivity. }
    destruct (k =? CharacterReferenceKind) eqn:E2.
    { apply Z.eqb_eq in E2. subst k. cbn in Hl |- *. rewrite Hv, Hl. reflexivity. }
    destruct (k =? SoftLineBreakKind) eqn:E3.
    { apply Z.eqb_eq in E3. subst k. cbn in Hl |- *. rewrite Hv, Hl. reflexivity. }
    cbn [orb] in Hk. apply Z.eqb_eq in Hk. subst k. reflexivity.
  - apply Z.eqb_eq in Hk. subst k. reflexivity.
Qed.

Lemma tailOK_of ks : 0 <= linkTail ks ->
  forallb (fun c => negb (isLinkPart (ikind c)) && phrasing (ikind c)) (upto ks (len ks - linkTail ks)) = true -> tailOK ks = true.
Proof.
  intros Ht Hf. unfold tailOK. destruct (rev ks) as [|a [|b r]] eqn:Er; [reflexivity|reflexivity|].
  destruct (splitK (ikind a)) eqn:Es; [|reflexivity]. cbn [negb orb].
  assert (Et : linkTail ks = 0).
  { unfold linkTail. rewrite Er. unfold splitK in Es. apply orb_true_iff in Es. destruct Es as [E|E]; apply Z.eqb_eq in E; rewrite E; reflexivity. }
  rewrite Et, Z.sub_0_r in Hf. unfold upto, len in Hf. rewrite Nat2Z.id, firstn_all in Hf. rewrite forallb_forall in Hf.
  assert (Hb : In b ks) by (apply in_rev; rewrite Er; right; left; reflexivity).
  specialize (Hf b Hb). apply andb_true_iff in Hf. destruct Hf as [Hf _]. apply negb_true_iff in Hf.
  unfold isLinkPart in Hf. apply orb_false_iff in Hf. destruct Hf as [Hf H3]. apply orb_false_iff in Hf. destruct Hf as [_ H2].
  unfold isPartK. rewrite H3, H2. reflexivity.
Qed.

Lemma forallb_In {A} (f : A -> bool) l x : forallb f l = true -> In x l -> f x = true.
Proof. intros H Hx. rewrite forallb_forall in H. apply H, Hx. Qed.

Lemma okI_of src : forall n il i, (isize i <= n)%nat -> shapesI src i = true -> gramI il i = true -> dokI src i = true -> lineI src i = true ->
  okI src i = true.
Proof.
  induction n as [|n IH]; intros il i Hn Hs Hg Hd Hl; [pose proof (isize_pos i); lia|].
  destruct i as [k s e ind rf ks].
  assert (Hkid : forall x, In x ks -> (isize x <= n)%nat).
  { intros x Hx. pose proof (isize_kid (Inl k s e ind rf ks) x Hx). lia. }
  cbn [shapesI] in Hs. apply andb_true_iff in Hs. destruct Hs as [Hs Hsk]. apply andb_true_iff in Hs. destruct Hs as [Hv _]. rewrite span_valid_inSp in Hv.
  cbn [lineI] in Hl. apply andb_true_iff in Hl. destruct Hl as [Hl Hlk].
  cbn [dokI] in Hd. apply andb_true_iff in Hd. destruct Hd as [Hd Hdk]. apply andb_true_iff in Hd. destruct Hd as [_ Hda].
  cbn [gramI] in Hg. apply andb_true_iff in Hg. destruct Hg as [Hnu Hg]. apply negb_true_iff in Hnu.
  cbn [okI]. rewrite !andb_true_iff. repeat split.
  - destruct (k =? TextKind); [exact Hv|reflexivity].
  - unfold lineK. rewrite Hnu. cbn [orb]. unfold brK in Hl. destruct ((k =? CharacterReferenceKind) || (k =? SoftLineBreakKind)); [|reflexivity].
    unfold oneLn. rewrite Hv, Hl. reflexivity.
  - destruct (k =? RawHTMLKind) eqn:ER; [|reflexivity]. apply Z.eqb_eq in ER. subst k. cbn in Hg. destruct ks; [reflexivity|].
    rewrite len_cons in Hg. pose proof (len_nn ks). apply Z.eqb_eq in Hg. lia.
  - destruct (k =? AutolinkKind) eqn:EA; [|reflexivity]. destruct ks as [|t r]; [reflexivity|].
    cbn [forallb] in Hsk. apply andb_true_iff in Hsk. destruct Hsk as [Hst _].
    destruct t as [kt st et it rt kst]. cbn [istart iend]. cbn [shapesI] in Hst. apply andb_true_iff in Hst. destruct Hst as [Hst _].
    apply andb_true_iff in Hst. destruct Hst as [Hvt _]. rewrite span_valid_inSp in Hvt.
    unfold spanNoEol in Hda. cbn [istart iend] in Hda. unfold oneLn. rewrite Hvt, (noEol_noLF _ _ _ Hda). reflexivity.
  - destruct ((k =? LinkKind) || (k =? ImageKind)) eqn:EL; [|reflexivity].
    apply andb_true_iff in Hg. destruct Hg as [Hg _]. apply andb_true_iff in Hg. destruct Hg as [_ Hg]. cbv zeta in Hg.
    apply andb_true_iff in Hg. destruct Hg as [Hg _]. apply andb_true_iff in Hg. destruct Hg as [Ht Hf]. apply Z.leb_le in Ht.
    apply tailOK_of; assumption.
  - destruct (leafK k) eqn:ELf; [reflexivity|]. apply forallb_forall. intros x Hx.
    pose proof (forallb_In _ _ x Hsk Hx) as Xs. pose proof (forallb_In _ _ x Hdk Hx) as Xd. pose proof (forallb_In _ _ x Hlk Hx) as Xl.
    destruct ((k =? LinkKind) || (k =? ImageKind)) eqn:EL.
    { apply andb_true_iff in Hg. destruct Hg as [_ Hg]. apply (IH (il || (k =? LinkKind)) x (Hkid x Hx) Xs (forallb_In _ _ x Hg Hx) Xd Xl). }
    destruct ((k =? EmphasisKind) || (k =? StrongKind)) eqn:EE.
    { apply andb_true_iff in Hg. destruct Hg as [_ Hg]. apply (IH il x (Hkid x Hx) Xs (forallb_In _ _ x Hg Hx) Xd Xl). }
    destruct (k =? CodeSpanKind) eqn:EC.
    { pose proof (forallb_In _ _ x Hg Hx) as Xk. cbv beta in Xk. apply okI_leafkid; [left|exact Xs|exact Xl].
      destruct (ikind x =? TextKind); [reflexivity|]. destruct (ikind x =? SoftLineBreakKind); [rewrite orb_true_r; reflexivity|].
      cbn [orb] in Xk. rewrite Xk. rewrite !orb_true_r. reflexivity. }
    destruct (isLinkPart k || (k =? InfoStringKind) || (k =? AutolinkKind) || (k =? HTMLTagKind)) eqn:EP.
    { pose proof (forallb_In _ _ x Hg Hx) as Xk. cbv beta in Xk. apply andb_true_iff in Xk. destruct Xk as [Xk Xc].
      assert (Ek : ikids x = []).
      { destruct (ikids x) as [|y l]; [reflexivity|]. rewrite len_cons in Xc. pose proof (len_nn l). apply Z.eqb_eq in Xc. lia. }
      apply okI_leafkid; [|exact Xs|exact Xl]. destruct (ikind x =? RawHTMLKind) eqn:ER; [right; split; [reflexivity|exact Ek]|left].
      rewrite orb_false_r in Xk. exact Xk. }
    exfalso. destruct ks; [destruct Hx|]. rewrite len_cons in Hg. pose proof (len_nn ks). apply Z.eqb_eq in Hg. lia.
Qed.

(* list markers *)
Lemma marker_line src b : bkind b = ListMarkerKind -> span_valid (len src) (bstart b) (bend b) = true ->
  shapeBlock (sub src (bstart b) (bend b)) b = true -> bstart b < bend b /\ oneLn src (bstart b) (bend b) = true.
Proof.
  intros Hk Hv Hs. rewrite span_valid_inSp in Hv. pose proof (inSp_parts _ _ _ Hv) as (A & B & C).
  unfold shapeBlock in Hs. cbv zeta in Hs. rewrite Hk in Hs. change (ListMarkerKind =? ListMarkerKind) with true in Hs. cbv iota in Hs.
  set (s := bstart b) in *. set (e := bend b) in *.
  assert (Hlen : len (sub src s e) = e - s) by (apply LA2.len_sub; lia). rewrite Hlen in Hs.
  assert (Hlt : s < e).
  { apply orb_true_iff in Hs. destruct Hs as [Hs|Hs]; rewrite !andb_true_iff in Hs.
    - destruct Hs as [Hs _]. apply Z.eqb_eq in Hs. lia.
    - destruct Hs as (((Hs & _) & _) & _). apply Z.leb_le in Hs. lia. }
  split; [exact Hlt|]. unfold oneLn. rewrite Hv. cbn [andb].
  apply orb_true_iff in Hs. destruct Hs as [Hs|Hs]; rewrite !andb_true_iff in Hs.
  - destruct Hs as [Hs _]. apply Z.eqb_eq in Hs. rewrite sub_nil by lia. reflexivity.
  - destruct Hs as (_ & Hd). assert (E : upto (sub src s e) (e - s - 1) = sub src s (e - 1)).
    { unfold sub. rewrite QuoteSimDrv1.upto_upto by lia. f_equal. lia. }
    rewrite E in Hd. unfold noLFl. rewrite forallb_forall in *. intros x Hx. specialize (Hd x Hx).
    apply negb_true_iff, Z.eqb_neq. intros ->. discriminate Hd.
Qed.

Lemma defHead_of ik :
  match ik with
  | [l; d] => (ikind l =? LinkLabelKind) && (ikind d =? LinkDestinationKind)
  | [l; d; t] => (ikind l =? LinkLabelKind) && (ikind d =? LinkDestinationKind) && (ikind t =? LinkTitleKind)
  | _ => false
  end = true -> defHead ik = true.
Proof.
  destruct ik as [|l [|d [|t [|u r]]]]; try discriminate.
  - intros H. apply andb_true_iff in H. destruct H as [A B]. apply Z.eqb_eq in A. unfold defHead. rewrite A, B. reflexivity.
  - intros H. apply andb_true_iff in H. destruct H as [H C]. apply andb_true_iff in H. destruct H as [A B]. apply Z.eqb_eq in A. unfold defHead. rewrite A, B, C. reflexivity.
Qed.

Lemma okB_of src : forall n pk b, (bheight b <= n)%nat -> shapesB src b = true -> gramB src pk b = true -> dokB src b = true -> lineB src b = true ->
  okB src b = true.
Proof.
  induction n as [|n IH]; intros pk b Hn Hs Hg Hd Hl; [destruct b; cbn [bheight] in Hn; lia|].
  destruct b as [k s e bk ik a nn ch l lb].
  assert (Hkid : forall x, In x bk -> (bheight x <= n)%nat).
  { intros x Hx. pose proof (bheight_kid (Blk k s e bk ik a nn ch l lb) x Hx). lia. }
  cbn [shapesB] in Hs. rewrite !andb_true_iff in Hs. destruct Hs as (((Hv & Hsh) & Hsb) & Hsi).
  cbn [dokB] in Hd. apply andb_true_iff in Hd. destruct Hd as [Hdi Hdb].
  cbn [lineB] in Hl. apply andb_true_iff in Hl. destruct Hl as [Hli Hlb].
  cbn [gramB] in Hg. cbv zeta in Hg. rewrite !andb_true_iff in Hg. destruct Hg as ((((_ & _) & Hgk) & Hgb) & Hgi).
  cbn [okB]. rewrite !andb_true_iff. repeat split.
  - destruct (k =? ListMarkerKind) eqn:EM; [|reflexivity]. apply Z.eqb_eq in EM.
    destruct (marker_line src (Blk k s e bk ik a nn ch l lb) EM Hv Hsh) as [A B]. cbn [bstart bend] in A, B.
    apply Z.ltb_lt in A. rewrite A, B. reflexivity.
  - destruct (k =? LinkReferenceDefinitionKind) eqn:ED; [|reflexivity]. apply Z.eqb_eq in ED. subst k. cbn in Hgk.
    apply andb_true_iff in Hgk. destruct Hgk as [_ Hgk]. apply defHead_of, Hgk.
  - apply forallb_forall. intros x Hx.
    apply (okI_of src (isize x) false x (le_n _) (forallb_In _ _ x Hsi Hx) (forallb_In _ _ x Hgi Hx) (forallb_In _ _ x Hdi Hx) (forallb_In _ _ x Hli Hx)).
  - apply forallb_forall. intros x Hx.
    apply (IH k x (Hkid x Hx) (forallb_In _ _ x Hsb Hx) (forallb_In _ _ x Hgb Hx) (forallb_In _ _ x Hdb Hx) (forallb_In _ _ x Hlb Hx)).
Qed.

Theorem renderOK_of_lineOK : forall D, lineOK D = true -> renderOK D = true.
Proof.
  intros D HL. unfold renderOK, lineOK in *.
  pose proof (PropsFull.C13_full D) as H13. pose proof (PropsFull.C05_full D) as H05. pose proof (EolCRRenderTree.destOK D) as Hd.
  apply forallb_forall. intros r Hr.
  pose proof (forallb_In _ _ r H13 Hr) as A. pose proof (forallb_In _ _ r H05 Hr) as B. pose proof (forallb_In _ _ r Hd Hr) as C.
  pose proof (forallb_In _ _ r HL Hr) as E. cbv beta in A, B, C, E. unfold chk_C13_root in A. unfold chk_C05_root in B. cbv zeta in B.
  apply andb_true_iff in B. destruct B as [_ B].
  apply (okB_of (rb_src r) (bheight (rb_blk r)) 0 (rb_blk r) (le_n _) A B C E).
Qed.
Print Assumptions renderOK_of_lineOK.
