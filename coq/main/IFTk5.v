From Coq Require Import List ZArith Lia Bool.
Import ListNotations.
Require Import Base Tables Utf8 Tree Rdr Link Collect Html Recog Inl3a Inl3b Inl3c Inl3d Driver Inl3e PEProof.
Require Import GI0 GI1 GI2 GI3 GI4 GI5 GI6.
Require Import ShapesR IFBase IFTree IFPe IFTk1 IFTk2 IFTk3 IFTk4 IFTokDef IFFrame IFTokAux IFTokLoop IFTokUm IFTokFuel.
Open Scope Z_scope.

(* ================================================================ C04 (4): the inline parser with ALL its fuels explicit
   pf : the fuel of processEmphasis (the model: 4 * (length stack + length src) + 8, recomputed at every call) *)
Definition finishLinkG (pf : nat) (st : ist) (kind odi : Z) : ist :=
  let bracketId := d_node (nthD (stk st) odi) in
  let st := processEmphasisF pf st (odi + 1) in
  let st := removeNode st bracketId in
  let st := setStk st (delStack (stk st) odi (odi + 1)) in
  if kind =? LinkKind then
    setStk st (map (fun id : Z * delim => let '(i, d) := id in
                     if (i <? odi) && (d_typ d =? tLink) then clearFlag d fActive else d)
                   (combine (map Z.of_nat (seq 0 (length (stk st)))) (stk st)))
  else st.

Definition parseEndBracketG (rf tf pf : nat) (st : ist) (start : Z) : ist * Z :=
  let fuel := rf in
  let src := isrc st in
  let '(st, odi) := lookForLinkOrImage st in
  if odi <? 0 then (addText st start (start + 1), start + 1) else
  let od := nthD (stk st) odi in
  let kind := if d_typ od =? tImage then ImageKind else LinkKind in
  let bracket := nodeOf st (d_node od) in
  let tryInline :=
    if (start + 1 <? spanEnd st) && (at_ src (start + 1) =? 40) then
      let '(ispan, (dspan, dtext), (tspan, ttext)) := parseInlineLink fuel st (start + 1) in
      if spanValid ispan then Some (ispan, dspan, dtext, tspan, ttext) else None
    else None in
  match tryInline with
  | Some (ispan, dspan, dtext, tspan, ttext) =>
    let '(st, lid) := wrap st kind (d_node od) None in
    let st := updN st lid (fun n => setSpan n (ps bracket) (snd ispan)) in
    let st :=
      if spanValid dspan then
        let kids := if spanValid dtext then kidsOf (collectTextNodes fuel (newReader src (unpFrom st) (fst dtext)) (snd dtext) TextKind true) else [] in
        appendKid st lid (PN 0 LinkDestinationKind (fst dspan) (snd dspan) 0 [] kids)
      else st in
    let st :=
      if spanValid tspan then
        let kids := if spanValid ttext then kidsOf (collectTextNodes fuel (newReader src (unpFrom st) (fst ttext)) (snd ttext) TextKind true) else [] in
        appendKid st lid (PN 0 LinkTitleKind (fst tspan) (snd tspan) 0 [] kids)
      else st in
    let st := advanceTo st (snd ispan - 1) in
    (finishLinkG pf st kind odi, snd ispan)
  | None =>
    let fail (st : ist) := (setStk (addText st start (start + 1)) (delStack (stk st) odi (odi + 1)), start + 1) in
    let isCollapsed := (start + 2 <? spanEnd st) && (at_ src (start + 1) =? 91) && (at_ src (start + 2) =? 93) in
    let '(lspan, linner) :=
      if negb isCollapsed && (start + 1 <? spanEnd st) && (at_ src (start + 1) =? 91) then
        let '(a, b, _) := parseLinkLabel fuel (newReader src (unpFrom st) (start + 1)) in (a, b)
      else (nullSpan, nullSpan) in
    if isCollapsed then
      let label := transformLinkReferenceSpan fuel src (unp st) (pe bracket) start in
      if negb (matchRef st label) then fail st else
      let '(st, lid) := wrap st kind (d_node od) None in
      let st := updN st lid (fun n => setRef (setSpan n (ps bracket) (start + 3)) label) in
      (finishLinkG pf st kind odi, start + 3)
    else if spanValid lspan then
      let lkids := collectTextNodes fuel (newReader src (unpFrom st) (fst linner)) (snd linner) TextKind false in
      let lref := transformLinkReference tf src lkids in
      if negb (matchRef st lref) then fail st else
      let '(st, lid) := wrap st kind (d_node od) None in
      let st := appendKid st lid (PN 0 LinkLabelKind (fst lspan) (snd lspan) 0 lref (kidsOf lkids)) in
      let st := updN st lid (fun n => setSpan n (ps bracket) (snd lspan)) in
      let st := advanceTo st (snd lspan - 1) in
      (finishLinkG pf st kind odi, snd lspan)
    else
      let label := transformLinkReferenceSpan fuel src (unp st) (pe bracket) start in
      if negb (matchRef st label) then fail st else
      let '(st, lid) := wrap st kind (d_node od) None in
      let st := updN st lid (fun n => setRef (setSpan n (ps bracket) (start + 1)) label) in
      (finishLinkG pf st kind odi, start + 1)
  end.

(* istepG differs from istepF only in the call of parseEndBracket *)
Definition istepG (rf tf pf : nat) (st : ist) (pos plainStart : Z) : ist * Z * Z :=
  if at_ (isrc st) pos =? 93 then
    let st := addText st plainStart pos in
    let '(st, e) := parseEndBracketG rf tf pf st pos in (st, e, e)
  else istepF rf tf st pos plainStart.
Fixpoint iloopG (rf tf pf : nat) (fuel : nat) (st : ist) (pos plainStart : Z) : ist * Z :=
  match fuel with
  | O => (st, plainStart)
  | S f =>
    if (upos st <? len (unp st)) && (pos <? spanEnd st) then
      let '(st, pos, plainStart) := istepG rf tf pf st pos plainStart in iloopG rf tf pf f st pos plainStart
    else (st, plainStart)
  end.
Fixpoint outerG (rf tf pf lf : nat) (fuel : nat) (st : ist) : ist :=
  match fuel with
  | O => st
  | S f =>
    if len (unp st) <=? upos st then st else
    let u := nth (Z.to_nat (upos st)) (unp st) (mkI 0 0 0) in
    let k := ikind u in
    let st :=
      if k =? 0 then setIgn st false
      else if k =? IndentKind then (if negb (ign st) then setRk st (rk st ++ [ofInline u]) else st)
      else if k =? UnparsedKind then
        let pos := istart u in
        let pos := if ign st then skipSpTab (length (isrc st)) (isrc st) pos (spanEnd st) else pos in
        let st := setIgn st false in
        let '(st, plainStart) := iloopG rf tf pf lf st pos pos in
        addText st plainStart (spanEnd st)
      else setRk (setIgn st false) (rk st ++ [ofInline u]) in
    outerG rf tf pf lf f (setUpos st (upos st + 1))
  end.
Definition parseInlinesG (rf tf pf lf ofu : nat) (src : bytes) (matcher : list bytes) (container : block) : list inline :=
  let st := outerG rf tf pf lf ofu (st0 src matcher container) in
  let st := processEmphasisF pf st 0 in
  map toInline (rk st).

(* the step of istepF at a ']' is the same expression with parseEndBracketF *)
Lemma istepF_93 rf tf st pos ps : (at_ (isrc st) pos =? 93) = true ->
  istepF rf tf st pos ps = (let st := addText st ps pos in let '(st, e) := parseEndBracketF rf tf st pos in (st, e, e)).
Proof.
  intros E. apply Z.eqb_eq in E. unfold istepF. cbv zeta. rewrite E. reflexivity.
Qed.

Lemma finishLinkG_eq pf st kind odi : TI st -> load st <= len (isrc st) -> 0 <= odi -> (8 * length (isrc st) + 8 <= pf)%nat ->
  finishLinkG pf st kind odi = finishLink st kind odi.
Proof.
  intros HT HL Ho Hpf. unfold finishLinkG, finishLink. cbv zeta. unfold load in HL.
  rewrite (processEmphasis_adequate pf st (odi + 1)); [reflexivity|lia|exact HT|lia|unfold len in *; lia].
Qed.

Ltac gx G2 H2 :=
  match goal with |- (finishLinkG ?pf ?X ?k ?o, ?e) = _ =>
    let HX := fresh "HX" in let FX := fresh "FX" in
    assert (HX : Good _ _ X) by (repeat gs; exact G2);
    assert (FX : fr _ X) by (repeat frs; exact H2);
    f_equal; apply finishLinkG_eq
  end.

Lemma parseEndBracketG_eq rf tf pf st start : TKb (nid st) st -> load st <= len (isrc st) -> (8 * length (isrc st) + 8 <= pf)%nat ->
  parseEndBracketG rf tf pf st start = parseEndBracketF rf tf st start.
Proof.
  intros HT HL Hpf. unfold parseEndBracketG, parseEndBracketF. cbv zeta.
  pose proof (lfl_Good (nid st) st (S (length (stk st))) st (len (stk st) - 1) (Good_refl _ _ HT)) as G1.
  pose proof (lfl_spec (S (length (stk st))) st (len (stk st) - 1) ltac:(lia)) as Hsp.
  unfold lookForLinkOrImage. destruct (lfl (S (length (stk st))) st (len (stk st) - 1)) as [st1 odi]. cbn [fst snd] in *.
  destruct (Z.ltb_spec odi 0) as [Hneg|Hodi]; [reflexivity|].
  destruct Hsp as [(E & _)|(Hr & E1 & _)]; [lia|]. subst st1.
  assert (Hod : 0 < d_node (nthD (stk st) odi)).
  { destruct HT as (_ & _ & S1 & _). specialize (S1 _ (nthD_In (stk st) odi Hr)). lia. }
  assert (Hfin : forall X kind, Good (nid st) st X -> fr st X -> finishLinkG pf X kind odi = finishLink X kind odi).
  { intros X kind [TX LX] [FX _]. apply finishLinkG_eq; [eapply TKb_TI; exact TX|rewrite FX; lia|lia|rewrite FX; exact Hpf]. }
  match goal with |- context [match ?X with Some _ => _ | None => _ end] => destruct X as [[[[[ispan dspan] dtext] tspan] ttext]|] end.
  - match goal with |- context [wrap ?s ?k ?a ?b] => pose proof (G_wrap (nid st) st s k a b G1 Hod) as G2; pose proof (snd_wrap s k a b) as El;
      pose proof (fr_wrap s k a b) as H2; destruct (wrap s k a b) as [st2 lid]; cbn [fst snd] in G2, El, H2 end.
    subst lid. f_equal. apply Hfin; [repeat gs; exact G2|repeat frs; exact H2].
  - match goal with |- (match ?X with pair _ _ => _ end) = _ => destruct X as [lspan linner] end.
    match goal with |- (if ?c then _ else _) = _ => destruct c end.
    + destruct (negb (matchRef _ _)); [reflexivity|].
      match goal with |- context [wrap ?s ?k ?a ?b] => pose proof (G_wrap (nid st) st s k a b G1 Hod) as G2; pose proof (snd_wrap s k a b) as El;
        pose proof (fr_wrap s k a b) as H2; destruct (wrap s k a b) as [st2 lid]; cbn [fst snd] in G2, El, H2 end.
      subst lid. f_equal. apply Hfin; [repeat gs; exact G2|repeat frs; exact H2].
    + destruct (spanValid lspan).
      * destruct (negb (matchRef _ _)); [reflexivity|].
        match goal with |- context [wrap ?s ?k ?a ?b] => pose proof (G_wrap (nid st) st s k a b G1 Hod) as G2; pose proof (snd_wrap s k a b) as El;
          pose proof (fr_wrap s k a b) as H2; destruct (wrap s k a b) as [st2 lid]; cbn [fst snd] in G2, El, H2 end.
        subst lid. f_equal. apply Hfin; [repeat gs; exact G2|repeat frs; exact H2].
      * destruct (negb (matchRef _ _)); [reflexivity|].
        match goal with |- context [wrap ?s ?k ?a ?b] => pose proof (G_wrap (nid st) st s k a b G1 Hod) as G2; pose proof (snd_wrap s k a b) as El;
          pose proof (fr_wrap s k a b) as H2; destruct (wrap s k a b) as [st2 lid]; cbn [fst snd] in G2, El, H2 end.
        subst lid. f_equal. apply Hfin; [repeat gs; exact G2|repeat frs; exact H2].
Qed.

Section Final.
  Variable src : bytes.
  Variable U : list inline.
  Hypothesis HOK : spOK src U = true.
  Variables rf tf pf : nat.
  Hypothesis Hrf : len src + ibudget U < Z.of_nat rf.
  Hypothesis Hpf : (8 * length src + 8 <= pf)%nat.
  Notation K := (K src U).
  Notation TKL := (TKL src U).
  Notation Eb := (Eb src U).
  Notation d0 := (mkI 0 0 0).

  Lemma istepG_eq st pos ps : K st pos -> TKL st pos -> istepG rf tf pf st pos ps = istepF rf tf st pos ps.
  Proof.
    intros HK (T & L1 & L2). pose proof HK as (Es & Eu & _ & Hu0 & _). unfold istepG.
    destruct (at_ (isrc st) pos =? 93) eqn:E93; [|reflexivity]. rewrite (istepF_93 rf tf st pos ps E93). cbv zeta.
    assert (Ga : Good (nid st) st (addText st ps pos)) by (apply G_addText, Good_refl, T).
    destruct (G_nid _ _ _ Ga) as [Ta La]. destruct (fr_addText st ps pos) as [Fa _].
    rewrite (parseEndBracketG_eq rf tf pf (addText st ps pos) pos Ta); [reflexivity| |rewrite Fa, Es; exact Hpf].
    rewrite Fa, Es. pose proof (Eb_le src U HOK rf st Hu0). lia.
  Qed.

  Lemma iloopG_eq : forall fuel st pos ps, K st pos -> TKL st pos -> iloopG rf tf pf fuel st pos ps = iloopF rf tf fuel st pos ps.
  Proof.
    induction fuel as [|f IH]; intros st pos ps HK HT; [reflexivity|]. cbn [iloopG iloopF]. pose proof HK as (Es & Eu & _).
    destruct (Z.ltb_spec (upos st) (len (unp st))) as [L|L]; cbn [andb]; [|reflexivity].
    destruct (Z.ltb_spec pos (spanEnd st)) as [L2|L2]; [|reflexivity].
    rewrite (istepG_eq st pos ps HK HT).
    destruct (istepF_prog src U HOK rf tf Hrf st pos ps HK ltac:(rewrite <- Eu; exact L) L2) as [_ P2].
    pose proof (istepF_TKL src U HOK rf tf Hrf st pos ps HK ltac:(rewrite <- Eu; exact L) L2 HT) as P3.
    destruct (istepF rf tf st pos ps) as [[st1 p1] ps1]. cbn [fst snd] in *. apply IH; assumption.
  Qed.
  (* the invariants at the end of the tokeniser loop *)
  Lemma iloopF_KT : forall fuel st pos ps, K st pos -> TKL st pos ->
    exists pos', K (fst (iloopF rf tf fuel st pos ps)) pos' /\ TKL (fst (iloopF rf tf fuel st pos ps)) pos'.
  Proof.
    induction fuel as [|f IH]; intros st pos ps HK HT; [exists pos; split; assumption|]. cbn [iloopF]. pose proof HK as (Es & Eu & _).
    destruct (Z.ltb_spec (upos st) (len (unp st))) as [L|L]; cbn [andb]; [|exists pos; split; assumption].
    destruct (Z.ltb_spec pos (spanEnd st)) as [L2|L2]; [|exists pos; split; assumption].
    destruct (istepF_prog src U HOK rf tf Hrf st pos ps HK ltac:(rewrite <- Eu; exact L) L2) as [_ P2].
    pose proof (istepF_TKL src U HOK rf tf Hrf st pos ps HK ltac:(rewrite <- Eu; exact L) L2 HT) as P3.
    destruct (istepF rf tf st pos ps) as [[st1 p1] ps1]. cbn [fst snd] in *. apply IH; assumption.
  Qed.

  (* ---- the loop over the entries ---- *)
  Definition Sb (st : ist) : Z := if upos st <? len U then istart (nth (Z.to_nat (upos st)) U d0) else len src.
  Definition OI (st : ist) : Prop := isrc st = src /\ unp st = U /\ 0 <= upos st /\ TKb (nid st) st /\ load st <= Sb st.

  Definition obodyG (lf : nat) (st : ist) : ist :=
    let u := nth (Z.to_nat (upos st)) (unp st) d0 in
    let k := ikind u in
    if k =? 0 then setIgn st false
    else if k =? IndentKind then (if negb (ign st) then setRk st (rk st ++ [ofInline u]) else st)
    else if k =? UnparsedKind then
      let pos := istart u in
      let pos := if ign st then skipSpTab (length (isrc st)) (isrc st) pos (spanEnd st) else pos in
      let st := setIgn st false in
      let '(st, plainStart) := iloopG rf tf pf lf st pos pos in
      addText st plainStart (spanEnd st)
    else setRk (setIgn st false) (rk st ++ [ofInline u]).
  Lemma outerG_S lf f st : outerG rf tf pf lf (S f) st =
    if len (unp st) <=? upos st then st else outerG rf tf pf lf f (setUpos (obodyG lf st) (upos (obodyG lf st) + 1)).
  Proof. reflexivity. Qed.

  Lemma Sb_le st : 0 <= upos st -> Sb st <= len src.
  Proof.
    intros H0. unfold Sb. destruct (Z.ltb_spec (upos st) (len U)); [|lia].
    destruct (spOK_In src U _ HOK (nth_In_Z U (upos st) d0 ltac:(lia))) as (_ & A & B). lia.
  Qed.

  Lemma obody_step lf st : OI st -> upos st < len U ->
    obodyG lf st = obody rf tf lf st /\ OI (setUpos (obody rf tf lf st) (upos (obody rf tf lf st) + 1)).
  Proof.
    intros (Es & Eu & Hu0 & T & HL) Hu. unfold obodyG, obody. cbv zeta. rewrite Eu.
    set (u := nth (Z.to_nat (upos st)) U d0).
    destruct (spOK_In src U u HOK (nth_In_Z U (upos st) d0 ltac:(lia))) as (A1 & A2 & A3).
    assert (HSb : Sb st = istart u) by (unfold Sb; destruct (Z.ltb_spec (upos st) (len U)); [reflexivity|lia]).
    (* what the next round needs from a state X reached in this round *)
    assert (Hnext : forall X, fr st X -> 0 <= upos X -> upos st <= upos X -> Good (nid st) st X -> load X <= Eb X ->
              OI (setUpos X (upos X + 1))).
    { intros X [F1 F2] X0 X1 HG HLX. destruct (G_nid _ _ _ HG) as [TX _].
      destruct (G_setUpos (nid X) X X (upos X + 1) (Good_refl _ _ TX)) as [TX' LX'].
      split; [cbn [isrc setUpos]; congruence|]. split; [cbn [unp setUpos]; congruence|]. split; [cbn [upos setUpos]; lia|]. split; [exact TX'|].
      unfold Sb. cbn [upos setUpos]. destruct (Z.ltb_spec (upos X + 1) (len U)) as [L|L].
      - pose proof (Eb_next src U HOK rf X X0 L). lia.
      - pose proof (Eb_le src U HOK rf X X0). lia. }
    assert (HEb0 : forall X, upos X = upos st -> load X <= load st -> load X <= Eb X).
    { intros X EX LX. unfold Eb. rewrite EX. destruct (Z.ltb_spec (upos st) (len U)); [fold u; lia|lia]. }
    destruct (_ =? 0).
    { split; [reflexivity|]. apply Hnext; [apply fr_setIgn|cbn; lia|cbn; lia|apply G_setIgn, Good_refl, T|].
      apply HEb0; [reflexivity|]. destruct (G_setIgn (nid st) st st false (Good_refl _ _ T)) as [_ Q]. exact Q. }
    destruct (_ =? IndentKind).
    { split; [reflexivity|]. destruct (negb _).
      - destruct T as (F & Hb & S1 & S2). destruct (setRk_app_FM st u F ltac:(lia)) as [F' M'].
        pose proof (G_neutral (nid st) st st _ (Good_refl _ _ (conj F (conj Hb (conj S1 S2)))) F' M' eq_refl) as HG.
        apply Hnext; [apply fr_setRk|cbn; lia|cbn; lia|exact HG|]. apply HEb0; [reflexivity|apply HG].
      - apply Hnext; [apply fr_refl|lia|lia|apply Good_refl, T|]. apply HEb0; [reflexivity|lia]. }
    destruct (_ =? UnparsedKind).
    - set (pos := if ign st then skipSpTab (length (isrc st)) (isrc st) (istart u) (spanEnd st) else istart u).
      assert (Hp : istart u <= pos). { unfold pos. destruct (ign st); [apply (skipSpTab_ge rf)|lia]. }
      assert (HK : K (setIgn st false) pos).
      { split; [exact Es|]. split; [exact Eu|]. split; [lia|]. split; [exact Hu0|]. intros _. exact Hp. }
      assert (HT : TKL (setIgn st false) pos).
      { destruct (G_setIgn (nid st) st st false (Good_refl _ _ T)) as [TQ Q]. split; [exact TQ|]. split; [lia|].
        apply HEb0; [reflexivity|exact Q]. }
      rewrite (iloopG_eq lf (setIgn st false) pos pos HK HT). split; [reflexivity|].
      destruct (iloopF_KT lf (setIgn st false) pos pos HK HT) as (pos' & K' & (T' & L1' & L2')).
      pose proof (fr_iloopF rf tf lf (setIgn st false) pos pos) as F. pose proof (um_iloopF rf tf lf (setIgn st false) pos pos Hu0) as M.
      destruct (iloopF rf tf lf (setIgn st false) pos pos) as [st1 ps1]. cbn [fst] in *.
      destruct K' as (_ & _ & _ & Hu1 & _). unfold um in M. cbn [upos setIgn] in M.
      assert (Ga : Good (nid st1) st1 (addText st1 ps1 (spanEnd st1))) by (apply G_addText, Good_refl, T').
      destruct (G_nid _ _ _ Ga) as [Ta La]. destruct (G_setUpos _ _ _ (upos (addText st1 ps1 (spanEnd st1)) + 1) (Good_refl _ _ Ta)) as [Tb Lb].
      pose proof (ux_addText st1 ps1 (spanEnd st1)) as Xa. unfold ux in Xa.
      destruct (fr_addText st1 ps1 (spanEnd st1)) as [Fa1 Fa2]. destruct F as [F1 F2].
      split; [cbn [isrc setUpos]; cbn [isrc setIgn] in F1; congruence|]. split; [cbn [unp setUpos]; cbn [unp setIgn] in F2; congruence|].
      split; [cbn [upos setUpos]; lia|]. split; [exact Tb|].
      unfold Sb. cbn [upos setUpos]. rewrite Xa in *.
      assert (HE1 : Eb (addText st1 ps1 (spanEnd st1)) = Eb st1) by (unfold Eb; rewrite ?Xa; reflexivity).
      destruct (Z.ltb_spec (upos st1 + 1) (len U)) as [L|L].
      + pose proof (Eb_next src U HOK rf st1 Hu1 L). lia.
      + pose proof (Eb_le src U HOK rf st1 Hu1). lia.
    - split; [reflexivity|]. destruct T as (F & Hb & S1 & S2).
      destruct (G_setIgn (nid st) st st false (Good_refl _ _ (conj F (conj Hb (conj S1 S2))))) as [T1 Q1].
      pose proof T1 as (F1 & _). destruct (setRk_app_FM (setIgn st false) u F1 ltac:(cbn; lia)) as [F' M'].
      pose proof (G_neutral (nid st) st (setIgn st false) _ (conj T1 Q1) F' M' eq_refl) as HG.
      apply Hnext; [eapply fr_trans; [apply fr_setIgn|apply fr_setRk]|cbn; lia|cbn; lia|exact HG|]. apply HEb0; [reflexivity|apply HG].
  Qed.

  Lemma outerG_eq lf : forall fuel st, OI st -> outerG rf tf pf lf fuel st = outerF rf tf lf fuel st /\ OI (outerF rf tf lf fuel st).
  Proof.
    induction fuel as [|f IH]; intros st HO; [split; [reflexivity|exact HO]|]. rewrite outerG_S, outerF_S. pose proof HO as (_ & Eu & _).
    rewrite Eu. destruct (Z.leb_spec (len U) (upos st)) as [L|L]; [split; [reflexivity|exact HO]|].
    destruct (obody_step lf st HO L) as [E1 O1]. rewrite E1. apply IH. exact O1.
  Qed.
End Final.
