(* ChkF4.v -- T30 follow-up: Fb through descendOpenBlocks and the block starts. *)
From Coq Require Import List ZArith Lia Bool.
Import ListNotations.
Require Import Base Tree Rdr Link Collect Html Recog LP Rules Starts Driver L2Kind2 L2CC ShapesBase ShEnv GramDefs GramTree
  GramLP GramLP2 GramLP3 GramLP4 Cursor CursorX NoPanic12 BSLine1 ChkW1 ChkW2 ChkW3 ChkW4 ChkW5 ChkE1 ChkE2 ChkE3 ChkE4 ChkF1 ChkF2 ChkF3.
Open Scope Z_scope.

Lemma F_descend_loop : forall fuel p d, CUR p -> FS p -> FS (snd (descend_loop fuel p d)).
Proof.
  induction fuel as [|f IH]; intros p d HC HW; [exact HW|].
  cbn [descend_loop]. cbv zeta.
  destruct (getAt (S d) (root p)) as [c|] eqn:Ec; [|exact HW].
  destruct (negb (isOpen c)) eqn:Eo; [exact HW|]. apply negb_false_iff in Eo.
  destruct (negb (hasMatch _)); [exact HW|].
  set (q := withState (withCont p (Some (S d))) stDescending).
  assert (HCq : CUR q) by exact HC. assert (HWq : FS q) by exact HW.
  pose proof (matchRule_cases q) as Hr. pose proof (CUR_matchRule q HCq) as HC2. pose proof (li_matchRule_ge q HCq) as Hli.
  pose proof (env_matchRule q) as He2.
  destruct (matchRule q) as [ok p2]. cbn [snd] in Hr, HC2, Hli, He2.
  destruct (env_src q p2 He2) as (Es2 & El2 & Eln2).
  destruct Hr as [Hr|(Hk & Hr)].
  - assert (HW2 : FS p2) by (apply (FS_tree q p2 Hr El2 Hli), HWq).
    destruct (state p2 =? stDescendTerminated).
    + cbn [snd]. apply (FS_tree (closeLastChildAt p2 d (lineStart p2 + li p2))); [reflexivity|reflexivity|cbn; lia|].
      apply FS_closeLastChildAt; [destruct HC2 as (_ & B & C); lia|destruct HC2 as (_ & B & C); lia|exact HW2].
    + destruct (negb ok); [exact HW2|]. apply IH; assumption.
  - assert (Hst2 : state p2 = stDescendTerminated) by (rewrite Hr; apply state_consumeLine_desc, state_collectInline_desc; reflexivity).
    rewrite Hst2. change (stDescendTerminated =? stDescendTerminated) with true. cbv iota. cbn [snd].
    unfold FS, Mc. cbn [root lineStart li withCont closeLastChildAt withRoot setLP]. fold (CLf (bheight (root p2)) (source p2) (lineStart p2 + li p2)).
    eapply (Fb_mono (lineStart q + li q) (lineStart q)); [rewrite El2; lia|rewrite El2; lia|].
    apply (collect_close_F q RawHTMLKind (len (bytesAfterIndent q)) d (lineStart p2 + li p2) p2); try assumption; try reflexivity.
    + rewrite El2. assert (Hge : li (collectInline q RawHTMLKind (len (bytesAfterIndent q))) <= li p2).
      { rewrite Hr. apply li_consumeLine_ge, CUR_collectInline, HCq. }
      lia.
    + intros c' Hc'. change (root q) with (root p) in Hc'. rewrite Ec in Hc'. inversion Hc'; subst c'. exact Eo.
    + rewrite Hr. apply same_consumeLine.
Qed.

(* ---- the invariant with the bounds raised to the end of the current line ---- *)
Definition FSH (p : lp) : Prop := Fb (HL p) (HL p) (root p) = true.
Lemma FS_FSH p : CUR p -> FS p -> FSH p.
Proof. intros (_ & B & C) H. unfold FSH, HL. eapply Fb_mono; [| |exact H]; unfold Mc; lia. Qed.
Lemma FSH_tree p p' : root p' = root p -> lineStart p' = lineStart p -> line p' = line p -> FSH p -> FSH p'.
Proof. unfold FSH, HL. intros -> -> ->. tauto. Qed.

(* appending entries to the (open) container *)


Lemma Fb_add_entries M U c extra : isOpen c = true -> Fb M U c = true ->
  (forall u, In u extra -> M <= istart u /\ iend u <= U) -> Fb M U (set_bik c (bik c ++ extra)) = true.
Proof.
  intros Ho H Hx. apply Fb_parts in H. destruct H as (A & C). unfold isOpen in Ho.
  apply Fb_mk; [|destruct c; exact C].
  destruct (exK (bkind c)) eqn:E; [apply floc_ex; destruct c; exact E|]. destruct (floc_nex M U c E A) as [A1 A2].
  apply floc_mk; [destruct c; exact A1|].
  replace (bstart (set_bik c (bik c ++ extra))) with (bstart c) by (destruct c; reflexivity).
  replace (bend (set_bik c (bik c ++ extra))) with (bend c) by (destruct c; reflexivity).
  replace (bik (set_bik c (bik c ++ extra))) with (bik c ++ extra) by (destruct c; reflexivity).
  rewrite forallb_app, A2. cbn [andb]. apply forallb_forall. intros u Hu. destruct (Hx u Hu) as [X1 X2].
  unfold eb. apply orb_true_iff. right. rewrite Ho. apply andb_true_iff. split; apply Z.leb_le; lia.
Qed.
Lemma F_add_entries M U p extra : GI p -> Fb M U (root p) = true ->
  (forall u, In u extra -> M <= istart u /\ iend u <= U) ->
  Fb M U (updAt (cdepth p) (fun c => set_bik c (bik c ++ extra)) (root p)) = true.
Proof.
  intros HI H Hx. destruct (GI_wf p HI) as (c & Ec & Ho).
  apply Fb_updAt_at; [exact H|]. intros x Ex HEx. rewrite Ec in Ex. inversion Ex; subst x. apply Fb_add_entries; assumption.
Qed.

(* collectInline without a close (the info string of a code fence): the bounds are raised to the end of the line *)
Lemma FSH_collectInline p kind n : CUR p -> (state p =? stDescendTerminated) = false -> GI p -> FS p -> FSH (collectInline p kind n).
Proof.
  intros HC Hst HI H. destruct (collectInline_root_pos p kind n HC Hst) as (extra & Hroot & Hpos).
  destruct (env_src p _ (env_collectInline p kind n)) as (_ & El & Eln).
  pose proof (CUR_collectInline p kind n HC) as (_ & _ & C2). rewrite Eln in C2.
  unfold FSH, HL. rewrite Hroot, El, Eln.
  eapply (Fb_mono (Mc p) (lineStart p + len (line p))); [destruct HC as (_ & B & C); unfold Mc; lia|lia|].
  apply F_add_entries; [exact HI| |].
  - eapply Fb_mono; [apply Z.le_refl| |exact H]. pose proof (len_nonneg (line p)). lia.
  - intros u Hu. destruct (Hpos u Hu) as [P1 P2]. unfold Mc. lia.
Qed.

(* ---- collectInline, the end of the line, endBlock ---- *)
Lemma F_collect_end p kind n K : st_open p -> CUR p -> GI p -> ckind p K -> K <> documentKind ->
  FS p -> FS (endBlock (consumeLine (collectInline p kind n))).
Proof.
  intros Hs HC HG Hc HD HW.
  set (q := consumeLine (collectInline p kind n)).
  assert (Sq : state q = stLineConsumed) by (apply state_consumeLine_open, st_open_collectInline, Hs).
  destruct (cdepth_pos p K HG Hc HD) as (d & Hd).
  assert (Dq : cdepth q = S d).
  { unfold q, cdepth. rewrite (proj2 (same_consumeLine _)). fold (cdepth (collectInline p kind n)). rewrite cdepth_collectInline. exact Hd. }
  assert (HCq : CUR q) by (apply CUR_consumeLine, CUR_collectInline, HC).
  assert (Eq : lineStart q = lineStart p).
  { destruct (env_src (collectInline p kind n) q (env_consumeLine _)) as (_ & B & _).
    destruct (env_src p _ (env_collectInline p kind n)) as (_ & B' & _). congruence. }
  assert (Hge : li (collectInline p kind n) <= li q) by (apply li_consumeLine_ge, CUR_collectInline, HC).
  pose proof (li_collectInline_ge p kind n) as Hge0.
  unfold endBlock. rewrite Sq. change ((stLineConsumed =? stDescending) || (stLineConsumed =? stDescendTerminated)) with false. cbv iota.
  cbv zeta. change (stLineConsumed =? stOpening) with false. cbv iota. rewrite Dq.
  unfold FS, Mc. cbn [root lineStart li withCont closeLastChildAt withRoot setLP].
  fold (CLf (bheight (root q)) (source q) (lineStart q + li q)). rewrite Eq.
  eapply (Fb_mono (lineStart p + li p) (lineStart p)); [lia|lia|].
  apply (collect_close_F p kind n d (lineStart p + li q) q); try assumption.
  - destruct Hs as [E|E]; rewrite E; reflexivity.
  - lia.
  - intros c Ec. destruct (GI_wf p HG) as (x & Ex & Ho). rewrite Hd in Ex. rewrite Ex in Ec. inversion Ec; subst x. exact Ho.
  - apply same_consumeLine.
Qed.

(* ---- the block starts ---- *)
Definition startF (f : lp -> lp) : Prop := forall p, st_open p -> CUR p -> GI p -> FS p ->
  FS (f p) \/ (state (f p) = stLineConsumed /\ FSH (f p) /\ noKids (f p)).

Ltac fchain :=
  repeat match goal with
  | |- FS (consumeLine ?q) => apply FS_consumeLine; [cchainC|]
  | |- FS (advance _ _) => apply FS_advance
  | |- FS (consumeIndent _ _) => apply FS_consumeIndent
  | |- FS (endBlock ?q) => apply FS_endBlock; [cchainC|]
  | |- FS (openBlock ?q _) => apply FS_openBlock; [cchainC|]
  | |- FS (updCont _ (fun b => set_bn _ _)) => apply FS_updCont_ext; [intros ?x; destruct x; repeat split|]
  | |- FS (updCont _ (fun b => set_bchar _ _)) => apply FS_updCont_ext; [intros ?x; destruct x; repeat split|]
  | |- FS (updCont _ (fun b => set_bindent _ _)) => apply FS_updCont_ext; [intros ?x; destruct x; repeat split|]
  | |- FS (updCont _ (fun b => set_bn (set_bchar _ _) _)) => apply FS_updCont_ext; [intros ?x; destruct x; repeat split|]
  end.

Lemma F_startBlockQuote : startF startBlockQuote.
Proof.
  intros p Hs HC HI HW. left. unfold startBlockQuote. cbv zeta.
  destruct (_ <=? _); [assumption|]. destruct (negb _); [assumption|]. destruct (0 <? _); fchain; exact HW.
Qed.
Lemma F_startThematic : startF startThematic.
Proof.
  intros p Hs HC HI HW. left. unfold startThematic. cbv zeta.
  destruct (_ <=? _); [assumption|]. destruct (_ <? 0); [assumption|]. fchain; exact HW.
Qed.
Lemma F_startIndented : startF startIndented.
Proof. intros p Hs HC HI HW. left. unfold startIndented. destruct (_ || _ || _); [assumption|]. fchain; exact HW. Qed.
Lemma F_startListItem : startF startListItem.
Proof.
  intros p Hs HC HI HW. left. unfold startListItem. cbv zeta. destruct (_ <=? _); [assumption|].
  destruct (parseListMarker _) as [[delim n] mend]. destruct (_ || _); [assumption|]. destruct (_ && _); [assumption|].
  match goal with |- context [endBlock ?X] => assert (H1 : FS (endBlock X) /\ CUR (endBlock X)) end.
  { split.
    - destruct (negb _ || negb _); fchain; exact HW.
    - destruct (negb _ || negb _); cchainC. }
  match goal with |- context [endBlock ?X] => set (q := endBlock X) in * end. destruct H1 as [H1 C1].
  destruct (isRestBlank q); [fchain; exact H1|].
  destruct (indent q <? 1); [fchain; exact H1|]. destruct (4 <? indent q); fchain; exact H1.
Qed.


Lemma F_startATX : startF startATX.
Proof.
  intros p Hs HC HI HW. left. unfold startATX. cbv zeta. destruct (_ <=? _); [assumption|].
  destruct (parseATXHeading _) as [[level cs] ce] eqn:Ep. destruct (level <? 1) eqn:El; [assumption|].
  apply Z.ltb_ge in El. pose proof (atx_level_le _ _ _ _ Ep) as Hl.
  set (p1 := consumeIndent p (indent p)).
  assert (Hs1 : st_open p1) by (apply st_open_consumeIndent, Hs).
  set (p4 := advance (updCont (openBlock p1 ATXHeadingKind) (fun b => set_bn b level)) cs).
  assert (HI4 : GI p4).
  { apply GI_advance, GI_openBlock_init; [exact Hs1|apply GI_consumeIndent, HI|discriminate|discriminate|].
    intros pos. split; [reflexivity|]. split; [reflexivity|]. split; [apply gb_newATX; lia|reflexivity]. }
  assert (Hc4 : ckind p4 ATXHeadingKind).
  { eapply ckind_same; [apply same_advance|]. apply ckind_updCont; [intros b; destruct b; reflexivity|]. apply ckind_openBlock, Hs1. }
  assert (HC4 : CUR p4) by (unfold p4, p1; cchainC).
  assert (HW4 : FS p4) by (unfold p4, p1; fchain; exact HW).
  assert (Hs4 : st_open p4) by (apply st_open_advance, st_open_updCont, st_open_openBlock, Hs1).
  apply (F_collect_end p4 UnparsedKind (ce - cs) ATXHeadingKind Hs4 HC4 HI4 Hc4); [discriminate|exact HW4].
Qed.

Lemma F_startHTML : startF startHTML.
Proof.
  intros p Hs HC HI HW. left. unfold startHTML. cbv zeta. destruct (_ <=? _); [assumption|].
  destruct (negb _); [assumption|]. destruct (_ <? 0); [assumption|]. destruct (negb _ && _); [assumption|].
  match goal with |- context [endBlock (consumeLine (collectInline ?Q _ _))] => set (q := Q) end.
  assert (Hq : GI q).
  { unfold q. apply GI_openBlock_init; [exact Hs|exact HI|discriminate|discriminate|].
    intros pos. repeat split; reflexivity. }
  assert (HCq : CUR q) by (unfold q; cchainC).
  assert (HWq : FS q) by (unfold q; fchain; exact HW).
  assert (Hsq : st_open q) by (apply st_open_updCont, st_open_openBlock, Hs).
  assert (Hcq : ckind q HTMLBlockKind) by (unfold q; apply ckind_updCont; [intros b; destruct b; reflexivity|]; apply ckind_openBlock, Hs).
  destruct (htmlEnd _ _); [|exact HWq].
  apply (F_collect_end q RawHTMLKind _ HTMLBlockKind Hsq HCq Hq Hcq); [discriminate|exact HWq].
Qed.

Lemma F_startFenced : startF startFenced.
Proof.
  intros p Hs HC HI HW. unfold startFenced. cbv zeta. destruct (_ <=? _); [left; assumption|].
  destruct (parseCodeFence _) as [[[fc fnn] is_] ie]. destruct (fnn =? 0); [left; assumption|].
  set (p1 := consumeIndent p (indent p)).
  assert (Hs1 : st_open p1) by (apply st_open_consumeIndent, Hs).
  match goal with |- context [consumeLine (if _ then collectInline (advance ?Q _) _ _ else _)] => set (q := Q) end.
  assert (Hq : GI q).
  { unfold q. apply GI_updCont_bindent.
    apply GI_openBlock_init; [exact Hs1|apply GI_consumeIndent, HI|discriminate|discriminate|].
    intros pos. repeat split; reflexivity. }
  assert (HCq : CUR q) by (unfold q, p1; cchainC).
  assert (HWq : FS q) by (unfold q, p1; fchain; exact HW).
  assert (Hsq : st_open q) by (apply st_open_updCont, st_open_updCont, st_open_openBlock, Hs1).
  assert (Hcq : ckind q FencedCodeBlockKind).
  { unfold q. apply ckind_updCont; [intros b; destruct b; reflexivity|]. apply ckind_updCont; [intros b; destruct b; reflexivity|].
    apply ckind_openBlock, Hs1. }
  destruct (spanValid _); [|left; apply FS_consumeLine; assumption].
  right. set (q2 := collectInline (advance q is_) InfoStringKind (ie - is_)).
  assert (Hs2 : st_open q2) by (apply st_open_collectInline, st_open_advance, Hsq).
  split; [apply state_consumeLine_open, Hs2|]. split.
  - apply (FSH_tree q2); [apply same_consumeLine|apply (env_src _ _ (env_consumeLine q2))|apply (env_src _ _ (env_consumeLine q2))|].
    apply FSH_collectInline; [apply CUR_advance, HCq|pose proof (st_open_advance q is_ Hsq) as [E|E]; rewrite E; reflexivity|apply GI_advance, Hq|apply FS_advance, HWq].
  - apply (noKids_leaf _ FencedCodeBlockKind); [| |intros k; reflexivity].
    + apply GI_consumeLine. eapply (GI_collectInline _ _ _ FencedCodeBlockKind); [apply GI_advance, Hq| |reflexivity].
      eapply ckind_same; [apply same_advance|exact Hcq].
    + eapply ckind_same; [apply same_consumeLine|]. apply ckind_collectInline. eapply ckind_same; [apply same_advance|exact Hcq].
Qed.

(* the setext underline: the kind of the container changes (a paragraph is never a definition) *)
Lemma F_startSetext : startF startSetext.
Proof.
  intros p Hs HC HI HW. left. unfold startSetext. cbv zeta.
  destruct (negb (containerKind p =? ParagraphKind)) eqn:Ek; [assumption|].
  destruct (_ <=? _); [assumption|].
  destruct (parseSetextHeadingUnderline (bytesAfterIndent p) =? 0) eqn:E0; [assumption|].
  destruct (negb (containerHasParagraphContent p)); [assumption|].
  apply negb_false_iff, Z.eqb_eq in Ek.
  set (level := parseSetextHeadingUnderline (bytesAfterIndent p)).
  set (g := fun b : block => set_bn (set_bkind b SetextHeadingKind) level).
  set (g2 := fun b : block => if bkind b =? ParagraphKind then g b else b).
  assert (Eg : updCont p g = updCont p g2).
  { unfold updCont. f_equal. apply updAt_ext_at. intros x Hx. unfold g2.
    rewrite (ckind_self p x Hx), Ek. reflexivity. }
  rewrite Eg. fchain.
  unfold FS, updCont, Mc. cbn [root lineStart li withRoot setLP].
  apply Fb_updAt; [|exact HW]. intros x Hx. unfold g2, g. destruct (Z.eqb_spec (bkind x) ParagraphKind) as [E|N]; [|exact Hx].
  apply Fb_ex; [destruct x; reflexivity|]. apply Fb_parts in Hx. destruct x; apply Hx.
Qed.

Lemma blockStarts_F : Forall startF blockStarts.
Proof.
  unfold blockStarts.
  repeat (apply Forall_cons; [first [exact F_startBlockQuote|exact F_startATX|exact F_startFenced|exact F_startHTML|exact F_startSetext|exact F_startThematic|exact F_startListItem|exact F_startIndented]|]).
  apply Forall_nil.
Qed.
