From Coq Require Import List ZArith Lia Bool.
Import ListNotations.
Require Import Base Tables Utf8 Tree Rdr Link Collect Html Recog Inl3a Inl3b Inl3c Inl3d Inl3e Driver Props Leaf3a.
Require Import SpanForest SpanTok SpanRdr SpanBridge InlineSpans.
Require Import CoverLeaves CoverBlocks CoverEmph CoverUpos CoverTok CoverCollect CoverCode CoverScan CoverFuel CoverLink.
Open Scope Z_scope.

(* ================================================================================================
   T41: property C03 at the inline level.

   (1) NO DUPLICATION (CoverLeaves.forest_cover_le1, CoverBlocks.parseInlines_no_dup, CoverBlocks.C03_no_dup_partial):
       under entriesOK no position lies in two leaves of parseInlines src matcher b.

   (2) COVERAGE: under entriesOK *and colsOK* every textual byte of an Unparsed entry lies in exactly one leaf.
       The statement with entriesOK alone is false (parseInlines_coverage_refuted below): the model gives the
       scanners of a link tail the fuel 2 * len src + 10 (Inl3e.rfuelOf), an Indent entry costs up to four steps
       for one byte, and a list with many consecutive Indent entries lets lt_loop (the title scanner) stop for
       want of fuel exactly on a closing parenthesis, so that the model -- not the Go code, whose loop has no bound -- forms a link
       whose tail leaves bytes uncovered.  colsOK src U says that the Indent entries stand for at most
       len src + 8 columns altogether; the block layer gives an Indent entry (at most 3 columns) only in front
       of a non-blank line, so its output satisfies it (checked on the test documents in CoverTest.v).
   ================================================================================================ *)

Definition parseInlines_coverage_statement : Prop :=
  forall src matcher b, entriesOK src b = true ->
  forall u, In u (bik b) -> ikind u = UnparsedKind ->
  forall p, istart u <= p < iend u -> textual (at_ src p) = true ->
  cover (flat_map leavesI (parseInlines src matcher b)) p = 1.

(* the four coverage specifications of the scanners *)
Theorem cover_scanner_specs src U lo hi : EC src U lo hi -> colsOK src U = true ->
  CSpecHTML src U /\ CSpecCode src U /\ CSpecInline src U /\ CSpecLabel src U.
Proof.
  intros H HC. split; [apply (CSpecHTML_holds src U lo hi H)|]. split; [apply (CSpecCode_holds src U lo hi H)|].
  split; [apply (CSpecInline_holds src U lo hi H HC)|apply (CSpecLabel_holds src U lo hi H)].
Qed.
Print Assumptions cover_scanner_specs.

Theorem parseInlines_coverage_partial : forall src matcher b, entriesOK src b = true -> colsOK src (bik b) = true ->
  forall u, In u (bik b) -> ikind u = UnparsedKind ->
  forall p, istart u <= p < iend u -> textual (at_ src p) = true ->
  cover (flat_map leavesI (parseInlines src matcher b)) p = 1.
Proof.
  intros src matcher b H HC u Hu Ek p Hp Ht.
  pose proof (parseInlines_no_dup src matcher b H p) as Hle.
  enough (1 <= cover (flat_map leavesI (parseInlines src matcher b)) p) by lia.
  assert (HN : bik b <> []) by (intros E; rewrite E in Hu; exact Hu).
  assert (HS : ~ singleEmpty (bik b)).
  { intros (v & Ev & Ee). rewrite Ev in Hu. destruct Hu as [Hu|[]]. subst v. lia. }
  pose proof (entriesOK_EC src b H HN HS) as HEC.
  destruct (cover_scanner_specs src (bik b) _ _ HEC HC) as (S1 & S2 & S3 & S4).
  unfold parseInlines. apply covF_cover.
  apply (parseInlines_covF src (bik b) _ _ (bend b) HEC S1 S2 S3 S4 matcher p).
  split; [|exact Ht].
  destruct (In_nth _ _ (mkI 0 0 0) Hu) as (n & Hn & En).
  exists (Z.of_nat n). unfold nthU, len. rewrite Nat2Z.id, En. split; [lia|]. split; [exact Ek|exact Hp].
Qed.
Print Assumptions parseInlines_coverage_partial.

(* both halves of C03 for one leaf block *)
Theorem parseInlines_C03 : forall src matcher b, entriesOK src b = true ->
  (forall p, cover (flat_map leavesI (parseInlines src matcher b)) p <= 1) /\
  (colsOK src (bik b) = true ->
   forall u, In u (bik b) -> ikind u = UnparsedKind ->
   forall p, istart u <= p < iend u -> textual (at_ src p) = true ->
   cover (flat_map leavesI (parseInlines src matcher b)) p = 1).
Proof.
  intros src matcher b H. split; [apply parseInlines_no_dup; exact H|apply parseInlines_coverage_partial; exact H].
Qed.
Print Assumptions parseInlines_C03.

(* ---- the statement without colsOK is false: 20 consecutive Indent entries between the opening quote of a
        title and a closing parenthesis that stands exactly where the fuel of the title scanner ends ----
   source: [a](x QUOTE LF, 20 tabs, 14 times y, then a closing parenthesis;    entries: [0,8) Unparsed, 20 Indent entries of 3 columns, [28,43) Unparsed *)
Definition cx_src : bytes := [91; 97; 93; 40; 120; 32; 34; 10] ++ repeat 9 20 ++ repeat 121 14 ++ [41].
Definition cx_block : block :=
  Blk ParagraphKind 0 (len cx_src) []
      ([Inl UnparsedKind 0 8 0 [] []] ++ map (fun i => Inl IndentKind (8 + Z.of_nat i) (9 + Z.of_nat i) 3 [] []) (seq 0 20) ++
       [Inl UnparsedKind 28 (len cx_src) 0 [] []]) 0 0 0 false false.
Lemma cx_entriesOK : entriesOK cx_src cx_block = true. Proof. vm_compute. reflexivity. Qed.
Lemma cx_not_colsOK : colsOK cx_src (bik cx_block) = false. Proof. vm_compute. reflexivity. Qed.
Theorem parseInlines_coverage_refuted : ~ parseInlines_coverage_statement.
Proof.
  intros H.
  specialize (H cx_src [] cx_block cx_entriesOK (Inl UnparsedKind 28 (len cx_src) 0 [] [])).
  specialize (H ltac:(vm_compute; tauto) eq_refl 28 ltac:(vm_compute; split; [discriminate|reflexivity]) eq_refl).
  vm_compute in H. discriminate.
Qed.
Print Assumptions parseInlines_coverage_refuted.
