(* QLnDefs.v -- T64 (renderer), towards QRenderDefs.lineOK for every input: byte ranges, the bytes of a character reference.
   rng P B s e : every byte of B at a position in [s, e) satisfies P.
   crb         : the bytes a character reference is made of (& # ; letters digits): in particular neither NUL nor a line feed. *)
From Coq Require Import List ZArith Lia Bool.
Import ListNotations.
Require Import Base Tables Utf8 Tree Rdr Link Collect ShapesBase ShapesA.
Open Scope Z_scope.

Definition rng (P : Z -> bool) (B : bytes) (s e : Z) : bool :=
  forallb (fun i => P (at_ B (s + Z.of_nat i))) (seq 0 (Z.to_nat (e - s))).
Lemma rng_spec P B s e : rng P B s e = true <-> (forall x, s <= x < e -> P (at_ B x) = true).
Proof.
  unfold rng. rewrite forallb_forall. split.
  - intros H x Hx. specialize (H (Z.to_nat (x - s))). replace (s + Z.of_nat (Z.to_nat (x - s))) with x in H by lia. apply H.
    apply in_seq. lia.
  - intros H i Hi. apply in_seq in Hi. apply H. lia.
Qed.
Lemma rng_sub P B s e s' e' : s <= s' -> e' <= e -> rng P B s e = true -> rng P B s' e' = true.
Proof. intros A C H. rewrite rng_spec in *. intros x Hx. apply H. lia. Qed.
Lemma rng_empty P B s e : e <= s -> rng P B s e = true.
Proof. intros H. apply rng_spec. intros x Hx. lia. Qed.
Lemma rng_ext P B B' s e : (forall x, s <= x < e -> P (at_ B x) = true -> P (at_ B' x) = true) -> rng P B s e = true -> rng P B' s e = true.
Proof. intros Hx H. rewrite rng_spec in *. intros x Hr. apply Hx; [exact Hr|apply H, Hr]. Qed.

Definition crb (c : Z) : bool := isASCIILetter c || isASCIIDigit c || (c =? 38) || (c =? 35) || (c =? 59).
Definition nlf (c : Z) : bool := negb (c =? 10).
Lemma crb_nz c : crb c = true -> c <> 0.
Proof. intros H ->. discriminate H. Qed.
Lemma crb_nlf c : crb c = true -> nlf c = true.
Proof.
  unfold crb, nlf, isASCIILetter, isASCIIDigit. intros H. destruct (Z.eqb_spec c 10) as [->|N]; [discriminate H|reflexivity].
Qed.
Lemma isHex_crb c : isHex c = true -> crb c = true.
Proof.
  unfold isHex, crb, isASCIILetter. intros H. apply orb_true_iff in H. destruct H as [H|H]; [|rewrite H; rewrite !orb_true_r; reflexivity].
  apply orb_true_iff in H. destruct H as [H|H]; apply andb_true_iff in H; destruct H as [A C]; apply Z.leb_le in A, C.
  - replace ((97 <=? c) && (c <=? 122)) with true by (symmetry; apply andb_true_iff; split; apply Z.leb_le; lia). rewrite orb_true_r. reflexivity.
  - replace ((65 <=? c) && (c <=? 90)) with true by (symmetry; apply andb_true_iff; split; apply Z.leb_le; lia). reflexivity.
Qed.

(* ---- the bytes of a recognised character reference ---- *)
Theorem parseCharacterEscape_crb t e : parseCharacterEscape t = e -> 0 <= e -> forall i, 0 <= i < e -> crb (at_ t i) = true.
Proof.
  intros H He i Hi. unfold parseCharacterEscape in H.
  destruct (Z.ltb_spec (len t) 3) as [L|L]; cbn [orb] in H; [lia|].
  destruct (Z.eqb_spec (at_ t 0) 38) as [E0|E0]; cbn [negb] in H; [|lia].
  destruct (Z.eq_dec i 0) as [->|N0]; [rewrite E0; reflexivity|].
  destruct (Z.eqb_spec (at_ t 1) 35) as [E1|E1]; cbn [negb] in H.
  - destruct (Z.eq_dec i 1) as [->|N1]; [rewrite E1; reflexivity|].
    destruct ((at_ t 2 =? 120) || (at_ t 2 =? 88)) eqn:Ex.
    + destruct (pce_num_shape _ _ _ _ _ H He ltac:(lia) ltac:(lia)) as (j & Hj & -> & Hp & Hat & Hall).
      rewrite len_upto, len_from in Hj by lia.
      destruct (Z.eq_dec i 2) as [->|N2].
      { apply orb_true_iff in Ex. destruct Ex as [Ex|Ex]; apply Z.eqb_eq in Ex; rewrite Ex; reflexivity. }
      destruct (Z.eq_dec i (3 + j)) as [->|N3].
      { rewrite at_upto, at_from in Hat by lia. rewrite Hat. reflexivity. }
      specialize (Hall (i - 3) ltac:(lia)). rewrite at_upto, at_from in Hall by lia. replace (3 + (i - 3)) with i in Hall by lia. apply isHex_crb, Hall.
    + destruct (pce_num_shape _ _ _ _ _ H He ltac:(lia) ltac:(lia)) as (j & Hj & -> & Hp & Hat & Hall).
      rewrite len_upto, len_from in Hj by lia.
      destruct (Z.eq_dec i (2 + j)) as [->|N3].
      { rewrite at_upto, at_from in Hat by lia. rewrite Hat. reflexivity. }
      specialize (Hall (i - 2) ltac:(lia)). rewrite at_upto, at_from in Hall by lia. replace (2 + (i - 2)) with i in Hall by lia.
      unfold crb. rewrite Hall. rewrite !orb_true_r. reflexivity.
  - destruct (pce_named_shape _ _ _ _ H He ltac:(lia)) as (j & Hj & -> & Hp & Hat & Hall).
    rewrite len_from in Hj by lia.
    destruct (Z.eq_dec i (1 + j)) as [->|N3].
    { rewrite at_from in Hat by lia. rewrite Hat. reflexivity. }
    specialize (Hall (i - 1) ltac:(lia)). rewrite at_from in Hall by lia. replace (1 + (i - 1)) with i in Hall by lia.
    unfold crb. apply orb_true_iff in Hall. destruct Hall as [Hl|Hl]; rewrite Hl; rewrite ?orb_true_r; reflexivity.
Qed.
Print Assumptions parseCharacterEscape_crb.

Lemma charref_crb (src : bytes) p lim en : 0 <= p -> parseCharacterEscape (sub src p lim) = en -> 0 <= en -> rng crb src p (p + en) = true.
Proof.
  intros Hp H He. destruct (parseCharacterEscape_shape _ en H He) as (_ & _ & _ & A3).
  pose proof (len_sub_le src p lim) as Hl. apply rng_spec. intros x Hx.
  pose proof (parseCharacterEscape_crb _ en H He (x - p) ltac:(lia)) as G. rewrite at_sub in G by lia. replace (p + (x - p)) with x in G by lia. exact G.
Qed.
