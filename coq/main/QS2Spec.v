(* QS2Spec.v -- T58: the map MO2 of the simulation theorem QS2Drv4.parseBlocks_quote_sim2 is the map qB of the statement (QuoteSimDefs),
   on every root block of a document without tab, CR and NUL, including the link reference definition blocks:
   the children of a label / destination / title entry (Text nodes that may span several lines, and character references) are
   mapped by QRdrCollect.qK, whose cuts are QuoteSimDefs.splitAt (QCuts.cuts_splitAt). *)
From Coq Require Import List ZArith Lia Bool.
Import ListNotations.
Require Import Base Tree LP Driver Props SliceBase L2BndS BShDef BlockShapes LADef LA1 LA12 SpanHypDef DefSpans DefSpansOcp DefSpansWalk DefSpansDrv
  QuoteSimDefs QuoteSimNest QuoteSimMap QuoteSimReloc QuoteSimAux QuoteSimLines QuoteSimDrv1 QuoteSimDrv2 QuoteSimSpec
  QCutsDef QCuts QRdrCollect QRdrOcp QS2Reloc QS2Drv1 QS2Drv2 QS2Drv4.
Open Scope Z_scope.

Section Ent2.
  Variables (D : bytes) (o : Z).
  Hypothesis D_cr : noCR D.
  Hypothesis o_nonneg : 0 <= o.

  Lemma D_cr_at : forall x, 0 <= x < len D -> at_ D x <> 13.
  Proof. intros x Hx. apply (Forall_at (fun c => c <> 13)); [exact D_cr|exact Hx]. Qed.

  (* a child of a link part: a node without children *)
  Lemma qK_qI c : 0 <= istart c <= iend c -> iend c + o <= len D -> ikids c = [] ->
    qI D (shiftI o c) = QRdrCollect.qK (from_ D o) (sgO D o) c.
  Proof.
    intros Hse He Hk. destruct c as [k s e ind rf kids]. cbn [istart iend ikids] in *. subst kids. cbn [shiftI map qI flat_map]. cbv zeta.
    destruct (Z.leb_spec 0 e); [|lia]. unfold QRdrCollect.qK.
    replace (s + o <? e + o) with (s <? e) by (destruct (Z.ltb_spec s e), (Z.ltb_spec (s + o) (e + o)); lia || reflexivity).
    destruct ((k =? TextKind) && (s <? e)) eqn:Et.
    - apply andb_true_iff in Et. destruct Et as [_ Et]. apply Z.ltb_lt in Et.
      replace (Z.to_nat (e + o - (s + o))) with (Z.to_nat (e - s)) by lia.
      pose proof (cuts_splitAt D (s + o) (e + o) D_cr_at ltac:(lia) ltac:(lia) He) as E1. replace (e + o - (s + o)) with (e - s) in E1 by lia. rewrite <- E1.
      pose proof (cuts_shift D o (s + o) (e + o) ltac:(lia)) as E2. replace (s + o - o) with s in E2 by lia. replace (e + o - o) with e in E2 by lia.
      rewrite E2, map_map. apply map_ext_in. intros p Hp. cbn [fst snd].
      destruct (cuts_bounds D (s + o) (e + o) p ltac:(lia) Hp) as (B1 & B2 & B3).
      rewrite !QuoteSimSpec.sgO_nn by lia. replace (o + (fst p - o)) with (fst p) by lia. replace (o + (snd p - o - 1)) with (snd p - 1) by lia.
      unfold epsilon. destruct (Z.ltb_spec (snd p) 0); [lia|]. destruct (Z.ltb_spec (fst p) (snd p)); [reflexivity|lia].
    - replace (s + o) with (o + s) by lia. unfold epsilon. destruct (Z.ltb_spec (e + o) 0); [lia|].
      destruct (Z.ltb_spec s e); destruct (Z.ltb_spec (o + s) (e + o)); try lia.
      + rewrite !QuoteSimSpec.sgO_nn by lia. replace (o + (e - 1)) with (e + o - 1) by lia. reflexivity.
      + rewrite !QuoteSimSpec.sgO_nn by lia. reflexivity.
  Qed.

  (* a label / destination / title entry *)
  Lemma lpO_qI u : QuoteSimMap.isLinkPart (ikind u) = true -> 0 <= istart u <= iend u ->
    Forall (fun c => 0 <= istart c <= iend c /\ iend c + o <= len D /\ ikids c = []) (ikids u) ->
    qI D (shiftI o u) = [lpO D o u].
  Proof.
    intros Hk Hse Hkids. destruct u as [k s e ind rf kids]. cbn [istart iend ikids ikind] in *. cbn [shiftI qI]. cbv zeta.
    destruct (Z.leb_spec 0 e); [|lia].
    assert (Ent : (k =? TextKind) = false).
    { unfold QuoteSimMap.isLinkPart in Hk. destruct (Z.eqb_spec k TextKind) as [->|_]; [discriminate Hk|reflexivity]. }
    rewrite Ent. cbn [andb]. unfold lpO. replace (s + o) with (o + s) by lia. f_equal. f_equal.
    - rewrite QuoteSimSpec.sgO_nn by lia. reflexivity.
    - unfold epsilon, QRdrOcp.epsG. destruct (Z.ltb_spec (e + o) 0); [lia|]. destruct (Z.ltb_spec e 0); [lia|].
      destruct (Z.ltb_spec s e); destruct (Z.ltb_spec (o + s) (e + o)); try lia.
      + rewrite QuoteSimSpec.sgO_nn by lia. replace (o + (e - 1)) with (e + o - 1) by lia. reflexivity.
      + rewrite QuoteSimSpec.sgO_nn by lia. reflexivity.
    - clear -Hkids D_cr o_nonneg. induction kids as [|c r IH]; [reflexivity|]. inversion Hkids as [|? ? (C1 & C2 & C3) Hr]; subst.
      cbn [map flat_map]. rewrite (IH Hr). f_equal. apply qK_qI; assumption.
  Qed.

  Lemma MO2_qB sD sQ M : len sD <= len D - o -> M <= len sD ->
    forall b, nnB b -> QS2Reloc.ceB0 sD sQ (sgO D o) b -> la sD M b -> invD b = true -> MO2 D o b = qB D (shiftB o b).
  Proof.
    intros HsD HM. apply (QS2Reloc.block_kids_ind2 (fun b => nnB b -> QS2Reloc.ceB0 sD sQ (sgO D o) b -> la sD M b -> invD b = true -> MO2 D o b = qB D (shiftB o b))).
    intros b IH Hn Hc Hla Hinv.
    apply nnB_eq in Hn. destruct Hn as (N1 & N2 & N3). apply QS2Reloc.ceB0_eq in Hc. destruct Hc as (Ci & _ & L4 & Ck).
    apply la_eq in Hla. destruct Hla as (B1 & B2 & _ & _ & Hlk). apply QuoteSimDrv2.allQ_Forall in Hlk.
    apply invD_parts in Hinv. destruct Hinv as [Hloc Hik]. unfold invDL in Hik. rewrite forallb_forall in Hik.
    destruct b as [k s e bk ik a n c l lb0]. cbn [bstart bend bkids bik bkind] in *. unfold MO2. cbn [rB shiftB qB].
    destruct (Z.leb_spec 0 e); [|lia]. f_equal.
    - rewrite QuoteSimSpec.sgO_nn by lia. f_equal. lia.
    - unfold eBO. destruct (Z.ltb_spec e 0); [lia|]. f_equal. lia.
    - rewrite map_map. apply map_ext_in. intros x Hx. unfold QS2Reloc.ceL0 in Ck. rewrite Forall_forall in N3, Ck, Hlk. apply (IH x Hx (N3 x Hx) (Ck x Hx) (Hlk x Hx) (Hik x Hx)).
    - rewrite flat_map_concat_map, map_map.
      assert (Ek : map (fun x => qI D (shiftI o x)) ik = map (fun x => [rI (sgO D o) (lpO D o) x]) ik).
      { apply map_ext_in. intros u Hu. destruct (Z.eq_dec k LinkReferenceDefinitionKind) as [Ek|Nk].
        - (* a definition block *)
          rewrite Forall_forall in L4. destruct (L4 u Hu) as [Lk Lp]. specialize (Lp Ek). specialize (Lk Lp). unfold rI. rewrite Lp.
          unfold locD in Hloc. cbn [bkind bstart bend bik] in Hloc. rewrite Ek in Hloc. change (LinkReferenceDefinitionKind =? LinkReferenceDefinitionKind) with true in Hloc. cbn [negb orb] in Hloc.
          destruct (Z.leb_spec 0 s) as [_|]; [|lia]. cbn [negb orb] in Hloc. apply andb_true_iff in Hloc. destruct Hloc as [Hloc HD]. apply andb_true_iff in Hloc. destruct Hloc as [_ HO].
          assert (Hvs : forall x, In x ik -> istart x <= iend x).
          { intros x Hx. rewrite forallb_forall in HD. specialize (HD x Hx). unfold entD in HD. apply andb_true_iff in HD. destruct HD as [HD _]. apply andb_true_iff in HD. destruct HD as [HD _]. apply Z.leb_le, HD. }
          destruct (ordX_In _ _ _ u HO Hvs Hu) as [P1 P2]. specialize (Hvs u Hu).
          rewrite forallb_forall in HD. specialize (HD u Hu). unfold entD in HD. apply andb_true_iff in HD. destruct HD as [HD HV]. apply andb_true_iff in HD. destruct HD as [_ HOk].
          assert (Hev : forall x, In x (ikids u) -> istart x <= iend x) by (intros x Hx; rewrite forallb_forall in HV; specialize (HV x Hx); unfold vkid in HV; apply Z.leb_le, HV).
          apply lpO_qI; [exact Lp|lia|]. rewrite Forall_forall in *. intros c0 Hc0.
          destruct (ordX_In _ _ _ c0 HOk Hev Hc0) as [Q1 Q2]. specialize (Hev c0 Hc0).
          split; [lia|]. split; [|apply Lk, Hc0]. destruct B2 as [B2|[B2 _]]; lia.
        - specialize (Ci Nk). rewrite Forall_forall in Ci. pose proof (Ci u Hu) as Hcu. rewrite (rI_qI D o D_cr o_nonneg sD sQ u HsD Hcu).
          destruct Hcu as (Hlp & _). unfold rI. rewrite Hlp. reflexivity. }
      rewrite Ek. clear. induction ik as [|u ik IH]; [reflexivity|]. cbn [map concat app]. rewrite <- IH. reflexivity.
  Qed.
End Ent2.

(* ---- the statement of QuoteSimDefs for every document without tab, CR and NUL, up to the lastLineBlank flag of the top-level children ---- *)
Theorem parseBlocks_quote_partial : forall D, tabFree D -> D <> [] ->
  exists lb kidsQ, parseBlocks (quote D) = ([quoteRoot D lb kidsQ], 0) /\ map er kidsQ = map er (quoteKids D (fst (parseBlocks D))).
Proof.
  intros D HT Hne.
  assert (H9 : noTab D) by (unfold tabFree in HT; unfold noTab; eapply Forall_impl; [|exact HT]; cbv beta; tauto).
  assert (H13 : noCR D) by (unfold tabFree in HT; unfold noCR; eapply Forall_impl; [|exact HT]; cbv beta; tauto).
  assert (H0 : noNul D) by (unfold tabFree in HT; unfold noNul; eapply Forall_impl; [|exact HT]; cbv beta; tauto).
  destruct (parseBlocks_quote_sim2 D H9 H13 H0 Hne) as (lb & kidsQ & E & K & G). exists lb, kidsQ. split; [exact E|].
  rewrite K, er_quoteKids. f_equal. unfold QS2Drv4.doneOf.
  assert (Hz : forallb (fun c => negb (c =? 0)) D = true).
  { apply forallb_forall. intros c Hc. unfold noNul in H0. rewrite Forall_forall in H0. apply negb_true_iff, Z.eqb_neq, H0, Hc. }
  pose proof (parseBlocks_block_shapes_partial D Hz) as HS.
  apply map_ext_in. intros r Hr. rewrite Forall_forall in G, HS. destruct (G r Hr) as (Go & sD & sQ & M & Gl & GM & Gc & Gla & Ginv & _).
  apply (MO2_qB D (rb_start r) H13 Go sD sQ M Gl GM); [apply (bshapes_nnB (rb_src r)), HS, Hr|exact Gc|exact Gla|exact Ginv].
Qed.
Print Assumptions parseBlocks_quote_partial.
