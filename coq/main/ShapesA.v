From Coq Require Import List ZArith Lia Bool.
Import ListNotations.
Require Import Base Tables Utf8 Tree Rdr Link Collect Html Recog Inl3a Inl3b Inl3c Inl3d Inl3e Props ShapesBase.
Open Scope Z_scope.

(* ================================================================ (4) parseHardLineBreakSpace *)
Definition isSpEol (c : Z) : bool := (c =? 32) || (c =? 10) || (c =? 13).

Lemma hlb_rest_true : forall l i e, hlb_rest l i = (e, true) -> e = i + len l /\ forallb isSpEol l = true.
Proof.
  induction l as [|c r IH]; intros i e H; cbn [hlb_rest] in H.
  - inversion H; subst. rewrite len_nil. split; [lia|reflexivity].
  - fold (isSpEol c) in H. destruct (isSpEol c) eqn:Ec; [|discriminate].
    apply IH in H. destruct H as [-> Hr]. rewrite len_cons. cbn [forallb]. rewrite Ec, Hr. split; [lia|reflexivity].
Qed.
Lemma hlb_rest_conv : forall l i, forallb isSpEol l = true -> hlb_rest l i = (i + len l, true).
Proof.
  induction l as [|c r IH]; intros i H; cbn [hlb_rest].
  - rewrite len_nil. f_equal. lia.
  - cbn [forallb] in H. apply andb_true_iff in H. destruct H as [Hc Hr]. fold (isSpEol c). rewrite Hc.
    rewrite IH by exact Hr. rewrite len_cons. f_equal. lia.
Qed.

(* exactly what the function reports as "hard": the WHOLE remaining text is two spaces followed only by
   spaces / LF / CR, and the reported length is the whole remaining text.  (The function does not itself
   check that a line ending is present: "  " alone is reported hard; the caller excludes the last span.) *)
Theorem parseHardLineBreakSpace_hard_iff rem e :
  parseHardLineBreakSpace rem = (e, true) <->
  exists r, rem = 32 :: 32 :: r /\ forallb isSpEol r = true /\ e = len rem.
Proof.
  split.
  - intros H. unfold parseHardLineBreakSpace in H.
    destruct rem as [|c0 rem]; [discriminate|].
    destruct (Z.eq_dec c0 32) as [->|N0].
    2:{ exfalso. destruct c0 as [|p|p]; try discriminate.
        do 6 (destruct p as [p|p|]; try discriminate). congruence. }
    destruct rem as [|c1 rem]; [discriminate|].
    destruct (Z.eq_dec c1 32) as [->|N1].
    2:{ exfalso. destruct c1 as [|p|p]; try discriminate.
        do 6 (destruct p as [p|p|]; try discriminate). congruence. }
    apply hlb_rest_true in H. destruct H as [-> Hr]. exists rem. rewrite !len_cons. repeat split; [exact Hr|lia].
  - intros (r & -> & Hr & ->). cbn [parseHardLineBreakSpace]. rewrite hlb_rest_conv by exact Hr.
    rewrite !len_cons. f_equal. lia.
Qed.

Theorem parseHardLineBreakSpace_shape rem e :
  parseHardLineBreakSpace rem = (e, true) ->
  e = len rem /\ 2 <= e /\ at_ rem 0 = 32 /\ at_ rem 1 = 32 /\
  (forall i, 2 <= i < e -> at_ rem i = 32 \/ at_ rem i = 10 \/ at_ rem i = 13).
Proof.
  intros H. apply parseHardLineBreakSpace_hard_iff in H. destruct H as (r & -> & Hr & ->).
  rewrite !len_cons. pose proof (len_nonneg r). repeat split; try lia; try reflexivity.
  intros i Hi. rewrite !(at_S' 32) by lia.
  pose proof (at_forallb _ _ Hr (i - 1 - 1) ltac:(lia)) as Hc. unfold isSpEol in Hc.
  apply orb_true_iff in Hc. destruct Hc as [Hc|Hc]; [apply orb_true_iff in Hc; destruct Hc as [Hc|Hc]|];
    apply Z.eqb_eq in Hc; tauto.
Qed.

(* the not-hard results: the reported length is the number of leading spaces (0, 1, or all the leading blanks up to the
   first byte that is not space/LF/CR) *)
Lemma hlb_rest_false : forall l i e, hlb_rest l i = (e, false) ->
  i <= e < i + len l /\ isSpEol (at_ l (e - i)) = false /\ forall j, 0 <= j < e - i -> isSpEol (at_ l j) = true.
Proof.
  induction l as [|c r IH]; intros i e H; cbn [hlb_rest] in H; [discriminate|].
  fold (isSpEol c) in H. destruct (isSpEol c) eqn:Ec.
  - apply IH in H. destruct H as (H1 & H2 & H3). rewrite len_cons. split; [lia|]. split.
    + rewrite at_S' by lia. replace (e - i - 1) with (e - (i + 1)) by lia. exact H2.
    + intros j Hj. destruct (Z.eq_dec j 0) as [->|Hne]; [exact Ec|]. rewrite at_S' by lia. apply H3. lia.
  - inversion H; subst. rewrite len_cons. pose proof (len_nonneg r). replace (e - e) with 0 by lia.
    split; [lia|]. split; [exact Ec|]. intros j Hj. lia.
Qed.

(* ================================================================ (6) the delimiter-run scan *)
Lemma runEnd_spec src lim c : forall fuel e0,
  e0 <= runEnd fuel src e0 lim c /\
  (forall i, e0 <= i < runEnd fuel src e0 lim c -> at_ src i = c) /\
  (e0 <= lim -> runEnd fuel src e0 lim c <= lim).
Proof.
  induction fuel as [|f IH]; intros e0; cbn [runEnd]; [repeat split; intros; lia|].
  destruct (Z.ltb_spec e0 lim) as [L|L]; cbn [andb]; [|repeat split; intros; lia].
  destruct (Z.eqb_spec (at_ src e0) c) as [E|E]; [|repeat split; intros; lia].
  destruct (IH (e0 + 1)) as (H1 & H2 & H3). split; [lia|]. split; [|intros; apply H3; lia].
  intros i Hi. destruct (Z.eq_dec i e0) as [->|Hne]; [exact E|]. apply H2. lia.
Qed.
(* maximality: the scan stops only at the limit, at a different byte, or when the fuel (the length of the source) runs out *)
Lemma runEnd_stop src lim c : forall fuel e0,
  let e := runEnd fuel src e0 lim c in
  lim <= e \/ at_ src e <> c \/ e = e0 + Z.of_nat fuel.
Proof.
  induction fuel as [|f IH]; intros e0; cbn [runEnd]; cbv zeta; [right; right; lia|].
  destruct (Z.ltb_spec e0 lim) as [L|L]; cbn [andb]; [|left; lia].
  destruct (Z.eqb_spec (at_ src e0) c) as [E|E]; [|right; left; exact E].
  specialize (IH (e0 + 1)). cbv zeta in IH. destruct IH as [H|[H|H]]; [left; exact H|right; left; exact H|right; right; lia].
Qed.

(* parseDelimiterRun: the run [start, e) consists of copies of the byte at start; the caller (istep) enters only when
   that byte is * or _ *)
Theorem parseDelimiterRun_shape st start :
  let e := snd (parseDelimiterRun st start) in
  start < e /\ (forall i, start <= i < e -> at_ (isrc st) i = at_ (isrc st) start) /\
  (start + 1 <= spanEnd st -> e <= spanEnd st).
Proof.
  cbv zeta. unfold parseDelimiterRun. cbv zeta.
  destruct (addNode st TextKind start _ []) as [st' id]. cbn [snd].
  destruct (runEnd_spec (isrc st) (spanEnd st) (at_ (isrc st) start) (length (isrc st)) (start + 1)) as (H1 & H2 & H3).
  split; [lia|]. split; [|exact H3].
  intros i Hi. destruct (Z.eq_dec i start) as [->|Hne]; [reflexivity|]. apply H2. lia.
Qed.
(* the run is recorded as a Text node spanning exactly [start, e) and a delimiter of the matching type and length *)
Theorem parseDelimiterRun_node st start :
  let e := runEnd (length (isrc st)) (isrc st) (start + 1) (spanEnd st) (at_ (isrc st) start) in
  parseDelimiterRun st start =
  (let '(st', id) := addNode st TextKind start e [] in
   (setStk st' (stk st' ++ [{| d_typ := if at_ (isrc st) start =? 42 then tStar else tUnder;
                               d_flags := fActive + emphasisFlags (isrc st) start e;
                               d_n := spanLen start e; d_node := id |}]), e)).
Proof. reflexivity. Qed.
(* in terms of the selected text *)
Corollary parseDelimiterRun_allOf st start : 0 <= start ->
  let e := snd (parseDelimiterRun st start) in
  e <= len (isrc st) ->
  allOf (sub (isrc st) start e) (at_ (isrc st) start) = true /\ len (sub (isrc st) start e) = e - start.
Proof.
  intros Hs. cbv zeta. intros He. destruct (parseDelimiterRun_shape st start) as (H1 & H2 & _).
  set (e := snd (parseDelimiterRun st start)) in *.
  assert (Hl : len (sub (isrc st) start e) = e - start) by (apply len_sub_in; lia).
  split; [|exact Hl]. unfold allOf. apply forallb_at. intros i Hi. rewrite Hl in Hi.
  rewrite at_sub by lia. apply Z.eqb_eq. apply H2. lia.
Qed.

(* ================================================================ (3) parseCharacterEscape *)
Lemma pce_named_shape : forall l i acc e, pce_named l i acc = e -> 0 <= e -> 0 <= i ->
  exists j, 0 <= j < len l /\ e = i + j + 2 /\ 0 < i + j /\ at_ l j = 59 /\
            (forall k, 0 <= k < j -> isASCIILetter (at_ l k) || isASCIIDigit (at_ l k) = true).
Proof.
  induction l as [|c r IH]; intros i acc e H He Hi; cbn [pce_named] in H; [lia|].
  destruct (Z.eqb_spec c 59) as [E|E].
  - destruct ((i =? 0) || negb (isEntityName (rev acc))) eqn:Eb; [lia|].
    apply orb_false_iff in Eb. destruct Eb as [Ei _]. apply Z.eqb_neq in Ei.
    exists 0. rewrite len_cons. pose proof (len_nonneg r). repeat split; try lia. subst c. reflexivity.
  - destruct (negb (isASCIILetter c) && negb (isASCIIDigit c)) eqn:Eb; [lia|].
    destruct (IH (i + 1) (c :: acc) e H He ltac:(lia)) as (j & Hj & He' & Hp & Hat & Hall).
    exists (j + 1). rewrite len_cons. repeat split; try lia.
    + rewrite at_S by lia. exact Hat.
    + intros k Hk. destruct (Z.eq_dec k 0) as [->|Hne].
      * rewrite at_0. destruct (isASCIILetter c), (isASCIIDigit c); try reflexivity; discriminate.
      * rewrite at_S' by lia. apply Hall. lia.
Qed.
Lemma pce_num_shape p : forall l i ds e, pce_num p l i ds = e -> 0 <= e -> 0 <= i -> 0 <= ds ->
  exists j, 0 <= j < len l /\ e = ds + i + j + 1 /\ 0 < i + j /\ at_ l j = 59 /\
            (forall k, 0 <= k < j -> p (at_ l k) = true).
Proof.
  induction l as [|c r IH]; intros i ds e H He Hi Hds; cbn [pce_num] in H; [lia|].
  destruct (Z.eqb_spec c 59) as [E|E].
  - destruct (Z.eqb_spec i 0) as [Ei|Ei]; [lia|].
    exists 0. rewrite len_cons. pose proof (len_nonneg r). repeat split; try lia. subst c. reflexivity.
  - destruct (p c) eqn:Ep; cbn [negb] in H; [|lia].
    destruct (IH (i + 1) ds e H He ltac:(lia) Hds) as (j & Hj & He' & Hp & Hat & Hall).
    exists (j + 1). rewrite len_cons. repeat split; try lia.
    + rewrite at_S by lia. exact Hat.
    + intros k Hk. destruct (Z.eq_dec k 0) as [->|Hne]; [rewrite at_0; exact Ep|].
      rewrite at_S' by lia. apply Hall. lia.
Qed.

Theorem parseCharacterEscape_shape t e :
  parseCharacterEscape t = e -> 0 <= e ->
  at_ t 0 = 38 /\ at_ t (e - 1) = 59 /\ 3 <= e /\ e <= len t.
Proof.
  intros H He. unfold parseCharacterEscape in H.
  destruct (Z.ltb_spec (len t) 3) as [L|L]; cbn [orb] in H; [lia|].
  destruct (Z.eqb_spec (at_ t 0) 38) as [E0|E0]; cbn [negb] in H; [|lia].
  split; [exact E0|].
  destruct (negb (at_ t 1 =? 35)).
  - destruct (pce_named_shape _ _ _ _ H He ltac:(lia)) as (j & Hj & -> & Hp & Hat & _).
    rewrite len_from in Hj by lia. rewrite at_from in Hat by lia.
    replace (0 + j + 2 - 1) with (1 + j) by lia. repeat split; [exact Hat|lia|lia].
  - destruct ((at_ t 2 =? 120) || (at_ t 2 =? 88)).
    + destruct (pce_num_shape _ _ _ _ _ H He ltac:(lia) ltac:(lia)) as (j & Hj & -> & Hp & Hat & _).
      rewrite len_upto, len_from in Hj by lia. rewrite at_upto, at_from in Hat by lia.
      replace (3 + 0 + j + 1 - 1) with (3 + j) by lia. repeat split; [exact Hat|lia|lia].
    + destruct (pce_num_shape _ _ _ _ _ H He ltac:(lia) ltac:(lia)) as (j & Hj & -> & Hp & Hat & _).
      rewrite len_upto, len_from in Hj by lia. rewrite at_upto, at_from in Hat by lia.
      replace (2 + 0 + j + 1 - 1) with (2 + j) by lia. repeat split; [exact Hat|lia|lia].
Qed.

(* ================================================================ (2) parseAutolink *)
Lemma countWhile_spec p : forall l, 0 <= countWhile p l <= len l /\ forall i, 0 <= i < countWhile p l -> p (at_ l i) = true.
Proof.
  induction l as [|c r IH]; cbn [countWhile]; [change (len (@nil Z)) with 0; split; [lia|intros; lia]|].
  rewrite len_cons. destruct IH as [H1 H2]. destruct (p c) eqn:Ep; [|split; [lia|intros; lia]].
  split; [lia|]. intros i Hi. destruct (Z.eq_dec i 0) as [->|Hne]; [exact Ep|]. rewrite at_S' by lia. apply H2. lia.
Qed.

Definition okAuto (c : Z) : bool := negb ((c =? 60) || (c =? 62) || (c =? 32)).
Lemma okAuto_spec c : okAuto c = true <-> c <> 60 /\ c <> 62 /\ c <> 32.
Proof.
  unfold okAuto. destruct (Z.eqb_spec c 60), (Z.eqb_spec c 62), (Z.eqb_spec c 32); cbn; split; intros H; try discriminate; try tauto; lia.
Qed.
Lemma okAuto_of (p : Z -> bool) c : p 60 = false -> p 62 = false -> p 32 = false -> p c = true -> okAuto c = true.
Proof.
  intros H1 H2 H3 H. apply okAuto_spec. repeat split; intros ->; congruence.
Qed.
Lemma label_okAuto c : isLabelChar c = true -> okAuto c = true.
Proof. apply okAuto_of; reflexivity. Qed.
Lemma local_okAuto c : isEmailLocal c = true -> okAuto c = true.
Proof. apply okAuto_of; reflexivity. Qed.
Lemma scheme_okAuto c : isSchemeChar c = true -> okAuto c = true.
Proof. apply okAuto_of; reflexivity. Qed.
Lemma letter_okAuto c : isASCIILetter c = true -> okAuto c = true.
Proof. apply okAuto_of; reflexivity. Qed.

Lemma dl_run_spec t : forall fuel e0,
  e0 <= dl_run fuel t e0 /\ (e0 <= len t -> dl_run fuel t e0 <= len t) /\
  forall i, e0 <= i < dl_run fuel t e0 -> isLabelChar (at_ t i) = true.
Proof.
  induction fuel as [|f IH]; intros e0; cbn [dl_run]; [repeat split; intros; lia|].
  destruct (Z.ltb_spec e0 63); cbn [andb]; [|repeat split; intros; lia].
  destruct (Z.ltb_spec e0 (len t)); cbn [andb]; [|repeat split; intros; lia].
  destruct (isLabelChar (at_ t e0)) eqn:El; [|repeat split; intros; lia].
  destruct (IH (e0 + 1)) as (H1 & H2 & H3). split; [lia|]. split; [intros; apply H2; lia|].
  intros i Hi. destruct (Z.eq_dec i e0) as [->|Hne]; [exact El|]. apply H3. lia.
Qed.
Lemma parseDomainLabel_spec t e : parseDomainLabel t = e -> 0 <= e ->
  1 <= e <= len t /\ forall i, 0 <= i < e -> isLabelChar (at_ t i) = true.
Proof.
  unfold parseDomainLabel. intros H He.
  destruct (Z.leb_spec (len t) 0) as [L|L]; cbn [orb] in H; [lia|].
  destruct (isASCIILetter (at_ t 0) || isASCIIDigit (at_ t 0)) eqn:E0; cbn [negb] in H; [|lia].
  destruct (dl_run_spec t 64 1) as (H1 & H2 & H3).
  destruct (at_ t (dl_run 64 t 1 - 1) =? 45); [lia|].
  destruct ((dl_run 64 t 1 <? len t) && isLabelChar (at_ t (dl_run 64 t 1))); [lia|]. subst e.
  split; [lia|]. intros i Hi. destruct (Z.eq_dec i 0) as [->|Hne]; [|apply H3; lia].
  unfold isLabelChar. rewrite E0. reflexivity.
Qed.
Lemma em_labels_spec t : forall fuel e0 r, em_labels fuel t e0 = r -> 0 <= r -> 0 <= e0 <= len t ->
  e0 <= r <= len t /\ forall i, e0 <= i < r -> okAuto (at_ t i) = true.
Proof.
  induction fuel as [|f IH]; intros e0 r H Hr He0; cbn [em_labels] in H; [subst; split; [lia|intros; lia]|].
  destruct (Z.ltb_spec e0 (len t)) as [L|L]; cbn [andb] in H; [|subst; split; [lia|intros; lia]].
  destruct (Z.eqb_spec (at_ t e0) 46) as [E|E]; [|subst; split; [lia|intros; lia]].
  destruct (Z.ltb_spec (parseDomainLabel (from_ t (e0 + 1))) 0) as [L2|L2]; [lia|].
  destruct (parseDomainLabel_spec _ _ eq_refl L2) as (Hn & Hall). rewrite len_from in Hn by lia.
  destruct (IH _ _ H Hr ltac:(lia)) as (H1 & H2). split; [lia|].
  intros i Hi. destruct (Z.eq_dec i e0) as [->|Hne]; [rewrite E; reflexivity|].
  destruct (Z.lt_ge_cases i (e0 + 1 + parseDomainLabel (from_ t (e0 + 1)))) as [Hlt|Hge]; [|apply H2; lia].
  apply label_okAuto. specialize (Hall (i - (e0 + 1)) ltac:(lia)). rewrite at_from in Hall by lia.
  replace (e0 + 1 + (i - (e0 + 1))) with i in Hall by lia. exact Hall.
Qed.
Lemma parseEmail_spec t r : parseEmail t = r -> 0 <= r ->
  3 <= r <= len t /\ forall i, 0 <= i < r -> okAuto (at_ t i) = true.
Proof.
  unfold parseEmail. intros H Hr. destruct (countWhile_spec isEmailLocal t) as (Hc1 & Hc2).
  set (e := countWhile isEmailLocal t) in *.
  destruct (Z.eqb_spec e 0) as [E0|E0]; [lia|].
  destruct (Z.leb_spec (len t) e) as [L|L]; cbn [orb] in H; [lia|].
  destruct (Z.eqb_spec (at_ t e) 64) as [E|E]; cbn [negb] in H; [|lia].
  destruct (Z.ltb_spec (parseDomainLabel (from_ t (e + 1))) 0) as [L2|L2]; [lia|].
  destruct (parseDomainLabel_spec _ _ eq_refl L2) as (Hn & Hall). rewrite len_from in Hn by lia.
  destruct (em_labels_spec _ _ _ _ H Hr ltac:(lia)) as (H1 & H2). split; [lia|].
  intros i Hi.
  destruct (Z.lt_ge_cases i e) as [Hlt|Hge]; [apply local_okAuto, Hc2; lia|].
  destruct (Z.eq_dec i e) as [->|Hne]; [rewrite E; reflexivity|].
  destruct (Z.lt_ge_cases i (e + 1 + parseDomainLabel (from_ t (e + 1)))) as [Hlt|Hge2]; [|apply H2; lia].
  apply label_okAuto. specialize (Hall (i - (e + 1)) ltac:(lia)). rewrite at_from in Hall by lia.
  replace (e + 1 + (i - (e + 1))) with i in Hall by lia. exact Hall.
Qed.
Lemma al_uri_spec : forall l e0 r, al_uri l e0 = r -> 0 <= r -> 0 <= e0 ->
  exists j, 0 <= j < len l /\ r = e0 + j + 1 /\ at_ l j = 62 /\ forall k, 0 <= k < j -> okAuto (at_ l k) = true.
Proof.
  induction l as [|c rr IH]; intros e0 r H Hr He0; cbn [al_uri] in H; [lia|].
  rewrite len_cons. pose proof (len_nonneg rr).
  destruct (Z.eqb_spec c 62) as [E|E].
  - exists 0. repeat split; try lia; try (rewrite at_0; exact E).
  - destruct (isASCIIControl c || (c =? 32) || (c =? 60)) eqn:Eb; [lia|].
    destruct (IH _ _ H Hr ltac:(lia)) as (j & Hj & -> & Hat & Hall).
    exists (j + 1). repeat split; try lia; [rewrite at_S by lia; exact Hat|].
    intros k Hk. destruct (Z.eq_dec k 0) as [->|Hne]; [|rewrite at_S' by lia; apply Hall; lia].
    rewrite at_0. apply okAuto_spec. apply orb_false_iff in Eb. destruct Eb as [Eb E60]. apply orb_false_iff in Eb.
    destruct Eb as [_ E32]. apply Z.eqb_neq in E60, E32. tauto.
Qed.

Theorem parseAutolink_shape t e :
  parseAutolink t = e -> 0 <= e ->
  at_ t 0 = 60 /\ at_ t (e - 1) = 62 /\ 5 <= e <= len t /\
  (forall i, 0 < i < e - 1 -> at_ t i <> 60 /\ at_ t i <> 62 /\ at_ t i <> 32).
Proof.
  unfold parseAutolink. intros H He.
  destruct (Z.ltb_spec (len t) 5) as [L|L]; cbn [orb] in H; [lia|].
  destruct (Z.eqb_spec (at_ t 0) 60) as [E0|E0]; cbn [negb] in H; [|lia].
  split; [exact E0|].
  destruct ((0 <=? parseEmail (from_ t 1)) && (1 + parseEmail (from_ t 1) <? len t) && (at_ t (1 + parseEmail (from_ t 1)) =? 62)) eqn:Em.
  - apply andb_true_iff in Em. destruct Em as [Em E62]. apply andb_true_iff in Em. destruct Em as [Ege Elt].
    apply Z.leb_le in Ege. apply Z.ltb_lt in Elt. apply Z.eqb_eq in E62.
    destruct (parseEmail_spec _ _ eq_refl Ege) as (Hr & Hall). subst e.
    replace (2 + parseEmail (from_ t 1) - 1) with (1 + parseEmail (from_ t 1)) by lia.
    split; [exact E62|]. split; [lia|].
    intros i Hi. apply okAuto_spec. specialize (Hall (i - 1) ltac:(lia)). rewrite at_from in Hall by lia.
    replace (1 + (i - 1)) with i in Hall by lia. exact Hall.
  - clear Em. destruct (isASCIILetter (at_ t 1)) eqn:El; cbn [negb] in H; [|lia].
    destruct (countWhile_spec isSchemeChar (from_ t 2)) as (Hc1 & Hc2). rewrite len_from in Hc1 by lia.
    set (n := countWhile isSchemeChar (from_ t 2)) in *.
    destruct (Z.ltb_spec (2 + n) 3) as [L3|L3]; cbn [orb] in H; [lia|].
    destruct (Z.ltb_spec 33 (2 + n)) as [L33|L33]; [lia|].
    destruct (Z.leb_spec (len t) (2 + n)) as [Ln|Ln]; cbn [orb] in H; [lia|].
    destruct (Z.eqb_spec (at_ t (2 + n)) 58) as [E58|E58]; cbn [negb] in H; [|lia].
    destruct (al_uri_spec _ _ _ H He ltac:(lia)) as (j & Hj & -> & Hat & Hall).
    rewrite len_from in Hj by lia. rewrite at_from in Hat by lia.
    replace (2 + n + 1 + j + 1 - 1) with (2 + n + 1 + j) by lia. split; [exact Hat|]. split; [lia|].
    intros i Hi. apply okAuto_spec.
    destruct (Z.eq_dec i 1) as [->|N1]; [apply letter_okAuto, El|].
    destruct (Z.lt_ge_cases i (2 + n)) as [Hlt|Hge].
    { apply scheme_okAuto. specialize (Hc2 (i - 2) ltac:(lia)). rewrite at_from in Hc2 by lia.
      replace (2 + (i - 2)) with i in Hc2 by lia. exact Hc2. }
    destruct (Z.eq_dec i (2 + n)) as [->|Nn]; [rewrite E58; reflexivity|].
    specialize (Hall (i - (2 + n + 1)) ltac:(lia)). rewrite at_from in Hall by lia.
    replace (2 + n + 1 + (i - (2 + n + 1))) with i in Hall by lia. exact Hall.
Qed.

Print Assumptions parseHardLineBreakSpace_hard_iff.
Print Assumptions parseHardLineBreakSpace_shape.
Print Assumptions parseDelimiterRun_shape.
Print Assumptions parseCharacterEscape_shape.
Print Assumptions parseAutolink_shape.
