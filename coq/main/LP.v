From Coq Require Import List ZArith Lia Bool.
Import ListNotations.
Require Import Base Tree Rdr Link Collect Html Recog.
Open Scope Z_scope.

(* line parser states (blocks.go:284) *)
Definition stOpening := 0. Definition stOpenMatched := 1. Definition stLineConsumed := 2.
Definition stDescending := 3. Definition stDescendTerminated := 4.

Record lp := {
  source : bytes; root : block; container : option nat;   (* depth on the right spine; None = nil *)
  lineStart : Z; line : bytes; li : Z; col : Z; tabRem : Z; state : Z; panicked : Z }.

Definition setLP (p : lp) (rt : block) (c : option nat) (i cl tr st pn : Z) : lp :=
  {| source := source p; root := rt; container := c; lineStart := lineStart p; line := line p;
     li := i; col := cl; tabRem := tr; state := st; panicked := pn |}.
Definition withRoot p rt := setLP p rt (container p) (li p) (col p) (tabRem p) (state p) (panicked p).
Definition withCont p c := setLP p (root p) c (li p) (col p) (tabRem p) (state p) (panicked p).
Definition withState p st := setLP p (root p) (container p) (li p) (col p) (tabRem p) st (panicked p).
Definition withCursor p i cl tr := setLP p (root p) (container p) i cl tr (state p) (panicked p).
Definition panic p (site : Z) := setLP p (root p) (container p) (li p) (col p) (tabRem p) (state p) (if panicked p =? 0 then site else panicked p).

Definition cdepth (p : lp) : nat := match container p with Some d => d | None => O end.
Definition contBlock (p : lp) : block := match getAt (cdepth p) (root p) with Some b => b | None => newBlock 0 0 end.
Definition containerKind (p : lp) : Z := bkind (contBlock p).
Definition updCont (p : lp) (f : block -> block) : lp := withRoot p (updAt (cdepth p) f (root p)).

Definition rest (p : lp) : bytes := from_ (line p) (li p).
Definition bytesAfterIndent (p : lp) : bytes := trimLeftSpTab (rest p).
Definition isRestBlank (p : lp) : bool := isBlankLine (rest p).

Definition computeTabRem (ln : bytes) (i cl : Z) : Z :=
  if (i <? len ln) && (at_ ln i =? 9) then columnWidth cl [9] else 0.

(* Advance (blocks.go:340) *)
Definition advance (p : lp) (n : Z) : lp :=
  if n <? 0 then panic p 1 else
  if n =? 0 then p else
  let p := if state p =? stOpening then withState p stOpenMatched else p in
  let newIndex := li p + n in
  if len (line p) <? newIndex then panic p 2 else
  let cl := if (li p <? len (line p)) && (at_ (line p) (li p) =? 9)
            then col p + tabRem p + columnWidth (col p) (sub (line p) (li p + 1) newIndex)
            else col p + columnWidth (col p) (sub (line p) (li p) newIndex) in
  withCursor p newIndex cl (computeTabRem (line p) newIndex cl).

(* ConsumeLine (blocks.go:374) *)
Definition consumeLine (p : lp) : lp :=
  let p := advance p (len (line p) - li p) in
  if (state p =? stOpening) || (state p =? stOpenMatched) then withState p stLineConsumed
  else if state p =? stDescending then withState p stDescendTerminated else p.

(* Indent (blocks.go:386) *)
Definition indent (p : lp) : Z :=
  if len (line p) <=? li p then 0 else
  let c := at_ (line p) (li p) in
  if c =? 32 then
    let rs := from_ (line p) (li p + 1) in 1 + columnWidth (col p + 1) (upto rs (indentLength rs))
  else if c =? 9 then
    let rs := from_ (line p) (li p + 1) in tabRem p + columnWidth (col p + tabRem p) (upto rs (indentLength rs))
  else 0.

(* ConsumeIndent (blocks.go:405) *)
Fixpoint consumeIndent_loop (fuel : nat) (p : lp) (n : Z) : lp :=
  match fuel with
  | O => p
  | S f =>
    if n <=? 0 then p else
    let p := if state p =? stOpening then withState p stOpenMatched else p in
    let inLine := li p <? len (line p) in
    if inLine && (at_ (line p) (li p) =? 32) then
      let i' := li p + 1 in let cl := col p + 1 in
      consumeIndent_loop f (withCursor p i' cl (computeTabRem (line p) i' cl)) (n - 1)
    else if inLine && (at_ (line p) (li p) =? 9) then
      if n <? tabRem p then withCursor p (li p) (col p + n) (tabRem p - n)
      else
        let cl := col p + tabRem p in let i' := li p + 1 in
        consumeIndent_loop f (withCursor p i' cl (computeTabRem (line p) i' cl)) (n - tabRem p)
    else panic p 3
  end.
Definition consumeIndent (p : lp) (n : Z) : lp := consumeIndent_loop (S (length (line p))) p n.

(* tip kind: kind of the deepest open block *)
Definition tipKind (p : lp) : Z :=
  match getAt (tipDepth (bheight (root p)) (root p)) (root p) with Some b => bkind b | None => 0 end.

(* ---- onClose handlers ---- *)

(* IndentedCodeBlock: drop trailing blank text lines (with the end-of-input repair D8) *)
Fixpoint trimBlankTail (src : bytes) (rk : list inline) : list inline :=   (* rk is reversed *)
  match rk with
  | c :: r => if (ikind c =? TextKind) && isBlankLine (sub src (istart c) (iend c)) then trimBlankTail src r else rk
  | [] => []
  end.
Definition onCloseIndented (src : bytes) (b : block) : block :=
  let ik := bik b in
  let ik := match rev ik with
            | last :: prev :: r =>
              if (ikind last =? SoftLineBreakKind) && (iend last - istart last =? 0) &&
                 (ikind prev =? TextKind) && isBlankLine (sub src (istart prev) (iend prev))
              then rev (prev :: r) else ik
            | _ => ik
            end in
  set_bik b (rev (trimBlankTail src (rev ik))).

(* List: looseness (blocks.go:813) *)
Fixpoint endsWithBlankLine (fuel : nat) (b : block) : bool :=
  match fuel with
  | O => false
  | S f =>
    if blastBlank b then true
    else if negb ((bkind b =? ListKind) || (bkind b =? ListItemKind)) then false
    else match lastBlock b with Some c => endsWithBlankLine f c | None => false end
  end.
Definition onCloseList (b : block) : block :=
  let items := bkids b in
  let h := bheight b in
  let nitems := length items in
  let loose :=
    existsb (fun ix : nat * block =>
      let '(i, item) := ix in
      let notLastItem := Nat.ltb (S i) nitems in
      (notLastItem && endsWithBlankLine h item) ||
      (let subs := bkids item in
       let nsubs := length subs in
       existsb (fun jx : nat * block =>
                  let '(j, sb) := jx in
                  (notLastItem || Nat.ltb (S j) nsubs) && endsWithBlankLine h sb)
               (combine (seq 0 nsubs) subs)))
      (combine (seq 0 nitems) items) in
  if bloose b || loose
  then set_bkids (set_bloose b true) (map (fun it => set_bloose it true) items)
  else b.

(* onCloseParagraph (blocks.go:1217) *)
Fixpoint skipSpTabIdx (fuel : nat) (src : bytes) (i : Z) : Z :=
  match fuel with O => i | S f => if isSpTab (at_ src i) then skipSpTabIdx f src (i + 1) else i end.

Definition refDefBlock (s e : Z) (kids : list inline) : block :=
  Blk LinkReferenceDefinitionKind s e [] kids 0 0 0 false false.

Fixpoint ocp_loop (fuel rfuel : nat) (src : bytes) (orig : block) (orphan : option block)
         (r : reader) (result : list block) : list block :=
  let withOrphan res := match orphan with Some o => res ++ [o] | None => res end in
  match fuel with
  | O => result ++ [orig]
  | S f =>
    let '(lspan, linner, r1) := parseLinkLabel rfuel r in
    if negb (spanValid lspan) then result ++ [orig] else
    let '(c, r2) := current r1 in
    if negb (c =? 58) then result ++ [orig] else
    let '(_, r3) := next r2 in
    let '(ok, r4) := skipLinkSpace rfuel r3 in
    if negb ok then result ++ [orig] else
    let '(dspan, dtext, r5) := parseLinkDestination rfuel r4 in
    if negb (spanValid dspan) then result ++ [orig] else
    let sepPoint := r_pos r5 in
    let '(destEOL, r6) := readEOL rfuel r5 in
    let cloned := r6 in
    let '(c6, r7) := current r6 in
    if (destEOL <? 0) && (r_pos r6 =? sepPoint) && negb (c6 =? 0) then result ++ [orig] else
    let ik := bik orig in
    let labelInline :=
      Inl LinkLabelKind (fst linner) (snd linner) 0
          (transformLinkReferenceSpan rfuel src ik (fst linner) (snd linner))
          (collectTextNodes rfuel (newReader src ik (fst linner)) (snd linner) TextKind false) in
    let destInline :=
      Inl LinkDestinationKind (fst dspan) (snd dspan) 0 []
          (collectTextNodes rfuel (newReader src ik (fst dtext)) (snd dtext) TextKind true) in
    let '(ok2, r8) := skipLinkSpace rfuel r7 in
    if negb ok2 then withOrphan (result ++ [refDefBlock (fst lspan) destEOL [labelInline; destInline]]) else
    let '(tspan, ttext, r9) := parseLinkTitle rfuel r8 in
    let cutTo (pos : Z) (k : block -> list block) : list block :=
      let orig' := set_bstart orig pos in
      let fc := nodeIndexForPosition ik pos in
      if fc <? 0 then withOrphan (result ++ [refDefBlock (fst lspan) destEOL [labelInline; destInline]])
      else k (set_bik orig' (from_ ik fc)) in
    if negb (spanValid tspan) then
      if destEOL <? 0 then result ++ [orig] else
      cutTo (r_pos cloned)
            (fun orig' => ocp_loop f rfuel src orig' orphan cloned
                                   (result ++ [refDefBlock (fst lspan) destEOL [labelInline; destInline]]))
    else
    let '(titleEOL, r10) := readEOL rfuel r9 in
    if titleEOL <? 0 then
      if destEOL <? 0 then result ++ [orig] else
      cutTo (r_pos cloned)
            (fun orig' => result ++ [refDefBlock (fst lspan) destEOL [labelInline; destInline]] ++ [orig'])
    else
    let titleInline :=
      Inl LinkTitleKind (fst tspan) (snd tspan) 0 []
          (collectTextNodes rfuel (newReader src ik (fst ttext)) (snd ttext) TextKind true) in
    let nb := refDefBlock (fst lspan) titleEOL [labelInline; destInline; titleInline] in
    let orig' := set_bstart orig (r_pos r10) in
    let fc := nodeIndexForPosition ik (r_pos r10) in
    if fc <? 0 then withOrphan (result ++ [nb])
    else ocp_loop f rfuel src (set_bik orig' (from_ ik fc)) orphan r10 (result ++ [nb])
  end.

Definition onCloseParagraph (src : bytes) (orig : block) : list block :=
  match bik orig with
  | [] => [orig]
  | first :: _ =>
    let rfuel := (2 * length src + 10)%nat in
    let orphan :=
      if bkind orig =? SetextHeadingKind then
        let blockStart := match rev (bik orig) with l :: _ => iend l | [] => 0 end in
        let ls := skipSpTabIdx (length src) src blockStart in
        Some (Blk ParagraphKind blockStart (-1) [] [mkI UnparsedKind ls (bend orig)] 0 0 0 false false)
      else None in
    ocp_loop (S (length (bik orig))) rfuel src orig orphan (newReader src (bik orig) (istart first)) []
  end.

(* close (blocks.go:196), as the replacement list for b in its parent *)
Fixpoint closeBlock (fuel : nat) (src : bytes) (b : block) (e : Z) : list block :=
  match fuel with
  | O => [b]
  | S f =>
    if negb (isOpen b) then [b] else
    let b1 := set_bend b e in
    let closeLast (x : block) : block :=
      match lastBlock x with
      | Some c => set_lastBlocks x (closeBlock f src c e)
      | None => x
      end in
    if bkind b1 =? ListKind then [closeLast (onCloseList b1)]
    else if bkind b1 =? IndentedCodeBlockKind then [closeLast (onCloseIndented src b1)]
    else if (bkind b1 =? ParagraphKind) || (bkind b1 =? SetextHeadingKind) then onCloseParagraph src b1
    else [closeLast b1]
  end.
