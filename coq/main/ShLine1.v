From Coq Require Import List ZArith Lia Bool.
Import ListNotations.
Require Import Base Tree Rdr Link Collect Html Recog LP Rules Starts Driver Props L2Kind L2CC GramTree BSDef BSRdr BSTree BSOcp BSOrph BSClose
  BSLine1 BSLine2 BSLine3 BSLine4 BShDef ShDef ShRdr ShClose ShEnv.
Open Scope Z_scope.

(* ---- the invariants of the shape proof, per parser state ---- *)
Definition EV (p : lp) : Prop := line p = from_ (source p) (lineStart p) /\ 0 <= lineStart p <= len (source p).
Definition SR (p : lp) : Prop := sh (source p) (len (source p)) (root p).
Definition SC1 (p : lp) : Prop := forall c, getAt (S (cdepth p)) (root p) = Some c -> bend c < 0 -> sh (source p) (lineStart p) c.
Definition SLI (p : lp) : Prop := forall x, getAt (cdepth p) (root p) = Some x -> sh (source p) (lineStart p) x \/ wide (bkind x).
Definition ScleanC (p : lp) : Prop := forall x, getAt (cdepth p) (root p) = Some x -> sh (source p) (lineStart p) x.
Definition ScleanR (p : lp) : Prop := sh (source p) (lineStart p) (root p).
Definition kidsClosed (p : lp) : Prop := forall x, getAt (cdepth p) (root p) = Some x -> closedL (bkids x).

Lemma env_parts p p' : envOf p' = envOf p -> source p' = source p /\ lineStart p' = lineStart p /\ line p' = line p.
Proof. unfold envOf. intros E. inversion E. tauto. Qed.
Lemma env_of_cstep p p' : cstep p p' -> envOf p' = envOf p.
Proof. intros (_ & (A & B & C) & _). unfold envOf. rewrite A, B, C. reflexivity. Qed.

Lemma EV_env p p' : envOf p' = envOf p -> EV p -> EV p'.
Proof. intros E H. destruct (env_parts _ _ E) as (A & B & C). unfold EV. rewrite A, B, C. exact H. Qed.
Lemma SR_ext p p' : root p' = root p -> envOf p' = envOf p -> SR p -> SR p'.
Proof. intros E1 E H. destruct (env_parts _ _ E) as (A & B & C). unfold SR. rewrite E1, A. exact H. Qed.
Lemma SC1_ext p p' : root p' = root p -> cdepth p' = cdepth p -> envOf p' = envOf p -> SC1 p -> SC1 p'.
Proof. intros E1 E2 E H. destruct (env_parts _ _ E) as (A & B & C). unfold SC1. rewrite E1, E2, A, B. exact H. Qed.
Lemma SLI_ext p p' : root p' = root p -> cdepth p' = cdepth p -> envOf p' = envOf p -> SLI p -> SLI p'.
Proof. intros E1 E2 E H. destruct (env_parts _ _ E) as (A & B & C). unfold SLI. rewrite E1, E2, A, B. exact H. Qed.
Lemma ScleanR_ext p p' : root p' = root p -> envOf p' = envOf p -> ScleanR p -> ScleanR p'.
Proof. intros E1 E H. destruct (env_parts _ _ E) as (A & B & C). unfold ScleanR. rewrite E1, A, B. exact H. Qed.

Lemma cd_of_cstep p p' : cstep p p' -> root p' = root p /\ cdepth p' = cdepth p.
Proof. intros ((A & B) & _). unfold cdepth. rewrite B. tauto. Qed.
Lemma SR_cstep p p' : cstep p p' -> SR p -> SR p'.
Proof. intros H. apply SR_ext; [apply (cd_of_cstep _ _ H)|apply env_of_cstep, H]. Qed.
Lemma SC1_cstep p p' : cstep p p' -> SC1 p -> SC1 p'.
Proof. intros H. apply SC1_ext; [apply (cd_of_cstep _ _ H)|apply (cd_of_cstep _ _ H)|apply env_of_cstep, H]. Qed.
Lemma SLI_cstep p p' : cstep p p' -> SLI p -> SLI p'.
Proof. intros H. apply SLI_ext; [apply (cd_of_cstep _ _ H)|apply (cd_of_cstep _ _ H)|apply env_of_cstep, H]. Qed.
Lemma EV_cstep p p' : cstep p p' -> EV p -> EV p'.
Proof. intros H. apply EV_env, env_of_cstep, H. Qed.

Lemma ScleanR_SC1 p : ScleanR p -> SC1 p.
Proof. intros H c Ec _. eapply sh_getAt; eassumption. Qed.
Lemma ScleanR_SLI p : ScleanR p -> SLI p.
Proof. intros H x Ex. left. eapply sh_getAt; eassumption. Qed.
Lemma ScleanR_SR p : EV p -> ScleanR p -> SR p.
Proof. intros (_ & A) H. eapply sh_mono; [|exact H]. lia. Qed.

(* ---- closing the last child of a block ---- *)
Lemma sh_closeF p e M x : 0 <= e <= len (source p) -> cc x = true -> sh (source p) M x -> bend x < 0 ->
  (forall c, lastBlock x = Some c -> (bheight c <= bheight (root p))%nat /\ (bend c < 0 -> sp e c /\ sh (source p) e c)) ->
  sh (source p) M (closeF p e x) /\ closedL (bkids (closeF p e x)).
Proof.
  intros He Cx Sx Ox Hc. unfold closeF. destruct (lastBlock x) as [c|] eqn:El.
  - destruct (Hc c eq_refl) as [Hh Hop]. pose proof (lastBlock_split x c El) as Es.
    pose proof Sx as Sx'. rewrite sh_eq in Sx'. destruct Sx' as (_ & B & C). destruct (B Ox) as [_ B2].
    destruct (Z.ltb_spec (bend c) 0) as [L|L].
    + destruct (Hop L) as [Pc Qc]. destruct (cc_lastBlock x c Cx El) as [Cc _].
      destruct (sh_closeBlock (source p) e ltac:(lia) ltac:(lia) (bheight (root p)) c Hh Cc Pc Qc M) as [I1 I2].
      split; [eapply sh_set_lastBlocks; eassumption|]. unfold set_lastBlocks. rewrite bkids_set_bkids. apply closedL_app. split; assumption.
    + rewrite closeBlock_closed' by exact L. split.
      * eapply sh_set_last1; [exact Sx|exact El|eapply sh_lastBlock; eassumption|tauto].
      * unfold set_lastBlocks. rewrite bkids_set_bkids. apply closedL_app. split; [exact B2|split; [exact L|exact I]].
  - split; [exact Sx|]. assert (Ek : bkids x = []).
    { unfold lastBlock in El. destruct (rev (bkids x)) eqn:Er; [|discriminate]. rewrite <- (rev_involutive (bkids x)), Er. reflexivity. }
    rewrite Ek. exact I.
Qed.

Lemma getAt_height : forall d r x c, getAt d r = Some x -> lastBlock x = Some c -> (bheight c <= bheight r)%nat.
Proof. intros d r x c Ex El. pose proof (bheight_getAt d r x Ex). pose proof (bheight_last x c El). lia. Qed.

(* the tree after closing the last child c of the block at depth d at position e *)
Lemma SR_closeAt p d e d' : ccP p -> spineOpen p -> (d <= cdepth p)%nat -> EV p -> SR p -> 0 <= e <= len (source p) ->
  (forall x c, getAt d (root p) = Some x -> lastBlock x = Some c -> bend c < 0 -> sp e c /\ sh (source p) e c) ->
  SR (withCont (closeLastChildAt p d e) (Some d')).
Proof.
  intros D Ho Hd Hev Hs He Hc. unfold SR. rewrite closeLastChildAt_eq. cbn [root source withCont withRoot setLP].
  apply (sh_updAt_at (source p) (len (source p)) (closeF p e) d (root p) Hs). intros x Ex Sx.
  split; [|rewrite closeF_bend; tauto].
  apply sh_closeF; [exact He|eapply cc_getAt; [apply D|exact Ex]|exact Sx|apply (Ho d x Hd Ex)|].
  intros c El. split; [eapply getAt_height; eassumption|apply (Hc x c Ex El)].
Qed.
Lemma kidsClosed_closeAt p d e : ccP p -> spineOpen p -> (d <= cdepth p)%nat -> SR p -> 0 <= e <= len (source p) ->
  (forall x c, getAt d (root p) = Some x -> lastBlock x = Some c -> bend c < 0 -> sp e c /\ sh (source p) e c) ->
  kidsClosed (withCont (closeLastChildAt p d e) (Some d)).
Proof.
  intros D Ho Hd Hs He Hc y Ey. unfold cdepth in Ey. rewrite closeLastChildAt_eq in Ey. cbn [container root withCont withRoot setLP] in Ey.
  rewrite getAt_closeAt in Ey. destruct (getAt d (root p)) as [x|] eqn:Ex; [|discriminate]. cbn in Ey. inversion Ey; subst y.
  apply (sh_closeF p e (len (source p))); [exact He|eapply cc_getAt; [apply D|exact Ex]|eapply sh_getAt; eassumption|apply (Ho d x Hd Ex)|].
  intros c El. split; [eapply getAt_height; eassumption|apply (Hc x c eq_refl El)].
Qed.
(* after closing, the last child of the block at depth d is closed *)
Lemma SC1_closeAt p d e : ccP p -> spineOpen p -> (d <= cdepth p)%nat -> SR p -> 0 <= e <= len (source p) ->
  (forall x c, getAt d (root p) = Some x -> lastBlock x = Some c -> bend c < 0 -> sp e c /\ sh (source p) e c) ->
  SC1 (withCont (closeLastChildAt p d e) (Some d)).
Proof.
  intros D Ho Hd Hs He Hc y Ey Oy. exfalso.
  pose proof (kidsClosed_closeAt p d e D Ho Hd Hs He Hc) as Hk.
  change (cdepth (withCont (closeLastChildAt p d e) (Some d))) with d in Ey, Hk. rewrite getAt_S_last in Ey.
  unfold kidsClosed in Hk. change (cdepth (withCont (closeLastChildAt p d e) (Some d))) with d in Hk.
  destruct (getAt d (root (withCont (closeLastChildAt p d e) (Some d)))) as [x|]; [|discriminate].
  specialize (Hk x eq_refl). pose proof (allP_In _ _ _ Hk (lastBlock_In x y Ey)) as H. cbn beta in H. lia.
Qed.

(* closing the last child of the container at the line start keeps SLI *)
Lemma SLI_closeHere p : BP p -> C1 p -> EV p -> SC1 p -> SLI p -> SLI (closeLastChildAt p (cdepth p) (lineStart p)).
Proof.
  intros (A & B & C & D) H1 Hev S1 HL y Ey. unfold cdepth in Ey. cbn [container root lineStart source closeLastChildAt withRoot setLP] in *.
  fold (cdepth p) in Ey. fold (closeF p (lineStart p)) in Ey. rewrite getAt_closeAt in Ey.
  destruct (getAt (cdepth p) (root p)) as [x|] eqn:Ex; [|discriminate]. cbn in Ey. inversion Ey; subst y. clear Ey.
  rewrite closeF_kind. destruct (HL x Ex) as [Hs|Hw]; [left|right; exact Hw].
  apply sh_closeF; [destruct Hev; lia|eapply cc_getAt; [apply D|exact Ex]|exact Hs|apply (C (cdepth p) x); [lia|exact Ex]|].
  intros c El. split; [eapply getAt_height; eassumption|]. intros Oc. split.
  - apply H1; [rewrite getAt_S_last, Ex; exact El|exact Oc].
  - apply S1; [rewrite getAt_S_last, Ex; exact El|exact Oc].
Qed.
