(* IFull1.v -- T71: from the inline pass on the leaves to the whole document, for the list item (the counterpart of QFull1):
   parseFull (item mk N D) is the item root of ItemSimDefs around the rewritten root blocks of D under iB3, provided
     LeafSimAtI mk N D : the inline pass on a leaf of item mk N D is the image of the inline pass on the leaf of D,
     EntSameAtI K D    : the entries of a block that the inline pass leaves alone have the same image under iI and iI3,
     KidsNilAt D       : leaves have no block children (QFull2.KidsNil_holds). *)
From Coq Require Import List ZArith Lia Bool.
Import ListNotations.
Require Import Base Tree Recog LP Driver Inl3a Inl3e SpanHypDef QuoteSimDefs ItemSimDefs ItemSimMain QCutsDef QIRdrBase QInlDefs QFullDefs QFull1 IFullDefs.
Open Scope Z_scope.

Definition LeafSimAtI (mk : bytes) (N : Z) (D : bytes) : Prop := forall r b, In r (fst (parseBlocks D)) -> subB b (rb_blk r) -> isLeafU b = true ->
  parseInlines (item mk N D) (refsOf (fst (parseBlocks D))) (iB (len mk + N) D (shiftB (rb_start r) b)) =
  flat_map (iI3 (len mk + N) D) (map (shiftI (rb_start r)) (parseInlines (rb_src r) (refsOf (fst (parseBlocks D))) b)).
Definition EntSameAtI (K : Z) (D : bytes) : Prop := forall r b, In r (fst (parseBlocks D)) -> subB b (rb_blk r) -> isLeafU b = false ->
  flat_map (iI K D) (map (shiftI (rb_start r)) (bik b)) = flat_map (iI3 K D) (map (shiftI (rb_start r)) (bik b)).

(* ---- the fields of the images ---- *)
Lemma bik_iB K D b : bik (iB K D b) = flat_map (iI K D) (bik b). Proof. destruct b; reflexivity. Qed.
Lemma bkids_iB K D b : bkids (iB K D b) = map (iB K D) (bkids b). Proof. destruct b; reflexivity. Qed.
Lemma bkind_iB K D b : bkind (iB K D b) = bkind b. Proof. destruct b; reflexivity. Qed.
Lemma bheight_iB K D b : bheight (iB K D b) = bheight b. Proof. apply bheight_map. intros x. apply bkids_iB. Qed.

Lemma iI_kinds K D : forall i x, In x (iI K D i) -> ikind x = ikind i /\ iref x = iref i.
Proof.
  intros [k s e ind rf ks] x. cbn [iI]. cbv zeta. destruct ((k =? TextKind) && (s <? e)).
  - intros H. apply in_map_iff in H. destruct H as (p & <- & _). split; reflexivity.
  - intros [<-|[]]. split; reflexivity.
Qed.
Lemma iI_nonempty K D i : iI K D i <> [].
Proof.
  destruct i as [k s e ind rf ks]. cbn [iI]. cbv zeta. destruct ((k =? TextKind) && (s <? e)); [|discriminate].
  destruct (Z.to_nat (e - s)) as [|f]; cbn [splitAt]; [discriminate|]. cbv zeta. destruct (_ && _); discriminate.
Qed.
Lemma hasUnparsed_imgI K D n b : hasUnparsed (iB K D (shiftB n b)) = hasUnparsed b.
Proof.
  unfold hasUnparsed. rewrite bik_iB, bik_shiftB'. induction (bik b) as [|u r IH]; [reflexivity|]. cbn [map flat_map]. rewrite existsb_app, IH. cbn [existsb]. f_equal.
  pose proof (iI_nonempty K D (shiftI n u)) as Hne. pose proof (iI_kinds K D (shiftI n u)) as Hk.
  destruct (iI K D (shiftI n u)) as [|x l]; [contradiction|]. cbn [existsb].
  assert (Hall : forall y, In y (x :: l) -> (ikind y =? UnparsedKind) = (ikind u =? UnparsedKind)) by (intros y Hy; destruct (Hk y Hy) as [-> _]; rewrite ikind_shiftI''; reflexivity).
  destruct (ikind u =? UnparsedKind) eqn:E.
  - cbv beta. rewrite (Hall x (or_introl eq_refl)). reflexivity.
  - apply Bool.not_true_is_false. intros H.
    assert (H' : existsb (fun i => ikind i =? UnparsedKind) (x :: l) = true) by exact H.
    apply existsb_exists in H'. destruct H' as (y & Hy & Ey). rewrite (Hall y Hy) in Ey. discriminate Ey.
Qed.
Lemma len_pos_imgI K D n b : (0 <? len (bik (iB K D (shiftB n b)))) = (0 <? len (bik b)).
Proof.
  rewrite bik_iB, bik_shiftB'. destruct (bik b) as [|u r]; [reflexivity|]. cbn [map flat_map].
  pose proof (iI_nonempty K D (shiftI n u)). destruct (iI K D (shiftI n u)) as [|x l] eqn:E; [contradiction|]. cbn [app]. unfold len. cbn [length].
  destruct (Z.ltb_spec 0 (Z.of_nat (S (length (l ++ flat_map (iI K D) (map (shiftI n) r)))))); destruct (Z.ltb_spec 0 (Z.of_nat (S (length r)))); lia || reflexivity.
Qed.
Lemma isLeafU_imgI K D n b : isLeafU (iB K D (shiftB n b)) = isLeafU b.
Proof. unfold isLeafU. rewrite len_pos_imgI, hasUnparsed_imgI. reflexivity. Qed.

Lemma extractB_imgI K D n : forall f b acc, extractB f (iB K D (shiftB n b)) acc = extractB f b acc.
Proof.
  induction f as [|f IH]; intros b acc; [reflexivity|]. cbn [extractB]. rewrite bkind_iB, bkind_shiftB'.
  destruct (bkind b =? LinkReferenceDefinitionKind).
  - rewrite bik_iB, bik_shiftB'. destruct (bik b) as [|l r]; [reflexivity|]. cbn [map flat_map].
    pose proof (iI_nonempty K D (shiftI n l)) as Hne. pose proof (iI_kinds K D (shiftI n l)) as Hk.
    destruct (iI K D (shiftI n l)) as [|x xs]; [contradiction|]. cbn [app]. destruct (Hk x (or_introl eq_refl)) as [_ ->]. rewrite iref_shiftI. reflexivity.
  - rewrite bkids_iB, bkids_shiftB', map_map. generalize acc. induction (bkids b) as [|c r IHr]; intros acc0; [reflexivity|]. cbn [map fold_left]. rewrite IH. apply IHr.
Qed.

Section Img.
  Variables (mk : bytes) (N : Z) (D : bytes).
  Notation K := (len mk + N).
  Hypothesis HL : LeafSimAtI mk N D.
  Hypothesis HE : EntSameAtI K D.
  Hypothesis HK : KidsNilAt D.
  Notation refs := (refsOf (fst (parseBlocks D))).

  Lemma rewriteB_imgI r : In r (fst (parseBlocks D)) -> forall f b, subB b (rb_blk r) -> (bheight b <= f)%nat ->
    rewriteB f (item mk N D) refs (iB K D (shiftB (rb_start r) b)) = iB3 K D (shiftB (rb_start r) (rewriteB f (rb_src r) refs b)).
  Proof.
    intros Hr. induction f as [|f IH]; intros b Hb Hf; [pose proof (bheight_pos' b); lia|].
    cbn [rewriteB]. change ((0 <? len (bik (iB K D (shiftB (rb_start r) b)))) && hasUnparsed (iB K D (shiftB (rb_start r) b))) with (isLeafU (iB K D (shiftB (rb_start r) b))).
    change ((0 <? len (bik b)) && hasUnparsed b) with (isLeafU b). rewrite isLeafU_imgI.
    destruct (isLeafU b) eqn:El.
    - rewrite (HL r b Hr Hb El). pose proof (HK r b Hr Hb El) as Ek.
      destruct b as [k s e bk ik a n ch l lb]. cbn [bkids] in Ek. subst bk. reflexivity.
    - pose proof (HE r b Hr Hb El) as Ee.
      assert (Ekids : map (rewriteB f (item mk N D) refs) (bkids (iB K D (shiftB (rb_start r) b))) =
                      map (iB3 K D) (map (shiftB (rb_start r)) (map (rewriteB f (rb_src r) refs) (bkids b)))).
      { rewrite bkids_iB, bkids_shiftB', !map_map. apply map_ext_in. intros c Hc. apply IH; [apply (subB_kid b c _ Hb Hc)|pose proof (bheight_kid' b c Hc); lia]. }
      destruct b as [k s e bk ik a n ch l lb]. cbn [bkids bik] in *. cbn [shiftB iB set_bkids iB3 bkids] in *. rewrite Ekids, Ee. reflexivity.
  Qed.
End Img.

(* ---- the document ---- *)
Lemma refs_itemKids K D f : forall roots acc, (forall r, In r roots -> (bheight (rb_blk r) <= f)%nat) ->
  fold_left (fun a c => extractB f c a) (itemKids K D roots) acc = fold_left (fun a r => extractB (bheight (rb_blk r)) (rb_blk r) a) roots acc.
Proof.
  induction roots as [|r rest IH]; intros acc Hf; [reflexivity|]. unfold itemKids in *. cbn [map fold_left].
  rewrite extractB_imgI, (extractB_fuel f (bheight (rb_blk r))) by (try lia; apply Hf; left; reflexivity).
  apply IH. intros x Hx. apply Hf. right. exact Hx.
Qed.
Lemma bheight_itemKids K D roots r : In r roots -> In (iB K D (shiftB (rb_start r) (rb_blk r))) (itemKids K D roots) /\
  bheight (iB K D (shiftB (rb_start r) (rb_blk r))) = bheight (rb_blk r).
Proof. intros Hr. split; [unfold itemKids; apply in_map_iff; exists r; split; [reflexivity|exact Hr]|rewrite bheight_iB, bheight_shiftB'; reflexivity]. Qed.

Theorem parseFull_item_of : forall mk delim N D, itemHyps mk delim N D ->
  LeafSimAtI mk N D -> EntSameAtI (len mk + N) D -> KidsNilAt D ->
  exists lbL lbI, parseFull (item mk N D) =
    ([itemRoot mk N delim D (looseOf (itemKids (len mk + N) D (fst (parseBlocks D)))) lbL lbI (itemKids3 (len mk + N) D (fst (parseFull D)))], 0).
Proof.
  intros mk delim N D (Hmk & HN & HT & Hok & Htb) HL HE HK.
  destruct (parseBlocks_item mk delim N D Hmk HN HT Hok Htb) as (lbL & lbI & EQ). cbv zeta in EQ. exists lbL, lbI.
  set (K := len mk + N) in *. set (lo := looseOf (itemKids K D (fst (parseBlocks D)))) in *.
  unfold parseFull. rewrite EQ. destruct (parseBlocks D) as [roots code] eqn:ED. cbn [fst] in *.
  assert (Eroots : roots = fst (parseBlocks D)) by (rewrite ED; reflexivity).
  cbn [fold_left map]. f_equal. f_equal.
  set (kids := itemKids K D roots) in *.
  set (Q := item mk N D) in *.
  set (mkb := Blk ListMarkerKind 0 (len mk) [] [] 0 0 0 false false).
  set (f := fold_right (fun c acc => Nat.max (bheight c) acc) 0%nat kids).
  set (g := Nat.max 1 f).
  set (itb := Blk ListItemKind 0 (len Q) (mkb :: kids) [] K 0 delim lo lbI).
  set (lsb := Blk ListKind 0 (len Q) [itb] [] 0 0 delim lo lbL).
  assert (Ebl : rb_blk (itemRoot mk N delim D lo lbL lbI kids) = lsb) by reflexivity.
  assert (Hhi : bheight itb = S g) by (unfold itb, g, f; cbn [bheight map fold_right mkb]; reflexivity).
  assert (Hh : bheight lsb = S (S g)) by (unfold lsb; cbn [bheight map fold_right]; rewrite Hhi; lia).
  assert (Hf : forall r, In r roots -> (bheight (rb_blk r) <= g)%nat).
  { intros r Hr. destruct (bheight_itemKids K D roots r Hr) as [Hin E]. rewrite <- E. pose proof (fold_max_ge kids _ Hin). unfold g. fold f in H. lia. }
  (* the reference labels *)
  assert (Erefs : extractB (bheight lsb) lsb [] = refsOf roots).
  { rewrite Hh. unfold lsb. cbn [extractB bkind bkids fold_left]. change (ListKind =? LinkReferenceDefinitionKind) with false. cbv iota.
    unfold itb. cbn [extractB bkind bkids fold_left]. change (ListItemKind =? LinkReferenceDefinitionKind) with false. cbv iota.
    assert (Em : extractB g mkb [] = []) by (unfold g; destruct (Nat.max 1 f) as [|g0] eqn:Eg; [lia|reflexivity]). rewrite Em.
    unfold refsOf. apply refs_itemKids. exact Hf. }
  unfold itemRoot. cbv zeta. cbn [rb_line rb_start rb_end rb_src rb_blk]. f_equal.
  fold Q. fold mkb. fold K. fold itb. fold lsb. rewrite Erefs, Hh.
  unfold lsb at 1. cbn [rewriteB bik bkids]. change (0 <? len (@nil inline)) with false. cbn [andb set_bkids map]. f_equal. f_equal.
  unfold itb. cbn [rewriteB bik bkids]. change (0 <? len (@nil inline)) with false. cbn [andb set_bkids map]. f_equal.
  assert (Emk : rewriteB g Q (refsOf roots) mkb = mkb) by (unfold g; destruct (Nat.max 1 f) as [|g0] eqn:Eg; [lia|reflexivity]). rewrite Emk. f_equal.
  (* the children *)
  assert (Hsub : forall r, In r roots -> In r (fst (parseBlocks D))) by (intros r Hr; rewrite <- Eroots; exact Hr).
  clearbody g. unfold kids. clear Erefs Hh Hhi Ebl lsb itb Emk EQ.
  unfold itemKids, itemKids3. rewrite !map_map. apply map_ext_in. intros r Hr. cbn [rb_start rb_blk].
  pose proof (rewriteB_imgI mk N D HL HE HK r (Hsub r Hr) g (rb_blk r) (subB_refl _) (Hf r Hr)) as X. rewrite <- Eroots in X. fold K in X. fold Q in X. rewrite X.
  f_equal. f_equal. apply rewriteB_fuel; [apply Hf, Hr|lia].
Qed.
Print Assumptions parseFull_item_of.
