(* QS2Test.v -- T58: statements tested by vm_compute.
   (1) the full statement parseBlocks_quote_statement on documents with link reference definitions (labels, destinations and titles that
       span several lines: their Text nodes are split at the line ends by the quoted run), in addition to QuoteSimTest;
   (2) the flag fact QS2Flag.processLine_gap_flag (after a line of the plain run, a closed last top-level child that ends before the end of
       that line has its lastLineBlank flag set), tested BEFORE it was proved: checked after EVERY processLine of the plain run, on the
       90 documents of QuoteSimTest and exhaustively on short strings;
   (3) the hypotheses of the theorems are satisfiable. *)
From Coq Require Import List ZArith Lia Bool String Ascii.
Import ListNotations.
Require Import Base Tree LP Driver SliceBase QuoteSimDefs QuoteSimTest.
Open Scope Z_scope.

(* ---- (1) ---- *)
Local Open Scope string_scope.
Definition docs2 : list string := [
  "[a]: /u" ++ n ++ "  'two" ++ n ++ "  lines'" ++ n ++ "p";
  "[a" ++ n ++ " b" ++ n ++ " c]: /u" ++ n;
  "[a]:" ++ n ++ "   /u" ++ n ++ "   (t" ++ n ++ "  u" ++ n ++ " v)" ++ n ++ n ++ "x";
  "x" ++ n ++ "[a]: /u" ++ n ++ "[b]: /v" ++ n;
  "[a]: /u" ++ n ++ "[b]: /v" ++ n ++ "[c]: /w 'q" ++ n ++ "r'" ++ n ++ "tail" ++ n ++ "===" ++ n;
  "[a]: <b c>" ++ n ++ "'t'" ++ n ++ n ++ n ++ "[d]: e";
  "[&amp;\]]: /u&amp; '\'" ++ n ++ "&#35;'";
  "- [a]: /u" ++ n ++ "  't" ++ n ++ "  u'" ++ n ++ "- b";
  "> [a]: /u" ++ n ++ "> 't" ++ n ++ "> u'" ++ n;
  "[a]: /u 't'" ++ n ++ "===" ++ n ++ "[b]: /v" ++ n ++ n ++ n
].
Local Close Scope string_scope.
Example full_statement_on_docs2 : forallb (fun s => check2 (s2b s)) docs2 = true. Proof. vm_compute. reflexivity. Qed.
Definition A4 : bytes := [91; 97; 93; 58; 32; 10; 39].     (* [ a ] : space LF ' *)
Example full_statement_exhaustive_A4 : (failing A4 1, failing A4 2, failing A4 3, failing A4 4, failing A4 5) = ([], [], [], [], []).
Proof. vm_compute. reflexivity. Qed.

(* ---- (2): the flag fact, checked along the plain run ---- *)
Definition Tck (ks : list block) (M : Z) : bool :=
  match rev ks with b :: _ => isOpen b || negb (bend b <? M) || blastBlank b | [] => true end.
Fixpoint lineLoopT (fuel : nat) (st : Z) (children : list block) (ls0 : Z) (s : bpst) : bool * nb :=
  match fuel with
  | O => (true, NBStuck)
  | S f =>
    let '(children', st', pn) := processLine st children ls0 (upto (buf s) (bi s)) in
    let ok := Tck children' (bi s) in
    if negb (pn =? 0) then (ok, NBPanic pn) else
    match makeRoot children' s with
    | Some (r, s') => (ok, NBBlock r s')
    | None =>
      let ls := bi s in
      let '(ok2, r) := lineLoopT f st' children' ls {| buf := buf s; bi := lineEnd (buf s) (bi s); boff := boff s; bline := bline s; pending := pending s |} in
      (ok && ok2, r)
    end
  end.
Fixpoint skipLoopT (fuel : nat) (s : bpst) : bool * nb :=
  match fuel with
  | O => (true, NBStuck)
  | S f =>
    let e := lineEnd (buf s) (bi s) in
    if negb (bi s <? e) then (true, NBEof s) else
    let ln := upto (buf s) e in
    if isBlankLine ln then
      skipLoopT f {| buf := from_ (buf s) e; bi := 0; boff := boff s + unpadded ln; bline := bline s + 1; pending := pending s |}
    else lineLoopT f 0 [] 0 {| buf := buf s; bi := e; boff := boff s; bline := bline s; pending := pending s |}
  end.
Definition nextBlockT (fuel : nat) (s : bpst) : bool * nb :=
  match makeRoot (pending s) s with
  | Some (r, s') => (true, NBBlock r s')
  | None =>
    match pending s with
    | _ :: _ =>
      let ls := bi s in
      lineLoopT fuel 0 (pending s) ls {| buf := buf s; bi := lineEnd (buf s) (bi s); boff := boff s; bline := bline s; pending := pending s |}
    | [] =>
      let pre := upto (buf s) (bi s) in
      skipLoopT fuel {| buf := from_ (buf s) (bi s); bi := 0; boff := boff s + unpadded pre; bline := bline s + lineCount pre; pending := [] |}
    end
  end.
Fixpoint allBlocksT (fuel : nat) (s : bpst) : bool :=
  match fuel with
  | O => true
  | S f =>
    match nextBlockT (3 + List.length (buf s))%nat s with
    | (ok, NBBlock r s') => ok && allBlocksT f s'
    | (ok, _) => ok
    end
  end.
Definition chkFlag (D : bytes) : bool := allBlocksT (S (List.length D)) {| buf := D; bi := 0; boff := 0; bline := 1; pending := [] |}.
Definition failingT (alpha : bytes) (k : nat) : list bytes := filter (fun D => negb (chkFlag D)) (allStr alpha k).
Example gapflag_on_docs : forallb (fun s => chkFlag (s2b s)) (docs ++ docs2) = true. Proof. vm_compute. reflexivity. Qed.
Example gapflag_exhaustive_A1 : (failingT A1 1, failingT A1 2, failingT A1 3, failingT A1 4) = ([], [], [], []). Proof. vm_compute. reflexivity. Qed.
Definition A2 : bytes := [97; 32; 10; 45; 62; 96; 60].
Definition A3 : bytes := [97; 32; 10; 45; 35; 61; 42].
Example gapflag_exhaustive_A2_A3_A4 : (failingT A2 5, failingT A3 5, failingT A4 5) = ([], [], []). Proof. vm_compute. reflexivity. Qed.

(* ---- (3) ---- *)
Example hyp_sat : tabFree (s2b "[a]: /u") /\ s2b "[a]: /u" <> [].
Proof. split; [repeat constructor; discriminate|discriminate]. Qed.
