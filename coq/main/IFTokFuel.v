From Coq Require Import List ZArith Lia Bool.
Import ListNotations.
Require Import Base Tables Utf8 Tree Rdr Link Collect Html Recog Inl3a Inl3b Inl3c Inl3d Inl3e Driver.
Require Import ShapesBase ShapesR Leaf3e RdrBound IFBase IFLink IFTitle IFTokDef IFFrame IFTokAux IFTokRes IFTokLoop IFTokUm IFTokRf.
Open Scope Z_scope.

(* ================================================================ C04 (2)/(4): the loops of the tokeniser do not depend on their fuel *)
Section Fuel.
  Variable src : bytes.
  Variable U : list inline.
  Hypothesis HOK : spOK src U = true.
  Variables rf tf : nat.
  Hypothesis Hrf : len src + ibudget U < Z.of_nat rf.
  Notation K := (K src U).
  Notation d0 := (mkI 0 0 0).

  Lemma spanEnd_le st : unp st = U -> 0 <= upos st < len U -> spanEnd st <= len src.
  Proof.
    intros Eu Hu. rewrite spanEnd_nth by (rewrite Eu; lia). rewrite Eu.
    destruct (spOK_In src U _ HOK (nth_In_Z U (upos st) d0 Hu)) as (_ & _ & A). exact A.
  Qed.

  (* the tokeniser loop: more fuel than bytes left is enough *)
  Lemma iloopF_fuel : forall f1 f2 st pos ps, K st pos -> len src - pos < Z.of_nat f1 -> len src - pos < Z.of_nat f2 ->
    iloopF rf tf f1 st pos ps = iloopF rf tf f2 st pos ps.
  Proof.
    induction f1 as [|f1 IH]; intros f2 st pos ps HK H1 H2.
    - destruct f2 as [|f2]; [reflexivity|]. cbn [iloopF]. pose proof HK as (Es & Eu & Hp0 & Hu0 & _).
      destruct (Z.ltb_spec (upos st) (len (unp st))) as [L|L]; cbn [andb]; [|reflexivity].
      destruct (Z.ltb_spec pos (spanEnd st)) as [L2|L2]; [|reflexivity].
      pose proof (spanEnd_le st Eu ltac:(rewrite Eu in L; lia)). lia.
    - pose proof HK as (Es & Eu & Hp0 & Hu0 & _). cbn [iloopF].
      destruct (Z.ltb_spec (upos st) (len (unp st))) as [L|L]; cbn [andb]; [|destruct f2; [reflexivity|cbn [iloopF]; destruct (Z.ltb_spec (upos st) (len (unp st))); [lia|reflexivity]]].
      destruct (Z.ltb_spec pos (spanEnd st)) as [L2|L2].
      2:{ destruct f2; [reflexivity|]. cbn [iloopF]. destruct (Z.ltb_spec (upos st) (len (unp st))); cbn [andb]; [|reflexivity].
          destruct (Z.ltb_spec pos (spanEnd st)); [lia|reflexivity]. }
      pose proof (spanEnd_le st Eu ltac:(rewrite Eu in L; lia)) as Hse.
      destruct f2 as [|f2]; [lia|]. cbn [iloopF].
      destruct (Z.ltb_spec (upos st) (len (unp st))); [|lia]. destruct (Z.ltb_spec pos (spanEnd st)); [|lia]. cbn [andb].
      destruct (istepF_prog src U HOK rf tf Hrf st pos ps HK ltac:(rewrite <- Eu; exact L) L2) as [P1 P2].
      destruct (istepF rf tf st pos ps) as [[st1 p1] ps1]. cbn [fst snd] in P1, P2. apply IH; [exact P2|lia|lia].
  Qed.

  Lemma skipSpTab_ge s lim : forall fuel p, p <= skipSpTab fuel s p lim.
  Proof. induction fuel as [|f IH]; intros p; cbn [skipSpTab]; [lia|]. destruct (_ && _); [specialize (IH (p + 1)); lia|lia]. Qed.

  (* the body of one round of the loop over the entries *)
  Definition obody (lf : nat) (st : ist) : ist :=
    let u := nth (Z.to_nat (upos st)) (unp st) d0 in
    let k := ikind u in
    if k =? 0 then setIgn st false
    else if k =? IndentKind then (if negb (ign st) then setRk st (rk st ++ [ofInline u]) else st)
    else if k =? UnparsedKind then
      let pos := istart u in
      let pos := if ign st then skipSpTab (length (isrc st)) (isrc st) pos (spanEnd st) else pos in
      let st := setIgn st false in
      let '(st, plainStart) := iloopF rf tf lf st pos pos in
      addText st plainStart (spanEnd st)
    else setRk (setIgn st false) (rk st ++ [ofInline u]).
  Lemma outerF_S lf f st : outerF rf tf lf (S f) st =
    if len (unp st) <=? upos st then st else outerF rf tf lf f (setUpos (obody lf st) (upos (obody lf st) + 1)).
  Proof. reflexivity. Qed.

  Lemma obody_fr_um lf st : 0 <= upos st -> fr st (obody lf st) /\ um st (obody lf st).
  Proof.
    intros H0. unfold obody. cbv zeta.
    destruct (_ =? 0); [split; [apply fr_setIgn|apply um_ux; reflexivity]|].
    destruct (_ =? IndentKind); [destruct (negb _); split; first [apply fr_setRk|apply fr_refl|apply um_ux; reflexivity]|].
    destruct (_ =? UnparsedKind); [|split; [eapply fr_trans; [apply fr_setIgn|apply fr_setRk]|apply um_ux; reflexivity]].
    match goal with |- context [iloopF ?a ?b ?c ?d ?e ?g] => pose proof (fr_iloopF a b c d e g) as F; pose proof (um_iloopF a b c d e g (H0 : 0 <= upos (setIgn st false))) as M;
      destruct (iloopF a b c d e g) as [st1 ps1]; cbn [fst] in F, M end.
    split.
    - eapply fr_trans; [apply (fr_setIgn st false)|]. eapply fr_trans; [exact F|apply fr_addText].
    - eapply um_trans; [exact M|]. apply um_ux, ux_addText.
  Qed.

  Lemma obody_lf lf1 lf2 st : isrc st = src -> unp st = U -> 0 <= upos st < len U ->
    len src < Z.of_nat lf1 -> len src < Z.of_nat lf2 -> obody lf1 st = obody lf2 st.
  Proof.
    intros Es Eu Hu L1 L2. unfold obody. cbv zeta.
    destruct (_ =? 0); [reflexivity|]. destruct (_ =? IndentKind); [reflexivity|]. destruct (_ =? UnparsedKind); [|reflexivity].
    match goal with |- context [iloopF rf tf lf1 ?s ?p ?q] => assert (HK : K s p) end.
    { rewrite Eu. set (u := nth (Z.to_nat (upos st)) U d0).
      destruct (spOK_In src U u HOK (nth_In_Z U (upos st) d0 Hu)) as (A & _ & _).
      assert (Hp : istart u <= (if ign st then skipSpTab (length (isrc st)) (isrc st) (istart u) (spanEnd st) else istart u)).
      { destruct (ign st); [apply skipSpTab_ge|lia]. }
      split; [exact Es|]. split; [exact Eu|]. split; [lia|]. split; [apply Hu|]. intros _. exact Hp. }
    match goal with |- context [iloopF rf tf lf1 ?s ?p ?q] => rewrite (iloopF_fuel lf1 lf2 s p q HK) by (destruct HK as (_ & _ & Hp0 & _); lia) end.
    reflexivity.
  Qed.

  (* the loop over the entries: more fuel than entries left is enough, and the inner fuel lf only has to exceed len src *)
  Lemma outerF_fuel lf1 lf2 : len src < Z.of_nat lf1 -> len src < Z.of_nat lf2 ->
    forall f1 f2 st, isrc st = src -> unp st = U -> 0 <= upos st ->
    len U - upos st < Z.of_nat f1 -> len U - upos st < Z.of_nat f2 ->
    outerF rf tf lf1 f1 st = outerF rf tf lf2 f2 st.
  Proof.
    intros L1 L2. induction f1 as [|f1 IH]; intros f2 st Es Eu Hu H1 H2.
    - destruct f2 as [|f2]; [reflexivity|]. rewrite outerF_S. rewrite Eu. destruct (Z.leb_spec (len U) (upos st)); [reflexivity|lia].
    - rewrite outerF_S. rewrite Eu. destruct (Z.leb_spec (len U) (upos st)) as [L|L].
      { destruct f2 as [|f2]; [reflexivity|]. rewrite outerF_S, Eu. destruct (Z.leb_spec (len U) (upos st)); [reflexivity|lia]. }
      destruct f2 as [|f2]; [lia|]. rewrite outerF_S, Eu. destruct (Z.leb_spec (len U) (upos st)); [lia|].
      rewrite (obody_lf lf1 lf2 st Es Eu ltac:(lia) L1 L2).
      destruct (obody_fr_um lf2 st Hu) as [[F1 F2] M]. unfold um in M.
      apply IH; cbn [isrc unp upos setUpos]; [congruence|congruence|lia|lia|lia].
  Qed.
End Fuel.

(* ================================================================ the composite
   Hypotheses on the entries of the container: ShapesR.spOK (sorted non-empty spans inside the source, blank-only Indent
   spans, the backtick conditions) -- T11's bikOK without its third clause.
   The result of the inline parser is the same for
     every reader fuel rf above len src + ibudget entries   (the model passes 2 * len src + 10),
     every tokeniser-loop fuel lf above len src              (the model passes len src + 1),
     every entry-loop fuel ofu above the number of entries   (the model passes that number + 1). *)
Theorem parseInlinesF_fuel src matcher b tf rf1 rf2 lf1 lf2 of1 of2 :
  spOK src (bik b) = true ->
  len src + ibudget (bik b) < Z.of_nat rf1 -> len src + ibudget (bik b) < Z.of_nat rf2 ->
  len src < Z.of_nat lf1 -> len src < Z.of_nat lf2 ->
  len (bik b) < Z.of_nat of1 -> len (bik b) < Z.of_nat of2 ->
  parseInlinesF rf1 tf lf1 of1 src matcher b = parseInlinesF rf2 tf lf2 of2 src matcher b.
Proof.
  intros HOK R1 R2 L1 L2 O1 O2.
  rewrite (parseInlinesF_rf src (bik b) (spOK_spW _ _ HOK) rf1 rf2 R1 R2 tf lf1 of1 matcher b eq_refl).
  unfold parseInlinesF. rewrite (outerF_fuel src (bik b) HOK rf2 tf R2 lf1 lf2 L1 L2 of1 of2 (st0 src matcher b)); try reflexivity; cbn [upos st0]; lia.
Qed.
Print Assumptions parseInlinesF_fuel.

(* with T11's budget condition the model's own fuels are among the adequate ones: parseInlines is parseInlinesF at any larger fuels *)
Theorem parseInlines_fuel_adequate src matcher b rf lf ofu :
  spOK src (bik b) = true -> ibudget (bik b) <= len src + 9 ->
  (2 * length src + 10 <= rf)%nat -> (S (length src) <= lf)%nat -> (S (length (bik b)) <= ofu)%nat ->
  parseInlinesF rf (2 * length src + 10) lf ofu src matcher b = parseInlines src matcher b.
Proof.
  intros HOK HB R L O. rewrite <- parseInlinesF_model. unfold len in *. apply parseInlinesF_fuel; try assumption; unfold len; lia.
Qed.
Print Assumptions parseInlines_fuel_adequate.
