(* ChkDocAll.v -- T30: the side condition chkDoc of the whole-document tag-filter theorem (C17tags.v).

   STATEMENT ASKED
       chkDoc_all_statement : forall c input, filterOn c = true -> chkDoc c input = true.

   WHAT IS PROVED (every theorem below is closed under the global context)

   (1) chkDoc_all_noRefDefs_partial :
         forall c input, filterOn c = true -> noRefDefs input = true -> chkDoc c input = true.
       noRefDefs input (ChkE6.v) is the executable check "no block of kind LinkReferenceDefinition occurs in the output of
       the block layer (parseBlocks input)".  For every document that defines no link reference the statement asked for
       holds WITHOUT any other hypothesis (links, images, raw HTML, HTML blocks, NUL bytes, any line endings, ... allowed).
   (2) chkDoc_all_partial :
         forall c input, filterOn c = true -> entryBounds input = true -> chkDoc c input = true.
       entryBounds input (ChkW8.v) is an executable check on the output of the block layer: in every root block r, every
       entry u of kind Unparsed / RawHTML / Indent of every block satisfies
            0 <= istart u   and   (iend u <= istart u  or  iend u <= len (rb_src r)),
       i.e. the line entries lie inside the source text of their root block (positions only, nothing about the content
       of the source).  (1) is derived from (2): entryBounds_noRefDefs.
   (3) chkDoc_of_blocksOK_partial (ChkB.v): chkDoc under an executable local check blocksOK on the block layer's output
       that also mentions the content of the source; (2) is derived from it.
   (4) C17_no_rejected_start_renderDoc_noRefDefs_partial / ..._bounds_partial: the whole-document tag-filter theorem under
       noRefDefs, resp. entryBounds, instead of chkDoc.

   What these rest on, all proved for EVERY input (the facts (a)-(d) of the task):
     - parseBlocks_okRW (ChkW7.v), a new whole-run invariant of the block layer (ChkW1-ChkW7, one lemma per model function):
       in every root block, every RawHTML entry of an HTML block and every Unparsed entry that is not the last entry of its
       block ends with a line-ending byte of the (NUL-padded) input, except for the LAST entry of blocks on the right spine
       of the root block (the line without line ending at the end of the input); Indent entries cover blanks; RawHTML
       entries only sit in HTML blocks and no Unparsed entry sits in an HTML block.  The predicate is formulated so that
       it is stable under the shift of pending blocks without any information on positions.
     - parseInlines_closed_partial (ChkComp3.v, with ChkHT.v, ChkCollect.v): under the executable condition bikIn on the entry
       list of a block, every node parseInlines returns is closed in the sense of C17local.iClosed: character references
       and soft breaks contain no '<'; every RawHTML child of an HTMLTag node ends with a line ending (a tag split over
       lines: the children are the pieces of the lines, rendered back to back, no soft break node in between) or with the
       '>' of the tag (parseHTMLTag_gt, which needs of the span list only that Indent spans cover blanks).
     - chkB_FB (ChkA.v): the structural predicate implies chkB; the context-sensitive case is the HTML block whose last line
       has no line ending: what follows it in the output is a closing tag of the renderer ("</blockquote>", "</li>", ...:
       '<' or '&' is not a name byte), the two line feeds between root blocks, or nothing.
     - the NUL filling of Driver.fillNulls needs no alignment assumption: a byte is either kept or becomes a byte of U+FFFD,
       which is neither '<' nor a name byte and counts as a separator / blank (ChkW8.fill_at).
     - parseBlocks_PREr (ChkE6.v, with ChkE1-ChkE5: a second whole-run invariant, positions only): as long as no link
       reference definition has been produced, every line entry starts at or after the start of its block and ends at or
       before the end of its (closed) block; with the block spans of BlockShapes.v this gives entryBounds.

   WHAT IS MISSING for chkDoc_all_statement:  entryBounds input = true for inputs WITH link reference definitions.
   onCloseParagraph cuts the paragraph that follows the definitions at a reader position (Link.readEOL); that this position
   is the start of an entry (so that the remaining entries do not start before the new block start, and not before the end
   of the definition that is emitted first) needs, besides sortedness of the entries, that the reader loops do not run
   out of their fuel 2*len+10 -- the development has no fuel adequacy for the multi-line reader (cf. the comment of
   BlockShapes.v).  entryBounds holds on all inputs tried, with and without definitions (T30test3.v, T30test4.v). *)
From Coq Require Import List ZArith Lia Bool.
Import ListNotations.
Require Import Base Tables Utf8 Tree Recog Inl3b Driver Inl3e Render Safe MainTok C17bytes C17chk C17tags ChkB ChkW7 ChkW8 ChkE6.
Open Scope Z_scope.

Definition chkDoc_all_statement : Prop := forall c input, filterOn c = true -> chkDoc c input = true.

Theorem chkDoc_all_partial : forall c input, filterOn c = true -> entryBounds input = true -> chkDoc c input = true.
Proof. exact chkDoc_of_bounds_partial. Qed.
Print Assumptions chkDoc_all_partial.

(* the statement asked for follows from the bounds of the line entries *)
Theorem chkDoc_all_of_entryBounds : (forall input, entryBounds input = true) -> chkDoc_all_statement.
Proof. intros H c input Hf. apply chkDoc_all_partial; [exact Hf|apply H]. Qed.
Print Assumptions chkDoc_all_of_entryBounds.

(* C17, second clause, for whole documents, under the bounds of the line entries *)
Theorem C17_no_rejected_start_renderDoc_bounds_partial : forall c input, filterOn c = true -> prefix_closed (filterP c) ->
  entryBounds input = true ->
  forall n, In n (start_tags (renderDoc c input)) -> filterP c n = false.
Proof.
  intros c input Hon Hpc Hb. apply C17_no_rejected_start_renderDoc_partial; [exact Hon|exact Hpc|].
  apply chkDoc_all_partial; assumption.
Qed.
Print Assumptions C17_no_rejected_start_renderDoc_bounds_partial.

(* documents without link reference definitions: no other hypothesis *)
Theorem chkDoc_all_noRefDefs_partial : forall c input, filterOn c = true -> noRefDefs input = true -> chkDoc c input = true.
Proof. exact chkDoc_noRefDefs. Qed.
Print Assumptions chkDoc_all_noRefDefs_partial.

Theorem C17_no_rejected_start_renderDoc_noRefDefs_partial : forall c input, filterOn c = true -> prefix_closed (filterP c) ->
  noRefDefs input = true ->
  forall n, In n (start_tags (renderDoc c input)) -> filterP c n = false.
Proof.
  intros c input Hon Hpc Hb. apply C17_no_rejected_start_renderDoc_partial; [exact Hon|exact Hpc|].
  apply chkDoc_all_noRefDefs_partial; assumption.
Qed.
Print Assumptions C17_no_rejected_start_renderDoc_noRefDefs_partial.
