(* QInlTree1.v -- T64 (tree): the forest map qP / qPs of QInlDefs.v and the search / update operations of Inl3a.v.
   Plain-side invariant  SL l : every node of the forest l (at any depth) with a non-zero identity is mapped by qP to ONE node
   (sgl n: if its kind is Text / RawHTML and its span is not empty, there is no line feed before its last byte).
   qN n is that node.  Fuel: the operations are run with fuel fsize (rk st), which differs on the two sides; every lemma is
   stated for two arbitrary fuels that are large enough (fsize l <= f, fsize (qPs l) <= f'). *)
From Coq Require Import List ZArith Lia Bool.
Import ListNotations.
Require Import Base Tables Utf8 Tree Rdr Link Collect Html Recog Inl3a Inl3b Inl3c Inl3d Driver Inl3e QCutsDef QCuts QIRdrBase QInlDefs.
Require Import GI1 GI2 IFTree IS0.
Open Scope Z_scope.

Lemma flat_map_ext_in {A B} (f g : A -> list B) l : (forall x, In x l -> f x = g x) -> flat_map f l = flat_map g l.
Proof.
  induction l as [|x l IH]; intros H; [reflexivity|]. cbn [flat_map]. rewrite (H x (or_introl eq_refl)), IH; [reflexivity|].
  intros y Hy. apply H. right. exact Hy.
Qed.
Lemma flat_map_map' {A B C} (f : A -> list B) (g : B -> C) l : map g (flat_map f l) = flat_map (fun x => map g (f x)) l.
Proof. induction l as [|x l IH]; [reflexivity|]. cbn [flat_map]. rewrite map_app, IH. reflexivity. Qed.
Lemma flat_map_of_map {A B C} (f : A -> B) (g : B -> list C) l : flat_map g (map f l) = flat_map (fun x => g (f x)) l.
Proof. induction l as [|x l IH]; [reflexivity|]. cbn [flat_map map]. rewrite IH. reflexivity. Qed.

Lemma cutsF_ne src : forall n a x e, cutsF src n a x e <> [].
Proof.
  induction n as [|n IH]; intros a x e; cbn [cutsF]; [discriminate|].
  destruct (e <=? x + 1); [discriminate|]. destruct (at_ src x =? 10); [discriminate|apply IH].
Qed.
Lemma cuts_ne src a e : cuts src a e <> [].
Proof. unfold cuts. apply cutsF_ne. Qed.

Lemma sF_app a b : sF (a ++ b) = (sF a + sF b)%nat.
Proof. induction a as [|x a IH]; [reflexivity|]. cbn [app]. rewrite !sF_cons, IH. lia. Qed.
Lemma fsize_kids_in n l : In n l -> (fsize (pkids n) <= sF l)%nat.
Proof. intros H. rewrite <- psize_fsize. apply sF_in, H. Qed.

Section QT1.
  Variables (sD : bytes) (sg : Z -> Z).
  Notation qP := (QInlDefs.qP sD sg).
  Notation qPs := (QInlDefs.qPs sD sg).
  Notation eE := (QInlDefs.eE sg).

  (* the single image of a node *)
  Definition qN (n : pn) : pn := match n with PN id k s e ind rf ks => PN id k (sg s) (eE s e) ind rf (qPs ks) end.
  (* the node is not cut *)
  Definition sgl (n : pn) : Prop := splitK (pkind n) && (ps n <? pe n) = true -> noLFin sD (ps n) (pe n - 1).
  Inductive SLn : pn -> Prop := SLn_i n : (pid n <> 0 -> sgl n) -> Forall SLn (pkids n) -> SLn n.
  Definition SL (l : list pn) : Prop := Forall SLn l.

  Lemma SLn_inv n : SLn n -> (pid n <> 0 -> sgl n) /\ SL (pkids n).
  Proof. intros H. inversion H; subst. split; assumption. Qed.
  Lemma SL_nil : SL []. Proof. constructor. Qed.
  Lemma SL_cons n l : SL (n :: l) <-> SLn n /\ SL l.
  Proof. split; [intros H; inversion H; subst; split; assumption|intros [A B]; constructor; assumption]. Qed.
  Lemma SL_app a b : SL (a ++ b) <-> SL a /\ SL b. Proof. apply Forall_app. Qed.
  Lemma SL_in l n : SL l -> In n l -> SLn n.
  Proof. intros H Hn. unfold SL in H. rewrite Forall_forall in H. apply H, Hn. Qed.

  Lemma pid_qN n : pid (qN n) = pid n. Proof. destruct n; reflexivity. Qed.
  Lemma pkind_qN n : pkind (qN n) = pkind n. Proof. destruct n; reflexivity. Qed.
  Lemma ps_qN n : ps (qN n) = sg (ps n). Proof. destruct n; reflexivity. Qed.
  Lemma pe_qN n : pe (qN n) = eE (ps n) (pe n). Proof. destruct n; reflexivity. Qed.
  Lemma pkids_qN n : pkids (qN n) = qPs (pkids n). Proof. destruct n; reflexivity. Qed.
  Lemma pind_qN n : pind (qN n) = pind n. Proof. destruct n; reflexivity. Qed.
  Lemma pref_qN n : pref (qN n) = pref n. Proof. destruct n; reflexivity. Qed.

  Lemma qPs_nil : qPs [] = []. Proof. reflexivity. Qed.
  Lemma qPs_cons n l : qPs (n :: l) = qP n ++ qPs l. Proof. reflexivity. Qed.
  Lemma qPs_app a b : qPs (a ++ b) = qPs a ++ qPs b. Proof. apply flat_map_app. Qed.
  Lemma qPs_one n : qPs [n] = qP n. Proof. unfold QInlDefs.qPs. cbn [flat_map]. apply app_nil_r. Qed.

  Lemma qP_eq n : qP n =
    if splitK (pkind n) && (ps n <? pe n)
    then map (fun p => PN (pid n) (pkind n) (sg (fst p)) (sg (snd p - 1) + 1) (pind n) (pref n) (qPs (pkids n))) (cuts sD (ps n) (pe n))
    else [qN n].
  Proof. destruct n as [id k s e ind rf ks]. reflexivity. Qed.

  Lemma qP_ne n : qP n <> [].
  Proof.
    rewrite qP_eq. destruct (_ && _); [|discriminate]. intros H. apply map_eq_nil in H. exact (cuts_ne _ _ _ H).
  Qed.
  Lemma qP_In p n : In p (qP n) ->
    pid p = pid n /\ pkind p = pkind n /\ pkids p = qPs (pkids n) /\ pind p = pind n /\ pref p = pref n.
  Proof.
    rewrite qP_eq. destruct (_ && _).
    - intros H. apply in_map_iff in H. destruct H as (c & <- & _). repeat split.
    - intros [<-|[]]. destruct n; repeat split.
  Qed.
  Lemma qP_single n : sgl n -> qP n = [qN n].
  Proof.
    intros H. rewrite qP_eq. unfold sgl in H. destruct (splitK (pkind n) && (ps n <? pe n)) eqn:E; [|reflexivity].
    specialize (H eq_refl). apply andb_true_iff in E. destruct E as [_ E]. pose proof E as E'. apply Z.ltb_lt in E.
    rewrite (cuts_single sD _ _ E H). cbn [map fst snd]. destruct n as [id k s e ind rf ks]. cbn [pid pkind ps pe pind pref pkids qN] in *.
    unfold QInlDefs.eE. rewrite E'. reflexivity.
  Qed.
  Lemma sgl_nosplit n : splitK (pkind n) = false -> sgl n.
  Proof. intros H. unfold sgl. rewrite H. discriminate. Qed.
  Lemma qP_nosplit n : splitK (pkind n) = false -> qP n = [qN n].
  Proof. intros H. apply qP_single, sgl_nosplit, H. Qed.
  Lemma SLn_single n : SLn n -> pid n <> 0 -> qP n = [qN n].
  Proof. intros H Hi. apply qP_single. apply (SLn_inv n H), Hi. Qed.

  (* changing the children *)
  Lemma qP_setKids n K : qP (setKids n K) = map (fun p => setKids p (qPs K)) (qP n).
  Proof.
    destruct n as [id k s e ind rf ks]. cbn [setKids]. rewrite !qP_eq. cbn [pkind ps pe pid pind pref pkids].
    destruct (_ && _); [rewrite map_map; reflexivity|reflexivity].
  Qed.
  Lemma sgl_setKids n K : sgl (setKids n K) <-> sgl n. Proof. destruct n; reflexivity. Qed.
  Lemma SLn_setKids n K : SLn n -> SL K -> SLn (setKids n K).
  Proof.
    intros H HK. destruct (SLn_inv n H) as [A _]. constructor.
    - rewrite pid_setKids. intros Hi. apply sgl_setKids, A, Hi.
    - rewrite pkids_setKids. exact HK.
  Qed.
  Lemma qN_setKids n K : qN (setKids n K) = setKids (qN n) (qPs K). Proof. destruct n; reflexivity. Qed.

  (* ---------------------------------------------------------------- sizes *)
  Lemma sF_qP_in p n : In p (qP n) -> psize p = fsize (qPs (pkids n)).
  Proof. intros H. destruct (qP_In p n H) as (_ & _ & E & _). rewrite psize_fsize, E. reflexivity. Qed.
  Lemma fsize_qPs_kids n l : In n l -> (fsize (qPs (pkids n)) <= sF (qPs l))%nat.
  Proof.
    intros H. apply in_split in H. destruct H as (a & b & ->). rewrite qPs_app, qPs_cons, !sF_app.
    destruct (qP n) as [|p r] eqn:E; [exfalso; exact (qP_ne n E)|]. rewrite sF_cons.
    rewrite (sF_qP_in p n) by (rewrite E; left; reflexivity). lia.
  Qed.
  Lemma fsize_qPs_tail n l : (fsize (qPs l) <= fsize (qPs (n :: l)))%nat.
  Proof. rewrite qPs_cons, !fsize_sF, sF_app. lia. Qed.

  (* ---------------------------------------------------------------- hasId *)
  Lemma hasId_app id a b : hasId id (a ++ b) = hasId id a || hasId id b.
  Proof. unfold hasId. apply existsb_app. Qed.
  Lemma hasId_qP id n : hasId id (qP n) = (pid n =? id).
  Proof.
    destruct (qP n) as [|p r] eqn:E; [exfalso; exact (qP_ne n E)|].
    assert (H : forall x, In x (p :: r) -> pid x = pid n) by (intros x Hx; rewrite <- E in Hx; apply (qP_In x n Hx)).
    clear E. unfold hasId. cbn [existsb]. rewrite (H p (or_introl eq_refl)). destruct (pid n =? id) eqn:En; [reflexivity|]. cbn [orb].
    induction r as [|y r IH]; [reflexivity|]. cbn [existsb]. rewrite (H y (or_intror (or_introl eq_refl))), En. cbn [orb].
    apply IH. intros x [Hx|Hx]; apply H; [left; exact Hx|right; right; exact Hx].
  Qed.
  Lemma hasId_q id l : hasId id (qPs l) = hasId id l.
  Proof.
    induction l as [|n l IH]; [reflexivity|]. rewrite qPs_cons, hasId_app, hasId_qP, IH. reflexivity.
  Qed.

  (* ---------------------------------------------------------------- findNode: independent of surplus fuel *)
  Lemma findNode_fuel id : forall f f' l, (fsize l <= f)%nat -> (fsize l <= f')%nat -> findNode f id l = findNode f' id l.
  Proof.
    induction f as [|f IH]; intros f' l Hf Hf'; [pose proof (fsize_pos l); lia|]. destruct f' as [|f']; [pose proof (fsize_pos l); lia|].
    destruct l as [|n r]; [reflexivity|]. cbn [findNode]. rewrite fsize_cons, psize_fsize in Hf, Hf'.
    pose proof (fsize_pos r). pose proof (fsize_pos (pkids n)).
    destruct (pid n =? id); [reflexivity|]. rewrite (IH f' (pkids n)) by lia. rewrite (IH f' r) by lia. reflexivity.
  Qed.
  Definition fnd (id : Z) (l : list pn) : option pn := findNode (fsize l) id l.
  Lemma fnd_fuel id f l : (fsize l <= f)%nat -> findNode f id l = fnd id l.
  Proof. intros H. unfold fnd. apply findNode_fuel; [exact H|lia]. Qed.
  Lemma fnd_nil id : fnd id [] = None. Proof. reflexivity. Qed.
  Lemma fnd_cons id n r : fnd id (n :: r) =
    if pid n =? id then Some n else match fnd id (pkids n) with Some x => Some x | None => fnd id r end.
  Proof.
    unfold fnd at 1. destruct (fsize (n :: r)) as [|f] eqn:Ef; [pose proof (fsize_pos (n :: r)); lia|]. cbn [findNode].
    rewrite fsize_cons, psize_fsize in Ef. pose proof (fsize_pos r). pose proof (fsize_pos (pkids n)).
    rewrite (fnd_fuel id f (pkids n)) by lia. rewrite (fnd_fuel id f r) by lia. reflexivity.
  Qed.
  Lemma nodeOf_fnd st id : nodeOf st id = match fnd id (rk st) with Some n => n | None => PN (-1) 0 (-1) (-1) 0 [] [] end.
  Proof. reflexivity. Qed.

  (* pieces that do not carry the identity: their (common) children are searched, then the rest *)
  Lemma fnd_pieces id K : forall P R, P <> [] -> (forall p, In p P -> pid p <> id /\ pkids p = K) ->
    fnd id (P ++ R) = match fnd id K with Some x => Some x | None => fnd id R end.
  Proof.
    induction P as [|p P IH]; intros R Hne H; [contradiction|]. cbn [app]. rewrite fnd_cons.
    destruct (H p (or_introl eq_refl)) as [Hp Hk]. destruct (Z.eqb_spec (pid p) id) as [E|_]; [contradiction|]. rewrite Hk.
    destruct P as [|p2 P2]; [reflexivity|].
    rewrite IH; [destruct (fnd id K); reflexivity|discriminate|]. intros x Hx. apply H. right. exact Hx.
  Qed.

  Lemma fnd_q id : id <> 0 -> forall m l, (fsize l <= m)%nat -> SL l -> fnd id (qPs l) = option_map qN (fnd id l).
  Proof.
    intros Hid. induction m as [|m IH]; intros l Hm HS; [pose proof (fsize_pos l); lia|].
    destruct l as [|n r]; [reflexivity|]. apply SL_cons in HS. destruct HS as [Hn Hr].
    rewrite fsize_cons, psize_fsize in Hm. pose proof (fsize_pos r). pose proof (fsize_pos (pkids n)).
    rewrite qPs_cons, fnd_cons. destruct (Z.eqb_spec (pid n) id) as [E|E].
    - rewrite (SLn_single n Hn) by lia. cbn [app]. rewrite fnd_cons, pid_qN. destruct (Z.eqb_spec (pid n) id); [reflexivity|contradiction].
    - rewrite (fnd_pieces id (qPs (pkids n))); [|apply qP_ne|].
      + rewrite (IH (pkids n)) by (lia || apply (SLn_inv n Hn)). rewrite (IH r) by (lia || exact Hr).
        destruct (fnd id (pkids n)); reflexivity.
      + intros p Hp. destruct (qP_In p n Hp) as (A & _ & B & _). split; [lia|exact B].
  Qed.

  (* the two searches, each with enough fuel *)
  Lemma findNode_q id f f' l : id <> 0 -> SL l -> (fsize l <= f)%nat -> (fsize (qPs l) <= f')%nat ->
    findNode f' id (qPs l) = option_map qN (findNode f id l).
  Proof.
    intros Hid HS Hf Hf'. rewrite (fnd_fuel id f' _ Hf'), (fnd_fuel id f _ Hf). apply (fnd_q id Hid (fsize l)); [lia|exact HS].
  Qed.

  (* a node that is found satisfies the invariant *)
  Lemma fnd_SLn id : forall m l n, (fsize l <= m)%nat -> SL l -> fnd id l = Some n -> SLn n /\ pid n = id.
  Proof.
    induction m as [|m IH]; intros l n Hm HS E; [pose proof (fsize_pos l); lia|].
    destruct l as [|x r]; [discriminate|]. apply SL_cons in HS. destruct HS as [Hx Hr].
    rewrite fsize_cons, psize_fsize in Hm. pose proof (fsize_pos r). pose proof (fsize_pos (pkids x)).
    rewrite fnd_cons in E. destruct (Z.eqb_spec (pid x) id) as [Ei|Ei]; [inversion E; subst; split; [exact Hx|reflexivity]|].
    destruct (fnd id (pkids x)) as [y|] eqn:Ek.
    - inversion E; subst. apply (IH (pkids x)); [lia|apply (SLn_inv x Hx)|exact Ek].
    - apply (IH r); [lia|exact Hr|exact E].
  Qed.
  Lemma findNode_SLn id f l n : SL l -> (fsize l <= f)%nat -> findNode f id l = Some n -> SLn n /\ pid n = id.
  Proof. intros HS Hf E. rewrite (fnd_fuel id f l Hf) in E. apply (fnd_SLn id (fsize l) l n); [lia|exact HS|exact E]. Qed.
End QT1.
