From Coq Require Import List ZArith Lia Bool.
Import ListNotations.
Require Import Base Tree Rdr Link Collect Html Recog LP Rules Starts Driver Rec16 Rec17 Rec18 RecBounds Cursor CursorX L2Kind L2CC SpanSmall NoPanic12
  ShEnv GramTree GramLP GramLP2 EolInv EolCRBytes EolHtmlInv EolCRLFSimTree Props LADef EolFinalDefs EolFinalSimBytes EolFinalSimTree EolFinalGenOcp EolFinalGenTree EolFinalGenClose EolFinalGenInv
  EolFinalGenLP EolFinalGenLP2 EolFinalGenLP3.
Open Scope Z_scope.

Section GenRules.
Context {HO : OcpFinC}.

(* C14 (i), final newline: match rules and descent in the two runs. *)

Lemma Sp_G L p : Sp L p -> G p. Proof. intros H. apply H. Qed.
Lemma Sp_cc L p : Sp L p -> cc (root p) = true. Proof. intros (_ & H & _). apply ccP_cc, H. Qed.
Lemma Sp_ccP L p : Sp L p -> ccP p. Proof. intros H. apply H. Qed.
Lemma Sp_QP L p : Sp L p -> QP L p. Proof. intros H. apply H. Qed.
Lemma Sp_Tp L p : Sp L p -> Tp L (containerKind p) p.
Proof. intros (_ & A & B). split; [exact A|split; [exact B|apply ckind_self]]. Qed.

(* blocks of a kind that contains nothing *)
Lemma leaf_kids c : cc c = true -> (forall k, canContain (bkind c) k = false) -> bkids c = [].
Proof.
  intros H Hk. apply cc_parts in H. destruct H as [H _]. destruct (bkids c) as [|x r]; [reflexivity|]. cbn [forallb] in H.
  rewrite Hk in H. discriminate.
Qed.
Lemma lmB_container p K : ccP p -> ckind p K -> (forall k, canContain K k = false) -> K <> ListMarkerKind ->
  forall c, getAt (cdepth p) (root p) = Some c -> lmB c = true.
Proof.
  intros Hc Hk Hn N c Hg. pose proof (Hk c Hg) as Ek. apply lmB_leaf; [rewrite Ek; exact N|].
  apply leaf_kids; [eapply cc_getAt; [apply ccP_cc, Hc|exact Hg]|rewrite Ek; exact Hn].
Qed.
Lemma noKids_fenced k : canContain FencedCodeBlockKind k = false. Proof. reflexivity. Qed.
Lemma noKids_html k : canContain HTMLBlockKind k = false. Proof. reflexivity. Qed.

Lemma ckind_collectInline p kind n K : ckind p K -> ckind (collectInline p kind n) K.
Proof.
  intros H. unfold collectInline. destruct (_ =? stDescendTerminated); [exact H|]. cbv zeta.
  apply ckind_updCont; [intros b; apply bkind_set_bik|]. eapply ckind_same; [apply same_advance|].
  destruct (0 <? _); [|eapply ckind_same; [apply same_opened|exact H]].
  apply ckind_updCont; [intros b; apply bkind_set_bik|]. eapply ckind_same; [apply same_advance|]. eapply ckind_same; [apply same_opened|exact H].
Qed.

(* state of the cursor operations when the state is not stOpening *)
Lemma state_consumeIndent_loop_no : forall fuel p n, state p <> stOpening -> state (consumeIndent_loop fuel p n) = state p.
Proof.
  induction fuel as [|f IH]; intros p n Hs; [reflexivity|]. cbn [consumeIndent_loop]. destruct (n <=? 0); [reflexivity|]. cbv zeta.
  replace (state p =? stOpening) with false by (symmetry; apply Z.eqb_neq; exact Hs).
  destruct (_ && _); [rewrite IH; [reflexivity|exact Hs]|]. destruct (_ && _); [|reflexivity].
  destruct (_ <? _); [reflexivity|]. rewrite IH; [reflexivity|exact Hs].
Qed.
Lemma state_consumeIndent_no p n : state p <> stOpening -> state (consumeIndent p n) = state p.
Proof. apply state_consumeIndent_loop_no. Qed.

Lemma state_collectInline_no p kind n : state p <> stOpening -> state p <> stDescendTerminated -> state (collectInline p kind n) = state p.
Proof.
  intros H1 H2. unfold collectInline. replace (state p =? stDescendTerminated) with false by (symmetry; apply Z.eqb_neq; exact H2). cbv zeta.
  replace (state p =? stOpening) with false by (symmetry; apply Z.eqb_neq; exact H1).
  unfold updCont, withRoot. cbn [state setLP]. destruct (0 <? indent p).
  - rewrite state_advance_no; cbn [state setLP]; rewrite state_advance_no; [reflexivity|exact H1|exact H1|exact H1].
  - rewrite state_advance_no; [reflexivity|exact H1].
Qed.

Definition DT := stDescendTerminated.
Definition mrOK (L : Z) (p p' q' : lp) : Prop :=
  FQ L p' q' /\ (state p' <> DT -> li q' = li p') /\
  (state p' = DT -> li p' = len (line p) /\ li q' = len (line p) + 1 /\ forall c, getAt (cdepth p') (root p') = Some c -> lmB c = true).
Lemma mr_same L p p' q' : FQ L p' q' -> li q' = li p' -> state p' = stDescending -> mrOK L p p' q'.
Proof. intros H E Hs. split; [exact H|split; [intros _; exact E|]]. intros X. rewrite Hs in X. discriminate. Qed.
Lemma mr_consumed L p p1 q1 K : FQ L p1 q1 -> line p1 = line p -> state p1 = stDescending -> ccP p1 -> ckind p1 K ->
  (forall k, canContain K k = false) -> K <> ListMarkerKind -> mrOK L p (consumeLine p1) (consumeLine q1).
Proof.
  intros H El Hs Hc Hk Hn N. destruct (FQ_consumeLine L p1 q1 H) as [H2 E2].
  assert (Eq : li (consumeLine q1) = len (line p) + 1).
  { pose proof (FQ_li L p1 q1 H) as Hli. assert (Hq : 0 <= li q1 <= len (line q1)).
    { destruct H as (_ & _ & _ & _ & _ & _ & _ & E & _ & Li & Hcu & _). rewrite E, fs_len_app, fs_len1. destruct Hcu as [(-> & _)|[_ ->]]; lia. }
    destruct (consumeLine_shape q1 Hq) as (c2 & t2 & ->). cbn [li]. assert (E : line q1 = line p1 ++ [10]) by apply H. rewrite E, fs_len_app, fs_len1, El. reflexivity. }
  split; [exact H2|split].
  - intros X. exfalso. apply X. pose proof (FQ_li L p1 q1 H) as Hli. destruct (consumeLine_shape p1 Hli) as (c1 & t1 & ->). cbn [state]. rewrite Hs. reflexivity.
  - intros _. split; [rewrite E2, El; reflexivity|split; [exact Eq|]].
    apply (lmB_container (consumeLine p1) K); [apply ccP_consumeLine, Hc|eapply ckind_same; [apply same_consumeLine|exact Hk]|exact Hn|exact N].
Qed.

Lemma cc_contBlock p : cc (root p) = true -> cc (contBlock p) = true.
Proof. intros H. unfold contBlock. destruct (getAt (cdepth p) (root p)) as [x|] eqn:E; [eapply cc_getAt; eassumption|reflexivity]. Qed.
Lemma FQ_childCount L p q : FQ L p q -> cc (root p) = true -> containerKind p = ListItemKind -> childCount (contBlock q) = childCount (contBlock p).
Proof.
  intros H Hc Hk. rewrite (FQ_contBlock L p q H Hc). apply childCount_F; [apply cc_contBlock, Hc|]. unfold containerKind in Hk. rewrite Hk. reflexivity.
Qed.

Lemma mr_consumeIndent L p q n : FQ L p q -> li q = li p -> state p = stDescending -> mrOK L p (consumeIndent p n) (consumeIndent q n).
Proof.
  intros H Es Hst. destruct (FQ_consumeIndent' L p q n H) as [A B]. apply mr_same; [exact A|apply B, Es|].
  rewrite state_consumeIndent_no; [exact Hst|rewrite Hst; discriminate].
Qed.

Lemma FQ_matchListItem L p q : FQ L p q -> li q = li p -> Sp L p -> state p = stDescending ->
  fst (matchListItem q) = fst (matchListItem p) /\ mrOK L p (snd (matchListItem p)) (snd (matchListItem q)).
Proof.
  intros H Es HS Hst. unfold matchListItem. pose proof (Sp_cc L p HS) as Hc. destruct (FQ_field L p q H Hc) as (F1 & _ & _).
  rewrite (FQ_isRestBlank L p q H), (FQ_containerKind L p q H Hc), (FQ_indent L p q H), F1.
  destruct (isRestBlank p).
  - destruct (Z.eqb_spec (containerKind p) ListItemKind) as [Ek|Nk]; cbn [andb negb].
    + rewrite (FQ_childCount L p q H Hc Ek). destruct (negb _); split; cbn [fst snd]; try reflexivity; [apply mr_same; assumption|apply mr_consumeIndent; assumption].
    + split; [reflexivity|apply mr_same; assumption].
  - destruct (_ <=? _); split; cbn [fst snd]; try reflexivity; [apply mr_consumeIndent; assumption|apply mr_same; assumption].
Qed.

(* the cursor after ConsumeIndent(Indent()) *)
Lemma after_indent L p q : FQ L p q -> li q = li p -> G p ->
  let p1 := consumeIndent p (indent p) in let q1 := consumeIndent q (indent p) in
  FQ L p1 q1 /\ li q1 = li p1 /\ G p1 /\ rest p1 = bytesAfterIndent p /\ li p1 = li p + indentLength (rest p) /\ line p1 = line p /\ lineStart p1 = lineStart p.
Proof.
  intros H Es HG. cbv zeta. pose proof HG as (A & B & C). destruct (consume_all p A B) as (R1 & L1 & L2 & (E1 & E2 & _)).
  destruct (FQ_consumeIndent' L p q (indent p) H) as [Ha Hb].
  split; [exact Ha|]. split; [apply Hb, Es|]. split; [apply G_consumeIndent, HG|]. repeat split; assumption.
Qed.
Lemma bai_pos L p q : FQ L p q -> bytesAfterIndent p <> [] -> li p + indentLength (rest p) < len (line p).
Proof.
  intros H Hne. pose proof (FQ_li L p q H) as Hli. pose proof (trim_len (rest p)) as T. rewrite (len_rest p Hli) in T.
  fold (bytesAfterIndent p) in T. destruct (bytesAfterIndent p) as [|c r]; [congruence|]. rewrite len_cons in T. pose proof (len_nonneg r). lia.
Qed.
Lemma bai_len L p q : FQ L p q -> li p + indentLength (rest p) + len (bytesAfterIndent p) = len (line p).
Proof. intros H. pose proof (FQ_li L p q H) as Hli. pose proof (trim_len (rest p)) as T. rewrite (len_rest p Hli) in T. fold (bytesAfterIndent p) in T. lia. Qed.

Lemma FQ_matchBlockQuote L p q : FQ L p q -> li q = li p -> Sp L p -> state p = stDescending ->
  fst (matchBlockQuote q) = fst (matchBlockQuote p) /\ mrOK L p (snd (matchBlockQuote p)) (snd (matchBlockQuote q)).
Proof.
  intros H Es HS Hst. unfold matchBlockQuote. cbv zeta. rewrite (FQ_indent L p q H).
  destruct (_ <=? _); [split; [reflexivity|apply mr_same; assumption]|].
  rewrite (ext_hbp1 _ _ 62 ltac:(discriminate) (proj1 (FQ_bai L p q H))).
  destruct (hasBytePrefix (bytesAfterIndent p) [62]) eqn:Hp; cbn [negb]; [|split; [reflexivity|apply mr_same; assumption]].
  split; [reflexivity|]. cbn [snd]. unfold eatQuoteMarker. cbv zeta.
  destruct (after_indent L p q H Es (Sp_G L p HS)) as (H1 & Es1 & G1 & R1 & L1 & E1 & _). cbv zeta in H1, Es1, G1, R1, L1, E1.
  assert (Hne : bytesAfterIndent p <> []) by (intros X; rewrite X in Hp; discriminate).
  pose proof (bai_pos L p q H Hne) as Hpos.
  assert (S1 : state (consumeIndent p (indent p)) = stDescending) by (rewrite state_consumeIndent_no; [exact Hst|rewrite Hst; discriminate]).
  set (p1 := consumeIndent p (indent p)) in *. set (q1 := consumeIndent q (indent p)) in *. clearbody p1 q1.
  destruct (FQ_advance' L p1 q1 1 H1 ltac:(rewrite L1, E1; lia)) as [H2 Hs2]. specialize (Hs2 Es1).
  assert (S2 : state (advance p1 1) = stDescending) by (rewrite state_advance_no; [exact S1|rewrite S1; discriminate]).
  rewrite (FQ_indent L _ _ H2). destruct (0 <? _).
  - destruct (FQ_consumeIndent' L _ _ 1 H2) as [H3 Hs3]. apply mr_same; [exact H3|apply Hs3, Hs2|].
    rewrite state_consumeIndent_no; [exact S2|rewrite S2; discriminate].
  - apply mr_same; assumption.
Qed.

Lemma FQ_matchFenced L p q : FQ L p q -> li q = li p -> Sp L p -> state p = stDescending -> containerKind p = FencedCodeBlockKind ->
  fst (matchFenced q) = fst (matchFenced p) /\ mrOK L p (snd (matchFenced p)) (snd (matchFenced q)).
Proof.
  intros H Es HS Hst Hk. unfold matchFenced. cbv zeta. pose proof (Sp_cc L p HS) as Hc. destruct (FQ_field L p q H Hc) as (F1 & F2 & F3).
  destruct (ext_recog _ _ (proj1 (FQ_bai L p q H))) as (_ & _ & _ & Rf & _).
  rewrite (FQ_indent L p q H), Rf, F1, F2, F3.
  destruct (if indent p <? codeBlockIndentLimit then _ else false); split; cbn [fst snd]; try reflexivity.
  - apply (mr_consumed L p p q FencedCodeBlockKind); [exact H|reflexivity|exact Hst|apply (Sp_ccP L p HS)| |apply noKids_fenced|discriminate].
    rewrite <- Hk. apply ckind_self.
  - apply mr_consumeIndent; assumption.
Qed.

Lemma FQ_matchIndented L p q : FQ L p q -> li q = li p -> Sp L p -> state p = stDescending ->
  fst (matchIndented q) = fst (matchIndented p) /\ mrOK L p (snd (matchIndented p)) (snd (matchIndented q)).
Proof.
  intros H Es HS Hst. unfold matchIndented. cbv zeta. rewrite (FQ_indent L p q H), (FQ_isRestBlank L p q H).
  destruct (_ <? _); [destruct (negb _)|]; split; cbn [fst snd]; try reflexivity; [apply mr_same; assumption|apply mr_consumeIndent; assumption|apply mr_consumeIndent; assumption].
Qed.

Lemma FQ_matchHTML L p q : FQ L p q -> li q = li p -> Sp L p -> state p = stDescending -> containerKind p = HTMLBlockKind ->
  fst (matchHTML q) = fst (matchHTML p) /\ mrOK L p (snd (matchHTML p)) (snd (matchHTML q)).
Proof.
  intros H Es HS Hst Hk. unfold matchHTML. pose proof (Sp_cc L p HS) as Hc. destruct (FQ_field L p q H Hc) as (_ & F2 & _).
  destruct (FQ_bai L p q H) as [Eb Ob]. rewrite F2, (ext_htmlEnd _ _ _ Eb Ob), (FQ_isRestBlank L p q H).
  destruct (htmlEnd _ _); [|split; [reflexivity|apply mr_same; assumption]].
  destruct (isRestBlank p); split; cbn [fst snd]; try reflexivity; [apply mr_same; assumption|].
  assert (HT : Tp L HTMLBlockKind p) by (rewrite <- Hk; apply (Sp_Tp L p HS)).
  destruct (FQ_collect_rest L p q H Es HT (Sp_G L p HS)) as [H1 _].
  apply (mr_consumed L p _ _ HTMLBlockKind); [exact H1| | | | |apply noKids_html|discriminate].
  - pose proof (env_collectInline p RawHTMLKind (len (bytesAfterIndent p))) as Ee. apply env_fields in Ee. tauto.
  - rewrite state_collectInline_no; [exact Hst|rewrite Hst; discriminate|rewrite Hst; discriminate].
  - apply ccP_collectInline, (Sp_ccP L p HS).
  - apply ckind_collectInline. rewrite <- Hk. apply ckind_self.
Qed.

Lemma FQ_matchRule L p q : FQ L p q -> li q = li p -> Sp L p -> state p = stDescending ->
  fst (matchRule q) = fst (matchRule p) /\ mrOK L p (snd (matchRule p)) (snd (matchRule q)).
Proof.
  intros H Es HS Hst. unfold matchRule. cbv zeta. rewrite (FQ_containerKind L p q H (Sp_cc L p HS)).
  destruct (_ || _); [split; [reflexivity|apply mr_same; assumption]|].
  destruct (_ =? ListItemKind); [apply FQ_matchListItem; assumption|].
  destruct (_ =? BlockQuoteKind); [apply FQ_matchBlockQuote; assumption|].
  destruct (Z.eqb_spec (containerKind p) FencedCodeBlockKind) as [Ef|_]; [apply FQ_matchFenced; assumption|].
  destruct (_ =? IndentedCodeBlockKind); [apply FQ_matchIndented; assumption|].
  destruct (Z.eqb_spec (containerKind p) HTMLBlockKind) as [Eh|_]; [apply FQ_matchHTML; assumption|].
  split; cbn [fst snd]; [rewrite (FQ_isRestBlank L p q H); reflexivity|apply mr_same; assumption].
Qed.

(* ---- descent ---- *)
Lemma Sp_enter L p d : Sp L p -> (exists x, getAt d (root p) = Some x) -> Sp L (withState (withCont p (Some d)) stDescending).
Proof.
  intros (A & B & C) Hx. split; [exact A|split; [|exact C]]. apply (ccP_same (withCont p (Some d))); [split; reflexivity|]. apply ccP_withCont; assumption.
Qed.
Lemma Sp_matchRule L p : Sp L p -> Sp L (snd (matchRule p)).
Proof. intros (A & B & C). split; [apply G_matchRule, A|split; [apply ccP_matchRule, B|apply QP_matchRule, C]]. Qed.

Lemma FQ_descend_loop L : forall fuel p q d, FQ L p q -> li q = li p -> Sp L p ->
  fst (descend_loop fuel q d) = fst (descend_loop fuel p d) /\ FQ L (snd (descend_loop fuel p d)) (snd (descend_loop fuel q d)) /\
  (state (snd (descend_loop fuel p d)) <> DT -> li (snd (descend_loop fuel q d)) = li (snd (descend_loop fuel p d))).
Proof.
  induction fuel as [|f IH]; intros p q d H Es HS; [split; [reflexivity|split; [apply FQ_withCont, H|intros _; exact Es]]|].
  cbn [descend_loop]. cbv zeta. pose proof (Sp_cc L p HS) as Hc. pose proof (FQ_L0 L p q H) as L0.
  rewrite (FQ_getAt L p q (S d) H Hc). destruct (getAt (S d) (root p)) as [c|] eqn:Eg; cbn [option_map]; [|split; [reflexivity|split; [apply FQ_withCont, H|intros _; exact Es]]].
  rewrite (isOpen_F L L0), bkind_F. destruct (negb (isOpen c)); [split; [reflexivity|split; [apply FQ_withCont, H|intros _; exact Es]]|].
  destruct (negb (hasMatch _)); [split; [reflexivity|split; [apply FQ_withCont, FQ_withCont, H|intros _; exact Es]]|].
  assert (H1 : FQ L (withState (withCont p (Some (S d))) stDescending) (withState (withCont q (Some (S d))) stDescending)) by (apply FQ_withState, FQ_withCont, H).
  assert (S1 : Sp L (withState (withCont p (Some (S d))) stDescending)) by (apply Sp_enter; [exact HS|eexists; exact Eg]).
  set (p1 := withState (withCont p (Some (S d))) stDescending) in *. set (q1 := withState (withCont q (Some (S d))) stDescending) in *.
  assert (Es1 : li q1 = li p1) by exact Es. assert (St1 : state p1 = stDescending) by reflexivity. assert (Cd1 : cdepth p1 = S d) by reflexivity.
  clearbody p1 q1.
  destruct (FQ_matchRule L p1 q1 H1 Es1 S1 St1) as [Ef (H2 & Hsame & Hdt)].
  pose proof (Sp_matchRule L p1 S1) as S2. pose proof (cdepth_matchRule p1) as Cd2. pose proof (env_matchRule p1) as Ee2. apply env_fields in Ee2. destruct Ee2 as (_ & _ & Eln2).
  destruct (matchRule p1) as [ok p2]. destruct (matchRule q1) as [ok' q2]. cbn [fst snd] in *. subst ok'.
  rewrite (FQ_state L p2 q2 H2). fold DT. destruct (Z.eqb_spec (state p2) DT) as [Edt|Ndt].
  - destruct (Hdt Edt) as (A & B & Cc). split; [reflexivity|]. split; [|intros X; exfalso; apply X; exact Edt].
    apply FQ_withCont. rewrite (FQ_ls L p2 q2 H2), A, B. pose proof (FQ_end L p2 q2 H2) as He. rewrite Eln2 in He. pose proof (FQ_ls0 L p2 q2 H2). pose proof (len_nonneg (line p1)).
    apply FQ_closeLastChildAt; [exact H2|apply (Sp_cc L p2 S2)|apply (Sp_QP L p2 S2)|lia|].
    right. split; [lia|split; [lia|]]. rewrite <- Cd1, <- Cd2. exact Cc.
  - destruct (negb ok); [split; [reflexivity|split; [apply FQ_withCont, H2|intros _; apply Hsame, Ndt]]|].
    apply IH; [exact H2|apply Hsame, Ndt|exact S2].
Qed.
Lemma FQ_descendOpenBlocks L p q : FQ L p q -> li q = li p -> Sp L p ->
  fst (descendOpenBlocks q) = fst (descendOpenBlocks p) /\ FQ L (snd (descendOpenBlocks p)) (snd (descendOpenBlocks q)) /\
  (state (snd (descendOpenBlocks p)) <> DT -> li (snd (descendOpenBlocks q)) = li (snd (descendOpenBlocks p))).
Proof. intros H Es HS. unfold descendOpenBlocks. rewrite (FQ_bheight L p q H). apply FQ_descend_loop; assumption. Qed.
End GenRules.
