From Coq Require Import List ZArith Lia Bool.
Import ListNotations.
Require Import Base Tree Rdr Link Collect Html Recog LP Rules Starts Driver Render L2Kind L2CC GramDefs GramTree GramLP GramLP2 GramLP3 GramLP4.
Require L2Kind2.
Require Import TDefs TOcp TInv TDesc TStarts TLine StreamFuel BSLine1 BSLine3 TilLP1 TilLP8 TilLP10 TilLP11
  ReparseSwap ReparseOpen ReparseStarts ReparseTry ReparseDesc ReparsePass ReparseTip ReparseDead ReparseOcp ReparseAnch ReparseLineB ReparseFrame ReparseSI ReparseSC.
Open Scope Z_scope.

(* T50 continuation: the open root child is a list. *)

(* ---- no start fires on closed root children K: the same for any other closed K' ---- *)
Lemma pre_inj K a b : pre K a = pre K b -> a = b.
Proof.
  intros H. destruct a as [s1 r1 c1 l1 n1 i1 o1 t1 st1 p1]. destruct b as [s2 r2 c2 l2 n2 i2 o2 t2 st2 p2].
  unfold pre, withRoot, setLP in H. cbn in H. inversion H. subst. f_equal.
  destruct r1 as [k s e bk ik a0 n ch l lb]. destruct r2 as [k' s' e' bk' ik' a0' n' ch' l' lb'].
  unfold preR in *. cbn [set_bkids bkids] in *. match goal with E : Blk _ _ _ _ _ _ _ _ _ _ = _ |- _ => inversion E end. subst.
  match goal with E : K ++ _ = K ++ _ |- _ => apply app_inv_head in E; subst end. reflexivity.
Qed.

Definition Qg (src : bytes) (T : Z) (K : list block) (s : Z) : lp :=
  {| source := src; root := root0 K; container := Some O; lineStart := T; line := from_ src T; li := 0; col := 0;
     tabRem := computeTabRem (from_ src T) 0 0; state := s; panicked := 0 |}.
Lemma Qg_pre src T K s : Qg src T K s = pre K (Qg src T [] s).
Proof. unfold pre, Qg, preR, withRoot, setLP. cbn [root bkids set_bkids root0]. rewrite app_nil_r. reflexivity. Qed.
Lemma ccP_Qg0 src T s : ccP (Qg src T [] s).
Proof. split; [reflexivity|split; [reflexivity|eexists; reflexivity]]. Qed.

Lemma ts_none_any src T K K' : Forall closedB K -> Forall closedB K' ->
  tryStarts blockStarts (Qg src T K stOpening) = (false, Qg src T K stOpening) ->
  tryStarts blockStarts (Qg src T K' stOpening) = (false, Qg src T K' stOpening).
Proof.
  intros Kc Kc' H. rewrite (Qg_pre src T K stOpening) in H. rewrite (Qg_pre src T K' stOpening).
  rewrite (tryStarts_pre K blockStarts _ (blockStarts_pre K Kc) blockStarts_okc (ccP_Qg0 src T stOpening)) in H.
  rewrite (tryStarts_pre K' blockStarts _ (blockStarts_pre K' Kc') blockStarts_okc (ccP_Qg0 src T stOpening)).
  set (r := tryStarts blockStarts (Qg src T [] stOpening)) in *.
  assert (E1 : fst r = false) by exact (f_equal fst H). assert (E2 : pre K (snd r) = pre K (Qg src T [] stOpening)) by exact (f_equal snd H).
  apply pre_inj in E2. rewrite E1, E2. reflexivity.
Qed.

Lemma list_close_closed src T x : 0 <= T -> isOpen x = true -> bkind x = ListKind -> Forall closedB (L src T x).
Proof.
  intros HT Ho Hk. unfold L. destruct (bheight_S (root0 [x])) as [h ->]. apply Forall_forall. intros y Hy.
  unfold closedB, isOpen. rewrite (BSLine3.closeBlock_single h src x T y); [apply Z.ltb_ge; exact HT| | | |exact Hy].
  - unfold isOpen in Ho. apply Z.ltb_lt, Ho.
  - rewrite Hk. discriminate.
  - rewrite Hk. discriminate.
Qed.

Section ListLine.
  Variables (src : bytes) (T : Z).
  Hypothesis HT : 0 <= T.
  Hypothesis Hln : from_ src T <> [].
  Notation ln := (from_ src T).

  Lemma Q_Qg c s : Q src T c s = Qg src T (L src T c) s. Proof. reflexivity. Qed.

  (* the line is not blank and no start fired: a paragraph is opened, which closes the list x (its own flag reset) *)
  Lemma para_path x : isOpen x = true -> bkind x = ListKind -> isRestBlank (P src T x 1 stOpening) = false ->
    fin2 true (P src T x 1 stOpening) = fin2 true (Q src T (set_blast x false) stOpening).
  Proof.
    intros Ho Hk Hnb. set (x' := set_blast x false).
    assert (Ho' : isOpen x' = true) by (unfold x'; destruct x; exact Ho).
    assert (Hk' : bkind x' = ListKind) by (unfold x'; destruct x; exact Hk).
    pose proof (list_close_closed src T x' HT Ho' Hk') as Lcl'.
    assert (Lne' : L src T x' <> []) by apply StreamFuel.closeBlock_nonempty.
    unfold fin2. rewrite !addLineText_eq.
    (* the paragraph side *)
    assert (E1 : alP1 (P src T x 1 stOpening) = P src T x 1 stOpening) by (unfold alP1; rewrite Hnb; reflexivity).
    assert (Ellb : alLlb (P src T x 1 stOpening) = false) by (unfold alLlb; cbv zeta; rewrite Hnb; reflexivity).
    assert (E2 : alP2 (P src T x 1 stOpening) = P src T x' 1 stOpening).
    { unfold alP2. rewrite Ellb, E1. unfold P, withRoot, setLP. cbn [root container cdepth source lineStart line li col tabRem state panicked].
      assert (Er : setLastBlankUpTo 1 false (root0 [x]) = root0 [x']) by (unfold x'; destruct x; reflexivity). rewrite Er. reflexivity. }
    rewrite E1. change (containerKind (P src T x 1 stOpening)) with (bkind x). rewrite Hk. change (acceptsLines ListKind) with false. cbv iota.
    rewrite Hnb. cbn [negb]. rewrite E2.
    (* the side of the closed children *)
    set (q := Q src T x' stOpening).
    assert (Hnb' : isRestBlank q = false) by exact Hnb.
    assert (F1 : alP1 q = q) by (unfold alP1; rewrite Hnb'; reflexivity).
    assert (Fllb : alLlb q = false) by (unfold alLlb; cbv zeta; rewrite Hnb'; reflexivity).
    assert (F2 : alP2 q = q).
    { unfold alP2. rewrite Fllb, F1. unfold q, Q, withRoot, setLP. cbn [root container cdepth source lineStart line li col tabRem state panicked]. reflexivity. }
    rewrite F1. change (containerKind q) with documentKind. change (acceptsLines documentKind) with false. cbv iota. rewrite Hnb'. cbn [negb]. rewrite F2.
    (* the first openBlock makes them equal *)
    assert (EO : openBlock q ParagraphKind = openBlock (P src T x' 1 stOpening) ParagraphKind).
    { apply (openBlock_collapse src T x' (L src T x') eq_refl Lne' Lcl' 1%nat (P src T x' 1 stOpening) ParagraphKind).
      - repeat split.
      - left; reflexivity.
      - discriminate.
      - right. split; [reflexivity|]. rewrite Hk'. reflexivity. }
    rewrite EO. reflexivity.
  Qed.
End ListLine.

Definition clrB (b : block) : block := set_blast b false.

Section ListRun.
  Variables (src : bytes) (T : Z) (c : block).
  Hypothesis HT : 0 <= T.
  Hypothesis Hln : from_ src T <> [].
  Hypothesis Hop : isOpen c = true.
  Hypothesis Hcf : ccF [c] = true.
  Hypothesis Hgb : gbL [c] = true.
  Hypothesis Hk : bkind c = ListKind.
  Notation ln := (from_ src T).
  Notation P := (P src T).
  Notation Q := (Q src T).
  Notation L := (L src T).

  Lemma Lcl_c : Forall closedB (L c). Proof. apply list_close_closed; assumption. Qed.
  Lemma ckOK_list : ckOK src T c 1. Proof. right. right. exact Hk. Qed.
  Lemma scen_list : scen c 1.
  Proof. right. split; [reflexivity|]. intros K HK. rewrite Hk. unfold canContain. cbn. apply Z.eqb_neq, HK. Qed.

  (* after the starts failed on both sides: the run on any closed children ends with addLineText *)
  Lemma fin_Q_none x : isOpen x = true -> bkind x = ListKind ->
    tryStarts blockStarts (Q c 0) = (false, Q c 0) -> fin true (Q x 0) = fin2 true (Q x stOpening).
  Proof.
    intros Ho Hkx E. rewrite (fin_Q src T x Hln). rewrite (loop_none_Q src T x); [reflexivity|].
    rewrite !Q_Qg in *. apply (ts_none_any src T (L c) (L x)); [apply Lcl_c|apply list_close_closed; assumption|exact E].
  Qed.

  (* flags of the list itself *)
  Lemma L_blast x : bkind x = ListKind -> L (set_blast x false) = map clrB (L x).
  Proof.
    intros Hkx. unfold ReparseLineB.L. assert (E : bheight (root0 [set_blast x false]) = bheight (root0 [x])) by (destruct x; reflexivity).
    rewrite E. apply closeBlock_list_blast. exact Hkx.
  Qed.
  Lemma map_clr_clr l : map clrB (map clrB l) = map clrB l.
  Proof. rewrite map_map. apply map_ext. intros b. destruct b; reflexivity. Qed.

  (* ---- no start fired, all open blocks matched: the container is the list ---- *)
  Lemma none_true : tryStarts blockStarts (P c 1 stOpening) = (false, P c 1 stOpening) -> tryStarts blockStarts (Q c 0) = (false, Q c 0) ->
    closedAt T (fin2 true (P c 1 stOpening)) ->
    fin2 true (P c 1 stOpening) = fin true (Q (set_blast c false) 0).
  Proof.
    intros E1 E2 Hcl. destruct (isRestBlank (P c 1 stOpening)) eqn:Eb.
    - exfalso. revert Hcl. unfold fin2. apply open1_not_closedAt. apply addLineText_stays; [cbn; lia|exists c; split; [reflexivity|exact Hop]|right; exact Eb].
    - rewrite (para_path src T HT c Hop Hk Eb). symmetry. apply fin_Q_none; [destruct c; exact Hop|destruct c; exact Hk|exact E2].
  Qed.

  Hypothesis NoSx : forall I w, lastBlock c = Some I -> lastBlock I = Some w -> isOpen w = true -> bkind w <> SetextHeadingKind.

  Lemma cc_c' : cc c = true.
  Proof. unfold ccF in Hcf. apply andb_true_iff in Hcf. destruct Hcf as [_ H]. unfold ccL in H. cbn [forallb] in H. apply andb_true_iff in H. tauto. Qed.

  Definition h0 : nat := bheight (root0 [c]).
  Definition cstar : block := clF h0 src T c.
  Lemma cstar_open : isOpen cstar = true.
  Proof. unfold cstar, clF. destruct (lastBlock c); [|exact Hop]. unfold isOpen. rewrite bend_set_lastBlocks. exact Hop. Qed.
  Lemma cstar_kind : bkind cstar = ListKind.
  Proof. unfold cstar, clF. destruct (lastBlock c); [|exact Hk]. rewrite bkind_set_lastBlocks'. exact Hk. Qed.
  Lemma cstar_height : (bheight cstar <= bheight c)%nat.
  Proof. unfold cstar, clF. destruct (lastBlock c) as [I|] eqn:El; [|lia]. apply (bheight_set_lastBlocks_le c _ I El). apply close_height_le. Qed.

  Lemma close1_P s : closeLastChildAt (P c 1 s) 1 T = P cstar 1 s.
  Proof.
    rewrite closeLastChildAt_clF. unfold ReparseLineB.P, withRoot, setLP. cbn [root source container lineStart line li col tabRem state panicked updAt].
    change (lastBlock (root0 [c])) with (Some c). cbn [updAt]. reflexivity.
  Qed.

  (* the deepest open block is no paragraph: closing the children of the last item gives single blocks *)
  Definition tipPara (p : lp) : bool :=
    match getAt (tipDepth (bheight (root p)) (root p)) (root p) with Some t => bkind t =? ParagraphKind | None => false end.
  Lemma tip_w I w : lastBlock c = Some I -> isOpen I = true -> lastBlock I = Some w -> isOpen w = true -> bkind w = ParagraphKind ->
    tipPara (P c 1 stOpening) = true.
  Proof.
    intros E1 O1 E2 O2 Kw. unfold tipPara. change (root (P c 1 stOpening)) with (root0 [c]).
    destruct (cc_lastBlock c I cc_c' E1) as [CI _]. destruct (cc_lastBlock I w CI E2) as [Cw _].
    assert (Hnk : bkids w = []) by (apply cc_nokids; [exact Cw|intros K; rewrite Kw; reflexivity]).
    pose proof (bheight_last c I E1). pose proof (bheight_last I w E2). destruct (bheight_S w) as [n0 En0].
    assert (Eh : exists f, bheight (root0 [c]) = S (S (S (S f)))).
    { change (bheight (root0 [c])) with (S (Nat.max (bheight c) 0)). exists (Nat.max (bheight c) 0 - 3)%nat. lia. }
    destruct Eh as [f Ef]. rewrite Ef.
    assert (Step : forall g b x, lastBlock b = Some x -> isOpen x = true -> tipDepth (S g) b = S (tipDepth g x)).
    { intros g b x A B. cbn [tipDepth]. rewrite A, B. reflexivity. }
    assert (Elw : lastBlock w = None) by (unfold lastBlock; rewrite Hnk; reflexivity).
    rewrite (Step _ (root0 [c]) c eq_refl Hop), (Step _ c I E1 O1), (Step _ I w E2 O2).
    assert (E0 : tipDepth (S f) w = O) by (cbn [tipDepth]; rewrite Elw; reflexivity). rewrite E0.
    change (getAt 3 (root0 [c])) with (match lastBlock c with Some y => match lastBlock y with Some z => Some z | None => None end | None => None end).
    rewrite E1, E2, Kw. reflexivity.
  Qed.

  Lemma single_close f w : (isOpen w = true -> bkind w <> ParagraphKind /\ bkind w <> SetextHeadingKind) -> exists w1, closeBlock f src w T = [w1].
  Proof.
    intros H. destruct f as [|f]; [eexists; reflexivity|]. cbn [closeBlock]. destruct (isOpen w) eqn:Eo; cbn [negb]; [|eexists; reflexivity]. cbv zeta.
    destruct (H eq_refl) as [N1 N2]. assert (Ek : bkind (set_bend w T) = bkind w) by (destruct w; reflexivity). rewrite Ek.
    destruct (_ =? ListKind); [eexists; reflexivity|]. destruct (_ =? IndentedCodeBlockKind); [eexists; reflexivity|].
    replace (bkind w =? ParagraphKind) with false by (symmetry; apply Z.eqb_neq; exact N1).
    replace (bkind w =? SetextHeadingKind) with false by (symmetry; apply Z.eqb_neq; exact N2). eexists. reflexivity.
  Qed.

  Lemma L_cstar : tipPara (P c 1 stOpening) = false -> L cstar = L c.
  Proof.
    intros Htip. unfold ReparseLineB.L.
    assert (E1 : closeBlock (bheight (root0 [cstar])) src cstar T = closeBlock h0 src cstar T).
    { apply closeBlock_fuel2.
      - change (bheight (root0 [cstar])) with (S (Nat.max (bheight cstar) 0)). lia.
      - unfold h0. change (bheight (root0 [c])) with (S (Nat.max (bheight c) 0)). pose proof cstar_height. lia. }
    rewrite E1. fold h0. unfold cstar at 1.
    destruct (lastBlock c) as [I|] eqn:El; [|unfold clF; rewrite El; reflexivity].
    destruct (isOpen I) eqn:OI.
    2:{ unfold clF. rewrite El, (TOcp.closeBlock_closed h0 src I T OI).
        destruct (lastBlock_some c I El) as (pre0 & Ek). unfold set_lastBlocks. destruct c. cbn [bkids set_bkids] in *. rewrite Ek, removelast_snoc. reflexivity. }
    destruct (cc_lastBlock c I cc_c' El) as [CI Hcan]. rewrite Hk in Hcan. unfold canContain in Hcan. cbn in Hcan. apply Z.eqb_eq in Hcan.
    apply (SC_list src T HT h0 h0 c I Hk Hop El Hcan OI).
    - unfold h0. change (bheight (root0 [c])) with (S (Nat.max (bheight c) 0)). lia.
    - unfold h0. change (bheight (root0 [c])) with (S (Nat.max (bheight c) 0)). lia.
    - intros f w Ew. apply single_close. intros Ow. split.
      + intros Kw. rewrite (tip_w I w El OI Ew Ow Kw) in Htip. discriminate.
      + apply (NoSx I w eq_refl Ew Ow).
  Qed.

  Lemma none_false : tryStarts blockStarts (P c 1 stOpening) = (false, P c 1 stOpening) -> tryStarts blockStarts (Q c 0) = (false, Q c 0) ->
    closedAt T (fin2 true (deferredClose (P c 1 stOpening))) ->
    fin2 true (deferredClose (P c 1 stOpening)) = fin true (Q (set_blast cstar false) 0) /\ L cstar = L c.
  Proof.
    intros E1 E2 Hcl.
    destruct (negb (isRestBlank (P c 1 stOpening)) && tipPara (P c 1 stOpening)) eqn:Ec.
    { exfalso. exact (lazy_dead T c Hop (P c 1 stOpening) eq_refl Ec Hcl). }
    assert (Ed : deferredClose (P c 1 stOpening) = P cstar 1 stOpening).
    { unfold deferredClose. cbv zeta. unfold tipPara in Ec. rewrite Ec. change (cdepth (P c 1 stOpening)) with 1%nat. change (lineStart (P c 1 stOpening)) with T.
      apply close1_P. }
    rewrite Ed in *.
    destruct (isRestBlank (P cstar 1 stOpening)) eqn:Eb.
    - exfalso. revert Hcl. unfold fin2. apply open1_not_closedAt. apply addLineText_stays; [cbn; lia|exists cstar; split; [reflexivity|exact cstar_open]|right; exact Eb].
    - assert (Htip : tipPara (P c 1 stOpening) = false).
      { change (isRestBlank (P c 1 stOpening)) with (isRestBlank (P cstar 1 stOpening)) in Ec. rewrite Eb in Ec. exact Ec. }
      split; [|apply L_cstar, Htip].
      rewrite (para_path src T HT cstar cstar_open cstar_kind Eb). symmetry.
      apply fin_Q_none; [destruct cstar eqn:E0; pose proof cstar_open as X; rewrite E0 in X; exact X
                        |destruct cstar eqn:E0; pose proof cstar_kind as X; rewrite E0 in X; exact X|exact E2].
  Qed.

  (* ---- all open blocks matched: the tip is the list itself ---- *)
  Lemma tipKind_am s : match lastBlock c with Some x => isOpen x = false | None => True end -> tipKind (P c 1 s) = ListKind.
  Proof.
    intros Ham. unfold tipKind. change (root (P c 1 s)) with (root0 [c]). destruct (bheight_S c) as [n En].
    assert (Eh : bheight (root0 [c]) = S (S n)) by (change (bheight (root0 [c])) with (S (Nat.max (bheight c) 0)); rewrite En; lia).
    rewrite Eh.
    assert (E1 : tipDepth (S (S n)) (root0 [c]) = S (tipDepth (S n) c)).
    { assert (A : lastBlock (root0 [c]) = Some c) by reflexivity. cbn [tipDepth]. rewrite A, Hop. reflexivity. }
    assert (E0 : tipDepth (S n) c = O) by (cbn [tipDepth]; destruct (lastBlock c) as [x|]; [rewrite Ham|]; reflexivity).
    rewrite E1, E0. exact Hk.
  Qed.

  (* ---- a list item with the list's own marker: it is added to the list ---- *)
  Lemma item_dead (am : bool) s : s <> stDescendTerminated -> itemTouch (P c 1 stOpening) ->
    tryStarts blockStarts (P c 1 stOpening) = tryStarts [startListItem; startIndented] (P c 1 stOpening) ->
    ~ closedAt T (fin am (P c 1 s)).
  Proof.
    intros Hs (Ekc & Hi & delim & n & mend & Epm & Hm & Ebc) Epre.
    set (p0 := P c 1 stOpening) in *.
    set (p1 := consumeIndent p0 (indent p0)).
    assert (S1 : st_open p1) by (apply st_open_consumeIndent; left; reflexivity).
    assert (G0 : GI p0) by (apply GI_P; [exact Hop|exact Hcf|exact Hgb|lia]).
    assert (G1 : GI p1) by (apply GI_consumeIndent, G0).
    assert (C1 : CU p1) by (apply CU_consumeIndent, CU_P; assumption).
    destruct (same_consumeIndent p0 (indent p0)) as [R1 Cn1]. fold p1 in R1, Cn1.
    assert (K1 : containerKind p1 = ListKind) by (unfold containerKind, contBlock, cdepth; rewrite Cn1, R1; exact Ekc).
    assert (B1 : bchar (contBlock p1) = delim) by (unfold contBlock, cdepth; rewrite Cn1, R1; exact Ebc).
    (* the start is the tail of startListItem on p1 *)
    assert (Esl : startListItem p0 = itemTail p1 delim (indent p0) mend).
    { unfold startListItem. cbv zeta. replace (codeBlockIndentLimit <=? indent p0) with false by (symmetry; apply Z.leb_gt; exact Hi).
      rewrite Epm, Ekc. change (ListKind =? ParagraphKind) with false. cbn [andb orb].
      replace (mend <? 0) with false by (symmetry; apply Z.ltb_ge; exact Hm). cbv iota.
      fold p1. rewrite K1, B1. change (ListKind =? ListKind) with true. cbn [orb negb]. rewrite Z.eqb_refl. cbn [negb]. reflexivity. }
    (* the new item is an anchor *)
    assert (JO : JA (openBlock p1 ListItemKind)).
    { assert (Hcan : canContain (containerKind p1) ListItemKind = true) by (rewrite K1; reflexivity).
      assert (Ecd : cdepth (openBlock p1 ListItemKind) = 2%nat).
      { rewrite (cdepth_openBlock p1 ListItemKind S1), (obPre_stay p1 ListItemKind Hcan). change (cdepth (closeLastChildAt ?q ?d ?e)) with (cdepth q).
        destruct (state p1 =? stOpening); unfold cdepth; cbn [container withState setLP]; rewrite Cn1; reflexivity. }
      exists 2%nat. split.
      - rewrite (root_openBlock p1 ListItemKind S1), (obPre_stay p1 ListItemKind Hcan).
        assert (Ecd' : cdepth (closeLastChildAt (if state p1 =? stOpening then withState p1 stOpenMatched else p1) (cdepth p1) (lineStart p1)) = 1%nat).
        { change (cdepth (closeLastChildAt ?q ?d ?e)) with (cdepth q). destruct (state p1 =? stOpening); unfold cdepth; cbn [container withState setLP]; rewrite Cn1; reflexivity. }
        rewrite Ecd'. apply open1_updAt_gen; [lia|intros _ b; destruct b; reflexivity|].
        rewrite closeLastChildAt_eq. cbn [root withRoot setLP]. assert (Ecp : cdepth p1 = 1%nat) by (unfold cdepth; rewrite Cn1; reflexivity). rewrite Ecp.
        apply open1_updAt_gen; [lia| |].
        + intros _ b. unfold TInv.closeF. destruct (lastBlock b); [|reflexivity]. unfold isOpen. rewrite bend_set_lastBlocks. reflexivity.
        + assert (Er : root (if state p1 =? stOpening then withState p1 stOpenMatched else p1) = root0 [c]) by (destruct (state p1 =? stOpening); exact R1).
          rewrite Er. exists c. split; [reflexivity|exact Hop].
      - split; [rewrite Ecd; lia|]. exists ListItemKind. split; [|right; right; reflexivity].
        pose proof (ckind_openBlock p1 ListItemKind S1) as Hck.
        assert (Hwf : wf (openBlock p1 ListItemKind)) by (apply (ccP_openBlock p1 ListItemKind (proj1 G1)); right; exact Hcan).
        destruct Hwf as (x & Hx). pose proof (Hck x Hx) as Hkx. rewrite Ecd in Hx. unfold kindAt. rewrite Hx. cbn [option_map]. rewrite Hkx. reflexivity. }
    pose proof (IA_itemTail p1 delim (indent p0) mend S1 G1 C1 K1 B1 JO) as HIA. rewrite <- Esl in HIA.
    (* the rest of tryStarts *)
    assert (HT2 : IA (snd (tryStarts blockStarts p0))).
    { rewrite Epre. cbn [tryStarts]. cbv zeta. change (withState p0 stOpening) with p0.
      destruct (_ || _); [exact HIA|]. cbn [snd]. destruct (_ || _); cbn [snd]; apply IA_startIndented; try (left; reflexivity); apply (I_withState JA JA_same), HIA. }
    rewrite (fin_open src T Hln am (P c 1 s) Hs eq_refl).
    rewrite (opening_loop_S _ (P c 1 s) (guard_P src T c 1 s ckOK_list)), (tryStarts_reset (P c 1 s)). change (withState (P c 1 s) stOpening) with p0.
    destruct (tryStarts blockStarts p0) as [[|] p'] eqn:Et; cbn [snd] in HT2.
    - destruct (state p' =? stLineConsumed); [apply dead_tail, HT2|].
      pose proof (IA_opening_loop (length ln) p' HT2) as H3. destruct (opening_loop (length ln) p') as [ht p2]. apply dead_tail, H3.
    - apply dead_tail, HT2.
  Qed.

  (* ---- the list scenario ---- *)
  Theorem run_ML (am : bool) : (am = true -> match lastBlock c with Some x => isOpen x = false | None => True end) ->
    closedAt T (fin am (P c 1 stDescending)) ->
    exists x, isOpen x = true /\ bkind x = ListKind /\ map clrB (L x) = map clrB (L c) /\ fin am (P c 1 stDescending) = fin true (Q x 0).
  Proof.
    intros Ham Hcl.
    assert (Hs : stDescending <> stDescendTerminated) by discriminate.
    destruct (ts_P src T c Lcl_c 1 scen_list ckOK_list) as [E|E1 E2|E1 HB|lv Ek _ _|HI Epre].
    - exists c. split; [exact Hop|]. split; [exact Hk|]. split; [reflexivity|].
      apply (run_same src T c Hop Hcf Hgb HT Hln Lcl_c 1 stDescending am Hs ckOK_list). exact E.
    - rewrite (fin_open src T Hln am (P c 1 stDescending) Hs eq_refl), (loop_none src T c 1 stDescending ckOK_list E1) in Hcl |- *.
      destruct am.
      + exists (set_blast c false). split; [destruct c; exact Hop|]. split; [destruct c; exact Hk|]. split; [rewrite (L_blast c Hk); apply map_clr_clr|].
        apply none_true; assumption.
      + destruct (none_false E1 E2 Hcl) as [HA HB].
        exists (set_blast cstar false). split; [pose proof cstar_open; destruct cstar; assumption|]. split; [pose proof cstar_kind; destruct cstar; assumption|].
        split; [rewrite (L_blast cstar cstar_kind), HB; apply map_clr_clr|exact HA].
    - exfalso. rewrite (fin_open src T Hln am (P c 1 stDescending) Hs eq_refl), (loop_none src T c 1 stDescending ckOK_list E1) in Hcl.
      destruct HB as [HB|[HB1 HB2]]; [change (containerKind (P c 1 stOpening)) with (bkind c) in HB; rewrite Hk in HB; discriminate|].
      destruct am.
      + rewrite (tipKind_am stOpening (Ham eq_refl)) in HB1. discriminate.
      + apply (lazy_dead T c Hop (P c 1 stOpening) eq_refl); [|exact Hcl]. rewrite HB2, (tipKind_cond _ HB1). reflexivity.
    - exfalso. change (containerKind (P c 1 stOpening)) with (bkind c) in Ek. rewrite Hk in Ek. discriminate.
    - exfalso. exact (item_dead am stDescending Hs HI Epre Hcl).
  Qed.
End ListRun.

(* ---- every kind of open root child ---- *)
Theorem lineB_all src T c st : isOpen c = true -> ccF [c] = true -> gbL [c] = true -> 0 <= T -> from_ src T <> [] ->
  Forall closedB (L src T c) ->
  (st = stDescendTerminated -> hasMatch (bkind c) = true) ->
  (bkind c = ParagraphKind -> forall h rest, fst (fst (processLine st [c] T src)) = h :: rest -> bkind h <> LinkReferenceDefinitionKind) ->
  (forall I w, lastBlock c = Some I -> lastBlock I = Some w -> isOpen w = true -> bkind w <> SetextHeadingKind) ->
  closedAt T (processLine st [c] T src) ->
  exists L0, Forall closedB L0 /\ map clrB L0 = map clrB (L src T c) /\ processLine st [c] T src = processLine 0 L0 T src.
Proof.
  intros Hop Hcf Hgb HT Hln Lcl Hst Hnr NoSx Hcl.
  destruct (Z.eq_dec (bkind c) ListKind) as [Hk|Hnl].
  2:{ exists (L src T c). split; [exact Lcl|]. split; [reflexivity|]. apply lineB_nolist; assumption. }
  assert (Hcc : cc c = true) by (apply (cc_c' c Hcf)).
  rewrite processLine_fin in Hcl |- *. 
  change (resetLP st [c] T src) with (ReparseDesc.p0 src T c st) in *.
  pose proof (descend_class src T c Hop Hcc HT st) as HD.
  pose proof (GI_descend_loop (bheight (root (P src T c 0 st))) (P src T c 0 st) O (GI_P src T c Hop Hcf Hgb 0 st ltac:(lia)) eq_refl) as HG.
  change (descend_loop (bheight (root (P src T c 0 st))) (P src T c 0 st) 0) with (descendOpenBlocks (ReparseDesc.p0 src T c st)) in HG.
  destruct (descendOpenBlocks (ReparseDesc.p0 src T c st)) as [am p1]. cbn [fst snd] in *.
  assert (HU : forall s, s <> stDescendTerminated -> closedAt T (fin false (P src T c 0 s)) ->
            exists L0, Forall closedB L0 /\ map clrB L0 = map clrB (L src T c) /\ fin false (P src T c 0 s) = processLine 0 L0 T src).
  { intros s Hs Hc0. exists (L src T c). split; [exact Lcl|]. split; [reflexivity|]. rewrite (processLine_Q src T c Lcl). apply run_U; assumption. }
  destruct HD as [Hm Ea E1|y Es Ek Eb Hl|c' Es Ek Ho|Ea E1|Hkp Ea E1 Hb|_ E1 Ham|Ha Hnp Ea Es Er Ec Ev HC|d Es Er Ec Ha Ev HC].
  - subst am p1. rewrite p0_P in *. destruct (Z.eq_dec st stDescendTerminated) as [E|N]; [rewrite (Hst E) in Hm; discriminate|]. apply HU; assumption.
  - exfalso. unfold fin in Hcl. rewrite Es in Hcl. cbn in Hcl. destruct Hcl as (h & rest & Eh & _ & Hb). cbn [fst] in Eh. rewrite Ek in Eh.
    inversion Eh; subst h. pose proof (len_ln_pos src T Hln). change (ReparseDesc.ln src T) with (from_ src T) in *. lia.
  - exfalso. unfold fin in Hcl. rewrite Es in Hcl. cbn in Hcl. destruct Hcl as (h & rest & Eh & Hc & _). cbn [fst] in Eh. rewrite Ek in Eh.
    inversion Eh; subst h. congruence.
  - subst am p1. rewrite pd_P in *. apply HU; [discriminate|assumption].
  - rewrite Hkp in Hk. discriminate.
  - subst p1. rewrite pd_P in *.
    destruct (run_ML src T c HT Hln Hop Hcf Hgb Hk NoSx am Ham Hcl) as (x & Ox & Kx & Ex & Ef).
    exists (L src T x). split; [apply list_close_closed; assumption|]. split; [exact Ex|].
    rewrite (processLine_Q src T x (list_close_closed src T x HT Ox Kx)). exact Ef.
  - rewrite Hk in Ha. discriminate.
  - exfalso. apply (dead_run src T Hln am p1); [|rewrite Es; discriminate|destruct Ev as (_ & E & _); exact E|exact Hcl].
    split; [exact HG|]. split; [exact HC|]. apply (anch_of c Hop Hcf d); [exact Er|exact Ec|exact Ha|apply HG].
Qed.
Print Assumptions lineB_all.
