From Coq Require Import List ZArith Lia Bool.
Import ListNotations.
Require Import Base Tree Rdr Link Collect Html Recog LP Rules Starts Driver Inl3e Stream C01a C01b Rec16 Rec17 Rec18 L2Bnd L2BndS
               StreamRd StreamSim StreamFuel StreamRun.
Open Scope Z_scope.

(* ================================================================================================== *)
(* C08 on the concrete model: streaming = in-memory                                                    *)
(* ================================================================================================== *)

(* The bound of the task.  What the "block too large" branch of readlineS really needs is weaker: the branch is taken
   iff newSize <= len buf, i.e. iff (maxBlockSize - len buf) / 3 <= 0, i.e. iff len buf + 3 > maxBlockSize; every buffer
   of the streaming run is a prefix of a suffix of pad input, and len (pad input) <= 3 * len input (every NUL becomes
   three bytes).  So  3 * len input + 3 <= maxBlockSize  (small_min) is enough; `small` implies it. *)
Definition small (input : bytes) : Prop := 3 * len input + 3 * chunkSize <= maxBlockSize.
Definition small_min (input : bytes) : Prop := 3 * len input + 3 <= maxBlockSize.
Lemma small_small_min input : small input -> small_min input.
Proof. unfold small, small_min, chunkSize. lia. Qed.

(* the full statement of the task *)
Definition parseStream_eq_statement : Prop :=
  forall caps eager final input, final <> 0 -> small input ->
    let '(roots, err, extra, log, code) := parseStream caps eager final input in
    roots = fst (parseFull input) /\ code = snd (parseFull input) /\
    (code = 0 -> err = final /\ extra = [final; final; final]).

(* WHAT IS PROVED AND WHAT IS MISSING.
   The two entry points hand different fuel to their loops (in memory: allBlocks S (length (pad input)) and nextBlock
   3 + length buf; streaming: allBlocksS S (S (3 * length input)) and nextBlockS 4 + length buf + 3 * length rem, always
   strictly more), so besides the simulation of the generic proof (StreamRd.readlineS_sim, StreamSim.nextBlock_sim: one
   nextBlockS call simulates one nextBlock call with the same fuel) one needs that the extra fuel changes nothing.
   - inner loops: StreamFuel.nextBlock_adequate shows that the in-memory nextBlock is the same function of its state for
     every fuel >= 3 + length buf, NBStuck included (the only iterations that do not consume a byte are those on the
     empty line at end of input; there processLine is computed explicitly, StreamFuel.processLine_eof, and the loop
     returns within two iterations or never).  So codes 0, -2 and the panic sites are reproduced exactly, without
     hypothesis.
   - outer loop: parseStream_eq_enough / parseStream_eq_partial below prove the statement of the task (even under the
     weaker bound small_min) for every input whose in-memory run does not use up the S (length (pad input)) calls of
     allBlocks (code -1).  parseStream_eq_from_consume reduces the full statement to blocks_consume_statement: every
     root block of the in-memory run consumes at least one byte of the buffer.  That is the strict form of the sibling
     order of C01/C02 (1 <= end of a closed first child, ends of closed top-level siblings strictly increasing); it needs
     a lower-bound ("geometry") invariant through the whole block layer and the link-definition reader, which the
     development does not have (L2Bnd/RdrBound give upper bounds only; PropsProved.v lists "starts <= ends, nesting,
     sibling order" and "fuel sufficiency of the line loop" as open).  It is not proved here.
     The hypothesis is decidable for each concrete input; it holds (code 0, every root block non-empty) for all
     104976 inputs of length 4 over an 18-byte alphabet and all 531441 inputs of length 6 over a 9-byte alphabet
     (vm_compute, not part of this file); Example fuel_ok_small below checks length <= 3. *)
Definition init (input : bytes) : bpst := {| buf := pad input; bi := 0; boff := 0; bline := 1; pending := [] |}.

(* the most general form: `enough` (StreamRun) says that the outer loop of the in-memory run does not use up its calls *)
Theorem parseStream_eq_enough : forall caps eager final input, final <> 0 -> small_min input ->
  enough (S (length (pad input))) (init input) ->
  let '(roots, err, extra, log, code) := parseStream caps eager final input in
  roots = fst (parseFull input) /\ code = snd (parseFull input) /\
  (code = 0 -> err = final /\ extra = [final; final; final]).
Proof.
  intros caps eager final input Hfin0 Hsmall H1.
  rewrite parseFull_code. rewrite parseFull_roots. cbv zeta.
  unfold parseBlocks in *. cbv zeta in *. unfold init in H1.
  set (sm0 := {| buf := pad input; bi := 0; boff := 0; bline := 1; pending := [] |}) in *.
  unfold parseStream. cbv zeta.
  set (ss0 := {| sbp := {| buf := []; bi := 0; boff := 0; bline := 1; pending := [] |}; serr := 0;
                 srdr := {| s_rem := input; s_caps := caps; s_eager := eager; s_final := final; s_log := [] |} |}).
  assert (HR0 : R final sm0 ss0).
  { unfold R, sm0, ss0, small_min in *. cbn [sbp serr srdr buf bi boff bline pending s_rem s_final].
    pose proof (len_pad_le input). change (len (@nil Z)) with 0.
    repeat split; try reflexivity; try lia; left; reflexivity. }
  assert (HS0 : SI sm0 (pending sm0) true).
  { unfold SI, sm0. cbn [buf bi pending]. pose proof (len_nonneg (pad input)). repeat split; try lia; try reflexivity; try discriminate. }
  assert (Hf : (S (length (pad input)) <= S (S (3 * length input)))%nat).
  { pose proof (length_pad_le input). lia. }
  destruct (allBlocks_sim final Hfin0 _ _ sm0 ss0 [] true Hf HR0 HS0 H1) as (err & s1 & Eall & Hend).
  rewrite Eall.
  destruct (extraCall s1) as [e1 s2] eqn:X1. destruct (extraCall s2) as [e2 s3] eqn:X2. destruct (extraCall s3) as [e3 s4] eqn:X3.
  split; [reflexivity|]. split; [reflexivity|].
  intros Hc. destruct (Hend Hc) as (-> & sm1 & HR1 & He1). split; [reflexivity|].
  destruct (extraCall_sim final Hfin0 sm1 s1 HR1 He1) as (sm2 & s2' & Y1 & HR2 & He2).
  rewrite X1 in Y1. inversion Y1; subst e1 s2'.
  destruct (extraCall_sim final Hfin0 sm2 s2 HR2 He2) as (sm3 & s3' & Y2 & HR3 & He3).
  rewrite X2 in Y2. inversion Y2; subst e2 s3'.
  destruct (extraCall_sim final Hfin0 sm3 s3 HR3 He3) as (sm4 & s4' & Y3 & HR4 & He4).
  rewrite X3 in Y3. inversion Y3; subst e3 s4'. reflexivity.
Qed.
Print Assumptions parseStream_eq_enough.

Theorem parseStream_eq_partial : forall caps eager final input, final <> 0 -> small_min input ->
  snd (parseFull input) <> -1 ->
  let '(roots, err, extra, log, code) := parseStream caps eager final input in
  roots = fst (parseFull input) /\ code = snd (parseFull input) /\
  (code = 0 -> err = final /\ extra = [final; final; final]).
Proof.
  intros caps eager final input Hfin0 Hsmall H1. apply parseStream_eq_enough; [exact Hfin0|exact Hsmall|].
  rewrite parseFull_code in H1. unfold parseBlocks in H1. cbv zeta in H1. eapply enough_of_code. exact H1.
Qed.
Print Assumptions parseStream_eq_partial.

(* The missing fact, in its sharpest form: every root block of the in-memory run consumes at least one byte of the
   buffer (the strict form of C01's ordering clause).  stateAfter k input = the in-memory parser state after k blocks.
   The statement of the task follows from it. *)
Definition nbStep (s : bpst) : option bpst :=
  match nextBlock (3 + length (buf s)) s with NBBlock _ s' => Some s' | _ => None end.
Fixpoint stateAfter (k : nat) (input : bytes) : option bpst :=
  match k with
  | O => Some (init input)
  | S k' => match stateAfter k' input with Some s => nbStep s | None => None end
  end.
Definition blocks_consume_statement : Prop :=
  forall input k s s', stateAfter k input = Some s -> nbStep s = Some s' -> (length (buf s') < length (buf s))%nat.

Lemma enough_of_consume input :
  (forall k s s', stateAfter k input = Some s -> nbStep s = Some s' -> (length (buf s') < length (buf s))%nat) ->
  forall f k s, stateAfter k input = Some s -> (length (buf s) < f)%nat -> enough f s.
Proof.
  intros Hc. induction f as [|f IH]; intros k s Hk Hf; [lia|]. cbn [enough].
  destruct (nextBlock (3 + length (buf s)) s) as [r s'| | |site] eqn:En; try exact I.
  assert (Hs : nbStep s = Some s') by (unfold nbStep; rewrite En; reflexivity).
  apply (IH (S k) s'); [cbn [stateAfter]; rewrite Hk; exact Hs|]. pose proof (Hc k s s' Hk Hs). lia.
Qed.

Theorem parseStream_eq_from_consume : blocks_consume_statement -> parseStream_eq_statement.
Proof.
  intros Hc caps eager final input Hfin0 Hsmall.
  apply parseStream_eq_enough; [exact Hfin0|apply small_small_min, Hsmall|].
  apply (enough_of_consume input (Hc input) _ O); [reflexivity|]. unfold init. cbn [buf]. lia.
Qed.
Print Assumptions parseStream_eq_from_consume.

(* in particular: whenever the in-memory parse completes (code 0), every streaming schedule reproduces it *)
Corollary parseStream_eq_ok : forall caps eager final input, final <> 0 -> small input ->
  snd (parseFull input) = 0 ->
  let '(roots, err, extra, log, code) := parseStream caps eager final input in
  roots = fst (parseFull input) /\ code = 0 /\ err = final /\ extra = [final; final; final].
Proof.
  intros caps eager final input Hfin0 Hsmall H0.
  pose proof (parseStream_eq_partial caps eager final input Hfin0 (small_small_min _ Hsmall) ltac:(rewrite H0; discriminate)) as H.
  destruct (parseStream caps eager final input) as [[[[roots err] extra] log] code].
  destruct H as (A & B & C). rewrite H0 in B. destruct (C B) as [D E]. repeat split; assumption.
Qed.
Print Assumptions parseStream_eq_ok.

(* C08, fault clause: a reader that fails with an injected error (2 or 3) after delivering `delivered` behaves as the
   in-memory parse of `delivered`, and reports that error (it is the same theorem: final is any non-zero code) *)
Corollary parseStream_fault : forall caps eager final delivered, (final = 2 \/ final = 3) -> small delivered ->
  snd (parseFull delivered) <> -1 ->
  let '(roots, err, extra, log, code) := parseStream caps eager final delivered in
  roots = fst (parseFull delivered) /\ code = snd (parseFull delivered) /\
  (code = 0 -> err = final /\ extra = [final; final; final]).
Proof.
  intros caps eager final delivered Hf Hsmall H1.
  apply parseStream_eq_partial; [lia|apply small_small_min, Hsmall|exact H1].
Qed.
Print Assumptions parseStream_fault.

(* the hypotheses are satisfiable (the theorems are not vacuous): "# a\r\nb\r\r> x\n\n\000- y\r" *)
Example hyp_ok : let input := [35;32;97;13;10;98;13;13;62;32;120;10;10;0;45;32;121;13] in
  small input /\ snd (parseFull input) = 0.
Proof. split; [unfold small, chunkSize, maxBlockSize; vm_compute; discriminate|vm_compute; reflexivity]. Qed.

(* every input of length <= 3 over an 18-byte alphabet (line endings, blanks, markers, brackets, NUL) parses with code 0 *)
Fixpoint allStrings (alpha : list Z) (n : nat) : list bytes :=
  match n with O => [[]] | S k => flat_map (fun s => map (fun c => c :: s) alpha) (allStrings alpha k) end.
Example fuel_ok_small :
  forallb (fun n => forallb (fun s => snd (parseBlocks s) =? 0) (allStrings [10;13;32;9;45;62;35;91;93;58;97;61;96;0;42;49;46;60] n))
          [0;1;2;3]%nat = true.
Proof. vm_compute. reflexivity. Qed.
