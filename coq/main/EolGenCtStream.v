From Coq Require Import List ZArith Lia Bool.
Import ListNotations.
Require Import Base Tables Utf8 Tree Rdr Link Collect Html Recog Inl3a Inl3b Inl3c Inl3d Inl3e LP Rules Starts Driver Leaf3e RdrBound
  L2Kind L2CC L2CCfull L2Bnd L2BndS Rec16 Rec17 Rec18
  BSDef BSRdr BSTree BSOcp BSOrph BSClose BSLine1 BSLine2 BSLine3 BSLine4 BSLine5 BSLine6 BSLine7 BSLine8 BSErase BSLine9 BSLine10 BSShift BlockSpans.
Require Import LADef LA1 LA2 LARec LA6 LA11 LA12 LAPad LA13 LAOcp ExInv1 ExDrv DefSpansOcp DefSpansWalk DefSpansDrv.
Require Import EolCRLFSimLeDefs EolCRLFSimLe EolCRLFSimStream EolCRLFSimCtDef EolGenCtDef.
Open Scope Z_scope.

(* T57-C: the single-run containment invariant of the block layer for EVERY input (no hypothesis on '[').
   KX M ch : T7's kidsOK M ch together with ct M on every root child (as in EolCRLFSimCtStream; the consequences (U), (L) and the cut
             never needed the hypothesis on '[').
   GX src B M ch : the inductive invariant of one line: kidsOK, ccF, la (T21), invD (T56), ExInv1.inv (T52); it implies KX. *)
Definition KX (M : Z) (ch : list block) : Prop := kidsOK M ch /\ allP (ct M) ch.
Definition GX (src B : bytes) (M : Z) (ch : list block) : Prop :=
  kidsOK M ch /\ ccF ch = true /\ la src M (docRoot ch) /\ invDL ch = true /\ ExInv1.invL B ch = true.
(* what LA11.la_processLine needs about the state the previous line ended in *)
Definition DTpre (st : Z) (ch : list block) : Prop :=
  st = stDescendTerminated -> exists c1, getAt 1 (docRoot ch) = Some c1 /\ bend c1 < 0 /\ hasMatch (bkind c1) = true.

Lemma ccF_ccL ch : ccF ch = true -> ccL ch = true.
Proof. unfold ccF. intros H. apply andb_true_iff in H. tauto. Qed.

Lemma GX_KX src B M ch : GX src B M ch -> KX M ch.
Proof.
  intros (Hk & Hcc & Hla & Hd & Hx). split; [exact Hk|]. apply docRoot_parts in Hla. destruct Hla as (_ & _ & Hq).
  apply (ct_of_laL src B M ch Hq Hd Hx (ccF_ccL _ Hcc)).
Qed.

(* 1. one line *)
Theorem GX_processLine H ns st children ls src B : agreeNZ src B -> 0 <= H -> 0 <= ls <= len src -> ls + len (from_ src ls) = H -> len src <= H ->
  (ns = true -> hasByteSuffixEOL (from_ src ls) = true) -> bndL H ns children = true ->
  bnd0 src ls -> eolEnd (from_ src ls) -> DTpre st children ->
  GX src B ls children ->
  GX src B H (fst (fst (processLine st children ls src))) /\
  (snd (fst (processLine st children ls src)) = stDescendTerminated -> DT (docRoot (fst (fst (processLine st children ls src))))).
Proof.
  intros Hag H0 Hls Hhi Hsrc Hns Hbnd Hb0 HE Hst (Hk & Hcc & Hla & Hd & Hx).
  pose proof (la_processLine st children ls src Hls (OcpLoopSpec_all src) Hb0 HE Hcc Hla Hst) as HP. cbv zeta in HP. rewrite Hhi in HP.
  destruct HP as [HP1 HP2]. split; [|exact HP2].
  split; [apply (sp_processLine H ns); try assumption; lia|].
  split; [apply cc_processLine; exact Hcc|]. split; [exact HP1|].
  split; [apply (D_line src H ns st children ls); try assumption; lia|].
  apply (ExInv1.inv_processLine src B Hag st children ls Hx).
Qed.
Print Assumptions GX_processLine.

Corollary KX_processLine H ns st children ls src B : agreeNZ src B -> 0 <= H -> 0 <= ls <= len src -> ls + len (from_ src ls) = H -> len src <= H ->
  (ns = true -> hasByteSuffixEOL (from_ src ls) = true) -> bndL H ns children = true ->
  bnd0 src ls -> eolEnd (from_ src ls) -> DTpre st children ->
  GX src B ls children -> KX H (fst (fst (processLine st children ls src))).
Proof. intros A1 A2 A3 A4 A5 A6 A7 A8 A9 A10 A11. eapply GX_KX. eapply GX_processLine; eassumption. Qed.
(* the upper bound of EolCRLFSimLe.le_processLine without the hypothesis on '[' *)
Corollary le_processLine_gen H ns st children ls src B : agreeNZ src B -> 0 <= H -> 0 <= ls <= len src -> ls + len (from_ src ls) = H -> len src <= H ->
  (ns = true -> hasByteSuffixEOL (from_ src ls) = true) -> bndL H ns children = true ->
  bnd0 src ls -> eolEnd (from_ src ls) -> DTpre st children ->
  GX src B ls children -> leL H (fst (fst (processLine st children ls src))) = true.
Proof.
  intros A1 A2 A3 A4 A5 A6 A7 A8 A9 A10 A11. destruct (KX_processLine H ns st children ls src B A1 A2 A3 A4 A5 A6 A7 A8 A9 A10 A11) as [_ Hc].
  unfold leL. apply forallb_forall. intros x Hx. apply ct_leB. eapply allP_In; eassumption.
Qed.
Print Assumptions KX_processLine. Print Assumptions le_processLine_gen.

(* 2. at makeRoot *)
Lemma KX_U H b rest : KX H (b :: rest) -> isOpen b = false -> leB (bend b) b = true.
Proof.
  intros [_ [Hb _]] Eo. unfold isOpen in Eo. apply Z.ltb_ge in Eo. eapply ct_closed_leB; eassumption.
Qed.
Lemma KX_L H b rest : KX H (b :: rest) -> geL (bend b) rest = true.
Proof.
  intros [[[_ Sr] (_ & _ & C3)] [_ Cr]]. apply (ct_geL H H (Z.max (bstart b) (bend b)) (-1) rest (bend b) C3 Sr Cr). lia.
Qed.
Lemma KX_cut H b rest : KX H (b :: rest) -> isOpen b = false -> KX (H - bend b) (map (shiftB (- bend b)) rest).
Proof.
  intros [[[Sb Sr] (C1 & _ & C3)] [Cb Cr]] Eo. unfold isOpen in Eo. apply Z.ltb_ge in Eo.
  assert (Hst : forall x, In x rest -> bend b <= bstart x) by (intros x Hx; pose proof (chain_starts _ _ _ x C3 Hx); lia).
  split; [split|].
  - apply allP_map. apply allP_intro. intros x Hx. apply sp_shift; [lia|eapply allP_In; eassumption|apply Hst, Hx].
  - pose proof (chain_shift (bend b) (-1) rest (Z.max (bstart b) (bend b)) ltac:(lia) ltac:(left; lia) C3) as Hc.
    eapply chain_lo; [|exact Hc]. lia.
  - apply allP_map. apply allP_intro. intros x Hx.
    apply (ct_shift (bend b) Eo x H H); [eapply allP_In; eassumption|eapply allP_In; eassumption|apply Hst, Hx].
Qed.
Print Assumptions KX_U. Print Assumptions KX_L. Print Assumptions KX_cut.

(* 3. the stream level *)
Definition SJx (s : bpst) (ch : list block) (ns : bool) : Prop :=
  SJ s ch ns /\ la (upto (buf s) (bi s)) (bi s) (docRoot ch) /\ bnd0 (buf s) (bi s) /\ PadF (buf s) /\ lbd (buf s) (bi s) /\
  invDL ch = true /\ ExInv1.invL (buf s) ch = true.
Definition okRJx (r : rootB) : Prop := okRJ r /\ leB (bend (rb_blk r)) (rb_blk r) = true.
Definition okJx (x : nb) : Prop :=
  match x with NBBlock r s' => okRJx r /\ exists ns, SJx s' (pending s') ns | _ => True end.

Lemma SJx_GX s ch ns : SJx s ch ns -> GX (upto (buf s) (bi s)) (buf s) (bi s) ch.
Proof. intros ((_ & Hcc & Hk) & Hla & _ & _ & _ & Hd & Hx). exact (conj Hk (conj Hcc (conj Hla (conj Hd Hx)))). Qed.
Lemma SJx_KX s ch ns : SJx s ch ns -> KX (bi s) ch.
Proof. intros H. eapply GX_KX. eapply SJx_GX. exact H. Qed.

Lemma SJx_makeRoot_full s children ns r s' : SJx s children ns -> makeRoot children s = Some (r, s') ->
  okRJx r /\ (forall b rest, children = b :: rest -> geL (bend b) rest = true) /\ SJx s' (pending s') ns.
Proof.
  intros HS Hm. pose proof (SJx_KX _ _ _ HS) as HK. destruct HS as (HJ & Hla & Hbb & Hpf & Hlb & Hd & Hx).
  destruct (SJ_makeRoot _ _ _ _ _ HJ Hm) as [Hr HJ'].
  pose proof HJ as ((Hb & _ & _) & Hcc & _).
  destruct (SL_makeRoot Gd Gd_upto Gd_from s children r s' Hb I Hcc Hla Hbb Hpf Hlb Hm) as [_ (_ & _ & _ & L4 & L5 & L6 & L7)].
  unfold makeRoot in Hm. destruct children as [|b rest]; [discriminate|].
  destruct (isOpen b) eqn:Eo; [discriminate|]. inversion Hm; subst. clear Hm.
  split; [split; [exact Hr|cbn [rb_blk]; eapply KX_U; eassumption]|]. split.
  - intros b0 rest0 E. inversion E; subst b0 rest0. eapply KX_L; eassumption.
  - cbn [pending bi buf] in *. unfold isOpen in Eo. apply Z.ltb_ge in Eo.
    unfold invDL in Hd. cbn [forallb] in Hd. apply andb_true_iff in Hd. destruct Hd as [_ D2].
    unfold ExInv1.invL in Hx. cbn [forallb] in Hx. apply andb_true_iff in Hx. destruct Hx as [_ X2].
    split; [exact HJ'|]. split; [exact L4|]. split; [exact L5|]. split; [exact L6|]. split; [exact L7|]. split.
    + unfold invDL. rewrite forallb_forall in *. intros x Hx'. apply in_map_iff in Hx'. destruct Hx' as (y & <- & Hy). apply invD_shift; [exact Eo|apply D2, Hy].
    + unfold ExInv1.invL. rewrite forallb_forall in *. intros x Hx'. apply in_map_iff in Hx'. destruct Hx' as (y & <- & Hy). apply inv1_shift; [exact Eo|apply X2, Hy].
Qed.
Lemma SJx_makeRoot s children ns r s' : SJx s children ns -> makeRoot children s = Some (r, s') ->
  leB (bend (rb_blk r)) (rb_blk r) = true /\ (forall b rest, children = b :: rest -> geL (bend b) rest = true) /\ SJx s' (pending s') ns.
Proof. intros HS Hm. destruct (SJx_makeRoot_full _ _ _ _ _ HS Hm) as ([_ A] & B & C). tauto. Qed.

(* the hypotheses at the entry of a line that starts at ls, the previous line having ended in state st *)
Definition LEx (st : Z) (ls : Z) (s : bpst) (ns : bool) (children : list block) : Prop :=
  0 <= ls <= len (buf s) /\ bi s = lineEnd (buf s) ls /\ bndL ls ns children = true /\ (ns = false -> ls = len (buf s)) /\
  ccF children = true /\ kidsOK ls children /\
  la (upto (buf s) (bi s)) ls (docRoot children) /\ bnd0 (buf s) ls /\ PadF (buf s) /\ DTpre st children /\
  invDL children = true /\ ExInv1.invL (buf s) children = true.
Definition advLine (s : bpst) : bpst :=
  {| buf := buf s; bi := lineEnd (buf s) (bi s); boff := boff s; bline := bline s; pending := pending s |}.

Lemma SJx_step st children ls s ns : LEx st ls s ns children ->
  let '(children', st', pn) := processLine st children ls (upto (buf s) (bi s)) in
  exists ns', SJx s children' ns' /\ (makeRoot children' s = None -> LEx st' (bi s) (advLine s) ns' children').
Proof.
  intros (Hls & Hbi & Hc & Hn & Hcc & Hk & Hla & Hb0 & Hpf & Hst & Hd & Hx).
  destruct (lineEnd_spec (buf s) ls Hls) as [A B]. rewrite <- Hbi in A, B.
  set (src := upto (buf s) (bi s)) in *.
  assert (Hlen : len src = bi s) by (apply len_upto; lia).
  assert (Hlbi : lbd (buf s) (bi s)).
  { destruct (Z.eq_dec (bi s) (len (buf s))) as [E|N]; [right; left; exact E|]. destruct (B ltac:(lia)) as [B1 B2]. right; right. exact B2. }
  pose proof (lbd_bnd0 _ _ Hlbi) as Hbbi.
  set (ln := from_ src ls).
  destruct (line_of (buf s) ls (bi s) ltac:(lia) ltac:(lia)) as [Ll _]. fold src in Ll. fold ln in Ll.
  set (ns' := if ns then hasByteSuffixEOL ln else false).
  assert (Hc' : bndL (bi s) ns' children = true).
  { unfold ns'. destruct ns.
    - pose proof (bndL_mono ls (bi s) children ltac:(lia) Hc) as Hm. destruct (hasByteSuffixEOL ln); [exact Hm|apply bndL_weaken, Hm].
    - rewrite (Hn eq_refl) in *. replace (bi s) with (len (buf s)) by lia. exact Hc. }
  assert (Hn' : ns' = false -> bi s = len (buf s)).
  { unfold ns'. destruct ns; [|intros _; rewrite (Hn eq_refl) in *; lia].
    intros Ee. destruct (Z.lt_ge_cases (bi s) (len (buf s))) as [Lt|Ge]; [|lia].
    exfalso. rewrite Hbi in Lt. pose proof (line_hasEOL (buf s) ls Hls Lt) as Hh. rewrite <- Hbi in Hh. fold src in Hh. fold ln in Hh. congruence. }
  assert (Hnsc : ns' = true -> hasByteSuffixEOL (from_ src ls) = true) by (unfold ns'; fold ln; destruct ns; [tauto|discriminate]).
  assert (Hll : ls + len (from_ src ls) = bi s) by (fold ln; lia).
  pose proof (GX_processLine (bi s) ns' st children ls src (buf s) (agreeNZ_upto (buf s) (bi s)) ltac:(lia) ltac:(lia) Hll ltac:(lia) Hnsc Hc'
                ltac:(unfold src; apply bnd0_upto; [lia|lia|exact Hb0|intros El; lia])
                ltac:(unfold src; rewrite Hbi; apply eolEnd_line, Hls) Hst
                (conj Hk (conj Hcc (conj Hla (conj Hd Hx))))) as HP.
  pose proof (bnd_processLine (bi s) ns' st children ls src ltac:(lia) ltac:(lia) Hll ltac:(lia) Hnsc Hc') as H1.
  destruct (processLine st children ls src) as [[children' st'] pn]. cbn [fst snd] in HP, H1.
  destruct HP as [(G1 & G2 & G3 & G4 & G5) HP2].
  exists ns'. split.
  - split; [split; [repeat split; try lia; assumption|split; assumption]|].
    split; [exact G3|]. split; [exact Hbbi|]. split; [exact Hpf|]. split; [exact Hlbi|]. split; assumption.
  - intros Em. assert (Hls' : 0 <= bi s <= len (buf s)) by lia. destruct (lineEnd_spec (buf s) (bi s) Hls') as [A' _].
    unfold LEx, advLine. cbn [buf bi].
    split; [lia|]. split; [reflexivity|]. split; [exact H1|]. split; [exact Hn'|]. split; [exact G2|]. split; [exact G1|].
    split; [|split; [exact Hbbi|split; [exact Hpf|split; [|split; assumption]]]].
    + apply (la_agree src); [apply agree_upto; lia| | |exact G3]; [intros e0 He0 Hbe0; unfold src in Hbe0; apply (bnd0_grow (buf s) (bi s)); try lia; assumption|].
      apply growOK_upto; [lia|lia|exact Hlbi|]. intros El. lia.
    + intros Est. destruct (HP2 Est) as (c1 & E1 & E2). exists c1. split; [exact E1|].
      unfold makeRoot in Em. destruct children' as [|b rest]; [cbn in E1; discriminate|].
      destruct (isOpen b) eqn:Eo; [|discriminate]. unfold isOpen in Eo. apply Z.ltb_lt in Eo.
      apply docRoot_parts in G3. destruct G3 as (_ & Hch & _). cbn [tchain] in Hch. destruct Hch as (_ & _ & Hch).
      destruct (Z.ltb_spec (bend b) 0); [|lia]. destruct Hch as [_ ->]. cbn in E1. inversion E1; subst c1. split; [exact Eo|apply E2, Eo].
Qed.

Lemma SJx_lineLoop : forall fuel st children ls s ns, LEx st ls s ns children -> okJx (lineLoop fuel st children ls s).
Proof.
  induction fuel as [|f IH]; intros st children ls s ns HL; [exact I|]. cbn [lineLoop].
  pose proof (SJx_step st children ls s ns HL) as Hs.
  destruct (processLine st children ls (upto (buf s) (bi s))) as [[children' st'] pn].
  destruct Hs as (ns' & HS & Hnext).
  destruct (negb (pn =? 0)); [exact I|].
  destruct (makeRoot children' s) as [[r s']|] eqn:Em.
  - cbn [okJx]. destruct (SJx_makeRoot_full _ _ _ _ _ HS Em) as (Hr & _ & Hs'). split; [exact Hr|eauto].
  - apply (IH st' children' (bi s) (advLine s) ns'). apply Hnext. reflexivity.
Qed.

Lemma LEx_nil s : PadF (buf s) -> bi s = lineEnd (buf s) 0 -> LEx 0 0 s true [].
Proof.
  intros Hpf Hb. unfold LEx. assert (0 <= len (buf s)) by (unfold len; lia).
  split; [lia|]. split; [exact Hb|]. split; [reflexivity|]. split; [discriminate|]. split; [reflexivity|].
  split; [split; exact I|]. split; [|split; [left; reflexivity|split; [exact Hpf|split; [discriminate|split; reflexivity]]]].
  apply docRoot_parts. split; [lia|]. split; [cbn [tchain]; split; [lia|apply NT_empty; lia]|exact I].
Qed.

Lemma SJx_skipLoop : forall fuel s, bi s = 0 -> PadF (buf s) -> okJx (skipLoop fuel s).
Proof.
  induction fuel as [|f IH]; intros s Hb Hpf; [exact I|]. cbn [skipLoop]. cbv zeta.
  assert (Hl : 0 <= len (buf s)) by (unfold len; lia).
  destruct (negb _); [exact I|]. destruct (isBlankLine _).
  { apply IH; [reflexivity|]. cbn [buf]. destruct (lineEnd_spec (buf s) (bi s) ltac:(lia)) as [A B].
    apply (PadF_cut (buf s) _ Hpf); [lia|]. destruct (Z.eq_dec (lineEnd (buf s) (bi s)) (len (buf s))) as [E|N]; [right; left; exact E|].
    destruct (B ltac:(lia)) as [B1 B2]. right; right. unfold isEOLb in B2. apply orb_true_iff in B2. destruct B2 as [B2|B2]; apply Z.eqb_eq in B2; rewrite B2; discriminate. }
  apply (SJx_lineLoop f 0 [] 0 _ true). apply LEx_nil; cbn [buf bi]; [exact Hpf|rewrite Hb; reflexivity].
Qed.

Lemma LEx_next s ns : SJx s (pending s) ns -> LEx 0 (bi s) (advLine s) ns (pending s).
Proof.
  intros (((Hb & Hc & Hn) & Hcc & Hk) & Hla & Hbb & Hpf & Hlb & Hd & Hx).
  destruct (lineEnd_spec (buf s) (bi s) Hb) as [A' _].
  unfold LEx, advLine. cbn [buf bi].
  split; [exact Hb|]. split; [reflexivity|]. split; [exact Hc|]. split; [exact Hn|]. split; [exact Hcc|]. split; [exact Hk|].
  split; [|split; [exact Hbb|split; [exact Hpf|split; [discriminate|split; assumption]]]].
  apply (la_agree (upto (buf s) (bi s))); [apply agree_upto; lia| | |exact Hla]; [intros e0 He0 Hbe0; apply (bnd0_grow (buf s) (bi s)); try lia; assumption|].
  apply growOK_upto; [lia|lia|exact Hlb|]. intros El. lia.
Qed.

Lemma SJx_nextBlock fuel s ns : SJx s (pending s) ns -> okJx (nextBlock fuel s).
Proof.
  intros HS. unfold nextBlock. destruct (makeRoot (pending s) s) as [[r s']|] eqn:Em.
  - cbn [okJx]. destruct (SJx_makeRoot_full _ _ _ _ _ HS Em) as (Hr & _ & Hs'). split; [exact Hr|eauto].
  - pose proof (LEx_next s ns HS) as HL. destruct HS as (((Hb & _) & _) & _ & Hbb & Hpf & _).
    change {| buf := buf s; bi := lineEnd (buf s) (bi s); boff := boff s; bline := bline s; pending := pending s |} with (advLine s).
    destruct (pending s) as [|b0 rest] eqn:Ep.
    + apply SJx_skipLoop; [reflexivity|apply (PadF_cut (buf s) (bi s) Hpf Hb Hbb)].
    + apply (SJx_lineLoop fuel 0 (b0 :: rest) (bi s) (advLine s) ns). exact HL.
Qed.

Lemma SJx_allBlocks : forall fuel s acc ns, SJx s (pending s) ns -> Forall okRJx acc -> Forall okRJx (fst (allBlocks fuel s acc)).
Proof.
  induction fuel as [|f IH]; intros s acc ns HS Ha; [exact Ha|]. cbn [allBlocks].
  pose proof (SJx_nextBlock (3 + length (buf s)) s ns HS) as Hn.
  destruct (nextBlock _ s) as [r s'| | |]; try exact Ha.
  destruct Hn as [Hr (ns' & Hs')]. apply (IH s' _ ns'); [exact Hs'|]. apply Forall_app. split; [exact Ha|]. constructor; [exact Hr|constructor].
Qed.

Lemma SJx_init input : SJx {| buf := pad input; bi := 0; boff := 0; bline := 1; pending := [] |} [] true.
Proof.
  assert (Hl : 0 <= len (pad input)) by (unfold len; lia).
  split; [|split; [|split; [left; reflexivity|split; [exists input; reflexivity|split; [left; reflexivity|split; reflexivity]]]]].
  - split; [|split; [reflexivity|split; exact I]]. unfold SI. cbn [buf bi pending]. repeat split; try lia.
  - cbn [buf bi]. apply docRoot_parts. split; [lia|]. split; [cbn [tchain]; split; [lia|apply NT_empty; lia]|exact I].
Qed.

Theorem parseBlocks_contained : forall input,
  Forall (fun r => leB (bend (rb_blk r)) (rb_blk r) = true) (fst (parseBlocks input)).
Proof.
  intros input. unfold parseBlocks.
  pose proof (SJx_allBlocks (S (length (pad input))) _ [] true (SJx_init input) ltac:(constructor)) as H.
  eapply Forall_impl; [|exact H]. intros r [_ Hr]. exact Hr.
Qed.
Print Assumptions parseBlocks_contained.
Print Assumptions SJx_makeRoot. Print Assumptions SJx_makeRoot_full. Print Assumptions SJx_step. Print Assumptions SJx_lineLoop. Print Assumptions SJx_skipLoop.
Print Assumptions SJx_nextBlock. Print Assumptions SJx_allBlocks. Print Assumptions SJx_init. Print Assumptions LEx_nil. Print Assumptions LEx_next.
