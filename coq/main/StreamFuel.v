From Coq Require Import List ZArith Lia Bool.
Import ListNotations.
Require Import Base Tree Rdr Link Collect Html Recog LP Rules Starts Driver Rec16 Rec17 Rec18 L2Bnd L2BndS.
Open Scope Z_scope.

(* ================================================================================================== *)
(* Part 3a: the in-memory NextBlock is independent of its fuel from 3 + length buf on, NBStuck included *)
(* (the streaming entry point hands more fuel to the same loops).                                       *)
(* The only iterations that do not consume a byte are those on the empty line at end of input; there    *)
(* the line machine is computed explicitly: it returns within two iterations or never.                  *)
(* ================================================================================================== *)

(* ---- the line machine on the empty line ---- *)
Lemma from_nil_any {A} n : from_ (@nil A) n = []. Proof. unfold from_. apply skipn_nil. Qed.
Lemma rest_empty p : line p = [] -> rest p = [].
Proof. intros H. unfold rest. rewrite H. apply from_nil_any. Qed.
Lemma isRestBlank_empty p : line p = [] -> isRestBlank p = true.
Proof. intros H. unfold isRestBlank. rewrite rest_empty by assumption. reflexivity. Qed.
Lemma bytesAfterIndent_empty p : line p = [] -> bytesAfterIndent p = [].
Proof. intros H. unfold bytesAfterIndent. rewrite rest_empty by assumption. reflexivity. Qed.
Lemma at_nil i : at_ [] i = 0.
Proof. unfold at_. destruct (i <? 0); [reflexivity|]. destruct (Z.to_nat i); reflexivity. Qed.
Lemma indent_empty p : line p = [] -> indent p = 0.
Proof.
  intros H. unfold indent. rewrite H. destruct (len (@nil Z) <=? li p); [reflexivity|].
  cbv zeta. rewrite at_nil. reflexivity.
Qed.
Lemma consumeIndent_le0 p n : n <= 0 -> consumeIndent p n = p.
Proof. intros H. unfold consumeIndent. cbn [consumeIndent_loop]. destruct (Z.leb_spec n 0); [reflexivity|lia]. Qed.

Lemma matchRule_empty p : line p = [] -> snd (matchRule p) = p.
Proof.
  intros H. unfold matchRule. cbv zeta.
  destruct ((containerKind p =? documentKind) || (containerKind p =? ListKind)); [reflexivity|].
  destruct (containerKind p =? ListItemKind).
  { unfold matchListItem. rewrite isRestBlank_empty by assumption.
    destruct (negb _); [reflexivity|]. cbn [snd]. rewrite indent_empty by assumption. apply consumeIndent_le0. lia. }
  destruct (containerKind p =? BlockQuoteKind).
  { unfold matchBlockQuote. cbv zeta. rewrite indent_empty, bytesAfterIndent_empty by assumption. reflexivity. }
  destruct (containerKind p =? FencedCodeBlockKind).
  { unfold matchFenced. cbv zeta. rewrite indent_empty, bytesAfterIndent_empty by assumption.
    change (0 <? codeBlockIndentLimit) with true. cbv iota. change (parseCodeFence []) with (0, 0, -1, -1).
    cbn [Z.ltb Z.compare andb snd].
    destruct (Z.ltb_spec 0 (bindent (contBlock p))); apply consumeIndent_le0; lia. }
  destruct (containerKind p =? IndentedCodeBlockKind).
  { unfold matchIndented. cbv zeta. rewrite indent_empty by assumption. change (0 <? codeBlockIndentLimit) with true. cbv iota.
    rewrite isRestBlank_empty by assumption. cbn [negb snd]. apply consumeIndent_le0. lia. }
  destruct (containerKind p =? HTMLBlockKind).
  { unfold matchHTML. rewrite isRestBlank_empty by assumption. destruct (htmlEnd _ _); reflexivity. }
  reflexivity.
Qed.

(* the state after descending on the empty line, as a function of the state before and the root *)
Definition descState (st : Z) (rt : block) : Z :=
  match lastBlock rt with
  | Some c => if isOpen c && hasMatch (bkind c) then stDescending else st
  | None => st
  end.

Definition sameBut (p p' : lp) : Prop :=
  root p' = root p /\ line p' = line p /\ source p' = source p /\ lineStart p' = lineStart p /\ panicked p' = panicked p.

Lemma descend_empty_in : forall fuel p d, line p = [] -> state p = stDescending ->
  sameBut p (snd (descend_loop fuel p d)) /\ state (snd (descend_loop fuel p d)) = stDescending.
Proof.
  induction fuel as [|f IH]; intros p d Hl Hs; [cbn; unfold sameBut; cbn; tauto|].
  cbn [descend_loop]. cbv zeta.
  destruct (getAt (S d) (root p)) as [c|]; [|cbn; unfold sameBut; cbn; tauto].
  destruct (negb (isOpen c)); [cbn; unfold sameBut; cbn; tauto|].
  destruct (negb (hasMatch (bkind c))); [cbn; unfold sameBut; cbn; tauto|].
  set (q := withState (withCont p (Some (S d))) stDescending).
  assert (Hq : line q = []) by exact Hl.
  pose proof (matchRule_empty q Hq) as Hm. destruct (matchRule q) as [ok q']. cbn [snd] in Hm. subst q'.
  change (state q =? stDescendTerminated) with false. cbv iota.
  destruct (negb ok); [cbn; unfold sameBut; cbn; tauto|].
  destruct (IH q (S d) Hq eq_refl) as [(A & B & C & D & E) F].
  split; [|exact F]. unfold sameBut. rewrite A, B, C, D, E. cbn. tauto.
Qed.

Lemma descend_empty_top p : line p = [] ->
  sameBut p (snd (descendOpenBlocks p)) /\ state (snd (descendOpenBlocks p)) = descState (state p) (root p).
Proof.
  intros Hl. unfold descendOpenBlocks, descState.
  destruct (root p) as [K s e bk ik a n c l lb] eqn:Er. cbn [bheight]. rewrite <- Er.
  cbn [descend_loop]. cbv zeta. change (getAt 1 (root p)) with (match lastBlock (root p) with Some c => Some c | None => None end).
  destruct (lastBlock (root p)) as [c0|]; [|cbn; unfold sameBut; cbn; tauto].
  destruct (isOpen c0); cbn [negb andb]; [|cbn; unfold sameBut; cbn; tauto].
  destruct (hasMatch (bkind c0)); cbn [negb]; [|cbn; unfold sameBut; cbn; tauto].
  set (q := withState (withCont p (Some 1%nat)) stDescending).
  assert (Hq : line q = []) by exact Hl.
  pose proof (matchRule_empty q Hq) as Hm. destruct (matchRule q) as [ok q']. cbn [snd] in Hm. subst q'.
  change (state q =? stDescendTerminated) with false. cbv iota.
  destruct (negb ok); [cbn; unfold sameBut; cbn; tauto|].
  match goal with |- context [descend_loop ?f q 1%nat] => destruct (descend_empty_in f q 1%nat Hq eq_refl) as [(A & B & C & D & E) F] end.
  split; [|exact F]. unfold sameBut. rewrite A, B, C, D, E. cbn. tauto.
Qed.

Definition root0 (K : list block) : block := Blk documentKind 0 (-1) K [] 0 0 0 false false.
Definition eofSt (st : Z) (K : list block) : Z := descState st (root0 K).
Definition eofK (st : Z) (K : list block) (ls : Z) (src : bytes) : list block :=
  if eofSt st K =? stDescendTerminated then K
  else bkids (match closeBlock (bheight (root0 K)) src (root0 K) ls with b :: _ => b | [] => root0 K end).

Theorem processLine_eof st K ls src : from_ src ls = [] ->
  processLine st K ls src = (eofK st K ls src, eofSt st K, 0).
Proof.
  intros Hl. unfold processLine. cbv zeta.
  set (p0 := resetLP st K ls src).
  assert (H0 : line p0 = []) by exact Hl.
  destruct (descend_empty_top p0 H0) as [(A & B & C & D & E) F].
  destruct (descendOpenBlocks p0) as [am p1]. cbn [snd] in *.
  change (root p0) with (root0 K) in *. change (state p0) with st in F. change (source p0) with src in C.
  change (lineStart p0) with ls in D. change (panicked p0) with 0 in E. fold (eofSt st K) in F.
  unfold eofK. rewrite <- F.
  destruct (state p1 =? stDescendTerminated) eqn:Et; cbn [negb].
  - rewrite A, E. reflexivity.
  - unfold openNewBlocks. rewrite B, H0. change (len (@nil Z) =? 0) with true. cbv iota.
    rewrite A, C, D. cbn. rewrite E. reflexivity.
Qed.

(* ---- closeBlock: what one close can leave open ---- *)
Definition isRef (x : block) : Prop := exists s e k, x = refDefBlock s e k.

Lemma bend_set_lastBlocks b l : bend (set_lastBlocks b l) = bend b. Proof. destruct b; reflexivity. Qed.
Lemma bend_set_bend b e : bend (set_bend b e) = e. Proof. destruct b; reflexivity. Qed.
Lemma bend_set_bik b l : bend (set_bik b l) = bend b. Proof. destruct b; reflexivity. Qed.
Lemma bend_set_bstart b v : bend (set_bstart b v) = bend b. Proof. destruct b; reflexivity. Qed.
Lemma bend_onCloseList b : bend (onCloseList b) = bend b.
Proof.
  unfold onCloseList. cbv zeta.
  match goal with |- context [if ?c then _ else _] => destruct c end; [destruct b; reflexivity|reflexivity].
Qed.
Lemma bend_onCloseIndented src b : bend (onCloseIndented src b) = bend b.
Proof. unfold onCloseIndented. cbv zeta. apply bend_set_bik. Qed.
Lemma bend_closeLast (g : block -> list block) x :
  bend (match lastBlock x with Some c => set_lastBlocks x (g c) | None => x end) = bend x.
Proof. destruct (lastBlock x); [apply bend_set_lastBlocks|reflexivity]. Qed.

Lemma length_app1 {A} (l : list A) x : length (l ++ [x]) = S (length l).
Proof. rewrite app_length. cbn. lia. Qed.

Lemma ocp_len : forall fuel rfuel src orig orphan r result,
  (length result < length (ocp_loop fuel rfuel src orig orphan r result))%nat.
Proof.
  induction fuel as [|f IH]; intros rfuel src orig orphan r result.
  { cbn [ocp_loop]. rewrite length_app1. lia. }
  assert (Hkeep : (length result < length (result ++ [orig]))%nat) by (rewrite length_app1; lia).
  assert (Hwo : forall res, (length result < length res)%nat ->
            (length result < length (match orphan with Some o => res ++ [o] | None => res end))%nat).
  { intros res Hres. destruct orphan as [o|]; [rewrite length_app1; lia|assumption]. }
  cbn [ocp_loop]. cbv zeta.
  destruct (parseLinkLabel rfuel r) as [[lspan linner] r1].
  destruct (negb (spanValid lspan)); [assumption|].
  destruct (current r1) as [c r2]. destruct (negb (c =? 58)); [assumption|].
  destruct (next r2) as [? r3]. destruct (skipLinkSpace rfuel r3) as [ok r4]. destruct (negb ok); [assumption|].
  destruct (parseLinkDestination rfuel r4) as [[dspan dtext] r5]. destruct (negb (spanValid dspan)); [assumption|].
  destruct (readEOL rfuel r5) as [destEOL r6]. destruct (current r6) as [c6 r7].
  destruct (_ && _ && _); [assumption|].
  set (labelInline := Inl LinkLabelKind _ _ 0 _ _). set (destInline := Inl LinkDestinationKind _ _ 0 [] _).
  assert (H2 : (length result < length (result ++ [refDefBlock (fst lspan) destEOL [labelInline; destInline]]))%nat)
    by (rewrite length_app1; lia).
  destruct (skipLinkSpace rfuel r7) as [ok2 r8]. destruct (negb ok2); [apply Hwo; assumption|].
  destruct (parseLinkTitle rfuel r8) as [[tspan ttext] r9].
  destruct (negb (spanValid tspan)).
  { destruct (destEOL <? 0); [assumption|]. destruct (_ <? 0); [apply Hwo; assumption|].
    eapply Nat.lt_trans; [exact H2|apply IH]. }
  destruct (readEOL rfuel r9) as [titleEOL r10].
  destruct (titleEOL <? 0).
  { destruct (destEOL <? 0); [assumption|]. destruct (_ <? 0); [apply Hwo; assumption|].
    rewrite !app_length. cbn [length]. lia. }
  set (titleInline := Inl LinkTitleKind _ _ 0 [] _).
  assert (H3 : (length result < length (result ++ [refDefBlock (fst lspan) titleEOL [labelInline; destInline; titleInline]]))%nat)
    by (rewrite length_app1; lia).
  destruct (_ <? 0); [apply Hwo; assumption|]. eapply Nat.lt_trans; [exact H3|apply IH].
Qed.

Lemma single_app {A} (l : list A) x y : l ++ [x] = [y] -> l = [] /\ x = y.
Proof.
  destruct l as [|a l]; cbn; intros H; [inversion H; tauto|].
  inversion H as [[Ha Hl]]. destruct l; discriminate.
Qed.

Lemma ocp_single : forall fuel rfuel src orig orphan r result y, isOpen orig = false ->
  ocp_loop fuel rfuel src orig orphan r result = [y] -> isOpen y = false \/ isRef y.
Proof.
  intros fuel rfuel src orig orphan r result y Ho.
  assert (Hkeep : result ++ [orig] = [y] -> isOpen y = false \/ isRef y).
  { intros E. apply single_app in E. destruct E as [_ <-]. left. exact Ho. }
  assert (Hwo : forall s e k, match orphan with Some o => (result ++ [refDefBlock s e k]) ++ [o] | None => result ++ [refDefBlock s e k] end = [y] ->
            isOpen y = false \/ isRef y).
  { intros s e k E. destruct orphan as [o|].
    - apply (f_equal (@length block)) in E. rewrite !length_app1 in E. cbn in E. lia.
    - apply single_app in E. destruct E as [_ <-]. right. exists s, e, k. reflexivity. }
  assert (Hrec : forall f rf sr og op rd rs s e k, ocp_loop f rf sr og op rd (result ++ [refDefBlock s e k] ++ rs) = [y] -> isOpen y = false \/ isRef y).
  { intros f rf sr og op rd rs s e k E. pose proof (ocp_len f rf sr og op rd (result ++ [refDefBlock s e k] ++ rs)) as Hl.
    rewrite E in Hl. rewrite !app_length in Hl. cbn in Hl. lia. }
  destruct fuel as [|f]; [cbn [ocp_loop]; exact Hkeep|].
  cbn [ocp_loop]. cbv zeta.
  destruct (parseLinkLabel rfuel r) as [[lspan linner] r1].
  destruct (negb (spanValid lspan)); [assumption|].
  destruct (current r1) as [c r2]. destruct (negb (c =? 58)); [assumption|].
  destruct (next r2) as [? r3]. destruct (skipLinkSpace rfuel r3) as [ok r4]. destruct (negb ok); [assumption|].
  destruct (parseLinkDestination rfuel r4) as [[dspan dtext] r5]. destruct (negb (spanValid dspan)); [assumption|].
  destruct (readEOL rfuel r5) as [destEOL r6]. destruct (current r6) as [c6 r7].
  destruct (_ && _ && _); [assumption|].
  set (labelInline := Inl LinkLabelKind _ _ 0 _ _). set (destInline := Inl LinkDestinationKind _ _ 0 [] _).
  destruct (skipLinkSpace rfuel r7) as [ok2 r8]. destruct (negb ok2); [apply Hwo|].
  destruct (parseLinkTitle rfuel r8) as [[tspan ttext] r9].
  destruct (negb (spanValid tspan)).
  { destruct (destEOL <? 0); [assumption|]. destruct (_ <? 0); [apply Hwo|].
    intros E. eapply (Hrec _ _ _ _ _ _ []). cbn [app]. exact E. }
  destruct (readEOL rfuel r9) as [titleEOL r10].
  destruct (titleEOL <? 0).
  { destruct (destEOL <? 0); [assumption|]. destruct (_ <? 0); [apply Hwo|].
    intros E. apply (f_equal (@length block)) in E. rewrite !app_length in E. cbn in E. lia. }
  set (titleInline := Inl LinkTitleKind _ _ 0 [] _).
  destruct (_ <? 0); [apply Hwo|].
  intros E. eapply (Hrec _ _ _ _ _ _ []). cbn [app]. exact E.
Qed.

Lemma onCloseParagraph_nonempty src b : onCloseParagraph src b <> [].
Proof.
  unfold onCloseParagraph. destruct (bik b) as [|first rest]; [discriminate|]. cbv zeta.
  intros E. match type of E with ocp_loop ?f ?rf ?s ?o ?op ?r ?rs = _ => pose proof (ocp_len f rf s o op r rs) as Hl end.
  rewrite E in Hl. cbn in Hl. lia.
Qed.
Lemma onCloseParagraph_single src b y : isOpen b = false -> onCloseParagraph src b = [y] -> isOpen y = false \/ isRef y.
Proof.
  intros Ho. unfold onCloseParagraph. destruct (bik b) as [|first rest]; [intros E; inversion E; subst; left; exact Ho|]. cbv zeta.
  apply ocp_single. exact Ho.
Qed.

Lemma closeBlock_nonempty src e : forall fuel b, closeBlock fuel src b e <> [].
Proof.
  intros [|f] b; [discriminate|]. cbn [closeBlock]. destruct (negb (isOpen b)); [discriminate|]. cbv zeta.
  destruct (_ =? ListKind); [discriminate|]. destruct (_ =? IndentedCodeBlockKind); [discriminate|].
  destruct (_ || _); [apply onCloseParagraph_nonempty|discriminate].
Qed.

Lemma closeBlock_single src e f b y : 0 <= e -> isOpen b = true ->
  closeBlock (S f) src b e = [y] -> isOpen y = true -> isRef y.
Proof.
  intros He Hb E Hy. cbn [closeBlock] in E. rewrite Hb in E. cbn [negb] in E. cbv zeta in E.
  assert (Hcl : forall x, bend x = e -> forall (g : block -> list block),
             isOpen (match lastBlock x with Some c => set_lastBlocks x (g c) | None => x end) = false).
  { intros x Hx g. unfold isOpen. rewrite bend_closeLast, Hx. apply Z.ltb_ge. exact He. }
  destruct (bkind (set_bend b e) =? ListKind).
  { inversion E as [E']. rewrite <- E' in Hy. rewrite Hcl in Hy; [discriminate|]. rewrite bend_onCloseList. apply bend_set_bend. }
  destruct (bkind (set_bend b e) =? IndentedCodeBlockKind).
  { inversion E as [E']. rewrite <- E' in Hy. rewrite Hcl in Hy; [discriminate|]. rewrite bend_onCloseIndented. apply bend_set_bend. }
  destruct ((bkind (set_bend b e) =? ParagraphKind) || (bkind (set_bend b e) =? SetextHeadingKind)).
  { apply onCloseParagraph_single in E.
    - destruct E as [E|E]; [congruence|exact E].
    - unfold isOpen. rewrite bend_set_bend. apply Z.ltb_ge. exact He. }
  inversion E as [E']. rewrite <- E' in Hy. rewrite Hcl in Hy; [discriminate|]. apply bend_set_bend.
Qed.

Lemma closeBlock_ref src e f s e0 k : 0 <= e -> e0 < 0 ->
  closeBlock (S f) src (refDefBlock s e0 k) e = [refDefBlock s e k].
Proof.
  intros He H0. cbn [closeBlock]. unfold isOpen, refDefBlock. cbn [bend].
  destruct (Z.ltb_spec e0 0) as [_|]; [|lia]. reflexivity.
Qed.

(* ---- the root block at end of input ---- *)
Lemma lastBlock_root0 K : lastBlock (root0 K) = match rev K with x :: _ => Some x | [] => None end.
Proof. reflexivity. Qed.

Lemma eofK_form st K ls src : (eofSt st K =? stDescendTerminated) = false ->
  eofK st K ls src =
  match rev K with
  | c :: _ => removelast K ++ closeBlock (Nat.pred (bheight (root0 K))) src c ls
  | [] => K
  end.
Proof.
  intros Ht. unfold eofK. rewrite Ht.
  change (bheight (root0 K)) with (S (Nat.pred (bheight (root0 K)))). cbn [closeBlock].
  change (negb (isOpen (root0 K))) with false. cbv iota zeta.
  change (bkind (set_bend (root0 K) ls) =? ListKind) with false.
  change (bkind (set_bend (root0 K) ls) =? IndentedCodeBlockKind) with false.
  change ((bkind (set_bend (root0 K) ls) =? ParagraphKind) || (bkind (set_bend (root0 K) ls) =? SetextHeadingKind)) with false.
  cbv iota. change (lastBlock (set_bend (root0 K) ls)) with (lastBlock (root0 K)). rewrite lastBlock_root0.
  destruct (rev K) as [|c r] eqn:Er.
  - cbn. destruct K as [|k0 K']; [reflexivity|]. apply (f_equal (@length block)) in Er. rewrite rev_length in Er. discriminate.
  - reflexivity.
Qed.

Lemma eofSt_nil st : eofSt st [] = st. Proof. reflexivity. Qed.
Lemma eofK_nil st ls src : eofK st [] ls src = [].
Proof. unfold eofK. destruct (_ =? _); reflexivity. Qed.

Lemma eofK_two st c1 c2 rest ls src : exists x rest', eofK st (c1 :: c2 :: rest) ls src = c1 :: x :: rest'.
Proof.
  destruct (eofSt st (c1 :: c2 :: rest) =? stDescendTerminated) eqn:Et.
  - unfold eofK. rewrite Et. eauto.
  - rewrite eofK_form by exact Et.
    destruct (rev (c1 :: c2 :: rest)) as [|c r] eqn:Er.
    + apply (f_equal (@length block)) in Er. rewrite rev_length in Er. discriminate.
    + change (removelast (c1 :: c2 :: rest)) with (c1 :: removelast (c2 :: rest)).
      pose proof (closeBlock_nonempty src ls (Nat.pred (bheight (root0 (c1 :: c2 :: rest)))) c) as Hne.
      destruct (closeBlock _ src c ls) as [|x X]; [contradiction|].
      destruct (removelast (c2 :: rest)) as [|r1 R]; cbn [app]; eauto.
Qed.

Lemma makeRoot_None K s : makeRoot K s = None -> K = [] \/ exists c rest, K = c :: rest /\ isOpen c = true.
Proof.
  unfold makeRoot. destruct K as [|c rest]; [left; reflexivity|]. destruct (isOpen c) eqn:Eo; [right; eauto|discriminate].
Qed.
Lemma makeRoot_open c rest s : isOpen c = true -> makeRoot (c :: rest) s = None.
Proof. intros H. unfold makeRoot. rewrite H. reflexivity. Qed.

(* ---- lineLoop at end of input ---- *)
Lemma upto_all {A} (l : list A) : upto l (len l) = l.
Proof. unfold upto, len. rewrite Nat2Z.id. apply firstn_all. Qed.
Lemma from_all {A} (l : list A) : from_ l (len l) = [].
Proof. unfold from_, len. rewrite Nat2Z.id. apply skipn_all. Qed.
Lemma lineEnd_all b : lineEnd b (len b) = len b.
Proof. pose proof (len_nonneg b). destruct (lineEnd_spec b (len b) ltac:(lia)) as [A _]. lia. Qed.

Lemma lineLoop_eof_unfold f st K s : bi s = len (buf s) ->
  lineLoop (S f) st K (bi s) s =
  match makeRoot (eofK st K (bi s) (buf s)) s with
  | Some (r, s') => NBBlock r s'
  | None => lineLoop f (eofSt st K) (eofK st K (bi s) (buf s)) (bi s) s
  end.
Proof.
  intros Hb. cbn [lineLoop]. replace (upto (buf s) (bi s)) with (buf s) by (rewrite Hb, upto_all; reflexivity).
  rewrite processLine_eof by (rewrite Hb; apply from_all).
  change (negb (0 =? 0)) with false. cbv iota.
  destruct (makeRoot _ s) as [[r s']|]; [reflexivity|].
  replace (lineEnd (buf s) (bi s)) with (bi s) by (rewrite Hb, lineEnd_all; reflexivity).
  destruct s; reflexivity.
Qed.

Section EOF.
  Variable s : bpst.
  Hypothesis Hb : bi s = len (buf s).
  Let ls := bi s.
  Let src := buf s.

  Lemma ls_nonneg : 0 <= ls. Proof. unfold ls. rewrite Hb. apply len_nonneg. Qed.

  Lemma dead_fix st K : eofK st K ls src = K -> eofSt st K = st -> makeRoot K s = None ->
    forall f, lineLoop f st K ls s = NBStuck.
  Proof.
    intros E1 E2 Hm. induction f as [|f IH]; [reflexivity|].
    unfold ls. rewrite lineLoop_eof_unfold by exact Hb. fold ls src. rewrite E1, E2, Hm. exact IH.
  Qed.

  Lemma dead_two : forall f st c1 c2 rest, isOpen c1 = true -> lineLoop f st (c1 :: c2 :: rest) ls s = NBStuck.
  Proof.
    induction f as [|f IH]; intros st c1 c2 rest Ho; [reflexivity|].
    unfold ls. rewrite lineLoop_eof_unfold by exact Hb. fold ls src.
    destruct (eofK_two st c1 c2 rest ls src) as (x & rest' & ->).
    rewrite makeRoot_open by exact Ho. apply IH. exact Ho.
  Qed.

  Lemma dead_nil st : forall f, lineLoop f st [] ls s = NBStuck.
  Proof. apply dead_fix; [apply eofK_nil|apply eofSt_nil|reflexivity]. Qed.

  (* a lineLoop at end of input returns within two iterations or never *)
  Theorem lineLoop_eof_adequate st K : (K = [] \/ exists c rest, K = c :: rest /\ isOpen c = true) ->
    forall f, (2 <= f)%nat -> lineLoop f st K ls s = lineLoop 2 st K ls s.
  Proof.
    intros HK f Hf.
    destruct HK as [->|(c & rest & -> & Ho)]; [rewrite !dead_nil; reflexivity|].
    destruct rest as [|c2 rest]; [|rewrite !dead_two by exact Ho; reflexivity].
    destruct f as [|[|f]]; try lia.
    unfold ls. rewrite !(lineLoop_eof_unfold _ st [c] s Hb). fold ls src.
    destruct (makeRoot (eofK st [c] ls src) s) as [[r s']|] eqn:Em; [reflexivity|].
    apply makeRoot_None in Em. destruct Em as [E|(y & rest1 & E & Hy)].
    { rewrite E, !dead_nil. reflexivity. }
    destruct rest1 as [|y2 rest1]; [|rewrite E, !dead_two by exact Hy; reflexivity].
    destruct (eofSt st [c] =? stDescendTerminated) eqn:Et.
    - (* the close was skipped: a fixed point *)
      assert (EK : eofK st [c] ls src = [c]) by (unfold eofK; rewrite Et; reflexivity).
      apply Z.eqb_eq in Et.
      assert (ES : eofSt (eofSt st [c]) [c] = eofSt st [c]).
      { rewrite Et. unfold eofSt, descState in *. rewrite lastBlock_root0 in *. cbn [rev app] in *.
        destruct (isOpen c && hasMatch (bkind c)); [discriminate|reflexivity]. }
      rewrite EK. rewrite !(dead_fix (eofSt st [c]) [c]); try reflexivity.
      + rewrite Et. unfold eofK. rewrite <- Et, ES, Et. reflexivity.
      + exact ES.
      + apply makeRoot_open. exact Ho.
      + rewrite Et. unfold eofK. rewrite <- Et, ES, Et. reflexivity.
      + exact ES.
      + apply makeRoot_open. exact Ho.
    - (* the paragraph was closed and left one open link reference definition: closed at the next iteration *)
      rewrite eofK_form in E by exact Et. cbn [rev app removelast] in E.
      assert (Hh : exists h, Nat.pred (bheight (root0 [c])) = S h).
      { destruct c. cbn. eexists. reflexivity. }
      destruct Hh as (h & Hh). rewrite Hh in E.
      pose proof (closeBlock_single src ls h c y ls_nonneg Ho E Hy) as (s0 & e0 & k0 & Ey).
      rewrite eofK_form by exact Et. cbn [rev app removelast]. rewrite Hh, E.
      assert (He0 : e0 < 0). { subst y. unfold isOpen, refDefBlock in Hy. cbn [bend] in Hy. apply Z.ltb_lt in Hy. exact Hy. }
      assert (ES : eofSt (eofSt st [c]) [y] = eofSt st [c]).
      { subst y. unfold eofSt at 1. unfold descState. rewrite lastBlock_root0. cbn [rev app].
        unfold refDefBlock. cbn [bkind]. change (hasMatch LinkReferenceDefinitionKind) with false. rewrite andb_false_r. reflexivity. }
      assert (EK : eofK (eofSt st [c]) [y] ls src = [refDefBlock s0 ls k0]).
      { rewrite eofK_form by (rewrite ES; exact Et). cbn [rev app removelast]. subst y.
        change (Nat.pred (bheight (root0 [refDefBlock s0 e0 k0]))) with 1%nat.
        apply closeBlock_ref; [exact ls_nonneg|exact He0]. }
      unfold ls. rewrite !(lineLoop_eof_unfold _ _ [y] s Hb). fold ls src. rewrite EK.
      assert (Hm : exists r s', makeRoot [refDefBlock s0 ls k0] s = Some (r, s')).
      { unfold makeRoot, isOpen, refDefBlock. cbn [bend]. pose proof ls_nonneg. destruct (Z.ltb_spec ls 0); [lia|]. eauto. }
      destruct Hm as (r & s' & ->). reflexivity.
  Qed.
End EOF.

(* ---- every other iteration consumes at least one byte ---- *)
Lemma len_from_le' {A} (l : list A) n : (length (from_ l n) <= length l)%nat.
Proof. unfold from_. rewrite skipn_length. lia. Qed.
Lemma lineEnd_progress b i : 0 <= i < len b -> i < lineEnd b i <= len b.
Proof.
  intros Hi. destruct (lineEnd_spec b i ltac:(lia)) as [A B].
  destruct (Z.lt_ge_cases (lineEnd b i) (len b)) as [L|G]; [destruct (B L); lia|lia].
Qed.

Lemma lineLoop_adequate : forall f f' st K ls s, 0 <= ls <= len (buf s) -> bi s = lineEnd (buf s) ls ->
  (K = [] \/ exists c rest, K = c :: rest /\ isOpen c = true) ->
  (Z.to_nat (len (buf s) - ls) + 2 <= f)%nat -> (f <= f')%nat ->
  lineLoop f' st K ls s = lineLoop f st K ls s.
Proof.
  induction f as [|f IH]; intros f' st K ls s Hls Hbi HK Hf Hle; [lia|].
  destruct (Z.eq_dec ls (len (buf s))) as [Ee|Ne].
  - (* end of input *)
    assert (Hb : bi s = len (buf s)) by (rewrite Hbi, Ee; apply lineEnd_all).
    replace ls with (bi s) by lia.
    rewrite (lineLoop_eof_adequate s Hb st K HK f') by lia.
    rewrite (lineLoop_eof_adequate s Hb st K HK (S f)) by lia. reflexivity.
  - destruct (lineEnd_progress (buf s) ls ltac:(lia)) as [P1 P2]. rewrite <- Hbi in P1, P2.
    destruct f' as [|f']; [lia|]. cbn [lineLoop].
    destruct (processLine st K ls (upto (buf s) (bi s))) as [[K' st'] pn].
    destruct (negb (pn =? 0)); [reflexivity|].
    destruct (makeRoot K' s) as [[r s']|] eqn:Em; [reflexivity|].
    apply IH; cbn [buf bi]; try lia; try reflexivity. exact (makeRoot_None _ _ Em).
Qed.

Lemma skipLoop_adequate : forall f f' s, bi s = 0 -> (length (buf s) + 3 <= f)%nat -> (f <= f')%nat ->
  skipLoop f' s = skipLoop f s.
Proof.
  induction f as [|f IH]; intros f' s Hb Hf Hle; [lia|].
  destruct f' as [|f']; [lia|]. cbn [skipLoop]. cbv zeta.
  pose proof (len_nonneg (buf s)) as Hn.
  destruct (lineEnd_spec (buf s) (bi s) ltac:(lia)) as [A _].
  destruct (Z.ltb_spec (bi s) (lineEnd (buf s) (bi s))) as [Lt|Ge]; cbn [negb]; [|reflexivity].
  destruct (isBlankLine _).
  - apply IH; cbn [buf bi]; try lia.
    assert (Hl : len (from_ (buf s) (lineEnd (buf s) (bi s))) = len (buf s) - lineEnd (buf s) (bi s)) by (apply len_from; lia).
    unfold len in Hl, A, Lt. lia.
  - apply lineLoop_adequate; cbn [buf bi]; try lia.
    + rewrite Hb. reflexivity.
    + left. reflexivity.
    + unfold len. lia.
Qed.

(* the in-memory NextBlock does not depend on its fuel from 3 + length buf on *)
Theorem nextBlock_adequate f' s : 0 <= bi s <= len (buf s) -> (3 + length (buf s) <= f')%nat ->
  nextBlock f' s = nextBlock (3 + length (buf s)) s.
Proof.
  intros Hb Hf. unfold nextBlock. cbv zeta.
  destruct (makeRoot (pending s) s) as [[r s']|] eqn:Em; [reflexivity|].
  destruct (pending s) as [|b0 rest] eqn:Ep.
  - apply skipLoop_adequate; cbn [buf bi]; try lia; try reflexivity.
    pose proof (len_from_le' (buf s) (bi s)) as Hl. lia.
  - apply lineLoop_adequate; cbn [buf bi]; try lia; try reflexivity.
    + destruct (makeRoot_None _ _ Em) as [E|E]; [discriminate|right; exact E].
    + unfold len. lia.
Qed.
Print Assumptions nextBlock_adequate.
