From Coq Require Import List ZArith Lia Bool.
Import ListNotations.
Require Import Base Tables Utf8 Tree Rdr Link Collect Html Recog Inl3a Inl3b Inl3c Inl3d.
Open Scope Z_scope.

(* processEmphasis of Appendix G with the search lower bound switchable:
   opt = true is the transcription (Inl3d.pe_loop), opt = false searches down to stack_bottom every time. *)
Fixpoint pe_loopX (opt : bool) (sb : Z) (fuel : nat) (st : ist) (ob : list Z) (cp : Z) : ist :=
  match fuel with
  | O => st
  | S f =>
    let stack := stk st in
    let cp := pe_findCloser (S (length stack)) stack cp in
    if cp <? 0 then st else
    let c := nthD stack cp in
    let obi := obIndex c in
    let lo := if opt then getOB ob obi else sb in
    let oi := pe_findOpener (S (length stack)) stack (cp - 1) lo c in
    if lo <=? oi then
      let o := nthD stack oi in
      let on := nodeOf st (d_node o) in let cn := nodeOf st (d_node c) in
      let strong := (2 <=? plen on) && (2 <=? plen cn) in
      let k := if strong then 2 else 1 in
      let st := updN st (d_node o) (fun n => setSpan n (ps n) (pe n - k)) in
      let st := updN st (d_node c) (fun n => setSpan n (ps n + k) (pe n)) in
      let '(st, _) := wrap st (if strong then StrongKind else EmphasisKind) (d_node o) (Some (d_node c)) in
      let st := setStk st (delStack (stk st) (oi + 1) cp) in
      let cp := oi + 1 in
      let ob := map (fun b => if oi + 1 <? b then oi + 1 else b) ob in
      let '(st, cp, ob) :=
        if plen (nodeOf st (d_node o)) =? 0 then
          (setStk (removeNode st (d_node o)) (delStack (stk st) oi (oi + 1)), cp - 1,
           map (fun b => if oi <? b then b - 1 else b) ob)
        else (st, cp, ob) in
      let st :=
        if plen (nodeOf st (d_node c)) =? 0 then
          setStk (removeNode st (d_node c)) (delStack (stk st) cp (cp + 1))
        else st in
      pe_loopX opt sb f st ob cp
    else
      let ob := setOB ob obi cp in
      if negb (hasFlag c fOpener) then pe_loopX opt sb f (setStk st (delStack (stk st) cp (cp + 1))) ob cp
      else pe_loopX opt sb f st ob (cp + 1)
  end.

Lemma pe_loopX_true sb fuel st ob cp : pe_loopX true sb fuel st ob cp = pe_loop fuel st ob cp.
Proof.
  revert st ob cp; induction fuel as [|f IH]; intros st ob cp; [reflexivity|].
  cbn [pe_loopX pe_loop].
  destruct (pe_findCloser _ _ _ <? 0); [reflexivity|].
  destruct (_ <=? _).
  - destruct (wrap _ _ _ _) as [st1 x]. destruct (plen _ =? 0); destruct (plen _ =? 0); apply IH.
  - destruct (negb _); apply IH.
Qed.
