(* C17chk.v — the side condition of C17 (second clause) as a boolean check on a tree, parallel to the renderer.
   Every function takes the output t that FOLLOWS the node's own output (up to the end of the rendered root block).
   Only three kinds of leaves are constrained:
     - raw HTML (RawHTMLKind), emitted through filterRaw:   joinOK span t
         at every '<' of the span, the tag name that filterRaw judged (the name inside the span) is the tag name an observer
         of the whole output reads there, i.e. the span does not end inside a name (or right after '<') that t continues;
     - character references and soft line breaks copied verbatim from the source (also inside alt text):   vsafe span t
         no '<' of the span is followed by an ASCII letter in span ++ t.
   Everything else the renderer writes is unconstrained. *)
From Coq Require Import List ZArith Lia Bool.
Import ListNotations.
Require Import Base Tables Utf8 Tree Recog Inl3b Driver Inl3e Render Safe MainTok C17bytes.
Open Scope Z_scope.

Fixpoint chkAlt (fuel : nat) (src : bytes) (i : inline) (t : bytes) : bool :=
  match fuel with
  | O => true
  | S f =>
    let k := ikind i in
    if k =? TextKind then true
    else if k =? CharacterReferenceKind then vsafe (spanOf src i) t
    else if (k =? IndentKind) || (k =? SoftLineBreakKind) || (k =? HardLineBreakKind) then true
    else if (k =? LinkDestinationKind) || (k =? LinkTitleKind) || (k =? LinkLabelKind) then true
    else chkL (altText f src) (chkAlt f src) (ikids i) t
  end.

Fixpoint chkI (fuel : nat) (c : cfg) (refs : list (bytes * linkDef)) (src : bytes) (i : inline) (t : bytes) : bool :=
  match fuel with
  | O => true
  | S f =>
    let k := ikind i in
    let kids := chkL (renderI f c refs src) (chkI f c refs src) (ikids i) in
    if (k =? TextKind) || (k =? UnparsedKind) then true
    else if k =? CharacterReferenceKind then vsafe (spanOf src i) t
    else if k =? RawHTMLKind then
      if ignoreRaw c then true else joinOK (spanOf src i) t
    else if k =? SoftLineBreakKind then
      if softBreak c =? 2 then true else if softBreak c =? 1 then true
      else if 0 <? iend i - istart i then vsafe (spanOf src i) t else true
    else if k =? HardLineBreakKind then true
    else if k =? EmphasisKind then kids (closeTag c [101;109] ++ t)
    else if k =? StrongKind then kids (closeTag c [115;116;114;111;110;103] ++ t)
    else if k =? CodeSpanKind then kids (closeTag c [99;111;100;101] ++ t)
    else if k =? LinkKind then kids (closeTag c [97] ++ t)
    else if k =? ImageKind then chkAlt (isize i) src i (34 :: 62 :: t)
    else if k =? AutolinkKind then true
    else if k =? IndentKind then true
    else if k =? HTMLTagKind then kids t
    else true
  end.

Fixpoint chkB (fuel : nat) (c : cfg) (refs : list (bytes * linkDef)) (src : bytes) (parentTight : bool) (b : block) (t : bytes) : bool :=
  match fuel with
  | O => true
  | S f =>
    let k := bkind b in
    let kidsB := chkL (renderB f c refs src (isTightList b)) (chkB f c refs src (isTightList b)) (bkids b) in
    let kidsI := chkL (fun i => renderI (isize i) c refs src i) (fun i => chkI (isize i) c refs src i) (bik b) in
    let kids := match bkids b with [] => kidsI | _ => kidsB end in
    if k =? ParagraphKind then (if parentTight then kids t else kids (closeTag c [112] ++ t))
    else if k =? ThematicBreakKind then true
    else if isHeading k then kids (closeTag c (hTag (bn b)) ++ t)
    else if isCode k then kids (closeTag c [99;111;100;101] ++ closeTag c [112;114;101] ++ t)
    else if k =? BlockQuoteKind then kids (closeTag c [98;108;111;99;107;113;117;111;116;101] ++ t)
    else if k =? ListKind then
      if isOrdered b then kids (closeTag c [111;108] ++ t) else kids (closeTag c [117;108] ++ t)
    else if k =? ListItemKind then kids (closeTag c [108;105] ++ t)
    else if k =? HTMLBlockKind then (if ignoreRaw c then true else kids t)
    else true
  end.

(* whole documents: the root blocks are joined by two line feeds *)
Fixpoint chkJoin {A} (g : A -> bytes) (chk : A -> bytes -> bool) (l : list A) : bool :=
  match l with
  | [] => true
  | [x] => chk x []
  | x :: r => chk x ([10; 10] ++ joinBlocks (map g r)) && chkJoin g chk r
  end.
Definition chkRoots (c : cfg) (refs : list (bytes * linkDef)) (roots : list rootB) : bool :=
  chkJoin (fun r => renderB (bheight (rb_blk r)) c refs (rb_src r) false (rb_blk r))
          (fun r => chkB (bheight (rb_blk r)) c refs (rb_src r) false (rb_blk r)) roots.
Definition chkDoc (c : cfg) (input : bytes) : bool :=
  let '(roots, _) := parseFull input in
  let refs := fold_left (fun a r => extractDefs (bheight (rb_blk r)) (rb_src r) (rb_blk r) a) roots [] in
  chkRoots c refs roots.
