From Coq Require Import List ZArith Lia Bool.
Import ListNotations.
Require Import Base Tables Utf8 Tree Rdr Link Collect Html Recog Inl3a Inl3b Inl3c Inl3d Inl3e.
Open Scope Z_scope.

(* the entry cursor of the tokeniser never moves backwards (needed for the fuel of the outer loop) *)
Definition EQU (st st' : ist) : Prop := unp st' = unp st /\ upos st' = upos st.
Definition UQ (st st' : ist) : Prop := unp st' = unp st /\ upos st <= upos st' /\ (upos st <= len (unp st) -> upos st' <= len (unp st)).
Lemma EQU_refl st : EQU st st. Proof. split; reflexivity. Qed.
Lemma EQU_trans a b c : EQU a b -> EQU b c -> EQU a c.
Proof. intros [A1 A2] [B1 B2]. split; congruence. Qed.
Lemma EQU_UQ a b : EQU a b -> UQ a b. Proof. intros [A B]. split; [exact A|]. rewrite B. split; [lia|tauto]. Qed.
Lemma UQ_refl st : UQ st st. Proof. split; [reflexivity|]. split; [lia|tauto]. Qed.
Lemma UQ_trans a b c : UQ a b -> UQ b c -> UQ a c.
Proof. intros (A1 & A2 & A3) (B1 & B2 & B3). rewrite A1 in B3. split; [congruence|]. split; [lia|]. intros H. apply B3, A3, H. Qed.
Lemma EQU_addNode st k s e kids : EQU st (fst (addNode st k s e kids)).
Proof. unfold addNode. destruct (_ =? 0); split; reflexivity. Qed.
Lemma EQU_addText st s e : EQU st (addText st s e). Proof. apply EQU_addNode. Qed.
Lemma nodeIdx_lt : forall l pos k, 0 <= k -> nodeIdx l pos k < k + len l \/ l = [].
Proof.
  induction l as [|x l IH]; intros pos k Hk; [right; reflexivity|]. left. cbn [nodeIdx]. unfold len in *. cbn [length].
  destruct (pos <? istart x); [lia|]. destruct (spanHas x pos); [lia|]. destruct (IH pos (k + 1) ltac:(lia)) as [X|X]; [lia|]. subst l. cbn. lia.
Qed.
Lemma nodeIdx_ge1 : forall l pos k, 0 <= k -> -1 <= nodeIdx l pos k.
Proof. induction l as [|x l IH]; intros pos k Hk; cbn [nodeIdx]; [lia|]. destruct (pos <? istart x); [lia|]. destruct (spanHas x pos); [lia|]. apply IH. lia. Qed.
Lemma UQ_advanceTo st p : 0 <= upos st <= len (unp st) -> UQ st (advanceTo st p).
Proof.
  intros H. unfold advanceTo. destruct (Z.leb_spec 0 (nodeIndexForPosition (unpFrom st) p)) as [L|L]; split; cbn [unp upos setUpos]; try reflexivity; [|lia].
  split; [lia|]. intros _. unfold nodeIndexForPosition, unpFrom in *. destruct (nodeIdx_lt (from_ (unp st) (upos st)) p 0 ltac:(lia)) as [X|X]; [|rewrite X in L; cbn in L; lia].
  assert (len (from_ (unp st) (upos st)) = len (unp st) - upos st) by (unfold len, from_; rewrite skipn_length; unfold len in H; lia). lia.
Qed.
Lemma EQU_pe_loop : forall fuel st ob cp, EQU st (pe_loop fuel st ob cp).
Proof.
  induction fuel as [|f IH]; intros st ob cp; [apply EQU_refl|]. cbn [pe_loop].
  destruct (_ <? 0); [apply EQU_refl|]. destruct (_ <=? _).
  - unfold wrap. cbv zeta.
    repeat match goal with |- context [if ?c then _ else _] => destruct c end;
      (eapply EQU_trans; [|apply IH]); split; reflexivity.
  - destruct (negb _); (eapply EQU_trans; [|apply IH]); split; reflexivity.
Qed.
Lemma EQU_processEmphasis st sb : EQU st (processEmphasis st sb).
Proof. unfold processEmphasis. destruct (EQU_pe_loop (4 * (length (stk st) + length (isrc st)) + 8) st (repeat sb 14) sb) as [A B]. split; [exact A|exact B]. Qed.
Lemma EQU_finishLink st kind odi : EQU st (finishLink st kind odi).
Proof.
  unfold finishLink. destruct (EQU_processEmphasis st (odi + 1)) as [A B]. destruct (kind =? LinkKind); split; cbn [unp upos setStk removeNode setRk]; assumption.
Qed.
Lemma EQU_lfl : forall fuel st i, EQU st (fst (lfl fuel st i)).
Proof.
  induction fuel as [|f IH]; intros st i; cbn [lfl]; [apply EQU_refl|]. destruct (i <? 0); [apply EQU_refl|]. destruct (_ || _); [|apply IH].
  destruct (negb _); cbn [fst]; split; reflexivity.
Qed.
Lemma UQ_collectCodeSpan st a b c d : 0 <= upos st < len (unp st) -> UQ st (collectCodeSpan st a b c d).
Proof.
  intros H0. unfold collectCodeSpan. cbv zeta. destruct (_ =? 0).
  - apply EQU_UQ, EQU_addNode.
  - match goal with |- context [?F (Z.to_nat ?n) ?acc (upos st)] =>
      assert (HM : forall k acc0 up, snd (F k acc0 up) = up + Z.of_nat k) by (induction k as [|k IHk]; intros acc0 up; [cbn; lia|cbn [snd]; specialize (IHk (if ikind (nth (Z.to_nat (up + 1)) (unp st) (mkI 0 0 0)) =? UnparsedKind then cs_addSpan (isrc st) acc0 (istart (nth (Z.to_nat (up + 1)) (unp st) (mkI 0 0 0))) (iend (nth (Z.to_nat (up + 1)) (unp st) (mkI 0 0 0))) else acc0) (up + 1)); lia]);
      specialize (HM (Z.to_nat n) acc (upos st)); destruct (F (Z.to_nat n) acc (upos st)) as [acc1 up1] end.
    cbn [snd] in HM. eapply UQ_trans; [|apply EQU_UQ, EQU_addNode]. split; cbn [unp upos setUpos]; [reflexivity|]. split; [lia|]. intros Hle.
    subst up1. unfold nodeIndexForPosition, unpFrom in *.
    pose proof (nodeIdx_ge1 (from_ (unp st) (upos st)) d 0 ltac:(lia)) as Hge.
    destruct (nodeIdx_lt (from_ (unp st) (upos st)) d 0 ltac:(lia)) as [X|X].
    + assert (len (from_ (unp st) (upos st)) = len (unp st) - upos st) by (unfold len, from_; rewrite skipn_length; unfold len in Hle; lia). lia.
    + rewrite X in *. cbn [nodeIdx] in *. assert (Hz : len (from_ (unp st) (upos st)) = 0) by (rewrite X; reflexivity).
      unfold len, from_ in Hz. rewrite skipn_length in Hz. unfold len in Hle. lia.
Qed.

Lemma UQ_fin_adv st st2 kind odi p : EQU st st2 -> 0 <= upos st <= len (unp st) -> UQ st (finishLink (advanceTo st2 p) kind odi).
Proof.
  intros [A B] C. eapply UQ_trans; [apply EQU_UQ; split; eassumption|]. eapply UQ_trans; [apply UQ_advanceTo; rewrite A, B; exact C|apply EQU_UQ, EQU_finishLink].
Qed.
Lemma UQ_fin st st2 kind odi : EQU st st2 -> UQ st (finishLink st2 kind odi).
Proof. intros H. apply EQU_UQ. eapply EQU_trans; [exact H|apply EQU_finishLink]. Qed.

Lemma UQ_parseEndBracket st start : 0 <= upos st <= len (unp st) -> UQ st (fst (parseEndBracket st start)).
Proof.
  intros H. unfold parseEndBracket. cbv zeta.
  pose proof (EQU_lfl (S (length (stk st))) st (len (stk st) - 1)) as Hl. fold (lookForLinkOrImage st) in Hl.
  destruct (lookForLinkOrImage st) as [stb odi]. cbn [fst] in Hl.
  assert (Hb : 0 <= upos stb <= len (unp stb)) by (destruct Hl as [-> ->]; exact H).
  assert (HU : forall x, UQ stb x -> UQ st x) by (intros x Hx; eapply UQ_trans; [apply EQU_UQ; exact Hl|exact Hx]).
  apply HU. clear HU Hl H. 
  destruct (odi <? 0); [cbn [fst]; apply EQU_UQ, EQU_addText|].
  assert (Hfail : UQ stb (setStk (addText stb start (start + 1)) (delStack (stk stb) odi (odi + 1)))) by (apply EQU_UQ; destruct (EQU_addText stb start (start + 1)) as [A B]; split; assumption).
  unfold wrap. cbv zeta.
  match goal with |- context [match ?x with Some _ => _ | None => _ end] => destruct x as [[[[[ispan dspan] dtext] tspan] ttext]|] end.
  - cbn [fst]. destruct (spanValid tspan); destruct (spanValid dspan); (apply UQ_fin_adv; [split; reflexivity|exact Hb]).
  - match goal with |- context [let '(_, _) := ?x in _] => destruct x as [lspan linner] end.
    destruct (_ && _ && _).
    + destruct (negb _); cbn [fst]; [exact Hfail|apply UQ_fin; split; reflexivity].
    + destruct (spanValid lspan).
      * destruct (negb _); cbn [fst]; [exact Hfail|apply UQ_fin_adv; [split; reflexivity|exact Hb]].
      * destruct (negb _); cbn [fst]; [exact Hfail|apply UQ_fin; split; reflexivity].
Qed.

Lemma UQ_istep st pos pl : 0 <= upos st < len (unp st) -> UQ st (fst (fst (istep st pos pl))).
Proof.
  intros H. unfold istep. cbv zeta.
  pose proof (EQU_addText st pl pos) as Ha.
  assert (Hb : 0 <= upos (addText st pl pos) <= len (unp (addText st pl pos))) by (destruct Ha as [-> ->]; lia).
  assert (HU : forall x, UQ (addText st pl pos) x -> UQ st x) by (intros x Hx; eapply UQ_trans; [apply EQU_UQ; exact Ha|exact Hx]).
  assert (HE : forall x, EQU (addText st pl pos) x -> UQ st x) by (intros x Hx; apply HU, EQU_UQ, Hx).
  destruct (_ || _).
  { unfold parseDelimiterRun. cbv zeta. pose proof (EQU_addNode (addText st pl pos) TextKind pos (runEnd (length (isrc (addText st pl pos))) (isrc (addText st pl pos)) (pos + 1) (spanEnd (addText st pl pos)) (at_ (isrc (addText st pl pos)) pos)) []) as X.
    destruct (addNode _ _ _ _ _) as [st1 id]. cbn [fst] in *. apply HE. destruct X as [A B]. split; assumption. }
  destruct (_ =? 91).
  { pose proof (EQU_addNode (addText st pl pos) TextKind pos (pos + 1) []) as X. destruct (addNode _ _ _ _ _) as [st1 id]. cbn [fst] in *. apply HE. destruct X as [A B]. split; assumption. }
  destruct (_ =? 93).
  { pose proof (UQ_parseEndBracket (addText st pl pos) pos Hb) as X. destruct (parseEndBracket _ _) as [st1 e]. cbn [fst] in *. apply HU, X. }
  destruct (_ =? 33).
  { destruct (_ || _); [apply UQ_refl|]. pose proof (EQU_addNode (addText st pl pos) TextKind pos (pos + 2) []) as X. destruct (addNode _ _ _ _ _) as [st1 id]. cbn [fst] in *. apply HE. destruct X as [A B]. split; assumption. }
  destruct (_ =? 32).
  { destruct (parseHardLineBreakSpace _) as [e ok]. destruct (_ && _); [|apply UQ_refl]. cbn [fst]. apply HE.
    destruct (EQU_addNode (addText st pl pos) HardLineBreakKind pos (pos + e) []) as [A B]. split; assumption. }
  destruct (_ =? 96).
  { destruct (parseCodeSpan _ _ _) as [[cS cE] sE]. destruct (0 <=? sE); [|apply UQ_refl]. cbn [fst]. apply HU, UQ_collectCodeSpan. destruct Ha as [-> ->]. exact H. }
  destruct (_ =? 60).
  { destruct (0 <=? _).
    - cbn [fst]. apply HE, EQU_addNode.
    - destruct (parseHTMLTag _ _) as [ts te]. destruct (negb _); [apply UQ_refl|]. cbn [fst].
      eapply UQ_trans; [apply EQU_UQ; eapply EQU_trans; [apply (EQU_addText st pl ts)|apply EQU_addNode]|].
      apply UQ_advanceTo. destruct (EQU_addNode (addText st pl ts) HTMLTagKind ts te (kidsOf (collectTextNodes (rfuelOf st) (newReader (isrc st) (unpFrom (addText st pl ts)) ts) te RawHTMLKind false))) as [A B].
      destruct (EQU_addText st pl ts) as [C D]. rewrite A, B, C, D. lia. }
  destruct (_ =? 92).
  { unfold parseBackslash. cbv zeta. destruct (_ || _ || _).
    - destruct (isLastSpan _); cbn [fst]; [apply HE, EQU_addText|]. apply HE. destruct (EQU_addNode (setIgn (addText st pl pos) true) HardLineBreakKind pos (eolRun (length (isrc (addText st pl pos))) (isrc (addText st pl pos)) (pos + 1) (spanEnd (addText st pl pos))) []) as [A B]. split; assumption.
    - destruct (isASCIIPunctuation _); cbn [fst]; apply HE, EQU_addText. }
  destruct (_ =? 38).
  { destruct (_ <? 0); [apply UQ_refl|]. cbn [fst]. apply HE, EQU_addNode. }
  destruct (_ =? 10).
  { cbn [fst]. destruct (negb _); [apply HE, EQU_addNode|apply HE, EQU_refl]. }
  destruct (_ =? 13).
  { cbn [fst]. destruct (negb _); [apply HE, EQU_addNode|apply HE, EQU_refl]. }
  apply UQ_refl.
Qed.
