From Coq Require Import List ZArith Lia Bool.
Import ListNotations.
Require Import Base Tree Rdr Link Collect Html Recog LP Rules Starts Driver Render L2Kind L2CC GramDefs GramTree GramLP.
Require L2Kind2.
Open Scope Z_scope.

Lemma GI_open_core p K y : GI p -> (K <> ListItemKind \/ canContain (containerKind p) K = true) ->
  bkind y = K -> cc y = true -> gb y = true -> isOpen y = true -> K <> ListMarkerKind ->
  (K = ListItemKind -> bchar y = bchar (contBlock (obPre p K)) /\ bloose y = false) ->
  GI (withCont (updCont (obPre p K) (appendB y)) (Some (S (cdepth (obPre p K))))).
Proof.
  intros H Hk Ey Hc Hg Ho Nm Hi. destruct (GI_obPre p K H Hk) as [H3 A3].
  apply GI_append; try assumption; rewrite Ey; assumption.
Qed.

Lemma GI_panic p s : GI p -> GI (panic p s).
Proof. apply GI_same. split; reflexivity. Qed.

Lemma GI_openBlock p K : GI p -> K <> ListMarkerKind -> K <> ListItemKind -> (forall pos, gb (newBlock K pos) = true) ->
  GI (openBlock p K).
Proof.
  intros H Nm Ni Hg. unfold openBlock. destruct (_ || _) eqn:Es; [apply GI_panic; exact H|].
  apply (GI_open_core p K (newBlock K (obPos p K))); try assumption; try reflexivity.
  - left. exact Ni.
  - apply Hg.
  - intros E. contradiction.
Qed.

Lemma root_updCont p f : root (updCont p f) = updAt (cdepth p) f (root p). Proof. reflexivity. Qed.
Lemma root_openBlock p K : st_open p ->
  root (openBlock p K) = updAt (cdepth (obPre p K)) (appendB (newBlock K (obPos p K))) (root (obPre p K)).
Proof. intros Hs. rewrite (openBlock_eq p K Hs). reflexivity. Qed.
Lemma cdepth_openBlock p K : st_open p -> cdepth (openBlock p K) = S (cdepth (obPre p K)).
Proof. intros Hs. rewrite (openBlock_eq p K Hs). reflexivity. Qed.

(* openBlock followed by the initialisation of the new block *)
Lemma GI_openBlock_init p K g : st_open p -> GI p -> K <> ListMarkerKind -> K <> ListItemKind ->
  (forall pos, bkind (g (newBlock K pos)) = K /\ cc (g (newBlock K pos)) = true /\
               gb (g (newBlock K pos)) = true /\ isOpen (g (newBlock K pos)) = true) ->
  GI (updCont (openBlock p K) g).
Proof.
  intros Hs H Nm Ni Hg. destruct (Hg (obPos p K)) as (E1 & E2 & E3 & E4).
  pose proof (GI_open_core p K (g (newBlock K (obPos p K))) H (or_introl Ni) E1 E2 E3 E4 Nm ltac:(intros E; contradiction)) as Hc.
  revert Hc. apply GI_same_cd.
  - rewrite root_updCont, (cdepth_openBlock p K Hs), (root_openBlock p K Hs). rewrite updAt_S_append. reflexivity.
  - rewrite cdepth_updCont, (cdepth_openBlock p K Hs). reflexivity.
Qed.

(* ---- the list item and its marker (startListItem) ---- *)
Lemma openBlock_up_stay f p K : canContain (containerKind p) K = true -> openBlock_up (S f) p K = p.
Proof. intros H. cbn [openBlock_up]. rewrite H. reflexivity. Qed.
Lemma obPre_stay p K : canContain (containerKind p) K = true ->
  obPre p K = closeLastChildAt (if state p =? stOpening then withState p stOpenMatched else p)
                (cdepth p) (lineStart p).
Proof.
  intros H. unfold obPre. cbv zeta.
  rewrite openBlock_up_stay by (rewrite (containerKind_same p _ (same_opened p)); exact H).
  destruct (state p =? stOpening); reflexivity.
Qed.
Lemma bchar_closeF p e x : bchar (closeF p e x) = bchar x.
Proof. unfold closeF. destruct (lastBlock x); [apply bchar_set_lastBlocks|reflexivity]. Qed.
Lemma bchar_cont_closeHere p e : bchar (contBlock (closeLastChildAt p (cdepth p) e)) = bchar (contBlock p).
Proof.
  unfold contBlock, closeLastChildAt. cbn [root container withRoot setLP cdepth]. fold (cdepth p). fold (closeF p e).
  rewrite getAt_updAt_same. destruct (getAt (cdepth p) (root p)) as [x|]; [|reflexivity]. cbn [option_map]. apply bchar_closeF.
Qed.
Lemma contBlock_same p p' : same_tree p p' -> contBlock p' = contBlock p.
Proof. intros [E1 E2]. unfold contBlock, cdepth. rewrite E1, E2. reflexivity. Qed.
Lemma bchar_cont_obPre p K : canContain (containerKind p) K = true -> bchar (contBlock (obPre p K)) = bchar (contBlock p).
Proof.
  intros H. rewrite (obPre_stay p K H).
  set (p0 := if state p =? stOpening then withState p stOpenMatched else p).
  assert (E : cdepth p = cdepth p0) by (unfold p0; destruct (state p =? stOpening); reflexivity).
  assert (El : lineStart p = lineStart p0) by (unfold p0; destruct (state p =? stOpening); reflexivity).
  rewrite E, bchar_cont_closeHere. f_equal. apply contBlock_same. apply same_opened.
Qed.

Lemma getAt_snoc : forall k r, getAt (S k) r = match getAt k r with Some x => lastBlock x | None => None end.
Proof.
  induction k as [|k IH]; intros r.
  - cbn [getAt]. destruct (lastBlock r); reflexivity.
  - rewrite getAt_S. rewrite (getAt_S r k). destruct (lastBlock r) as [c|]; [apply IH|reflexivity].
Qed.

(* one level deeper: the last child of the container is open and becomes the container *)
Lemma GI_deeper p p' c : root p' = root p -> cdepth p' = S (cdepth p) -> GI p ->
  getAt (S (cdepth p)) (root p) = Some c -> isOpen c = true -> GI p'.
Proof.
  intros E1 E2 ((A1 & A2 & A3) & B & C) Hg Ho. split; [|split].
  - unfold ccP, wf. rewrite E1, E2. split; [exact A1|split; [exact A2|eauto]].
  - rewrite E1. exact B.
  - rewrite E1, E2. eapply so_extend; eassumption.
Qed.

Lemma st_open_updCont p f : st_open p -> st_open (updCont p f). Proof. exact (fun H => H). Qed.

Lemma GI_openItemMarker p delim : st_open p -> GI p -> containerKind p = ListKind -> bchar (contBlock p) = delim ->
  GI (openBlock (updCont (openBlock p ListItemKind) (fun b => set_bchar b delim)) ListMarkerKind).
Proof.
  intros Hs H Hk Hd.
  set (sb := fun b : block => set_bchar b delim).
  set (q1 := openBlock p ListItemKind). set (q := updCont q1 sb).
  assert (Hcan : canContain (containerKind p) ListItemKind = true) by (rewrite Hk; reflexivity).
  assert (Sq : st_open q) by (apply st_open_updCont, L2Kind2.st_open_openBlock, Hs).
  assert (Cq : ccP q).
  { apply ccP_updCont; [apply ccP_openBlock; [apply H|right; exact Hcan]|].
    intros x _ Hx. unfold sb. rewrite cc_set_bchar, bkind_set_bchar. tauto. }
  assert (Kq : containerKind q = ListItemKind).
  { apply containerKind_of; [exact Cq|]. apply ckind_updCont; [intros b; apply bkind_set_bchar|]. apply ckind_openBlock, Hs. }
  set (q0 := if state q =? stOpening then withState q stOpenMatched else q).
  assert (Epre : obPre q ListMarkerKind = closeLastChildAt q0 (cdepth q) (lineStart q)).
  { apply obPre_stay. rewrite Kq. reflexivity. }
  set (p3 := obPre p ListItemKind) in *. set (d := cdepth p3).
  set (nb := newBlock ListItemKind (obPos p ListItemKind)).
  set (m := newBlock ListMarkerKind (obPos q ListMarkerKind)).
  assert (Eq1 : root q1 = updAt d (appendB nb) (root p3) /\ cdepth q1 = S d).
  { split; [apply (root_openBlock p ListItemKind Hs)|apply (cdepth_openBlock p ListItemKind Hs)]. }
  destruct Eq1 as [Rq1 Dq1].
  assert (Rq : root q = updAt (S d) sb (updAt d (appendB nb) (root p3))).
  { unfold q. rewrite root_updCont, Dq1, Rq1. reflexivity. }
  assert (Dq : cdepth q = S d) by (unfold q; rewrite cdepth_updCont; exact Dq1).
  assert (Rq0 : root q0 = root q /\ cdepth q0 = cdepth q) by (unfold q0; destruct (state q =? stOpening); split; reflexivity).
  destruct Rq0 as [Rq0 Dq0].
  set (item := Blk ListItemKind (obPos p ListItemKind) (-1) [m] [] 0 0 delim false false).
  assert (RF : root (openBlock q ListMarkerKind) = updAt d (appendB item) (root p3)).
  { rewrite (root_openBlock q ListMarkerKind Sq). fold m. rewrite Epre.
    change (cdepth (closeLastChildAt q0 (cdepth q) (lineStart q))) with (cdepth q0).
    change (root (closeLastChildAt q0 (cdepth q) (lineStart q))) with (updAt (cdepth q) (closeF q0 (lineStart q)) (root q0)).
    rewrite Dq0, Rq0, Dq, Rq. rewrite !updAt_fuse. rewrite updAt_S_append. reflexivity. }
  assert (DF : cdepth (openBlock q ListMarkerKind) = S (S d)).
  { rewrite (cdepth_openBlock q ListMarkerKind Sq), Epre.
    change (cdepth (closeLastChildAt q0 (cdepth q) (lineStart q))) with (cdepth q0). rewrite Dq0, Dq. reflexivity. }
  (* the state with the complete item attached and the item as the container *)
  assert (HS : GI (withCont (updCont p3 (appendB item)) (Some (S d)))).
  { apply (GI_open_core p ListItemKind item H (or_intror Hcan)); try reflexivity; [discriminate|].
    intros _. split; [|reflexivity]. fold p3. unfold p3. rewrite (bchar_cont_obPre p ListItemKind Hcan). symmetry. exact Hd. }
  apply (GI_deeper (withCont (updCont p3 (appendB item)) (Some (S d))) _ m).
  - rewrite RF. reflexivity.
  - rewrite DF. reflexivity.
  - exact HS.
  - change (getAt (S (S d)) (updAt d (appendB item) (root p3)) = Some m).
    rewrite getAt_snoc. destruct (GI_wf p3) as (x0 & Hx0 & _).
    { apply (GI_obPre p ListItemKind H (or_intror Hcan)). }
    pose proof (getAt_S_append_some item d (root p3) x0 Hx0) as Hga.
    change (getAt (S d) (updAt d (appendB item) (root p3)) = Some item) in Hga. rewrite Hga. reflexivity.
  - reflexivity.
Qed.
