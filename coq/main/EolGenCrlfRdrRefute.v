From Coq Require Import List ZArith Lia Bool.
Import ListNotations.
Require Import Base Tree Rdr Link Collect LP Driver ShapesR IFBase EolBounded EolCRLFDefs EolGenCrlfRdrDefs EolGenCrlfRdrCor.
Open Scope Z_scope.

(* Witnesses (all checked by computation) for the hypotheses of EolGenCrlfRdrMain.ocp_crlf. *)

Definition no13b (s : bytes) : bool := forallb (fun c => negb (c =? 13)) s.
Lemma no13b_sound s : no13b s = true -> ~ In 13 s.
Proof. unfold no13b. rewrite forallb_forall. intros H Hin. specialize (H 13 Hin). discriminate H. Qed.
Definition ocpEq (R : bytes) (b : block) : bool := beqL beqB (onCloseParagraph (crlf R) (phiB R b)) (map (phiB R) (onCloseParagraph R b)).
Lemma ocpEq_complete R b : onCloseParagraph (crlf R) (phiB R b) = map (phiB R) (onCloseParagraph R b) -> forall f : list block -> list Z,
  f (onCloseParagraph (crlf R) (phiB R b)) = f (map (phiB R) (onCloseParagraph R b)).
Proof. intros E f. rewrite E. reflexivity. Qed.

Fixpoint rep (n : nat) (l : bytes) : bytes := match n with O => [] | S k => l ++ rep k l end.

(* ---- 1. the bound len (crlf s) < 999 alone is not enough: every Indent entry (the rest of a partly consumed tab) costs
        iindent + 1 steps of the label scanner for one byte.
        s = ">\t[a\n" (">\ta\n")^180 ">\tb]: /u\n"  (len (crlf s) = 916): a definition in the LF run, a paragraph in the CR LF run *)
Definition big (n : nat) : bytes := [62;9;91;97;10] ++ rep n [62;9;97;10] ++ [62;9;98;93;58;32;47;117;10].
Definition kindsOf (x : list rootB * Z) : list (list Z) := map (fun r => map bkind (bkids (rb_blk r))) (fst x).
Theorem parseBlocks_crlf_statement_refuted : ~ parseBlocks_crlf_statement.
Proof.
  intros H. assert (A : ~ In 13 (big 180)) by (apply no13b_sound; vm_compute; reflexivity).
  assert (B : len (crlf (big 180)) < 999) by (vm_compute; reflexivity). specialize (H (big 180) A B).
  apply (f_equal kindsOf) in H. vm_compute in H. discriminate H.
Qed.
Print Assumptions parseBlocks_crlf_statement_refuted.

(* the same at the level of onCloseParagraph: the paragraph of the block quote of `big 180` *)
Fixpoint bigEntries (n : nat) (p : Z) : list inline :=
  match n with
  | O => [Inl IndentKind p (p + 1) 2 [] []; Inl UnparsedKind (p + 1) (p + 8) 0 [] []]
  | S k => Inl IndentKind p (p + 1) 2 [] [] :: Inl UnparsedKind (p + 1) (p + 3) 0 [] [] :: bigEntries k (p + 4)
  end.
Definition bigPara (n : nat) : block :=
  Blk ParagraphKind 2 (len (big n)) [] (Inl UnparsedKind 2 5 0 [] [] :: bigEntries n 6) 0 0 0 false false.
Theorem ocp_crlf_len_only_refuted : exists R b, ~ In 13 R /\ len (crlf R) < 999 /\ PEc R (bik b) /\
  onCloseParagraph (crlf R) (phiB R b) <> map (phiB R) (onCloseParagraph R b).
Proof.
  exists (big 180), (bigPara 180). split; [apply no13b_sound; vm_compute; reflexivity|]. split; [vm_compute; reflexivity|].
  split; [left; apply PEnb_sound; vm_compute; reflexivity|]. intros E. apply (f_equal (map bkind)) in E. vm_compute in E. discriminate E.
Qed.
Print Assumptions ocp_crlf_len_only_refuted.

(* ---- 2. an Indent entry sitting on an LF byte (la = tileS + eok + indOK does not exclude it: eok only asks for NT and LF is
        not a text byte): "[a]: /u 'x\" LF "y'" with the LF as an Indent entry: the text node of the title ends at prev + 1 *)
Definition indLF_src : bytes := [91;97;93;58;32;47;117;32;39;120;92;10;121;39].
Definition indLF_blk : block :=
  Blk ParagraphKind 0 14 [] [Inl UnparsedKind 0 11 0 [] []; Inl IndentKind 11 12 1 [] []; Inl UnparsedKind 12 14 0 [] []] 0 0 0 false false.
Theorem ocp_crlf_indent_on_LF_refuted :
  ~ In 13 indLF_src /\ len (crlf indLF_src) + ibudget (bik indLF_blk) < 999 /\ spW indLF_src (bik indLF_blk) = true /\
  forallb readableK (bik indLF_blk) = true /\ forallb neSp (bik indLF_blk) = true /\
  ocpEq indLF_src indLF_blk = false.
Proof.
  split; [apply no13b_sound; vm_compute; reflexivity|]. split; [vm_compute; reflexivity|]. split; [vm_compute; reflexivity|].
  split; [vm_compute; reflexivity|]. split; vm_compute; reflexivity.
Qed.

Print Assumptions ocp_crlf_indent_on_LF_refuted.
Eval vm_compute in (onCloseParagraph indLF_src indLF_blk, onCloseParagraph (crlf indLF_src) (phiB indLF_src indLF_blk)).
