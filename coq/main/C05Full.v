From Coq Require Import List ZArith Lia Bool.
Import ListNotations.
Require Import Base Tables Utf8 Tree Rdr Link Collect Html Recog Inl3a Inl3b Inl3c Inl3d Inl3e LP Rules Starts Driver Render Props
  L2Kind L2CC L2CCfull GramDefs GramTree GramBlocks.
Require L2Kind2 GIB ExInv1 ExDrv EntTree Rec16 ShRecog Shapes.
Require Import ShapesBase.
Require Import GramInline ComposeGram C13All C05a C05b C05c.
Open Scope Z_scope.

(* ================================================================== *)
(* C05, the node grammar, for every input: Props.C05_statement.        *)
(* Composition of                                                      *)
(*   GramBlocks.parseFull_gb        block-level clauses (a)-(f),       *)
(*   L2CCfull.parseFull_contain     canContain closure, root kinds,    *)
(*   ComposeGram.parseFull_gramI    inline grammar of paragraphs and   *)
(*                                  headings,                          *)
(*   C13All.C13_full                valid spans (closed blocks) and    *)
(*                                  the shape of list markers,         *)
(*   L2Kind2 / ExDrv / GIB          entry kinds, children of info      *)
(*                                  strings and definition parts, no   *)
(*                                  entries in containers,             *)
(*   C05c (new invariant np)        block kinds, non-empty lists,      *)
(*                                  markers only in items, entries of  *)
(*                                  code blocks.                       *)
(* ================================================================== *)

(* ---- gramB, conjunct by conjunct ---- *)
Definition headC (b : block) : bool :=
  let k := bkind b in let lvl := headingLevel b in
  if k =? ATXHeadingKind then (1 <=? lvl) && (lvl <=? 6)
  else if k =? SetextHeadingKind then (1 <=? lvl) && (lvl <=? 2) else lvl =? 0.
Definition numC (src : bytes) (b : block) : bool :=
  let num := listItemNumber src b in
  if (bkind b =? ListItemKind) && isOrdered b then (0 <=? num) && (num <=? 999999999) else num =? -1.
Definition kindC (parentKind : Z) (b : block) : bool :=
  let k := bkind b in let bk := bkids b in let ik := bik b in
  if k =? ListKind then
    negb (len bk =? 0) && (len ik =? 0) &&
    forallb (fun c => (bkind c =? ListItemKind) && Bool.eqb (isOrdered c) (isOrdered b) && Bool.eqb (isTightList c) (isTightList b)) bk
  else if k =? ListItemKind then
    (parentKind =? ListKind) && (len ik =? 0) &&
    match bk with
    | m :: rest => (bkind m =? ListMarkerKind) && forallb (fun c => negb ((bkind c =? ListMarkerKind) || (bkind c =? ListItemKind))) rest
    | [] => false
    end
  else if k =? ListMarkerKind then (parentKind =? ListItemKind) && (len bk =? 0) && (len ik =? 0)
  else if k =? BlockQuoteKind then
    (len ik =? 0) && forallb (fun c => negb ((bkind c =? ListMarkerKind) || (bkind c =? ListItemKind))) bk
  else if k =? LinkReferenceDefinitionKind then
    (len bk =? 0) &&
    match ik with
    | [l; d] => (ikind l =? LinkLabelKind) && (ikind d =? LinkDestinationKind)
    | [l; d; t] => (ikind l =? LinkLabelKind) && (ikind d =? LinkDestinationKind) && (ikind t =? LinkTitleKind)
    | _ => false
    end
  else if (k =? ParagraphKind) || isHeading k then
    (len bk =? 0) && forallb (fun c => phrasing (ikind c)) ik
  else if isCode k then
    (len bk =? 0) &&
    match ik with
    | [] => true
    | c0 :: rest =>
      ((if ikind c0 =? InfoStringKind then k =? FencedCodeBlockKind
        else (ikind c0 =? TextKind) || (ikind c0 =? IndentKind) || (ikind c0 =? SoftLineBreakKind))) &&
      forallb (fun c => (ikind c =? TextKind) || (ikind c =? IndentKind) || (ikind c =? SoftLineBreakKind)) rest
    end
  else if k =? HTMLBlockKind then
    (len bk =? 0) && forallb (fun c => (ikind c =? RawHTMLKind) || (ikind c =? SoftLineBreakKind) || (ikind c =? IndentKind) || (ikind c =? TextKind)) ik
  else if k =? ThematicBreakKind then (len bk =? 0) && (len ik =? 0)
  else false.
Lemma gramB_eq src pk b :
  gramB src pk b = headC b && numC src b && kindC pk b && forallb (gramB src (bkind b)) (bkids b) && forallb (gramI false) (bik b).
Proof. destruct b; reflexivity. Qed.

Lemma nilb_len {A} (l : list A) : nilb l = true -> (len l =? 0) = true.
Proof. destruct l; [reflexivity|discriminate]. Qed.
Lemma len0_nil {A} (l : list A) : l = [] -> (len l =? 0) = true. Proof. intros ->. reflexivity. Qed.

(* ---- accessor agreement: heading level ---- *)
Lemma headC_ok b : gb b = true -> headC b = true.
Proof.
  intros H. apply gb_parts in H. destruct H as [H _]. unfold gbLoc, gbLocK in H. unfold headC, headingLevel, isHeading. cbv zeta.
  destruct (Z.eqb_spec (bkind b) ATXHeadingKind) as [E|N1].
  { rewrite E in *. cbn [orb]. cbn in H. exact H. }
  destruct (Z.eqb_spec (bkind b) SetextHeadingKind) as [E|N2].
  { rewrite E in *. cbn in H |- *. exact H. }
  cbn [orb]. reflexivity.
Qed.

(* ---- accessor agreement: the number of a list item ---- *)
Lemma upto_last (t : bytes) : t <> [] -> t = upto t (len t - 1) ++ [lastZ t].
Proof.
  intros Hne. destruct (exists_last Hne) as (l' & x & ->). rewrite ShRecog.lastZ_snoc.
  replace (len (l' ++ [x]) - 1) with (len l') by (unfold len; rewrite app_length; cbn [length]; lia). rewrite ShRecog.upto_app_exact. reflexivity.
Qed.
Lemma marker_number t m : bkind m = ListMarkerKind -> shapeBlock t m = true ->
  exists d n, parseListMarker t = (d, n, len t) /\ 0 <= n <= 999999999.
Proof.
  intros Ek H. unfold shapeBlock in H. rewrite Ek in H. change (ListMarkerKind =? ListMarkerKind) with true in H. cbv iota zeta in H.
  apply orb_true_iff in H. destruct H as [H|H].
  - apply andb_true_iff in H. destruct H as [H1 H2]. apply Z.eqb_eq in H1.
    destruct t as [|c [|c' r]]; [discriminate| |unfold len in H1; cbn [length] in H1; lia].
    rewrite at_0 in H2. exists c, 0. split; [|lia]. apply (Rec16.parseListMarker_complete [c] c 0 1). apply Rec16.LM_bullet; [|reflexivity].
    repeat (apply orb_true_iff in H2; destruct H2 as [H2|H2]); apply Z.eqb_eq in H2; tauto.
  - apply andb_true_iff in H. destruct H as [H H4]. apply andb_true_iff in H. destruct H as [H H3]. apply andb_true_iff in H. destruct H as [H1 H2].
    apply Z.leb_le in H1, H2.
    assert (Hne : t <> []) by (intros ->; change (len (@nil Z)) with 0 in H1; lia).
    pose proof (upto_last t Hne) as Et. set (ds := upto t (len t - 1)) in *. set (d := lastZ t) in *.
    assert (Hld : len ds = len t - 1) by (unfold ds; rewrite len_upto; lia).
    exists d, (Rec16.value ds 0). split.
    + replace (len t) with (len ds + 1) by lia. rewrite Et at 1. apply Rec16.parseListMarker_complete.
      apply Rec16.LM_ordered; [unfold len in *; lia|exact H4| |reflexivity].
      apply orb_true_iff in H3. destruct H3 as [H3|H3]; apply Z.eqb_eq in H3; tauto.
    + apply Rec16.ordered_number_range; [unfold len in *; lia|exact H4].
Qed.

Lemma shapesB_eq src b :
  shapesB src b = span_valid (len src) (bstart b) (bend b) && shapeBlock (sub src (bstart b) (bend b)) b && forallb (shapesB src) (bkids b) && forallb (shapesI src) (bik b).
Proof. destruct b; reflexivity. Qed.
Lemma shapesB_parts src b : shapesB src b = true ->
  0 <= bstart b /\ bstart b <= bend b /\ shapeBlock (sub src (bstart b) (bend b)) b = true /\ forallb (shapesB src) (bkids b) = true.
Proof.
  rewrite shapesB_eq. intros H. apply andb_true_iff in H. destruct H as [H _]. apply andb_true_iff in H. destruct H as [H H3].
  apply andb_true_iff in H. destruct H as [H1 H2]. unfold span_valid in H1. apply andb_true_iff in H1. destruct H1 as [H1 _].
  apply andb_true_iff in H1. destruct H1 as [A B]. apply Z.leb_le in A, B. tauto.
Qed.

Lemma numC_ok src b : gb b = true -> shapesB src b = true -> numC src b = true.
Proof.
  intros Hg Hs. unfold numC. cbv zeta. unfold listItemNumber.
  destruct (Z.eqb_spec (bkind b) ListItemKind) as [Ek|Nk]; [|cbn [andb negb]; rewrite orb_true_r; reflexivity].
  destruct (isOrdered b) eqn:Eo; cbn [andb negb orb]; [|reflexivity].
  apply gb_parts in Hg. destruct Hg as [Hg _]. unfold gbLoc, gbLocK in Hg. rewrite Ek in Hg. change (ListItemKind =? ListItemKind) with true in Hg. cbv iota in Hg.
  destruct (shapesB_parts src b Hs) as (_ & _ & _ & Hk).
  destruct (bkids b) as [|m rest]; [discriminate|]. cbn [itemKids] in Hg. apply andb_true_iff in Hg. destruct Hg as [Hm _]. rewrite Hm. cbn [negb].
  cbn [forallb] in Hk. apply andb_true_iff in Hk. destruct Hk as [Hk _]. destruct (shapesB_parts src m Hk) as (A & B & C & _).
  apply Z.eqb_eq in Hm. destruct (marker_number _ m Hm C) as (d & n & Ep & Hn). rewrite Ep.
  pose proof (len_nonneg (sub src (bstart m) (bend m))) as Hl. destruct (Z.ltb_spec (len (sub src (bstart m) (bend m))) 0); [lia|].
  apply andb_true_iff. split; apply Z.leb_le; lia.
Qed.

(* ---- the kind-specific clause ---- *)
Lemma cc_nokids b : cc b = true -> (forall k, canContain (bkind b) k = false) -> bkids b = [].
Proof.
  intros H Hn. apply cc_parts in H. destruct H as [H _]. destruct (bkids b) as [|c r]; [reflexivity|]. cbn [forallb] in H. rewrite Hn in H. discriminate.
Qed.
Lemma canContain_item K : canContain K ListItemKind = true -> K = ListKind.
Proof.
  unfold canContain. destruct (K =? documentKind); [discriminate|]. destruct (Z.eqb_spec K ListKind); [tauto|].
  destruct (K =? ListItemKind); [discriminate|]. destruct (K =? BlockQuoteKind); discriminate.
Qed.
Lemma ce_nik b : GIB.ce b = true -> GIB.isContK (bkind b) = true -> bik b = [].
Proof.
  intros H Hc. apply GIB.ce_parts in H. destruct H as [H _]. unfold GIB.ceK in H. rewrite Hc in H. cbn in H. destruct (bik b); [reflexivity|discriminate].
Qed.
Lemma leavesOK_eq G b :
  leavesOK G b = (if (bkind b =? ParagraphKind) || isHeading (bkind b) then forallb (fun i => phrasing (ikind i) && G i) (bik b) else true) &&
                 forallb (leavesOK G) (bkids b).
Proof. destruct b; reflexivity. Qed.

Lemma kindC_ok src pk b : gb b = true -> cc b = true -> np b = true -> entB b = true -> GIB.ce b = true ->
  leavesOK (gramI false) b = true -> shapesB src b = true ->
  (bkind b = ListItemKind -> pk = ListKind) -> (bkind b = ListMarkerKind -> pk = ListItemKind) -> k12 (bkind b) = true ->
  kindC pk b = true /\ forallb (gramI false) (bik b) = true.
Proof.
  intros Hg Hc Hn He Hce Hl Hs Hpi Hpm Hk.
  pose proof Hg as Hg'. apply gb_parts in Hg'. destruct Hg' as [Hgl _]. unfold gbLoc, gbLocK in Hgl.
  destruct (np_parts b Hn) as (Hnk & Hni & _). destruct (kidsK_parts _ _ Hnk) as (N1 & N2 & N3).
  pose proof Hc as Hc'. apply cc_parts in Hc'. destruct Hc' as [Hcc _].
  rewrite entB_eq in He. apply andb_true_iff in He. destruct He as [He _].
  rewrite leavesOK_eq in Hl. apply andb_true_iff in Hl. destruct Hl as [Hl _].
  destruct (shapesB_parts src b Hs) as (S1 & S2 & _ & _).
  assert (Hopen : isOpen b = false) by (unfold isOpen; apply Z.ltb_ge; lia).
  unfold kindC. cbv zeta. unfold k12 in Hk.
  destruct (Z.eqb_spec (bkind b) ListKind) as [E|N_list].
  { (* list *)
    rewrite E in *. cbn in Hgl. pose proof (ce_nik b Hce ltac:(rewrite E; reflexivity)) as Hik. rewrite Hik. split; [|reflexivity].
    apply andb_true_iff. split; [apply andb_true_iff; split; [|reflexivity]|].
    - specialize (N2 eq_refl). destruct (bkids b); [contradiction|reflexivity].
    - apply andb_true_iff in Hgl. destruct Hgl as [G1 G2]. rewrite Hopen in G2. cbn [orb] in G2.
      apply forallb_forall. intros c Hcin. rewrite forallb_forall in G1. specialize (G1 c Hcin). apply andb_true_iff in G1. destruct G1 as [G1 G1'].
      rewrite G1. apply Z.eqb_eq in G1, G1'. cbn [andb]. apply andb_true_iff. split.
      + unfold isOrdered. rewrite G1'. apply Bool.eqb_reflx.
      + unfold isTightList. rewrite G1, E. cbn [Z.eqb orb andb]. change (ListItemKind =? ListKind) with false. change (ListKind =? ListKind) with true. cbn [orb andb].
        destruct (bloose b); rewrite forallb_forall in G2; specialize (G2 c Hcin); [rewrite G2|apply negb_true_iff in G2; rewrite G2]; reflexivity. }
  destruct (Z.eqb_spec (bkind b) ListItemKind) as [E|N_item].
  { rewrite E in *. cbn in Hgl. pose proof (ce_nik b Hce ltac:(rewrite E; reflexivity)) as Hik. rewrite Hik. split; [|reflexivity].
    rewrite (Hpi eq_refl). change (ListKind =? ListKind) with true. cbn [andb]. change (len (@nil inline) =? 0) with true. cbn [andb].
    destruct (bkids b) as [|m rest]; [discriminate|]. cbn [itemKids] in Hgl. exact Hgl. }
  destruct (Z.eqb_spec (bkind b) ListMarkerKind) as [E|N_mk].
  { rewrite E in *. cbn in Hgl. apply andb_true_iff in Hgl. destruct Hgl as [G1 G2]. rewrite (Hpm eq_refl).
    assert (Hik : bik b = []) by (destruct (bik b); [reflexivity|discriminate]). rewrite Hik. split; [|reflexivity].
    rewrite (nilb_len _ G1). reflexivity. }
  destruct (Z.eqb_spec (bkind b) BlockQuoteKind) as [E|N_bq].
  { rewrite E in *. pose proof (ce_nik b Hce ltac:(rewrite E; reflexivity)) as Hik. rewrite Hik. split; [|reflexivity]. cbn [andb].
    change (len (@nil inline) =? 0) with true. cbn [andb]. apply forallb_forall. intros c Hcin.
    specialize (N3 ltac:(discriminate)). rewrite forallb_forall in N3, Hcc. specialize (N3 c Hcin). specialize (Hcc c Hcin). unfold isMk in N3.
    apply negb_true_iff in N3. rewrite N3. cbn [orb]. unfold canContain in Hcc. cbn in Hcc. exact Hcc. }
  destruct (Z.eqb_spec (bkind b) LinkReferenceDefinitionKind) as [E|N_lrd].
  { rewrite E in *. cbn in Hgl. apply andb_true_iff in Hgl. destruct Hgl as [G1 G2]. change (isPH LinkReferenceDefinitionKind) with false in He. cbv iota in He.
    unfold entLoc in He. apply andb_true_iff in He. destruct He as [He _]. apply andb_true_iff in He. destruct He as [He _].
    split; [|exact He]. rewrite (nilb_len _ G1). cbn [andb]. exact G2. }
  destruct ((bkind b =? ParagraphKind) || isHeading (bkind b)) eqn:E_ph.
  { assert (Hbk : bkids b = []).
    { apply cc_nokids; [exact Hc|]. intros k. unfold isHeading in E_ph.
      apply orb_true_iff in E_ph. destruct E_ph as [X|X]; [|apply orb_true_iff in X; destruct X as [X|X]]; apply Z.eqb_eq in X; rewrite X; reflexivity. }
    rewrite Hbk. change (len (@nil block) =? 0) with true. cbn [andb].
    split; apply forallb_forall; intros u Hu; rewrite forallb_forall in Hl; specialize (Hl u Hu); apply andb_true_iff in Hl; tauto. }
  assert (Hph : isPH (bkind b) = false) by exact E_ph. rewrite Hph in He. unfold entLoc in He.
  apply andb_true_iff in He. destruct He as [He He3]. apply andb_true_iff in He. destruct He as [He1 He2].
  split; [|exact He1].
  destruct (isCode (bkind b)) eqn:E_code.
  { assert (Hbk : bkids b = []).
    { apply cc_nokids; [exact Hc|]. intros k. unfold isCode in E_code. apply orb_true_iff in E_code. destruct E_code as [X|X]; apply Z.eqb_eq in X; rewrite X; reflexivity. }
    rewrite Hbk. change (len (@nil block) =? 0) with true. cbn [andb]. exact He2. }
  destruct (Z.eqb_spec (bkind b) HTMLBlockKind) as [E|N_html].
  { assert (Hbk : bkids b = []) by (apply cc_nokids; [exact Hc|]; intros k; rewrite E; reflexivity).
    rewrite Hbk. change (len (@nil block) =? 0) with true. cbn [andb]. exact He3. }
  destruct (Z.eqb_spec (bkind b) ThematicBreakKind) as [E|N_tb].
  { rewrite E in *. cbn in Hgl. apply andb_true_iff in Hgl. destruct Hgl as [G1 G2]. rewrite (nilb_len _ G1), (nilb_len _ G2). reflexivity. }
  exfalso. cbn [orb] in Hk. unfold isPH in Hph. apply orb_false_iff in Hph. destruct Hph as [P1 P2]. rewrite P1, P2 in Hk. discriminate.
Qed.

(* ---- the whole checker ---- *)
Lemma gramB_ok src : forall b pk, gb b = true -> cc b = true -> np b = true -> entB b = true -> GIB.ce b = true ->
  leavesOK (gramI false) b = true -> shapesB src b = true ->
  (bkind b = ListItemKind -> pk = ListKind) -> (bkind b = ListMarkerKind -> pk = ListItemKind) -> k12 (bkind b) = true ->
  gramB src pk b = true.
Proof.
  fix IH 1. intros b pk Hg Hc Hn He Hce Hl Hs Hpi Hpm Hk.
  destruct (kindC_ok src pk b Hg Hc Hn He Hce Hl Hs Hpi Hpm Hk) as [K1 K2].
  rewrite gramB_eq, (headC_ok b Hg), (numC_ok src b Hg Hs), K1, K2. cbn [andb]. rewrite andb_true_r.
  pose proof Hg as Hg'. apply gb_parts in Hg'. destruct Hg' as [_ Gk]. pose proof Hc as Hc'. apply cc_parts in Hc'. destruct Hc' as [Hcc Ck].
  destruct (np_parts b Hn) as (Hnk & _ & Nk). destruct (kidsK_parts _ _ Hnk) as (N1 & _ & N3).
  rewrite entB_eq in He. apply andb_true_iff in He. destruct He as [_ Ek]. apply GIB.ce_parts in Hce. destruct Hce as [_ Cek].
  rewrite leavesOK_eq in Hl. apply andb_true_iff in Hl. destruct Hl as [_ Lk]. destruct (shapesB_parts src b Hs) as (_ & _ & _ & Sk).
  unfold gbL, ccL, npL, GIB.ceL in *.
  destruct b as [K s e bk ik a n ch l lb]. cbn [bkids bkind] in *.
  clear K1 K2 Hg Hc Hn Hs Hnk. induction bk as [|x r IHr]; [reflexivity|]. cbn [forallb] in *.
  apply andb_true_iff in Gk, Hcc, Ck, Nk, N1, Ek, Cek, Lk, Sk.
  destruct Gk as [G1 G2]. destruct Hcc as [C1 C2]. destruct Ck as [C3 C4]. destruct Nk as [M1 M2]. destruct N1 as [M3 M4].
  destruct Ek as [E1 E2]. destruct Cek as [F1 F2]. destruct Lk as [L1 L2]. destruct Sk as [S1 S2].
  apply andb_true_iff. split.
  - apply IH; try assumption.
    + intros Ei. rewrite Ei in C1. apply canContain_item, C1.
    + intros Em. destruct (Z.eq_dec K ListItemKind) as [E|N]; [exact E|]. specialize (N3 N). cbn [forallb] in N3. apply andb_true_iff in N3. destruct N3 as [N3 _].
      unfold isMk in N3. rewrite Em in N3. discriminate.
  - apply IHr; try assumption. intros N. specialize (N3 N). cbn [forallb] in N3. apply andb_true_iff in N3. tauto.
Qed.

(* ---- every root block of parseFull ---- *)
Theorem C05_full : C05_statement.
Proof.
  intros input.
  pose proof (parseFull_gb input) as F1. pose proof (parseFull_contain input) as F2. pose proof (parseFull_gramI input) as F3.
  pose proof (C13_full input) as F4. revert F1 F2 F3 F4. unfold parseFull.
  pose proof (parseBlocks_np input) as P1. pose proof (L2Kind2.parseBlocks_kinds input) as P2. pose proof (GIB.parseBlocks_noMixed input) as P3.
  pose proof (ExDrv.parseBlocks_okRX input) as P4. pose proof (parseBlocks_gb input) as P5.
  destruct (parseBlocks input) as [roots code]. cbn [fst]. intros F1 F2 F3 F4.
  set (refs := fold_left (fun a r => extractB (bheight (rb_blk r)) (rb_blk r) a) roots []) in *.
  apply forallb_forall. intros r' Hr'. pose proof Hr' as Hin. apply in_map_iff in Hin. destruct Hin as (r & Er & Hr).
  rewrite Forall_forall in F1, F2, P1, P2, P3, P4, P5. rewrite forallb_forall in F3, F4.
  specialize (F1 r' Hr'). specialize (F2 r' Hr'). specialize (F3 r' Hr'). specialize (F4 r' Hr').
  destruct (P1 r Hr) as (N1 & N2 & N3). specialize (P2 r Hr). specialize (P3 r Hr). specialize (P5 r Hr).
  destruct (P4 r Hr) as (B & M & _ & _ & X1 & _ & X2 & _).
  assert (HP : PRE B M (rb_blk r)) by (repeat split; assumption).
  subst r'. cbn [rb_blk rb_src] in *. unfold chk_C05_root, chk_C13_root in *. cbn [rb_blk rb_src] in *.
  destruct F2 as [F2 F2']. rewrite bkind_rewriteB' in *.
  apply andb_true_iff. split.
  - unfold canContain in F2'. cbn in F2'. unfold isMk in N3. rewrite N3. apply negb_true_iff in F2'. rewrite F2'. reflexivity.
  - apply gramB_ok; try assumption.
    + apply np_rewriteB; assumption.
    + apply (entB_rewriteB B M), HP.
    + apply (ce_rewriteB B M), HP.
    + rewrite bkind_rewriteB'. intros E. unfold canContain in F2'. cbn in F2'. rewrite E in F2'. discriminate.
    + rewrite bkind_rewriteB'. intros E. unfold isMk in N3. rewrite E in N3. discriminate.
    + rewrite bkind_rewriteB'. exact N2.
Qed.
Print Assumptions C05_full.
