(* QRenderDefs.v -- T64 (renderer): the facts about the tree of parseFull D that the renderer comparison uses, as a decidable checker.
   okI / okB src: every node that the renderer reads the bytes of lies inside the source; the nodes that are NOT cut at line ends by the
   quoted run (Unparsed, CharacterReference, SoftLineBreak, the first child of an Autolink, list markers) lie in one line (a line feed
   only as the last byte); RawHTML nodes have no children; the link parts of a Link / Image are not followed by a Text / RawHTML node;
   the entries of a link reference definition block are a node that is not Text / RawHTML, a LinkDestination and (if present) a LinkTitle.
   The children of Text, CharacterReference, Indent, SoftLineBreak, HardLineBreak and LinkLabel nodes are not inspected (the renderer
   never reads them). *)
From Coq Require Import List ZArith Lia Bool.
Import ListNotations.
Require Import Base Tree LP Driver Inl3e Render QuoteSimDefs QCutsDef QIRdrBase QInlDefs QFullDefs.
Open Scope Z_scope.

Definition inSp (src : bytes) (s e : Z) : bool := (0 <=? s) && (s <=? e) && (e <=? len src).
Definition noLFl (l : bytes) : bool := forallb (fun c => negb (c =? 10)) l.
Definition oneLn (src : bytes) (s e : Z) : bool := inSp src s e && noLFl (sub src s (e - 1)).
Definition lineK (k : Z) : bool := (k =? UnparsedKind) || (k =? CharacterReferenceKind) || (k =? SoftLineBreakKind).
Definition isPartK (k : Z) : bool := (k =? LinkDestinationKind) || (k =? LinkTitleKind).
(* kinds whose children the renderer never looks at *)
Definition leafK (k : Z) : bool :=
  (k =? TextKind) || (k =? CharacterReferenceKind) || (k =? IndentKind) || (k =? SoftLineBreakKind) || (k =? HardLineBreakKind) || (k =? LinkLabelKind).
Definition tailOK (ks : list inline) : bool :=
  match rev ks with a :: b :: _ => negb (splitK (ikind a)) || negb (isPartK (ikind b)) | _ => true end.

Fixpoint okI (src : bytes) (i : inline) : bool :=
  match i with Inl k s e _ _ ks =>
    (if k =? TextKind then inSp src s e else true) &&
    (if lineK k then oneLn src s e else true) &&
    (if k =? RawHTMLKind then match ks with [] => true | _ => false end else true) &&
    (if k =? AutolinkKind then match ks with t :: _ => oneLn src (istart t) (iend t) | [] => true end else true) &&
    (if (k =? LinkKind) || (k =? ImageKind) then tailOK ks else true) &&
    (if leafK k then true else forallb (okI src) ks)
  end.
Definition defHead (ik : list inline) : bool :=
  match ik with
  | l :: rest => negb (splitK (ikind l)) &&
                 match rest with
                 | d :: rest2 => (ikind d =? LinkDestinationKind) && match rest2 with t :: _ => ikind t =? LinkTitleKind | [] => true end
                 | [] => true
                 end
  | [] => true
  end.
Fixpoint okB (src : bytes) (b : block) : bool :=
  match b with Blk k s e bk ik _ _ _ _ _ =>
    (if k =? ListMarkerKind then (s <? e) && oneLn src s e else true) &&
    (if k =? LinkReferenceDefinitionKind then defHead ik else true) &&
    forallb (okI src) ik && forallb (okB src) bk
  end.
(* the part of okI / okB that is not a consequence of C05, C13 and EolCRRenderTree.destOK: character references and soft line breaks
   contain a line feed only as their last byte *)
Definition brK (k : Z) : bool := (k =? CharacterReferenceKind) || (k =? SoftLineBreakKind).
Fixpoint lineI (src : bytes) (i : inline) : bool :=
  match i with Inl k s e _ _ ks =>
    (if brK k then noLFl (sub src s (e - 1)) else true) && (if leafK k then true else forallb (lineI src) ks) end.
Fixpoint lineB (src : bytes) (b : block) : bool :=
  match b with Blk _ _ _ bk ik _ _ _ _ _ => forallb (lineI src) ik && forallb (lineB src) bk end.
Definition lineOK (D : bytes) : bool := forallb (fun r => lineB (rb_src r) (rb_blk r)) (fst (parseFull D)).
Definition lineOK_statement : Prop := forall D, tabFree D -> lineOK D = true.

Definition renderOK (D : bytes) : bool := forallb (fun r => okB (rb_src r) (rb_blk r)) (fst (parseFull D)).
Definition renderOK_statement : Prop := forall D, tabFree D -> renderOK D = true.
