From Coq Require Import List ZArith Lia Bool.
Import ListNotations.
Require Import Base.
Open Scope Z_scope.

(* ---- elementary facts about at_ / from_ / upto / sub / len ---- *)

Lemma len_nil {A} : len (@nil A) = 0. Proof. reflexivity. Qed.
Lemma len_cons {A} (x : A) l : len (x :: l) = 1 + len l.
Proof. unfold len. cbn [length]. lia. Qed.
Lemma len_nonneg {A} (l : list A) : 0 <= len l. Proof. unfold len. lia. Qed.
Lemma len_app {A} (a b : list A) : len (a ++ b) = len a + len b.
Proof. unfold len. rewrite app_length. lia. Qed.
Lemma len_rev {A} (a : list A) : len (rev a) = len a.
Proof. unfold len. rewrite rev_length. reflexivity. Qed.

Lemma at_nil i : at_ [] i = 0.
Proof. unfold at_. destruct (i <? 0); [reflexivity|]. destruct (Z.to_nat i); reflexivity. Qed.
Lemma at_neg l i : i < 0 -> at_ l i = 0.
Proof. intros H. unfold at_. destruct (Z.ltb_spec i 0); [reflexivity|lia]. Qed.
Lemma at_0 c l : at_ (c :: l) 0 = c. Proof. reflexivity. Qed.
Lemma at_S c l i : 0 <= i -> at_ (c :: l) (i + 1) = at_ l i.
Proof.
  intros H. unfold at_. destruct (Z.ltb_spec (i + 1) 0); [lia|]. destruct (Z.ltb_spec i 0); [lia|].
  replace (Z.to_nat (i + 1)) with (S (Z.to_nat i)) by lia. reflexivity.
Qed.
Lemma at_S' c l i : 0 < i -> at_ (c :: l) i = at_ l (i - 1).
Proof. intros H. replace i with ((i - 1) + 1) at 1 by lia. apply at_S. lia. Qed.
Lemma at_beyond l i : len l <= i -> at_ l i = 0.
Proof.
  intros H. unfold at_. destruct (i <? 0); [reflexivity|]. apply nth_overflow. unfold len in H. lia.
Qed.
Lemma at_nonzero_lt l i : at_ l i <> 0 -> 0 <= i < len l.
Proof.
  intros H. destruct (Z.lt_ge_cases i 0); [rewrite at_neg in H by lia; congruence|].
  destruct (Z.lt_ge_cases i (len l)); [lia|]. rewrite at_beyond in H by lia. congruence.
Qed.

Lemma from_0 {A} (l : list A) : from_ l 0 = l. Proof. reflexivity. Qed.
Lemma from_neg {A} (l : list A) a : a <= 0 -> from_ l a = l.
Proof. intros H. unfold from_. replace (Z.to_nat a) with O by lia. reflexivity. Qed.
Lemma from_nil {A} a : from_ (@nil A) a = [].
Proof. unfold from_. apply skipn_nil. Qed.
Lemma from_cons {A} (x : A) l a : 0 <= a -> from_ (x :: l) (a + 1) = from_ l a.
Proof. intros H. unfold from_. replace (Z.to_nat (a + 1)) with (S (Z.to_nat a)) by lia. reflexivity. Qed.
Lemma from_cons' {A} (x : A) l a : 0 < a -> from_ (x :: l) a = from_ l (a - 1).
Proof. intros H. replace a with ((a - 1) + 1) at 1 by lia. apply from_cons. lia. Qed.

Lemma at_from l : forall a i, 0 <= a -> 0 <= i -> at_ (from_ l a) i = at_ l (a + i).
Proof.
  induction l as [|c l IH]; intros a i Ha Hi.
  - rewrite from_nil, !at_nil. reflexivity.
  - destruct (Z.eq_dec a 0) as [->|Hne]; [rewrite from_0; f_equal; lia|].
    rewrite from_cons' by lia. rewrite IH by lia. rewrite (at_S' c l (a + i)) by lia. f_equal. lia.
Qed.
Lemma len_from {A} (l : list A) a : 0 <= a -> a <= len l -> len (from_ l a) = len l - a.
Proof. intros H1 H2. unfold len, from_ in *. rewrite skipn_length. lia. Qed.
Lemma len_from_le {A} (l : list A) a : len (from_ l a) <= len l.
Proof. unfold len, from_. rewrite skipn_length. lia. Qed.
Lemma len_from_gen {A} (l : list A) a : 0 <= a -> len (from_ l a) = Z.max 0 (len l - a).
Proof. intros H1. unfold len, from_ in *. rewrite skipn_length. lia. Qed.

Lemma upto_nil {A} n : upto (@nil A) n = [].
Proof. unfold upto. apply firstn_nil. Qed.
Lemma upto_le0 {A} (l : list A) n : n <= 0 -> upto l n = [].
Proof. intros H. unfold upto. replace (Z.to_nat n) with O by lia. reflexivity. Qed.
Lemma upto_cons' {A} (x : A) l n : 0 < n -> upto (x :: l) n = x :: upto l (n - 1).
Proof. intros H. unfold upto. replace (Z.to_nat n) with (S (Z.to_nat (n - 1))) by lia. reflexivity. Qed.
Lemma at_upto l : forall n i, i < n -> at_ (upto l n) i = at_ l i.
Proof.
  induction l as [|c l IH]; intros n i Hi.
  - rewrite upto_nil. reflexivity.
  - destruct (Z.lt_ge_cases i 0) as [Hneg|Hnn]; [rewrite !at_neg by lia; reflexivity|].
    rewrite upto_cons' by lia. destruct (Z.eq_dec i 0) as [->|Hne]; [reflexivity|].
    rewrite !(at_S' c _ i) by lia. apply IH. lia.
Qed.
Lemma len_upto {A} (l : list A) n : len (upto l n) = Z.min (Z.max 0 n) (len l).
Proof. unfold len, upto. rewrite firstn_length. lia. Qed.
Lemma len_sub {A} (l : list A) a b : 0 <= a -> len (sub l a b) = Z.min (Z.max 0 (b - a)) (Z.max 0 (len l - a)).
Proof. intros Ha. unfold sub. rewrite len_upto, len_from_gen by lia. reflexivity. Qed.
Lemma len_sub_le {A} (l : list A) a b : len (sub l a b) <= Z.max 0 (b - a).
Proof. unfold sub. rewrite len_upto. lia. Qed.
Lemma at_sub l a b i : 0 <= a -> 0 <= i -> i < b - a -> at_ (sub l a b) i = at_ l (a + i).
Proof. intros Ha Hi Hb. unfold sub. rewrite at_upto by lia. apply at_from; lia. Qed.
Lemma len_sub_in {A} (l : list A) a b : 0 <= a -> a <= b -> b <= len l -> len (sub l a b) = b - a.
Proof. intros. rewrite len_sub by lia. lia. Qed.

(* a list is determined by its length and its bytes, when no position reads the default: used for shape arguments *)
Lemma at_app_l a b i : i < len a -> at_ (a ++ b) i = at_ a i.
Proof.
  intros H. destruct (Z.lt_ge_cases i 0); [rewrite !at_neg by lia; reflexivity|].
  unfold at_. destruct (i <? 0); [reflexivity|]. apply app_nth1. unfold len in H. lia.
Qed.
Lemma at_app_r a b i : len a <= i -> at_ (a ++ b) i = at_ b (i - len a).
Proof.
  intros H. pose proof (len_nonneg a). unfold at_. destruct (Z.ltb_spec i 0); [lia|].
  destruct (Z.ltb_spec (i - len a) 0); [lia|]. rewrite app_nth2 by (unfold len in *; lia).
  f_equal. unfold len in *. lia.
Qed.

(* forall-style characterisation of forallb over positions *)
Lemma forallb_at (p : Z -> bool) l : (forall i, 0 <= i < len l -> p (at_ l i) = true) -> forallb p l = true.
Proof.
  induction l as [|c l IH]; intros H; [reflexivity|]. cbn [forallb].
  pose proof (H 0 ltac:(rewrite len_cons; pose proof (len_nonneg l); lia)) as H0. rewrite at_0 in H0. rewrite H0. cbn [andb].
  apply IH. intros i Hi. rewrite <- (at_S c l i) by lia. apply H. rewrite len_cons. lia.
Qed.
Lemma at_forallb (p : Z -> bool) l : forallb p l = true -> forall i, 0 <= i < len l -> p (at_ l i) = true.
Proof.
  induction l as [|c l IH]; intros H i Hi; [change (len (@nil Z)) with 0 in Hi; lia|].
  cbn [forallb] in H. apply andb_true_iff in H. destruct H as [Hc Hl]. rewrite len_cons in Hi.
  destruct (Z.eq_dec i 0) as [->|Hne]; [exact Hc|]. rewrite at_S' by lia. apply IH; [exact Hl|lia].
Qed.

(* lastZ-like access: the last element of a non-empty list *)
Lemma rev_head_at (l : bytes) : l <> [] -> match rev l with c :: _ => c | [] => -1 end = at_ l (len l - 1).
Proof.
  intros Hne. destruct (exists_last Hne) as (l' & x & ->). rewrite rev_app_distr. cbn [rev app].
  rewrite len_app, len_cons, len_nil. rewrite at_app_r by lia.
  replace (len l' + (1 + 0) - 1 - len l') with 0 by lia. reflexivity.
Qed.
