From Coq Require Import List ZArith Lia Bool.
Import ListNotations.
Require Import Base Tables Utf8 Tree Recog Inl3b Driver Inl3e Render WalkG.
Open Scope Z_scope.

(* nodes as Walk sees them *)
Inductive pay := PB (b : block) | PI (i : inline).
Definition isBlockPay (p : pay) : bool := match p with PB _ => true | PI _ => false end.
Notation tree := (tree pay). Notation forest := (forest pay).

Fixpoint toTreeI (i : inline) : tree :=
  match i with Inl _ _ _ _ _ ks =>
    T pay (PI i) ((fix go (l : list inline) : forest := match l with [] => FNil pay | x :: r => FCons pay (toTreeI x) (go r) end) ks)
  end.
Fixpoint forestI (l : list inline) : forest := match l with [] => FNil pay | x :: r => FCons pay (toTreeI x) (forestI r) end.
Lemma toTreeI_eq i : toTreeI i = T pay (PI i) (forestI (ikids i)).
Proof. destruct i as [k s e ind r ks]. reflexivity. Qed.

Fixpoint toTreeB (b : block) : tree :=
  match b with Blk _ _ _ bk ik _ _ _ _ _ =>
    T pay (PB b) (match bk with
                  | [] => forestI ik
                  | _ => (fix go (l : list block) : forest := match l with [] => FNil pay | x :: r => FCons pay (toTreeB x) (go r) end) bk
                  end)
  end.
Fixpoint forestB (l : list block) : forest := match l with [] => FNil pay | x :: r => FCons pay (toTreeB x) (forestB r) end.
Lemma toTreeB_eq b : toTreeB b = T pay (PB b) (match bkids b with [] => forestI (bik b) | ks => forestB ks end).
Proof.
  destruct b as [k s e bk ik ind n ch l lb]. destruct bk; reflexivity.
Qed.

Section RW.
  Variable c : cfg.
  Variable refs : list (bytes * linkDef).
  Variable src : bytes.

  (* the renderer's callbacks (html_renderer.go:166-400): bytes appended, and whether to descend *)
  Definition preI (i : inline) : bytes * bool :=
    let k := ikind i in
    if (k =? TextKind) || (k =? UnparsedKind) then (escapeHTML (spanOf src i), false)
    else if k =? CharacterReferenceKind then (spanOf src i, false)
    else if k =? RawHTMLKind then
      ((if ignoreRaw c then [] else if filterOn c then filterRaw c (spanOf src i) else spanOf src i), false)
    else if k =? SoftLineBreakKind then
      ((if softBreak c =? 2 then openTag c s_brname ++ [10] else if softBreak c =? 1 then [32]
        else if 0 <? iend i - istart i then spanOf src i else [10]), false)
    else if k =? HardLineBreakKind then (openTag c s_brname ++ [10], false)
    else if k =? EmphasisKind then (openTag c [101;109], true)
    else if k =? StrongKind then (openTag c [115;116;114;111;110;103], true)
    else if k =? CodeSpanKind then (openTag c [99;111;100;101], true)
    else if k =? LinkKind then
      let d := defOf refs src i in
      (openTagAttr c [97] ++ attr s_href (escapeString (normalizeURI (ld_dest d))) ++
       (if ld_has d then attr s_title (escapeString (ld_title d)) else []) ++ [62], true)
    else if k =? ImageKind then
      let d := defOf refs src i in
      (openTagAttr c [105;109;103] ++ attr s_src (escapeString (normalizeURI (ld_dest d))) ++
       (if ld_has d then attr s_title (escapeString (ld_title d)) else []) ++
       attr s_alt (altText (isize i) src i) ++ [62], false)
    else if k =? AutolinkKind then
      let dest := match ikids i with t :: _ => spanOf src t | [] => [] end in
      (openTagAttr c [97] ++ [32] ++ s_href ++ [61;34] ++
       (if isEmailAddress dest then [109;97;105;108;116;111;58] else []) ++ escapeString (normalizeURI dest) ++ [34;62] ++
       escapeString dest ++ closeTag c [97], false)
    else if k =? IndentKind then (repeat 32 (Z.to_nat (iindent i)), false)
    else if k =? HTMLTagKind then ([], true)
    else ([], false).
  Definition postI (i : inline) : bytes :=
    let k := ikind i in
    if k =? EmphasisKind then closeTag c [101;109]
    else if k =? StrongKind then closeTag c [115;116;114;111;110;103]
    else if k =? CodeSpanKind then closeTag c [99;111;100;101]
    else if k =? LinkKind then closeTag c [97]
    else [].

  Definition codeClass (b : block) : bytes :=
    let info := if bkind b =? FencedCodeBlockKind then
                  match bik b with i0 :: _ => if ikind i0 =? InfoStringKind then Some i0 else None | [] => None end
                else None in
    match info with
    | Some i0 => let t := textOfChildren src i0 in
                 let w := firstField (runes (S (length t)) t 0) t false in
                 if 0 <? len w then [32;99;108;97;115;115;61;34;108;97;110;103;117;97;103;101;45] ++ escapeString w ++ [34] else []
    | None => []
    end.
  Definition preB (pt : bool) (b : block) : bytes * bool :=
    let k := bkind b in
    if k =? ParagraphKind then ((if pt then [] else openTag c [112]), true)
    else if k =? ThematicBreakKind then (openTag c [104;114], false)
    else if isHeading k then (openTag c (hTag (bn b)), true)
    else if isCode k then (openTag c [112;114;101] ++ openTagAttr c [99;111;100;101] ++ codeClass b ++ [62], true)
    else if k =? BlockQuoteKind then (openTag c [98;108;111;99;107;113;117;111;116;101], true)
    else if k =? ListKind then
      if isOrdered b then
        let n := match bkids b with it :: _ => listItemNumber src it | [] => -1 end in
        (openTagAttr c [111;108] ++
         (if (0 <=? n) && negb (n =? 1) then [32;115;116;97;114;116;61;34] ++ decimal 12 n ++ [34] else []) ++ [62], true)
      else (openTag c [117;108], true)
    else if k =? ListItemKind then (openTag c [108;105], true)
    else if k =? HTMLBlockKind then ([], negb (ignoreRaw c))
    else ([], false).
  Definition postB (pt : bool) (b : block) : bytes :=
    let k := bkind b in
    if k =? ParagraphKind then (if pt then [] else closeTag c [112])
    else if isHeading k then closeTag c (hTag (bn b))
    else if isCode k then closeTag c [99;111;100;101] ++ closeTag c [112;114;101]
    else if k =? BlockQuoteKind then closeTag c [98;108;111;99;107;113;117;111;116;101]
    else if k =? ListKind then (if isOrdered b then closeTag c [111;108] else closeTag c [117;108])
    else if k =? ListItemKind then closeTag c [108;105]
    else [].

  (* cursor.Parent().Block().IsTightList() *)
  Definition parentTight (cur : cursor pay) : bool :=
    match c_parent pay cur with Some (T _ (PB p) _) => isTightList p | _ => false end.

  Definition preCB (dst : bytes) (cur : cursor pay) : bytes * bool :=
    match payload pay (c_node pay cur) with
    | PB b => let '(o, d) := preB (parentTight cur) b in (dst ++ o, d)
    | PI i => let '(o, d) := preI i in (dst ++ o, d)
    end.
  Definition postCB (dst : bytes) (cur : cursor pay) : bytes * bool :=
    match payload pay (c_node pay cur) with
    | PB b => (dst ++ postB (parentTight cur) b, true)
    | PI i => (dst ++ postI i, true)
    end.

  (* AppendBlock: Walk(block.AsNode(), {Pre, Post}) *)
  Definition appendBlock (b : block) : option bytes := walk pay isBlockPay bytes preCB postCB (toTreeB b) [].
End RW.
