From Coq Require Import List ZArith Lia Bool.
Import ListNotations.
Require Import Base Tree Recog LP Driver Rec16 Rec17 Rec18 RecBounds Cursor CursorX EolInv EolCRDefs EolCRBytes EolCRLFDefs.
Open Scope Z_scope.

(* C14 (ii), CRLF clause: byte-level facts about crlf and the position map phiP. *)

Lemma crlf_app a b : crlf (a ++ b) = crlf a ++ crlf b. Proof. unfold crlf. apply flat_map_app. Qed.
Lemma count10_app a b : count10 (a ++ b) = count10 a + count10 b.
Proof. induction a as [|c a IH]; [reflexivity|]. cbn [app count10]. rewrite IH. lia. Qed.
Lemma count10_nonneg l : 0 <= count10 l.
Proof. induction l as [|c l IH]; [cbn; lia|]. cbn [count10]. destruct (c =? 10); lia. Qed.
Lemma len_app' {A} (a b : list A) : len (a ++ b) = len a + len b. Proof. unfold len. rewrite app_length. lia. Qed.
Lemma len_crlf l : len (crlf l) = len l + count10 l.
Proof.
  induction l as [|c l IH]; [reflexivity|]. change (crlf (c :: l)) with ((if c =? 10 then [13; 10] else [c]) ++ crlf l).
  rewrite len_app', IH. cbn [count10]. rewrite len_cons. destruct (c =? 10); unfold len; cbn [length]; lia.
Qed.
Lemma count10_noEol l : noEolB l -> count10 l = 0.
Proof. induction 1 as [|c l [A _] H IH]; [reflexivity|]. cbn [count10]. replace (c =? 10) with false by (symmetry; apply Z.eqb_neq; exact A). lia. Qed.
Lemma crlf_noEol l : noEolB l -> crlf l = l.
Proof.
  induction 1 as [|c l [A _] H IH]; [reflexivity|]. change (crlf (c :: l)) with ((if c =? 10 then [13; 10] else [c]) ++ crlf l).
  replace (c =? 10) with false by (symmetry; apply Z.eqb_neq; exact A). rewrite IH. reflexivity.
Qed.

Lemma upto_from_split {A} (l : list A) a k : 0 <= a -> 0 <= k -> upto l (a + k) = upto l a ++ upto (from_ l a) k.
Proof.
  intros Ha Hk. unfold upto, from_. rewrite Z2Nat.inj_add by lia. revert l. induction (Z.to_nat a) as [|n IH]; intros l; [reflexivity|].
  destruct l as [|x l]; [cbn; rewrite firstn_nil; reflexivity|]. cbn [Nat.add firstn skipn app]. rewrite IH. reflexivity.
Qed.
Lemma upto_neg {A} (l : list A) p : p <= 0 -> upto l p = [].
Proof. intros H. unfold upto. replace (Z.to_nat p) with 0%nat by lia. reflexivity. Qed.

Lemma phiP_neg R p : p < 0 -> phiP R p = p.
Proof. intros H. unfold phiP. replace (p <? 0) with true by (symmetry; apply Z.ltb_lt; exact H). reflexivity. Qed.
Lemma phiP_nonneg R p : 0 <= p -> phiP R p = p + count10 (upto R p).
Proof. intros H. unfold phiP. replace (p <? 0) with false by (symmetry; apply Z.ltb_ge; exact H). reflexivity. Qed.
Lemma phiP_0 R : phiP R 0 = 0. Proof. rewrite phiP_nonneg by lia. rewrite upto_neg by lia. reflexivity. Qed.
Lemma phiP_ge R p : 0 <= p -> p <= phiP R p.
Proof. intros H. rewrite phiP_nonneg by exact H. pose proof (count10_nonneg (upto R p)). lia. Qed.
Lemma phiP_sign R p : (phiP R p <? 0) = (p <? 0).
Proof. destruct (Z.ltb_spec p 0) as [L|L]; [rewrite phiP_neg by exact L; apply Z.ltb_lt; exact L|apply Z.ltb_ge; pose proof (phiP_ge R p L); lia]. Qed.
Lemma phiP_add R a k : 0 <= a -> 0 <= k -> phiP R (a + k) = phiP R a + phiP (from_ R a) k.
Proof.
  intros Ha Hk. rewrite !phiP_nonneg by lia. rewrite (upto_from_split R a k Ha Hk), count10_app. lia.
Qed.
Lemma phiP_mono R a b : a <= b -> phiP R a <= phiP R b.
Proof.
  intros H. destruct (Z.ltb_spec a 0) as [La|La].
  - rewrite (phiP_neg R a La). destruct (Z.ltb_spec b 0) as [Lb|Lb]; [rewrite phiP_neg by exact Lb; exact H|pose proof (phiP_ge R b Lb); lia].
  - replace b with (a + (b - a)) by lia. rewrite phiP_add by lia. pose proof (phiP_ge (from_ R a) (b - a) ltac:(lia)). lia.
Qed.
Lemma phiP_lt R a b : a < b -> phiP R a < phiP R b.
Proof.
  intros H. destruct (Z.ltb_spec a 0) as [La|La].
  - rewrite (phiP_neg R a La). destruct (Z.ltb_spec b 0) as [Lb|Lb]; [rewrite phiP_neg by exact Lb; exact H|pose proof (phiP_ge R b Lb); lia].
  - replace b with (a + (b - a)) by lia. rewrite phiP_add by lia. pose proof (phiP_ge (from_ R a) (b - a) ltac:(lia)). lia.
Qed.
Lemma phiP_all R : phiP R (len R) = len (crlf R).
Proof.
  rewrite phiP_nonneg by apply len_nonneg.
  assert (E : upto R (len R) = R) by (unfold upto, len; rewrite Nat2Z.id; apply firstn_all). rewrite E, len_crlf. reflexivity.
Qed.

(* slices *)
Lemma crlf_upto R : forall p, 0 <= p -> upto (crlf R) (phiP R p) = crlf (upto R p).
Proof.
  induction R as [|c R IH]; intros p Hp.
  - unfold upto. rewrite !firstn_nil. reflexivity.
  - destruct (Z.eq_dec p 0) as [->|Np]; [rewrite phiP_0; reflexivity|].
    assert (F1 : from_ (c :: R) 1 = R) by reflexivity. assert (U1 : upto (c :: R) 1 = [c]) by reflexivity.
    replace p with (1 + (p - 1)) by lia. rewrite (phiP_add (c :: R) 1 (p - 1)) by lia.
    rewrite (upto_from_split (c :: R) 1 (p - 1)) by lia. rewrite F1, U1, crlf_app.
    assert (E1 : phiP (c :: R) 1 = len (crlf [c])).
    { rewrite phiP_nonneg by lia. rewrite U1. change (crlf [c]) with ((if c =? 10 then [13; 10] else [c]) ++ []).
      cbn [count10]. destruct (c =? 10); reflexivity. }
    replace (crlf (c :: R)) with (crlf [c] ++ crlf R) by (symmetry; apply (crlf_app [c] R)). rewrite E1.
    pose proof (phiP_ge R (p - 1) ltac:(lia)) as Hg. pose proof (len_nonneg (crlf [c])) as Hl.
    rewrite (upto_from_split (crlf [c] ++ crlf R) (len (crlf [c])) (phiP R (p - 1)) Hl ltac:(lia)).
    assert (Eu : upto (crlf [c] ++ crlf R) (len (crlf [c])) = crlf [c]).
    { unfold upto, len. rewrite Nat2Z.id, firstn_app, Nat.sub_diag, firstn_all. cbn [firstn]. apply app_nil_r. }
    assert (Ef : from_ (crlf [c] ++ crlf R) (len (crlf [c])) = crlf R).
    { unfold from_, len. rewrite Nat2Z.id, skipn_app, Nat.sub_diag, skipn_all. reflexivity. }
    rewrite Eu, Ef, IH by lia. reflexivity.
Qed.
Lemma crlf_from R : forall p, 0 <= p -> from_ (crlf R) (phiP R p) = crlf (from_ R p).
Proof.
  intros p Hp. pose proof (crlf_upto R p Hp) as Hu.
  assert (E : crlf R = crlf (upto R p) ++ crlf (from_ R p)).
  { rewrite <- crlf_app. unfold upto, from_. rewrite firstn_skipn. reflexivity. }
  assert (El : len (crlf (upto R p)) <= phiP R p /\ (p <= len R -> len (crlf (upto R p)) = phiP R p)).
  { rewrite len_crlf, phiP_nonneg by exact Hp. unfold upto, len. rewrite firstn_length. split; intros; lia. }
  destruct (Z.le_gt_cases p (len R)) as [L|L].
  - destruct El as [_ El]. specialize (El L). rewrite E at 1. unfold from_. rewrite <- El. unfold len. rewrite Nat2Z.id, skipn_app, Nat.sub_diag, skipn_all. reflexivity.
  - assert (Ef : from_ R p = []) by (unfold from_; apply skipn_all2; unfold len in L; lia). rewrite Ef. cbn.
    unfold from_. apply skipn_all2. pose proof (phiP_ge R p Hp). pose proof (len_crlf R). rewrite phiP_nonneg in * by exact Hp.
    assert (upto R p = R) by (unfold upto; apply firstn_all2; unfold len in L; lia). rewrite H1 in *. unfold len in *. lia.
Qed.
Lemma crlf_sub R a b : 0 <= a -> a <= b -> sub (crlf R) (phiP R a) (phiP R b) = crlf (sub R a b).
Proof.
  intros Ha Hab. unfold sub. rewrite (crlf_from R a Ha). replace b with (a + (b - a)) at 1 by lia. rewrite (phiP_add R a (b - a)) by lia.
  replace (phiP R a + phiP (from_ R a) (b - a) - phiP R a) with (phiP (from_ R a) (b - a)) by lia. apply crlf_upto. lia.
Qed.

(* bytes *)
Lemma at_crlf_from l : forall c r, l = c :: r -> at_ (crlf l) 0 = if c =? 10 then 13 else c.
Proof. intros c r ->. change (crlf (c :: r)) with ((if c =? 10 then [13; 10] else [c]) ++ crlf r). destruct (c =? 10); reflexivity. Qed.
Lemma at_as_from (l : bytes) p : 0 <= p -> at_ l p = at_ (from_ l p) 0.
Proof. intros Hp. rewrite at_from by lia. f_equal. lia. Qed.
Lemma at_crlf R p : 0 <= p -> at_ (crlf R) (phiP R p) = if at_ R p =? 10 then 13 else at_ R p.
Proof.
  intros Hp. pose proof (phiP_ge R p Hp) as Hg. rewrite (at_as_from (crlf R) (phiP R p)) by lia. rewrite (crlf_from R p Hp), (at_as_from R p Hp).
  destruct (from_ R p) as [|c r] eqn:E; [reflexivity|]. rewrite (at_crlf_from _ c r eq_refl). reflexivity.
Qed.

(* classifiers on the image *)
Lemma isBlankLine_crlf l : isBlankLine (crlf l) = isBlankLine l.
Proof.
  induction l as [|c l IH]; [reflexivity|]. change (crlf (c :: l)) with ((if c =? 10 then [13; 10] else [c]) ++ crlf l).
  rewrite isBlankLine_app', IH. change (isBlankLine (c :: l)) with (isSpaceTabOrLineEnding c && isBlankLine l).
  destruct (Z.eqb_spec c 10) as [->|N]; [reflexivity|]. cbn [isBlankLine forallb]. rewrite andb_true_r. reflexivity.
Qed.
Lemma indentLength_crlf l : indentLength (crlf l) = indentLength l.
Proof.
  induction l as [|c l IH]; [reflexivity|]. change (crlf (c :: l)) with ((if c =? 10 then [13; 10] else [c]) ++ crlf l).
  destruct (Z.eqb_spec c 10) as [->|N]; [reflexivity|]. cbn [app indentLength]. rewrite IH. reflexivity.
Qed.
Lemma trimLeftSpTab_crlf l : trimLeftSpTab (crlf l) = crlf (trimLeftSpTab l).
Proof.
  induction l as [|c l IH]; [reflexivity|]. change (crlf (c :: l)) with ((if c =? 10 then [13; 10] else [c]) ++ crlf l).
  destruct (Z.eqb_spec c 10) as [->|N]; [reflexivity|]. cbn [app trimLeftSpTab]. destruct (isSpTab c); [exact IH|].
  change (crlf (c :: l)) with ((if c =? 10 then [13; 10] else [c]) ++ crlf l). replace (c =? 10) with false by (symmetry; apply Z.eqb_neq; exact N). reflexivity.
Qed.
Lemma hasByteSuffixEOL_crlf l : hasByteSuffixEOL (crlf l) = hasByteSuffixEOL l.
Proof.
  induction l as [|c l IH]; [reflexivity|]. change (crlf (c :: l)) with ((if c =? 10 then [13; 10] else [c]) ++ crlf l).
  destruct l as [|d l].
  - destruct (Z.eqb_spec c 10) as [->|N]; [reflexivity|]. reflexivity.
  - change (hasByteSuffixEOL (c :: d :: l)) with (hasByteSuffixEOL (d :: l)). rewrite <- IH.
    assert (Hne : crlf (d :: l) <> []) by (change (crlf (d :: l)) with ((if d =? 10 then [13; 10] else [d]) ++ crlf l); destruct (d =? 10); discriminate).
    destruct (crlf (d :: l)) as [|x y] eqn:E; [congruence|]. destruct (c =? 10); reflexivity.
Qed.
Lemma hasBytePrefix_crlf l pre : noEolB pre -> hasBytePrefix (crlf l) pre = hasBytePrefix l pre.
Proof.
  intros Hp. revert l. induction Hp as [|x pre [A B] Hp IH]; intros l; [destruct l; destruct (crlf _); reflexivity|].
  destruct l as [|c l]; [reflexivity|]. change (crlf (c :: l)) with ((if c =? 10 then [13; 10] else [c]) ++ crlf l).
  destruct (Z.eqb_spec c 10) as [->|N].
  - cbn [app hasBytePrefix]. replace (x =? 13) with false by (symmetry; apply Z.eqb_neq; exact B).
    replace (x =? 10) with false by (symmetry; apply Z.eqb_neq; exact A). reflexivity.
  - cbn [app hasBytePrefix]. rewrite IH. reflexivity.
Qed.

(* ---- the shape of a line: a body without line-ending bytes, then nothing or LF ---- *)
Definition lineOK (l : bytes) : Prop := exists body e, l = body ++ e /\ noEolB body /\ (e = [] \/ e = [10]).
Fixpoint blen (l : bytes) : Z := match l with [] => 0 | c :: r => if (c =? 10) || (c =? 13) then 0 else 1 + blen r end.
Lemma blen_nonneg l : 0 <= blen l. Proof. induction l as [|c l IH]; [cbn; lia|]. cbn [blen]. destruct (_ || _); lia. Qed.
Lemma blen_le l : blen l <= len l.
Proof. induction l as [|c l IH]; [cbn; lia|]. cbn [blen]. rewrite len_cons. pose proof (len_nonneg l). destruct (_ || _); lia. Qed.
Lemma blen_shape body e : noEolB body -> (e = [] \/ e = [10]) -> blen (body ++ e) = len body.
Proof.
  intros Hb He. induction Hb as [|c body [A B] Hb IH].
  - destruct He as [->| ->]; reflexivity.
  - cbn [app blen]. replace ((c =? 10) || (c =? 13)) with false.
    + rewrite IH, len_cons. lia.
    + symmetry. apply orb_false_iff. split; apply Z.eqb_neq; assumption.
Qed.
Lemma Forall_from' {A} (P : A -> Prop) (l : list A) k : Forall P l -> Forall P (from_ l k).
Proof. unfold from_. revert l. induction (Z.to_nat k) as [|n IH]; intros l H; [exact H|]. destruct l; [exact H|]. inversion H; subst. apply IH. assumption. Qed.
Lemma lineOK_from l k : lineOK l -> 0 <= k <= blen l -> lineOK (from_ l k).
Proof.
  intros (body & e & -> & Hb & He) Hk. rewrite (blen_shape body e Hb He) in Hk. rewrite from_app_le by lia.
  exists (from_ body k), e. split; [reflexivity|]. split; [|exact He]. apply Forall_from', Hb.
Qed.
Lemma lineOK_nil : lineOK []. Proof. exists [], []. repeat split; [constructor|left; reflexivity]. Qed.
Lemma indentLength_shape body e : (e = [] \/ e = [10]) -> indentLength (body ++ e) <= len body.
Proof.
  intros He. induction body as [|c body IH].
  - destruct He as [->| ->]; cbn; lia.
  - cbn [app indentLength]. rewrite len_cons. pose proof (len_nonneg body). destruct (isSpTab c); lia.
Qed.
Lemma lineOK_trim l : lineOK l -> lineOK (trimLeftSpTab l).
Proof.
  intros H. rewrite trimLeft_from. apply lineOK_from; [exact H|]. split; [apply indentLength_nonneg|].
  destruct H as (body & e & -> & Hb & He). rewrite (blen_shape body e Hb He). apply indentLength_shape, He.
Qed.

(* ---- a line and its image ---- *)
Lemma Forall_upto' {A} (P : A -> Prop) (l : list A) k : Forall P l -> Forall P (upto l k).
Proof. unfold upto. revert l. induction (Z.to_nat k) as [|n IH]; intros l H; [constructor|]. destruct l; [constructor|]. inversion H; subst. constructor; [assumption|apply IH; assumption]. Qed.
Lemma lineOK_split l : lineOK l -> exists body e, l = body ++ e /\ noEolB body /\ (e = [] \/ e = [10]) /\ blen l = len body /\ crlf l = body ++ crlf e /\ eolRun e /\ eolRun (crlf e).
Proof.
  intros (body & e & -> & Hb & He). exists body, e. split; [reflexivity|]. split; [exact Hb|]. split; [exact He|].
  split; [apply blen_shape; assumption|]. split; [rewrite crlf_app, (crlf_noEol body Hb); reflexivity|].
  destruct He as [->| ->]; (split; [|cbn]); repeat constructor; lia.
Qed.
Lemma upto_blen l k : lineOK l -> k <= blen l -> upto (crlf l) k = upto l k.
Proof. intros H Hk. destruct (lineOK_split l H) as (body & e & -> & Hb & He & Eb & Ec & _). rewrite Ec, Eb in *. rewrite !upto_app_le by lia. reflexivity. Qed.
Lemma count10_upto_blen l k : lineOK l -> k <= blen l -> count10 (upto l k) = 0.
Proof.
  intros H Hk. destruct (lineOK_split l H) as (body & e & -> & Hb & He & Eb & _). rewrite Eb in Hk. rewrite upto_app_le by lia.
  apply count10_noEol. apply Forall_upto', Hb.
Qed.
Lemma phiP_blen l k : lineOK l -> k <= blen l -> phiP l k = k.
Proof.
  intros H Hk. destruct (Z.ltb_spec k 0) as [L|L]; [apply phiP_neg; exact L|]. rewrite phiP_nonneg by exact L. rewrite (count10_upto_blen l k H Hk). lia.
Qed.
Lemma from_blen l k : lineOK l -> 0 <= k <= blen l -> from_ (crlf l) k = crlf (from_ l k).
Proof. intros H Hk. rewrite <- (crlf_from l k) by lia. rewrite (phiP_blen l k H) by lia. reflexivity. Qed.
Lemma sub_blen l a b : lineOK l -> 0 <= a -> b <= blen l -> sub (crlf l) a b = sub l a b.
Proof.
  intros H Ha Hb. destruct (Z.le_gt_cases a b) as [L|L].
  - unfold sub. rewrite (from_blen l a H) by lia. pose proof (lineOK_from l a H ltac:(lia)) as H2.
    apply (upto_blen (from_ l a) (b - a) H2).
    destruct (lineOK_split l H) as (body & e & -> & Hbd & He & Eb & _). rewrite Eb in *. rewrite from_app_le by lia.
    rewrite blen_shape; [|apply Forall_from', Hbd|exact He]. pose proof (len_nonneg body). unfold from_, len in *. rewrite skipn_length. lia.
  - unfold sub, upto. replace (Z.to_nat (b - a)) with 0%nat by lia. reflexivity.
Qed.
Lemma at_blen l i : lineOK l -> i < blen l -> at_ (crlf l) i = at_ l i.
Proof.
  intros H Hi. destruct (lineOK_split l H) as (body & e & -> & Hb & He & Eb & Ec & _). rewrite Ec, Eb in *.
  destruct (Z.ltb_spec i 0) as [L|L]; [unfold at_; replace (i <? 0) with true by (symmetry; apply Z.ltb_lt; exact L); reflexivity|].
  rewrite !at_app_l by lia. reflexivity.
Qed.
(* the byte at the end of the body: a line ending or the end of the line, on both sides *)
Lemma at_blen_end l : lineOK l -> (at_ l (blen l) = 10 /\ at_ (crlf l) (blen l) = 13 /\ blen l < len l) \/ (at_ l (blen l) = 0 /\ at_ (crlf l) (blen l) = 0 /\ blen l = len l /\ crlf l = l).
Proof.
  intros H. destruct (lineOK_split l H) as (body & e & -> & Hb & He & Eb & Ec & _). rewrite Ec, Eb. pose proof (len_nonneg body) as Hl.
  destruct He as [->| ->].
  - right. change (crlf []) with (@nil Z). rewrite !app_nil_r. unfold at_. replace (len body <? 0) with false by (symmetry; apply Z.ltb_ge; lia).
    rewrite nth_overflow by (unfold len; lia). tauto.
  - left. rewrite !at_app_r by lia. replace (len body - len body) with 0 by lia. rewrite len_app'. cbn. repeat split; unfold len; cbn [length]; lia.
Qed.
Lemma len_crlf_line l : lineOK l -> len (crlf l) = len l + (len l - blen l).
Proof.
  intros H. destruct (lineOK_split l H) as (body & e & -> & Hb & He & Eb & Ec & _). rewrite Ec, Eb, !len_app'.
  destruct He as [->| ->]; cbn; unfold len; cbn [length]; lia.
Qed.

(* recognizers and trimmed rests on the image of a line *)
Lemma recog_crlf l : lineOK l ->
  parseThematicBreak (crlf l) = parseThematicBreak l /\ parseATXHeading (crlf l) = parseATXHeading l /\
  parseSetextHeadingUnderline (crlf l) = parseSetextHeadingUnderline l /\ parseCodeFence (crlf l) = parseCodeFence l /\
  parseListMarker (crlf l) = parseListMarker l.
Proof.
  intros H. destruct (lineOK_split l H) as (body & e & -> & Hb & He & Eb & Ec & R1 & R2). rewrite Ec.
  rewrite !(thematicBreak_eol body _ R1), !(thematicBreak_eol body _ R2), !(atx_eol body _ R1), !(atx_eol body _ R2),
          !(setext_eol body _ R1), !(setext_eol body _ R2), !(codeFence_eol body _ R1), !(codeFence_eol body _ R2),
          !(listMarker_eol body _ R1), !(listMarker_eol body _ R2). repeat split.
Qed.
