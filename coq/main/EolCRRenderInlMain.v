From Coq Require Import List ZArith Lia Bool.
Import ListNotations.
Require Import Base Tables Utf8 Tree Rdr Link Collect Html Recog Inl3a Inl3b Inl3c Inl3d Inl3e Driver Render Props.
Require Import SpanForest SpanIds SpanStack SpanEmph SpanSmall SpanTok SpanBridge SpanRdr SpanCollect SpanScan SpanHtml SpanCode InlineSpans.
Require Import EolCRRdr EolCRRenderDefs EolCRRenderInlG EolCRRenderInlAuto EolCRRenderInlSt EolCRRenderInlSt2 EolCRRenderInlDest EolCRRenderInlTok.
Require GI0 ExInv1.
Open Scope Z_scope.

(* ====================================================================================================
   C14, CR clause, renderer, half (a): the inline parser.

   THE STATEMENT ASKED FOR IS FALSE AS WORDED (parseInlines_dok_statement_false below): entriesOK does not say
   that the entries of the block have no children, and both an Indent entry copied to the root by `outer` and an
   Indent entry picked up by collectTextNodes are returned as they are, children included.  Counterexample:
   src = "a\n\nb", entries [Unparsed 0-2; Indent 2-3 with child LinkDestination 2-3 > Text 2-3; Unparsed 3-4].

   PROVED (parseInlines_dok_partial, closed under the global context): the statement with the additional
   hypothesis that every entry of the block is childless,
       forallb kidless (bik b) = true        (kidless u = true iff ikids u = []).
   It is true of every leaf block the block layer produces (ExInv1.inv via ExDrv.parseBlocks_okRX: every entry
   that is not an InfoString / LinkLabel / LinkDestination / LinkTitle entry is childless; under kindsOK all
   entries are Unparsed or Indent entries): see kidless_of_eE below; parseInlines_dok_nilb is the same theorem
   with the hypothesis written with GI0.nilb.
   ==================================================================================================== *)
Definition parseInlines_dok_statement : Prop :=
  forall src matcher b, InlineSpans.entriesOK src b = true -> forallb (dokI src) (parseInlines src matcher b) = true.

Definition kidless (u : inline) : bool := match ikids u with [] => true | _ :: _ => false end.

Lemma parseInlines_dok_statement_false : ~ parseInlines_dok_statement.
Proof.
  intros H.
  specialize (H [97; 10; 10; 98] []
    (Blk ParagraphKind 0 4 []
       [Inl UnparsedKind 0 2 0 [] []; Inl IndentKind 2 3 1 [] [Inl LinkDestinationKind 2 3 0 [] [Inl TextKind 2 3 0 [] []]];
        Inl UnparsedKind 3 4 0 [] []] 0 0 0 false false) eq_refl).
  vm_compute in H. discriminate.
Qed.
Print Assumptions parseInlines_dok_statement_false.

Lemma kidless_In U : forallb kidless U = true -> forall u, In u U -> ikids u = [].
Proof. intros H u Hu. rewrite forallb_forall in H. specialize (H u Hu). unfold kidless in H. destruct (ikids u); [reflexivity|discriminate]. Qed.
Lemma kinds_In U : kindsOK U = true -> forall u, In u U -> ikind u = UnparsedKind \/ ikind u = IndentKind.
Proof.
  intros H u Hu. unfold kindsOK in H. rewrite forallb_forall in H. specialize (H u Hu). apply orb_true_iff in H.
  destruct H as [H|H]; apply Z.eqb_eq in H; tauto.
Qed.

Theorem parseInlines_dok_partial : forall src matcher b, InlineSpans.entriesOK src b = true -> forallb kidless (bik b) = true ->
  forallb (dokI src) (parseInlines src matcher b) = true.
Proof.
  intros src matcher b H HK.
  destruct (bik b) as [|u0 U0] eqn:EU.
  { rewrite parseInlines_nil by exact EU. reflexivity. }
  rewrite <- EU in *. assert (HN : bik b <> []) by (rewrite EU; discriminate).
  pose proof H as H'. unfold entriesOK in H'. rewrite !andb_true_iff in H'. destruct H' as ((((HB & HKd) & _) & _) & _).
  unfold entriesBasic in HB. apply andb_true_iff in HB. destruct HB as [Ho Hs].
  pose proof (entries_okF src (bik b) (bstart b) (bend b) HN Ho Hs) as H1.
  assert (H2 : okF (Z.max (bstart b) 0) (Z.min (bend b) (len src)) (map ofInline (bik b))).
  { rewrite EU in *. cbn [map okF] in *. destruct H1 as (A & B & C). split; [|split; assumption]. pose proof (okN_valid _ B). lia. }
  assert (HD : singleEmpty (bik b) \/ ~ singleEmpty (bik b)).
  { rewrite EU. destruct U0 as [|v r].
    - destruct (Z.eq_dec (istart u0) (iend u0)) as [E|N]; [left; exists u0; split; [reflexivity|exact E]|].
      right. intros (u & Eu & Ee). inversion Eu; subst. contradiction.
    - right. intros (u & Eu & _). discriminate. }
  assert (HS : SpecHTML src (bik b) /\ SpecCode src (bik b) /\ SpecInline src (bik b) /\ SpecLabel src (bik b) /\ SpecDest src (bik b)).
  { destruct HD as [HS|HS].
    - (* a single empty entry: no scanner is ever started *)
      destruct HS as (u & Eu & Ee). rewrite Eu.
      repeat split; intros st p (_ & _ & X & Y); cbn in X; assert (upos st = 0) by lia; unfold nthU in Y; replace (upos st) with 0 in Y by lia; cbn in Y; lia.
    - pose proof (entriesOK_EC src b H HN HS) as HEC.
      destruct (scanner_specs src (bik b) _ _ HEC) as (A & B & C & D).
      repeat split; try assumption. exact (SpecDest_holds src (bik b) _ _ HEC). }
  destruct HS as (S1 & S2 & S3 & S4 & S5).
  pose proof (parseInlines_G src (bik b) (Z.max (bstart b) 0) (Z.min (bend b) (len src)) (bend b) H2 ltac:(lia) ltac:(lia) S1 S2 S3 S4 S5
                (kidless_In _ HK) (kinds_In _ HKd) matcher (bend b) eq_refl) as H3.
  cbv zeta in H3. unfold parseInlines. apply GF_dokI. exact H3.
Qed.
Print Assumptions parseInlines_dok_partial.

(* the same, with the hypothesis written with GI0.nilb *)
Theorem parseInlines_dok_nilb : forall src matcher b, InlineSpans.entriesOK src b = true ->
  forallb (fun u => GI0.nilb (ikids u)) (bik b) = true -> forallb (dokI src) (parseInlines src matcher b) = true.
Proof. intros src matcher b H HK. apply parseInlines_dok_partial; [exact H|exact HK]. Qed.
Print Assumptions parseInlines_dok_nilb.

(* where the extra hypothesis comes from for the trees of the block layer: the entry predicate of ExInv1 *)
Lemma kidless_of_eE B U : forallb (ExInv1.eE B) U = true -> kindsOK U = true -> forallb kidless U = true.
Proof.
  intros H HK. apply forallb_forall. intros u Hu. rewrite forallb_forall in H. specialize (H u Hu).
  destruct (kinds_In U HK u Hu) as [E|E]; unfold ExInv1.eE in H; rewrite E in H; exact H.
Qed.
Print Assumptions kidless_of_eE.
