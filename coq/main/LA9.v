From Coq Require Import List ZArith Lia Bool.
Import ListNotations.
Require Import Base Tree Rdr Link Collect Html Recog LP Rules Starts Driver Rec16 Rec17 Rec18 RecBounds Cursor CursorX NoPanic12 NoPanic3
  L2Kind L2CC BSDef BSRdr BSTree BSOrph BSClose BSLine1 BSLine2 BSLine3 BSLine4 BSLine5 BSLine6
  BSLine7 BSLine8 BSLine9 LADef LA1 LA2 LA3 LA4 LA5 LARec LA6 LA7 LA8.
Open Scope Z_scope.

(* ===== states of the start functions ===== *)
Lemma nd_advance p n : nd p -> nd (advance p n). Proof. apply nd_sstep, sstep_advance. Qed.
Lemma nd_consumeIndent p n : nd p -> nd (consumeIndent p n). Proof. apply nd_sstep, sstep_consumeIndent. Qed.
Lemma nd_collectInline p k n : nd p -> nd (collectInline p k n). Proof. apply nd_sstep, sstep_collectInline. Qed.
Lemma nd_endBlock p : nd p -> nd (endBlock p). Proof. apply nd_sstep, sstep_endBlock. Qed.
Lemma nd_consumeLine p : nd p -> nd (consumeLine p). Proof. intros H. apply ms_consumeLine, H. Qed.
Lemma nd_updCont p f : nd p -> nd (updCont p f). Proof. exact (fun H => H). Qed.
Lemma so_openBlock p k : st_open p -> st_open (openBlock p k). Proof. intros H. right. apply state_openBlock, H. Qed.
Lemma so_updCont p f : st_open p -> st_open (updCont p f). Proof. exact (fun H => H). Qed.
Lemma so_advance p n : st_open p -> st_open (advance p n). Proof. apply st_open_sstep, sstep_advance. Qed.
Lemma so_endBlock p : st_open p -> st_open (endBlock p). Proof. apply st_open_sstep, sstep_endBlock. Qed.
Lemma so_collectInline p k n : st_open p -> st_open (collectInline p k n). Proof. apply st_open_sstep, sstep_collectInline. Qed.

Ltac so_chain :=
  repeat match goal with
  | |- st_open (openBlock _ _) => apply so_openBlock
  | |- st_open (updCont _ _) => apply so_updCont
  | |- st_open (advance _ _) => apply so_advance
  | |- st_open (endBlock _) => apply so_endBlock
  | |- st_open (collectInline _ _ _) => apply so_collectInline
  | |- st_open (consumeIndent _ _) => apply st_open_consumeIndent
  | |- st_open (if ?c then _ else _) => destruct c
  end.
Ltac nd_chain :=
  repeat match goal with
  | |- nd (advance _ _) => apply nd_advance
  | |- nd (consumeIndent _ _) => apply nd_consumeIndent
  | |- nd (collectInline _ _ _) => apply nd_collectInline
  | |- nd (endBlock _) => apply nd_endBlock
  | |- nd (consumeLine _) => apply nd_consumeLine
  | |- nd (updCont _ _) => apply nd_updCont
  | |- nd (openBlock _ _) => apply st_open_nd, so_openBlock
  | |- nd (if ?c then _ else _) => destruct c
  end.

Definition startND (f : lp -> lp) : Prop := forall p, st_open p -> nd (f p).
Lemma blockStarts_nd : Forall startND blockStarts.
Proof.
  unfold blockStarts. repeat apply Forall_cons; try apply Forall_nil; intros p Hs; pose proof (st_open_nd p Hs) as Hn.
  - unfold startBlockQuote. cbv zeta. destruct (_ <=? _); [exact Hn|]. destruct (negb _); [exact Hn|]. nd_chain; so_chain; exact Hs.
  - unfold startATX. cbv zeta. destruct (_ <=? _); [exact Hn|]. destruct (parseATXHeading _) as [[lv cs] ce]. destruct (_ <? 1); [exact Hn|].
    nd_chain; so_chain; exact Hs.
  - unfold startFenced. cbv zeta. destruct (_ <=? _); [exact Hn|]. destruct (parseCodeFence _) as [[[fc fnn] is_] ie]. destruct (_ =? 0); [exact Hn|].
    nd_chain; so_chain; exact Hs.
  - unfold startHTML. cbv zeta. destruct (_ <=? _); [exact Hn|]. destruct (negb _); [exact Hn|]. destruct (_ <? 0); [exact Hn|]. destruct (negb _ && _); [exact Hn|].
    nd_chain; so_chain; exact Hs.
  - unfold startSetext. cbv zeta. destruct (negb _); [exact Hn|]. destruct (_ <=? _); [exact Hn|]. destruct (_ =? 0); [exact Hn|]. destruct (negb _); [exact Hn|].
    nd_chain. exact Hn.
  - unfold startThematic. cbv zeta. destruct (_ <=? _); [exact Hn|]. destruct (_ <? 0); [exact Hn|]. nd_chain; so_chain; exact Hs.
  - unfold startListItem. cbv zeta. destruct (_ <=? _); [exact Hn|]. destruct (parseListMarker _) as [[dl n] mend].
    match goal with |- nd (if ?c then p else _) => destruct c end; [exact Hn|].
    match goal with |- nd (if ?c then p else _) => destruct c end; [exact Hn|].
    match goal with |- nd (if ?c then _ else _) => destruct c end.
    + nd_chain; so_chain; exact Hs.
    + match goal with |- nd (let '(_, _) := ?c in _) => destruct c as [pad q] eqn:Eq end.
      assert (Hq : nd q).
      { revert Eq. match goal with |- (if ?c then _ else _) = _ -> _ => destruct c end; [intros Eq; inversion Eq; subst; nd_chain; so_chain; exact Hs|].
        match goal with |- (if ?c then _ else _) = _ -> _ => destruct c end; intros Eq; inversion Eq; subst; nd_chain; so_chain; exact Hs. }
      exact Hq.
  - unfold startIndented. destruct (_ || _ || _); [exact Hn|]. nd_chain; so_chain; exact Hs.
Qed.

(* ===== the start functions keep source, line and line start ===== *)
Lemma envT_advance p q n : env p q -> env p (advance q n). Proof. intros H. eapply env_trans; [exact H|apply env_cstep, cstep_advance]. Qed.
Lemma envT_consumeIndent p q n : env p q -> env p (consumeIndent q n). Proof. intros H. eapply env_trans; [exact H|apply env_cstep, cstep_consumeIndent]. Qed.
Lemma envT_consumeLine p q : env p q -> env p (consumeLine q). Proof. intros H. eapply env_trans; [exact H|apply env_cstep, cstep_consumeLine]. Qed.
Lemma envT_collectInline p q k n : env p q -> env p (collectInline q k n). Proof. intros H. eapply env_trans; [exact H|apply env_collectInline]. Qed.
Lemma envT_openBlock p q k : env p q -> env p (openBlock q k). Proof. intros H. eapply env_trans; [exact H|apply (curE_openBlock q k)]. Qed.
Lemma envT_endBlock p q : env p q -> env p (endBlock q). Proof. intros H. eapply env_trans; [exact H|apply (curE_endBlock q)]. Qed.
Lemma envT_updCont p q f : env p q -> env p (updCont q f). Proof. intros H. eapply env_trans; [exact H|repeat split]. Qed.
Ltac env_chain :=
  repeat match goal with
  | |- env _ (advance _ _) => apply envT_advance
  | |- env _ (consumeIndent _ _) => apply envT_consumeIndent
  | |- env _ (collectInline _ _ _) => apply envT_collectInline
  | |- env _ (endBlock _) => apply envT_endBlock
  | |- env _ (consumeLine _) => apply envT_consumeLine
  | |- env _ (updCont _ _) => apply envT_updCont
  | |- env _ (openBlock _ _) => apply envT_openBlock
  | |- env _ (if ?c then _ else _) => destruct c
  end; try apply env_refl.
Definition startENV (f : lp -> lp) : Prop := forall p, env p (f p).
Lemma blockStarts_env : Forall startENV blockStarts.
Proof.
  unfold blockStarts. repeat apply Forall_cons; try apply Forall_nil; intros p; pose proof (env_refl p) as Hn.
  - unfold startBlockQuote. cbv zeta. destruct (_ <=? _); [exact Hn|]. destruct (negb _); [exact Hn|]. env_chain.
  - unfold startATX. cbv zeta. destruct (_ <=? _); [exact Hn|]. destruct (parseATXHeading _) as [[lv cs] ce]. destruct (_ <? 1); [exact Hn|]. env_chain.
  - unfold startFenced. cbv zeta. destruct (_ <=? _); [exact Hn|]. destruct (parseCodeFence _) as [[[fc fnn] is_] ie]. destruct (_ =? 0); [exact Hn|]. env_chain.
  - unfold startHTML. cbv zeta. destruct (_ <=? _); [exact Hn|]. destruct (negb _); [exact Hn|]. destruct (_ <? 0); [exact Hn|]. destruct (negb _ && _); [exact Hn|]. env_chain.
  - unfold startSetext. cbv zeta. destruct (negb _); [exact Hn|]. destruct (_ <=? _); [exact Hn|]. destruct (_ =? 0); [exact Hn|]. destruct (negb _); [exact Hn|]. env_chain.
  - unfold startThematic. cbv zeta. destruct (_ <=? _); [exact Hn|]. destruct (_ <? 0); [exact Hn|]. env_chain.
  - unfold startListItem. cbv zeta. destruct (_ <=? _); [exact Hn|]. destruct (parseListMarker _) as [[dl n] mend].
    match goal with |- env p (if ?c then p else _) => destruct c end; [exact Hn|].
    match goal with |- env p (if ?c then p else _) => destruct c end; [exact Hn|].
    match goal with |- env p (if ?c then _ else _) => destruct c end.
    + env_chain.
    + match goal with |- env p (let '(_, _) := ?c in _) => destruct c as [pad q] eqn:Eq end.
      assert (Hq : env p q).
      { revert Eq. match goal with |- (if ?c then _ else _) = _ -> _ => destruct c end; [intros Eq; inversion Eq; subst; env_chain|].
        match goal with |- (if ?c then _ else _) = _ -> _ => destruct c end; intros Eq; inversion Eq; subst; env_chain. }
      env_chain. exact Hq.
  - unfold startIndented. destruct (_ || _ || _); [exact Hn|]. env_chain.
Qed.

(* ===== tryStarts, opening loop, deferred close, openNewBlocks (mirrors BSLine9) ===== *)
Lemma blockStarts_okL : Forall startOKL blockStarts.
Proof.
  unfold blockStarts.
  apply Forall_cons; [apply sOKL_startBlockQuote|]. apply Forall_cons; [apply sOKL_startATX|].
  apply Forall_cons; [apply sOKL_startFenced|]. apply Forall_cons; [apply sOKL_startHTML|].
  apply Forall_cons; [apply sOKL_startSetext|]. apply Forall_cons; [apply sOKL_startThematic|].
  apply Forall_cons; [apply sOKL_startListItem|]. apply Forall_cons; [apply sOKL_startIndented|]. apply Forall_nil.
Qed.

Lemma PB_same p p' : root p' = root p -> container p' = container p -> li p' = li p -> line p' = line p -> PB p -> PB p'.
Proof. intros E1 E2 E3 E4 H. unfold PB, containerKind, contBlock, cdepth, isRestBlank, rest. rewrite E1, E2, E3, E4. exact H. Qed.
Lemma LSp_env p p' : line p' = line p -> LSp p -> LSp p'.
Proof. intros E H. unfold LSp. rewrite E. exact H. Qed.

(* the bundle carried through the opening phase *)
Definition OB (p : lp) : Prop := LOP p /\ N3 p /\ LSp p /\ PB p.

Lemma nd_state p p' : state p' = state p -> nd p -> nd p'.
Proof. intros E H. unfold nd in *. rewrite E. exact H. Qed.

Lemma tryStarts_okL : forall fs p, Forall startOKL fs -> Forall startOK3 fs -> Forall startND fs -> Forall startENV fs -> OB p -> LLI p ->
  let r := snd (tryStarts fs p) in
  OB r /\ LLI2 r /\ env p r /\ (fst (tryStarts fs p) = true -> SC r /\ nd r) /\ (fst (tryStarts fs p) = false -> (fs = [] /\ r = p) \/ state r = stOpening).
Proof.
  induction fs as [|f r IH]; intros p Hfs H3s Hnds Hens HO HL; cbv zeta.
  { cbn [tryStarts fst snd]. split; [exact HO|]. split; [left; exact HL|]. split; [apply env_refl|]. split; [discriminate|]. intros _. left. split; reflexivity. }
  cbn [tryStarts]. cbv zeta. inversion Hfs as [|? ? Hf Hr]; subst. inversion H3s as [|? ? H3f H3r]; subst. inversion Hnds as [|? ? Hnf Hnr]; subst.
  inversion Hens as [|? ? Hef Her]; subst.
  destruct HO as (H & H3 & HS & Hpb).
  set (p' := withState p stOpening).
  assert (Sp' : st_open p') by (left; reflexivity).
  assert (H3p' : N3 p') by (destruct H3 as [[I0 I1] HP]; split; [split; assumption|exact HP]).
  destruct (Hf p' Sp') as (A & B & C & D & E).
  { eapply LOP_ntstep; [apply ntstep_withState|exact H]. }
  { eapply LLI_cstep; [apply cstep_withState|exact HL]. }
  { exact H3p'. }
  { exact HS. }
  assert (H3' : N3 (f p')) by (apply H3f, H3p').
  assert (Hnd' : nd (f p')) by (apply Hnf, Sp').
  assert (Henv' : env p (f p')) by (apply (env_trans p p'); [repeat split|apply Hef]).
  assert (HS' : LSp (f p')) by (apply (LSp_env p); [apply Henv'|exact HS]).
  destruct ((state (f p') =? stOpenMatched) || (state (f p') =? stLineConsumed)) eqn:Em.
  - cbn [fst snd]. split; [split; [exact A|split; [exact H3'|split; [exact HS'|]]]|].
    + destruct E as [E|E]; [|intros Ek; contradiction]. exfalso. rewrite E in Em. cbn in Em. discriminate.
    + split; [exact B|]. split; [exact Henv'|]. split; [intros _; split; assumption|discriminate].
  - assert (Lf : LLI (f p')).
    { destruct C as [C|C]; [exact C|]. exfalso. apply orb_false_iff in Em. destruct Em as [E1 E2]. apply Z.eqb_neq in E1. apply Z.eqb_neq in E2. destruct C; contradiction. }
    assert (Pf : PB (f p')).
    { destruct E as [E|E]; [rewrite E; apply (PB_same p); try reflexivity; exact Hpb|intros Ek; contradiction]. }
    destruct (IH (f p') Hr H3r Hnr Her ltac:(split; [exact A|split; [exact H3'|split; [exact HS'|exact Pf]]]) Lf) as (R1 & R2 & R3 & R4 & R5).
    split; [exact R1|]. split; [exact R2|]. split; [eapply env_trans; eassumption|]. split; [exact R4|].
    intros Ef. right. destruct (R5 Ef) as [[_ Es]|Hn]; [|exact Hn]. rewrite Es.
    apply orb_false_iff in Em. destruct Em as [E1 E2]. apply Z.eqb_neq in E1. apply Z.eqb_neq in E2. destruct Hnd' as [N|[N|N]]; [exact N|contradiction|contradiction].
Qed.

Lemma nd_not_term p : nd p -> state p <> stDescendTerminated.
Proof. intros [E|[E|E]]; rewrite E; discriminate. Qed.

Lemma opening_loop_okL : forall fuel p, OB p -> LLI2 p -> state p <> stDescendTerminated ->
  let r := snd (opening_loop fuel p) in
  OB r /\ LLI2 r /\ env p r /\ state r <> stDescendTerminated /\ (fst (opening_loop fuel p) = false -> li r = len (line r)) /\
  (fst (opening_loop fuel p) = true -> st_open r \/ (r = p /\ (fuel = O \/ (acceptsLines (containerKind p) = true /\ containerKind p <> ParagraphKind)))).
Proof.
  induction fuel as [|f IH]; intros p HO HL Hst; cbv zeta.
  { cbn [opening_loop fst snd]. split; [exact HO|split; [exact HL|split; [apply env_refl|split; [exact Hst|split; [discriminate|intros _; right; split; [reflexivity|left; reflexivity]]]]]]. }
  cbn [opening_loop].
  destruct ((containerKind p =? ParagraphKind) || negb (acceptsLines (containerKind p))) eqn:Ec.
  2:{ cbn [fst snd]. split; [exact HO|split; [exact HL|split; [apply env_refl|split; [exact Hst|split; [discriminate|]]]]].
      intros _. right. split; [reflexivity|right]. apply orb_false_iff in Ec. destruct Ec as [E1 E2]. apply negb_false_iff in E2. apply Z.eqb_neq in E1. tauto. }
  assert (L : LLI p).
  { destruct HL as [L|[L1 L2]]; [exact L|]. exfalso. apply orb_true_iff in Ec. destruct Ec as [Ec|Ec].
    - apply Z.eqb_eq in Ec. contradiction.
    - rewrite L1 in Ec. discriminate. }
  pose proof (tryStarts_okL blockStarts p blockStarts_okL blockStarts_ok3 blockStarts_nd blockStarts_env HO L) as H1. cbv zeta in H1.
  destruct (tryStarts blockStarts p) as [[|] p1]; cbn [fst snd] in H1; destruct H1 as (R1 & R2 & R3 & R4 & R5).
  - destruct (R4 eq_refl) as [Hsc Hnd]. destruct (Z.eqb_spec (state p1) stLineConsumed) as [El|Nl].
    + cbn [fst snd]. split; [exact R1|split; [exact R2|split; [exact R3|split; [apply nd_not_term, Hnd|split; [intros _; apply Hsc, El|discriminate]]]]].
    + destruct (IH p1 R1 R2 (nd_not_term _ Hnd)) as (Q1 & Q2 & Q3 & Q4 & Q5 & Q6). cbv zeta in *.
      split; [exact Q1|split; [exact Q2|split; [eapply env_trans; eassumption|split; [exact Q4|split; [exact Q5|]]]]].
      intros Ef. left. assert (So1 : st_open p1) by (destruct Hnd as [N|[N|N]]; [left; exact N|right; exact N|contradiction]).
      destruct (Q6 Ef) as [S0|[Er _]]; [exact S0|rewrite Er; exact So1].
  - cbn [fst snd]. split; [exact R1|split; [exact R2|split; [exact R3|split; [|split; [discriminate|]]]]].
    + destruct (R5 eq_refl) as [[E _]|Hn]; [discriminate E|rewrite Hn; discriminate].
    + intros _. destruct (R5 eq_refl) as [[E _]|Hn]; [discriminate E|left; left; exact Hn].
Qed.

(* what addLineText needs *)
Definition LApre0 (p : lp) : Prop :=
  LBP p /\ LC1 p /\ (acceptsLines (containerKind p) = false -> LLI p) /\ N3 p /\ LSp p /\ PB p.
Definition LApre (p : lp) : Prop := LApre0 p /\ (acceptsLines (containerKind p) = false -> st_open p).

Lemma LApre_of p : OB p -> LLI2 p -> LApre0 p.
Proof.
  intros ([A B] & H3 & HS & Hpb) HL. split; [exact A|split; [exact B|split; [|tauto]]].
  intros E. destruct HL as [L|[L _]]; [exact L|rewrite L in E; discriminate].
Qed.

Lemma deferredClose_okL p : OB p -> LLI2 p -> LApre0 (deferredClose p) /\ ((acceptsLines (containerKind p) = false -> st_open p) -> acceptsLines (containerKind (deferredClose p)) = false -> st_open (deferredClose p)).
Proof.
  intros ([HB H1] & H3 & HS & Hpb) HL. pose proof HB as (A & St & B & C & D). unfold deferredClose. cbv zeta.
  set (tipD := tipDepth (bheight (root p)) (root p)).
  destruct (negb (isRestBlank p) && match getAt tipD (root p) with Some t => bkind t =? ParagraphKind | None => false end) eqn:Ec.
  - apply andb_true_iff in Ec. destruct Ec as [Eb Ec]. apply negb_true_iff in Eb.
    destruct (getAt tipD (root p)) as [t|] eqn:Et; [|discriminate]. apply Z.eqb_eq in Ec.
    assert (Ro : bend (root p) < 0) by (apply (C O (root p)); [lia|reflexivity]).
    assert (Ek : containerKind (withCont p (Some tipD)) = ParagraphKind).
    { unfold containerKind, contBlock. change (cdepth (withCont p (Some tipD))) with tipD. change (root (withCont p (Some tipD))) with (root p). rewrite Et. exact Ec. }
    split; [|intros _ Ea; rewrite Ek in Ea; discriminate].
    split; [split; [exact A|split; [exact St|split; [exact B|split]]]|split; [|split; [|split; [exact H3|split; [exact HS|]]]]].
    + intros j x Hj Ex. change (cdepth (withCont p (Some tipD))) with tipD in Hj. apply (tip_open (bheight (root p)) (root p) Ro j x Hj Ex).
    + apply ccP_withCont; [exact D|eauto].
    + intros c Ecx _. exfalso. change (cdepth (withCont p (Some tipD))) with tipD in Ecx. change (root (withCont p (Some tipD))) with (root p) in Ecx.
      rewrite getAt_S_last, Et in Ecx. pose proof (para_no_kids t ltac:(eapply cc_getAt; [apply D|exact Et]) Ec) as Hk.
      unfold lastBlock in Ecx. rewrite Hk in Ecx. discriminate.
    + intros Ea. exfalso. rewrite Ek in Ea. discriminate.
    + intros _. exact Eb.
  - assert (Hcl : forall x c, getAt (cdepth p) (root p) = Some x -> lastBlock x = Some c -> bend c < 0 -> la (source p) (lineStart p) c).
    { intros x c Ex El Oc. apply H1; [|exact Oc]. rewrite getAt_S_last, Ex. exact El. }
    set (q := closeLastChildAt p (cdepth p) (lineStart p)).
    pose proof (Mc_le p A St) as HM.
    assert (HBq : LBP q).
    { change (LB (Mc p) (withCont q (Some (cdepth p)))).
      apply LB_closeAt; [exact HB|unfold Mc in *; destruct A; lia|lia|apply St|lia|lia|exact Hcl]. }
    split; [|intros Hso Ea; unfold q in Ea; rewrite containerKind_closeHere in Ea; apply Hso, Ea].
    split; [exact HBq|split; [|split; [|split; [exact H3|split; [exact HS|]]]]].
    + change (LC1 (withCont q (Some (cdepth p)))). destruct St as (S1 & S2 & HO & Hb0). apply LC1_closeAt_ls; [exact HO|exact D|destruct A; lia|exact Hb0|exact Hcl].
    + intros Ea. unfold q in Ea. rewrite containerKind_closeHere in Ea. apply LLI_closeHere; [exact HB|exact H1|].
      destruct HL as [L|[L _]]; [exact L|rewrite L in Ea; discriminate].
    + unfold PB. unfold q. rewrite containerKind_closeHere. exact Hpb.
Qed.

Lemma LW_of_LBP p : LBP p -> li p = len (line p) -> LW p.
Proof. intros (A & _ & B & C & _) E. split; [apply A|]. split; [unfold Mc in B; rewrite E in B; exact B|left; apply (C O); [lia|reflexivity]]. Qed.

Lemma closeBlock_doc_bend src e : forall fuel b, bkind b = documentKind -> bend b < 0 -> (1 <= fuel)%nat ->
  match closeBlock fuel src b e with x :: _ => bend x = e | [] => True end.
Proof.
  intros fuel b Hk Ho Hf. destruct fuel as [|f]; [lia|]. cbn [closeBlock]. unfold isOpen. destruct (Z.ltb_spec (bend b) 0); [|lia]. cbn [negb]. cbv zeta.
  rewrite bkind_set_bend, Hk. change (documentKind =? ListKind) with false. change (documentKind =? IndentedCodeBlockKind) with false.
  change ((documentKind =? ParagraphKind) || (documentKind =? SetextHeadingKind)) with false. cbv iota.
  destruct (lastBlock (set_bend b e)); [rewrite bend_set_lastBlocks|]; apply bend_set_bend.
Qed.
Lemma openNewBlocks_okL p am : LBP p -> LcleanR p -> N3 p -> LSp p -> PB p -> state p <> stDescendTerminated ->
  let r := snd (openNewBlocks p am) in
  (fst (openNewBlocks p am) = false -> LW r) /\ (fst (openNewBlocks p am) = true -> LApre r) /\ state r <> stDescendTerminated /\ env p r.
Proof.
  intros HB Hcl H3 HS Hpb Hst. pose proof HB as (A & St & B & C & D). unfold openNewBlocks. destruct (len (line p) =? 0) eqn:E0.
  - cbn [fst snd]. split; [|split; [discriminate|split; [exact Hst|repeat split]]]. intros _. split; [apply A|].
    cbn [lineStart line source root withCont withRoot setLP].
    apply Z.eqb_eq in E0. rewrite E0. replace (lineStart p + 0) with (lineStart p) by lia.
    assert (Ro : bend (root p) < 0) by (apply (C O (root p)); [lia|reflexivity]).
    destruct St as (S1 & S2 & HO & Hb0).
    destruct (la_closeBlock (source p) HO (lineStart p) S2 Hb0 (bheight (root p)) (root p) ltac:(apply D) Hcl Ro ltac:(lia)) as [P Q].
    pose proof (closeBlock_doc_bend (source p) (lineStart p) (bheight (root p)) (root p) ltac:(apply D) Ro ltac:(destruct (root p); cbn [bheight]; lia)) as Hb.
    destruct (closeBlock _ _ _ _) as [|b r]; [split; [exact Hcl|left; exact Ro]|]. split; [apply P|right; exact Hb].
  - assert (H0 : LOP p) by (split; [exact HB|apply Lclean_C1; exact Hcl]).
    pose proof (opening_loop_okL (S (length (line p))) p ltac:(split; [exact H0|split; [exact H3|split; [exact HS|exact Hpb]]])
                  ltac:(left; apply Lclean_LI; exact Hcl) Hst) as (R1 & R2 & R3 & R4 & R5 & R6).
    destruct (opening_loop _ p) as [ht p1]. cbn [fst snd] in R1, R2, R3, R4, R5, R6.
    assert (Hso : ht = true -> acceptsLines (containerKind p1) = false -> st_open p1).
    { intros Eh Ea. destruct (R6 Eh) as [S0|[Ep [Ef|[Ea' _]]]]; [exact S0|discriminate Ef|rewrite Ep in Ea; congruence]. }
    destruct am; cbn [fst snd].
    + split; [intros Ef; apply LW_of_LBP; [apply R1|apply R5, Ef]|]. split; [intros Eh; split; [apply LApre_of; assumption|apply Hso, Eh]|split; [exact R4|exact R3]].
    + destruct (deferredClose_okL p1 R1 R2) as [Hd0 Hd1].
      assert (Hd : ht = true -> LApre (deferredClose p1)) by (intros Eh; split; [exact Hd0|apply Hd1, Hso, Eh]).
      assert (HdB : LBP (deferredClose p1)) by apply Hd0.
      assert (Ed : li (deferredClose p1) = li p1 /\ line (deferredClose p1) = line p1 /\ state (deferredClose p1) = state p1 /\ env p1 (deferredClose p1)).
      { unfold deferredClose. cbv zeta. destruct (_ && _); repeat split. }
      destruct Ed as (E1 & E2 & E3 & E4).
      split; [intros Ef; apply LW_of_LBP; [exact HdB|rewrite E1, E2; apply R5, Ef]|]. split; [exact Hd|split; [rewrite E3; exact R4|eapply env_trans; eassumption]].
Qed.
