From Coq Require Import List ZArith Lia Bool.
Import ListNotations.
Require Import Base Tree Rdr Link Collect Html Recog LP Rules Starts Driver.
Open Scope Z_scope.

(* An invariant of the block layer, carried through every function of the line machine:
   every inline entry of every block satisfies E.  E is a parameter; what is needed of it is
   listed as section hypotheses (no axiom is left after the section is closed and instantiated). *)
Section Inv.
  Variable E : inline -> bool.
  Hypothesis E_leaf : forall k s e ind,
    (k = UnparsedKind \/ k = TextKind \/ k = RawHTMLKind \/ k = IndentKind \/ k = SoftLineBreakKind) ->
    E (Inl k s e ind [] []) = true.
  Hypothesis E_info : forall src s e, E (parseInfoString src s e) = true.
  Hypothesis E_label : forall s e r ks, E (Inl LinkLabelKind s e 0 r ks) = true.
  Hypothesis E_dest : forall s e ks, E (Inl LinkDestinationKind s e 0 [] ks) = true.
  Hypothesis E_title : forall s e ks, E (Inl LinkTitleKind s e 0 [] ks) = true.
  Hypothesis E_shift : forall n u, E (shiftI n u) = E u.

  Fixpoint inv (b : block) : bool :=
    match b with Blk _ _ _ bk ik _ _ _ _ _ => forallb E ik && forallb inv bk end.
  Definition invL (l : list block) : bool := forallb inv l.

  Lemma inv_eq b : inv b = forallb E (bik b) && invL (bkids b).
  Proof. destruct b; reflexivity. Qed.
  Lemma inv_parts b : inv b = true -> forallb E (bik b) = true /\ invL (bkids b) = true.
  Proof. rewrite inv_eq. apply andb_true_iff. Qed.
  Lemma inv_mk b : forallb E (bik b) = true -> invL (bkids b) = true -> inv b = true.
  Proof. intros H1 H2. rewrite inv_eq, H1, H2. reflexivity. Qed.

  (* setters that touch neither the inline entries nor the block children *)
  Lemma inv_set_bend b v : inv (set_bend b v) = inv b. Proof. destruct b; reflexivity. Qed.
  Lemma inv_set_bstart b v : inv (set_bstart b v) = inv b. Proof. destruct b; reflexivity. Qed.
  Lemma inv_set_bkind b v : inv (set_bkind b v) = inv b. Proof. destruct b; reflexivity. Qed.
  Lemma inv_set_bn b v : inv (set_bn b v) = inv b. Proof. destruct b; reflexivity. Qed.
  Lemma inv_set_bchar b v : inv (set_bchar b v) = inv b. Proof. destruct b; reflexivity. Qed.
  Lemma inv_set_bindent b v : inv (set_bindent b v) = inv b. Proof. destruct b; reflexivity. Qed.
  Lemma inv_set_bloose b v : inv (set_bloose b v) = inv b. Proof. destruct b; reflexivity. Qed.
  Lemma inv_set_blast b v : inv (set_blast b v) = inv b. Proof. destruct b; reflexivity. Qed.
  Lemma inv_set_bkids b ks : inv b = true -> invL ks = true -> inv (set_bkids b ks) = true.
  Proof. intros H Hk. apply inv_parts in H. destruct H as [H _]. destruct b. unfold invL in *. cbn [inv set_bkids bik bkids] in *. rewrite H, Hk. reflexivity. Qed.
  Lemma inv_set_bik b ik : inv b = true -> forallb E ik = true -> inv (set_bik b ik) = true.
  Proof. intros H Hk. apply inv_parts in H. destruct H as [_ H]. destruct b. unfold invL in *. cbn [inv set_bik bik bkids] in *. rewrite H, Hk. reflexivity. Qed.
  Lemma inv_add_ik b u : inv b = true -> E u = true -> inv (set_bik b (bik b ++ [u])) = true.
  Proof.
    intros H Hu. apply inv_set_bik; [assumption|]. apply inv_parts in H. destruct H as [H _].
    rewrite forallb_app, H. cbn. rewrite Hu. reflexivity.
  Qed.
  Lemma inv_newBlock k s : inv (newBlock k s) = true. Proof. reflexivity. Qed.

  Lemma invL_app a b : invL (a ++ b) = invL a && invL b. Proof. apply forallb_app. Qed.
  Lemma forallb_sub {A} (p : A -> bool) l l' : (forall x, In x l' -> In x l) -> forallb p l = true -> forallb p l' = true.
  Proof. intros Hs H. rewrite forallb_forall in *. auto. Qed.
  Lemma removelast_In {A} (l : list A) x : In x (removelast l) -> In x l.
  Proof.
    induction l as [|y l IH]; [intros []|]. destruct l as [|z l]; [intros []|].
    change (removelast (y :: z :: l)) with (y :: removelast (z :: l)). intros [->|H]; [left; reflexivity|right; apply IH, H].
  Qed.
  Lemma invL_removelast l : invL l = true -> invL (removelast l) = true.
  Proof. apply forallb_sub. intros x. apply removelast_In. Qed.
  Lemma lastBlock_In b c : lastBlock b = Some c -> In c (bkids b).
  Proof.
    unfold lastBlock. intros H. destruct (rev (bkids b)) as [|x r] eqn:Er; [discriminate|]. inversion H; subst.
    apply in_rev. rewrite Er. left. reflexivity.
  Qed.
  Lemma inv_lastBlock b c : inv b = true -> lastBlock b = Some c -> inv c = true.
  Proof.
    intros H Hl. apply inv_parts in H. destruct H as [_ H]. unfold invL in H. rewrite forallb_forall in H.
    apply H. eapply lastBlock_In. exact Hl.
  Qed.
  Lemma inv_set_lastBlocks b repl : inv b = true -> invL repl = true -> inv (set_lastBlocks b repl) = true.
  Proof.
    intros H Hr. unfold set_lastBlocks. apply inv_set_bkids; [assumption|].
    rewrite invL_app, Hr, andb_true_r. apply invL_removelast. apply inv_parts in H. tauto.
  Qed.

  (* right-spine update *)
  Lemma inv_updAt f : (forall b, inv b = true -> inv (f b) = true) ->
    forall d b, inv b = true -> inv (updAt d f b) = true.
  Proof.
    intros Hf. induction d as [|d IH]; intros b H; [apply Hf; assumption|]. cbn [updAt].
    destruct (lastBlock b) as [c|] eqn:El; [|assumption].
    apply inv_set_lastBlocks; [assumption|]. unfold invL. cbn [forallb]. rewrite andb_true_r.
    apply IH. eapply inv_lastBlock; eassumption.
  Qed.

  (* ---- onClose handlers ---- *)
  Lemma trimBlankTail_sub src : forall rk x, In x (trimBlankTail src rk) -> In x rk.
  Proof.
    induction rk as [|c r IH]; intros x H; [exact H|]. cbn [trimBlankTail] in H.
    destruct (_ && _); [right; apply IH, H|exact H].
  Qed.
  Lemma inv_onCloseIndented src b : inv b = true -> inv (onCloseIndented src b) = true.
  Proof.
    intros H. unfold onCloseIndented. apply inv_set_bik; [assumption|].
    apply inv_parts in H. destruct H as [H _]. revert H. apply forallb_sub. intros x Hx.
    apply in_rev in Hx. apply trimBlankTail_sub in Hx. apply in_rev in Hx.
    destruct (rev (bik b)) as [|lst [|prev r]] eqn:Er; try exact Hx.
    destruct (_ && _ && _ && _); [|exact Hx].
    apply in_rev in Hx. apply in_rev. rewrite Er. right. exact Hx.
  Qed.
  Lemma inv_onCloseList b : inv b = true -> inv (onCloseList b) = true.
  Proof.
    intros H. unfold onCloseList. cbv zeta. destruct (bloose b || _); [|assumption].
    apply inv_set_bkids; [rewrite inv_set_bloose; assumption|].
    apply inv_parts in H. destruct H as [_ H]. unfold invL in *. rewrite forallb_forall in *.
    intros x Hx. apply in_map_iff in Hx. destruct Hx as (y & <- & Hy). rewrite inv_set_bloose. apply H, Hy.
  Qed.

  Lemma inv_refDef s e kids : forallb E kids = true -> inv (refDefBlock s e kids) = true.
  Proof. intros H. unfold refDefBlock. cbn. rewrite H. reflexivity. Qed.

  Lemma from_sub {A} (l : list A) n x : In x (from_ l n) -> In x l.
  Proof. unfold from_. revert l. induction (Z.to_nat n) as [|k IH]; intros l H; [exact H|]. destruct l; [exact H|]. right. apply IH, H. Qed.

  Lemma inv_ocp : forall fuel rfuel src orig orphan r result,
    inv orig = true -> (match orphan with Some o => inv o = true | None => True end) -> invL result = true ->
    invL (ocp_loop fuel rfuel src orig orphan r result) = true.
  Proof.
    induction fuel as [|f IH]; intros rfuel src orig orphan r result Ho Hor Hr.
    { cbn [ocp_loop]. rewrite invL_app, Hr. cbn. rewrite Ho. reflexivity. }
    assert (Hkeep : invL (result ++ [orig]) = true) by (rewrite invL_app, Hr; cbn; rewrite Ho; reflexivity).
    assert (Hwo : forall res, invL res = true -> invL (match orphan with Some o => res ++ [o] | None => res end) = true).
    { intros res Hres. destruct orphan as [o|]; [|assumption]. rewrite invL_app, Hres. cbn. rewrite Hor. reflexivity. }
    assert (Hcut : forall pos, inv (set_bik (set_bstart orig pos) (from_ (bik orig) (nodeIndexForPosition (bik orig) pos))) = true).
    { intros pos. apply inv_set_bik; [rewrite inv_set_bstart; assumption|].
      apply inv_parts in Ho. destruct Ho as [Ho _]. revert Ho. apply forallb_sub. intros x. apply from_sub. }
    cbn [ocp_loop]. cbv zeta.
    destruct (parseLinkLabel rfuel r) as [[lspan linner] r1].
    destruct (negb (spanValid lspan)); [assumption|].
    destruct (current r1) as [c r2]. destruct (negb (c =? 58)); [assumption|].
    destruct (next r2) as [? r3]. destruct (skipLinkSpace rfuel r3) as [ok r4]. destruct (negb ok); [assumption|].
    destruct (parseLinkDestination rfuel r4) as [[dspan dtext] r5]. destruct (negb (spanValid dspan)); [assumption|].
    destruct (readEOL rfuel r5) as [destEOL r6]. destruct (current r6) as [c6 r7].
    destruct (_ && _ && _); [assumption|].
    set (labelInline := Inl LinkLabelKind _ _ 0 _ _). set (destInline := Inl LinkDestinationKind _ _ 0 [] _).
    assert (Hl : E labelInline = true) by apply E_label. assert (Hd : E destInline = true) by apply E_dest.
    assert (H2 : invL (result ++ [refDefBlock (fst lspan) destEOL [labelInline; destInline]]) = true).
    { rewrite invL_app, Hr. cbn [invL forallb andb]. rewrite inv_refDef; [reflexivity|]. cbn. rewrite Hl, Hd. reflexivity. }
    destruct (skipLinkSpace rfuel r7) as [ok2 r8]. destruct (negb ok2); [apply Hwo; assumption|].
    destruct (parseLinkTitle rfuel r8) as [[tspan ttext] r9].
    destruct (negb (spanValid tspan)).
    { destruct (destEOL <? 0); [assumption|]. destruct (_ <? 0); [apply Hwo; assumption|].
      apply IH; [apply Hcut|assumption|assumption]. }
    destruct (readEOL rfuel r9) as [titleEOL r10].
    destruct (titleEOL <? 0).
    { destruct (destEOL <? 0); [assumption|]. destruct (_ <? 0); [apply Hwo; assumption|].
      rewrite app_assoc, invL_app, H2. cbn. rewrite Hcut. reflexivity. }
    set (titleInline := Inl LinkTitleKind _ _ 0 [] _).
    assert (Ht : E titleInline = true) by apply E_title.
    assert (H3 : invL (result ++ [refDefBlock (fst lspan) titleEOL [labelInline; destInline; titleInline]]) = true).
    { rewrite invL_app, Hr. cbn [invL forallb andb]. rewrite inv_refDef; [reflexivity|]. cbn. rewrite Hl, Hd, Ht. reflexivity. }
    destruct (_ <? 0); [apply Hwo; assumption|]. apply IH; [apply Hcut|assumption|assumption].
  Qed.

  Lemma inv_onCloseParagraph src orig : inv orig = true -> invL (onCloseParagraph src orig) = true.
  Proof.
    intros H. unfold onCloseParagraph. destruct (bik orig) as [|first rest] eqn:Eb; [cbn; rewrite H; reflexivity|].
    cbv zeta. rewrite <- Eb. apply inv_ocp; [assumption| |reflexivity].
    destruct (bkind orig =? SetextHeadingKind); [|exact I].
    unfold mkI. cbn [inv forallb]. rewrite E_leaf by tauto. reflexivity.
  Qed.

  Lemma inv_closeBlock src e : forall fuel b, inv b = true -> invL (closeBlock fuel src b e) = true.
  Proof.
    induction fuel as [|f IH]; intros b H; [cbn; rewrite H; reflexivity|]. cbn [closeBlock].
    destruct (negb (isOpen b)); [cbn; rewrite H; reflexivity|]. cbv zeta.
    assert (Hcl : forall x, inv x = true ->
              inv (match lastBlock x with Some c => set_lastBlocks x (closeBlock f src c e) | None => x end) = true).
    { intros x Hx. destruct (lastBlock x) as [c|] eqn:El; [|assumption].
      apply inv_set_lastBlocks; [assumption|]. apply IH. eapply inv_lastBlock; eassumption. }
    assert (H1 : inv (set_bend b e) = true) by (rewrite inv_set_bend; assumption).
    destruct (bkind (set_bend b e) =? ListKind).
    { cbn [invL forallb]. rewrite Hcl; [reflexivity|]. apply inv_onCloseList. assumption. }
    destruct (bkind (set_bend b e) =? IndentedCodeBlockKind).
    { cbn [invL forallb]. rewrite Hcl; [reflexivity|]. apply inv_onCloseIndented. assumption. }
    destruct (_ || _); [apply inv_onCloseParagraph; assumption|].
    cbn [invL forallb]. rewrite Hcl; [reflexivity|assumption].
  Qed.

  (* ---- the line parser ---- *)
  Definition invP (p : lp) : Prop := inv (root p) = true.

  Lemma root_advance p n : root (advance p n) = root p.
  Proof. unfold advance. destruct (n <? 0); [reflexivity|]. destruct (n =? 0); [reflexivity|]. cbv zeta.
         destruct (state p =? stOpening); destruct (_ <? _); reflexivity. Qed.
  Lemma root_consumeLine p : root (consumeLine p) = root p.
  Proof. unfold consumeLine. cbv zeta. destruct (_ || _); [apply root_advance|]. destruct (_ =? stDescending); apply root_advance. Qed.
  Lemma root_consumeIndent_loop : forall fuel p n, root (consumeIndent_loop fuel p n) = root p.
  Proof.
    induction fuel as [|f IH]; intros p n; [reflexivity|]. cbn [consumeIndent_loop].
    destruct (n <=? 0); [reflexivity|]. cbv zeta.
    destruct (_ && (_ =? 32)); [rewrite IH; destruct (state p =? stOpening); reflexivity|].
    destruct (_ && (_ =? 9)); [|destruct (state p =? stOpening); reflexivity].
    destruct (n <? _); [destruct (state p =? stOpening); reflexivity|].
    rewrite IH. destruct (state p =? stOpening); reflexivity.
  Qed.
  Lemma root_consumeIndent p n : root (consumeIndent p n) = root p.
  Proof. apply root_consumeIndent_loop. Qed.

  Lemma invP_advance p n : invP p -> invP (advance p n). Proof. unfold invP. rewrite root_advance. tauto. Qed.
  Lemma invP_consumeLine p : invP p -> invP (consumeLine p). Proof. unfold invP. rewrite root_consumeLine. tauto. Qed.
  Lemma invP_consumeIndent p n : invP p -> invP (consumeIndent p n). Proof. unfold invP. rewrite root_consumeIndent. tauto. Qed.
  Lemma invP_withState p s : invP p -> invP (withState p s). Proof. exact (fun H => H). Qed.
  Lemma invP_withCont p c : invP p -> invP (withCont p c). Proof. exact (fun H => H). Qed.
  Lemma invP_panic p n : invP p -> invP (panic p n). Proof. exact (fun H => H). Qed.
  Lemma invP_opened p : invP p -> invP (if state p =? stOpening then withState p stOpenMatched else p).
  Proof. intros H. destruct (_ =? _); assumption. Qed.

  Lemma invP_updCont p f : invP p -> (forall b, inv b = true -> inv (f b) = true) -> invP (updCont p f).
  Proof. intros H Hf. unfold invP, updCont. cbn. apply inv_updAt; assumption. Qed.

  Lemma invP_closeLastChildAt p d e : invP p -> invP (closeLastChildAt p d e).
  Proof.
    intros H. unfold invP, closeLastChildAt. cbn. apply inv_updAt; [|assumption].
    intros b Hb. destruct (lastBlock b) as [c|] eqn:El; [|assumption].
    apply inv_set_lastBlocks; [assumption|]. apply inv_closeBlock. eapply inv_lastBlock; eassumption.
  Qed.

  Lemma invP_openBlock_up : forall fuel p kind, invP p -> invP (openBlock_up fuel p kind).
  Proof.
    induction fuel as [|f IH]; intros p kind H; [assumption|]. cbn [openBlock_up].
    destruct (canContain _ _); [assumption|]. destruct (cdepth p); [assumption|].
    apply IH. apply invP_withCont, invP_closeLastChildAt, H.
  Qed.
  Lemma invP_openBlock p kind : invP p -> invP (openBlock p kind).
  Proof.
    intros H. unfold openBlock. destruct (_ || _); [assumption|]. cbv zeta.
    apply invP_withCont. apply invP_updCont.
    - apply invP_closeLastChildAt, invP_openBlock_up, invP_opened, H.
    - intros b Hb. apply inv_set_bkids; [assumption|]. rewrite invL_app. apply inv_parts in Hb. destruct Hb as [_ Hb]. rewrite Hb. reflexivity.
  Qed.
  Lemma invP_endBlock p : invP p -> invP (endBlock p).
  Proof.
    intros H. unfold endBlock. destruct (_ || _); [assumption|]. cbv zeta.
    destruct (cdepth _) eqn:Ed; [destruct (state p =? stOpening); assumption|].
    apply invP_withCont, invP_closeLastChildAt, invP_opened, H.
  Qed.
  Lemma invP_collectInline p kind n : invP p ->
    (kind = UnparsedKind \/ kind = TextKind \/ kind = RawHTMLKind \/ kind = IndentKind \/ kind = SoftLineBreakKind \/ kind = InfoStringKind) ->
    invP (collectInline p kind n).
  Proof.
    intros H Hk. unfold collectInline. destruct (_ =? stDescendTerminated); [assumption|]. cbv zeta.
    apply invP_updCont.
    - apply invP_advance. destruct (0 <? _); [|apply invP_opened, H].
      apply invP_updCont; [apply invP_advance, invP_opened, H|].
      intros b Hb. apply inv_add_ik; [assumption|]. apply E_leaf. tauto.
    - intros b Hb. apply inv_add_ik; [assumption|].
      destruct (kind =? InfoStringKind) eqn:Ek; [apply E_info|].
      unfold mkI. apply E_leaf. destruct Hk as [Hk|[Hk|[Hk|[Hk|[Hk|Hk]]]]]; try tauto. subst kind. discriminate.
  Qed.

  (* match rules *)
  Lemma invP_matchRule p : invP p -> invP (snd (matchRule p)).
  Proof.
    intros H. unfold matchRule. cbv zeta.
    destruct (_ || _); [assumption|].
    destruct (_ =? ListItemKind).
    { unfold matchListItem. destruct (isRestBlank p); [destruct (negb _); [assumption|apply invP_consumeIndent, H]|].
      destruct (_ <=? _); [apply invP_consumeIndent, H|assumption]. }
    destruct (_ =? BlockQuoteKind).
    { unfold matchBlockQuote. cbv zeta. destruct (_ <=? _); [assumption|]. destruct (negb _); [assumption|]. cbn [snd].
      unfold eatQuoteMarker. cbv zeta. destruct (0 <? _); repeat first [apply invP_consumeIndent|apply invP_advance]; assumption. }
    destruct (_ =? FencedCodeBlockKind).
    { unfold matchFenced. cbv zeta. destruct (if _ <? _ then _ else false); cbn [snd]; [apply invP_consumeLine|apply invP_consumeIndent]; assumption. }
    destruct (_ =? IndentedCodeBlockKind).
    { unfold matchIndented. cbv zeta. destruct (_ <? _); [destruct (negb _)|]; cbn [snd]; try apply invP_consumeIndent; assumption. }
    destruct (_ =? HTMLBlockKind).
    { unfold matchHTML. destruct (htmlEnd _ _); [|assumption]. destruct (isRestBlank _); [assumption|]. cbn [snd]. apply invP_consumeLine.
      apply invP_collectInline; [assumption|tauto]. }
    assumption.
  Qed.

  Lemma invP_descend_loop : forall fuel p d, invP p -> invP (snd (descend_loop fuel p d)).
  Proof.
    induction fuel as [|f IH]; intros p d H; [assumption|]. cbn [descend_loop]. cbv zeta.
    destruct (getAt (S d) (root p)) as [c|]; [|assumption].
    destruct (negb (isOpen c)); [assumption|]. destruct (negb (hasMatch _)); [assumption|].
    pose proof (invP_matchRule (withState (withCont p (Some (S d))) stDescending) H) as H2.
    destruct (matchRule _) as [ok p2]. cbn [snd] in H2.
    destruct (state p2 =? stDescendTerminated); [cbn [snd]; apply invP_withCont, invP_closeLastChildAt, H2|].
    destruct (negb ok); [assumption|]. apply IH. assumption.
  Qed.

  (* ---- block starts ---- *)
  Ltac chain H :=
    repeat match goal with
    | |- invP (consumeLine _) => apply invP_consumeLine
    | |- invP (endBlock _) => apply invP_endBlock
    | |- invP (advance _ _) => apply invP_advance
    | |- invP (consumeIndent _ _) => apply invP_consumeIndent
    | |- invP (openBlock _ _) => apply invP_openBlock
    | |- invP (collectInline _ _ _) => apply invP_collectInline; [|tauto]
    | |- invP (updCont _ _) => apply invP_updCont; [|intros ? ?; rewrite ?inv_set_bn, ?inv_set_bchar, ?inv_set_bindent, ?inv_set_bkind; assumption]
    end;
    try exact H.

  Lemma invP_startBlockQuote p : invP p -> invP (startBlockQuote p).
  Proof. intros H. unfold startBlockQuote. cbv zeta. destruct (_ <=? _); [assumption|]. destruct (negb _); [assumption|].
         destruct (0 <? _); chain H. Qed.
  Lemma invP_startATX p : invP p -> invP (startATX p).
  Proof. intros H. unfold startATX. cbv zeta. destruct (_ <=? _); [assumption|].
         destruct (parseATXHeading _) as [[level cs] ce]. destruct (level <? 1); [assumption|]. chain H. Qed.
  Lemma invP_startFenced p : invP p -> invP (startFenced p).
  Proof. intros H. unfold startFenced. cbv zeta. destruct (_ <=? _); [assumption|].
         destruct (parseCodeFence _) as [[[fc fnn] is_] ie]. destruct (fnn =? 0); [assumption|].
         destruct (spanValid _); chain H. Qed.
  Lemma invP_startHTML p : invP p -> invP (startHTML p).
  Proof. intros H. unfold startHTML. cbv zeta. destruct (_ <=? _); [assumption|]. destruct (negb _); [assumption|].
         destruct (_ <? 0); [assumption|]. destruct (negb _ && _); [assumption|]. destruct (htmlEnd _ _); chain H. Qed.
  Lemma invP_startSetext p : invP p -> invP (startSetext p).
  Proof. intros H. unfold startSetext. cbv zeta. destruct (negb _); [assumption|]. destruct (_ <=? _); [assumption|].
         destruct (_ =? 0); [assumption|]. destruct (negb _); [assumption|]. chain H. Qed.
  Lemma invP_startThematic p : invP p -> invP (startThematic p).
  Proof. intros H. unfold startThematic. cbv zeta. destruct (_ <=? _); [assumption|]. destruct (_ <? 0); [assumption|]. chain H. Qed.
  Lemma invP_startListItem p : invP p -> invP (startListItem p).
  Proof.
    intros H. unfold startListItem. cbv zeta. destruct (_ <=? _); [assumption|].
    destruct (parseListMarker _) as [[delim n] mend]. destruct (_ || _); [assumption|]. destruct (_ && _); [assumption|].
    match goal with |- context [endBlock ?X] => assert (H1 : invP (endBlock X)) end.
    { destruct (negb _ || negb _); chain H. }
    match goal with |- context [endBlock ?X] => set (q := endBlock X) in * end.
    destruct (isRestBlank q); [chain H1|].
    destruct (indent q <? 1); [chain H1|]. destruct (4 <? indent q); chain H1.
  Qed.
  Lemma invP_startIndented p : invP p -> invP (startIndented p).
  Proof. intros H. unfold startIndented. destruct (_ || _ || _); [assumption|]. chain H. Qed.

  Lemma blockStarts_ok : Forall (fun f => forall p, invP p -> invP (f p)) blockStarts.
  Proof.
    unfold blockStarts. repeat constructor; intros p H;
      [apply invP_startBlockQuote|apply invP_startATX|apply invP_startFenced|apply invP_startHTML
      |apply invP_startSetext|apply invP_startThematic|apply invP_startListItem|apply invP_startIndented]; assumption.
  Qed.
  Lemma invP_tryStarts : forall fs p, Forall (fun f => forall p, invP p -> invP (f p)) fs -> invP p -> invP (snd (tryStarts fs p)).
  Proof.
    induction fs as [|f r IH]; intros p Hfs H; [assumption|]. cbn [tryStarts]. cbv zeta. inversion Hfs as [|? ? Hf Hr]; subst.
    assert (H1 : invP (f (withState p stOpening))) by (apply Hf; assumption).
    destruct (_ || _); [assumption|]. apply IH; assumption.
  Qed.
  Lemma invP_opening_loop : forall fuel p, invP p -> invP (snd (opening_loop fuel p)).
  Proof.
    induction fuel as [|f IH]; intros p H; [assumption|]. cbn [opening_loop].
    destruct (_ || _); [|assumption].
    pose proof (invP_tryStarts blockStarts p blockStarts_ok H) as H1. destruct (tryStarts blockStarts p) as [[|] p1]; cbn [snd] in H1.
    - destruct (_ =? stLineConsumed); [assumption|apply IH; assumption].
    - assumption.
  Qed.
  Lemma invP_deferredClose p : invP p -> invP (deferredClose p).
  Proof. intros H. unfold deferredClose. cbv zeta. destruct (_ && _); [assumption|apply invP_closeLastChildAt, H]. Qed.
  Lemma invP_openNewBlocks p am : invP p -> invP (snd (openNewBlocks p am)).
  Proof.
    intros H. unfold openNewBlocks. destruct (_ =? 0).
    - cbn [snd]. unfold invP. cbn.
      pose proof (inv_closeBlock (source p) (lineStart p) (bheight (root p)) (root p) H) as Hc.
      destruct (closeBlock _ _ _ _) as [|b r]; [assumption|]. cbn in Hc. apply andb_true_iff in Hc. tauto.
    - pose proof (invP_opening_loop (S (length (line p))) p H) as H1. destruct (opening_loop _ p) as [ht p1]. cbn [snd] in H1.
      destruct am; cbn [snd]; [assumption|apply invP_deferredClose, H1].
  Qed.

  Lemma inv_setLastBlankUpTo v : forall d rt, inv rt = true -> inv (setLastBlankUpTo d v rt) = true.
  Proof.
    induction d as [|d IH]; intros rt H; cbn [setLastBlankUpTo].
    - cbn [updAt]. rewrite inv_set_blast. assumption.
    - apply IH. apply inv_updAt; [intros b Hb; rewrite inv_set_blast; assumption|assumption].
  Qed.

  Lemma invP_addLineText p : invP p -> invP (addLineText p).
  Proof.
    intros H. unfold addLineText. cbv zeta.
    set (p1 := if isRestBlank p then _ else p).
    assert (H1 : invP p1).
    { unfold p1. destruct (isRestBlank p); [|assumption]. apply invP_updCont; [assumption|].
      intros b Hb. destruct (lastBlock b) as [c|] eqn:El; [|assumption].
      apply inv_set_lastBlocks; [assumption|]. cbn. rewrite inv_set_blast, andb_true_r. eapply inv_lastBlock; eassumption. }
    set (p2 := withRoot p1 _).
    assert (H2 : invP p2) by (unfold p2, invP; cbn; apply inv_setLastBlankUpTo; exact H1).
    assert (Hgo : forall q, invP q ->
      invP (let k := containerKind q in
            let inlineKind := if isCode k then TextKind else if k =? HTMLBlockKind then RawHTMLKind else UnparsedKind in
            let q' := updCont q (fun b => set_bik b (bik b ++ [mkI inlineKind (lineStart q + li q) (lineStart q + len (line q))])) in
            if isCode k && negb (hasByteSuffixEOL (line q')) then
              updCont q' (fun b => set_bik b (bik b ++ [mkI SoftLineBreakKind (lineStart q' + len (line q')) (lineStart q' + len (line q'))]))
            else q')).
    { intros q Hq. cbv zeta.
      assert (Hq' : invP (updCont q (fun b => set_bik b (bik b ++
                 [mkI (if isCode (containerKind q) then TextKind else if containerKind q =? HTMLBlockKind then RawHTMLKind else UnparsedKind)
                      (lineStart q + li q) (lineStart q + len (line q))])))).
      { apply invP_updCont; [assumption|]. intros b Hb. apply inv_add_ik; [assumption|]. unfold mkI. apply E_leaf.
        destruct (isCode _); [tauto|]. destruct (_ =? HTMLBlockKind); tauto. }
      match goal with |- invP (if ?c then _ else _) => destruct c end; [|exact Hq'].
      apply invP_updCont; [exact Hq'|]. intros b Hb. apply inv_add_ik; [assumption|]. unfold mkI. apply E_leaf. tauto. }
    match goal with |- invP (if ?c then _ else _) => destruct c end.
    - apply Hgo. match goal with |- invP (if ?c then _ else _) => destruct c end; [|assumption].
      apply invP_consumeIndent. apply invP_updCont; [assumption|]. intros b Hb. apply inv_add_ik; [assumption|]. apply E_leaf. tauto.
    - match goal with |- invP (if ?c then _ else _) => destruct c end; [|assumption]. apply Hgo. apply invP_consumeIndent, invP_openBlock, H2.
  Qed.

  Theorem inv_processLine st children ls src : invL children = true ->
    invL (fst (fst (processLine st children ls src))) = true.
  Proof.
    intros H. unfold processLine. cbv zeta.
    assert (H0 : invP (resetLP st children ls src)) by (unfold invP; cbn; exact H).
    pose proof (invP_descend_loop (bheight (root (resetLP st children ls src))) _ O H0) as H1.
    fold (descendOpenBlocks (resetLP st children ls src)) in H1.
    destruct (descendOpenBlocks _) as [am p1]. cbn [snd] in H1.
    assert (H2 : invP (snd (if negb (state p1 =? stDescendTerminated) then openNewBlocks p1 am else (false, p1)))).
    { destruct (negb _); [apply invP_openNewBlocks; assumption|assumption]. }
    destruct (if negb (state p1 =? stDescendTerminated) then openNewBlocks p1 am else (false, p1)) as [ht p2]. cbn [snd] in H2.
    cbn [fst].
    assert (H3 : invP (if ht then addLineText p2 else p2)) by (destruct ht; [apply invP_addLineText|]; assumption).
    unfold invP in H3. apply inv_parts in H3. tauto.
  Qed.

  (* ---- the stream layer: offsetTree, makeRoot, NextBlock, the whole run ---- *)
  Lemma inv_shiftB n : forall b, inv (shiftB n b) = inv b.
  Proof.
    fix IH 1. intros [k s e bk ik a nn c l lb]. cbn [shiftB inv]. f_equal.
    - induction ik as [|x r IHr]; [reflexivity|]. cbn [map forallb]. rewrite E_shift, IHr. reflexivity.
    - induction bk as [|x r IHr]; [reflexivity|]. cbn [map forallb]. rewrite (IH x), IHr. reflexivity.
  Qed.
  Lemma invL_shift n l : invL (map (shiftB n) l) = invL l.
  Proof. unfold invL. induction l as [|x r IH]; [reflexivity|]. cbn [map forallb]. rewrite inv_shiftB, IH. reflexivity. Qed.

  Lemma inv_makeRoot children s r s' : invL children = true -> makeRoot children s = Some (r, s') ->
    inv (rb_blk r) = true /\ invL (pending s') = true.
  Proof.
    intros H Hm. unfold makeRoot in Hm. destruct children as [|b rest]; [discriminate|].
    destruct (isOpen b); [discriminate|]. inversion Hm; subst. cbn [rb_blk pending].
    cbn [invL forallb] in H. apply andb_true_iff in H. destruct H as [Hb Hr]. split; [assumption|].
    rewrite invL_shift. assumption.
  Qed.

  Definition nb_ok (x : nb) : Prop :=
    match x with NBBlock r s' => inv (rb_blk r) = true /\ invL (pending s') = true | _ => True end.

  Lemma inv_lineLoop : forall fuel st children ls s, invL children = true -> invL (pending s) = true ->
    nb_ok (lineLoop fuel st children ls s).
  Proof.
    induction fuel as [|f IH]; intros st children ls s Hc Hp; [exact I|]. cbn [lineLoop].
    pose proof (inv_processLine st children ls (upto (buf s) (bi s)) Hc) as H1.
    destruct (processLine st children ls (upto (buf s) (bi s))) as [[children' st'] pn]. cbn [fst] in H1.
    destruct (negb (pn =? 0)); [exact I|].
    destruct (makeRoot children' s) as [[r s']|] eqn:Em.
    - cbn [nb_ok]. eapply inv_makeRoot; eassumption.
    - apply IH; assumption.
  Qed.
  Lemma inv_skipLoop : forall fuel s, invL (pending s) = true -> nb_ok (skipLoop fuel s).
  Proof.
    induction fuel as [|f IH]; intros s Hp; [exact I|]. cbn [skipLoop]. cbv zeta.
    destruct (negb _); [exact I|]. destruct (isBlankLine _); [apply IH; assumption|].
    apply inv_lineLoop; [reflexivity|assumption].
  Qed.
  Lemma inv_nextBlock fuel s : invL (pending s) = true -> nb_ok (nextBlock fuel s).
  Proof.
    intros Hp. unfold nextBlock. destruct (makeRoot (pending s) s) as [[r s']|] eqn:Em.
    - cbn [nb_ok]. eapply inv_makeRoot; eassumption.
    - destruct (pending s) eqn:Ep; [apply inv_skipLoop; reflexivity|].
      rewrite <- Ep in Hp |- *. apply inv_lineLoop; [exact Hp|cbn [pending]; exact Hp].
  Qed.
  Lemma inv_allBlocks : forall fuel s acc, invL (pending s) = true -> Forall (fun r => inv (rb_blk r) = true) acc ->
    Forall (fun r => inv (rb_blk r) = true) (fst (allBlocks fuel s acc)).
  Proof.
    induction fuel as [|f IH]; intros s acc Hp Ha; [exact Ha|]. cbn [allBlocks].
    pose proof (inv_nextBlock (3 + length (buf s)) s Hp) as Hn.
    destruct (nextBlock _ s) as [r s'| | |]; try exact Ha.
    destruct Hn as [Hr Hp']. apply IH; [assumption|]. apply Forall_app. split; [assumption|]. constructor; [assumption|constructor].
  Qed.
  Theorem inv_parseBlocks input : Forall (fun r => inv (rb_blk r) = true) (fst (parseBlocks input)).
  Proof. unfold parseBlocks. apply inv_allBlocks; [reflexivity|constructor]. Qed.
End Inv.

(* ---- instance: the block layer only creates plain entries ---- *)
Definition plainE (u : inline) : bool :=
  let k := ikind u in
  if (k =? UnparsedKind) || (k =? TextKind) || (k =? RawHTMLKind) || (k =? IndentKind) || (k =? SoftLineBreakKind)
  then match ikids u with [] => true | _ => false end
  else (k =? InfoStringKind) || (k =? LinkLabelKind) || (k =? LinkDestinationKind) || (k =? LinkTitleKind).

Lemma plainE_leaf k s e ind :
  k = UnparsedKind \/ k = TextKind \/ k = RawHTMLKind \/ k = IndentKind \/ k = SoftLineBreakKind ->
  plainE (Inl k s e ind [] []) = true.
Proof. intros [->|[->|[->|[->| ->]]]]; reflexivity. Qed.
Lemma plainE_info src s e : plainE (parseInfoString src s e) = true.
Proof. unfold parseInfoString. destruct (infoString_loop _ _ _ _ _ _). reflexivity. Qed.
Lemma plainE_shift n u : plainE (shiftI n u) = plainE u.
Proof. destruct u as [k s e ind r ks]. unfold plainE. cbn [shiftI ikind ikids]. destruct ks; reflexivity. Qed.

Theorem parseBlocks_plain input :
  Forall (fun r => inv plainE (rb_blk r) = true) (fst (parseBlocks input)).
Proof.
  apply inv_parseBlocks.
  - apply plainE_leaf.
  - apply plainE_info.
  - reflexivity.
  - reflexivity.
  - reflexivity.
  - apply plainE_shift.
Qed.
Print Assumptions parseBlocks_plain.
