From Coq Require Import List ZArith Lia Bool.
Import ListNotations.
Require Import Base Tree.
Open Scope Z_scope.

(* Upper bound H on every position stored in a tree: block starts and ends, entry starts and ends, recursively
   through block children and through the children of entries. (Open blocks have end -1.) *)
Fixpoint leI (H : Z) (u : inline) : bool :=
  match u with Inl _ s e _ _ ks => (s <=? H) && (e <=? H) && forallb (leI H) ks end.
Fixpoint leB (H : Z) (b : block) : bool :=
  match b with Blk _ s e bk ik _ _ _ _ _ => (s <=? H) && (e <=? H) && forallb (leI H) ik && forallb (leB H) bk end.
Definition leL (H : Z) (l : list block) : bool := forallb (leB H) l.
