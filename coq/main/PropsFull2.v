From Coq Require Import List ZArith Lia Bool.
Import ListNotations.
Require Import Base Tree Driver Inl3e Render Props.
Require QFullDefs QFull IFullDefs IFull3 IFull EolFinalFullDefs EolFinalFullHbInk.
Open Scope Z_scope.

(* Continuation of PropsFull.v for statements whose proofs themselves use PropsFull's theorems (so they cannot live there). *)

(* C09, block-quote clause through the inline pass and the renderer (safe mode), every tab-free document *)
Theorem C09_quote_parse : QFullDefs.parseFull_quote_statement.
Proof. exact QFull.parseFull_quote. Qed.
Theorem C09_quote_render : QFullDefs.renderDoc_quote_statement.
Proof. exact QFull.renderDoc_quote. Qed.

(* C09, list-item clause through the inline pass and the renderer (safe mode) *)
Theorem C09_item_parse : IFullDefs.parseFull_item_statement.
Proof. exact IFull3.parseFull_item. Qed.
Theorem C09_item_render : IFullDefs.renderDoc_item_statement.
Proof. exact IFull.renderDoc_item. Qed.

(* C14, final-newline clause through the inline pass *)
Theorem C14_final_newline_full : EolFinalFullDefs.parseFull_final_newline_statement.
Proof. exact EolFinalFullHbInk.parseFull_final_newline_statement_holds. Qed.

Print Assumptions C14_final_newline_full.
Print Assumptions C09_item_parse.
Print Assumptions C09_item_render.
Print Assumptions C09_quote_parse.
Print Assumptions C09_quote_render.
