(* SliceDocs.v -- the block layer on a SEQUENCE of blocks separated by blank lines, generic in the kind of block.
   A block is described by its source (ending with LF), the closed root block it produces (as a function of the lastLineBlank flag),
   whether it is closed only by the following blank line (paragraphs) and the number of blank lines after it. *)
From Coq Require Import List ZArith Lia Bool.
Import ListNotations.
Require Import Base Tables Utf8 Tree Rdr Link Collect Html Recog LP Rules Starts Driver Inl3a Inl3b Inl3c Inl3d Inl3e Render Fmt Entry
  SliceBase SlicePara SliceText SliceTok SliceLine SliceFormat SliceReparse.
Open Scope Z_scope.

Record bsrc := { bx : bytes; bb : bool -> block; bp : bool; bk : nat }.
Fixpoint docOf (l : list bsrc) : bytes := match l with [] => [] | b :: r => bx b ++ repeat 10 (bk b) ++ docOf r end.
(* at least one blank line between consecutive blocks *)
Fixpoint wellSep (l : list bsrc) : Prop := match l with [] => True | b :: r => (r <> [] -> (1 <= bk b)%nat) /\ wellSep r end.
Definition flagOf (b : bsrc) : bool := bp b && negb (Nat.eqb (bk b) 0).
Fixpoint rootsOf (l : list bsrc) (bo bl : Z) : list rootB :=
  match l with
  | [] => []
  | b :: r => {| rb_line := bl; rb_start := bo; rb_end := bo + len (bx b); rb_src := bx b; rb_blk := bb b (flagOf b) |}
              :: rootsOf r (bo + len (bx b) + Z.of_nat (bk b)) (bl + lineCount (bx b) + Z.of_nat (bk b))
  end.

(* what one block must do: from the start of its first line, skipLoop produces its root and stops either after the block
   (bi = 0) or, for a paragraph followed by a blank line, after that blank line (bi = 1) *)
Record stepOK (b : bsrc) : Prop := {
  step_last : forall f bo bl, (length (bx b) + 2 <= f)%nat ->
    skipLoop f {| buf := bx b; bi := 0; boff := bo; bline := bl; pending := [] |} =
    NBBlock {| rb_line := bl; rb_start := bo; rb_end := bo + len (bx b); rb_src := bx b; rb_blk := bb b false |}
            {| buf := []; bi := 0; boff := bo + len (bx b); bline := bl + lineCount (bx b); pending := [] |};
  step_more : forall R f bo bl, (length (bx b) + 2 <= f)%nat ->
    skipLoop f {| buf := bx b ++ 10 :: R; bi := 0; boff := bo; bline := bl; pending := [] |} =
    NBBlock {| rb_line := bl; rb_start := bo; rb_end := bo + len (bx b); rb_src := bx b; rb_blk := bb b (bp b) |}
            {| buf := 10 :: R; bi := (if bp b then 1 else 0); boff := bo + len (bx b); bline := bl + lineCount (bx b); pending := [] |} }.

Lemma skip_blanks : forall j f Y bo bl,
  skipLoop (j + f) {| buf := repeat 10 j ++ Y; bi := 0; boff := bo; bline := bl; pending := [] |} =
  skipLoop f {| buf := Y; bi := 0; boff := bo + Z.of_nat j; bline := bl + Z.of_nat j; pending := [] |}.
Proof.
  induction j as [|j IH]; intros f Y bo bl.
  - cbn [repeat app Nat.add Z.of_nat]. rewrite !Z.add_0_r. reflexivity.
  - cbn [repeat app Nat.add]. rewrite sl_skipLoop_S. cbv zeta. cbn [buf bi boff bline pending].
    assert (Hle : lineEnd (10 :: repeat 10 j ++ Y) 0 = 1).
    { change (10 :: repeat 10 j ++ Y) with ([] ++ [] ++ 10 :: (repeat 10 j ++ Y)). change 0 with (len (@nil Z)) at 1.
      rewrite (lineEnd_lf [] [] _ ltac:(constructor)). reflexivity. }
    rewrite Hle. change (0 <? 1) with true. cbn [negb]. change (upto (10 :: repeat 10 j ++ Y) 1) with [10].
    change (isBlankLine [10]) with true. cbv iota. change (from_ (10 :: repeat 10 j ++ Y) 1) with (repeat 10 j ++ Y).
    change (unpadded [10]) with 1. rewrite IH. f_equal. f_equal; lia.
Qed.
Lemma skip_eof f bo bl : skipLoop (S f) {| buf := []; bi := 0; boff := bo; bline := bl; pending := [] |} =
  NBEof {| buf := []; bi := 0; boff := bo; bline := bl; pending := [] |}.
Proof. reflexivity. Qed.

Lemma nextBlock_bi0 F X bo bl : nextBlock F {| buf := X; bi := 0; boff := bo; bline := bl; pending := [] |} =
  skipLoop F {| buf := X; bi := 0; boff := bo; bline := bl; pending := [] |}.
Proof.
  unfold nextBlock. cbn [pending makeRoot buf bi boff bline]. change (upto X 0) with (@nil Z). change (from_ X 0) with X.
  change (unpadded []) with 0. change (lineCount []) with 0. rewrite !Z.add_0_r. reflexivity.
Qed.

Lemma length_docOf_ge l : (length l <= length (docOf l))%nat \/ True. Proof. right; exact I. Qed.

Lemma allBlocks_docs : forall l, Forall stepOK l -> wellSep l ->
  forall f s acc j F bo bl,
  nextBlock (3 + length (buf s)) s = skipLoop F (st0of (repeat 10 j ++ docOf l) bo bl) ->
  (j + length (docOf l) + 3 <= F)%nat -> (length l < f)%nat ->
  allBlocks f s acc = (acc ++ rootsOf l (bo + Z.of_nat j) (bl + Z.of_nat j), 0).
Proof.
  induction l as [|b r IH]; intros Hst Hws f s acc j F bo bl Hnb HF Hf.
  - destruct f as [|f]; [cbn [length] in Hf; lia|]. rewrite sl_allBlocks_S, Hnb. unfold st0of. cbn [docOf] in *.
    replace F with (j + (F - j))%nat by lia. rewrite skip_blanks. cbn [length] in HF.
    destruct (F - j)%nat as [|g] eqn:Eg; [lia|]. rewrite skip_eof. cbn [rootsOf]. rewrite app_nil_r. reflexivity.
  - destruct f as [|f]; [cbn [length] in Hf; lia|]. cbn [length] in Hf. rewrite sl_allBlocks_S, Hnb. unfold st0of.
    apply Forall_cons_iff in Hst. destruct Hst as [Hb Hr]. destruct Hws as [Hk Hws].
    replace F with (j + (F - j))%nat by lia. rewrite skip_blanks.
    cbn [docOf]. cbn [docOf] in HF. rewrite !app_length, repeat_length in HF.
    destruct (bk b) as [|k] eqn:Ek.
    + assert (Er : r = []) by (destruct r; [reflexivity|exfalso; specialize (Hk ltac:(discriminate)); lia]). subst r.
      cbn [repeat docOf app]. rewrite app_nil_r.
      rewrite (step_last b Hb) by lia.
      destruct f as [|f']; [lia|]. rewrite sl_allBlocks_S. cbn [buf length Nat.add]. rewrite nextBlock_eof.
      cbn [rootsOf]. unfold flagOf. rewrite Ek. cbn [Nat.eqb negb]. rewrite andb_false_r. reflexivity.
    + cbn [repeat app]. rewrite (step_more b Hb) by lia.
      set (R := repeat 10 k ++ docOf r).
      set (s' := {| buf := 10 :: R; bi := if bp b then 1 else 0; boff := bo + Z.of_nat j + len (bx b); bline := bl + Z.of_nat j + lineCount (bx b); pending := [] |}).
      destruct (bp b) eqn:Ep.
      * rewrite (IH Hr Hws f s' (acc ++ [_]) k (3 + length (buf s'))%nat (bo + Z.of_nat j + len (bx b) + 1) (bl + Z.of_nat j + lineCount (bx b) + 1)).
        -- cbn [rootsOf]. unfold flagOf. rewrite Ep, Ek. cbn [Nat.eqb negb andb]. rewrite <- app_assoc. cbn [app]. replace (Z.of_nat (S k)) with (1 + Z.of_nat k) by lia. rewrite !Z.add_assoc. reflexivity.
        -- reflexivity.
        -- unfold s'. cbn [buf length]. unfold R. rewrite app_length, repeat_length. lia.
        -- lia.
      * rewrite (IH Hr Hws f s' (acc ++ [_]) (S k) (3 + length (buf s'))%nat (bo + Z.of_nat j + len (bx b)) (bl + Z.of_nat j + lineCount (bx b))).
        -- cbn [rootsOf]. unfold flagOf. rewrite Ep, Ek. cbn [andb]. rewrite <- app_assoc. cbn [app]. reflexivity.
        -- unfold s'. rewrite nextBlock_bi0. reflexivity.
        -- unfold s'. cbn [buf length]. unfold R. rewrite app_length, repeat_length. lia.
        -- lia.
Qed.

Theorem parseBlocks_docs l : Forall stepOK l -> wellSep l -> Forall (fun b => (1 <= length (bx b))%nat) l -> noNul (docOf l) ->
  parseBlocks (docOf l) = (rootsOf l 0 1, 0).
Proof.
  intros Hst Hws Hne Hnul. unfold parseBlocks. rewrite (pad_noNul _ Hnul).
  assert (Hlen : (length l <= length (docOf l))%nat).
  { clear -Hne. induction Hne as [|b r Hb Hr IH]; [cbn; lia|]. cbn [docOf length]. rewrite !app_length. lia. }
  rewrite (allBlocks_docs l Hst Hws (S (length (docOf l))) _ [] 0 (3 + length (docOf l))%nat 0 1).
  - cbn [Z.of_nat]. rewrite !Z.add_0_r. reflexivity.
  - cbn [buf repeat app]. apply nextBlock_bi0.
  - lia.
  - lia.
Qed.

(* ---- what each block contributes to parseFull, formatDoc and renderDoc ---- *)
Definition wS (hw : bool) (out : bytes) : fw := {| indents := []; started := false; hasWritten := hw; fout := out |}.
Record blockOK (c : cfg) (b : bsrc) (final : bool -> block) (piece : bool -> bytes) (html : bytes) : Prop := {
  bo_step : stepOK b;
  bo_ne : (1 <= length (bx b))%nat;
  bo_refs : forall fl acc, extractB (bheight (bb b fl)) (bb b fl) acc = acc;
  bo_rw : forall fl, rewriteB (bheight (bb b fl)) (bx b) [] (bb b fl) = final fl;
  bo_fmt : forall fl hw out idx, (hw = true <-> 0 < idx) -> 0 <= idx ->
           fmtB (bheight (final fl)) (bx b) (wS hw out) idx None (final fl) = wS true (out ++ piece hw);
  bo_defs : forall fl acc, extractDefs (bheight (final fl)) (bx b) (final fl) acc = acc;
  bo_html : forall fl, renderB (bheight (final fl)) c [] (bx b) false (final fl) = html }.

Record bfull := { bf_b : bsrc; bf_final : bool -> block; bf_piece : bool -> bytes; bf_html : bytes }.
Definition fullOK (c : cfg) (x : bfull) : Prop := blockOK c (bf_b x) (bf_final x) (bf_piece x) (bf_html x).

Fixpoint fullRootsOf (l : list bfull) (bo bl : Z) : list rootB :=
  match l with
  | [] => []
  | x :: r => let b := bf_b x in
              {| rb_line := bl; rb_start := bo; rb_end := bo + len (bx b); rb_src := bx b; rb_blk := bf_final x (flagOf b) |}
              :: fullRootsOf r (bo + len (bx b) + Z.of_nat (bk b)) (bl + lineCount (bx b) + Z.of_nat (bk b))
  end.
Fixpoint piecesOf (l : list bfull) (hw : bool) : bytes :=
  match l with [] => [] | x :: r => bf_piece x hw ++ piecesOf r true end.

Section Docs.
Variable c : cfg.
Variable l : list bfull.
Hypothesis Hok : Forall (fullOK c) l.
Let bl := map bf_b l.
Hypothesis Hws : wellSep bl.
Hypothesis Hnul : noNul (docOf bl).

Lemma refs_docs : forall (l' : list bfull) bo bln acc, Forall (fullOK c) l' ->
  fold_left (fun a r => extractB (bheight (rb_blk r)) (rb_blk r) a) (rootsOf (map bf_b l') bo bln) acc = acc.
Proof.
  induction l' as [|x r IH]; intros bo bln acc H; [reflexivity|]. apply Forall_cons_iff in H. destruct H as [Hx Hr].
  cbn [map rootsOf fold_left rb_blk]. rewrite (bo_refs _ _ _ _ _ Hx). apply IH. exact Hr.
Qed.

Theorem parseFull_docs : parseFull (docOf bl) = (fullRootsOf l 0 1, 0).
Proof.
  unfold parseFull. rewrite (parseBlocks_docs bl).
  - unfold bl. rewrite (refs_docs l 0 1 [] Hok). f_equal.
    assert (G : forall (l' : list bfull) bo bln, Forall (fullOK c) l' ->
      map (fun r => {| rb_line := rb_line r; rb_start := rb_start r; rb_end := rb_end r; rb_src := rb_src r;
                       rb_blk := rewriteB (bheight (rb_blk r)) (rb_src r) [] (rb_blk r) |}) (rootsOf (map bf_b l') bo bln) = fullRootsOf l' bo bln).
    { induction l' as [|x r IH]; intros bo bln H; [reflexivity|]. apply Forall_cons_iff in H. destruct H as [Hx Hr].
      cbn [map rootsOf fullRootsOf rb_line rb_start rb_end rb_src rb_blk]. rewrite (bo_rw _ _ _ _ _ Hx). f_equal. apply IH. exact Hr. }
    apply G. exact Hok.
  - unfold bl. apply Forall_forall. intros b Hb. apply in_map_iff in Hb. destruct Hb as (x & <- & Hx). rewrite Forall_forall in Hok. apply (bo_step _ _ _ _ _ (Hok x Hx)).
  - exact Hws.
  - unfold bl. apply Forall_forall. intros b Hb. apply in_map_iff in Hb. destruct Hb as (x & <- & Hx). rewrite Forall_forall in Hok. apply (bo_ne _ _ _ _ _ (Hok x Hx)).
  - exact Hnul.
Qed.

Theorem formatDoc_docs : formatDoc (docOf bl) = piecesOf l false.
Proof.
  unfold formatDoc. rewrite parseFull_docs.
  change {| indents := []; started := false; hasWritten := false; fout := [] |} with (wS false []).
  assert (G : forall (l' : list bfull) bo bln hw out idx, Forall (fullOK c) l' -> (hw = true <-> 0 < idx) -> 0 <= idx ->
    fout (fst (fold_left (fun (wi : fw * Z) r => let '(w, i) := wi in (fmtB (bheight (rb_blk r)) (rb_src r) w i None (rb_blk r), i + 1))
                         (fullRootsOf l' bo bln) (wS hw out, idx))) = out ++ piecesOf l' hw).
  { induction l' as [|x r IH]; intros bo bln hw out idx H Hhw Hidx; [cbn; rewrite app_nil_r; reflexivity|].
    apply Forall_cons_iff in H. destruct H as [Hx Hr]. cbn [fullRootsOf fold_left rb_blk rb_src piecesOf].
    rewrite (bo_fmt _ _ _ _ _ Hx _ hw out idx Hhw Hidx). rewrite (IH _ _ true _ (idx + 1) Hr); [rewrite <- app_assoc; reflexivity| |lia].
    split; [intros _; lia|reflexivity]. }
  rewrite (G l 0 1 false [] 0 Hok); [reflexivity| |lia]. split; [discriminate|lia].
Qed.

Theorem renderDoc_docs : renderDoc c (docOf bl) = joinBlocks (map bf_html l).
Proof.
  unfold renderDoc. rewrite parseFull_docs.
  assert (Gd : forall (l' : list bfull) bo bln acc, Forall (fullOK c) l' ->
    fold_left (fun a r => extractDefs (bheight (rb_blk r)) (rb_src r) (rb_blk r) a) (fullRootsOf l' bo bln) acc = acc).
  { induction l' as [|x r IH]; intros bo bln acc H; [reflexivity|]. apply Forall_cons_iff in H. destruct H as [Hx Hr].
    cbn [fullRootsOf fold_left rb_blk rb_src]. rewrite (bo_defs _ _ _ _ _ Hx). apply IH. exact Hr. }
  rewrite (Gd l 0 1 [] Hok). f_equal.
  assert (G : forall (l' : list bfull) bo bln, Forall (fullOK c) l' ->
    map (fun r => renderB (bheight (rb_blk r)) c [] (rb_src r) false (rb_blk r)) (fullRootsOf l' bo bln) = map bf_html l').
  { induction l' as [|x r IH]; intros bo bln H; [reflexivity|]. apply Forall_cons_iff in H. destruct H as [Hx Hr].
    cbn [fullRootsOf map rb_blk rb_src]. rewrite (bo_html _ _ _ _ _ Hx). f_equal. apply IH. exact Hr. }
  apply G. exact Hok.
Qed.
End Docs.
