(* ItemSimDrv2.v -- T65: QS2Drv2.v, Section Cut2, for the maps of the list item (sgI / eBI / lpI / MOI): cutting n bytes off the buffer
   does not change the image of a block that lies behind the cut.  (The other parts of QS2Drv2.v -- ceB0_ext, strengthen, geB2,
   la_geB2, cuts_shift, qK_cut -- do not depend on the position map and are used as they are.) *)
From Coq Require Import List ZArith Lia Bool Arith.
Import ListNotations.
Require Import Base Tree Rdr Link Collect Html Recog LP Rules Starts Driver Rec16 Rec17 Rec18 L2Kind L2CC
  LADef LA1 LA11 LA12 LA13 IFBase SpanHypDef DefSpans DefSpansOcp DefSpansWalk DefSpansDrv
  QuoteSimDefs QuoteSimTree QuoteSimNest QuoteSimMap QuoteSimReloc QuoteSimLines QuoteSimDrv1 QuoteSimDrv2 QuoteSimSpec
  QCutsDef QCuts QRdrBase QRdrCollect QRdrOcp QRdrKids QS2Reloc QS2Drv1 QS2Drv2 ItemSimDefs ItemSimDrv1.
Open Scope Z_scope.

Section Cut2I.
  Variables (KK : Z) (D : bytes).
  Lemma sgI_cut o n x : sgI KK D (o + n) (x - n) = sgI KK D o x.
  Proof. unfold sgI. cbv zeta. replace (o + n + (x - n)) with (o + x) by lia. reflexivity. Qed.
  Lemma ceI_cutI sD sQ o n u : 0 <= n <= len sD -> geI n u -> ceI sD sQ (sgI KK D o) u -> ceI (from_ sD n) sQ (sgI KK D (o + n)) (shiftI (- n) u).
  Proof.
    intros Hn (G1 & G2 & G3) (A & I0 & B & C & P & E & F & K1 & K2). destruct u as [k s e ind r kids]. cbn [istart iend ikind] in *.
    unfold ceI. cbn [shiftI istart iend ikind]. destruct (Z.leb_spec 0 e); [|lia]. replace (s + - n) with (s - n) by lia. replace (e + - n) with (e - n) by lia.
    rewrite sgI_cut. split; [exact A|]. split; [apply (insideI_shiftI n (Inl k s e ind r kids)); [exact I0|lia|cbn; lia]|].
    split; [lia|]. split; [rewrite len_from by lia; lia|]. split; [exact P|]. split; [replace (e - n - (s - n)) with (e - s) by lia; exact E|].
    split; [replace (e - n - (s - n)) with (e - s) by lia; rewrite sub_from by lia; exact F|]. split.
    - unfold kidsIn in *. cbn [istart iend ikids] in *. apply Forall_forall. intros c Hc. apply in_map_iff in Hc. destruct Hc as (c0 & <- & Hc0).
      rewrite Forall_forall in K1. specialize (K1 c0 Hc0). destruct c0 as [k' s' e' ind' r' kids']. cbn [shiftI istart iend] in *.
      destruct (Z.leb_spec 0 e'); lia.
    - intros x Hx. replace x with ((x + n) - n) by lia. rewrite sgI_cut. rewrite (K2 (x + n)) by lia. lia.
  Qed.

  Lemma lpI_cut o n u : 0 <= o -> 0 <= n -> geL n u -> lpI KK D (o + n) (shiftI (- n) u) = lpI KK D o u.
  Proof.
    intros Ho Hn (G1 & G2 & G3). destruct u as [k s e ind rf kids]. cbn [istart iend ikids] in *. cbn [shiftI].
    destruct (Z.leb_spec 0 e); [|lia]. replace (s + - n) with (s - n) by lia. replace (e + - n) with (e - n) by lia. unfold lpI.
    rewrite sgI_cut. f_equal.
    - unfold QRdrOcp.epsG. destruct (Z.ltb_spec (e - n) 0); [lia|]. destruct (Z.ltb_spec e 0); [lia|].
      replace (s - n <? e - n) with (s <? e) by (destruct (Z.ltb_spec s e), (Z.ltb_spec (s - n) (e - n)); lia || reflexivity).
      rewrite sgI_cut. replace (e - n - 1) with (e - 1 - n) by lia. rewrite sgI_cut. reflexivity.
    - rewrite <- (from_from D o n Ho Hn). clear -G3 Hn. induction kids as [|c r IH]; [reflexivity|]. inversion G3 as [|? ? (C1 & C2 & C3) Gr]; subst.
      cbn [map flat_map]. rewrite (IH Gr). f_equal. apply qK_cut; try assumption. intros y. apply sgI_cut.
  Qed.

  Lemma rI2I_cut o n u : 0 <= o -> 0 <= n -> geE n u -> rI (sgI KK D (o + n)) (lpI KK D (o + n)) (shiftI (- n) u) = rI (sgI KK D o) (lpI KK D o) u.
  Proof.
    intros Ho Hn H. unfold geE in H. unfold rI. rewrite ikind_shiftI'. destruct (QuoteSimMap.isLinkPart (ikind u)) eqn:El.
    - apply lpI_cut; assumption.
    - destruct H as (A & B & C). rewrite mvI_shiftI by assumption.
      destruct u as [k s e ind r kids]. cbn [shiftI istart]. replace (s + - n) with (s - n) by lia. rewrite sgI_cut. f_equal. lia.
  Qed.

  Lemma MOI_cut o n : 0 <= o -> 0 <= n -> forall b, geB2 n b -> MOI KK D (o + n) (shiftB (- n) b) = MOI KK D o b.
  Proof.
    intros Ho Hn. apply (QS2Reloc.block_kids_ind2 (fun b => geB2 n b -> MOI KK D (o + n) (shiftB (- n) b) = MOI KK D o b)). intros b IH H.
    apply geB2_eq in H. destruct H as (A & B & C & F). destruct b as [k s e bk ik a nn c l lb]. cbn [bstart bend bik bkids] in *.
    unfold MOI. cbn [shiftB rB]. f_equal.
    - replace (s + - n) with (s - n) by lia. apply sgI_cut.
    - unfold eBI. destruct (Z.leb_spec 0 e) as [L|L].
      + destruct B as [B|B]; [lia|]. destruct (Z.ltb_spec (e + - n) 0); [lia|]. destruct (Z.ltb_spec e 0); [lia|]. f_equal. lia.
      + destruct (Z.ltb_spec e 0); [reflexivity|lia].
    - rewrite map_map. apply map_ext_in. intros x Hx. rewrite Forall_forall in F. apply (IH x Hx (F x Hx)).
    - rewrite map_map. apply map_ext_in. intros u Hu. rewrite Forall_forall in C. apply rI2I_cut; [exact Ho|exact Hn|apply C, Hu].
  Qed.

  Lemma lpOKk_shiftI k n u : QS2Reloc.lpOKk k u -> QS2Reloc.lpOKk k (shiftI (- n) u).
  Proof.
    intros [H1 H2]. split; [|rewrite ikind_shiftI'; exact H2]. unfold QS2Reloc.lpOK in *. rewrite ikind_shiftI'. intros K. specialize (H1 K).
    destruct u as [k0 s e ind rf kids]. cbn [shiftI ikids] in *. apply Forall_forall. intros c Hc. apply in_map_iff in Hc. destruct Hc as (c0 & <- & Hc0).
    rewrite Forall_forall in H1. specialize (H1 c0 Hc0). destruct c0 as [k1 s1 e1 i1 r1 kk]. cbn [ikids shiftI] in *. subst kk. reflexivity.
  Qed.

  Lemma ceB0I_cut sD sQ o n : 0 <= n <= len sD -> forall b, geB2 n b -> QS2Reloc.ceB0 sD sQ (sgI KK D o) b -> QS2Reloc.ceB0 (from_ sD n) sQ (sgI KK D (o + n)) (shiftB (- n) b).
  Proof.
    intros Hn. apply (QS2Reloc.block_kids_ind2 (fun b => geB2 n b -> QS2Reloc.ceB0 sD sQ (sgI KK D o) b -> QS2Reloc.ceB0 (from_ sD n) sQ (sgI KK D (o + n)) (shiftB (- n) b))). intros b IH Hg Hc.
    apply geB2_eq in Hg. destruct Hg as (A & B & C & F). apply QS2Reloc.ceB0_eq in Hc. destruct Hc as (Ki & Ku & L4 & Ck). apply QS2Reloc.ceB0_eq.
    destruct b as [k s e bk ik a nn c l lb]. cbn [bstart bend bik bkids bkind shiftB] in *. split; [|split; [|split]].
    - intros K. specialize (Ki K). apply Forall_forall. intros u Hu. apply in_map_iff in Hu. destruct Hu as (u0 & <- & Hu0). rewrite Forall_forall in C, Ki.
      pose proof (Ki u0 Hu0) as Hci. pose proof (C u0 Hu0) as Hge. unfold geE in Hge. destruct Hci as (Hlp & Hrest). rewrite Hlp in Hge.
      apply ceI_cutI; [exact Hn|exact Hge|split; [exact Hlp|exact Hrest]].
    - intros K. specialize (Ku K). apply Forall_forall. intros u Hu. apply in_map_iff in Hu. destruct Hu as (u0 & <- & Hu0). rewrite Forall_forall in Ku.
      unfold QS2Reloc.unpK. rewrite ikind_shiftI'. apply Ku, Hu0.
    - apply Forall_forall. intros u Hu. apply in_map_iff in Hu. destruct Hu as (u0 & <- & Hu0). rewrite Forall_forall in L4. apply lpOKk_shiftI, L4, Hu0.
    - unfold QS2Reloc.ceL0 in *. apply Forall_forall. intros x Hx. apply in_map_iff in Hx. destruct Hx as (x0 & <- & Hx0). rewrite Forall_forall in F, Ck. apply IH; [exact Hx0|apply F, Hx0|apply Ck, Hx0].
  Qed.
End Cut2I.
