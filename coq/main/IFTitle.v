From Coq Require Import List ZArith Lia Bool.
Import ListNotations.
Require Import Base Tables Utf8 Tree Rdr Link Collect Html Recog Inl3a Inl3b Inl3c Inl3d Inl3e Driver ShapesBase ShapesR IFBase IFLink.
Require Import PEProof Leaf3e Leaf3n Render Props GI0 GI1 GI2 GI3 GI4 GI5 GI6.
Open Scope Z_scope.

(* ================================================================ C04 (1): parseInlineLink; the clause "a title needs a destination" *)

Lemma next_prev r :
  (fst (next r) = true -> r_prev (snd (next r)) = r_pos r) /\
  (r_prev (snd (next r)) = r_pos r \/ r_prev (snd (next r)) = r_prev r).
Proof.
  unfold next. destruct (curNode_cases r) as [E|(pre & n & rest & E1 & E & E3)]; rewrite E.
  - cbn. split; [discriminate|right; reflexivity].
  - cbn [r_src r_pos r_spans r_vpos withSpans].
    destruct (_ && _); [cbn; split; [reflexivity|left; reflexivity]|].
    destruct (_ && _); [cbn; split; [reflexivity|left; reflexivity]|].
    destruct (nextSpan _) as [[i sp]|]; cbn; (split; [reflexivity|left; reflexivity]).
Qed.
Lemma prev_current r : r_prev (snd (current r)) = r_prev r.
Proof. destruct (current_fields r) as (_ & _ & _ & D). exact D. Qed.
Lemma fst_current_current r : fst (current (snd (current r))) = fst (current r).
Proof. rewrite current_current. reflexivity. Qed.

(* rstep, also recording what happens to r_prev *)
Ltac rstepP src :=
  repeat match goal with
  | |- context [current ?r] =>
      match goal with Hr : PL src r |- _ =>
        let H := fresh "Hc" in let c := fresh "c" in let r' := fresh "r" in let E := fresh "Ec" in
        pose proof (conj (cur_facts src r Hr) (prev_current r)) as H; destruct (current r) as [c r'] eqn:E; cbn [snd] in H;
        let H1 := fresh "HP" in let H2 := fresh "Hm" in let H3 := fresh "Hp" in let H4 := fresh "Hv" in destruct H as ((H1 & H2 & H3) & H4)
      end
  | |- context [next ?r] =>
      match goal with Hr : PL src r |- _ =>
        let H := fresh "Hn" in let ok := fresh "ok" in let r' := fresh "r" in let E := fresh "En" in
        pose proof (conj (next_W src r Hr) (next_prev r)) as H; destruct (next r) as [ok r'] eqn:E; cbn [snd fst] in H;
        let H1 := fresh "HP" in let H2 := fresh "Hp" in let H3 := fresh "Hm" in let H4 := fresh "Hlt" in let H5 := fresh "Hlp" in
        let H6 := fresh "Hv" in let H7 := fresh "Hw" in
        destruct H as ((H1 & H2 & H3 & H4 & H5) & (H6 & H7))
      end
  end.

Definition isq (c : Z) : bool := (c =? 39) || (c =? 34) || (c =? 40).

Section T.
  Variable src : bytes.
  Notation PL := (PL src).
  Notation prog := (prog src).
  Notation mu := (nu src).
  Ltac f0 H := f0s src H.

  (* a reader on which parseLinkTitle cannot succeed *)
  Definition dead (r : reader) : Prop := isq (fst (current r)) = false \/ fst (next r) = false.

  Lemma lt_loop_valid : forall fuel r start term, spanValid (fst (fst (lt_loop fuel r start term))) = true -> fst (next r) = true.
  Proof.
    destruct fuel as [|f]; intros r start term; [cbn; discriminate|]. cbn [lt_loop].
    destruct (next r) as [ok r1]. destruct ok; [reflexivity|cbn; discriminate].
  Qed.
  Lemma title_valid fuel r : spanValid (fst (fst (parseLinkTitle fuel r))) = true -> ~ dead r.
  Proof.
    unfold parseLinkTitle, dead. destruct (current r) as [c r0] eqn:Ec. cbn [fst].
    destruct ((c =? 39) || (c =? 34) || (c =? 40)) eqn:Eq; cbn [negb]; [|cbn; discriminate].
    intros Hv. apply lt_loop_valid in Hv. replace r0 with (snd (current r)) in Hv by (rewrite Ec; reflexivity).
    rewrite next_current in Hv. unfold isq. rewrite Eq. intros [A|A]; congruence.
  Qed.

  Lemma dead_exhausted r r1 : next r = (false, r1) -> dead r1.
  Proof. intros E. right. eapply next_false_again. exact E. Qed.
  Lemma dead_cur r c r1 : current r = (c, r1) -> isq c = false -> dead r1.
  Proof. intros E Hc. left. replace r1 with (snd (current r)) by (rewrite E; reflexivity). rewrite fst_current_current, E. exact Hc. Qed.

  (* the <...> destination: with enough fuel, either a valid span or a reader on which no title can start *)
  Lemma ld_angle_res : forall f r start, PL r -> mu r < Z.of_nat f -> 0 <= start -> start <= r_pos r ->
    spanValid (fst (fst (ld_angle f r start))) = true \/ dead (snd (ld_angle f r start)).
  Proof.
    induction f as [|f IH]; intros r start H Hf H0 Hs; [f0 H|]. cbn [ld_angle].
    rstepP src.
    dok; [|right; cbn [snd]; eapply dead_exhausted; eassumption]. oktrue.
    rstepP src.
    match goal with |- context [(?c =? 13) || (?c =? 10)] => destruct ((c =? 13) || (c =? 10)) eqn:Enl end.
    { right. cbn [snd]. eapply dead_cur; [eassumption|]. unfold isq.
      apply orb_true_iff in Enl. destruct Enl as [E|E]; apply Z.eqb_eq in E; subst; reflexivity. }
    destruct (_ =? 92).
    - dok; [|right; cbn [snd]; eapply dead_exhausted; eassumption]. rstepP src.
      match goal with |- context [(?c =? 10) || (?c =? 13)] => destruct ((c =? 10) || (c =? 13)) eqn:Enl2 end.
      { right. cbn [snd]. eapply dead_cur; [eassumption|]. unfold isq.
        apply orb_true_iff in Enl2. destruct Enl2 as [E|E]; apply Z.eqb_eq in E; subst; reflexivity. }
      apply IH; [assumption|lia|lia|lia].
    - destruct (_ =? 62).
      + left. cbn [fst snd] in *. unfold spanValid. cbn [fst snd].
        apply andb_true_iff. split; [apply andb_true_iff; split|]; apply Z.leb_le; lia.
      + apply IH; [assumption|lia|lia|lia].
  Qed.

  Lemma notq_of c : (negb (isASCIIControl c) && negb (c =? 32) && negb (c =? 41)) = false -> (c =? 60) = false -> isq c = false.
  Proof.
    unfold isq, isASCIIControl. intros H _.
    destruct (Z.eqb_spec c 39) as [->|]; [cbn in H; discriminate|].
    destruct (Z.eqb_spec c 34) as [->|]; [cbn in H; discriminate|].
    destruct (Z.eqb_spec c 40) as [->|]; [cbn in H; discriminate|]. reflexivity.
  Qed.

  Lemma dest_res f r : PL r -> mu r < Z.of_nat f -> 0 <= r_pos r ->
    spanValid (fst (fst (parseLinkDestination f r))) = true \/ dead (snd (parseLinkDestination f r)).
  Proof.
    intros H Hf H0. unfold parseLinkDestination. rstep src.
    destruct (_ =? 60) eqn:E60; [apply ld_angle_res; [assumption|lia|lia|lia]|].
    destruct (_ && _ && _) eqn:Eb.
    - left. cbn [fst snd]. pose proof (ld_bare_prog src f r0 0 HP) as (_ & Hpos & _). unfold spanValid. cbn [fst snd].
      apply andb_true_iff. split; [apply andb_true_iff; split|]; apply Z.leb_le; lia.
    - right. cbn [snd]. eapply dead_cur; [eassumption|]. apply notq_of; assumption.
  Qed.

  (* ---- parseInlineLink does not depend on the fuel ---- *)
  Theorem parseInlineLink_fuel f1 f2 (st : ist) start : isrc st = src -> spW src (unpFrom st) = true ->
    len src + ibudget (unpFrom st) < Z.of_nat f1 -> len src + ibudget (unpFrom st) < Z.of_nat f2 ->
    parseInlineLink f1 st start = parseInlineLink f2 st start.
  Proof.
    intros Es Hw H1 H2. unfold parseInlineLink. rewrite Es.
    pose proof (PL_new src (unpFrom st) (start + 1) Hw) as HP0. pose proof (nu_new src (unpFrom st) (start + 1) Hw) as Hmu.
    set (r := newReader src (unpFrom st) (start + 1)) in *.
    rewrite (skipLinkSpace_fuel src f1 f2) by (assumption || lia).
    subp skipLinkSpace (skipLinkSpace_prog src). dok; [|reflexivity].
    rewrite (parseLinkDestination_fuel src f1 f2) by (assumption || lia).
    match goal with |- context [parseLinkDestination f2 ?x] =>
      pose proof (parseLinkDestination_prog src f2 x ltac:(assumption)) as (? & ? & ? & ?);
      destruct (parseLinkDestination f2 x) as [[ds dt] r2]; cbn [snd] in * end.
    assert (E3 : (if spanValid ds then skipLinkSpace f1 r2 else (true, r2)) = (if spanValid ds then skipLinkSpace f2 r2 else (true, r2))).
    { destruct (spanValid ds); [|reflexivity]. apply (skipLinkSpace_fuel src); [assumption|lia|lia]. }
    rewrite E3.
    assert (Hpg : prog r2 (snd (if spanValid ds then skipLinkSpace f2 r2 else (true, r2)))).
    { destruct (spanValid ds); [apply skipLinkSpace_prog; assumption|apply prog_refl; assumption]. }
    destruct Hpg as (? & ? & ? & ?).
    destruct (if spanValid ds then skipLinkSpace f2 r2 else (true, r2)) as [ok2 r3]. cbn [snd] in *. dok; [|reflexivity].
    rewrite (parseLinkTitle_fuel src f1 f2) by (assumption || lia).
    match goal with |- context [parseLinkTitle f2 ?x] =>
      pose proof (parseLinkTitle_prog src f2 x ltac:(assumption)) as (? & ? & ? & ?);
      destruct (parseLinkTitle f2 x) as [[ts tt] r4]; cbn [snd] in * end.
    assert (E5 : (if spanValid ts then skipLinkSpace f1 r4 else (true, r4)) = (if spanValid ts then skipLinkSpace f2 r4 else (true, r4))).
    { destruct (spanValid ts); [|reflexivity]. apply (skipLinkSpace_fuel src); [assumption|lia|lia]. }
    rewrite E5. reflexivity.
  Qed.

  (* ---- a valid title span implies a valid destination span, when the fuel exceeds the potential ---- *)
  Lemma pil_start f (st : ist) start res : parseInlineLink f st start = res -> spanValid (fst (fst res)) = true -> 0 <= start.
  Proof.
    unfold parseInlineLink. destruct (skipLinkSpace _ _) as [ok r1]. destruct ok; cbn [negb]; [|intros <-; cbn; discriminate].
    destruct (parseLinkDestination f r1) as [[ds dt] r2].
    destruct (if spanValid ds then skipLinkSpace f r2 else (true, r2)) as [ok2 r3]. destruct ok2; cbn [negb]; [|intros <-; cbn; discriminate].
    destruct (parseLinkTitle f r3) as [[ts tt] r4].
    destruct (if spanValid ts then skipLinkSpace f r4 else (true, r4)) as [ok3 r5]. destruct ok3; cbn [negb]; [|intros <-; cbn; discriminate].
    destruct (negb _); [intros <-; cbn; discriminate|]. intros <-. cbn [fst]. unfold spanValid. cbn [fst snd].
    intros H. apply andb_true_iff in H. destruct H as [H _]. apply andb_true_iff in H. destruct H as [H _]. apply Z.leb_le in H. exact H.
  Qed.

  Theorem parseInlineLink_titleDest f (st : ist) start ispan dspan dtext tspan ttext : isrc st = src -> spW src (unpFrom st) = true ->
    len src + ibudget (unpFrom st) < Z.of_nat f ->
    parseInlineLink f st start = (ispan, (dspan, dtext), (tspan, ttext)) ->
    spanValid ispan = true -> spanValid tspan = true -> spanValid dspan = true.
  Proof.
    intros Es Hw Hf E Hi Ht. pose proof (pil_start f st start _ E Hi) as Hstart. unfold parseInlineLink in E. rewrite Es in E.
    assert (Hnone : (nullSpan, (nullSpan, nullSpan), (nullSpan, nullSpan)) = (ispan, (dspan, dtext), (tspan, ttext)) -> spanValid dspan = true).
    { intros X. inversion X; subst. discriminate. }
    pose proof (PL_new src (unpFrom st) (start + 1) Hw) as HP0. pose proof (nu_new src (unpFrom st) (start + 1) Hw) as Hmu.
    assert (Hr : r_pos (newReader src (unpFrom st) (start + 1)) = start + 1) by reflexivity.
    set (r := newReader src (unpFrom st) (start + 1)) in *.
    revert E. subp skipLinkSpace (skipLinkSpace_prog src). dok; [|exact Hnone].
    match goal with |- context [parseLinkDestination f ?x] =>
      pose proof (parseLinkDestination_prog src f x ltac:(assumption)) as (? & ? & ? & ?);
      pose proof (dest_res f x ltac:(assumption) ltac:(lia) ltac:(lia)) as Hres;
      destruct (parseLinkDestination f x) as [[ds dt] r2]; cbn [fst snd] in * end.
    destruct (spanValid ds) eqn:Ed.
    { (* a destination was found: the result carries it *)
      destruct (skipLinkSpace f r2) as [ok2 r3]. dok; [|exact Hnone].
      destruct (parseLinkTitle f r3) as [[ts tt] r4].
      destruct (if spanValid ts then skipLinkSpace f r4 else (true, r4)) as [ok3 r5]. dok; [|exact Hnone].
      destruct (negb _); [exact Hnone|]. intros X. inversion X; subst. exact Ed. }
    (* no destination: the title scanner starts on a dead reader *)
    cbn [negb]. destruct Hres as [Hres|Hdead]; [discriminate|].
    pose proof (title_valid f r2) as Htv.
    destruct (parseLinkTitle f r2) as [[ts tt] r4]. cbn [fst] in Htv.
    destruct (if spanValid ts then skipLinkSpace f r4 else (true, r4)) as [ok3 r5]. dok; [|exact Hnone].
    destruct (negb _); [exact Hnone|]. intros X. inversion X; subst. exfalso. apply Htv; assumption.
  Qed.
End T.

(* ================================================================ GI6.titleNeedsDestFor
   Entries are fit for the model's reader fuel 2 * len src + 10 when they are sorted spans inside the source (spW) and the
   indentation columns they make the reader replay are at most len src + 9. *)
Definition entOK (src : bytes) (U : list inline) : bool := spW src U && (ibudget U <=? len src + 9).

Lemma entOK_parts src U : entOK src U = true -> spW src U = true /\ ibudget U <= len src + 9.
Proof. unfold entOK. intros H. apply andb_true_iff in H. destruct H as [A B]. apply Z.leb_le in B. tauto. Qed.

Lemma rfuel_enough src U (st : ist) : entOK src U = true -> isrc st = src -> unp st = U ->
  spW src (unpFrom st) = true /\ len src + ibudget (unpFrom st) < Z.of_nat (rfuelOf st).
Proof.
  intros H E1 E2. apply entOK_parts in H. destruct H as [A B]. unfold unpFrom. rewrite E2. split; [apply spW_from, A|].
  pose proof (ibudget_skipn (Z.to_nat (upos st)) U) as Hb. unfold from_. unfold rfuelOf. rewrite E1. unfold len in *. lia.
Qed.

Theorem titleNeedsDestFor_entOK src U : entOK src U = true -> titleNeedsDestFor src U.
Proof.
  intros H st start ispan dspan dtext tspan ttext Es Eu E Hi Ht.
  destruct (rfuel_enough src U st H Es Eu) as [Hw Hf].
  eapply (parseInlineLink_titleDest src); eassumption.
Qed.
Print Assumptions titleNeedsDestFor_entOK.

(* with the predicate of ShapesR / ShapesComp3 (T11's bikOK) *)
Corollary titleNeedsDestFor_spOK src U : spOK src U = true -> ibudget U <= len src + 9 -> titleNeedsDestFor src U.
Proof.
  intros H1 H2. apply titleNeedsDestFor_entOK. unfold entOK. rewrite (spOK_spW _ _ H1). apply Z.leb_le in H2. rewrite H2. reflexivity.
Qed.
