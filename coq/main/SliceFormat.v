(* SliceFormat.v -- property C20 (formatter round trip), clause 2, on text lines (T40 part C; adapted to the repaired formatter,
   format.go commit 1fffec0 / Fmt.v fmtText with the digit counter dg, leadingDigits and endsListMarker).

   For a text line t (SliceText.wfText: letters, digits, ASCII punctuation, single interior spaces) and L = esc t ++ [10]:

     formatDoc_text              : wfText t -> formatDoc L = fesc t ++ [10]
     C20_format_preserves_render : filterOn c = false -> wfText t -> renderDoc c (formatDoc L) = renderDoc c L
     C20_format_idempotent       : wfText t -> formatDoc (formatDoc L) = formatDoc L
   with NO side condition beyond wfText t (the former side condition markerFree is gone: it is now a lemma, part of fesc_head).

   fesc t = fescD 0 t is the formatter's own escaping as a function of the plain text: a backslash before  \ [ ] * _ - = < > & # ~ `
   anywhere, before a '+' that is the first byte of the line, and before a '.' / ')' that follows one to nine digits at the start
   of the line (the counter d of fescD: number of leading digits, -1 once a non-digit was seen).  On this slice the formatter's
   "followed by a blank or the end of the text" test (endsListMarker) is always true at those positions, because an escaped
   punctuation byte is a text node of its own (in L every punctuation byte is escaped; in fesc t the marker bytes are) -- so
   "1\.x" stays "1\.x" (harmless over-escaping), while '+', '.', ')' elsewhere are printed raw.
   ex_repaired_render / ex_repaired_idem: the former counterexamples "1. a" and "+" as regression examples.
   Route: SliceTok.parseInlines_gen / parseInlines_genM (exact node lists; the formatter's style needs MARKED text because its
   escaping is positional), SliceLine.parseBlocks_one_para2, chunkFmt / fmtChunks_spec (fmtText on one span; on the spans of a
   marked text whose flags cover the marker positions), leadingDigits_step (the counter over the previous siblings), fold_fmt
   (the writer), lm_digits_fesc (the formatter's spelling never starts with a list marker). *)
From Coq Require Import List ZArith Lia Bool.
Import ListNotations.
Require Import Base Tables Utf8 Tree Rdr Link Collect Html Recog LP Rules Starts Driver Inl3a Inl3b Inl3c Inl3d Inl3e Render Fmt Entry
  SliceBase SlicePara SliceText SliceTok SliceLine.
Open Scope Z_scope.

(* ---------------------------------------------------------------------------------------------- *)
(* 1. parseFull on a one-line paragraph of E-escaped text                                          *)
(* ---------------------------------------------------------------------------------------------- *)
Definition paraOf (e : Z) (nodes : list inline) : block := Blk ParagraphKind 0 e [] nodes 0 0 0 false false.

Lemma parseFull_one_para E t c r : E 32 = false -> okTextE E true t = true -> genEsc E t = c :: r ->
  noEolB (c :: r) -> noNul (c :: r) -> paraStart2 c = true -> c <> 91 -> snd (parseListMarker (genEsc E t ++ [10])) < 0 ->
  let X := genEsc E t ++ [10] in
  parseFull X = ([oneRoot X (paraOf (len X) (tokSpec E 0 0 t))], 0).
Proof.
  intros E32 Hok He Heol Hnul Hc H91 Hm X.
  assert (Hpb : parseBlocks X = ([oneRoot X (paraClosed 0 (len X) (len X))], 0)).
  { subst X. rewrite He in *. apply parseBlocks_one_para2; assumption. }
  unfold parseFull. rewrite Hpb.
  cbn [fold_left map oneRoot rb_blk rb_src rb_line rb_start rb_end].
  change (bheight (paraClosed 0 (len X) (len X))) with 1%nat.
  change (extractB 1 (paraClosed 0 (len X) (len X)) []) with (@nil bytes).
  cbn [rewriteB]. change ((0 <? len (bik (paraClosed 0 (len X) (len X)))) && hasUnparsed (paraClosed 0 (len X) (len X))) with true.
  cbv iota.
  rewrite (parseInlines_gen E E32 t [] X [] (paraClosed 0 (len X) (len X)) Hok eq_refl eq_refl).
  reflexivity.
Qed.

Lemma parseFull_one_paraM mt c r : okTextM true mt = true -> genEscM mt = c :: r ->
  noEolB (c :: r) -> noNul (c :: r) -> paraStart2 c = true -> c <> 91 -> snd (parseListMarker (genEscM mt ++ [10])) < 0 ->
  let X := genEscM mt ++ [10] in
  parseFull X = ([oneRoot X (paraOf (len X) (tokSpecM 0 0 mt))], 0).
Proof.
  intros Hok He Heol Hnul Hc H91 Hm X.
  assert (Hpb : parseBlocks X = ([oneRoot X (paraClosed 0 (len X) (len X))], 0)).
  { subst X. rewrite He in *. apply parseBlocks_one_para2; assumption. }
  unfold parseFull. rewrite Hpb.
  cbn [fold_left map oneRoot rb_blk rb_src rb_line rb_start rb_end].
  change (bheight (paraClosed 0 (len X) (len X))) with 1%nat.
  change (extractB 1 (paraClosed 0 (len X) (len X)) []) with (@nil bytes).
  cbn [rewriteB]. change ((0 <? len (bik (paraClosed 0 (len X) (len X)))) && hasUnparsed (paraClosed 0 (len X) (len X))) with true.
  cbv iota.
  rewrite (parseInlines_genM mt [] X [] (paraClosed 0 (len X) (len X)) Hok eq_refl eq_refl).
  reflexivity.
Qed.

(* ---------------------------------------------------------------------------------------------- *)
(* 2. the formatter's escaping, as a function of the plain text                                    *)
(* ---------------------------------------------------------------------------------------------- *)
Definition asciiText (l : bytes) : Prop := Forall (fun c => 32 <= c <= 126) l.
Definition isDig (c : Z) : bool := (48 <=? c) && (c <=? 57).
(* d = number of digits since the start of the line when the line so far consists of digits only, -1 otherwise *)
Definition nextD (d c : Z) : Z := if (0 <=? d) && (48 <=? c) && (c <=? 57) then d + 1 else -1.
Definition isMarkerAt (d c : Z) : bool := ((d =? 0) && (c =? 43)) || ((1 <=? d) && (d <=? 9) && ((c =? 46) || (c =? 41))).
Fixpoint fescD (d : Z) (t : bytes) : bytes :=
  match t with [] => [] | c :: r => (if needsEscape c || isMarkerAt d c then [92; c] else [c]) ++ fescD (nextD d c) r end.
Fixpoint dFlat (d : Z) (t : bytes) : Z := match t with [] => d | c :: r => dFlat (nextD d c) r end.
(* what the formatter writes for the text t of a line: a backslash before  \ [ ] * _ - = < > & # ~ `  , before a '+' that starts
   the line, and before a '.' / ')' that follows one to nine digits at the start of the line *)
Definition fesc (t : bytes) : bytes := fescD 0 t.

Lemma fescD_app : forall a b d, fescD d (a ++ b) = fescD d a ++ fescD (dFlat d a) b.
Proof. induction a as [|c r IH]; intros b d; [reflexivity|]. cbn [app fescD dFlat]. rewrite IH. rewrite <- app_assoc. reflexivity. Qed.
Lemma dFlat_app : forall a b d, dFlat d (a ++ b) = dFlat (dFlat d a) b.
Proof. induction a as [|c r IH]; intros b d; [reflexivity|]. cbn [app dFlat]. apply IH. Qed.

(* fmtText on one span, as a recursion over the bytes of the span *)
Fixpoint chunkFmt (d : Z) (s : bytes) : Z * bytes :=
  match s with
  | [] => (d, [])
  | c :: r =>
    let esc := needsEscape c || ((d =? 0) && (c =? 43) && endsListMarker r) ||
               ((1 <=? d) && (d <=? 9) && ((c =? 46) || (c =? 41)) && endsListMarker r) in
    let '(dE, out) := chunkFmt (nextD d c) r in (dE, (if esc then [92] else []) ++ [c] ++ out)
  end.

Lemma runes_chunk (s : bytes) : forall s' pre f d acc, s = pre ++ s' -> asciiText s' -> (length s' < f)%nat ->
  fold_left (fun (st : Z * bytes) (irw : Z * Z * Z) => let '(d, acc) := st in let '(ix, r, w) := irw in
         if (r =? 10) && false then (d, acc) else
         let rest := from_ s (ix + w) in
         let esc := needsEscape r || ((d =? 0) && (r =? 43) && endsListMarker rest) ||
                    ((1 <=? d) && (d <=? 9) && ((r =? 46) || (r =? 41)) && endsListMarker rest) in
         let d' := if (0 <=? d) && (48 <=? r) && (r <=? 57) then d + 1 else -1 in
         (d', acc ++ (if esc then [92] else []) ++ sub s ix (ix + w)))
       (runes f s' (len pre)) (d, acc) = (fst (chunkFmt d s'), acc ++ snd (chunkFmt d s')).
Proof.
  induction s' as [|c r IH]; intros pre f d acc Hs Ha Hf; (destruct f as [|f]; [cbn [length] in Hf; lia|]).
  - cbn [runes fold_left chunkFmt fst snd]. rewrite app_nil_r. reflexivity.
  - inversion Ha as [|? ? Hc Hr]; subst. cbn [runes]. unfold decodeRune at 1. destruct (Z.ltb_spec c 128); [|lia].
    change (1 <? 1) with false. cbv iota. change (from_ (c :: r) 1) with r. cbn [fold_left].
    rewrite andb_false_r. cbv zeta.
    assert (Hsub : sub (pre ++ c :: r) (len pre) (len pre + 1) = [c]).
    { change (c :: r) with ([c] ++ r). apply sl_sub_app'; [reflexivity|reflexivity]. }
    assert (Hfrom : from_ (pre ++ c :: r) (len pre + 1) = r).
    { replace (pre ++ c :: r) with ((pre ++ [c]) ++ r) by (rewrite <- app_assoc; reflexivity).
      replace (len pre + 1) with (len (pre ++ [c])) by (rewrite sl_len_app; reflexivity). apply sl_from_app_len. }
    rewrite Hsub, Hfrom.
    replace (len pre + 1) with (len (pre ++ [c])) by (rewrite sl_len_app; reflexivity).
    rewrite (IH (pre ++ [c]) f); [|rewrite <- app_assoc; reflexivity|exact Hr|cbn [length] in Hf; lia].
    cbn [chunkFmt]. unfold nextD. destruct (chunkFmt _ r) as [dE out]. cbn [fst snd]. rewrite <- !app_assoc. reflexivity.
Qed.

Lemma fmtText_chunk src dg i : asciiText (spanOf src i) -> fmtText src false dg i = snd (chunkFmt dg (spanOf src i)).
Proof.
  intros Ha. unfold fmtText. cbv zeta.
  pose proof (runes_chunk (spanOf src i) (spanOf src i) [] (S (length (spanOf src i))) dg [] eq_refl Ha ltac:(lia)) as H.
  change (len (@nil Z)) with 0 in H.
  transitivity (snd (fst (chunkFmt dg (spanOf src i)), [] ++ snd (chunkFmt dg (spanOf src i)))); [f_equal; exact H|reflexivity].
Qed.

(* ---- spans that contain no byte at a marker position, and single escaped bytes ---- *)
Fixpoint noMark (d : Z) (s : bytes) : bool :=
  match s with [] => true | c :: r => negb (isMarkerAt d c) && noMark (nextD d c) r end.
Lemma noMark_app : forall a b d, noMark d (a ++ b) = noMark d a && noMark (dFlat d a) b.
Proof. induction a as [|c r IH]; intros b d; [reflexivity|]. cbn [app noMark dFlat]. rewrite IH. rewrite andb_assoc. reflexivity. Qed.

Lemma chunkFmt_raw : forall s d, noMark d s = true -> chunkFmt d s = (dFlat d s, fescD d s).
Proof.
  induction s as [|c r IH]; intros d H; [reflexivity|]. cbn [noMark] in H. apply andb_true_iff in H. destruct H as [Hm Hr].
  apply negb_true_iff in Hm. cbn [chunkFmt fescD dFlat]. rewrite (IH _ Hr). rewrite Hm. unfold isMarkerAt in Hm.
  apply orb_false_iff in Hm. destruct Hm as [HA HB]. rewrite HA, HB. cbn [andb orb]. rewrite !orb_false_r.
  destruct (needsEscape c); reflexivity.
Qed.
Lemma chunkFmt_single d c : chunkFmt d [c] = (nextD d c, fescD d [c]).
Proof.
  cbn [chunkFmt fescD endsListMarker]. rewrite !andb_true_r. unfold isMarkerAt. rewrite <- orb_assoc.
  destruct (needsEscape c || ((d =? 0) && (c =? 43) || (1 <=? d) && (d <=? 9) && ((c =? 46) || (c =? 41)))); reflexivity.
Qed.

Fixpoint fmtChunks (d : Z) (cs : list bytes) : bytes :=
  match cs with [] => [] | s :: r => snd (chunkFmt d s) ++ fmtChunks (fst (chunkFmt d s)) r end.
Fixpoint dChunks (d : Z) (cs : list bytes) : Z := match cs with [] => d | s :: r => dChunks (fst (chunkFmt d s)) r end.
Lemma fmtChunks_app : forall a b d, fmtChunks d (a ++ b) = fmtChunks d a ++ fmtChunks (dChunks d a) b.
Proof. induction a as [|s r IH]; intros b d; [reflexivity|]. cbn [app fmtChunks dChunks]. rewrite IH. rewrite <- app_assoc. reflexivity. Qed.

Lemma fmt_chunk_mid d mid : noMark d mid = true -> fmtChunks d (chunk mid) = fescD d mid /\ dChunks d (chunk mid) = dFlat d mid.
Proof.
  intros H. destruct mid as [|x m]; [split; reflexivity|]. cbn [chunk fmtChunks dChunks]. rewrite (chunkFmt_raw _ d H). cbn [fst snd].
  rewrite app_nil_r. split; reflexivity.
Qed.

(* the flags of a marked text cover the marker positions: a raw byte is never at a marker position *)
Fixpoint cover (d : Z) (mt : list (Z * bool)) : bool :=
  match mt with [] => true | (c, b) :: r => (b || negb (isMarkerAt d c)) && cover (nextD d c) r end.

Lemma fmtChunks_spec : forall mt mid d, noMark d mid = true -> cover (dFlat d mid) mt = true ->
  fmtChunks d (chunksM mid mt) = fescD d (mid ++ plainOf mt).
Proof.
  induction mt as [|[c b] r IH]; intros mid d Hm Hc; cbn [chunksM plainOf map fst].
  - rewrite app_nil_r. apply (fmt_chunk_mid d mid Hm).
  - cbn [cover] in Hc. apply andb_true_iff in Hc. destruct Hc as [Hc1 Hc2]. destruct b.
    + destruct (fmt_chunk_mid d mid Hm) as [F1 D1]. rewrite fmtChunks_app, F1, D1.
      cbn [app fmtChunks]. rewrite chunkFmt_single. cbn [fst snd].
      rewrite (IH [] (nextD (dFlat d mid) c) eq_refl Hc2). symmetry. rewrite fescD_app. cbn [app fescD dFlat]. rewrite app_nil_r. reflexivity.
    + cbn [orb] in Hc1. rewrite (IH (mid ++ [c]) d).
      * rewrite <- app_assoc. reflexivity.
      * rewrite noMark_app, Hm. cbn [noMark andb]. rewrite Hc1. reflexivity.
      * rewrite dFlat_app. exact Hc2.
Qed.

(* ---- the digit counter: leadingDigits over the previous siblings = dFlat over their spans ---- *)
Definition allDig (s : bytes) : bool := forallb (fun c => (48 <=? c) && (c <=? 57)) s.
Lemma chunkFmt_fst : forall s d, fst (chunkFmt d s) = dFlat d s.
Proof. induction s as [|c r IH]; intros d; [reflexivity|]. cbn [chunkFmt dFlat]. specialize (IH (nextD d c)). destruct (chunkFmt (nextD d c) r). exact IH. Qed.
Lemma dFlat_neg : forall s, dFlat (-1) s = -1.
Proof. induction s as [|c r IH]; [reflexivity|]. cbn [dFlat]. exact IH. Qed.
Lemma dFlat_spec : forall s d, 0 <= d -> dFlat d s = if allDig s then d + len s else -1.
Proof.
  induction s as [|c r IH]; intros d Hd; [cbn [dFlat allDig forallb]; rewrite sl_len_nil; lia|].
  cbn [dFlat allDig forallb]. unfold nextD. destruct (Z.leb_spec 0 d); [|lia]. cbn [andb].
  destruct ((48 <=? c) && (c <=? 57)); cbn [andb].
  - rewrite IH by lia. fold (allDig r). destruct (allDig r); [rewrite sl_len_cons; lia|reflexivity].
  - apply dFlat_neg.
Qed.

Lemma leadingDigits_text X : forall prevs n, Forall isTextI prevs ->
  leadingDigits X prevs n = if forallb allDig (map (spanOf X) prevs) then n + len (concat (map (spanOf X) prevs)) else -1.
Proof.
  induction prevs as [|p r IH]; intros n H; [cbn [leadingDigits map forallb concat]; rewrite (@sl_len_nil Z); lia|].
  apply Forall_cons_iff in H. destruct H as [(s & e & ->) Hr]. cbn [leadingDigits mkI ikind map forallb concat].
  change ((TextKind =? SoftLineBreakKind) || (TextKind =? HardLineBreakKind)) with false. change (TextKind =? IndentKind) with false.
  change (TextKind =? TextKind) with true. cbv iota. fold (mkI TextKind s e). fold (allDig (spanOf X (mkI TextKind s e))).
  destruct (allDig (spanOf X (mkI TextKind s e))); [|reflexivity]. cbn [andb]. rewrite (IH _ Hr).
  destruct (forallb allDig (map (spanOf X) r)); [rewrite sl_len_app; lia|reflexivity].
Qed.
Lemma leadingDigits_step X prevs s e : Forall isTextI prevs ->
  leadingDigits X (mkI TextKind s e :: prevs) 0 = dFlat (leadingDigits X prevs 0) (spanOf X (mkI TextKind s e)).
Proof.
  intros H. rewrite (leadingDigits_text X (mkI TextKind s e :: prevs) 0) by (constructor; [eexists; eexists; reflexivity|exact H]).
  rewrite (leadingDigits_text X prevs 0 H). cbn [map forallb concat]. set (sp := spanOf X (mkI TextKind s e)).
  pose proof (sl_len_nonneg (concat (map (spanOf X) prevs))) as H0.
  destruct (forallb allDig (map (spanOf X) prevs)).
  - rewrite dFlat_spec by lia. rewrite andb_true_r. destruct (allDig sp); [rewrite sl_len_app; lia|reflexivity].
  - rewrite andb_false_r. rewrite dFlat_neg. reflexivity.
Qed.

Lemma chunkFmt_in : forall s d x, In x (snd (chunkFmt d s)) -> x = 92 \/ In x s.
Proof.
  induction s as [|c r IH]; intros d x H; [destruct H|]. cbn [chunkFmt] in H. specialize (IH (nextD d c) x).
  destruct (chunkFmt (nextD d c) r) as [dE out]. cbn [snd] in *.
  apply in_app_or in H. destruct H as [H|H].
  - destruct (needsEscape c || _ || _); [destruct H as [<-|[]]; left; reflexivity|destruct H].
  - cbn [app In] in H. destruct H as [<-|H]; [right; left; reflexivity|]. destruct (IH H) as [E|E]; [left; exact E|right; right; exact E].
Qed.
Lemma chunkFmt_nonempty s d : s <> [] -> snd (chunkFmt d s) <> [].
Proof.
  destruct s as [|c r]; [contradiction|]. intros _. cbn [chunkFmt]. destruct (chunkFmt (nextD d c) r) as [dE out]. cbn [snd].
  destruct (needsEscape c || _ || _); discriminate.
Qed.

(* ---------------------------------------------------------------------------------------------- *)
(* 3. the writer                                                                                   *)
(* ---------------------------------------------------------------------------------------------- *)
Lemma findEol10_none : forall s i, ~ In 10 s -> findEol10 s i = -1.
Proof.
  induction s as [|c r IH]; intros i H; [reflexivity|]. cbn [findEol10].
  destruct (Z.eqb_spec c 10) as [->|]; [exfalso; apply H; left; reflexivity|]. apply IH. intros Hin. apply H. right. exact Hin.
Qed.

(* the writer inside the paragraph: one (empty) indent pushed *)
Definition wIn (st hw : bool) (out : bytes) : fw := {| indents := [[]]; started := st; hasWritten := hw; fout := out |}.
Lemma ws_nolf st hw out s : ~ In 10 s -> s <> [] -> ws (wIn st hw out) s = wIn true true (out ++ s).
Proof.
  intros Hn Hne. unfold ws. cbn [fws_loop]. rewrite (findEol10_none s 0 Hn). change (-1 <? 0) with true. cbv iota.
  destruct (Z.eqb_spec (len s) 0) as [E|_]; [destruct s; [contradiction|rewrite sl_len_cons in E; pose proof (sl_len_nonneg s); lia]|].
  destruct st; cbn; [reflexivity|]. unfold fwSet, fwOut, wIn. cbn [indents started hasWritten fout]. rewrite app_nil_r. reflexivity.
Qed.
Lemma ws_nil w : ws w [] = w.
Proof. reflexivity. Qed.


Lemma fold_fmt X : forall nodes prevs st hw out, Forall isTextI nodes -> Forall isTextI prevs ->
  (forall i, In i nodes -> asciiText (spanOf X i)) ->
  fst (fold_left (fun (wp : fw * list inline) i => let '(w, prevs) := wp in
                    (fmtI (isize i) X ParagraphKind (leadingDigits X prevs 0) w i, i :: prevs)) nodes (wIn st hw out, prevs)) =
  match fmtChunks (leadingDigits X prevs 0) (map (spanOf X) nodes) with
  | [] => wIn st hw out
  | _ => wIn true true (out ++ fmtChunks (leadingDigits X prevs 0) (map (spanOf X) nodes))
  end.
Proof.
  induction nodes as [|i r IH]; intros prevs st hw out HT HP Ha; [reflexivity|].
  apply Forall_cons_iff in HT. destruct HT as [(s & e & ->) HTr]. cbn [fold_left map fmtChunks].
  set (nd := mkI TextKind s e). set (d := leadingDigits X prevs 0).
  assert (Hasc : asciiText (spanOf X nd)) by (apply Ha; left; reflexivity).
  assert (Hf : fmtI (isize nd) X ParagraphKind d (wIn st hw out) nd = ws (wIn st hw out) (snd (chunkFmt d (spanOf X nd)))).
  { unfold nd. cbn [mkI isize fold_right fmtI ikind]. change (TextKind =? LinkKind) with false. change (TextKind =? TextKind) with true. cbv iota.
    change (isCode ParagraphKind) with false. cbv iota. change (ParagraphKind =? SetextHeadingKind) with false.
    fold nd. rewrite (fmtText_chunk X d nd Hasc). reflexivity. }
  rewrite Hf.
  assert (Hd' : leadingDigits X (nd :: prevs) 0 = fst (chunkFmt d (spanOf X nd))).
  { rewrite chunkFmt_fst. apply leadingDigits_step. exact HP. }
  assert (HP' : Forall isTextI (nd :: prevs)) by (constructor; [eexists; eexists; reflexivity|exact HP]).
  assert (Ha' : forall j, In j r -> asciiText (spanOf X j)) by (intros j Hj; apply Ha; right; exact Hj).
  destruct (snd (chunkFmt d (spanOf X nd))) as [|x xs] eqn:Ex.
  - rewrite ws_nil. rewrite (IH (nd :: prevs) st hw out HTr HP' Ha'). rewrite Hd'. cbn [app]. reflexivity.
  - rewrite ws_nolf; [| |discriminate].
    + rewrite (IH (nd :: prevs) true true _ HTr HP' Ha'). rewrite Hd'. cbn [app].
      destruct (fmtChunks (fst (chunkFmt d (spanOf X nd))) (map (spanOf X) r)); [rewrite app_nil_r; reflexivity|]. rewrite <- app_assoc. reflexivity.
    + rewrite <- Ex. intros H10. apply chunkFmt_in in H10. destruct H10 as [H10|H10]; [lia|].
      unfold asciiText in Hasc. rewrite Forall_forall in Hasc. specialize (Hasc 10 H10). lia.
Qed.

Lemma span_in_spans X nodes i c : In i nodes -> In c (spanOf X i) -> In c (spansOf X nodes).
Proof. intros Hi Hc. unfold spansOf. apply in_flat_map. exists i. split; assumption. Qed.


(* formatter on a root that is one paragraph of text nodes given by a marked text whose flags cover the marker positions *)
Lemma formatDoc_paraM X e mt rest : parseFull X = ([oneRoot X (paraOf e (tokSpecM 0 0 mt))], 0) -> X = genEscM mt ++ rest ->
  cover 0 mt = true -> plainOf mt <> [] -> asciiText (plainOf mt) ->
  formatDoc X = fesc (plainOf mt) ++ [10].
Proof.
  intros Hpf HX Hcov Hne Ha. unfold formatDoc. rewrite Hpf. set (nodes := tokSpecM 0 0 mt) in *.
  cbn [fold_left oneRoot rb_blk rb_src fst]. change (bheight (paraOf e nodes)) with 1%nat.
  cbn [fmtB]. change (bkind (paraOf e nodes)) with ParagraphKind. change (ParagraphKind =? ParagraphKind) with true. cbv iota.
  change (0 <=? 0) with true. cbn [orb]. cbv iota.
  change (bkids (paraOf e nodes)) with (@nil block). change (bik (paraOf e nodes)) with nodes.
  change (push {| indents := []; started := false; hasWritten := false; fout := [] |} []) with (wIn false false []).
  assert (Hch : map (spanOf X) nodes = chunksM [] mt).
  { unfold nodes. apply (tokSpecM_chunks mt [] [] rest X). exact HX. }
  assert (Hasc : forall i, In i nodes -> asciiText (spanOf X i)).
  { intros i Hi. apply Forall_forall. intros c Hc.
    assert (Hin : In c (concat (map (spanOf X) nodes))) by (apply in_concat; exists (spanOf X i); split; [apply in_map; exact Hi|exact Hc]).
    rewrite Hch, concat_chunksM in Hin. cbn [app] in Hin. unfold asciiText in Ha. rewrite Forall_forall in Ha. apply Ha. exact Hin. }
  rewrite (fold_fmt X nodes [] false false [] (tokSpecM_isText mt 0 0) ltac:(constructor) Hasc).
  change (leadingDigits X [] 0) with 0. rewrite Hch. rewrite (fmtChunks_spec mt [] 0 eq_refl Hcov). cbn [app]. fold (fesc (plainOf mt)).
  destruct (fesc (plainOf mt)) as [|x xs] eqn:Ef.
  - exfalso. destruct (plainOf mt) as [|c r]; [contradiction|]. unfold fesc in Ef. cbn [fescD] in Ef. destruct (needsEscape c || isMarkerAt 0 c); discriminate Ef.
  - reflexivity.
Qed.

Lemma renderI_mkText c refs X s e : renderI (isize (mkI TextKind s e)) c refs X (mkI TextKind s e) = escapeHTML (spanOf X (mkI TextKind s e)).
Proof. reflexivity. Qed.
Lemma kidsI_texts c refs X nodes : Forall isTextI nodes ->
  flat_map (fun i => renderI (isize i) c refs X i) nodes = escapeHTML (spansOf X nodes).
Proof.
  induction 1 as [|i r Hi Hr IH]; [reflexivity|]. cbn [flat_map spansOf]. rewrite escapeHTML_app. fold (spansOf X r). rewrite <- IH.
  destruct Hi as (s & e & ->). rewrite renderI_mkText. reflexivity.
Qed.

Lemma renderDoc_para c X e nodes t : filterOn c = false ->
  parseFull X = ([oneRoot X (paraOf e nodes)], 0) -> Forall isTextI nodes -> spansOf X nodes = t ->
  renderDoc c X = [60; 112; 62] ++ escapeHTML t ++ [60; 47; 112; 62].
Proof.
  intros Hc Hpf HT Hsp. unfold renderDoc. rewrite Hpf.
  cbn [fold_left map oneRoot rb_blk rb_src]. change (bheight (paraOf e nodes)) with 1%nat.
  change (extractDefs 1 X (paraOf e nodes) []) with (@nil (bytes * linkDef)).
  cbn [joinBlocks renderB]. change (bkind (paraOf e nodes)) with ParagraphKind. change (bkids (paraOf e nodes)) with (@nil block).
  change (bik (paraOf e nodes)) with nodes. change (ParagraphKind =? ParagraphKind) with true. cbv iota.
  rewrite (kidsI_texts c [] X nodes HT), Hsp. rewrite (openTag_nf c _ Hc), (closeTag_nf c _ Hc). reflexivity.
Qed.


(* ---------------------------------------------------------------------------------------------- *)
(* 4. the two escaping styles                                                                      *)
(* ---------------------------------------------------------------------------------------------- *)
Lemma okText_ascii t p : okText p t = true -> asciiText t.
Proof. intros H. eapply Forall_impl; [|exact (okText_bytes t p H)]. intros c Hc. apply textByte_range. exact Hc. Qed.
Lemma okText_ne t : okText true t = true -> t <> [].
Proof. intros H E. subst t. discriminate H. Qed.

(* parseFull of the input style and of the formatter's style *)
Lemma parseFull_esc t : okText true t = true ->
  let X := esc t ++ [10] in parseFull X = ([oneRoot X (paraOf (len X) (tokSpec isASCIIPunctuation 0 0 t))], 0).
Proof.
  intros Hok. destruct (esc_head t Hok) as (c & r & He & Hc & H91 & Hm).
  pose proof (esc_bytes t (okText_bytes t true Hok)) as Hb.
  apply (parseFull_one_para isASCIIPunctuation t c r eq_refl (okText_punct t true Hok) He).
  - rewrite <- He. apply textBytes_noEol. exact Hb.
  - rewrite <- He. apply textBytes_noNul. exact Hb.
  - apply paraStartByte_2. exact Hc.
  - exact H91.
  - exact Hm.
Qed.

Lemma spans_esc E t : spansOf (genEsc E t ++ [10]) (tokSpec E 0 0 t) = t.
Proof. apply (tokSpec_spans E t [] [] [10]). reflexivity. Qed.


(* the input style as a marked text: every punctuation byte flagged *)
Lemma marker_punct d c : isMarkerAt d c = true -> isASCIIPunctuation c = true.
Proof.
  unfold isMarkerAt. intros H. apply orb_true_iff in H. destruct H as [H|H].
  - apply andb_true_iff in H. destruct H as [_ H]. apply Z.eqb_eq in H. subst c. reflexivity.
  - apply andb_true_iff in H. destruct H as [_ H]. apply orb_true_iff in H. destruct H as [H|H]; apply Z.eqb_eq in H; subst c; reflexivity.
Qed.
Lemma cover_punct : forall t d, cover d (markE isASCIIPunctuation t) = true.
Proof.
  induction t as [|c r IH]; intros d; [reflexivity|]. cbn [markE map cover]. fold (markE isASCIIPunctuation r). rewrite IH, andb_true_r.
  destruct (isASCIIPunctuation c) eqn:Ep; [reflexivity|]. cbn [orb]. destruct (isMarkerAt d c) eqn:Em; [|reflexivity].
  rewrite (marker_punct d c Em) in Ep. discriminate.
Qed.

(* the formatter's style as a marked text *)
Fixpoint markF (d : Z) (t : bytes) : list (Z * bool) :=
  match t with [] => [] | c :: r => (c, needsEscape c || isMarkerAt d c) :: markF (nextD d c) r end.
Lemma genEscM_markF : forall t d, genEscM (markF d t) = fescD d t.
Proof. induction t as [|c r IH]; intros d; [reflexivity|]. cbn [markF fescD]. rewrite <- IH. unfold genEscM. cbn [flat_map fst snd]. reflexivity. Qed.
Lemma plainOf_markF : forall t d, plainOf (markF d t) = t.
Proof. induction t as [|c r IH]; intros d; [reflexivity|]. cbn [markF plainOf map fst]. f_equal. apply IH. Qed.
Lemma cover_markF : forall t d, cover d (markF d t) = true.
Proof.
  induction t as [|c r IH]; intros d; [reflexivity|]. cbn [markF cover]. rewrite IH, andb_true_r.
  destruct (isMarkerAt d c); [rewrite orb_true_r; reflexivity|rewrite orb_true_r; reflexivity].
Qed.
Lemma marker_not32 d : isMarkerAt d 32 = false.
Proof. unfold isMarkerAt. change (32 =? 43) with false. change ((32 =? 46) || (32 =? 41)) with false. rewrite !andb_false_r. reflexivity. Qed.
Lemma okText_markF : forall t p d, okText p t = true -> okTextM p (markF d t) = true.
Proof.
  induction t as [|c r IH]; intros p d H; [exact H|]. cbn [okText markF okTextM] in *. destruct (Z.eqb_spec c 32) as [->|N32].
  - apply andb_true_iff in H. destruct H as [H1 H2]. rewrite marker_not32. change (needsEscape 32) with false. cbn [orb negb andb].
    rewrite H1, (IH true _ H2). reflexivity.
  - apply andb_true_iff in H. destruct H as [H1 H2]. rewrite (IH false _ H2), andb_true_r.
    destruct (needsEscape c) eqn:En; cbn [orb]; [apply needsEscape_punct; exact En|].
    destruct (isMarkerAt d c) eqn:Em; [apply (marker_punct d c Em)|].
    destruct (isASCIIPunctuation c) eqn:Ep; [apply punct_raw_ok; assumption|].
    rewrite orb_false_r in H1. unfold rawOK. rewrite (plain_inert c H1). reflexivity.
Qed.

Lemma fescD_bytes : forall t d, Forall (fun c => textByte c = true) t -> Forall (fun c => textByte c = true) (fescD d t).
Proof.
  induction t as [|c r IH]; intros d H; [constructor|]. apply Forall_cons_iff in H. destruct H as [Hc Hr]. cbn [fescD].
  destruct (needsEscape c || isMarkerAt d c).
  - cbn [app]. constructor; [reflexivity|]. constructor; [exact Hc|apply IH; exact Hr].
  - cbn [app]. constructor; [exact Hc|apply IH; exact Hr].
Qed.

Lemma lm_digits_fesc : forall t pre fuel n, 1 <= len pre -> lm_digits fuel (pre ++ fescD (len pre) t ++ [10]) (len pre) n = (0, 0, -1).
Proof.
  induction t as [|c r IH]; intros pre fuel n Hp; (destruct fuel as [|f]; [reflexivity|]); cbn [lm_digits].
  - destruct ((10 <=? len pre) || (len (pre ++ fescD (len pre) [] ++ [10]) <=? len pre)); [reflexivity|].
    cbn [fescD app]. rewrite sl_at_app_len. reflexivity.
  - destruct (Z.leb_spec 10 (len pre)) as [|H10]; [reflexivity|]. cbn [orb].
    destruct (len (pre ++ fescD (len pre) (c :: r) ++ [10]) <=? len pre); [reflexivity|]. cbn [fescD].
    destruct (needsEscape c || isMarkerAt (len pre) c) eqn:Ef.
    + cbn [app]. rewrite sl_at_app_len. reflexivity.
    + cbn [app]. rewrite sl_at_app_len. apply orb_false_iff in Ef. destruct Ef as [_ Em].
      destruct (isASCIIDigit c) eqn:Ed.
      * assert (En : nextD (len pre) c = len (pre ++ [c])).
        { unfold nextD. unfold isASCIIDigit in Ed. destruct (Z.leb_spec 0 (len pre)); [|lia]. cbn [andb]. rewrite Ed. rewrite sl_len_app. reflexivity. }
        rewrite En. replace (pre ++ c :: fescD (len (pre ++ [c])) r ++ [10]) with ((pre ++ [c]) ++ fescD (len (pre ++ [c])) r ++ [10])
          by (rewrite <- app_assoc; reflexivity).
        replace (len pre + 1) with (len (pre ++ [c])) by (rewrite sl_len_app; reflexivity).
        apply IH. rewrite sl_len_app. change (len [c]) with 1. lia.
      * unfold isMarkerAt in Em. apply orb_false_iff in Em. destruct Em as [_ Em].
        destruct (Z.leb_spec 1 (len pre)); [|lia]. destruct (Z.leb_spec (len pre) 9); [|lia]. cbn [andb] in Em. rewrite Em. reflexivity.
Qed.

Lemma fesc_head t : okText true t = true ->
  exists c r, fesc t = c :: r /\ paraStart2 c = true /\ c <> 91 /\ snd (parseListMarker (fesc t ++ [10])) < 0.
Proof.
  destruct t as [|c r]; [discriminate|]. cbn [okText]. destruct (Z.eqb_spec c 32) as [->|N32]; [discriminate|].
  intros H. apply andb_true_iff in H. destruct H as [Hcl _]. unfold fesc. cbn [fescD].
  destruct (needsEscape c || isMarkerAt 0 c) eqn:Ef.
  - cbn [app]. exists 92, (c :: fescD (nextD 0 c) r). split; [reflexivity|]. split; [reflexivity|]. split; [lia|]. cbn; lia.
  - cbn [app]. exists c, (fescD (nextD 0 c) r). split; [reflexivity|].
    apply orb_false_iff in Ef. destruct Ef as [En Em].
    pose proof (fun x Hx => needsEscape_ne c x En Hx) as Hne.
    assert (R : 33 <= c <= 126).
    { apply orb_true_iff in Hcl. destruct Hcl as [Hp|Hp]; [apply plainCh_range in Hp|apply punct_range in Hp]; lia. }
    assert (H43 : c <> 43).
    { intros ->. discriminate Em. }
    assert (c <> 62) by (apply Hne; cbn; tauto). assert (c <> 35) by (apply Hne; cbn; tauto).
    assert (c <> 96) by (apply Hne; cbn; tauto). assert (c <> 126) by (apply Hne; cbn; tauto).
    assert (c <> 60) by (apply Hne; cbn; tauto). assert (c <> 45) by (apply Hne; cbn; tauto).
    assert (c <> 95) by (apply Hne; cbn; tauto). assert (c <> 42) by (apply Hne; cbn; tauto).
    split; [|split; [apply Hne; cbn; tauto|]].
    + unfold paraStart2, isSpaceTabOrLineEnding. cbn [existsb].
      repeat match goal with |- context [c =? ?k] => destruct (Z.eqb_spec c k); [exfalso; lia|] end. reflexivity.
    + unfold parseListMarker.
      destruct (Z.eqb_spec c 45); [lia|]. destruct (Z.eqb_spec c 43); [lia|]. destruct (Z.eqb_spec c 42); [lia|]. cbn [orb].
      destruct (isASCIIDigit c) eqn:Ed; [|cbn; lia].
      assert (En1 : nextD 0 c = len [c]) by (unfold nextD; unfold isASCIIDigit in Ed; cbn [Z.leb Z.compare andb]; rewrite Ed; reflexivity).
      rewrite En1. change (c :: fescD (len [c]) r ++ [10]) with ([c] ++ fescD (len [c]) r ++ [10]). change 1 with (len [c]) at 1.
      rewrite lm_digits_fesc by (change (len [c]) with 1; lia). cbn; lia.
Qed.

Lemma parseFull_fesc t : okText true t = true ->
  let X := fesc t ++ [10] in parseFull X = ([oneRoot X (paraOf (len X) (tokSpecM 0 0 (markF 0 t)))], 0).
Proof.
  intros Hok. destruct (fesc_head t Hok) as (c & r & He & Hc & H91 & Hm).
  pose proof (fescD_bytes t 0 (okText_bytes t true Hok)) as Hb. fold (fesc t) in Hb.
  unfold fesc in *. rewrite <- (genEscM_markF t 0) in *.
  apply (parseFull_one_paraM (markF 0 t) c r (okText_markF t true 0 Hok) He).
  - rewrite <- He. apply textBytes_noEol. exact Hb.
  - rewrite <- He. apply textBytes_noNul. exact Hb.
  - exact Hc.
  - exact H91.
  - exact Hm.
Qed.

(* ---------------------------------------------------------------------------------------------- *)
(* 5. C20, clause 2, on text lines                                                                 *)
(* ---------------------------------------------------------------------------------------------- *)
Lemma spansOf_concat X nodes : spansOf X nodes = concat (map (spanOf X) nodes).
Proof. unfold spansOf. apply flat_map_concat_map. Qed.

(* what the formatter prints: the text re-escaped in its own style *)
Theorem formatDoc_text t : wfText t -> formatDoc (esc t ++ [10]) = fesc t ++ [10].
Proof.
  intros Hw. apply okText_iff_wfText in Hw.
  pose proof (parseFull_esc t Hw) as Hpf. cbv zeta in Hpf. rewrite (tokSpec_markE isASCIIPunctuation t 0 0) in Hpf.
  pose proof (formatDoc_paraM (esc t ++ [10]) _ (markE isASCIIPunctuation t) [10] Hpf) as H.
  rewrite (plainOf_markE isASCIIPunctuation t) in H. apply H.
  - rewrite <- genEsc_markE. reflexivity.
  - apply cover_punct.
  - apply okText_ne. exact Hw.
  - apply (okText_ascii t true Hw).
Qed.
Theorem formatDoc_fesc t : wfText t -> formatDoc (fesc t ++ [10]) = fesc t ++ [10].
Proof.
  intros Hw. apply okText_iff_wfText in Hw.
  pose proof (parseFull_fesc t Hw) as Hpf. cbv zeta in Hpf.
  pose proof (formatDoc_paraM (fesc t ++ [10]) _ (markF 0 t) [10] Hpf) as H.
  rewrite (plainOf_markF t 0) in H. apply H.
  - unfold fesc. rewrite genEscM_markF. reflexivity.
  - apply cover_markF.
  - apply okText_ne. exact Hw.
  - apply (okText_ascii t true Hw).
Qed.
Theorem renderDoc_fesc c t : filterOn c = false -> wfText t ->
  renderDoc c (fesc t ++ [10]) = [60; 112; 62] ++ escapeHTML t ++ [60; 47; 112; 62].
Proof.
  intros Hc Hw. apply okText_iff_wfText in Hw.
  pose proof (parseFull_fesc t Hw) as Hpf. cbv zeta in Hpf.
  apply (renderDoc_para c _ _ _ t Hc Hpf (tokSpecM_isText (markF 0 t) 0 0)).
  rewrite spansOf_concat.
  assert (HX : fesc t ++ [10] = [] ++ [] ++ genEscM (markF 0 t) ++ [10]) by (unfold fesc; rewrite genEscM_markF; reflexivity).
  pose proof (tokSpecM_chunks (markF 0 t) [] [] [10] (fesc t ++ [10]) HX) as Hch.
  change (len (@nil Z) + len (@nil Z)) with 0 in Hch. change (len (@nil Z)) with 0 in Hch. rewrite Hch.
  rewrite concat_chunksM. cbn [app]. apply plainOf_markF.
Qed.

(* C20, clause 2, on the slice: no side condition beyond wfText (after the repair of the formatter, commit 1fffec0) *)
Theorem C20_format_preserves_render c t : filterOn c = false -> wfText t ->
  renderDoc c (formatDoc (esc t ++ [10])) = renderDoc c (esc t ++ [10]).
Proof.
  intros Hc Hw. rewrite (formatDoc_text t Hw), (renderDoc_fesc c t Hc Hw). symmetry. apply C06_escaped_text_any_cfg; assumption.
Qed.
Theorem C20_format_idempotent t : wfText t ->
  formatDoc (formatDoc (esc t ++ [10])) = formatDoc (esc t ++ [10]).
Proof. intros Hw. rewrite (formatDoc_text t Hw). apply formatDoc_fesc; assumption. Qed.
Print Assumptions formatDoc_text.
Print Assumptions C20_format_preserves_render.
Print Assumptions C20_format_idempotent.

(* ---- examples (vm_compute) ---- *)
Definition ex_t : bytes := [72;105;33;32;50;46;53;32;42;120;42;32;60;38;62;32;91;97;93;40;98;41;32;92;32;35;43].   (* Hi! 2.5 *x* <&> [a](b) \ #+ *)
Example ex_wf : wfText ex_t. Proof. apply okText_iff_wfText; reflexivity. Qed.
Example ex_format : formatDoc (esc ex_t ++ [10]) = fesc ex_t ++ [10] /\
                    renderDoc c0 (formatDoc (esc ex_t ++ [10])) = renderDoc c0 (esc ex_t ++ [10]) /\
                    formatDoc (formatDoc (esc ex_t ++ [10])) = formatDoc (esc ex_t ++ [10]).
Proof. vm_compute. repeat split. Qed.
(* regression examples for the repaired formatter: before commit 1fffec0 the text lines "1. a" and "+" were printed as list items
   ("1. a" / "+"); now the marker-like prefix is escaped and both C20 equations hold on them *)
Example ex_repaired_render :
  formatDoc (esc [49;46;32;97] ++ [10]) = [49;92;46;32;97;10] /\                                  (* "1\. a" *)
  renderDoc c0 (formatDoc (esc [49;46;32;97] ++ [10])) = renderDoc c0 (esc [49;46;32;97] ++ [10]).
Proof. vm_compute. split; reflexivity. Qed.
Example ex_repaired_idem :
  formatDoc (esc [43] ++ [10]) = [92;43;10] /\                                                     (* "\+" *)
  formatDoc (formatDoc (esc [43] ++ [10])) = formatDoc (esc [43] ++ [10]).
Proof. vm_compute. split; reflexivity. Qed.
(* the escape is positional: "12) x" -> "12\) x", but ten digits are no marker, and '+' / '.' elsewhere stay raw *)
Example ex_positional :
  fesc [49;50;41;32;120] = [49;50;92;41;32;120] /\ fesc [49;50;51;52;53;54;55;56;57;48;46;32;120] = [49;50;51;52;53;54;55;56;57;48;46;32;120] /\
  fesc [97;43;32;98;46] = [97;43;32;98;46].
Proof. vm_compute. repeat split. Qed.
