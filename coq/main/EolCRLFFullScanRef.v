From Coq Require Import List ZArith Lia Bool.
Import ListNotations.
Require Import Base Tables Utf8 Tree Rdr Link Collect Html Recog Inl3a Inl3b Inl3c Inl3d Inl3e ShapesBase ShapesR IFBase IFLink IFCollect IFLabel
  EolCRLFDefs EolCRLFSimBytes EolCRLFSimStream
  EolGenCrlfRdrDefs EolGenCrlfRdrStep EolGenCrlfRdrNext EolGenCrlfRdrLink EolGenCrlfRdrColl EolGenCrlfRdrColl2 EolGenCrlfRdrTlr
  EolCRLFFullScanKind EolCRLFFullScanLabel EolCRLFFullScanShape.
Open Scope Z_scope.

(* (S3) assembled: the label of a full reference link.  parseEndBracket collects the text nodes of the label
   (collectTextNodes ... TextKind false) over the unparsed span list and normalises them with transformLinkReference;
   both steps commute with crlf when the span list satisfies SPI. *)
Section RefSim.
  Variable R : bytes.
  Variable Eb : Z.
  Hypothesis R13 : ~ In 13 R.
  Notation P := (phiP R).
  Notation R' := (crlf R).
  Notation F := (phiI R).
  Notation SPI := (SPI R Eb).

  Lemma SPI_indent S0 i : SPI S0 -> In i S0 -> ikind i = IndentKind -> iend i = istart i + 1 /\ at_ R (istart i) <> 10.
  Proof.
    intros (_ & _ & _ & C & _) Hi K. rewrite forallb_forall in C. specialize (C i Hi). unfold indOK1 in C. rewrite K in C.
    change (IndentKind =? IndentKind) with true in C. cbn [negb orb] in C. apply andb_true_iff in C. destruct C as [C1 C2].
    apply Z.eqb_eq in C1. apply negb_true_iff, Z.eqb_neq in C2. split; assumption.
  Qed.

  (* the collected nodes satisfy the hypotheses of transformLinkReference_sim *)
  Lemma collected_nodeOK f S0 p e : SPI S0 -> 0 <= p <= len R -> e <= len R -> len R + ibudget S0 < Z.of_nat f ->
    let nodes := collectTextNodes f (newReader R S0 p) e TextKind false in
    spW R nodes = true /\ ibudget nodes <= ibudget S0 /\ Forall (nodeOK R) nodes.
  Proof.
    intros G Hp He Hf. cbv zeta.
    assert (Hind : forall i, In i S0 -> ikind i = IndentKind -> iend i = istart i + 1) by (intros i Hi K; apply (SPI_indent S0 i G Hi K)).
    destruct (collectTextNodes_asc R S0 (proj1 G) Hind TextKind f p e Hp He Hf) as [A B].
    split; [exact A|]. split; [exact B|].
    pose proof (collectTextNodes_shape R S0 (proj1 G) Hind TextKind f p e Hp He Hf) as Sh.
    eapply Forall_impl; [|exact Sh]. intros u [[K L]|[Hi K]].
    - split; [left; exact K|]. split; [exact L|]. intros K2. rewrite K in K2. discriminate K2.
    - destruct (SPI_indent S0 u G Hi K) as [I1 I2]. split; [right; right; exact K|]. split; [lia|]. intros _. split; assumption.
  Qed.

  Theorem collected_label_sim f f' S0 p e : SPI S0 -> 0 <= p <= len R -> e <= len R ->
    len R + ibudget S0 < Z.of_nat f -> len R' + ibudget S0 < Z.of_nat f' ->
    collectTextNodes f' (newReader R' (map F S0) (P p)) (P e) TextKind false = map F (collectTextNodes f (newReader R S0 p) e TextKind false) /\
    transformLinkReference f' R' (collectTextNodes f' (newReader R' (map F S0) (P p)) (P e) TextKind false) =
    transformLinkReference f R (collectTextNodes f (newReader R S0 p) e TextKind false).
  Proof.
    intros G Hp He Hf Hf'.
    pose proof (RR_new R Eb S0 p G) as H.
    pose proof (nu_new R S0 p (proj1 G)) as M.
    pose proof (nu_new R' (map F S0) (P p) ltac:(apply (spW_F R), G)) as M'. rewrite ibudget_F in M'.
    pose proof (collectTextNodes_sim R Eb R13 f f' _ _ e TextKind false H ltac:(lia) ltac:(lia)) as Ec.
    split; [exact Ec|]. rewrite Ec.
    destruct (collected_nodeOK f S0 p e G Hp He Hf) as (A & B & C).
    apply (transformLinkReference_sim R R13); [exact A|exact C|lia|lia].
  Qed.
End RefSim.
Print Assumptions collected_label_sim.
