(* T63-F1, tokenizer level, part N: the text nodes of collectTextNodes (no escapes) are not empty. *)
From Coq Require Import List ZArith Lia Bool.
Import ListNotations.
Require Import Base Tables Utf8 Tree Rdr Link Collect Html Recog Inl3a Inl3b Inl3c Inl3d Driver Inl3e.
Require Import ShapesBase ShapesR IFBase IFLink IFCollect IFLabel IFTitle IFPe IFTokDef IFFrame IFTokAux IFTk5 Leaf3e IS5b IS8c.
Open Scope Z_scope.

(* ---------- the text nodes that collectTextNodes (no escapes) makes are not empty ---------- *)
Section NE.
  Variable src : bytes.
  Variable tk : Z.
  Definition neT (x : inline) : Prop := ikind x = IndentKind \/ istart x < iend x.
  Lemma collect_ne : forall f r e ps acc, PL src r -> ps <= r_pos r -> (ps < r_pos r -> ps <= r_prev r) -> Forall neT acc ->
    Forall neT (fst (collect_loop f r e tk false ps acc)).
  Proof.
    induction f as [|f IH]; intros r e ps acc HP H1 H2 Ha; [exact Ha|]. rewrite collect_noesc_S.
    destruct (e <=? r_pos r); [exact Ha|].
    pose proof (PL_curNode src r HP) as HP0. pose proof (curNode_fields r) as F. cbv zeta in F.
    destruct (curNode r) as [cn r0]. cbn [fst snd] in *. destruct F as (F1 & F2 & F3 & F4).
    destruct (Z.eqb_spec (okind cn) IndentKind) as [Ek|Ek].
    - pose proof (skipSameNode_prog src (S f) r0 (match cn with Some n => n | None => mkI 0 0 0 end) HP0) as (Q1 & _).
      apply IH; [exact Q1|lia|intros; lia|]. apply Forall_app. split.
      + destruct (Z.ltb_spec ps (r_pos r0)) as [Hl|Hl]; [|exact Ha]. apply Forall_app. split; [exact Ha|]. constructor; [|constructor].
        right. cbn [mkI istart iend]. rewrite F2, F4 in *. specialize (H2 Hl). lia.
      + constructor; [|constructor]. left. destruct cn as [n|]; [exact Ek|cbn in Ek; discriminate].
    - destruct (e <=? r_pos r0); [exact Ha|].
      destruct (next_W src r0 HP0) as (Q1 & Q2 & _). pose proof (next_prev r0) as [Q3 _].
      destruct (next r0) as [ok r1]. cbn [fst snd] in *. destruct ok; cbn [negb]; [|exact Ha]. specialize (Q3 eq_refl).
      destruct (jumped r1).
      + apply IH; [exact Q1|lia|intros; lia|]. destruct (Z.leb_spec ps (r_prev r1)) as [Hl|Hl]; [|exact Ha].
        apply Forall_app. split; [exact Ha|]. constructor; [|constructor]. right. cbn [mkI istart iend]. lia.
      + apply IH; [exact Q1|lia|intros; lia|exact Ha].
  Qed.
  Lemma collectTextNodes_ne f r e : PL src r -> Forall neT (collectTextNodes f r e tk false).
  Proof.
    intros HP. unfold collectTextNodes. pose proof (collect_ne f r e (r_pos r) [] HP ltac:(lia) ltac:(lia) (Forall_nil _)) as H.
    destruct (collect_loop f r e tk false (r_pos r) []) as [acc ps]. cbn [fst] in H.
    destruct (Z.ltb_spec ps e) as [Hl|Hl]; [|exact H]. apply Forall_app. split; [exact H|]. constructor; [|constructor]. right. cbn [mkI istart iend]. exact Hl.
  Qed.
End NE.
