(* T63-F1 (D2).  Copy of En3LP6.v over the invariant EolFinalFullHbE4Tree.en = En3Tree.en plus one clause (lastX): the last entry of a
   PARAGRAPH holds a byte that is not space / tab / line ending, and once the paragraph is closed it ends at the end of the block.
   Changes w.r.t. En3LP6.v: module names; the places that build or use that clause; closing lemmas take "a paragraph is open -> e = lineStart". *)
From Coq Require Import List ZArith Lia Bool.
Import ListNotations.
Require Import Base Tree Rdr Link Collect Html Recog LP Rules Starts Driver L2Kind L2CC BSDef BSRdr BSTree BSOcp BSOrph BSClose BSLine1 BSLine2 BSLine3 BSLine4 BSLine5 BSLine7 BSLine8 BSLine9
  GramTree GramLP GramLP2 Cursor CursorX NoPanic12 ShDef ShRdr ShClose ShEnv ShLine1 ShLine2 ShFresh ShStarts2.
Require Import ShapesBase EntBase EntOcpDefs EntOcp EolFinalFullHbE4Tree EntCur EolFinalFullHbE4Par EolFinalFullHbE4LP1 EolFinalFullHbE4LP2 EolFinalFullHbE4LP3 EolFinalFullHbE4LP4 EolFinalFullHbE4LP5.
Open Scope Z_scope.

(* En3* (T46), differences from En2LP6: a successful block start leaves no open paragraph (startOKe), so the opening loop either
   keeps tree and container or ends without an open paragraph; deferredClose closes the unmatched blocks only when the byte
   at the line start is not ')' (a blank rest after a clean prefix, or no paragraph at the tip); at the end of the input the
   whole tree is closed at len B. *)

(* ================================================================================================
   T28, part 9: openNewBlocks.  FIN is what addLineText needs when it appends a line to an existing paragraph:
   the rest of the line is not blank and only prefix bytes were consumed before it.
   ================================================================================================ *)
Definition FIN (p : lp) : Prop := containerKind p = ParagraphKind -> isRestBlank p = false /\ clean p.

Lemma blockStarts_oke B : Forall (startOKe B) blockStarts.
Proof.
  unfold blockStarts.
  apply Forall_cons; [apply sOKe_startBlockQuote|]. apply Forall_cons; [apply sOKe_startATX|]. apply Forall_cons; [apply sOKe_startFenced|].
  apply Forall_cons; [apply sOKe_startHTML|]. apply Forall_cons; [apply sOKe_startSetext|]. apply Forall_cons; [apply sOKe_startThematic|].
  apply Forall_cons; [apply sOKe_startListItem|]. apply Forall_cons; [apply sOKe_startIndented|]. apply Forall_nil.
Qed.

Lemma tryStarts_ent B : forall fs p, Forall (startOKe B) fs -> EP B p -> Rr p -> FIN p ->
  EP B (snd (tryStarts fs p)) /\
  (fst (tryStarts fs p) = false -> Rr (snd (tryStarts fs p)) /\ FIN (snd (tryStarts fs p)) /\ (NPc p -> NPc (snd (tryStarts fs p)))) /\
  (fst (tryStarts fs p) = true ->
     (state (snd (tryStarts fs p)) = stLineConsumed \/ Rr (snd (tryStarts fs p))) /\ containerKind (snd (tryStarts fs p)) <> ParagraphKind /\
     ~ ppT (root (snd (tryStarts fs p)))).
Proof.
  induction fs as [|f r IH]; intros p Hf HE HR HF.
  { cbn [tryStarts fst snd]. split; [exact HE|]. split; [tauto|discriminate]. }
  inversion Hf as [|? ? Hf1 Hfr]; subst. cbn [tryStarts]. cbv zeta.
  set (q := withState p stOpening).
  assert (Hq : EP B q) by (apply EP_withState, HE).
  assert (Rq : Rr q) by exact HR. assert (Fq : FIN q) by exact HF. assert (Sq : st_open q) by (left; reflexivity).
  destruct (Hf1 q Hq Sq Rq) as [Eid|(S1 & S2 & S3 & S4 & S5)].
  - rewrite Eid. change (state q) with stOpening. cbn [Z.eqb orb]. apply (IH q); assumption.
  - replace ((state (f q) =? stOpenMatched) || (state (f q) =? stLineConsumed)) with true
      by (destruct S4 as [E|E]; rewrite E; reflexivity).
    cbn [fst snd]. split; [exact S1|]. split; [discriminate|]. intros _. split; [exact S2|split; assumption].
Qed.

Lemma opening_loop_ent B : forall fuel p, EP B p -> Rr p -> FIN p ->
  EP B (snd (opening_loop fuel p)) /\
  (fst (opening_loop fuel p) = true -> Rr (snd (opening_loop fuel p)) /\ FIN (snd (opening_loop fuel p)) /\ (NPc p -> NPc (snd (opening_loop fuel p)))) /\
  (fst (opening_loop fuel p) = false -> ~ ppT (root (snd (opening_loop fuel p)))).
Proof.
  induction fuel as [|f IH]; intros p HE HR HF; [cbn [opening_loop fst snd]; split; [exact HE|split; [tauto|discriminate]]|]. cbn [opening_loop].
  destruct (_ || _); [|cbn [fst snd]; split; [exact HE|split; [tauto|discriminate]]].
  destruct (tryStarts_ent B blockStarts p (blockStarts_oke B) HE HR HF) as (T1 & T2 & T3).
  destruct (tryStarts blockStarts p) as [[|] p1]; cbn [fst snd] in *.
  - destruct (T3 eq_refl) as (T4 & T5 & T6).
    destruct (Z.eqb_spec (state p1) stLineConsumed) as [E|N]; [cbn [fst snd]; split; [exact T1|split; [discriminate|intros _; exact T6]]|].
    destruct (IH p1 T1) as (I1 & I2 & I3); [destruct T4 as [T4|T4]; [contradiction|exact T4]|intros Ek; contradiction|].
    split; [exact I1|split; [|exact I3]]. intros Et. destruct (I2 Et) as (J1 & J2 & J3). split; [exact J1|split; [exact J2|]].
    intros _. apply J3. intros _. exact T6.
  - split; [exact T1|split; [intros _; apply T2; reflexivity|discriminate]].
Qed.

(* the byte at the start of a line whose rest is blank *)
Lemma nb41_blank B p : envB B p -> curP p -> clean p -> 0 < len (line p) -> isRestBlank p = true -> nb41 B (lineStart p).
Proof.
  intros He (H0 & Hc) Hcl Hl Hb. right.
  assert (E0 : at_ B (lineStart p) = at_ (line p) 0) by (rewrite (line_at B p 0 He) by lia; f_equal; lia).
  rewrite E0. destruct (Z.eq_dec (li p) 0) as [Z0|NZ]; [|pose proof (Hcl 0 ltac:(lia)) as X; unfold gapB in X; lia].
  assert (Hr : len (rest p) = len (line p) - li p) by (apply len_rest; lia).
  pose proof (rest_at p 0 ltac:(lia) ltac:(lia)) as Ha. rewrite Z0 in Ha. change (0 + 0) with 0 in Ha. rewrite <- Ha.
  unfold isRestBlank in Hb. destruct (rest p) as [|c r]; [cbn in Hr; lia|]. change (at_ (c :: r) 0) with c.
  cbn [isBlankLine forallb] in Hb. apply andb_true_iff in Hb. destruct Hb as [Hb _]. unfold isSpaceTabOrLineEnding in Hb.
  intros E. subst c. discriminate.
Qed.

Lemma cont_para_ppT B p : EP B p -> containerKind p = ParagraphKind -> ppT (root p).
Proof.
  intros (_ & _ & A2 & (_ & ASO) & _) Ek. pose proof A2 as (_ & _ & (x & Hx)). exists (cdepth p), x. split; [exact Hx|]. split; [|exact ASO].
  rewrite <- Ek. symmetry. apply containerKind_at. exact Hx.
Qed.

Lemma kidsClosed_child p : ccP p -> kidsClosed p -> forall c, getAt (S (cdepth p)) (root p) = Some c -> 0 <= bend c.
Proof.
  intros (_ & _ & (x & Hx)) Hk c Hc. rewrite getAt_S_last, Hx in Hc. specialize (Hk x Hx).
  exact (allP_In _ _ _ Hk (lastBlock_In _ _ Hc)).
Qed.

Lemma deferredClose_ent B p : EP B p -> Rr p -> FIN p -> 0 < len (line p) ->
  EP B (deferredClose p) /\ FIN (deferredClose p) /\ NPc (deferredClose p) /\ (ppT (root (deferredClose p)) -> ppT (root p)).
Proof.
  intros HE HR HF Hlen. pose proof HE as (A & A1 & A2 & (A3 & ASO) & A4).
  assert (Ro : bend (root p) < 0) by (apply (ASO O (root p)); [lia|reflexivity]).
  unfold deferredClose. cbv zeta.
  set (tipD := tipDepth (bheight (root p)) (root p)).
  destruct (negb (isRestBlank p) && match getAt tipD (root p) with Some t => bkind t =? ParagraphKind | None => false end) eqn:Ec.
  - apply andb_true_iff in Ec. destruct Ec as [Eb Ec]. destruct (getAt tipD (root p)) as [t|] eqn:Et; [|discriminate]. apply Z.eqb_eq in Ec.
    apply negb_true_iff in Eb.
    assert (Hot : openTo tipD (root p)) by (intros j x Hj Ex; apply (tip_open (bheight (root p)) (root p) Ro j x Hj Ex)).
    split; [apply EP_withCont; [exact HE|eauto|exact Hot]|]. split; [|split; [|tauto]].
    + intros _. split; [exact Eb|]. change (clean p). apply HR. exists tipD, t. split; [exact Et|]. split; [exact Ec|exact Hot].
    + intros Hk. exfalso. apply Hk. unfold containerKind, contBlock. change (cdepth (withCont p (Some tipD))) with tipD.
      change (root (withCont p (Some tipD))) with (root p). rewrite Et. exact Ec.
  - assert (Htp : TP B p).
    { intros Hp. apply andb_false_iff in Ec. destruct Ec as [Ec|Ec].
      - apply negb_false_iff in Ec. apply nb41_blank; [exact A|exact A1|apply HR, Hp|exact Hlen|exact Ec].
      - exfalso. destruct Hp as (d & x & Ex & Kx & Ho). destruct A2 as (_ & Hcc & _).
        destruct (ppT_tip d (root p) x (bheight (root p)) Ex Kx Ho Hcc ltac:(lia)) as (t & Et & Kt). fold tipD in Et. rewrite Et, Kt in Ec. discriminate. }
    assert (Hb : lineStart p <= lineStart p <= lineStart p + len (line p)) by lia.
    destruct (EP_closeHere B p (lineStart p) HE Htp ltac:(intros; reflexivity) Hb (bdy_ls B p A)) as [H1 H2]. split; [exact H1|].
    split; [unfold FIN; rewrite containerKind_closeHere; exact HF|]. split; [|exact H2].
    intros Hk. apply noPara; [apply H1|exact Hk|]. intros c Hc. left.
    apply (kidsClosed_child _ ltac:(apply H1) (kidsClosed_closeHere B p (lineStart p) HE Htp ltac:(intros; reflexivity) Hb (bdy_ls B p A)) c Hc).
Qed.

Lemma ls_eof B p : envB B p -> len (line p) = 0 -> lineStart p = len B.
Proof. intros (_ & _ & _ & _ & _ & (_ & _ & _ & _ & [E|[E _]])) Hl; lia. Qed.

Lemma en_root_close B p : EP B p -> len (line p) = 0 ->
  en B (lineStart p) (match closeBlock (bheight (root p)) (source p) (root p) (lineStart p) with b :: _ => b | [] => root p end) /\
  ~ ppT (match closeBlock (bheight (root p)) (source p) (root p) (lineStart p) with b :: _ => b | [] => root p end).
Proof.
  intros (A & (A0 & _) & (_ & Hcc & _) & _ & A4) Hl. destruct (src_of B p A) as (S1 & S2 & S3).
  pose proof (en_closeBlock B (lineStart p) (lineStart p + len (line p)) (source p) (lineStart p) S1 S2
                ltac:(lia) ltac:(lia) (bdy_ls B p A) (bdy_H B p A) (bheight (root p)) (root p) ltac:(lia) Hcc A4
                ltac:(intros _; split; [left; rewrite (ls_eof B p A Hl); lia|reflexivity])) as [H1 H2].
  pose proof (closeBlock_nonnil (source p) (lineStart p) (bheight (root p)) (root p)) as Hne.
  destruct (closeBlock _ _ _ _) as [|b r]; [contradiction|]. split; [apply H1|].
  intros (d & x & Ex & Kx & Ho). destruct H2 as [H2 _]. cbn beta in H2. pose proof (Ho O b ltac:(lia) eq_refl). lia.
Qed.

(* the tree after openNewBlocks satisfies the invariant; when text remains, EP, FIN and NPc hold; when no text remains, no paragraph is open *)
Lemma openNewBlocks_ent B p am : EP B p -> clean p -> paraNB p -> (am = true -> NPc p) ->
  en B (lineStart p) (root (snd (openNewBlocks p am))) /\
  (fst (openNewBlocks p am) = true -> EP B (snd (openNewBlocks p am)) /\ FIN (snd (openNewBlocks p am)) /\ NPc (snd (openNewBlocks p am))) /\
  (fst (openNewBlocks p am) = false -> ~ ppT (root (snd (openNewBlocks p am)))).
Proof.
  intros HE Hcl Hnb Hnp. unfold openNewBlocks. destruct (Z.eqb_spec (len (line p)) 0) as [E0|N0].
  { cbn [fst snd root withCont withRoot setLP]. destruct (en_root_close B p HE E0) as [X1 X2]. split; [exact X1|split; [discriminate|intros _; exact X2]]. }
  assert (Hlen : 0 < len (line p)) by (pose proof (len_nonneg (line p)); lia).
  assert (HR : Rr p) by (intros _; exact Hcl).
  assert (HF : FIN p) by (intros Ek; split; [apply Hnb, Ek|exact Hcl]).
  destruct (opening_loop_ent B (S (length (line p))) p HE HR HF) as (O1 & O2 & O3).
  pose proof (env_opening_loop (S (length (line p))) p) as Ee.
  destruct (opening_loop (S (length (line p))) p) as [ht p1]. cbn [fst snd] in *.
  destruct (env_parts _ _ Ee) as (_ & E1 & E1').
  destruct am; cbn [fst snd].
  - split; [rewrite <- E1; apply O1|]. split; [|exact O3]. intros Et. destruct (O2 Et) as (J1 & J2 & J3). split; [exact O1|split; [exact J2|apply J3, Hnp; reflexivity]].
  - assert (Els : lineStart (deferredClose p1) = lineStart p1) by (destruct (env_parts _ _ (env_deferredClose p1)) as (_ & E & _); exact E).
    destruct ht.
    + destruct (O2 eq_refl) as (J1 & J2 & _). destruct (deferredClose_ent B p1 O1 J1 J2 ltac:(rewrite E1'; exact Hlen)) as (D1 & D2 & D3 & _).
      split; [rewrite <- E1, <- Els; apply D1|]. split; [intros _; tauto|discriminate].
    + pose proof (O3 eq_refl) as N1.
      destruct (deferredClose_ent B p1 O1 (Rr_noPara p1 N1) ltac:(intros Ek; exfalso; apply N1; apply (cont_para_ppT B p1 O1 Ek)) ltac:(rewrite E1'; exact Hlen)) as (D1 & _ & _ & D4).
      split; [rewrite <- E1, <- Els; apply D1|]. split; [discriminate|]. intros _ X. apply N1, D4, X.
Qed.
