(* T63-F1, tokenizer level, part A: the state of run 2 as a function of the state of run 1.
   rt src' U' re' st : the state st with the source, the entry list and the root end replaced.  Every operation of the inline
   parser that does not read the source commutes with rt; the only place where rootEnd is read (wrap with no end node, in
   parseEndBracket) is always followed by a setSpan on the new node, which erases the difference. *)
From Coq Require Import List ZArith Lia Bool.
Import ListNotations.
Require Import Base Tables Utf8 Tree Rdr Link Collect Html Recog Inl3a Inl3b Inl3c Inl3d Driver Inl3e.
Require Import IFPe IFTokDef IFTk5.
Open Scope Z_scope.

Definition rt (src' : bytes) (U' : list inline) (re' : Z) (st : ist) : ist :=
  {| rk := rk st; isrc := src'; unp := U'; upos := upos st; stk := stk st; ign := ign st; nid := nid st; rootEnd := re'; matcher := matcher st |}.

Section RT.
Variables (src' : bytes) (U' : list inline) (re' : Z).
Local Notation rt := (rt src' U' re').

Lemma rt_setRk st v : rt (setRk st v) = setRk (rt st) v. Proof. reflexivity. Qed.
Lemma rt_setStk st v : rt (setStk st v) = setStk (rt st) v. Proof. reflexivity. Qed.
Lemma rt_setIgn st v : rt (setIgn st v) = setIgn (rt st) v. Proof. reflexivity. Qed.
Lemma rt_setUpos st v : rt (setUpos st v) = setUpos (rt st) v. Proof. reflexivity. Qed.
Lemma rt_addNode st k s e ks : addNode (rt st) k s e ks = (rt (fst (addNode st k s e ks)), snd (addNode st k s e ks)).
Proof. unfold addNode. destruct (spanLen s e =? 0); reflexivity. Qed.
Lemma rt_addText st s e : addText (rt st) s e = rt (addText st s e).
Proof. unfold addText. rewrite rt_addNode. reflexivity. Qed.
Lemma rt_updN st id g : updN (rt st) id g = rt (updN st id g). Proof. reflexivity. Qed.
Lemma rt_removeNode st id : removeNode (rt st) id = rt (removeNode st id). Proof. reflexivity. Qed.
Lemma rt_appendKid st id k : appendKid (rt st) id k = rt (appendKid st id k). Proof. reflexivity. Qed.
Lemma rt_nodeOf st id : nodeOf (rt st) id = nodeOf st id. Proof. reflexivity. Qed.
Lemma rt_matchRef st l : matchRef (rt st) l = matchRef st l. Proof. reflexivity. Qed.
Lemma stk_rt st : stk (rt st) = stk st. Proof. reflexivity. Qed.
Lemma rt_lfl : forall f st i, lfl f (rt st) i = (rt (fst (lfl f st i)), snd (lfl f st i)).
Proof.
  induction f as [|f IH]; intros st i; [reflexivity|]. cbn [lfl]. destruct (i <? 0); [reflexivity|].
  change (stk (rt st)) with (stk st). destruct (_ || _); [|apply IH]. destruct (negb _); reflexivity.
Qed.
Lemma rt_lookFor st : lookForLinkOrImage (rt st) = (rt (fst (lookForLinkOrImage st)), snd (lookForLinkOrImage st)).
Proof. unfold lookForLinkOrImage. change (stk (rt st)) with (stk st). apply rt_lfl. Qed.

(* with an end start given, the parent end is not used *)
Lemma wrapLevel_Some newId kind sId eId v E1 E2 l : wrapLevel newId kind sId eId (Some v) E1 l = wrapLevel newId kind sId eId (Some v) E2 l.
Proof. reflexivity. Qed.
Lemma wrapIn_Some newId kind sId eId v : forall f E1 E2 l, wrapIn f newId kind sId eId (Some v) E1 l = wrapIn f newId kind sId eId (Some v) E2 l.
Proof.
  induction f as [|f IH]; intros E1 E2 l; [reflexivity|]. cbn [wrapIn]. destruct (hasId sId l); reflexivity.
Qed.
Lemma rt_wrap_Some st kind sId c : wrap (rt st) kind sId (Some c) = (rt (fst (wrap st kind sId (Some c))), snd (wrap st kind sId (Some c))).
Proof.
  unfold wrap. cbn [fst snd]. change (rk (rt st)) with (rk st). change (nid (rt st)) with (nid st). change (rootEnd (rt st)) with re'.
  change (nodeOf (rt st) c) with (nodeOf st c).
  rewrite (wrapIn_Some (nid st) kind sId (Some c) (ps (nodeOf st c)) (fsize (rk st)) re' (rootEnd st) (rk st)). reflexivity.
Qed.

(* processEmphasis reads only the forest, the stack and the next identity *)
Lemma rt_pe_loop : forall f st ob cp, pe_loop f (rt st) ob cp = rt (pe_loop f st ob cp).
Proof.
  induction f as [|f IH]; intros st ob cp; [reflexivity|]. cbn [pe_loop]. change (stk (rt st)) with (stk st).
  set (cp1 := pe_findCloser (S (length (stk st))) (stk st) cp). destruct (cp1 <? 0); [reflexivity|].
  set (c := nthD (stk st) cp1). set (lo := getOB ob (obIndex c)). set (oi := pe_findOpener (S (length (stk st))) (stk st) (cp1 - 1) lo c).
  destruct (lo <=? oi).
  - set (o := nthD (stk st) oi). rewrite !rt_nodeOf.
    set (strong := (2 <=? plen (nodeOf st (d_node o))) && (2 <=? plen (nodeOf st (d_node c)))).
    set (k := if strong then 2 else 1).
    rewrite !rt_updN. rewrite rt_wrap_Some.
    destruct (wrap (updN (updN st (d_node o) (fun n => setSpan n (ps n) (pe n - k))) (d_node c) (fun n => setSpan n (ps n + k) (pe n)))
                (if strong then StrongKind else EmphasisKind) (d_node o) (Some (d_node c))) as [st3 id3].
    cbn [fst snd]. rewrite !stk_rt. rewrite <- rt_setStk. rewrite rt_nodeOf.
    destruct (plen (nodeOf (setStk st3 (delStack (stk st3) (oi + 1) cp1)) (d_node o)) =? 0).
    + rewrite rt_removeNode, !stk_rt, <- rt_setStk. rewrite rt_nodeOf, !stk_rt.
      match goal with |- context [setStk (removeNode ?a ?b) ?d] => set (st5 := setStk (removeNode a b) d) end.
      destruct (plen (nodeOf st5 (d_node c)) =? 0).
      * rewrite rt_removeNode, <- rt_setStk. apply IH.
      * apply IH.
    + match goal with |- context [setStk st3 ?d] => set (st5 := setStk st3 d) end. rewrite rt_nodeOf, !stk_rt.
      destruct (plen (nodeOf st5 (d_node c)) =? 0).
      * rewrite rt_removeNode, <- rt_setStk. apply IH.
      * apply IH.
  - destruct (negb (hasFlag c fOpener)).
    + rewrite <- rt_setStk. apply IH.
    + apply IH.
Qed.
Lemma rt_processEmphasisF pf st sb : processEmphasisF pf (rt st) sb = rt (processEmphasisF pf st sb).
Proof. unfold processEmphasisF. rewrite rt_pe_loop. reflexivity. Qed.
Lemma rt_finishLinkG pf st kind odi : finishLinkG pf (rt st) kind odi = rt (finishLinkG pf st kind odi).
Proof.
  unfold finishLinkG. change (stk (rt st)) with (stk st). rewrite rt_processEmphasisF, rt_removeNode.
  set (st2 := removeNode (processEmphasisF pf st (odi + 1)) (d_node (nthD (stk st) odi))).
  change (stk (rt st2)) with (stk st2). rewrite <- rt_setStk. destruct (kind =? LinkKind); reflexivity.
Qed.

(* ---------- wrap with no end node: the end of the new node is the root end, and is overwritten afterwards ---------- *)
Definition Dn (id : Z) (n1 n2 : pn) : Prop := n1 = n2 \/ (pid n1 = id /\ exists e2, n2 = setSpan n1 (ps n1) e2).
Definition TopD (id : Z) (l1 l2 : list pn) : Prop := Forall2 (Dn id) l1 l2.
Lemma TopD_refl id l : TopD id l l.
Proof. induction l as [|x l IH]; constructor; [left; reflexivity|exact IH]. Qed.
Lemma TopD_app id a a' b b' : TopD id a a' -> TopD id b b' -> TopD id (a ++ b) (a' ++ b').
Proof. apply Forall2_app. Qed.
Lemma psize_setSpan n s e : psize (setSpan n s e) = psize n. Proof. destruct n; reflexivity. Qed.
Lemma TopD_fsize id l1 l2 : TopD id l1 l2 -> fsize l1 = fsize l2.
Proof.
  intros H. unfold fsize. f_equal. induction H as [|x y l l' Hx Hl IH]; [reflexivity|]. cbn [fold_right]. rewrite IH. f_equal.
  destruct Hx as [->|(_ & e2 & ->)]; [reflexivity|]. rewrite psize_setSpan. reflexivity.
Qed.
Lemma wrapIn_None_TopD newId kind sId E1 E2 f l :
  TopD newId (wrapIn (S f) newId kind sId None None E1 l) (wrapIn (S f) newId kind sId None None E2 l).
Proof.
  cbn [wrapIn]. destruct (hasId sId l); [|apply TopD_refl]. unfold wrapLevel. destruct (splitAtId sId l) as [pre post].
  destruct (splitBeforeId None post) as [mid rest]. apply TopD_app; [apply TopD_refl|]. apply TopD_app; [|apply TopD_refl].
  constructor; [|constructor]. right. split; [reflexivity|]. exists E2. reflexivity.
Qed.
Lemma updNode_TopD_keep id g f l1 l2 : TopD id l1 l2 ->
  (forall n e2, pid n = id -> pid (g n) = id /\ g (setSpan n (ps n) e2) = setSpan (g n) (ps (g n)) e2) ->
  TopD id (updNode (S f) id g l1) (updNode (S f) id g l2).
Proof.
  intros H Hg. cbn [updNode]. induction H as [|x y l l' Hx Hl IH]; [constructor|]. cbn [map]. constructor; [|exact IH].
  destruct Hx as [->|(Hp & e2 & ->)]; [left; reflexivity|].
  assert (Hp2 : pid (setSpan x (ps x) e2) = id) by (destruct x; exact Hp).
  apply Z.eqb_eq in Hp2. rewrite Hp2. pose proof Hp as Hp'. apply Z.eqb_eq in Hp'. rewrite Hp'.
  destruct (Hg x e2 Hp) as [G1 G2]. right. split; [exact G1|]. exists e2. exact G2.
Qed.
Lemma updNode_TopD_collapse id g f l1 l2 : TopD id l1 l2 ->
  (forall n e2, pid n = id -> g (setSpan n (ps n) e2) = g n) ->
  updNode (S f) id g l1 = updNode (S f) id g l2.
Proof.
  intros H Hg. cbn [updNode]. induction H as [|x y l l' Hx Hl IH]; [reflexivity|]. cbn [map]. rewrite IH. f_equal.
  destruct Hx as [->|(Hp & e2 & ->)]; [reflexivity|].
  assert (Hp2 : pid (setSpan x (ps x) e2) = id) by (destruct x; exact Hp).
  apply Z.eqb_eq in Hp2. rewrite Hp2. pose proof Hp as Hp'. apply Z.eqb_eq in Hp'. rewrite Hp'. symmetry. apply Hg, Hp.
Qed.

Lemma fsize_S' l : exists f, fsize l = S f. Proof. unfold fsize. eexists. reflexivity. Qed.

(* the forests after wrap (no end node) in the two runs *)
Lemma wrap_None_TopD st kind sId :
  TopD (nid st) (rk (fst (wrap st kind sId None))) (rk (fst (wrap (rt st) kind sId None))) /\
  snd (wrap (rt st) kind sId None) = nid st /\ snd (wrap st kind sId None) = nid st.
Proof.
  unfold wrap. cbn [fst snd rk bumpId setRk]. split; [|split; reflexivity]. change (rk (rt st)) with (rk st). change (nid (rt st)) with (nid st).
  destruct (fsize_S' (rk st)) as (f & ->). apply wrapIn_None_TopD.
Qed.
(* two states that differ in the forest only *)
Definition sameBut (p q : ist) : Prop :=
  isrc q = src' /\ unp q = U' /\ upos q = upos p /\ stk q = stk p /\ ign q = ign p /\ nid q = nid p /\ rootEnd q = re' /\ matcher q = matcher p.
Lemma sameBut_rt p q : sameBut p q -> rk q = rk p -> q = rt p.
Proof. destruct p, q. unfold sameBut, rt. cbn. intros (A & B & C & D & E & F & G & H) I. subst. reflexivity. Qed.
Lemma sameBut_wrap st kind sId : sameBut (fst (wrap st kind sId None)) (fst (wrap (rt st) kind sId None)).
Proof. unfold wrap, sameBut. cbn. repeat split. Qed.
Lemma sameBut_updN p q id g g' : sameBut p q -> sameBut (updN p id g) (updN q id g').
Proof. unfold sameBut, updN. cbn. tauto. Qed.

Definition spanInsens (g : pn -> pn) : Prop := forall n e2, g (setSpan n (ps n) e2) = g n.
Lemma spanInsens_setSpan a b : spanInsens (fun n => setSpan n a b). Proof. intros n e2. destruct n; reflexivity. Qed.
Lemma spanInsens_setRef a b l : spanInsens (fun n => setRef (setSpan n a b) l). Proof. intros n e2. destruct n; reflexivity. Qed.

(* site 1 and 2: wrap ; updN lid g with g overwriting the span *)
Lemma wrap_upd st kind sId g : spanInsens g ->
  updN (fst (wrap (rt st) kind sId None)) (nid st) g = rt (updN (fst (wrap st kind sId None)) (nid st) g).
Proof.
  intros Hg. destruct (wrap_None_TopD st kind sId) as (HT & _ & _).
  apply sameBut_rt; [apply sameBut_updN, sameBut_wrap|].
  unfold updN. cbn [rk setRk]. rewrite <- (TopD_fsize _ _ _ HT). destruct (fsize_S' (rk (fst (wrap st kind sId None)))) as (f & ->).
  symmetry. apply (updNode_TopD_collapse (nid st) g f _ _ HT). intros n e2 _. apply Hg.
Qed.
(* site 3: wrap ; appendKid lid K ; updN lid (setSpan) *)
Lemma wrap_app_upd st kind sId K g : spanInsens g ->
  updN (appendKid (fst (wrap (rt st) kind sId None)) (nid st) K) (nid st) g =
  rt (updN (appendKid (fst (wrap st kind sId None)) (nid st) K) (nid st) g).
Proof.
  intros Hg. destruct (wrap_None_TopD st kind sId) as (HT & _ & _).
  apply sameBut_rt; [apply sameBut_updN; unfold appendKid; apply sameBut_updN, sameBut_wrap|].
  unfold appendKid, updN. cbn [rk setRk]. set (l1 := rk (fst (wrap st kind sId None))) in *. set (l2 := rk (fst (wrap (rt st) kind sId None))) in *.
  rewrite <- (TopD_fsize _ _ _ HT). destruct (fsize_S' l1) as (f & Ef). rewrite Ef.
  assert (HT2 : TopD (nid st) (updNode (S f) (nid st) (fun n => setKids n (pkids n ++ [K])) l1) (updNode (S f) (nid st) (fun n => setKids n (pkids n ++ [K])) l2)).
  { apply updNode_TopD_keep; [exact HT|]. intros n e2 Hp. destruct n; cbn in *. split; [exact Hp|reflexivity]. }
  rewrite <- (TopD_fsize _ _ _ HT2). destruct (fsize_S' (updNode (S f) (nid st) (fun n => setKids n (pkids n ++ [K])) l1)) as (f2 & ->).
  symmetry. apply (updNode_TopD_collapse (nid st) g f2 _ _ HT2). intros n e2 _. apply Hg.
Qed.
End RT.
