From Coq Require Import List ZArith Lia Bool.
Import ListNotations.
Require Import Base Tree Rdr Link Leaf3e RdrBound Rec17 Rec18 BSRdr LADef LA1.
Open Scope Z_scope.

(* ===== the multi-line reader over the entries of a paragraph: small-step facts ===== *)

Section Rd.
  Variable src : bytes.

  (* one entry of a paragraph *)
  Definition entOK (u : inline) : Prop :=
    0 <= istart u /\ istart u < iend u /\ iend u <= len src /\
    ((ikind u = IndentKind /\ iend u = istart u + 1 /\ NT src (istart u) (iend u) /\ iindent u <= 3) \/
     (ikind u = UnparsedKind /\ lineOK src (istart u) (iend u))).
  Definition ENT (ik : list inline) : Prop := Forall entOK ik /\ sortedS ik.

  Lemma ENT_of_tile lo hi ik : 0 <= lo -> hi <= len src -> tileS src lo hi (map ispan ik) -> Forall (eok src ParagraphKind) ik -> ENT ik.
  Proof.
    intros H0 Hh Ht Hf. split.
    - rewrite Forall_forall in *. intros u Hu. pose proof (tileS_In _ _ _ _ (ispan u) Ht ltac:(apply in_map; exact Hu)) as (P1 & P2 & P3). cbn [ispan fst snd] in *.
      destruct (Hf u Hu) as (Q1 & Q2 & _). destruct (Q2 eq_refl) as [(E1 & E2 & E3)|[E1 E2]].
      + split; [lia|]. split; [lia|]. split; [lia|]. left. split; [exact E1|split; [exact E2|split; [apply Q1, E1|exact E3]]].
      + destruct E2 as (L1 & L2). split; [lia|]. split; [lia|]. split; [lia|]. right. split; [exact E1|split; assumption].
    - clear Hf H0 Hh. revert lo Ht. induction ik as [|u r IH]; intros lo Ht; [exact I|]. cbn [map tileS ispan fst snd] in Ht. destruct Ht as (A & B & C & D).
      split; [|eapply IH; exact D]. intros j Hj. pose proof (tileS_In _ _ _ _ (ispan j) D ltac:(apply in_map; exact Hj)) as (P1 & _). cbn [ispan fst] in P1. exact P1.
  Qed.
  Lemma ENT_app a b : ENT (a ++ b) -> ENT b.
  Proof.
    intros [H1 H2]. split; [apply Forall_app in H1; tauto|]. clear H1. induction a as [|x a IH]; [exact H2|]. apply IH. apply H2.
  Qed.
  Lemma ENT_skipn n ik : ENT ik -> ENT (skipn n ik).
  Proof. intros H. rewrite <- (firstn_skipn n ik) in H. eapply ENT_app; exact H. Qed.
  Lemma ENT_kind ik u : ENT ik -> In u ik -> (ikind u =? UnparsedKind) || (ikind u =? TextKind) || (ikind u =? IndentKind) = true.
  Proof.
    intros [H _] Hu. rewrite Forall_forall in H. destruct (H u Hu) as (_ & _ & _ & [[E _]|[E _]]); rewrite E; reflexivity.
  Qed.
  Lemma ENT_sorted_app pre u t : ENT (pre ++ u :: t) -> (forall x, In x pre -> iend x <= istart u) /\ (forall x, In x t -> iend u <= istart x).
  Proof.
    intros [_ H]. induction pre as [|y pre IH]; cbn [app] in H.
    - split; [intros x []|apply H].
    - destruct H as [H1 H2]. destruct (IH H2) as [A B]. split; [|exact B]. intros x [->|Hx]; [apply H1; apply in_or_app; right; left; reflexivity|apply A, Hx].
  Qed.

  Definition inEnt (ik : list inline) (q : Z) : Prop := exists u, In u ik /\ istart u <= q < iend u.

  (* ---- reader positions ---- *)
  Definition InS (ik : list inline) (r : reader) (u : inline) (t : list inline) : Prop :=
    r_src r = src /\ (exists pre1 pre2, ik = pre1 ++ pre2 ++ u :: t /\ r_spans r = pre2 ++ u :: t) /\ istart u <= r_pos r < iend u /\ 0 <= r_vpos r.
  Definition OutS (ik : list inline) (r : reader) : Prop :=
    r_src r = src /\ r_spans r = [] /\ (forall u, In u ik -> iend u <= r_pos r) /\ (exists pre u, ik = pre ++ [u] /\ r_pos r = iend u) /\ r_prev r + 1 = r_pos r.

  Lemma spanHas_iff u pos : 0 <= istart u -> spanHas u pos = true <-> istart u <= pos < iend u.
  Proof.
    intros H0. unfold spanHas. rewrite !andb_true_iff, !Z.leb_le, Z.ltb_lt. split; [intros ((((A & B) & C) & D) & E); lia|intros H; repeat split; lia].
  Qed.

  Lemma nodeIdx_skip : forall pre rest pos k, (forall x, In x pre -> istart x <= pos /\ iend x <= pos) ->
    nodeIdx (pre ++ rest) pos k = nodeIdx rest pos (k + len pre).
  Proof.
    induction pre as [|x pre IH]; intros rest pos k H; [cbn [app]; unfold len; cbn; f_equal; lia|].
    cbn [app nodeIdx]. destruct (H x (or_introl eq_refl)) as [A B].
    destruct (Z.ltb_spec pos (istart x)); [lia|].
    replace (spanHas x pos) with false.
    2:{ symmetry. unfold spanHas. apply andb_false_iff. right. apply Z.ltb_ge. lia. }
    rewrite IH by (intros y Hy; apply H; right; exact Hy). rewrite len_cons. f_equal. lia.
  Qed.

  Lemma curNode_In ik r u t : ENT ik -> InS ik r u t ->
    curNode r = (Some u, {| r_src := r_src r; r_spans := u :: t; r_pos := r_pos r; r_vpos := r_vpos r; r_prev := r_prev r |}).
  Proof.
    intros He (Es & (pre1 & pre2 & Ei & Esp) & Hp & Hv).
    assert (He' : ENT (pre2 ++ u :: t)) by (rewrite Ei in He; eapply ENT_app; exact He).
    destruct (ENT_sorted_app _ _ _ He') as [Hpre _].
    assert (Hu : entOK u) by (destruct He' as [Hf _]; rewrite Forall_forall in Hf; apply Hf; apply in_or_app; right; left; reflexivity).
    assert (Hidx : nodeIndexForPosition (r_spans r) (r_pos r) = len pre2).
    { unfold nodeIndexForPosition. rewrite Esp, nodeIdx_skip.
      - apply nodeIdx_hd. apply spanHas_iff; [apply Hu|exact Hp].
      - intros x Hx. specialize (Hpre x Hx). destruct He' as [Hf _]. rewrite Forall_forall in Hf.
        destruct (Hf x ltac:(apply in_or_app; left; exact Hx)) as (X1 & X2 & _). lia. }
    unfold curNode. cbv zeta. rewrite Hidx. pose proof (len_nonneg pre2) as Hl. destruct (Z.ltb_spec (len pre2) 0); [lia|].
    assert (Ef : from_ (r_spans r) (len pre2) = u :: t).
    { rewrite Esp. unfold from_, len. rewrite Nat2Z.id. rewrite skipn_app, skipn_all, Nat.sub_diag. reflexivity. }
    rewrite Ef. reflexivity.
  Qed.
  Lemma InS_norm ik r u t : InS ik r u t -> InS ik {| r_src := r_src r; r_spans := u :: t; r_pos := r_pos r; r_vpos := r_vpos r; r_prev := r_prev r |} u t.
  Proof.
    intros (Es & (pre1 & pre2 & Ei & Esp) & Hp & Hv). split; [exact Es|]. split; [|split; [exact Hp|exact Hv]].
    exists (pre1 ++ pre2), []. split; [rewrite <- app_assoc; exact Ei|reflexivity].
  Qed.
  Lemma curNode_Out ik r : OutS ik r -> curNode r = (None, r).
  Proof.
    intros (Es & Esp & _ & _ & _). unfold curNode. cbv zeta. rewrite Esp. unfold nodeIndexForPosition. cbn [nodeIdx]. cbn.
    destruct r as [a b c d e]. cbn in *. subst b. reflexivity.
  Qed.

  (* the character the reader shows, against the byte of the source *)
  Definition chOK (u : inline) (pos c : Z) : Prop :=
    (ikind u = IndentKind /\ c = 32) \/
    (ikind u <> IndentKind /\ ((at_ src pos <> 0 /\ c = at_ src pos) \/ (at_ src pos = 0 /\ (c = 239 \/ c = 191 \/ c = 189)))).
  Lemma current_In ik r u t : ENT ik -> InS ik r u t ->
    exists c, current r = (c, {| r_src := r_src r; r_spans := u :: t; r_pos := r_pos r; r_vpos := r_vpos r; r_prev := r_prev r |}) /\ chOK u (r_pos r) c.
  Proof.
    intros He Hi. pose proof (curNode_In ik r u t He Hi) as Ec. destruct Hi as (Es & (pre1 & pre2 & Ei & Esp) & Hp & Hv).
    assert (Hu : entOK u).
    { destruct He as [Hf _]. rewrite Forall_forall in Hf. apply Hf. rewrite Ei. apply in_or_app; right. apply in_or_app; right. left. reflexivity. }
    destruct Hu as (U1 & U2 & U3 & U4).
    unfold current. rewrite Es. destruct (Z.leb_spec (len src) (r_pos r)); [lia|]. rewrite Ec. cbn [okind].
    destruct (Z.eqb_spec (ikind u) IndentKind) as [Ek|Nk].
    - exists 32. split; [rewrite Es; reflexivity|left; split; [exact Ek|reflexivity]].
    - destruct (Z.eqb_spec (at_ src (r_pos r)) 0) as [E0|N0].
      + eexists. split; [rewrite Es; reflexivity|]. right. split; [exact Nk|right; split; [exact E0|]]. unfold nullRepl.
        destruct (_ =? 0); [left; reflexivity|]. destruct (_ =? 1); [right; left; reflexivity|right; right; reflexivity].
      + eexists. split; [rewrite Es; reflexivity|]. right. split; [exact Nk|left; split; [exact N0|reflexivity]].
  Qed.
  Lemma current_Out ik r : OutS ik r -> exists c, current r = (c, r).
  Proof.
    intros Ho. unfold current. destruct (_ <=? _); [eexists; reflexivity|]. rewrite (curNode_Out ik r Ho). cbn [okind].
    change (0 =? IndentKind) with false. cbv iota. destruct (_ =? 0); eexists; reflexivity.
  Qed.

  (* one step forward *)
  Definition stepIn (ik : list inline) (r r' : reader) (u : inline) (t : list inline) : Prop :=
    r_prev r' = r_pos r /\
    ((InS ik r' u t /\ r_spans r' = u :: t /\ (r_pos r' = r_pos r /\ ikind u = IndentKind \/ r_pos r' = r_pos r + 1)) \/
     (exists u2 t2, t = u2 :: t2 /\ InS ik r' u2 t2 /\ r_spans r' = u2 :: t2 /\ r_pos r' = istart u2 /\ r_pos r + 1 = iend u /\ iend u <= istart u2)).
  Lemma next_In ik r u t : ENT ik -> InS ik r u t ->
    (fst (next r) = true /\ stepIn ik r (snd (next r)) u t) \/
    (fst (next r) = false /\ t = [] /\ OutS ik (snd (next r)) /\ r_pos (snd (next r)) = r_pos r + 1 /\ r_pos r + 1 = iend u /\ r_prev (snd (next r)) = r_pos r).
  Proof.
    intros He Hi. pose proof (curNode_In ik r u t He Hi) as Ec. pose proof (InS_norm ik r u t Hi) as Hn.
    destruct Hi as (Es & (pre1 & pre2 & Ei & Esp) & Hp & Hv).
    assert (He' : ENT (u :: t)) by (rewrite Ei in He; apply ENT_app in He; apply ENT_app in He; exact He).
    assert (Hu : entOK u) by (destruct He' as [Hf _]; inversion Hf; assumption).
    destruct Hu as (U1 & U2 & U3 & U4).
    unfold next. rewrite Ec. cbn [r_src r_spans r_pos r_vpos r_prev].
    destruct ((ikind u =? IndentKind) && (r_vpos r <? iindent u)) eqn:E1.
    { left. cbn [fst snd]. split; [reflexivity|]. split; [reflexivity|]. left. apply andb_true_iff in E1. destruct E1 as [E1 _]. apply Z.eqb_eq in E1.
      split; [|split; [reflexivity|left; split; [reflexivity|exact E1]]].
      destruct Hn as (N1 & N2 & N3 & N4). split; [exact N1|split; [exact N2|split; [exact N3|cbn [r_vpos]; lia]]]. }
    destruct (negb (ikind u =? IndentKind) && (r_pos r + 1 <? iend u)) eqn:E2.
    { left. cbn [fst snd]. split; [reflexivity|]. split; [reflexivity|]. left. apply andb_true_iff in E2. destruct E2 as [_ E2]. apply Z.ltb_lt in E2.
      split; [|split; [reflexivity|right; reflexivity]].
      destruct Hn as (N1 & N2 & N3 & N4). split; [exact N1|split; [exact N2|split; [cbn [r_pos]; lia|]]]. cbn [r_vpos]. destruct (_ =? 0); [|exact Hv]. destruct (_ =? 0); [apply Z.mod_pos_bound; lia|lia]. }
    assert (Hend : r_pos r + 1 = iend u).
    { destruct U4 as [(K1 & K2 & _)|(K1 & _)].
      - lia.
      - rewrite K1 in E2. change (UnparsedKind =? IndentKind) with false in E2. cbn [negb andb] in E2. apply Z.ltb_ge in E2. lia. }
    cbn [tl]. destruct t as [|u2 t2].
    - right. cbn [nextSpan fst snd]. split; [reflexivity|]. split; [reflexivity|]. split; [|cbn [r_pos r_prev]; repeat split; lia].
      split; [exact Es|]. split; [reflexivity|]. split; [|split; [exists (pre1 ++ pre2), u; split; [rewrite Ei, <- app_assoc; reflexivity|cbn [r_pos]; lia]|cbn [r_pos r_prev]; lia]]. cbn [r_pos]. intros x Hx. rewrite Ei in Hx.
      destruct (ENT_sorted_app (pre1 ++ pre2) u [] ltac:(rewrite <- app_assoc; rewrite <- Ei; exact He)) as [Hpre _].
      apply in_app_or in Hx. destruct Hx as [Hx|Hx].
      + specialize (Hpre x ltac:(apply in_or_app; left; exact Hx)). lia.
      + apply in_app_or in Hx. destruct Hx as [Hx|[<-|[]]]; [specialize (Hpre x ltac:(apply in_or_app; right; exact Hx)); lia|lia].
    - left. pose proof (ENT_kind (u :: u2 :: t2) u2 He' ltac:(right; left; reflexivity)) as Hk2.
      cbn [nextSpan]. rewrite Hk2. cbn [fst snd]. split; [reflexivity|]. split; [reflexivity|]. right. exists u2, t2. split; [reflexivity|].
      assert (Hu2 : entOK u2) by (destruct He' as [Hf _]; inversion Hf as [|? ? _ Hf2]; inversion Hf2; assumption).
      split; [|split; [reflexivity|split; [reflexivity|split; [exact Hend|destruct He' as [_ [Hs' _]]; apply Hs'; left; reflexivity]]]].
      split; [exact Es|]. split; [|split; [cbn [r_pos]; destruct Hu2 as (V1 & V2 & _); lia|cbn [r_vpos]; unfold computeNullVirtualPosition; match goal with |- 0 <= (if ?c then _ else _) => destruct c end; [lia|apply Z.mod_pos_bound; lia]]].
      exists (pre1 ++ pre2 ++ [u]), []. split; [|reflexivity]. rewrite Ei. rewrite <- !app_assoc. reflexivity.
  Qed.
  Lemma next_Out ik r : OutS ik r -> next r = (false, r).
  Proof. intros Ho. unfold next. rewrite (curNode_Out ik r Ho). reflexivity. Qed.

  (* positions strictly between a step are in no entry *)
  Lemma step_gap ik r r' u t q : ENT ik -> InS ik r u t -> stepIn ik r r' u t -> r_pos r < q < r_pos r' -> ~ inEnt ik q.
  Proof.
    intros He Hi (_ & [(_ & _ & Hs)|(u2 & t2 & Et & _ & _ & Hp2 & Hend & _)]) Hq; [destruct Hs as [[Hs _]|Hs]; lia|].
    destruct Hi as (Es & (pre1 & pre2 & Ei & Esp) & Hp & Hv). subst t.
    intros (x & Hx & Hqx). rewrite Ei in Hx, He.
    replace (pre1 ++ pre2 ++ u :: u2 :: t2) with ((pre1 ++ pre2) ++ u :: u2 :: t2) in * by (rewrite <- app_assoc; reflexivity).
    destruct (ENT_sorted_app _ _ _ He) as [Hpre Hpost].
    replace ((pre1 ++ pre2) ++ u :: u2 :: t2) with ((pre1 ++ pre2 ++ [u]) ++ u2 :: t2) in He by (rewrite <- !app_assoc; reflexivity).
    destruct (ENT_sorted_app _ _ _ He) as [_ Hpost2].
    apply in_app_or in Hx. destruct Hx as [Hx|[<-|[<-|Hx]]].
    - specialize (Hpre x Hx). lia.
    - lia.
    - lia.
    - specialize (Hpost2 x Hx). destruct He as [Hf _]. rewrite Forall_forall in Hf.
      destruct (Hf u2 ltac:(apply in_or_app; right; left; reflexivity)) as (_ & V2 & _). lia.
  Qed.
End Rd.
