From Coq Require Import List String.
Import ListNotations.
Require GenEffects.

(* C19: the premise of the schedule-independence theorem (misc/Interleave.v), instantiated by the effect summary that
   go/eff extracts from /repo's typed AST on every run.  A write through a package-level variable anywhere in the
   code reachable from the entry points, or a store through the shared tree / renderer types in the code reachable
   from Render, AppendBlock, RenderHTML, Format, Walk and NormalizeURI, makes this file fail to compile. *)
Lemma no_global_writes : GenEffects.global_writes = [].
Proof. reflexivity. Qed.
Lemma no_shared_writes : GenEffects.shared_writes = [] /\ GenEffects.global_writes = [] /\ GenEffects.missing_entry_points = [].
Proof. repeat split; reflexivity. Qed.
Print Assumptions no_shared_writes.
