From Coq Require Import List ZArith Lia Bool.
Import ListNotations.
Require Import Base Tables Utf8 Tree Rdr Link Collect Html Recog Inl3a Inl3b Inl3c Inl3d Inl3e Driver.
Require Import ShapesBase ShapesR IFBase IFLink IFHtml.
Open Scope Z_scope.

(* ================================================================ C04: the small counting loops of the inline layer
   (each result is independent of the fuel once the fuel covers the distance to the bound that stops the loop) *)

Lemma runEnd_fuel src lim c : forall f1 f2 e, lim - e <= Z.of_nat f1 -> lim - e <= Z.of_nat f2 -> runEnd f1 src e lim c = runEnd f2 src e lim c.
Proof.
  induction f1 as [|f1 IH]; intros f2 e H1 H2.
  - destruct f2 as [|f2]; [reflexivity|]. cbn [runEnd]. destruct (Z.ltb_spec e lim); [lia|reflexivity].
  - destruct f2 as [|f2]; cbn [runEnd]; destruct (Z.ltb_spec e lim); cbn [andb]; try lia; try reflexivity.
    destruct (_ =? c); [|reflexivity]. apply IH; lia.
Qed.
Lemma eolRun_fuel src lim : forall f1 f2 e, lim - e <= Z.of_nat f1 -> lim - e <= Z.of_nat f2 -> eolRun f1 src e lim = eolRun f2 src e lim.
Proof.
  induction f1 as [|f1 IH]; intros f2 e H1 H2.
  - destruct f2 as [|f2]; [reflexivity|]. cbn [eolRun]. destruct (Z.ltb_spec e lim); [lia|reflexivity].
  - destruct f2 as [|f2]; cbn [eolRun]; destruct (Z.ltb_spec e lim); cbn [andb]; try lia; try reflexivity.
    destruct (_ || _); [|reflexivity]. apply IH; lia.
Qed.
Lemma skipSpTab_fuel src lim : forall f1 f2 p, lim - p <= Z.of_nat f1 -> lim - p <= Z.of_nat f2 -> skipSpTab f1 src p lim = skipSpTab f2 src p lim.
Proof.
  induction f1 as [|f1 IH]; intros f2 p H1 H2.
  - destruct f2 as [|f2]; [reflexivity|]. cbn [skipSpTab]. destruct (Z.ltb_spec p lim); [lia|reflexivity].
  - destruct f2 as [|f2]; cbn [skipSpTab]; destruct (Z.ltb_spec p lim); cbn [andb]; try lia; try reflexivity.
    destruct (isSpTab _); [|reflexivity]. apply IH; lia.
Qed.
(* as the model calls them: a position inside the source, a limit inside the source, fuel = length of the source *)
Corollary runEnd_model src lim c e f : 0 <= e -> lim <= len src -> (length src <= f)%nat -> runEnd f src e lim c = runEnd (length src) src e lim c.
Proof. intros. apply runEnd_fuel; unfold len in *; lia. Qed.
Corollary eolRun_model src lim e f : 0 <= e -> lim <= len src -> (length src <= f)%nat -> eolRun f src e lim = eolRun (length src) src e lim.
Proof. intros. apply eolRun_fuel; unfold len in *; lia. Qed.
Corollary skipSpTab_model src lim p f : 0 <= p -> lim <= len src -> (length src <= f)%nat -> skipSpTab f src p lim = skipSpTab (length src) src p lim.
Proof. intros. apply skipSpTab_fuel; unfold len in *; lia. Qed.

(* the run of NUL bytes before a position *)
Lemma nulRunBack_fuel src : forall f1 f2 s, s <= Z.of_nat f1 -> s <= Z.of_nat f2 -> nulRunBack src s f1 = nulRunBack src s f2.
Proof.
  induction f1 as [|f1 IH]; intros f2 s H1 H2.
  - destruct f2 as [|f2]; [reflexivity|]. cbn [nulRunBack]. destruct (Z.ltb_spec 0 s); [lia|reflexivity].
  - destruct f2 as [|f2]; cbn [nulRunBack]; destruct (Z.ltb_spec 0 s); cbn [andb]; try lia; try reflexivity.
    destruct (_ =? 0); [|reflexivity]. apply IH; lia.
Qed.

(* lookForLinkOrImage *)
Lemma lfl_fuel : forall f1 f2 st i, i + 1 <= Z.of_nat f1 -> i + 1 <= Z.of_nat f2 -> lfl f1 st i = lfl f2 st i.
Proof.
  induction f1 as [|f1 IH]; intros f2 st i H1 H2.
  - destruct f2 as [|f2]; [reflexivity|]. cbn [lfl]. destruct (Z.ltb_spec i 0); [reflexivity|lia].
  - destruct f2 as [|f2]; cbn [lfl]; destruct (Z.ltb_spec i 0); try lia; try reflexivity.
    destruct (_ || _); [reflexivity|]. apply IH; lia.
Qed.
Corollary lookForLinkOrImage_fuel st f : (S (length (stk st)) <= f)%nat -> lfl f st (len (stk st) - 1) = lookForLinkOrImage st.
Proof. intros H. unfold lookForLinkOrImage. apply lfl_fuel; unfold len; lia. Qed.

(* the two searches of processEmphasis *)
Lemma pe_findCloser_fuel stack : forall f1 f2 cp, len stack - cp <= Z.of_nat f1 -> len stack - cp <= Z.of_nat f2 ->
  pe_findCloser f1 stack cp = pe_findCloser f2 stack cp.
Proof.
  induction f1 as [|f1 IH]; intros f2 cp H1 H2.
  - destruct f2 as [|f2]; [reflexivity|]. cbn [pe_findCloser]. destruct (Z.leb_spec (len stack) cp); [reflexivity|lia].
  - destruct f2 as [|f2]; cbn [pe_findCloser]; destruct (Z.leb_spec (len stack) cp); try lia; try reflexivity.
    destruct (_ && _); [reflexivity|]. apply IH; lia.
Qed.
Lemma pe_findOpener_fuel stack c lo : forall f1 f2 oi, lo - 1 <= oi -> oi - lo + 1 < Z.of_nat f1 -> oi - lo + 1 < Z.of_nat f2 ->
  pe_findOpener f1 stack oi lo c = pe_findOpener f2 stack oi lo c.
Proof.
  induction f1 as [|f1 IH]; intros f2 oi H0 H1 H2; [lia|].
  destruct f2 as [|f2]; [lia|]. cbn [pe_findOpener]. destruct (Z.leb_spec lo oi); cbn [andb]; [|reflexivity].
  destruct (negb _); [|reflexivity]. apply IH; lia.
Qed.
(* as pe_loop calls them *)
Corollary pe_findCloser_model stack cp f : 0 <= cp -> (S (length stack) <= f)%nat -> pe_findCloser f stack cp = pe_findCloser (S (length stack)) stack cp.
Proof. intros. apply pe_findCloser_fuel; unfold len; lia. Qed.
Corollary pe_findOpener_model stack c lo cp f : 0 <= lo <= cp -> cp <= len stack -> (S (length stack) <= f)%nat ->
  pe_findOpener f stack (cp - 1) lo c = pe_findOpener (S (length stack)) stack (cp - 1) lo c.
Proof. intros. apply pe_findOpener_fuel; unfold len in *; lia. Qed.

(* the domain labels of an e-mail autolink *)
Lemma dl_run_fuel t : forall f1 f2 e, 63 - e <= Z.of_nat f1 -> 63 - e <= Z.of_nat f2 -> dl_run f1 t e = dl_run f2 t e.
Proof.
  induction f1 as [|f1 IH]; intros f2 e H1 H2.
  - destruct f2 as [|f2]; [reflexivity|]. cbn [dl_run]. destruct (Z.ltb_spec e 63); [lia|reflexivity].
  - destruct f2 as [|f2]; cbn [dl_run]; destruct (Z.ltb_spec e 63); cbn [andb]; try lia; try reflexivity.
    destruct (_ && _); [|reflexivity]. apply IH; lia.
Qed.
Lemma parseDomainLabel_nonneg t : -1 <= parseDomainLabel t.
Proof.
  unfold parseDomainLabel. destruct (_ || _); [lia|].
  assert (H : forall f e, 1 <= e -> 1 <= dl_run f t e).
  { induction f as [|f IH]; intros e He; cbn [dl_run]; [lia|]. destruct (_ && _ && _); [apply IH; lia|lia]. }
  specialize (H 64%nat 1 ltac:(lia)). destruct (_ =? 45); [lia|]. destruct (_ && _); lia.
Qed.
Lemma em_labels_fuel t : forall f1 f2 e, len t - e < Z.of_nat f1 -> len t - e < Z.of_nat f2 -> em_labels f1 t e = em_labels f2 t e.
Proof.
  induction f1 as [|f1 IH]; intros f2 e H1 H2.
  - destruct f2 as [|f2]; [reflexivity|]. cbn [em_labels]. destruct (Z.ltb_spec e (len t)); [lia|reflexivity].
  - destruct f2 as [|f2]; cbn [em_labels]; destruct (Z.ltb_spec e (len t)); cbn [andb]; try lia; try reflexivity.
    destruct (_ =? 46); [|reflexivity]. pose proof (parseDomainLabel_nonneg (from_ t (e + 1))) as Hn.
    destruct (Z.ltb_spec (parseDomainLabel (from_ t (e + 1))) 0); [reflexivity|]. apply IH; lia.
Qed.

(* ================================================================ HTML block start condition 7 (the block layer's use of the tag scanner) *)
Definition startCond7F (fuel : nat) (line : bytes) : bool :=
  if negb (hasBytePrefix line [60]) then false else
  let fake := Inl UnparsedKind 1 (len line) 0 [] [] in
  let r := newReader line [fake] 1 in
  let '(e, r1) := if hasBytePrefix line [60; 47] then parseHTMLClosingTag fuel r else parseHTMLOpenTag fuel r in
  if e <? 0 then false else negb (fst (skipLinkSpace fuel r1)).
Lemma startCond7F_model line : startCond7F (2 * length line + 10) line = startCond7 line.
Proof. reflexivity. Qed.
Theorem startCond7_fuel line f : len line < Z.of_nat f -> startCond7F f line = startCond7 line.
Proof.
  intros Hf. rewrite <- startCond7F_model. unfold startCond7F. destruct (hasBytePrefix line [60]) eqn:E60; cbn [negb]; [|reflexivity].
  assert (Hl : 1 <= len line) by (destruct line; [discriminate|rewrite len_cons; pose proof (len_nonneg line); lia]).
  assert (Hw : spW line [Inl UnparsedKind 1 (len line) 0 [] []] = true).
  { cbn [spW istart iend forallb]. replace (1 <=? len line) with true by (symmetry; apply Z.leb_le; lia).
    replace (len line <=? len line) with true by (symmetry; apply Z.leb_le; lia). reflexivity. }
  pose proof (PL_new line _ 1 Hw) as HP. pose proof (nu_new line _ 1 Hw) as Hn. cbn [ibudget ikind] in Hn.
  change (UnparsedKind =? IndentKind) with false in Hn. cbv iota in Hn.
  set (r := newReader line [Inl UnparsedKind 1 (len line) 0 [] []] 1) in *.
  set (g := (2 * length line + 10)%nat). assert (Hg : len line < Z.of_nat g) by (unfold g, len; lia).
  assert (E : (if hasBytePrefix line [60; 47] then parseHTMLClosingTag f r else parseHTMLOpenTag f r) =
              (if hasBytePrefix line [60; 47] then parseHTMLClosingTag g r else parseHTMLOpenTag g r)).
  { destruct (hasBytePrefix line [60; 47]); [apply (parseHTMLClosingTag_fuel line)|apply (parseHTMLOpenTag_fuel line)]; first [assumption|lia]. }
  rewrite E.
  assert (Hpg : prog line r (snd (if hasBytePrefix line [60; 47] then parseHTMLClosingTag g r else parseHTMLOpenTag g r))).
  { destruct (hasBytePrefix line [60; 47]); [apply parseHTMLClosingTag_prog|apply parseHTMLOpenTag_prog]; assumption. }
  destruct (if hasBytePrefix line [60; 47] then parseHTMLClosingTag g r else parseHTMLOpenTag g r) as [e r1]. cbn [snd] in Hpg.
  destruct Hpg as (P1 & _ & P3 & _). destruct (e <? 0); [reflexivity|].
  rewrite (skipLinkSpace_fuel line f g) by (assumption || lia). reflexivity.
Qed.
Print Assumptions startCond7_fuel.
