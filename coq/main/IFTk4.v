From Coq Require Import List ZArith Lia Bool.
Import ListNotations.
Require Import Base Tables Utf8 Tree Rdr Link Collect Html Recog Inl3a Inl3b Inl3c Inl3d Driver Inl3e PEProof.
Require Import ShapesR ShapesA IFBase IFTree IFPe IFTk1 IFTk2 IFTk3 IFTokDef IFFrame IFTokAux IFTokLoop IFTokUm IFTokFuel.
Open Scope Z_scope.

(* ================================================================ the forest / stack invariant through the tokeniser loops *)
Section TKL.
  Variable src : bytes.
  Variable U : list inline.
  Hypothesis HOK : spOK src U = true.
  Variables rf tf : nat.
  Hypothesis Hrf : len src + ibudget U < Z.of_nat rf.
  Notation K := (K src U).
  Notation d0 := (mkI 0 0 0).

  (* the end of the entry under the cursor (the end of the source when the cursor is past the entries) *)
  Definition Eb (st : ist) : Z := if upos st <? len U then iend (nth (Z.to_nat (upos st)) U d0) else len src.
  Lemma Eb_le st : 0 <= upos st -> Eb st <= len src.
  Proof.
    intros H0. unfold Eb. destruct (Z.ltb_spec (upos st) (len U)); [|lia].
    destruct (spOK_In src U _ HOK (nth_In_Z U (upos st) d0 ltac:(lia))) as (_ & _ & A). exact A.
  Qed.
  Lemma nth_sorted : forall (l : list inline) i j, spOK src l = true -> (i < j < length l)%nat -> iend (nth i l d0) <= istart (nth j l d0).
  Proof.
    induction l as [|x l IH]; intros i j Hok Hij; [cbn in Hij; lia|]. pose proof (spOK_cons _ _ _ Hok) as (_ & _ & C & _ & _ & G).
    destruct j as [|j]; [lia|]. destruct i as [|i]; cbn [nth].
    - destruct (C (nth j l d0) ltac:(apply nth_In; cbn in Hij; lia)) as [C1 _]. exact C1.
    - apply IH; [exact G|cbn in Hij; lia].
  Qed.
  Lemma Eb_mono (st st' : ist) : 0 <= upos st -> upos st <= upos st' -> Eb st <= Eb st'.
  Proof.
    intros H0 H1. unfold Eb. destruct (Z.ltb_spec (upos st') (len U)) as [L'|L'].
    - destruct (Z.ltb_spec (upos st) (len U)) as [L|L]; [|lia].
      destruct (Z.eq_dec (upos st) (upos st')) as [E|E]; [rewrite E; lia|].
      pose proof (nth_sorted U (Z.to_nat (upos st)) (Z.to_nat (upos st')) HOK ltac:(unfold len in *; lia)) as Hs.
      destruct (spOK_In src U _ HOK (nth_In_Z U (upos st') d0 ltac:(lia))) as (_ & B & _). lia.
    - destruct (Z.ltb_spec (upos st) (len U)) as [L|L]; [|lia].
      destruct (spOK_In src U _ HOK (nth_In_Z U (upos st) d0 ltac:(lia))) as (_ & _ & A). exact A.
  Qed.
  Lemma Eb_spanEnd st : unp st = U -> upos st < len U -> Eb st = spanEnd st.
  Proof.
    intros Eu L. unfold Eb. destruct (Z.ltb_spec (upos st) (len U)); [|lia]. rewrite spanEnd_nth by (rewrite Eu; exact L). rewrite Eu. reflexivity.
  Qed.
  (* the start of the next entry lies at or after the end of the current one *)
  Lemma Eb_next st : 0 <= upos st -> upos st + 1 < len U -> Eb st <= istart (nth (Z.to_nat (upos st + 1)) U d0).
  Proof.
    intros H0 L. unfold Eb. destruct (Z.ltb_spec (upos st) (len U)); [|lia].
    apply nth_sorted; [exact HOK|unfold len in *; lia].
  Qed.

  (* the delimiter stack is well formed and its load lies below the current position and below the end of the current entry *)
  Definition TKL (st : ist) (pos : Z) : Prop := TKb (nid st) st /\ load st <= pos /\ load st <= Eb st.

  Lemma Good_TKL st st' pos pos' : TKL st pos -> Good (nid st) st st' -> pos <= pos' -> Eb st <= Eb st' -> TKL st' pos'.
  Proof. intros (T & L1 & L2) HG Hp He. destruct (G_nid _ _ _ HG) as [T' L']. split; [exact T'|]. lia. Qed.

  Lemma push_TKL st k s e (mk : Z -> delim) pos : TKL st pos -> (forall id, d_node (mk id) = id) -> pos <= s -> 0 <= s -> s < e -> e <= Eb st ->
    let st' := setStk (fst (addNode st k s e [])) (stk (fst (addNode st k s e [])) ++ [mk (snd (addNode st k s e []))]) in
    upos st' = upos st -> TKL st' e.
  Proof.
    intros (T & L1 & L2) Hmk Hps Hs0 Hse He. destruct (push_TK (nid st) st k s e mk T Hmk Hs0 Hse) as (A & B & C). cbv zeta in A, B, C.
    cbv zeta. intros Eu. split; [exact A|]. unfold load in *.
    match goal with |- _ /\ _ <= Eb ?X => assert (EE : Eb X = Eb st) by (unfold Eb; rewrite Eu; reflexivity) end. rewrite EE. lia.
  Qed.

  Lemma istepF_TKL st pos ps : K st pos -> upos st < len U -> pos < spanEnd st -> TKL st pos ->
    TKL (fst (fst (istepF rf tf st pos ps))) (snd (fst (istepF rf tf st pos ps))).
  Proof.
    intros HK Hu Hlim HT. destruct (istepF_prog src U HOK rf tf Hrf st pos ps HK Hu Hlim) as [Hprog0 _].
    pose proof HK as (Es & Eu & Hp0 & Hu0 & _).
    assert (HEb : Eb st <= Eb (fst (fst (istepF rf tf st pos ps)))).
    { apply Eb_mono; [exact Hu0|]. apply (um_istepF rf tf st pos ps). rewrite Eu. lia. }
    pose proof (conj Hprog0 HEb) as Hprog. clear Hprog0 HEb.
    assert (HEs : Eb st = spanEnd st) by (apply Eb_spanEnd; assumption).
    assert (Ga : forall q, Good (nid st) st (addText st ps q)) by (intros q; apply G_addText, Good_refl, HT).
    assert (HEa : forall q, Eb (addText st ps q) = Eb st) by (intros q; unfold Eb; rewrite (ux_addText st ps q); reflexivity).
    assert (Ta : forall q, TKL (addText st ps q) pos) by (intros q; eapply Good_TKL; [exact HT|apply Ga|lia|rewrite HEa; lia]).
    revert Hprog. unfold istepF. cbv zeta. rewrite Es.
    destruct (_ || _).
    { rewrite parseDelimiterRun_node. cbv zeta. intros _.
      pose proof (parseDelimiterRun_shape (addText st ps pos) pos) as (P1 & _ & P3). cbv zeta in P1, P3.
      rewrite parseDelimiterRun_node in P1, P3. cbv zeta in P1, P3.
      assert (Hse' : spanEnd (addText st ps pos) = spanEnd st).
      { unfold spanEnd. destruct (fr_addText st ps pos) as [A1 A2]. rewrite A1, A2, (ux_addText st ps pos). reflexivity. }
      match goal with |- context [addNode ?s ?k ?a ?e ?c] =>
        pose proof (push_TKL s k a e (fun id => {| d_typ := if at_ (isrc s) pos =? 42 then tStar else tUnder;
                     d_flags := fActive + emphasisFlags (isrc s) pos e; d_n := spanLen pos e; d_node := id |}) pos (Ta pos) (fun id => eq_refl) ltac:(lia) Hp0) as HP;
        pose proof (ux_addNode s k a e c) as Hux;
        destruct (addNode s k a e c) as [st1 id] eqn:Ea end.
      cbn [fst snd] in *. cbv zeta in HP. apply HP; [lia| |exact Hux].
      specialize (P3 ltac:(rewrite Hse'; lia)). rewrite HEa, HEs, <- Hse'. exact P3. }
    destruct (_ =? 91).
    { intros _.
      match goal with |- context [addNode ?s ?k ?a ?e ?c] =>
        pose proof (push_TKL s k a e (fun id => {| d_typ := tLink; d_flags := fActive; d_n := 0; d_node := id |}) pos (Ta pos) (fun id => eq_refl) ltac:(lia) Hp0 ltac:(lia) ltac:(rewrite HEa, HEs; lia)) as HP;
        pose proof (ux_addNode s k a e c) as Hux;
        destruct (addNode s k a e c) as [st1 id] end.
      cbn [fst snd] in *. cbv zeta in HP. apply HP. exact Hux. }
    destruct (_ =? 93).
    { intros Hprog. pose proof (parseEndBracketF_Good rf tf (addText st ps pos) pos) as HG.
      destruct (Ta pos) as (T1 & L1 & L2). specialize (HG T1).
      destruct (parseEndBracketF rf tf (addText st ps pos) pos) as [st1 e]. cbn [fst snd] in *.
      eapply Good_TKL; [exact (Ta pos)|exact HG|lia|rewrite HEa; lia]. }
    destruct (_ =? 33).
    { destruct (Z.leb_spec (spanEnd st) (pos + 1)) as [L|L]; cbn [orb].
      - intros Hprog. cbn [fst snd] in *. eapply Good_TKL; [exact HT|apply Good_refl, HT|lia|lia].
      - destruct (negb _); [intros Hprog; cbn [fst snd] in *; eapply Good_TKL; [exact HT|apply Good_refl, HT|lia|lia]|]. intros _.
        match goal with |- context [addNode ?s ?k ?a ?e ?c] =>
          pose proof (push_TKL s k a e (fun id => {| d_typ := tImage; d_flags := fActive; d_n := 0; d_node := id |}) pos (Ta pos) (fun id => eq_refl) ltac:(lia) Hp0 ltac:(lia) ltac:(rewrite HEa, HEs; lia)) as HP;
          pose proof (ux_addNode s k a e c) as Hux;
          destruct (addNode s k a e c) as [st1 id] end.
        cbn [fst snd] in *. cbv zeta in HP. apply HP. exact Hux. }
    destruct (_ =? 32).
    { destruct (parseHardLineBreakSpace _) as [e ok]. destruct (_ && _); cbn [fst snd]; intros Hprog.
      - eapply Good_TKL; [exact HT| |lia|lia]. apply G_setIgn, G_addNode; [apply Ga|apply zkeys_nil].
      - eapply Good_TKL; [exact HT|apply Good_refl, HT|lia|lia]. }
    destruct (_ =? 96).
    { destruct (parseCodeSpan rf st pos) as [[cS cE] sE]. destruct (0 <=? sE); cbn [fst snd]; intros Hprog.
      - eapply Good_TKL; [exact HT| |lia|lia]. apply collectCodeSpan_Good, Ga.
      - eapply Good_TKL; [exact HT|apply Good_refl, HT|lia|lia]. }
    destruct (_ =? 60).
    { destruct (0 <=? _); cbn [fst snd].
      - intros Hprog. eapply Good_TKL; [exact HT| |lia|lia]. apply G_addNode; [apply Ga|]. apply zkeys_leaves. constructor; [split; reflexivity|constructor].
      - destruct (parseHTMLTag _ _) as [ts te]. destruct (negb _); cbn [fst snd]; intros Hprog.
        + eapply Good_TKL; [exact HT|apply Good_refl, HT|lia|lia].
        + eapply Good_TKL; [exact HT| |lia|lia]. apply G_advanceTo, G_addNode; [apply Ga|apply zkeys_kidsOf]. }
    destruct (_ =? 92).
    { intros Hprog.
      assert (HG : Good (nid st) st (fst (parseBackslash (addText st ps pos) pos))).
      { unfold parseBackslash. cbv zeta. destruct (_ || _ || _).
        - destruct (isLastSpan _); cbn [fst]; [apply G_addText, Ga|]. apply G_addNode; [apply G_setIgn, Ga|apply zkeys_nil].
        - destruct (isASCIIPunctuation _); cbn [fst]; apply G_addText, Ga. }
      destruct (parseBackslash (addText st ps pos) pos) as [st1 e]. cbn [fst snd] in *. eapply Good_TKL; [exact HT|exact HG|lia|lia]. }
    destruct (_ =? 38).
    { destruct (_ <? 0); cbn [fst snd]; intros Hprog.
      - eapply Good_TKL; [exact HT|apply Good_refl, HT|lia|lia].
      - eapply Good_TKL; [exact HT| |lia|lia]. apply G_addNode; [apply Ga|apply zkeys_nil]. }
    destruct (_ =? 10).
    { cbn [fst snd]. intros Hprog. eapply Good_TKL; [exact HT| |lia|lia]. destruct (negb _); [apply G_addNode; [apply Ga|apply zkeys_nil]|apply Ga]. }
    destruct (_ =? 13).
    { cbn [fst snd]. intros Hprog. eapply Good_TKL; [exact HT| |lia|lia]. destruct (negb _); [apply G_addNode; [apply Ga|apply zkeys_nil]|apply Ga]. }
    cbn [fst snd]. intros Hprog. eapply Good_TKL; [exact HT|apply Good_refl, HT|lia|lia].
  Qed.
End TKL.
