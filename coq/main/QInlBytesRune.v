(* QInlBytesRune.v -- T64 (t64-bytes): locality of utf8.DecodeRune / utf8.DecodeLastRune (pure list facts, no sg).
   A. decodeRune never looks behind a line feed:   decodeRune (cutLF p) = decodeRune p.
   B. the rune before a position depends only on the bytes back to the nearest ASCII byte, and not on that byte:
        a < 128 -> t <> [] -> fst (decodeLastRune (X ++ a :: t)) = fst (decodeLastRune t)
      (so it does not depend on X and a; and a line that starts the source sees the same rune as with a prefix X ++ [a]). *)
From Coq Require Import List ZArith Lia Bool.
Import ListNotations.
Require Import Base Tables Utf8 ShapesBase SliceBase.
Open Scope Z_scope.

(* ================= A. decodeRune ================= *)
Fixpoint cutLF (p : bytes) : bytes := match p with [] => [] | c :: r => if c =? 10 then [10] else c :: cutLF r end.

Lemma isCont_10 : isCont 10 = false. Proof. reflexivity. Qed.

Lemma dr_lf1 b0 x : decodeRune (b0 :: 10 :: x) = decodeRune [b0; 10].
Proof.
  unfold decodeRune. destruct (b0 <? 128); [reflexivity|].
  destruct ((194 <=? b0) && (b0 <=? 223)); [reflexivity|].
  destruct ((224 <=? b0) && (b0 <=? 239)).
  { destruct x as [|b2 x]; [reflexivity|]. cbv zeta. destruct (b0 =? 224); reflexivity. }
  destruct ((240 <=? b0) && (b0 <=? 244)); [|reflexivity].
  destruct x as [|b2 x]; [reflexivity|]. destruct x as [|b3 x]; [reflexivity|]. cbv zeta. destruct (b0 =? 240); reflexivity.
Qed.
Lemma dr_lf2 b0 b1 x : decodeRune (b0 :: b1 :: 10 :: x) = decodeRune [b0; b1; 10].
Proof.
  unfold decodeRune. destruct (b0 <? 128); [reflexivity|].
  destruct ((194 <=? b0) && (b0 <=? 223)); [reflexivity|].
  destruct ((224 <=? b0) && (b0 <=? 239)); [reflexivity|].
  destruct ((240 <=? b0) && (b0 <=? 244)); [|reflexivity].
  destruct x as [|b3 x]; [reflexivity|]. cbv zeta. rewrite isCont_10, andb_false_r. reflexivity.
Qed.
Lemma dr_lf3 b0 b1 b2 x : decodeRune (b0 :: b1 :: b2 :: 10 :: x) = decodeRune [b0; b1; b2; 10].
Proof.
  unfold decodeRune. destruct (b0 <? 128); [reflexivity|].
  destruct ((194 <=? b0) && (b0 <=? 223)); [reflexivity|].
  destruct ((224 <=? b0) && (b0 <=? 239)); [reflexivity|].
  destruct ((240 <=? b0) && (b0 <=? 244)); reflexivity.
Qed.
Lemma dr_4 b0 b1 b2 b3 x : decodeRune (b0 :: b1 :: b2 :: b3 :: x) = decodeRune [b0; b1; b2; b3].
Proof.
  unfold decodeRune. destruct (b0 <? 128); [reflexivity|].
  destruct ((194 <=? b0) && (b0 <=? 223)); [reflexivity|].
  destruct ((224 <=? b0) && (b0 <=? 239)); [reflexivity|].
  destruct ((240 <=? b0) && (b0 <=? 244)); reflexivity.
Qed.

Theorem decodeRune_cutLF p : decodeRune (cutLF p) = decodeRune p.
Proof.
  destruct p as [|b0 p]; [reflexivity|]. cbn [cutLF]. destruct (Z.eqb_spec b0 10) as [->|N0]; [reflexivity|].
  destruct p as [|b1 p]; [reflexivity|]. cbn [cutLF]. destruct (Z.eqb_spec b1 10) as [->|N1]; [symmetry; apply dr_lf1|].
  destruct p as [|b2 p]; [reflexivity|]. cbn [cutLF]. destruct (Z.eqb_spec b2 10) as [->|N2]; [symmetry; apply dr_lf2|].
  destruct p as [|b3 p]; [reflexivity|]. cbn [cutLF]. destruct (Z.eqb_spec b3 10) as [->|N3]; [symmetry; apply dr_lf3|].
  rewrite dr_4. symmetry. apply dr_4.
Qed.
Corollary decodeRune_agree p q : cutLF p = cutLF q -> decodeRune p = decodeRune q.
Proof. intros H. rewrite <- (decodeRune_cutLF p), <- (decodeRune_cutLF q), H. reflexivity. Qed.

(* ================= B. decodeLastRune ================= *)
Definition dlim (e : Z) : Z := if e - 4 <? 0 then 0 else e - 4.
Definition dq (p : bytes) : Z := dlr_back 4 p (len p - 2) (dlim (len p)).
Definition dres (p : bytes) (start : Z) : Z * Z :=
  let '(rn, size) := decodeRune (sub p start (len p)) in if negb (start + size =? len p) then (RuneError, 1) else (rn, size).

Lemma decodeLastRune_ascii' p : p <> [] -> at_ p (len p - 1) < 128 -> decodeLastRune p = (at_ p (len p - 1), 1).
Proof.
  intros Hp H. unfold decodeLastRune. cbv zeta. assert (0 < len p) by (destruct p; [contradiction|rewrite len_cons; pose proof (len_nonneg p); lia]).
  destruct (Z.eqb_spec (len p) 0); [lia|]. destruct (Z.ltb_spec (at_ p (len p - 1)) 128); [reflexivity|lia].
Qed.
Lemma decodeLastRune_multi p : p <> [] -> 128 <= at_ p (len p - 1) ->
  decodeLastRune p = dres p (if dq p <? 0 then 0 else dq p).
Proof.
  intros Hp H. unfold decodeLastRune, dres, dq, dlim. cbv zeta. assert (0 < len p) by (destruct p; [contradiction|rewrite len_cons; pose proof (len_nonneg p); lia]).
  destruct (Z.eqb_spec (len p) 0); [lia|]. destruct (Z.ltb_spec (at_ p (len p - 1)) 128); [lia|].
  replace (len p - 1 - 1) with (len p - 2) by lia. reflexivity.
Qed.

(* the scan for the start of the rune, with one more byte in front *)
Lemma dlr_back_cons x t : forall f start lim lim', (lim' = lim + 1 \/ (lim' = 0 /\ lim = 0)) -> lim - 1 <= start -> 0 <= lim ->
  (0 <= dlr_back f t start lim -> dlr_back f (x :: t) (start + 1) lim' = 1 + dlr_back f t start lim) /\
  (dlr_back f t start lim < 0 -> dlr_back f (x :: t) (start + 1) lim' <= 0).
Proof.
  induction f as [|f IH]; intros start lim lim' Hl Hs H0.
  - cbn [dlr_back]. split; intros; lia.
  - cbn [dlr_back]. destruct (Z.ltb_spec start lim) as [L|L].
    + destruct Hl as [->|[-> ->]].
      * destruct (Z.ltb_spec (start + 1) (lim + 1)); [|lia]. split; intros; lia.
      * assert (start = -1) by lia. subst start. change (-1 + 1) with 0. change (0 <? 0) with false. cbv iota.
        split; [intros; lia|]. intros _. destruct (runeStart (at_ (x :: t) 0)); [lia|].
        change (0 - 1) with (-1). destruct f as [|f]; cbn [dlr_back]; [lia|]. change (-1 <? 0) with true. cbv iota. lia.
    + assert (E : (start + 1 <? lim') = false) by (apply Z.ltb_ge; destruct Hl as [->|[-> ->]]; lia). rewrite E.
      rewrite (at_S x t start) by lia. destruct (runeStart (at_ t start)); [split; intros; lia|].
      replace (start + 1 - 1) with (start - 1 + 1) by lia. apply IH; [exact Hl|lia|exact H0].
Qed.
(* a scan that falls off the left end has passed position 0 *)
Lemma dlr_back_neg t : forall f start lim, dlr_back f t start lim < 0 -> 0 <= start -> runeStart (at_ t 0) = false.
Proof.
  induction f as [|f IH]; intros start lim H Hs; cbn [dlr_back] in H; [lia|].
  destruct (start <? lim); [lia|]. destruct (runeStart (at_ t start)) eqn:E; [lia|].
  destruct (Z.eq_dec start 0) as [->|N]; [exact E|]. apply (IH (start - 1) lim H). lia.
Qed.
(* a scan over a list that begins with a rune start does not fall off *)
Lemma dlr_back_stop t : runeStart (at_ t 0) = true -> forall f start lim, 0 <= start -> 0 <= dlr_back f t start lim.
Proof.
  intros H0. induction f as [|f IH]; intros start lim Hs; cbn [dlr_back]; [exact Hs|].
  destruct (start <? lim); [exact Hs|]. destruct (runeStart (at_ t start)) eqn:E; [exact Hs|].
  apply IH. destruct (Z.eq_dec start 0) as [->|N]; [congruence|lia].
Qed.

Lemma decodeRune_cont b r : runeStart b = false -> decodeRune (b :: r) = (RuneError, 1).
Proof.
  unfold runeStart. intros H. apply negb_false_iff in H. apply andb_true_iff in H. destruct H as [H1 H2]. apply Z.leb_le in H1, H2.
  unfold decodeRune. destruct (Z.ltb_spec b 128); [lia|].
  destruct (Z.leb_spec 194 b); [lia|]. cbn [andb].
  destruct (Z.leb_spec 224 b); [lia|]. cbn [andb].
  destruct (Z.leb_spec 240 b); [lia|]. reflexivity.
Qed.
Lemma decodeRune_single b : 128 <= b -> decodeRune [b] = (RuneError, 1).
Proof.
  intros H. unfold decodeRune. destruct (Z.ltb_spec b 128); [lia|].
  destruct (_ && _); [reflexivity|]. destruct (_ && _); [reflexivity|]. destruct (_ && _); reflexivity.
Qed.
Lemma decodeRune_ascii b r : b < 128 -> decodeRune (b :: r) = (b, 1).
Proof. intros H. unfold decodeRune. destruct (Z.ltb_spec b 128); [reflexivity|lia]. Qed.

Lemma sub_cons {A} (x : A) t a b : 0 <= a -> sub (x :: t) (a + 1) (b + 1) = sub t a b.
Proof. intros H. unfold sub. rewrite from_cons by exact H. f_equal. lia. Qed.
Lemma sub_all {A} (l : list A) : sub l 0 (len l) = l.
Proof. unfold sub. rewrite from_0. replace (len l - 0) with (len l) by lia. apply sl_upto_all. Qed.
Lemma dlim_cons e : 1 <= e -> dlim (e + 1) = dlim e + 1 \/ (dlim (e + 1) = 0 /\ dlim e = 0).
Proof. intros H. unfold dlim. destruct (Z.ltb_spec (e + 1 - 4) 0); destruct (Z.ltb_spec (e - 4) 0); lia. Qed.
Lemma dlim_nn e : 0 <= dlim e. Proof. unfold dlim. destruct (Z.ltb_spec (e - 4) 0); lia. Qed.
Lemma dlim_le e : 1 <= e -> dlim e - 1 <= e - 2. Proof. intros H. unfold dlim. destruct (Z.ltb_spec (e - 4) 0); lia. Qed.

Lemma len_pos {A} (t : list A) : t <> [] -> 1 <= len t.
Proof. destruct t; [contradiction|]. intros _. rewrite len_cons. pose proof (len_nonneg t). lia. Qed.
Lemma at_last_cons x t : t <> [] -> at_ (x :: t) (len (x :: t) - 1) = at_ t (len t - 1).
Proof. intros H. pose proof (len_pos t H). rewrite len_cons. replace (1 + len t - 1) with (len t - 1 + 1) by lia. apply at_S. lia. Qed.

(* the scan of x :: t against the scan of t *)
Lemma dq_cons x t : t <> [] ->
  (0 <= dq t -> dq (x :: t) = 1 + dq t) /\ (dq t < 0 -> dq (x :: t) <= 0).
Proof.
  intros Ht. pose proof (len_pos t Ht) as L. unfold dq. rewrite len_cons.
  replace (1 + len t - 2) with (len t - 2 + 1) by lia. replace (1 + len t) with (len t + 1) by lia.
  apply dlr_back_cons; [apply dlim_cons, L|apply dlim_le, L|apply dlim_nn].
Qed.

(* one more byte in front of a list whose scan does not fall off: nothing changes *)
Definition Good (p : bytes) : Prop := at_ p (len p - 1) < 128 \/ 0 <= dq p.
Lemma decodeLastRune_cons_good x t : t <> [] -> Good t -> Good (x :: t) /\ decodeLastRune (x :: t) = decodeLastRune t.
Proof.
  intros Ht G. pose proof (len_pos t Ht) as L. assert (Hx : x :: t <> []) by discriminate.
  destruct (Z.lt_ge_cases (at_ t (len t - 1)) 128) as [A|A].
  - split; [left; rewrite at_last_cons by exact Ht; exact A|].
    rewrite (decodeLastRune_ascii' (x :: t) Hx) by (rewrite at_last_cons by exact Ht; exact A).
    rewrite (decodeLastRune_ascii' t Ht A), at_last_cons by exact Ht. reflexivity.
  - destruct G as [G|G]; [lia|]. destruct (dq_cons x t Ht) as [Q _]. specialize (Q G).
    split; [right; lia|].
    rewrite (decodeLastRune_multi (x :: t) Hx) by (rewrite at_last_cons by exact Ht; lia). rewrite (decodeLastRune_multi t Ht) by lia.
    rewrite Q. destruct (Z.ltb_spec (1 + dq t) 0); [lia|]. destruct (Z.ltb_spec (dq t) 0); [lia|].
    unfold dres. rewrite len_cons. replace (1 + dq t) with (dq t + 1) by lia. replace (1 + len t) with (len t + 1) by lia.
    rewrite sub_cons by lia. destruct (decodeRune (sub t (dq t) (len t))) as [rn size].
    replace (dq t + 1 + size =? len t + 1) with (dq t + size =? len t) by (destruct (Z.eqb_spec (dq t + size) (len t)); destruct (Z.eqb_spec (dq t + 1 + size) (len t + 1)); lia || reflexivity).
    reflexivity.
Qed.
Lemma decodeLastRune_app_good X : forall t, t <> [] -> Good t -> Good (X ++ t) /\ decodeLastRune (X ++ t) = decodeLastRune t.
Proof.
  induction X as [|x X IH]; intros t Ht G; [split; [exact G|reflexivity]|]. cbn [app].
  destruct (IH t Ht G) as [G1 E1]. assert (Hn : X ++ t <> []) by (destruct X; [exact Ht|discriminate]).
  destruct (decodeLastRune_cons_good x (X ++ t) Hn G1) as [G2 E2]. split; [exact G2|]. rewrite E2. exact E1.
Qed.
(* a list that begins with a rune start is good *)
Lemma Good_start a t : runeStart a = true -> t <> [] -> Good (a :: t).
Proof.
  intros Ha Ht. right. unfold dq. apply dlr_back_stop; [exact Ha|]. pose proof (len_pos t Ht). rewrite len_cons. lia.
Qed.
Lemma runeStart_ascii a : a < 128 -> runeStart a = true.
Proof. intros H. unfold runeStart. destruct (Z.leb_spec 128 a); [lia|reflexivity]. Qed.

(* an ASCII byte in front of a non-empty list does not change the rune *)
Lemma decodeLastRune_cons_ascii a t : a < 128 -> t <> [] -> fst (decodeLastRune (a :: t)) = fst (decodeLastRune t).
Proof.
  intros Ha Ht. pose proof (len_pos t Ht) as L. assert (Hx : a :: t <> []) by discriminate.
  destruct (Z.lt_ge_cases (at_ t (len t - 1)) 128) as [A|A].
  { destruct (decodeLastRune_cons_good a t Ht (or_introl A)) as [_ E]. rewrite E. reflexivity. }
  destruct (Z.le_gt_cases 0 (dq t)) as [Q|Q].
  { destruct (decodeLastRune_cons_good a t Ht (or_intror Q)) as [_ E]. rewrite E. reflexivity. }
  destruct (dq_cons a t Ht) as [_ Q']. specialize (Q' ltac:(lia)).
  pose proof (Good_start a t (runeStart_ascii a Ha) Ht) as [G|G]; [rewrite at_last_cons in G by exact Ht; lia|].
  assert (E0 : dq (a :: t) = 0) by lia.
  rewrite (decodeLastRune_multi (a :: t) Hx) by (rewrite at_last_cons by exact Ht; lia). rewrite (decodeLastRune_multi t Ht) by lia.
  rewrite E0. change (0 <? 0) with false. cbv iota. destruct (Z.ltb_spec (dq t) 0); [|lia].
  unfold dres. rewrite !sub_all. rewrite (decodeRune_ascii a t Ha).
  replace (0 + 1 =? len (a :: t)) with false by (symmetry; apply Z.eqb_neq; rewrite len_cons; lia). cbn [negb fst].
  assert (Et : decodeRune t = (RuneError, 1)).
  { destruct t as [|b t']; [contradiction|]. destruct t' as [|b' t''].
    - apply decodeRune_single. exact A.
    - apply decodeRune_cont. unfold dq in Q. apply (dlr_back_neg (b :: b' :: t'') _ _ _ Q). rewrite !len_cons. pose proof (len_nonneg t''). lia. }
  rewrite Et. destruct (negb _); reflexivity.
Qed.

(* the two forms used for the character before a delimiter run *)
Theorem decodeLastRune_prefix X a t : a < 128 -> t <> [] -> fst (decodeLastRune (X ++ a :: t)) = fst (decodeLastRune t).
Proof.
  intros Ha Ht. destruct (decodeLastRune_app_good X (a :: t) ltac:(discriminate) (Good_start a t (runeStart_ascii a Ha) Ht)) as [_ E].
  rewrite E. apply decodeLastRune_cons_ascii; assumption.
Qed.
Corollary decodeLastRune_indep X X' a a' t : a < 128 -> a' < 128 -> t <> [] ->
  fst (decodeLastRune (X ++ a :: t)) = fst (decodeLastRune (X' ++ a' :: t)).
Proof. intros Ha Ha' Ht. rewrite !decodeLastRune_prefix by assumption. reflexivity. Qed.
Lemma decodeLastRune_snoc X a : a < 128 -> fst (decodeLastRune (X ++ [a])) = a.
Proof.
  intros Ha. rewrite decodeLastRune_ascii'.
  - rewrite len_app. change (len [a]) with 1. replace (len X + 1 - 1) with (len X) by lia. cbn [fst]. apply sl_at_app_len.
  - destruct X; discriminate.
  - rewrite len_app. change (len [a]) with 1. replace (len X + 1 - 1) with (len X) by lia. rewrite sl_at_app_len. exact Ha.
Qed.

Print Assumptions decodeRune_cutLF.
Print Assumptions decodeLastRune_prefix.
