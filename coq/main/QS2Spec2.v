(* QS2Spec2.v -- T58: the statement QuoteSimDefs.parseBlocks_quote_statement, for every non-empty document without tab, CR and NUL:
   from the exact simulation theorem QS2Drv5.parseBlocks_quote_sim3 (children of the quote with their lastLineBlank flags) and the
   identification MO2 = qB o shiftB (QS2Spec.MO2_qB). *)
From Coq Require Import List ZArith Lia Bool.
Import ListNotations.
Require Import Base Tree LP Driver Props SliceBase L2Bnd L2BndS L2CC BShDef BlockShapes TDefs TDesc LADef LA11 DefSpansWalk
  QuoteSimDefs QuoteSimNest QuoteSimMap QuoteSimReloc QuoteSimAux QuoteSimLines QuoteSimDrv1 QuoteSimSpec
  QS2Reloc QS2Drv1 QS2Drv2 QS2Spec QS2Drv5.
Open Scope Z_scope.

Lemma doneX_quoteKids D : noCR D -> forall roots, Forall (QS2Drv5.GoodR D) roots -> Forall (fun r => nnB (rb_blk r)) roots ->
  QS2Drv5.doneX D roots (len D) = quoteKids D roots.
Proof.
  intros Hcr. induction roots as [|r rest IH]; intros HG HN; [reflexivity|]. inversion HG as [|? ? Gr Grest]; subst. inversion HN as [|? ? Nr Nrest]; subst.
  cbn [QS2Drv5.doneX quoteKids]. cbv zeta. rewrite (IH Grest Nrest).
  destruct Gr as (Go & sD & sQ & M & Gl & GM & Gc & Gla & Ginv & _).
  rewrite (MO2_qB D (rb_start r) Hcr Go sD sQ M Gl GM (rb_blk r) Nr Gc Gla Ginv). unfold QS2Drv5.mkb. reflexivity.
Qed.

Theorem parseBlocks_quote : parseBlocks_quote_statement.
Proof.
  intros D HT Hne.
  assert (H9 : noTab D) by (unfold tabFree in HT; unfold noTab; eapply Forall_impl; [|exact HT]; cbv beta; tauto).
  assert (H13 : noCR D) by (unfold tabFree in HT; unfold noCR; eapply Forall_impl; [|exact HT]; cbv beta; tauto).
  assert (H0 : noNul D) by (unfold tabFree in HT; unfold noNul; eapply Forall_impl; [|exact HT]; cbv beta; tauto).
  destruct (parseBlocks_quote_sim3 D H9 H13 H0 Hne) as (lb & E & G). exists lb.
  assert (Hz : forallb (fun c => negb (c =? 0)) D = true).
  { apply forallb_forall. intros c Hc. unfold noNul in H0. rewrite Forall_forall in H0. apply negb_true_iff, Z.eqb_neq, H0, Hc. }
  pose proof (parseBlocks_block_shapes_partial D Hz) as HS.
  rewrite (doneX_quoteKids D H13 (fst (parseBlocks D)) G) in E; [exact E|].
  rewrite Forall_forall in *. intros r Hr. apply (bshapes_nnB (rb_src r)), HS, Hr.
Qed.
Check parseBlocks_quote.
Print Assumptions parseBlocks_quote.
