(* QRootEnd3.v -- t64-rootend, part 3: the eight block starts keep the context Y (QRootEnd2). *)
From Coq Require Import List ZArith Lia Bool.
Import ListNotations.
Require Import Base Tree Rdr Link Collect Html Recog LP Rules Starts Driver Leaf3e RdrBound L2Kind L2Kind2 L2CC TRdr TDefs TOcp TInv TDesc TStarts
  Rec17 BSTree LADef LA1 LA2 LAR1 BSOrph QRootEnd1 QRootEnd2.
Require NoPanic47.
Open Scope Z_scope.

(* ---- bookkeeping after the first openBlock of a start ---- *)
Definition PostY (q : lp) (K : Z) : Prop := Y q /\ st12 q /\ (1 <= cdepth q)%nat /\ ckind q K.

Lemma PostY_sameT q q' K : PostY q K -> sameT q q' -> Y q' -> state q' = state q -> PostY q' K.
Proof.
  intros (a & c & e & f) HT HX Hs. split; [exact HX|]. split; [unfold st12; rewrite Hs; exact c|].
  split; [rewrite (cd_same _ _ (sameT_same _ _ HT)); exact e|eapply ckind_same; [apply sameT_same, HT|exact f]].
Qed.
Lemma PostY_advance q n K : PostY q K -> PostY (advance q n) K.
Proof. intros H. eapply PostY_sameT; [exact H|apply sameT_advance|apply Y_advance, H|apply state_advance_ne0, st12_ne0, H]. Qed.
Lemma PostY_consumeIndent q n K : PostY q K -> PostY (consumeIndent q n) K.
Proof. intros H. eapply PostY_sameT; [exact H|apply sameT_consumeIndent|apply Y_consumeIndent, H|apply state_consumeIndent_ne0, st12_ne0, H]. Qed.
Lemma PostY_consumeLine q K : PostY q K -> PostY (consumeLine q) K /\ state (consumeLine q) = stLineConsumed /\ li (consumeLine q) = len (line (consumeLine q)).
Proof.
  intros H. assert (Hs : state (consumeLine q) = stLineConsumed).
  { destruct H as (_ & [E|E] & _); [apply state_consumeLine_open, st_open_1, E|apply state_consumeLine_2, E]. }
  assert (Hl : li (consumeLine q) = len (line (consumeLine q))).
  { destruct H as ((_ & _ & c & _) & _). rewrite (li_consumeLine q) by apply c. destruct (sameT_consumeLine q) as (_ & _ & _ & E & _). rewrite E. reflexivity. }
  split; [|split; [exact Hs|exact Hl]]. destruct H as (a & c & e & f). split; [apply Y_consumeLine, a|]. split; [right; exact Hs|].
  split; [rewrite (cd_same _ _ (sameT_same _ _ (sameT_consumeLine q))); exact e|eapply ckind_same; [apply sameT_same, sameT_consumeLine|exact f]].
Qed.
Lemma PostY_setters q f K : PostY q K -> setterOK f -> PostY (updCont q f) K.
Proof.
  intros (a & c & e & g) Hf. split; [apply Y_setters; assumption|]. split; [exact c|]. split; [exact e|].
  apply ckind_updCont; [intros x; apply Hf|exact g].
Qed.
Lemma PostY_collectInline q kind n K : PostY q K -> K <> ParagraphKind -> PostY (collectInline q kind n) K.
Proof.
  intros (a & c & e & g) HK. split; [eapply Y_collectInline; eassumption|].
  split; [unfold st12; rewrite state_collectInline_ne0 by (apply st12_ne0, c); exact c|].
  split; [rewrite cdepth_collectInline; exact e|apply ckind_collectInline, g].
Qed.
Lemma PostY_openBlock q k : Y q -> st_open q -> k <> SetextHeadingKind ->
  (k <> ListItemKind \/ canContain (containerKind q) k = true) -> PostY (openBlock q k) k.
Proof.
  intros HX Hs Hk Hcc. destruct (Y_openBlock q k HX Hs Hk Hcc) as (A & B & C & D).
  split; [exact A|]. split; [left; exact D|]. tauto.
Qed.
Lemma PostY_end q K : PostY q K -> li q = len (line q) -> Y (endBlock q).
Proof. intros (a & _) Hl. apply Y_endBlock; [exact a|intros _; exact Hl]. Qed.

Definition StartY (f : lp -> lp) : Prop := forall p, Y p -> state p = stOpening -> Y (f p).

Lemma preludeY p n : Y p -> state p = stOpening -> Y (consumeIndent p n) /\ st_open (consumeIndent p n).
Proof. intros HX Hs. split; [apply Y_consumeIndent, HX|apply st_open_consumeIndent, st_open_0, Hs]. Qed.

Lemma startY_BlockQuote : StartY startBlockQuote.
Proof.
  intros p HX Hs. unfold startBlockQuote. cbv zeta. destruct (_ <=? _); [exact HX|]. destruct (negb _); [exact HX|].
  destruct (preludeY p (indent p) HX Hs) as (A & C).
  assert (H2 : PostY (openBlock (consumeIndent p (indent p)) BlockQuoteKind) BlockQuoteKind) by (apply PostY_openBlock; [exact A|exact C|discriminate|left; discriminate]).
  pose proof (PostY_advance _ 1 _ H2) as H3.
  destruct (0 <? _); [apply (PostY_consumeIndent _ 1 _ H3)|apply H3].
Qed.
Lemma startY_ATX : StartY startATX.
Proof.
  intros p HX Hs. unfold startATX. cbv zeta. destruct (_ <=? _); [exact HX|].
  destruct (parseATXHeading _) as [[level cs] ce]. destruct (level <? 1); [exact HX|].
  destruct (preludeY p (indent p) HX Hs) as (A & C).
  assert (H2 : PostY (openBlock (consumeIndent p (indent p)) ATXHeadingKind) ATXHeadingKind) by (apply PostY_openBlock; [exact A|exact C|discriminate|left; discriminate]).
  pose proof (PostY_setters _ (fun b => set_bn b level) _ H2 ltac:(setters)) as H3.
  pose proof (PostY_collectInline _ UnparsedKind (ce - cs) _ (PostY_advance _ cs _ H3) ltac:(discriminate)) as H4.
  destruct (PostY_consumeLine _ _ H4) as (H5 & S5 & L5). apply (PostY_end _ _ H5 L5).
Qed.
Lemma startY_Fenced : StartY startFenced.
Proof.
  intros p HX Hs. unfold startFenced. cbv zeta. destruct (_ <=? _); [exact HX|].
  destruct (parseCodeFence _) as [[[fc fnn] is_] ie]. destruct (fnn =? 0); [exact HX|].
  destruct (preludeY p (indent p) HX Hs) as (A & C).
  assert (H2 : PostY (openBlock (consumeIndent p (indent p)) FencedCodeBlockKind) FencedCodeBlockKind) by (apply PostY_openBlock; [exact A|exact C|discriminate|left; discriminate]).
  pose proof (PostY_setters _ (fun b => set_bn (set_bchar b fc) fnn) _ H2 ltac:(setters)) as H3.
  pose proof (PostY_setters _ (fun b => set_bindent b (indent p)) _ H3 ltac:(setters)) as H4.
  destruct (spanValid _).
  - pose proof (PostY_collectInline _ InfoStringKind (ie - is_) _ (PostY_advance _ is_ _ H4) ltac:(discriminate)) as H5.
    destruct (PostY_consumeLine _ _ H5) as (H6 & _). apply H6.
  - destruct (PostY_consumeLine _ _ H4) as (H6 & _). apply H6.
Qed.
Lemma startY_HTML : StartY startHTML.
Proof.
  intros p HX Hs. unfold startHTML. cbv zeta. destruct (_ <=? _); [exact HX|]. destruct (negb _); [exact HX|].
  destruct (_ <? 0); [exact HX|]. destruct (negb _ && _); [exact HX|].
  assert (H2 : PostY (openBlock p HTMLBlockKind) HTMLBlockKind) by (apply PostY_openBlock; [exact HX|apply st_open_0, Hs|discriminate|left; discriminate]).
  match goal with |- Y (if ?c then _ else _) => destruct c end.
  - pose proof (PostY_setters _ (fun b => set_bn b (firstHtmlCond 0 7 (bytesAfterIndent p))) _ H2 ltac:(setters)) as H3.
    set (q := updCont (openBlock p HTMLBlockKind) _) in *.
    pose proof (PostY_collectInline _ RawHTMLKind (len (bytesAfterIndent q)) _ H3 ltac:(discriminate)) as H4.
    destruct (PostY_consumeLine _ _ H4) as (H5 & S5 & L5). apply (PostY_end _ _ H5 L5).
  - apply (PostY_setters _ (fun b => set_bn b _) _ H2). setters.
Qed.
Lemma startY_Thematic : StartY startThematic.
Proof.
  intros p HX Hs. unfold startThematic. cbv zeta. destruct (_ <=? _); [exact HX|]. destruct (_ <? 0); [exact HX|].
  destruct (preludeY p (indent p) HX Hs) as (A & C).
  assert (H2 : PostY (openBlock (consumeIndent p (indent p)) ThematicBreakKind) ThematicBreakKind) by (apply PostY_openBlock; [exact A|exact C|discriminate|left; discriminate]).
  pose proof (PostY_advance _ (parseThematicBreak (bytesAfterIndent p)) _ H2) as H3.
  destruct (PostY_consumeLine _ _ H3) as (H5 & S5 & L5). apply (PostY_end _ _ H5 L5).
Qed.
Lemma startY_Indented : StartY startIndented.
Proof.
  intros p HX Hs. unfold startIndented. destruct (_ || _ || _); [exact HX|].
  destruct (preludeY p codeBlockIndentLimit HX Hs) as (A & C).
  apply (PostY_openBlock _ IndentedCodeBlockKind A C); [discriminate|left; discriminate].
Qed.

Lemma startY_ListItem : StartY startListItem.
Proof.
  intros p HX Hs. unfold startListItem. cbv zeta. destruct (_ <=? _); [exact HX|].
  destruct (parseListMarker _) as [[delim n] mend]. destruct (_ || _); [exact HX|]. destruct (_ && _); [exact HX|].
  destruct (preludeY p (indent p) HX Hs) as (A & C).
  set (p1 := consumeIndent p (indent p)) in *.
  set (cdelim := if (containerKind p1 =? ListKind) || (containerKind p1 =? ListItemKind) then bchar (contBlock p1) else 0).
  set (p2 := if negb (containerKind p1 =? ListKind) || negb (cdelim =? delim) then _ else p1).
  assert (H2 : Y p2 /\ st_open p2 /\ (1 <= cdepth p2)%nat /\ containerKind p2 = ListKind).
  { unfold p2. destruct (negb (containerKind p1 =? ListKind) || negb (cdelim =? delim)) eqn:Ec.
    - assert (Ho : PostY (openBlock p1 ListKind) ListKind) by (apply PostY_openBlock; [exact A|exact C|discriminate|left; discriminate]).
      pose proof (PostY_setters _ (fun b => set_bchar b delim) _ Ho ltac:(setters)) as (a & c & e & f).
      split; [exact a|]. split; [right; exact (state_openBlock p1 ListKind C)|].
      split; [exact e|]. apply containerKind_of; [apply a|exact f].
    - apply orb_false_iff in Ec. destruct Ec as [Ec _]. apply negb_false_iff, Z.eqb_eq in Ec.
      assert (Hd : (1 <= cdepth p1)%nat).
      { destruct (cdepth p1) eqn:Ed; [|lia]. exfalso. rewrite (containerKind_root p1 Ed) in Ec. destruct A as (_ & (A1 & _) & _). rewrite A1 in Ec. discriminate. }
      split; [exact A|]. split; [exact C|]. split; [exact Hd|exact Ec]. }
  clearbody p2. destruct H2 as (X2 & S2 & D2 & K2).
  assert (C2 : canContain (containerKind p2) ListItemKind = true) by (rewrite K2; reflexivity).
  assert (Ho3 : PostY (openBlock p2 ListItemKind) ListItemKind) by (apply PostY_openBlock; [exact X2|exact S2|discriminate|right; exact C2]).
  pose proof (cdepth_openBlock_in p2 ListItemKind S2 C2) as Ed3.
  pose proof (PostY_setters _ (fun b => set_bchar b delim) _ Ho3 ltac:(setters)) as H3.
  set (p3 := updCont (openBlock p2 ListItemKind) (fun b => set_bchar b delim)) in *.
  assert (Ed3' : cdepth p3 = S (cdepth p2)) by exact Ed3.
  assert (S3 : st_open p3) by (right; exact (state_openBlock p2 ListItemKind S2)).
  assert (K3 : containerKind p3 = ListItemKind) by (apply containerKind_of; [apply H3|apply H3]).
  assert (C3 : canContain (containerKind p3) ListMarkerKind = true) by (rewrite K3; reflexivity).
  assert (H4 : PostY (openBlock p3 ListMarkerKind) ListMarkerKind) by (apply PostY_openBlock; [apply H3|exact S3|discriminate|right; exact C3]).
  pose proof (cdepth_openBlock_in p3 ListMarkerKind S3 C3) as Ed4.
  pose proof (kindAt_openBlock_in p3 ListMarkerKind (cdepth p3) S3 C3 (le_n _)) as Kk4.
  pose proof (PostY_advance _ mend _ H4) as H5.
  set (p5 := advance (openBlock p3 ListMarkerKind) mend) in *.
  assert (Ed5 : cdepth p5 = S (cdepth p3)) by (unfold p5; rewrite (cd_same _ _ (sameT_same _ _ (sameT_advance _ _))); exact Ed4).
  assert (Er5 : root p5 = root (openBlock p3 ListMarkerKind)) by apply (sameT_advance _ mend).
  assert (Hq : PostY (endBlock p5) ListItemKind).
  { destruct H5 as (a & c & e & f).
    split; [apply Y_endBlock; [exact a|intros E1; lia]|].
    split; [unfold st12; rewrite state_endBlock_ne0 by (apply st12_ne0, c); exact c|].
    rewrite (cdepth_endBlock p5 (cdepth p3) (proj1 a) Ed5). split; [lia|].
    apply ckind_kindAt. rewrite (cdepth_endBlock p5 (cdepth p3) (proj1 a) Ed5).
    destruct (root_endBlock p5 (cdepth p3) (proj1 a) Ed5) as (q0 & e0 & Er). rewrite Er.
    rewrite kindAt_updAt; [|intros b0; apply bkind_closeF|lia]. rewrite Er5, Kk4.
    intros k0 Hk0. destruct H3 as (_ & _ & _ & f3). apply (proj1 (ckind_kindAt p3 ListItemKind) f3). exact Hk0. }
  set (q := endBlock p5) in *.
  destruct (isRestBlank q).
  - destruct (PostY_consumeLine _ _ (PostY_setters _ (fun b => set_bindent b (indent p + mend + 1)) _ Hq ltac:(setters))) as (H6 & _). apply H6.
  - destruct (indent q <? 1); [apply (PostY_setters _ (fun b => set_bindent b _) _ Hq); setters|].
    destruct (4 <? indent q); apply (PostY_setters _ (fun b => set_bindent b _) _ (PostY_consumeIndent _ _ _ Hq)); setters.
Qed.
