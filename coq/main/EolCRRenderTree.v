From Coq Require Import List ZArith Lia Bool.
Import ListNotations.
Require Import Base Tree Rdr Link Collect Inl3a Inl3e Driver Render Props EolCRRenderDefs EolCRRenderI.
Require Import SpanHypDef SpanHyp InlineSpans ComposeSpans2 ExInv1 ExDrv.
Require Import EolCRRenderInlMain EolCRRenderBlk.
Open Scope Z_scope.

(* ====================================================================================================
   C14, CR clause, renderer, part 4: the tree fact EolCRRenderDefs.destOK_statement for EVERY input
   (the text of every link destination and of every autolink contains no line ending), composed from
     (a) EolCRRenderInlMain.parseInlines_dok_partial : the inline parser on one leaf block whose entries are childless,
     (b) EolCRRenderBlk.destBlocks                   : the LinkDestination entries of the block layer,
   and, already proved for every input: the entry conditions of every leaf (ComposeSpans2.parseBlocks_entriesOKroots)
   and the childlessness of the entries (ExDrv.parseBlocks_okRX: ExInv1.inv).
   ==================================================================================================== *)
Lemma dokI_kidless src k : ikids k = [] -> dokI src k = true.
Proof. intros E. rewrite dokI_eq, E. destruct (_ =? LinkDestinationKind); destruct (_ =? AutolinkKind); reflexivity. Qed.

(* an entry the inline pass leaves alone *)
Lemma entry_dok src B u : destEntry src u = true -> eE B u = true -> dokI src u = true.
Proof.
  intros Hd He. rewrite dokI_eq. unfold destEntry in Hd. unfold eE in He.
  apply andb_true_iff. split; [apply andb_true_iff; split|].
  - exact Hd.
  - destruct (Z.eqb_spec (ikind u) AutolinkKind) as [E|_]; [|reflexivity]. rewrite E in He. change (isExK AutolinkKind) with false in He. cbv iota in He.
    destruct (ikids u); [reflexivity|discriminate].
  - destruct (isExK (ikind u)).
    + apply forallb_forall. intros k Hk. rewrite forallb_forall in He. specialize (He k Hk). unfold kidOK in He.
      apply andb_true_iff in He. destruct He as [He _]. apply andb_true_iff in He. destruct He as [He _].
      apply dokI_kidless. destruct (ikids k); [reflexivity|discriminate].
    + destruct (ikids u); [reflexivity|discriminate].
Qed.

Section Root.
  Variables (src B : bytes) (m : list bytes).

  Lemma block_dok : forall b, destB src b = true -> ExInv1.inv B b = true -> dokB src b = true.
  Proof.
    fix IH 1. intros [k s e bk ik a n c l lb] Hd Hi. cbn [destB ExInv1.inv dokB] in *.
    apply andb_true_iff in Hd. destruct Hd as [Hd1 Hd2]. apply andb_true_iff in Hi. destruct Hi as [Hi1 Hi2].
    apply andb_true_iff. split.
    - apply forallb_forall. intros u Hu. rewrite forallb_forall in Hd1, Hi1. apply (entry_dok src B); [apply Hd1, Hu|apply Hi1, Hu].
    - clear Hd1 Hi1. induction bk as [|x r IHr]; [reflexivity|]. cbn [forallb] in *.
      apply andb_true_iff in Hd2. destruct Hd2 as [A1 A2]. apply andb_true_iff in Hi2. destruct Hi2 as [B1 B2].
      rewrite (IH x A1 B1). apply IHr; assumption.
  Qed.

  Lemma dokB_parts b : dokB src b = true -> forallb (dokI src) (bik b) = true /\ forallb (dokB src) (bkids b) = true.
  Proof. rewrite dokB_eq. apply andb_true_iff. Qed.

  Lemma rewriteB_dok : forall fuel b, entriesOKB fuel src b = true -> destB src b = true -> ExInv1.inv B b = true ->
    dokB src (rewriteB fuel src m b) = true.
  Proof.
    induction fuel as [|f IH]; intros b Hok Hd Hi; [apply block_dok; assumption|].
    cbn [entriesOKB] in Hok. cbn [rewriteB]. change ((0 <? len (bik b)) && hasUnparsed b) with (isLeafU b).
    destruct (dokB_parts b (block_dok b Hd Hi)) as [U1 U2].
    destruct (isLeafU b).
    - rewrite SpanHyp.entriesOKX_eq in Hok. rewrite dokB_eq.
      replace (bik (set_bik b (parseInlines src m b))) with (parseInlines src m b) by (destruct b; reflexivity).
      replace (bkids (set_bik b (parseInlines src m b))) with (bkids b) by (destruct b; reflexivity).
      assert (HK : forallb kidless (bik b) = true).
      { apply (kidless_of_eE B).
        - destruct b as [k s e bk ik a n c l lb]. cbn [ExInv1.inv bik] in *. apply andb_true_iff in Hi. tauto.
        - unfold entriesOK in Hok. rewrite !andb_true_iff in Hok. tauto. }
      rewrite (parseInlines_dok_partial src m b Hok HK), U2. reflexivity.
    - rewrite dokB_eq.
      replace (bik (set_bkids b (map (rewriteB f src m) (bkids b)))) with (bik b) by (destruct b; reflexivity).
      replace (bkids (set_bkids b (map (rewriteB f src m) (bkids b)))) with (map (rewriteB f src m) (bkids b)) by (destruct b; reflexivity).
      rewrite U1. cbn [andb]. apply forallb_forall. intros y Hy. apply in_map_iff in Hy. destruct Hy as (x & <- & Hx).
      rewrite forallb_forall in Hok. apply IH; [apply Hok, Hx| |].
      + destruct b as [k s e bk ik a n c l lb]. cbn [destB bkids] in *. apply andb_true_iff in Hd. destruct Hd as [_ Hd]. rewrite forallb_forall in Hd. apply Hd, Hx.
      + destruct b as [k s e bk ik a n c l lb]. cbn [ExInv1.inv bkids] in *. apply andb_true_iff in Hi. destruct Hi as [_ Hi]. rewrite forallb_forall in Hi. apply Hi, Hx.
  Qed.
End Root.

Theorem destOK : destOK_statement.
Proof.
  intros input. pose proof (destBlocks input) as Hb. pose proof (parseBlocks_entriesOKroots input) as Hok. pose proof (parseBlocks_okRX input) as HX.
  unfold parseFull. destruct (parseBlocks input) as [roots code]. cbn [fst] in *.
  set (refs := fold_left (fun a r => extractB (bheight (rb_blk r)) (rb_blk r) a) roots []).
  apply forallb_forall. intros r Hr. apply in_map_iff in Hr. destruct Hr as (r0 & <- & Hr0). cbn [rb_src rb_blk].
  rewrite forallb_forall in Hb. unfold entriesOKroots in Hok. rewrite forallb_forall in Hok. rewrite Forall_forall in HX.
  destruct (HX r0 Hr0) as (B & M & _ & _ & _ & _ & Hi & _).
  apply (rewriteB_dok (rb_src r0) B refs); [apply Hok, Hr0|apply Hb, Hr0|exact Hi].
Qed.
Print Assumptions destOK.
