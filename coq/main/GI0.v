From Coq Require Import List ZArith Lia Bool.
Import ListNotations.
Require Import Base Tree Inl3a PEProof.
Open Scope Z_scope.

(* ================================================================== *)
(* GI0: list facts used by the inline-grammar proof (GramInline.v).    *)
(*  - membership filter `fl S ids` (the members of S among ids, in the *)
(*    order of ids); "S is aligned in ids" is  fl S ids = S            *)
(*  - decompositions of splitAtId / splitBeforeId                      *)
(*  - decompositions of a Z-indexed list at one or two positions       *)
(* ================================================================== *)

Definition memZ (x : Z) (S : list Z) : bool := existsb (Z.eqb x) S.
Definition fl (S ids : list Z) : list Z := filter (fun x => memZ x S) ids.
Definition nilb {A} (l : list A) : bool := match l with [] => true | _ => false end.
Fixpoint eqbL (a b : list Z) : bool :=
  match a, b with
  | [], [] => true
  | x :: a', y :: b' => (x =? y) && eqbL a' b'
  | _, _ => false
  end.

Lemma nilb_true {A} (l : list A) : nilb l = true <-> l = [].
Proof. destruct l; cbn; split; intros H; congruence. Qed.
Lemma eqbL_true a : forall b, eqbL a b = true <-> a = b.
Proof.
  induction a as [|x a IH]; intros [|y b]; cbn; split; intros H; try congruence; try reflexivity.
  - apply andb_true_iff in H. destruct H as [H1 H2]. apply Z.eqb_eq in H1. apply IH in H2. congruence.
  - inversion H; subst. rewrite Z.eqb_refl. cbn. apply IH. reflexivity.
Qed.

Lemma memZ_In x S : memZ x S = true <-> In x S.
Proof.
  unfold memZ. rewrite existsb_exists. split.
  - intros (y & Hy & E). apply Z.eqb_eq in E. subst. exact Hy.
  - intros H. exists x. split; [exact H|apply Z.eqb_refl].
Qed.
Lemma memZ_false x S : memZ x S = false <-> ~ In x S.
Proof. rewrite <- memZ_In. destruct (memZ x S); split; intros H; congruence. Qed.

Lemma fl_app S a b : fl S (a ++ b) = fl S a ++ fl S b.
Proof. unfold fl. apply filter_app. Qed.
Lemma fl_In x S ids : In x (fl S ids) <-> In x ids /\ In x S.
Proof. unfold fl. rewrite filter_In, memZ_In. tauto. Qed.
Lemma fl_nil_iff S ids : fl S ids = [] <-> (forall x, In x ids -> ~ In x S).
Proof.
  split.
  - intros H x Hx Hs. assert (Hin : In x (fl S ids)) by (apply fl_In; tauto). rewrite H in Hin. exact Hin.
  - intros H. induction ids as [|y l IH]; [reflexivity|]. unfold fl. cbn [filter].
    replace (memZ y S) with false by (symmetry; apply memZ_false, H; left; reflexivity).
    apply IH. intros x Hx. apply H. right. exact Hx.
Qed.
Lemma fl_one_in S x : In x S -> fl S [x] = [x].
Proof. intros H. unfold fl. cbn. replace (memZ x S) with true by (symmetry; apply memZ_In, H). reflexivity. Qed.
Lemma fl_one_out S x : ~ In x S -> fl S [x] = [].
Proof. intros H. unfold fl. cbn. replace (memZ x S) with false by (symmetry; apply memZ_false, H). reflexivity. Qed.
Lemma fl_all S l : (forall x, In x l -> In x S) -> fl S l = l.
Proof.
  induction l as [|y l IH]; intros H; [reflexivity|]. unfold fl. cbn [filter].
  replace (memZ y S) with true by (symmetry; apply memZ_In, H; left; reflexivity).
  f_equal. apply IH. intros x Hx. apply H. right. exact Hx.
Qed.
Lemma fl_emptyS ids : fl [] ids = [].
Proof. apply fl_nil_iff. intros x _ []. Qed.

(* a smaller set of members: first filter by the larger one *)
Lemma fl_sub S' S ids : (forall x, In x S' -> In x S) -> fl S' ids = fl S' (fl S ids).
Proof.
  intros Hs. induction ids as [|y l IH]; [reflexivity|]. unfold fl in *. cbn [filter].
  destruct (memZ y S) eqn:E.
  - cbn [filter]. destruct (memZ y S'); [f_equal|]; exact IH.
  - replace (memZ y S') with false; [exact IH|]. symmetry. apply memZ_false. intros Hy. apply memZ_false in E. apply E, Hs, Hy.
Qed.
Lemma fl_nil_sub S' S ids : (forall x, In x S' -> In x S) -> fl S ids = [] -> fl S' ids = [].
Proof. intros Hs H. rewrite (fl_sub S' S ids Hs), H. reflexivity. Qed.

(* NoDup helpers (the 8.16 library lacks them) *)
Lemma NoDup_app_r {A} (a b : list A) : NoDup (a ++ b) -> NoDup b.
Proof. induction a as [|x a IH]; intros H; [exact H|]. cbn in H. inversion H; subst. apply IH. assumption. Qed.
Lemma NoDup_app_l {A} (a b : list A) : NoDup (a ++ b) -> NoDup a.
Proof.
  induction a as [|x a IH]; intros H; [constructor|]. cbn in H. inversion H as [|? ? Hx Hn]; subst. constructor.
  - intros Hi. apply Hx, in_or_app. left. exact Hi.
  - apply IH. exact Hn.
Qed.
Lemma NoDup_app_disj {A} (a b : list A) x : NoDup (a ++ b) -> In x a -> In x b -> False.
Proof.
  induction a as [|y a IH]; intros H Ha Hb; [contradiction|]. cbn in H. inversion H as [|? ? Hy Hn]; subst.
  destruct Ha as [->|Ha]; [apply Hy, in_or_app; right; exact Hb|apply IH; assumption].
Qed.

(* deleting a chunk from a duplicate-free list *)
Lemma fl_self_del S1 S2 S3 : NoDup (S1 ++ S2 ++ S3) -> fl (S1 ++ S3) (S1 ++ S2 ++ S3) = S1 ++ S3.
Proof.
  intros Hn. rewrite !fl_app.
  rewrite (fl_all (S1 ++ S3) S1) by (intros x Hx; apply in_or_app; left; exact Hx).
  rewrite (fl_all (S1 ++ S3) S3) by (intros x Hx; apply in_or_app; right; exact Hx).
  replace (fl (S1 ++ S3) S2) with (@nil Z); [reflexivity|]. symmetry. apply fl_nil_iff.
  intros x Hx Hs. apply in_app_or in Hs. destruct Hs as [H1|H3].
  - apply (NoDup_app_disj S1 (S2 ++ S3) x Hn H1). apply in_or_app. left. exact Hx.
  - apply NoDup_app_r in Hn. apply (NoDup_app_disj S2 S3 x Hn Hx H3).
Qed.

(* alignment survives the deletion of a chunk of the stack *)
Lemma al_del S1 S2 S3 ids : NoDup (S1 ++ S2 ++ S3) -> fl (S1 ++ S2 ++ S3) ids = S1 ++ S2 ++ S3 ->
  fl (S1 ++ S3) ids = S1 ++ S3.
Proof.
  intros Hn H. rewrite (fl_sub (S1 ++ S3) (S1 ++ S2 ++ S3)).
  - rewrite H. apply fl_self_del, Hn.
  - intros x Hx. apply in_app_or in Hx. apply in_or_app. destruct Hx; [left; assumption|right; apply in_or_app; right; assumption].
Qed.

(* splitting two equal lists at an element that occurs in neither prefix *)
Lemma split_unique (o : Z) : forall X1 Y1 X2 Y2, X1 ++ o :: Y1 = X2 ++ o :: Y2 -> ~ In o X1 -> ~ In o X2 -> X1 = X2 /\ Y1 = Y2.
Proof.
  induction X1 as [|a X1 IH]; intros Y1 [|b X2] Y2 E H1 H2; cbn in E.
  - inversion E. split; reflexivity.
  - inversion E; subst. exfalso. apply H2. left. reflexivity.
  - inversion E; subst. exfalso. apply H1. left. reflexivity.
  - inversion E; subst. destruct (IH Y1 X2 Y2 H3) as [-> ->].
    + intros H. apply H1. right. exact H.
    + intros H. apply H2. right. exact H.
    + split; reflexivity.
Qed.

Lemma NoDup_mid_notin {A} (a : A) l1 l2 : NoDup (l1 ++ a :: l2) -> ~ In a l1 /\ ~ In a l2.
Proof.
  intros H. apply NoDup_remove_2 in H. split; intros Hi; apply H, in_or_app; [left|right]; exact Hi.
Qed.

(* the members of an aligned level between an opener o and a closer c *)
Lemma wrap_mid H D1 o D2 c D3 IA IM IR :
  H = D1 ++ o :: D2 ++ c :: D3 -> NoDup H ->
  fl H (IA ++ o :: IM ++ c :: IR) = H -> ~ In o IA -> ~ In c IM ->
  fl H IA = D1 /\ fl H IM = D2 /\ fl H IR = D3.
Proof.
  intros EH Hn Hf HoA HcM.
  assert (Ho : In o H) by (subst H; apply in_or_app; right; left; reflexivity).
  assert (Hc : In c H) by (subst H; apply in_or_app; right; right; apply in_or_app; right; left; reflexivity).
  change (o :: IM ++ c :: IR) with ([o] ++ IM ++ [c] ++ IR) in Hf.
  rewrite !fl_app, (fl_one_in H o Ho), (fl_one_in H c Hc) in Hf. cbn [app] in Hf.
  rewrite EH in Hf at 4.
  pose proof Hn as Hn'. rewrite EH in Hn'. destruct (NoDup_mid_notin _ _ _ Hn') as [HoD1 _].
  destruct (split_unique o _ _ _ _ Hf) as [E1 E2].
  - intros Hi. apply fl_In in Hi. tauto.
  - exact HoD1.
  - apply NoDup_app_r in Hn'. inversion Hn' as [|? ? _ Hn'']; subst.
    destruct (NoDup_mid_notin _ _ _ Hn'') as [HcD2 _].
    destruct (split_unique c _ _ _ _ E2) as [E3 E4].
    + intros Hi. apply fl_In in Hi. tauto.
    + exact HcD2.
    + repeat split; assumption.
Qed.

(* if the closer were not in the level after the opener, alignment would fail *)
Lemma wrap_closer_found H D1 o D2 c D3 IA IP :
  H = D1 ++ o :: D2 ++ c :: D3 -> NoDup H -> fl H (IA ++ o :: IP) = H -> ~ In o IA -> In c IP.
Proof.
  intros EH Hn Hf HoA.
  assert (Ho : In o H) by (subst H; apply in_or_app; right; left; reflexivity).
  change (o :: IP) with ([o] ++ IP) in Hf. rewrite !fl_app, (fl_one_in H o Ho) in Hf. cbn [app] in Hf.
  rewrite EH in Hf at 3. pose proof Hn as Hn'. rewrite EH in Hn'. destruct (NoDup_mid_notin _ _ _ Hn') as [HoD1 _].
  destruct (split_unique o _ _ _ _ Hf) as [_ E2].
  - intros Hi. apply fl_In in Hi. tauto.
  - exact HoD1.
  - assert (Hi : In c (fl H IP)) by (rewrite E2; apply in_or_app; right; left; reflexivity).
    apply fl_In in Hi. tauto.
Qed.

(* the opener occurs exactly once in an aligned level *)
Lemma al_once H o IA IP : NoDup H -> In o H -> fl H (IA ++ o :: IP) = H -> ~ In o IA -> ~ In o IP.
Proof.
  intros Hn Ho Hf HoA Hi.
  apply in_split in Ho. destruct Ho as (D1 & D2 & EH).
  change (o :: IP) with ([o] ++ IP) in Hf. rewrite !fl_app, (fl_one_in H o) in Hf by (rewrite EH; apply in_or_app; right; left; reflexivity).
  cbn [app] in Hf. rewrite EH in Hf at 3. rewrite EH in Hn. destruct (NoDup_mid_notin _ _ _ Hn) as [H1 H2].
  destruct (split_unique o _ _ _ _ Hf) as [_ E2]; [intros Hx; apply fl_In in Hx; tauto|exact H1|].
  apply H2. rewrite <- E2. apply fl_In. split; [exact Hi|]. rewrite EH. apply in_or_app. right. left. reflexivity.
Qed.

(* ---------------------------------------------------------------- identities of a level *)
Definition ids (l : list pn) : list Z := map pid l.
Lemma ids_app a b : ids (a ++ b) = ids a ++ ids b. Proof. apply map_app. Qed.
Lemma hasId_In id l : hasId id l = true <-> In id (ids l).
Proof.
  unfold hasId, ids. rewrite existsb_exists, in_map_iff. split.
  - intros (n & Hn & E). apply Z.eqb_eq in E. exists n. split; assumption.
  - intros (n & E & Hn). exists n. split; [assumption|apply Z.eqb_eq; assumption].
Qed.
Lemma hasId_false id l : hasId id l = false <-> ~ In id (ids l).
Proof. rewrite <- hasId_In. destruct (hasId id l); split; intros H; congruence. Qed.

Lemma splitAtId_spec id : forall l pre post, splitAtId id l = (pre, post) -> In id (ids l) ->
  exists A n, pre = A ++ [n] /\ pid n = id /\ ~ In id (ids A) /\ l = A ++ n :: post.
Proof.
  induction l as [|x l IH]; intros pre post E Hin; [contradiction|]. cbn [splitAtId] in E.
  destruct (Z.eqb_spec (pid x) id) as [Ex|Ex].
  - inversion E; subst pre post. exists [], x. split; [reflexivity|]. split; [exact Ex|]. split; [intros []|reflexivity].
  - destruct (splitAtId id l) as [a b] eqn:Es. inversion E; subst pre post.
    destruct Hin as [Hx|Hin]; [contradiction|].
    destruct (IH a b eq_refl Hin) as (A & n & E1 & E2 & E3 & E4). subst a.
    exists (x :: A), n. split; [reflexivity|]. split; [exact E2|]. split.
    + intros [Hx|Hx]; [contradiction|apply E3; exact Hx].
    + cbn. f_equal. exact E4.
Qed.
Lemma splitAtId_notin id : forall l, ~ In id (ids l) -> splitAtId id l = (l, []).
Proof.
  induction l as [|x l IH]; intros H; [reflexivity|]. cbn [splitAtId].
  destruct (Z.eqb_spec (pid x) id) as [Ex|Ex]; [exfalso; apply H; left; exact Ex|].
  rewrite IH; [reflexivity|]. intros Hi. apply H. right. exact Hi.
Qed.
Lemma splitBeforeId_none : forall l, splitBeforeId None l = (l, []).
Proof. induction l as [|x l IH]; [reflexivity|]. cbn [splitBeforeId]. rewrite IH. reflexivity. Qed.
Lemma splitBeforeId_spec c : forall l mid rest, splitBeforeId (Some c) l = (mid, rest) ->
  l = mid ++ rest /\ ~ In c (ids mid) /\ (rest = [] \/ exists nc r, rest = nc :: r /\ pid nc = c).
Proof.
  induction l as [|x l IH]; intros mid rest E; cbn [splitBeforeId] in E.
  - inversion E; subst mid rest. split; [reflexivity|]. split; [intros []|left; reflexivity].
  - destruct (Z.eqb_spec (pid x) c) as [Ex|Ex].
    + inversion E; subst mid rest. split; [reflexivity|]. split; [intros []|]. right. exists x, l. split; [reflexivity|exact Ex].
    + destruct (splitBeforeId (Some c) l) as [a b] eqn:Es. inversion E; subst mid rest.
      destruct (IH a b eq_refl) as (E1 & E2 & E3). split; [|split].
      * cbn. f_equal. exact E1.
      * intros [Hx|Hx]; [contradiction|apply E2; exact Hx].
      * exact E3.
Qed.

(* ---------------------------------------------------------------- Z-indexed decompositions *)
Lemma upto_app_len {A} (a b : list A) : upto (a ++ b) (len a) = a.
Proof. unfold upto, len. rewrite Nat2Z.id. rewrite firstn_app, Nat.sub_diag, firstn_all. cbn. apply app_nil_r. Qed.
Lemma from_app_len {A} (a b : list A) : from_ (a ++ b) (len a) = b.
Proof. unfold from_, len. rewrite Nat2Z.id. rewrite skipn_app, Nat.sub_diag, skipn_all. reflexivity. Qed.
Lemma upto_from {A} (l : list A) i : l = upto l i ++ from_ l i.
Proof. unfold upto, from_. symmetry. apply firstn_skipn. Qed.

Lemma nthD_app_len a d b : nthD (a ++ d :: b) (len a) = d.
Proof. unfold nthD, len. rewrite Nat2Z.id. rewrite app_nth2 by lia. rewrite Nat.sub_diag. reflexivity. Qed.

(* one position *)
Lemma split_at1 (l : list delim) i : 0 <= i < len l ->
  exists P Q, l = P ++ nthD l i :: Q /\ len P = i.
Proof.
  intros Hi. exists (upto l i), (from_ l (i + 1)). split.
  - unfold nthD, upto, from_, len in *. replace (Z.to_nat (i + 1)) with (S (Z.to_nat i)) by lia.
    assert (Hlt : (Z.to_nat i < length l)%nat) by lia. clear Hi. revert Hlt. generalize (Z.to_nat i). intros n. revert l.
    induction n as [|n IH]; intros l Hlt; destruct l as [|x l]; cbn in *; try lia; [reflexivity|].
    f_equal. apply IH; cbn in *; lia.
  - apply len_upto. lia.
Qed.
(* two positions *)
Lemma split_at2 (l : list delim) i j : 0 <= i -> i < j -> j < len l ->
  exists P D2 D3, l = P ++ nthD l i :: D2 ++ nthD l j :: D3 /\ len P = i /\ len D2 = j - i - 1.
Proof.
  intros Hi Hij Hj.
  destruct (split_at1 l i ltac:(lia)) as (P & Q & E & HP).
  remember (nthD l i) as d eqn:Ed.
  assert (HQ : len Q = len l - i - 1).
  { rewrite E. rewrite len_app. change (d :: Q) with ([d] ++ Q). rewrite len_app. change (len [d]) with 1. lia. }
  destruct (split_at1 Q (j - i - 1) ltac:(lia)) as (D2 & D3 & E2 & HD2).
  assert (Ej : nthD Q (j - i - 1) = nthD l j).
  { rewrite E. unfold nthD. change (d :: Q) with ([d] ++ Q). rewrite app_assoc.
    rewrite app_nth2 by (rewrite app_length; unfold len in *; cbn; lia). rewrite app_length. f_equal. unfold len in *. cbn. lia. }
  exists P, D2, D3. split; [|split; assumption]. rewrite <- Ej. rewrite <- E2. exact E.
Qed.

(* a prefix of known length *)
Lemma app_prefix_len {A} (low high P R : list A) : low ++ high = P ++ R -> len low <= len P -> exists D, P = low ++ D /\ high = D ++ R.
Proof.
  revert P. induction low as [|x low IH]; intros P E Hl.
  - exists P. split; [reflexivity|exact E].
  - destruct P as [|y P]; [unfold len in Hl; cbn in Hl; lia|]. cbn in E. inversion E; subst.
    destruct (IH P H1) as (D & E1 & E2); [unfold len in *; cbn in Hl; lia|]. exists D. split; [cbn; f_equal; exact E1|exact E2].
Qed.

(* delStack on an explicit decomposition *)
Lemma delStack_app3 {A} (S1 S2 S3 : list A) : delStack (S1 ++ S2 ++ S3) (len S1) (len S1 + len S2) = S1 ++ S3.
Proof.
  unfold delStack. rewrite upto_app_len. f_equal.
  rewrite app_assoc. rewrite <- len_app. apply from_app_len.
Qed.
Lemma skipn_skipn_ {A} (l : list A) : forall n m, skipn n (skipn m l) = skipn (n + m) l.
Proof.
  intros n m. revert l. induction m as [|m IH]; intros l; [rewrite Nat.add_0_r; reflexivity|].
  destruct l as [|x l]; [rewrite !skipn_nil; reflexivity|]. rewrite Nat.add_succ_r. cbn. apply IH.
Qed.
Lemma delStack_split {A} (l : list A) i j : 0 <= i -> i <= j -> j <= len l ->
  exists S1 S2 S3, l = S1 ++ S2 ++ S3 /\ delStack l i j = S1 ++ S3 /\ len S1 = i /\ len S2 = j - i.
Proof.
  intros Hi Hij Hj. exists (upto l i), (upto (from_ l i) (j - i)), (from_ l j).
  assert (E : l = upto l i ++ upto (from_ l i) (j - i) ++ from_ l j).
  { rewrite (upto_from l i) at 1. f_equal. rewrite (upto_from (from_ l i) (j - i)) at 1. f_equal.
    unfold from_. rewrite skipn_skipn_. f_equal. lia. }
  split; [exact E|]. split; [reflexivity|]. split; [apply len_upto; lia|].
  apply len_upto. rewrite len_from by lia. lia.
Qed.

Lemma map_delStack {A B} (g : A -> B) l i j : map g (delStack l i j) = delStack (map g l) i j.
Proof. unfold delStack, upto, from_. rewrite map_app, firstn_map, skipn_map. reflexivity. Qed.
