From Coq Require Import List ZArith Lia Bool.
Import ListNotations.
Require Import Base Tree Props ShapesBase Shapes.
Open Scope Z_scope.

(* ================================================================== *)
(* IS2: the shape checker of Props.v from byte-level facts about the   *)
(* source (emphasis / strong, link / image, hard line break).          *)
(* ================================================================== *)

Definition nOK (src : bytes) (k s e : Z) : bool := span_valid (len src) s e && shapeInline (sub src s e) k.

Lemma span_valid_intro n s e : 0 <= s -> s <= e -> e <= n -> span_valid n s e = true.
Proof. intros A B C. unfold span_valid. rewrite !andb_true_iff. repeat split; apply Z.leb_le; assumption. Qed.
Lemma span_valid_elim n s e : span_valid n s e = true -> 0 <= s /\ s <= e /\ e <= n.
Proof. unfold span_valid. rewrite !andb_true_iff. intros ((A & B) & C). apply Z.leb_le in A, B, C. tauto. Qed.

Lemma in_src (src : bytes) i : at_ src i <> 0 -> 0 <= i < len src.
Proof. apply at_nonzero_lt. Qed.

(* bytes of a sub-range *)
Lemma sub_at (src : bytes) s e i : 0 <= s -> e <= len src -> 0 <= i < e - s -> at_ (sub src s e) i = at_ src (s + i).
Proof. intros. apply at_sub; lia. Qed.
Lemma sub_len (src : bytes) s e : 0 <= s -> s <= e -> e <= len src -> len (sub src s e) = e - s.
Proof. apply len_sub_in. Qed.
Lemma sub_last (src : bytes) s e : 0 <= s -> s < e -> e <= len src -> lastZ (sub src s e) = at_ src (e - 1).
Proof.
  intros A B C. rewrite lastZ_at by (apply len_pos_nonnil; rewrite sub_len by lia; lia).
  rewrite sub_len by lia. rewrite sub_at by lia. f_equal. lia.
Qed.

(* ---------------------------------------------------------------- emphasis and strong emphasis *)
Lemma emph_shape src c S E : (c = 42 \/ c = 95) -> 0 <= S -> S + 2 <= E ->
  at_ src S = c -> at_ src (E - 1) = c ->
  nOK src EmphasisKind S E = true.
Proof.
  intros Hc HS HE A B. assert (HEl : E <= len src) by (pose proof (in_src src (E - 1) ltac:(lia)); lia).
  unfold nOK. rewrite span_valid_intro by lia. cbn [andb].
  change (shapeInline (sub src S E) EmphasisKind) with
    ((2 <=? len (sub src S E)) && ((at_ (sub src S E) 0 =? 42) || (at_ (sub src S E) 0 =? 95)) && (lastZ (sub src S E) =? at_ (sub src S E) 0)).
  rewrite sub_len, sub_last, sub_at by lia. replace (S + 0) with S by lia. rewrite A, B, Z.eqb_refl.
  destruct (Z.leb_spec 2 (E - S)); [|lia]. destruct Hc as [-> | ->]; reflexivity.
Qed.
Lemma strong_shape src c S E : (c = 42 \/ c = 95) -> 0 <= S -> S + 4 <= E ->
  at_ src S = c -> at_ src (S + 1) = c -> at_ src (E - 1) = c -> at_ src (E - 2) = c ->
  nOK src StrongKind S E = true.
Proof.
  intros Hc HS HE A A1 B B1. assert (HEl : E <= len src) by (pose proof (in_src src (E - 1) ltac:(lia)); lia).
  unfold nOK. rewrite span_valid_intro by lia. cbn [andb].
  change (shapeInline (sub src S E) StrongKind) with
    (let t := sub src S E in
     (4 <=? len t) && ((at_ t 0 =? 42) || (at_ t 0 =? 95)) && (at_ t 1 =? at_ t 0) && (lastZ t =? at_ t 0) && (at_ t (len t - 2) =? at_ t 0)).
  cbv zeta. rewrite sub_len, sub_last by lia. rewrite !sub_at by lia.
  replace (S + 0) with S by lia. replace (S + (E - S - 2)) with (E - 2) by lia. rewrite A, A1, B, B1, Z.eqb_refl.
  destruct (Z.leb_spec 4 (E - S)); [|lia]. destruct Hc as [-> | ->]; reflexivity.
Qed.

(* ---------------------------------------------------------------- links and images *)
Lemma link_shape src S E : 0 <= S -> S + 2 <= E -> at_ src S = 91 -> (at_ src (E - 1) = 93 \/ at_ src (E - 1) = 41) ->
  nOK src LinkKind S E = true.
Proof.
  intros HS HE A B. assert (HEl : E <= len src) by (pose proof (in_src src (E - 1) ltac:(lia)); lia).
  unfold nOK. rewrite span_valid_intro by lia. cbn [andb].
  change (shapeInline (sub src S E) LinkKind) with
    ((2 <=? len (sub src S E)) && (at_ (sub src S E) 0 =? 91) && ((lastZ (sub src S E) =? 93) || (lastZ (sub src S E) =? 41))).
  rewrite sub_len, sub_last, sub_at by lia. replace (S + 0) with S by lia. rewrite A.
  destruct (Z.leb_spec 2 (E - S)); [|lia]. destruct B as [-> | ->]; reflexivity.
Qed.
Lemma image_shape src S E : 0 <= S -> S + 3 <= E -> at_ src S = 33 -> at_ src (S + 1) = 91 ->
  (at_ src (E - 1) = 93 \/ at_ src (E - 1) = 41) ->
  nOK src ImageKind S E = true.
Proof.
  intros HS HE A A1 B. assert (HEl : E <= len src) by (pose proof (in_src src (E - 1) ltac:(lia)); lia).
  unfold nOK. rewrite span_valid_intro by lia. cbn [andb].
  change (shapeInline (sub src S E) ImageKind) with
    ((3 <=? len (sub src S E)) && (at_ (sub src S E) 0 =? 33) && (at_ (sub src S E) 1 =? 91) &&
     ((lastZ (sub src S E) =? 93) || (lastZ (sub src S E) =? 41))).
  rewrite sub_len, sub_last by lia. rewrite !sub_at by lia. replace (S + 0) with S by lia. rewrite A, A1.
  destruct (Z.leb_spec 3 (E - S)); [|lia]. destruct B as [-> | ->]; reflexivity.
Qed.

(* ---------------------------------------------------------------- "<...>" and "&...;" *)
Lemma angle_shape src k S E : (k = AutolinkKind \/ k = HTMLTagKind) -> 0 <= S -> S + 2 <= E -> at_ src S = 60 -> at_ src (E - 1) = 62 ->
  nOK src k S E = true.
Proof.
  intros Hk HS HE A B. assert (HEl : E <= len src) by (pose proof (in_src src (E - 1) ltac:(lia)); lia).
  unfold nOK. rewrite span_valid_intro by lia. cbn [andb]. rewrite (shape_angle _ k Hk).
  rewrite sub_len, sub_last, sub_at by lia. replace (S + 0) with S by lia. rewrite A, B.
  destruct (Z.leb_spec 2 (E - S)); [reflexivity|lia].
Qed.
Lemma charref_shape src S E : 0 <= S -> S + 3 <= E -> at_ src S = 38 -> at_ src (E - 1) = 59 -> nOK src CharacterReferenceKind S E = true.
Proof.
  intros HS HE A B. assert (HEl : E <= len src) by (pose proof (in_src src (E - 1) ltac:(lia)); lia).
  unfold nOK. rewrite span_valid_intro by lia. cbn [andb]. rewrite shape_charref.
  rewrite sub_len, sub_last, sub_at by lia. replace (S + 0) with S by lia. rewrite A, B.
  destruct (Z.leb_spec 3 (E - S)); [reflexivity|lia].
Qed.

(* ---------------------------------------------------------------- hard line breaks *)
Definition isEol (c : Z) : bool := (c =? 10) || (c =? 13).
Lemma isEol_isEolB c : isEol c = isEolB c. Proof. reflexivity. Qed.

(* a text whose line-ending bytes are exactly the positions from m on *)
Lemma upto_from_split {A} (t : list A) m : t = upto t m ++ from_ t m.
Proof. unfold upto, from_. symmetry. apply firstn_skipn. Qed.
Lemma trimEOLr_at (t : bytes) m : 0 <= m <= len t ->
  (forall i, 0 <= i < m -> isEol (at_ t i) = false) -> (forall i, m <= i < len t -> isEol (at_ t i) = true) ->
  trimEOLr t = upto t m.
Proof.
  intros Hm Hb He. rewrite (upto_from_split t m) at 1. apply trimEOLr_line.
  - apply forallb_at. intros i Hi. rewrite len_upto in Hi. rewrite at_upto by lia. rewrite <- isEol_isEolB, Hb by lia. reflexivity.
  - apply forallb_at. intros i Hi. rewrite len_from in Hi by lia. rewrite at_from by lia. rewrite <- isEol_isEolB. apply He. lia.
Qed.

Lemma hardbreak_shape src S E m : 0 <= S -> S < m -> m < E -> E <= len src ->
  ((m = S + 1 /\ at_ src S = 92) \/ (S + 2 <= m /\ forall i, S <= i < m -> at_ src i = 32)) ->
  (forall i, m <= i < E -> isEol (at_ src i) = true) ->
  nOK src HardLineBreakKind S E = true.
Proof.
  intros HS Hm HmE HE Hbody Heol. unfold nOK. rewrite span_valid_intro by lia. cbn [andb]. rewrite shape_hardbreak. cbv zeta.
  assert (Hl : len (sub src S E) = E - S) by (apply sub_len; lia).
  assert (Ht : trimEOLr (sub src S E) = upto (sub src S E) (m - S)).
  { apply trimEOLr_at; [rewrite Hl; lia| |].
    - intros i Hi. rewrite sub_at by lia. destruct Hbody as [(E1 & E2)|(E1 & E2)].
      + replace (S + i) with S by lia. rewrite E2. reflexivity.
      + rewrite E2 by lia. reflexivity.
    - intros i Hi. rewrite Hl in Hi. rewrite sub_at by lia. apply Heol. lia. }
  rewrite Ht, len_upto, Hl. replace (Z.min (Z.max 0 (m - S)) (E - S)) with (m - S) by lia.
  destruct (Z.ltb_spec (m - S) (E - S)); [|lia]. cbn [andb].
  destruct Hbody as [(E1 & E2)|(E1 & E2)].
  - replace (m - S =? 1) with true by (symmetry; apply Z.eqb_eq; lia). rewrite at_upto by lia. rewrite sub_at by lia.
    replace (S + 0) with S by lia. rewrite E2. reflexivity.
  - destruct (Z.leb_spec 2 (m - S)); [|lia].
    replace (allOf (upto (sub src S E) (m - S)) 32) with true; [apply orb_true_r|]. symmetry. unfold allOf. apply forallb_at.
    intros i Hi. rewrite len_upto, Hl in Hi. rewrite at_upto by lia. rewrite sub_at by lia. apply Z.eqb_eq. apply E2. lia.
Qed.

(* the decomposition of a line into body and line ending, as trimEOLr sees it *)
Lemma dropWhileEOL_split : forall l, exists pre, l = pre ++ dropWhileEOL l /\ forallb isEol pre = true.
Proof.
  induction l as [|c r IH]; [exists []; split; reflexivity|]. cbn [dropWhileEOL].
  destruct ((c =? 10) || (c =? 13)) eqn:Ec.
  - destruct IH as (pre & E1 & E2). exists (c :: pre). split; [cbn; f_equal; exact E1|]. cbn [forallb]. unfold isEol at 1. rewrite Ec. exact E2.
  - exists []. split; reflexivity.
Qed.
Lemma trimEOLr_split (t : bytes) : exists eol, t = trimEOLr t ++ eol /\ forallb isEol eol = true.
Proof.
  destruct (dropWhileEOL_split (rev t)) as (pre & E1 & E2). exists (rev pre). split.
  - unfold trimEOLr. rewrite <- rev_app_distr, <- E1, rev_involutive. reflexivity.
  - rewrite forallb_rev. exact E2.
Qed.
