From Coq Require Import List ZArith Lia Bool.
Import ListNotations.
Require Import Base Tables Utf8 Tree Rdr Link Collect Html Recog Inl3a Inl3b Inl3c Inl3d Inl3e.
Require Import Leaf3e Leaf3n ShapesBase EolCRRdr EolCRRenderDefs EolCRRenderInlG EolCRRenderInlAuto EolCRRenderInlSt.
Open Scope Z_scope.

Section St2.
  Variable src : bytes.
  Notation G := (G src).
  Notation IG := (IG src).

  (* what the closing bracket needs from the destination scanner *)
  Definition DK (st : ist) (start : Z) : Prop :=
    forall ispan dspan dtext tspan ttext,
      parseInlineLink (rfuelOf st) (fst (lookForLinkOrImage st)) (start + 1) = (ispan, (dspan, dtext), (tspan, ttext)) ->
      0 <= snd (lookForLinkOrImage st) ->
      (start + 1 <? spanEnd (fst (lookForLinkOrImage st))) && (at_ (isrc st) (start + 1) =? 40) = true ->
      spanValid ispan = true -> spanValid dspan = true -> spanValid dtext = true ->
      forallb (zq src) (kidsOf (collectTextNodes (rfuelOf st) (newReader (isrc st) (unpFrom (fst (lookForLinkOrImage st))) (fst dtext))
                                                 (snd dtext) TextKind true)) = true.

  Lemma G_new' id kind s e ind rf mid : kind <> LinkDestinationKind -> kind <> AutolinkKind ->
    G (PN id kind s e ind rf mid) = forallb G mid.
  Proof. intros A B. rewrite G_eq. cbn [pkind pkids]. apply Z.eqb_neq in A, B. rewrite A, B. reflexivity. Qed.

  Ltac kchain :=
    repeat match goal with
    | |- IG (if ?c then _ else _) => destruct c eqn:?
    | |- IG (appendKid _ _ _) => apply IG_appendKid; [ |lia| ]
    | |- IG (updN ?s ?i (fun n => setSpan n ?a ?b)) => apply (IG_updSpan src s i (fun _ => a) (fun _ => b)); [|lia]
    | |- IG (updN _ _ (fun n => setRef (setSpan n _ _) _)) => apply IG_updSpanRef; [|lia]
    | |- IG (advanceTo _ _) => apply IG_advanceTo
    end.

  Lemma IG_parseEndBracket st start : IG st -> DK st start -> IG (fst (parseEndBracket st start)).
  Proof.
    intros H HDK. unfold parseEndBracket. cbv zeta. unfold DK in HDK.
    assert (H1 : IG (fst (lookForLinkOrImage st))) by (unfold lookForLinkOrImage; apply IG_lfl; exact H).
    destruct (lookForLinkOrImage st) as [st1 odi]. cbn [fst snd] in H1, HDK.
    destruct (Z.ltb_spec odi 0) as [Hneg|Hpos]. { cbn [fst]. apply IG_addText. exact H1. }
    remember (if d_typ (nthD (stk st1) odi) =? tImage then ImageKind else LinkKind) as kind eqn:Ekind.
    assert (Hk : kind <> LinkDestinationKind /\ kind <> AutolinkKind) by (subst kind; destruct (_ =? tImage); split; discriminate).
    pose proof (nz_nthD (stk st1) odi (ig_stk _ _ H1)) as Hnz.
    destruct (IG_wrap src st1 kind (d_node (nthD (stk st1) odi)) None H1 (proj1 Hk) (proj2 Hk) Hnz) as (HK & _).
    pose proof (ig_nid _ _ H1) as Hnid.
    assert (Hfail : IG (setStk (addText st1 start (start + 1)) (delStack (stk st1) odi (odi + 1)))).
    { apply IG_setStk_incl; [apply IG_addText, H1|]. intros x Hx. apply delStack_in in Hx. unfold addText. rewrite stk_addNode. exact Hx. }
    unfold wrap in HK |- *. cbn [fst snd] in HK. cbv iota beta.
    set (st2 := bumpId (setRk st1 _)) in *.
    match goal with |- context [match ?X with Some _ => _ | None => _ end] => destruct X as [[[[[ispan dspan] dtext] tspan] ttext]|] eqn:EX end.
    - (* inline link *)
      destruct ((start + 1 <? spanEnd st1) && (at_ (isrc st) (start + 1) =? 40)) eqn:Ec; [|discriminate].
      destruct (parseInlineLink (rfuelOf st) st1 (start + 1)) as [[ispan' [dspan' dtext']] [tspan' ttext']] eqn:Ep.
      destruct (spanValid ispan') eqn:Ev; [|discriminate]. inversion EX; subst ispan' dspan' dtext' tspan' ttext'. clear EX.
      cbn [fst]. apply IG_finishLink. kchain; try exact HK.
      all: match goal with
           | |- EolCRRenderInlG.G _ (PN _ LinkTitleKind _ _ _ _ _) = true =>
             rewrite G_new by discriminate; destruct (spanValid ttext); [|reflexivity];
             apply lfF_G, kids_lf; [cbn [r_spans newReader]; destruct (spanValid dspan); intros u Hu; apply (unpFrom_noKids src st1 H1); exact Hu|discriminate|discriminate]
           | |- EolCRRenderInlG.G _ (PN _ LinkDestinationKind _ _ _ _ _) = true =>
             rewrite G_eq; cbn [pkind pid pkids]; change (LinkDestinationKind =? LinkDestinationKind) with true; cbv iota; change (0 =? 0) with true; cbn [andb];
             destruct (spanValid dtext) eqn:Edt; [|reflexivity];
             exact (HDK ispan dspan dtext tspan ttext eq_refl Hpos eq_refl Ev ltac:(assumption) Edt)
           end.
    - clear EX.
      match goal with |- IG (fst (match ?X with pair _ _ => _ end)) => destruct X as [lspan linner] end.
      destruct (_ && _ && _).
      + destruct (negb (matchRef _ _)); [cbn [fst]; assumption|].
        cbn [fst]. apply IG_finishLink. kchain; exact HK.
      + destruct (spanValid lspan).
        * destruct (negb (matchRef _ _)); [cbn [fst]; assumption|].
          cbn [fst]. apply IG_finishLink. kchain; try exact HK.
          rewrite G_new' by discriminate.
          apply lfF_G, kids_lf; [cbn [r_spans newReader]; intros u Hu; apply (unpFrom_noKids src st1 H1); exact Hu|discriminate|discriminate].
        * destruct (negb (matchRef _ _)); [cbn [fst]; assumption|].
          cbn [fst]. apply IG_finishLink. kchain; exact HK.
  Qed.

  (* ---- collectCodeSpan: the children are childless Text / Indent nodes ---- *)
  Definition flatC (n : pn) : Prop := lf n = true.
  Lemma flatF_G l : Forall flatC l -> forallb G l = true.
  Proof. intros H. apply lfF_G. apply forallb_forall. rewrite Forall_forall in H. exact H. Qed.
  Lemma cs_addSpan_flat s0 acc s e : Forall flatC acc -> Forall flatC (cs_addSpan s0 acc s e).
  Proof.
    intros H. unfold cs_addSpan. cbv zeta.
    repeat match goal with |- context [if ?c then _ else _] => destruct c end;
      repeat (apply Forall_app; split); try assumption; repeat constructor.
  Qed.
  Lemma flat_setInd n v : flatC n -> flatC (setInd n v). Proof. destruct n; cbn; tauto. Qed.
  Lemma flat_setSpan n s e : flatC n -> flatC (setSpan n s e). Proof. destruct n; cbn; tauto. Qed.
  Lemma Forall_rev' {A} (P : A -> Prop) l : Forall P l -> Forall P (rev l).
  Proof. intros H. rewrite Forall_forall in *. intros x Hx. apply H. apply in_rev. assumption. Qed.
  Lemma strip_flat s0 sl : Forall flatC sl -> Forall flatC (stripCodeSpanSpace s0 sl).
  Proof.
    intros H. unfold stripCodeSpanSpace.
    destruct (negb (existsb _ sl)); [assumption|].
    destruct sl as [|f r]; [assumption|].
    destruct (rev (f :: r)) as [|lst rr] eqn:Er; [assumption|].
    destruct (negb _ || negb _); [assumption|].
    cbv zeta.
    assert (H1 : Forall flatC (if pkind f =? IndentKind
                               then if pind (setInd f (pind f - 1)) =? 0 then r else setInd f (pind f - 1) :: r
                               else if plen (setSpan f (ps f + 1) (pe f)) =? 0 then r else setSpan f (ps f + 1) (pe f) :: r)).
    { inversion H as [|? ? Hf Hr]; subst.
      destruct (pkind f =? IndentKind); [destruct (pind _ =? 0)|destruct (plen _ =? 0)]; try assumption;
        constructor; try assumption; [apply flat_setInd|apply flat_setSpan]; assumption. }
    set (sl1 := if pkind f =? IndentKind then _ else _) in *.
    destruct (rev sl1) as [|l rr'] eqn:Er1; [assumption|].
    assert (H2 : Forall flatC (l :: rr')) by (rewrite <- Er1; apply Forall_rev'; assumption).
    inversion H2 as [|? ? Hl Hrr]; subst.
    destruct (pkind l =? IndentKind); match goal with |- context [if ?c then _ else _] => destruct c end;
      try (apply Forall_rev'; assumption);
      apply (Forall_rev' flatC (_ :: rr')); constructor; try assumption; [apply flat_setInd|apply flat_setSpan]; assumption.
  Qed.

  Lemma IG_collectCodeSpan st a b c d : IG st -> IG (collectCodeSpan st a b c d).
  Proof.
    intros H. unfold collectCodeSpan. cbv zeta.
    destruct (nodeIndexForPosition (unpFrom st) d =? 0).
    - apply IG_plain; [assumption|discriminate|discriminate|]. apply flatF_G, strip_flat, cs_addSpan_flat. constructor.
    - match goal with |- context [?F (Z.to_nat _) (cs_addSpan (isrc st) [] ?x ?y) (upos st)] =>
        assert (HM : forall k acc up, Forall flatC acc -> Forall flatC (fst (F k acc up))) end.
      { induction k as [|k IHk]; intros acc up Ha; [exact Ha|]. cbn [fst]. apply IHk.
        destruct (ikind _ =? UnparsedKind); [apply cs_addSpan_flat|]; assumption. }
      match goal with |- context [?F (Z.to_nat ?n) (cs_addSpan (isrc st) [] ?x ?y) (upos st)] =>
        specialize (HM (Z.to_nat n) (cs_addSpan (isrc st) [] x y) (upos st) (cs_addSpan_flat _ _ _ _ (Forall_nil _)));
        destruct (F (Z.to_nat n) (cs_addSpan (isrc st) [] x y) (upos st)) as [acc up] end.
      cbn [fst] in HM.
      apply IG_plain; [apply IG_setUpos; assumption|discriminate|discriminate|].
      apply flatF_G, strip_flat, cs_addSpan_flat. assumption.
  Qed.

  (* ---- one step of the tokeniser ---- *)
  Lemma IG_istep st pos pl : IG st -> (at_ (isrc st) pos = 93 -> DK (addText st pl pos) pos) -> IG (fst (fst (istep st pos pl))).
  Proof.
    intros H HDK. pose proof (ig_src _ _ H) as Esrc. unfold istep. cbv zeta.
    assert (HT : IG (addText st pl pos)) by (apply IG_addText; assumption).
    destruct ((_ =? 42) || (_ =? 95)).
    { pose proof (IG_parseDelimiterRun src _ pos HT) as H2. destruct (parseDelimiterRun _ pos) as [st2 e]. exact H2. }
    destruct (_ =? 91).
    { match goal with |- context [addNode ?a ?b ?c ?d ?e] =>
        pose proof (fun mk => IG_push src a b c d e mk HT ltac:(discriminate) ltac:(discriminate) eq_refl) as H2; destruct (addNode a b c d e) as [st2 id] end.
      cbn [fst snd] in *. apply (H2 (fun id => {| d_typ := _; d_flags := _; d_n := _; d_node := id |})). reflexivity. }
    destruct (Z.eqb_spec (at_ (isrc st) pos) 93) as [E93|E93].
    { pose proof (IG_parseEndBracket _ pos HT (HDK E93)) as H2. destruct (parseEndBracket _ pos) as [st2 e]. exact H2. }
    destruct (_ =? 33).
    { destruct (_ || _); [exact H|].
      match goal with |- context [addNode ?a ?b ?c ?d ?e] =>
        pose proof (fun mk => IG_push src a b c d e mk HT ltac:(discriminate) ltac:(discriminate) eq_refl) as H2; destruct (addNode a b c d e) as [st2 id] end.
      cbn [fst snd] in *. apply (H2 (fun id => {| d_typ := _; d_flags := _; d_n := _; d_node := id |})). reflexivity. }
    destruct (_ =? 32).
    { destruct (parseHardLineBreakSpace _) as [e ok]. destruct (ok && _); [|exact H].
      cbn [fst]. apply IG_setIgn. apply IG_plain; [assumption|discriminate|discriminate|reflexivity]. }
    destruct (_ =? 96).
    { destruct (parseCodeSpan (rfuelOf st) st pos) as [[cS cE] sE]. destruct (0 <=? sE); [|exact H].
      cbn [fst]. apply IG_collectCodeSpan. exact HT. }
    destruct (Z.eqb_spec (at_ (isrc st) pos) 60) as [E60|E60].
    { destruct (Z.leb_spec 0 (parseAutolink (sub (isrc st) pos (spanEnd st)))) as [Ha|Ha].
      - cbn [fst]. apply IG_addNode; [exact HT|]. rewrite G_eq. cbn [pkind pid pkids].
        change (AutolinkKind =? LinkDestinationKind) with false. change (AutolinkKind =? AutolinkKind) with true. cbv iota. cbn [forallb].
        rewrite andb_true_r. unfold zqa, zero. cbn [pid pkids ps pe knil]. change (0 =? 0) with true. cbn [andb].
        assert (Hpos : 0 <= pos) by (pose proof (at_nonzero_lt (isrc st) pos ltac:(lia)); lia).
        rewrite <- Esrc. replace (parseAutolink (sub (isrc st) pos (spanEnd st)) + pos - 1) with (parseAutolink (sub (isrc st) pos (spanEnd st)) + pos - 1) by reflexivity.
        apply (autolink_child_noEol (isrc st) pos (spanEnd st)); [exact Hpos|reflexivity|exact Ha].
      - destruct (parseHTMLTag _ _) as [ts te]. destruct (negb _); [exact H|]. cbn [fst].
        apply IG_advanceTo.
        assert (HT' : IG (addText st pl ts)) by (apply IG_addText; assumption).
        apply IG_plain; [assumption|discriminate|discriminate|].
        apply lfF_G, kids_lf; [cbn [r_spans newReader]; apply (unpFrom_noKids src _ HT')|discriminate|discriminate]. }
    destruct (_ =? 92).
    { pose proof (IG_parseBackslash src _ pos HT) as H2. destruct (parseBackslash _ pos) as [st2 e]. exact H2. }
    destruct (_ =? 38).
    { destruct (parseCharacterEscape _ <? 0); [exact H|]. cbn [fst]. apply IG_plain; [assumption|discriminate|discriminate|reflexivity]. }
    destruct (_ =? 10).
    { cbn [fst]. destruct (negb _); [|assumption]. apply IG_plain; [assumption|discriminate|discriminate|reflexivity]. }
    destruct (_ =? 13).
    { cbn [fst]. destruct (negb _); [|assumption]. apply IG_plain; [assumption|discriminate|discriminate|reflexivity]. }
    exact H.
  Qed.

  (* the entries copied by the outer loop *)
  Lemma IG_pushU st u : IG st -> ikids u = [] -> ikind u <> AutolinkKind -> ikind u <> LinkDestinationKind ->
    IG (setRk st (rk st ++ [ofInline u])).
  Proof.
    intros H Hk K1 K2. apply IG_setRk; [exact H|]. apply forallb_app_iff. split; [exact (ig_g _ _ H)|]. cbn [forallb]. rewrite andb_true_r.
    apply lf_G. destruct u as [k s e ind rf ks]. cbn [ikids ikind] in *. subst ks. unfold lf. cbn. apply Z.eqb_neq in K1, K2. rewrite K1, K2. reflexivity.
  Qed.
End St2.
