From Coq Require Import List ZArith Lia Bool.
Import ListNotations.
Require Import Base Tree Rdr Link Collect Html Recog LP Rules Starts Driver Render L2Kind L2CC GramDefs GramTree GramLP GramLP2 GramLP3 GramLP4
  Rec17 Rec18 BSOrph BSClose BSLine1 BSLine2 BSLine3 BSLine4 BSLine5 BSLine7 TilBase TilDefs TilLP1 TilLP2 TilLP3 TilLP4 TilLP5.
Require L2Kind2.
Open Scope Z_scope.

(* ================= the setext heading start and the list item start ================= *)

(* closing the heading made from a root paragraph (proved in TilOcp.v) *)
Definition OcpSetext : Prop :=
  forall f s x level e m, isOpen x = true -> bkind x = ParagraphKind -> PIk s m (bik x) -> m <= e -> good s e -> 0 <= e <= len s ->
    lastIsPara (onCloseParagraph s x) = true ->
    (forall y, In y (closeBlock (S f) s (set_bn (set_bkind x SetextHeadingKind) level) e) -> good s (bend y) /\ isOpen y = false) /\
    lastBend e (closeBlock (S f) s (set_bn (set_bkind x SetextHeadingKind) level) e).

Lemma fr_openBlock_up : forall fuel p K, fr p (openBlock_up fuel p K).
Proof.
  induction fuel as [|f IH]; intros p K; [apply fr_refl|]. cbn [openBlock_up].
  destruct (canContain _ _); [apply fr_refl|]. destruct (cdepth p); [apply fr_fields; reflexivity|].
  eapply fr_trans; [|apply IH]. apply fr_fields; reflexivity.
Qed.
Lemma fr_openBlock p K : fr p (openBlock p K).
Proof.
  unfold openBlock. destruct (_ || _); [apply fr_fields; reflexivity|]. cbv zeta.
  eapply fr_trans; [apply fr_opened|]. set (p0 := if state p =? stOpening then withState p stOpenMatched else p).
  eapply fr_trans; [apply fr_openBlock_up|]. apply fr_fields; reflexivity.
Qed.
Lemma li_fr_eq p p' : fr p p' -> li p = len (line p) -> 0 <= li p -> li p' = len (line p').
Proof. intros (_ & _ & F3 & F4) E H. rewrite F3. specialize (F4 ltac:(lia)). lia. Qed.

Section WithOcp.
  Hypothesis HOP : OcpPara.
  Hypothesis HOS : OcpSetext.

  Lemma sOK_startSetext : startOKt startSetext.
  Proof.
    intros p Es H. pose proof (keep p Es H) as Hkeep. destruct H as [H _].
    assert (Hs : st_open p) by (left; exact Es).
    unfold startSetext. cbv zeta. destruct (negb (containerKind p =? ParagraphKind)) eqn:Ek; [exact Hkeep|].
    destruct (_ <=? _); [exact Hkeep|].
    destruct (parseSetextHeadingUnderline (bytesAfterIndent p) =? 0) eqn:E0; [exact Hkeep|].
    destruct (containerHasParagraphContent p) eqn:PC; cbn [negb]; [|exact Hkeep]. clear Hkeep.
    apply negb_false_iff, Z.eqb_eq in Ek. apply Z.eqb_neq in E0.
    set (level := parseSetextHeadingUnderline (bytesAfterIndent p)) in *.
    assert (Hlev : 1 <= level <= 2) by (destruct (setext_level (bytesAfterIndent p)) as [E|E]; [contradiction|exact E]).
    set (g := fun b : block => set_bn (set_bkind b SetextHeadingKind) level).
    destruct H as (A & B & C).
    set (q0 := updCont p g).
    assert (A0 : GI q0) by (apply GI_setext; assumption).
    set (q1 := consumeLine q0).
    assert (A1 : GI q1) by (apply GI_consumeLine, A0).
    assert (F1 : fr p q1) by (eapply fr_trans; [apply fr_updCont|apply fr_cstep, cstep_consumeLine]).
    assert (B1' : EV q1) by (eapply EV_fr; eassumption).
    assert (Nq : nd q1) by (apply ms_nd, ms_consumeLine, st_open_nd; exact Hs).
    assert (Sq : state q1 = stLineConsumed).
    { unfold q1, consumeLine. cbv zeta.
      assert (So : st_open (advance q0 (len (line q0) - li q0))) by (eapply st_open_sstep; [apply sstep_advance|exact Hs]).
      destruct So as [-> | ->]; reflexivity. }
    assert (Hli1 : li q1 = len (line q1)) by (apply li_after_consumeLine; eapply EV_fr; [apply fr_updCont|exact B]).
    assert (HGe : GI (endBlock q1)) by (apply GI_endBlock, A1).
    assert (HLC : LCI (endBlock q1)).
    { apply (LCI_step q1); [apply sstep_endBlock| |exact B1'|intros _; exact Hli1].
      unfold endBlock. destruct (_ || _); [apply fr_fields; reflexivity|]. cbv zeta.
      eapply fr_trans; [apply fr_opened|]. destruct (cdepth _); apply fr_fields; reflexivity. }
    assert (Hd0 : cdepth p <> O).
    { intros E. rewrite (containerKind_root p E) in Ek. destruct A as ((A1' & _) & _). rewrite A1' in Ek. discriminate. }
    assert (Ecd : cdepth q1 = cdepth p) by (unfold q1; rewrite (cd_same _ _ (same_consumeLine q0)); reflexivity).
    assert (Ert : root q1 = updAt (cdepth p) g (root p)) by (unfold q1; destruct (same_consumeLine q0) as [X _]; rewrite X; reflexivity).
    assert (Esrc : source q1 = source p) by (apply F1).
    assert (HT : TI (endBlock q1)).
    { unfold endBlock in *.
      replace ((state q1 =? stDescending) || (state q1 =? stDescendTerminated)) with false in * by (rewrite Sq; reflexivity).
      cbv zeta in *. replace (state q1 =? stOpening) with false in * by (rewrite Sq; reflexivity).
      rewrite Ecd in *.
      destruct (cdepth p) as [|[|d]] eqn:Ed; [contradiction| |].
      - (* the paragraph is a root child *)
        destruct (GI_top1 p A ltac:(lia)) as (c & Ht & Ho).
        assert (Hc : getAt (cdepth p) (root p) = Some c) by (apply top_cont1; assumption).
        assert (Kc : bkind c = ParagraphKind) by (rewrite <- Ek; symmetry; apply containerKind_at; exact Hc).
        assert (El : lastBlock (root p) = Some c) by (rewrite lastBlock_lastL; exact Ht).
        assert (Rq : root q1 = set_lastBlocks (root p) [g c]).
        { rewrite Ert. cbn [updAt]. rewrite El. reflexivity. }
        assert (Kq : bkids (root q1) = removelast (bkids (root p)) ++ [g c]) by (rewrite Rq; unfold set_lastBlocks; apply bkids_set_bkids).
        assert (Tq : top q1 = Some (g c)) by (unfold top; rewrite Kq; apply lastL_snoc).
        destruct C as (CA & _ & _ & CD & _ & CF).
        change (lineStart q1 + li q1) with (cur q1).
        apply closeUp0; [exact A1|exact B1'| | |exact Ecd|].
        + intros x Hx Hb. rewrite Kq in Hx. apply in_app_or in Hx. destruct Hx as [Hx|[<-|[]]].
          * rewrite Esrc. apply CA; [apply removelast_In, Hx|exact Hb].
          * exfalso. unfold isOpen in Ho. apply Z.ltb_lt in Ho. destruct c; cbn in *; lia.
        + intros x Hx. rewrite Kq, removelast_last in Hx. apply CF, Hx.
        + intros c' Hc'. rewrite Tq in Hc'. inversion Hc'; subst c'.
          destruct (CD c Ht Ho Kc) as (m & P1 & P2 & P3). destruct (bheight_S (root q1)) as (n & ->).
          assert (Hcur : cur q1 = len (source p)) by (rewrite <- Esrc; apply (EV_cur_end q1 B1' Hli1)).
          assert (HP : lastIsPara (onCloseParagraph (source p) c) = true).
          { unfold containerHasParagraphContent in PC. rewrite Ek in PC. change (negb (ParagraphKind =? ParagraphKind)) with false in PC.
            cbv iota zeta in PC. unfold contBlock in PC. rewrite Hc in PC. exact PC. }
          rewrite Esrc in *. rewrite Hcur. destruct B as (_ & B2 & _ & _).
          apply (HOS n (source p) c level (len (source p)) m); try assumption; try lia. apply good_end.
      - apply closeUp_deep; [exact A1|exact B1'| |exact Ecd].
        apply (T0_ksim p); [exact Esrc|apply F1| |apply TT_T0, C].
        rewrite Ert. apply ksim_updAt. intros E. discriminate E. }
    split; [split; [exact HT|]|exact HLC].
    (* the parent of the heading has a child *)
    revert HT. unfold endBlock.
    replace ((state q1 =? stDescending) || (state q1 =? stDescendTerminated)) with false by (rewrite Sq; reflexivity).
    cbv zeta. replace (state q1 =? stOpening) with false by (rewrite Sq; reflexivity).
    rewrite Ecd. destruct (cdepth p) as [|d] eqn:Ed; [contradiction|].
    intros HT. apply RN_has_child; [apply HT|].
    destruct A1 as ((_ & _ & (x & Hx)) & _). rewrite Ecd in Hx.
    change (cdepth (withCont (closeLastChildAt q1 d (lineStart q1 + li q1)) (Some d))) with d. eapply child_after_closeAt. exact Hx.
  Qed.

  (* ---- the list item ---- *)
  Lemma openItemMarker_shape p delim : st_open p -> GI p -> containerKind p = ListKind -> bchar (contBlock p) = delim ->
    let q := updCont (openBlock p ListItemKind) (fun b => set_bchar b delim) in
    let p3 := obPre p ListItemKind in
    let m := newBlock ListMarkerKind (obPos q ListMarkerKind) in
    let item := Blk ListItemKind (obPos p ListItemKind) (-1) [m] [] 0 0 delim false false in
    root (openBlock q ListMarkerKind) = updAt (cdepth p3) (appendB item) (root p3) /\
    cdepth (openBlock q ListMarkerKind) = S (S (cdepth p3)) /\
    GI (withCont (updCont p3 (appendB item)) (Some (S (cdepth p3)))) /\
    cdepth p3 = cdepth p.
  Proof.
    intros Hs H Hk Hd. cbv zeta.
    set (sb := fun b : block => set_bchar b delim).
    set (q1 := openBlock p ListItemKind). set (q := updCont q1 sb).
    assert (Hcan : canContain (containerKind p) ListItemKind = true) by (rewrite Hk; reflexivity).
    assert (Sq : st_open q) by (apply st_open_updCont, L2Kind2.st_open_openBlock, Hs).
    assert (Cq : ccP q).
    { apply ccP_updCont; [apply ccP_openBlock; [apply H|right; exact Hcan]|].
      intros x _ Hx. unfold sb. rewrite cc_set_bchar, bkind_set_bchar. tauto. }
    assert (Kq : containerKind q = ListItemKind).
    { apply containerKind_of; [exact Cq|]. apply ckind_updCont; [intros b; apply bkind_set_bchar|]. apply ckind_openBlock, Hs. }
    set (q0 := if state q =? stOpening then withState q stOpenMatched else q).
    assert (Epre : obPre q ListMarkerKind = closeLastChildAt q0 (cdepth q) (lineStart q)).
    { apply obPre_stay. rewrite Kq. reflexivity. }
    set (p3 := obPre p ListItemKind) in *. set (d := cdepth p3).
    set (nb := newBlock ListItemKind (obPos p ListItemKind)).
    set (m := newBlock ListMarkerKind (obPos q ListMarkerKind)).
    assert (Eq1 : root q1 = updAt d (appendB nb) (root p3) /\ cdepth q1 = S d).
    { split; [apply (root_openBlock p ListItemKind Hs)|apply (cdepth_openBlock p ListItemKind Hs)]. }
    destruct Eq1 as [Rq1 Dq1].
    assert (Rq : root q = updAt (S d) sb (updAt d (appendB nb) (root p3))).
    { unfold q. rewrite root_updCont, Dq1, Rq1. reflexivity. }
    assert (Dq : cdepth q = S d) by (unfold q; rewrite cdepth_updCont; exact Dq1).
    assert (Rq0 : root q0 = root q /\ cdepth q0 = cdepth q) by (unfold q0; destruct (state q =? stOpening); split; reflexivity).
    destruct Rq0 as [Rq0 Dq0].
    set (item := Blk ListItemKind (obPos p ListItemKind) (-1) [m] [] 0 0 delim false false).
    split; [|split; [|split]].
    - rewrite (root_openBlock q ListMarkerKind Sq). fold m. rewrite Epre.
      change (cdepth (closeLastChildAt q0 (cdepth q) (lineStart q))) with (cdepth q0).
      change (root (closeLastChildAt q0 (cdepth q) (lineStart q))) with (updAt (cdepth q) (closeF q0 (lineStart q)) (root q0)).
      rewrite Dq0, Rq0, Dq, Rq. rewrite !updAt_fuse. rewrite updAt_S_append. reflexivity.
    - rewrite (cdepth_openBlock q ListMarkerKind Sq), Epre.
      change (cdepth (closeLastChildAt q0 (cdepth q) (lineStart q))) with (cdepth q0). rewrite Dq0, Dq. reflexivity.
    - apply (GI_open_core p ListItemKind item H (or_intror Hcan)); try reflexivity; [discriminate|].
      intros _. split; [|reflexivity]. fold p3. unfold p3. rewrite (bchar_cont_obPre p ListItemKind Hcan). symmetry. exact Hd.
    - unfold d, p3. rewrite (obPre_stay p ListItemKind Hcan). destruct (state p =? stOpening); reflexivity.
  Qed.

  Lemma TI_openItemMarker p delim : st_open p -> TI p -> containerKind p = ListKind -> bchar (contBlock p) = delim ->
    TKL (openBlock (updCont (openBlock p ListItemKind) (fun b => set_bchar b delim)) ListMarkerKind) ListMarkerKind /\
    (2 <= cdepth p + 2)%nat /\
    cdepth (openBlock (updCont (openBlock p ListItemKind) (fun b => set_bchar b delim)) ListMarkerKind) = S (S (cdepth p)).
  Proof.
    intros Hs H Hk Hd. destruct (openItemMarker_shape p delim Hs (proj1 H) Hk Hd) as (RF & DF & HS & Ed). cbv zeta in *.
    set (q := updCont (openBlock p ListItemKind) (fun b => set_bchar b delim)) in *.
    set (p3 := obPre p ListItemKind) in *.
    set (m := newBlock ListMarkerKind (obPos q ListMarkerKind)) in *.
    set (item := Blk ListItemKind (obPos p ListItemKind) (-1) [m] [] 0 0 delim false false) in *.
    assert (Sq : st_open q) by (apply st_open_updCont, L2Kind2.st_open_openBlock, Hs).
    destruct (TI0_obPre HOP p ListItemKind (TI_TI0 p H)) as [H3 Hcl]. fold p3 in H3, Hcl.
    pose proof (TI_attach p3 item H3 Hcl eq_refl eq_refl ltac:(discriminate) HS) as HA.
    set (p4 := openBlock q ListMarkerKind) in *.
    assert (G4 : GI p4) by (apply GI_openItemMarker; [exact Hs|apply H|exact Hk|exact Hd]).
    assert (F4 : fr p p4).
    { eapply fr_trans; [apply fr_openBlock|]. eapply fr_trans; [apply fr_updCont|]. apply fr_openBlock. }
    split; [|split; [lia|rewrite DF, Ed; reflexivity]].
    split; [|split; [apply LCI_open, L2Kind2.st_open_openBlock, Sq|apply ckind_openBlock, Sq]].
    split; [exact G4|]. split; [eapply EV_fr; [exact F4|apply H]|].
    apply TT_loud.
    - destruct HA as (_ & _ & HA). apply TT_T0 in HA. revert HA. apply T0_same.
      + rewrite RF. reflexivity.
      + destruct F4 as (F41 & _). rewrite F41. unfold p3. symmetry. apply (fr_trans p _ _ (fr_opened p)).
        eapply fr_trans; [apply fr_openBlock_up|apply fr_fields; reflexivity].
      + destruct F4 as (_ & F42 & _). rewrite F42. unfold p3. symmetry. apply (fr_trans p _ _ (fr_opened p)).
        eapply fr_trans; [apply fr_openBlock_up|apply fr_fields; reflexivity].
    - apply loud_deep; [apply G4| |rewrite DF; lia].
      destruct G4 as ((_ & _ & (x & Hx)) & _). rewrite DF in Hx. eapply getAt_le; [|exact Hx]. lia.
  Qed.
End WithOcp.
