(* QFull1.v -- T64: from the block layer (QS2Spec2.parseBlocks_quote) to parseFull, given two facts about every block of D:
     LeafSimAt D : the inline pass on a leaf of quote D is the image of the inline pass on the leaf of D (QInl*.v),
     EntSameAt D : the entries of a block that the inline pass leaves alone have the same image under qI and qI3D. *)
From Coq Require Import List ZArith Lia Bool.
Import ListNotations.
Require Import Base Tree LP Driver Inl3a Inl3e SpanHypDef QuoteSimDefs QS2Spec2 QCutsDef QIRdrBase QInlDefs QFullDefs.
Open Scope Z_scope.

(* sub-blocks *)
Inductive subB : block -> block -> Prop :=
  | subB_refl b : subB b b
  | subB_kid b c b0 : subB b b0 -> In c (bkids b) -> subB c b0.

Definition refsOf (roots : list rootB) : list bytes := fold_left (fun a r => extractB (bheight (rb_blk r)) (rb_blk r) a) roots [].

Definition LeafSimAt (D : bytes) : Prop := forall r b, In r (fst (parseBlocks D)) -> subB b (rb_blk r) -> isLeafU b = true ->
  parseInlines (quote D) (refsOf (fst (parseBlocks D))) (qB D (shiftB (rb_start r) b)) =
  flat_map (qI3D D) (map (shiftI (rb_start r)) (parseInlines (rb_src r) (refsOf (fst (parseBlocks D))) b)).
Definition EntSameAt (D : bytes) : Prop := forall r b, In r (fst (parseBlocks D)) -> subB b (rb_blk r) -> isLeafU b = false ->
  flat_map (qI D) (map (shiftI (rb_start r)) (bik b)) = flat_map (qI3D D) (map (shiftI (rb_start r)) (bik b)).

(* ---- rewriteB: enough fuel is enough ---- *)
Lemma bheight_kid' b c : In c (bkids b) -> (bheight c < bheight b)%nat.
Proof.
  destruct b as [k s e bk ik a n ch l lb]. cbn [bkids bheight]. induction bk as [|x r IH]; intros H; [destruct H|]. cbn [map fold_right].
  destruct H as [<-|H]; [lia|]. specialize (IH H). lia.
Qed.
Lemma rewriteB_fuel src m : forall f f' b, (bheight b <= f)%nat -> (bheight b <= f')%nat -> rewriteB f src m b = rewriteB f' src m b.
Proof.
  induction f as [|f IH]; intros f' b H H'.
  { exfalso. destruct b as [k s e bk ik a n ch l lb]. cbn [bheight] in H. lia. }
  destruct f' as [|f']; [exfalso; destruct b as [k s e bk ik a n ch l lb]; cbn [bheight] in H'; lia|].
  cbn [rewriteB]. destruct ((0 <? len (bik b)) && hasUnparsed b); [reflexivity|]. f_equal. apply map_ext_in. intros c Hc.
  pose proof (bheight_kid' b c Hc). apply IH; lia.
Qed.

(* ---- the fields of the images ---- *)
Lemma bik_shiftB' n b : bik (shiftB n b) = map (shiftI n) (bik b). Proof. destruct b; reflexivity. Qed.
Lemma bkids_shiftB' n b : bkids (shiftB n b) = map (shiftB n) (bkids b). Proof. destruct b; reflexivity. Qed.
Lemma bik_qB D b : bik (qB D b) = flat_map (qI D) (bik b). Proof. destruct b; reflexivity. Qed.
Lemma bkids_qB D b : bkids (qB D b) = map (qB D) (bkids b). Proof. destruct b; reflexivity. Qed.
Lemma bkind_qB D b : bkind (qB D b) = bkind b. Proof. destruct b; reflexivity. Qed.
Lemma bkind_shiftB' n b : bkind (shiftB n b) = bkind b. Proof. destruct b; reflexivity. Qed.
Lemma bheight_map (g : block -> block) : (forall b, bkids (g b) = map g (bkids b)) -> forall b, bheight (g b) = bheight b.
Proof.
  intros Hg. fix IH 1. intros b. pose proof (Hg b) as E. destruct b as [k s e bk ik a n ch l lb]. destruct (g (Blk k s e bk ik a n ch l lb)) as [k' s' e' bk' ik' a' n' ch' l' lb'].
  cbn [bkids] in E. subst bk'. cbn [bheight]. f_equal. induction bk as [|x r IHr]; [reflexivity|]. cbn [map fold_right]. rewrite IH, IHr. reflexivity.
Qed.
Lemma bheight_qB D b : bheight (qB D b) = bheight b. Proof. apply bheight_map. intros x. apply bkids_qB. Qed.
Lemma bheight_shiftB' n b : bheight (shiftB n b) = bheight b. Proof. apply bheight_map. intros x. apply bkids_shiftB'. Qed.

(* kinds of the pieces *)
Lemma qI_kinds D : forall i x, In x (qI D i) -> ikind x = ikind i /\ iref x = iref i.
Proof.
  intros [k s e ind rf ks] x. cbn [qI]. cbv zeta. destruct ((k =? TextKind) && (s <? e)).
  - intros H. apply in_map_iff in H. destruct H as (p & <- & _). split; reflexivity.
  - intros [<-|[]]. split; reflexivity.
Qed.
Lemma qI_nonempty D i : qI D i <> [].
Proof.
  destruct i as [k s e ind rf ks]. cbn [qI]. cbv zeta. destruct ((k =? TextKind) && (s <? e)); [|discriminate].
  destruct (Z.to_nat (e - s)) as [|f]; cbn [splitAt]; [discriminate|]. cbv zeta. destruct (_ && _); discriminate.
Qed.
Lemma ikind_shiftI'' n u : ikind (shiftI n u) = ikind u. Proof. destruct u; reflexivity. Qed.
Lemma iref_shiftI n u : iref (shiftI n u) = iref u. Proof. destruct u; reflexivity. Qed.
Lemma hasUnparsed_img D n b : hasUnparsed (qB D (shiftB n b)) = hasUnparsed b.
Proof.
  unfold hasUnparsed. rewrite bik_qB, bik_shiftB'. induction (bik b) as [|u r IH]; [reflexivity|]. cbn [map flat_map]. rewrite existsb_app, IH. cbn [existsb]. f_equal.
  pose proof (qI_nonempty D (shiftI n u)) as Hne. pose proof (qI_kinds D (shiftI n u)) as Hk.
  destruct (qI D (shiftI n u)) as [|x l]; [contradiction|]. cbn [existsb].
  assert (Hall : forall y, In y (x :: l) -> (ikind y =? UnparsedKind) = (ikind u =? UnparsedKind)) by (intros y Hy; destruct (Hk y Hy) as [-> _]; rewrite ikind_shiftI''; reflexivity).
  destruct (ikind u =? UnparsedKind) eqn:E.
  - cbv beta. rewrite (Hall x (or_introl eq_refl)). reflexivity.
  - apply Bool.not_true_is_false. intros H.
    assert (H' : existsb (fun i => ikind i =? UnparsedKind) (x :: l) = true) by exact H.
    apply existsb_exists in H'. destruct H' as (y & Hy & Ey). rewrite (Hall y Hy) in Ey. discriminate Ey.
Qed.
Lemma len_pos_img D n b : (0 <? len (bik (qB D (shiftB n b)))) = (0 <? len (bik b)).
Proof.
  rewrite bik_qB, bik_shiftB'. destruct (bik b) as [|u r]; [reflexivity|]. cbn [map flat_map].
  pose proof (qI_nonempty D (shiftI n u)). destruct (qI D (shiftI n u)) as [|x l] eqn:E; [contradiction|]. cbn [app]. unfold len. cbn [length].
  destruct (Z.ltb_spec 0 (Z.of_nat (S (length (l ++ flat_map (qI D) (map (shiftI n) r)))))); destruct (Z.ltb_spec 0 (Z.of_nat (S (length r)))); lia || reflexivity.
Qed.
Lemma isLeafU_img D n b : isLeafU (qB D (shiftB n b)) = isLeafU b.
Proof. unfold isLeafU. rewrite len_pos_img, hasUnparsed_img. reflexivity. Qed.

(* ---- the reference labels ---- *)
Lemma extractB_img D n : forall f b acc, extractB f (qB D (shiftB n b)) acc = extractB f b acc.
Proof.
  induction f as [|f IH]; intros b acc; [reflexivity|]. cbn [extractB]. rewrite bkind_qB, bkind_shiftB'.
  destruct (bkind b =? LinkReferenceDefinitionKind).
  - rewrite bik_qB, bik_shiftB'. destruct (bik b) as [|l r]; [reflexivity|]. cbn [map flat_map].
    pose proof (qI_nonempty D (shiftI n l)) as Hne. pose proof (qI_kinds D (shiftI n l)) as Hk.
    destruct (qI D (shiftI n l)) as [|x xs]; [contradiction|]. cbn [app]. destruct (Hk x (or_introl eq_refl)) as [_ ->]. rewrite iref_shiftI. reflexivity.
  - rewrite bkids_qB, bkids_shiftB', map_map. generalize acc. induction (bkids b) as [|c r IHr]; intros acc0; [reflexivity|]. cbn [map fold_left]. rewrite IH. apply IHr.
Qed.
Lemma extractB_fuel : forall f f' b acc, (bheight b <= f)%nat -> (bheight b <= f')%nat -> extractB f b acc = extractB f' b acc.
Proof.
  induction f as [|f IH]; intros f' b acc H H'.
  { exfalso. destruct b as [k s e bk ik a n ch l lb]. cbn [bheight] in H. lia. }
  destruct f' as [|f']; [exfalso; destruct b as [k s e bk ik a n ch l lb]; cbn [bheight] in H'; lia|].
  cbn [extractB]. destruct (bkind b =? LinkReferenceDefinitionKind); [reflexivity|].
  assert (Hk : forall c, In c (bkids b) -> (bheight c <= f)%nat /\ (bheight c <= f')%nat) by (intros c Hc; pose proof (bheight_kid' b c Hc); lia).
  revert acc Hk. induction (bkids b) as [|c r IHr]; intros acc Hk; [reflexivity|]. cbn [fold_left].
  rewrite (IH f' c acc (proj1 (Hk c (or_introl eq_refl))) (proj2 (Hk c (or_introl eq_refl)))). apply IHr. intros x Hx. apply Hk. right. exact Hx.
Qed.
Lemma extractB_set_blast f b v acc : extractB f (set_blast b v) acc = extractB f b acc.
Proof. destruct f; [reflexivity|]. destruct b; reflexivity. Qed.

(* ---- rewriteB on the image of a block ---- *)
Definition KidsNilAt (D : bytes) : Prop := forall r b, In r (fst (parseBlocks D)) -> subB b (rb_blk r) -> isLeafU b = true -> bkids b = [].

Lemma parseInlines_set_blast src m b v : parseInlines src m (set_blast b v) = parseInlines src m b.
Proof. destruct b; reflexivity. Qed.
Lemma rewriteB_set_blast src m v : forall f b, rewriteB f src m (set_blast b v) = set_blast (rewriteB f src m b) v.
Proof.
  intros f b. destruct f as [|f]; [reflexivity|]. cbn [rewriteB].
  replace (bik (set_blast b v)) with (bik b) by (destruct b; reflexivity).
  replace (hasUnparsed (set_blast b v)) with (hasUnparsed b) by (destruct b; reflexivity).
  replace (bkids (set_blast b v)) with (bkids b) by (destruct b; reflexivity).
  rewrite parseInlines_set_blast. destruct (_ && _); destruct b; reflexivity.
Qed.

Lemma bheight_pos' b : (1 <= bheight b)%nat. Proof. destruct b; cbn [bheight]; lia. Qed.
Lemma qB3_fields D b : bkind (qB3 D b) = bkind b /\ bkids (qB3 D b) = map (qB3 D) (bkids b) /\ bik (qB3 D b) = flat_map (qI3D D) (bik b).
Proof. destruct b; repeat split. Qed.

Section Img.
  Variable D : bytes.
  Hypothesis HL : LeafSimAt D.
  Hypothesis HE : EntSameAt D.
  Hypothesis HK : KidsNilAt D.
  Notation refs := (refsOf (fst (parseBlocks D))).

  Lemma rewriteB_img r : In r (fst (parseBlocks D)) -> forall f b, subB b (rb_blk r) -> (bheight b <= f)%nat ->
    rewriteB f (quote D) refs (qB D (shiftB (rb_start r) b)) = qB3 D (shiftB (rb_start r) (rewriteB f (rb_src r) refs b)).
  Proof.
    intros Hr. induction f as [|f IH]; intros b Hb Hf; [pose proof (bheight_pos' b); lia|].
    cbn [rewriteB]. change ((0 <? len (bik (qB D (shiftB (rb_start r) b)))) && hasUnparsed (qB D (shiftB (rb_start r) b))) with (isLeafU (qB D (shiftB (rb_start r) b))).
    change ((0 <? len (bik b)) && hasUnparsed b) with (isLeafU b). rewrite isLeafU_img.
    destruct (isLeafU b) eqn:El.
    - rewrite (HL r b Hr Hb El). pose proof (HK r b Hr Hb El) as Ek.
      destruct b as [k s e bk ik a n ch l lb]. cbn [bkids] in Ek. subst bk. reflexivity.
    - pose proof (HE r b Hr Hb El) as Ee.
      assert (Ekids : map (rewriteB f (quote D) refs) (bkids (qB D (shiftB (rb_start r) b))) =
                      map (qB3 D) (map (shiftB (rb_start r)) (map (rewriteB f (rb_src r) refs) (bkids b)))).
      { rewrite bkids_qB, bkids_shiftB', !map_map. apply map_ext_in. intros c Hc. apply IH; [apply (subB_kid b c _ Hb Hc)|pose proof (bheight_kid' b c Hc); lia]. }
      destruct b as [k s e bk ik a n ch l lb]. cbn [bkids bik] in *. cbn [shiftB qB set_bkids qB3 bkids] in *. rewrite Ekids, Ee. reflexivity.
  Qed.
End Img.

(* ---- the document ---- *)
Lemma bheight_set_blast b v : bheight (set_blast b v) = bheight b. Proof. destruct b; reflexivity. Qed.
Lemma fold_max_ge (l : list block) c : In c l -> (bheight c <= fold_right (fun c acc => Nat.max (bheight c) acc) 0 l)%nat.
Proof. induction l as [|x r IH]; intros H; [destruct H|]. cbn [fold_right]. destruct H as [<-|H]; [lia|specialize (IH H); lia]. Qed.

Lemma refs_quoteKids D f : forall roots acc, (forall r, In r roots -> (bheight (rb_blk r) <= f)%nat) ->
  fold_left (fun a c => extractB f c a) (quoteKids D roots) acc = fold_left (fun a r => extractB (bheight (rb_blk r)) (rb_blk r) a) roots acc.
Proof.
  induction roots as [|r rest IH]; intros acc Hf; [reflexivity|]. cbn [quoteKids fold_left]. cbv zeta.
  assert (E : extractB f (if rb_end r <? match rest with r' :: _ => rb_start r' | [] => len D end then set_blast (qB D (shiftB (rb_start r) (rb_blk r))) true
                          else qB D (shiftB (rb_start r) (rb_blk r))) acc = extractB (bheight (rb_blk r)) (rb_blk r) acc).
  { destruct (_ <? _); rewrite ?extractB_set_blast, extractB_img; apply extractB_fuel; try lia; apply Hf; left; reflexivity. }
  rewrite E. apply IH. intros x Hx. apply Hf. right. exact Hx.
Qed.

Lemma bheight_quoteKids D : forall roots c, In c (quoteKids D roots) -> exists r, In r roots /\ bheight c = bheight (rb_blk r).
Proof.
  induction roots as [|r rest IH]; intros c H; [destruct H|]. cbn [quoteKids] in H. cbv zeta in H. destruct H as [<-|H].
  - exists r. split; [left; reflexivity|]. destruct (_ <? _); [rewrite bheight_set_blast|]; rewrite bheight_qB, bheight_shiftB'; reflexivity.
  - destruct (IH c H) as (r0 & Hr0 & E). exists r0. split; [right; exact Hr0|exact E].
Qed.

Theorem parseFull_quote_of : forall D, tabFree D -> D <> [] -> LeafSimAt D -> EntSameAt D -> KidsNilAt D ->
  exists lb, parseFull (quote D) = ([quoteRoot D lb (quoteKids3 D (fst (parseFull D)))], 0).
Proof.
  intros D HT Hne HL HE HK. destruct (parseBlocks_quote D HT Hne) as [lb EQ]. exists lb.
  unfold parseFull. rewrite EQ. destruct (parseBlocks D) as [roots code] eqn:ED. cbn [fst] in *.
  assert (Eroots : roots = fst (parseBlocks D)) by (rewrite ED; reflexivity).
  cbn [fold_left map]. f_equal. f_equal.
  set (kids := quoteKids D roots).
  set (bq := rb_blk (quoteRoot D lb kids)).
  assert (Ebq : bq = Blk BlockQuoteKind 0 (len (quote D)) kids [] 0 0 0 false lb) by reflexivity.
  set (f := fold_right (fun c acc => Nat.max (bheight c) acc) 0%nat kids).
  assert (Hh : bheight bq = S f) by (rewrite Ebq; reflexivity).
  (* the reference labels *)
  assert (Erefs : extractB (bheight bq) bq [] = refsOf roots).
  { rewrite Hh, Ebq. cbn [extractB bkind bkids]. change (BlockQuoteKind =? LinkReferenceDefinitionKind) with false. cbv iota.
    unfold refsOf. apply refs_quoteKids. intros r Hr.
    assert (Hin : In (if rb_end r <? 0 then qB D (shiftB (rb_start r) (rb_blk r)) else qB D (shiftB (rb_start r) (rb_blk r))) (map (fun r => qB D (shiftB (rb_start r) (rb_blk r))) roots))
      by (destruct (_ <? _); apply in_map_iff; exists r; split; [reflexivity|exact Hr| reflexivity|exact Hr]).
    (* the height of r is the height of one of the kids *)
    assert (Hk : exists c, In c kids /\ bheight c = bheight (rb_blk r)).
    { clear -Hr. unfold kids. induction roots as [|x rest IH]; [destruct Hr|]. cbn [quoteKids]. cbv zeta. destruct Hr as [->|Hr].
      - eexists. split; [left; reflexivity|]. destruct (_ <? _); [rewrite bheight_set_blast|]; rewrite bheight_qB, bheight_shiftB'; reflexivity.
      - destruct (IH Hr) as (c & Hc & E). exists c. split; [right; exact Hc|exact E]. }
    destruct Hk as (c & Hc & E). rewrite <- E. apply fold_max_ge, Hc. }
  unfold quoteRoot at 1. cbn [rb_line rb_start rb_end rb_src rb_blk]. unfold quoteRoot. f_equal.
  fold kids. fold bq. rewrite Erefs, Hh. cbn [rewriteB]. rewrite Ebq. cbn [bik bkids]. change (0 <? len (@nil inline)) with false. cbn [andb set_bkids]. f_equal.
  (* the children *)
  assert (Hsub : forall r, In r roots -> In r (fst (parseBlocks D))) by (intros r Hr; rewrite <- Eroots; exact Hr).
  assert (Hf : forall r, In r roots -> (bheight (rb_blk r) <= f)%nat).
  { intros r Hr. assert (Hk : exists c, In c kids /\ bheight c = bheight (rb_blk r)).
    { clear -Hr. unfold kids. induction roots as [|x rest IH]; [destruct Hr|]. cbn [quoteKids]. cbv zeta. destruct Hr as [->|Hr].
      - eexists. split; [left; reflexivity|]. destruct (_ <? _); [rewrite bheight_set_blast|]; rewrite bheight_qB, bheight_shiftB'; reflexivity.
      - destruct (IH Hr) as (c & Hc & E). exists c. split; [right; exact Hc|exact E]. }
    destruct Hk as (c & Hc & E). rewrite <- E. apply fold_max_ge, Hc. }
  clearbody f. unfold kids. clear Erefs Hh Ebq bq kids EQ.
  assert (G : forall l, (forall r, In r l -> In r roots) ->
    map (rewriteB f (quote D) (refsOf roots)) (quoteKids D l) =
    quoteKids3 D (map (fun r => {| rb_line := rb_line r; rb_start := rb_start r; rb_end := rb_end r; rb_src := rb_src r;
                                   rb_blk := rewriteB (bheight (rb_blk r)) (rb_src r) (refsOf roots) (rb_blk r) |}) l)).
  { induction l as [|r rest IH]; intros Hl; [reflexivity|]. cbn [quoteKids map quoteKids3]. cbv zeta. cbn [rb_start rb_end rb_blk].
    rewrite IH by (intros x Hx; apply Hl; right; exact Hx).
    assert (Hr : In r roots) by (apply Hl; left; reflexivity).
    assert (Er : rewriteB f (quote D) (refsOf roots) (qB D (shiftB (rb_start r) (rb_blk r))) =
                 qB3 D (shiftB (rb_start r) (rewriteB (bheight (rb_blk r)) (rb_src r) (refsOf roots) (rb_blk r)))).
    { pose proof (rewriteB_img D HL HE HK r (Hsub r Hr) f (rb_blk r) (subB_refl _) (Hf r Hr)) as X. rewrite <- Eroots in X. rewrite X.
      f_equal. f_equal. apply rewriteB_fuel; [apply Hf, Hr|lia]. }
    f_equal.
    replace (match map _ rest with [] => len D | r' :: _ => rb_start r' end) with (match rest with [] => len D | r' :: _ => rb_start r' end) by (destruct rest; reflexivity).
    destruct (_ <? _); [rewrite rewriteB_set_blast|]; rewrite Er; reflexivity. }
  apply G. intros r Hr. exact Hr.
Qed.
Print Assumptions parseFull_quote_of.
