From Coq Require Import List ZArith Lia Bool.
Import ListNotations.
Require Import Base Tables Utf8 Tree Recog Inl3b Driver Inl3e Render.
Open Scope Z_scope.

(* C12, "the first definition wins": Extract over the blocks in order is a left fold of add-if-absent
   over the definitions in source order, wherever they sit. *)
Definition defOfBlock (src : bytes) (b : block) : option (bytes * linkDef) :=
  match bik b with
  | l :: d :: rest =>
    Some (iref l, {| ld_dest := textOfChildren src d;
                     ld_title := match rest with t :: _ => textOfChildren src t | [] => [] end;
                     ld_has := match rest with _ :: _ => true | [] => false end |})
  | _ => None
  end.
Definition addDef (acc : list (bytes * linkDef)) (kv : bytes * linkDef) : list (bytes * linkDef) :=
  if (len (fst kv) =? 0) || existsb (fun x => Utf8.bytes_eqb (fst x) (fst kv)) acc then acc else acc ++ [kv].

(* definitions in source order (pre-order over block children) *)
Fixpoint defsInOrder (fuel : nat) (src : bytes) (b : block) : list (bytes * linkDef) :=
  match fuel with
  | O => []
  | S f =>
    if bkind b =? LinkReferenceDefinitionKind then
      match defOfBlock src b with Some kv => [kv] | None => [] end
    else flat_map (defsInOrder f src) (bkids b)
  end.

Lemma fold_addDef_app l1 l2 acc : fold_left addDef (l1 ++ l2) acc = fold_left addDef l2 (fold_left addDef l1 acc).
Proof. apply fold_left_app. Qed.

Theorem extract_is_fold : forall fuel src b acc,
  extractDefs fuel src b acc = fold_left addDef (defsInOrder fuel src b) acc.
Proof.
  induction fuel as [|f IH]; intros src b acc; [reflexivity|].
  cbn [extractDefs defsInOrder].
  destruct (bkind b =? LinkReferenceDefinitionKind).
  - unfold defOfBlock. destruct (bik b) as [|l [|d rest]]; [reflexivity|reflexivity|].
    cbn [fold_left]. unfold addDef. cbn [fst]. reflexivity.
  - generalize (bkids b) acc. induction l as [|c cs IHc]; intros a; [reflexivity|].
    cbn [fold_left flat_map]. rewrite fold_addDef_app, <- IH. apply IHc.
Qed.

(* what a left fold of add-if-absent computes: the first entry per non-empty key, keys unique *)
Fixpoint lookupKV (m : list (bytes * linkDef)) (k : bytes) : option linkDef :=
  match m with [] => None | (k', v) :: r => if Utf8.bytes_eqb k' k then Some v else lookupKV r k end.

Lemma lookup_app m1 m2 k : lookupKV (m1 ++ m2) k = match lookupKV m1 k with Some v => Some v | None => lookupKV m2 k end.
Proof. induction m1 as [|[k' v] r IH]; [reflexivity|]. cbn. destruct (Utf8.bytes_eqb k' k); [reflexivity|exact IH]. Qed.

Lemma lookup_none_iff m k : lookupKV m k = None <-> existsb (fun x => Utf8.bytes_eqb (fst x) k) m = false.
Proof.
  induction m as [|[k' v] r IH]; [split; reflexivity|]. cbn.
  destruct (Utf8.bytes_eqb k' k); [split; discriminate|exact IH].
Qed.

(* once a key is present, later definitions never change what it maps to *)
Theorem first_wins_stable defs : forall acc k v,
  lookupKV acc k = Some v -> lookupKV (fold_left addDef defs acc) k = Some v.
Proof.
  induction defs as [|kv r IH]; intros acc k v H; [assumption|]. cbn [fold_left]. apply IH.
  unfold addDef. destruct ((len (fst kv) =? 0) || existsb _ acc); [assumption|].
  rewrite lookup_app, H. reflexivity.
Qed.

(* the first definition of a non-empty key that is not yet present is the one recorded *)
Theorem first_wins_first acc k v rest : (len k =? 0) = false -> lookupKV acc k = None ->
  (forall a b, Utf8.bytes_eqb a b = true -> a = b) -> Utf8.bytes_eqb k k = true ->
  lookupKV (fold_left addDef ((k, v) :: rest) acc) k = Some v.
Proof.
  intros Hne Hnone _ Hrefl. cbn [fold_left]. apply first_wins_stable.
  unfold addDef. cbn [fst]. rewrite Hne. apply lookup_none_iff in Hnone. rewrite Hnone. cbn [orb].
  rewrite lookup_app, (proj2 (lookup_none_iff acc k) Hnone). cbn. rewrite Hrefl. reflexivity.
Qed.
Print Assumptions extract_is_fold.
