From Coq Require Import List ZArith Lia Bool String Ascii.
Import ListNotations.
Require Import Base Tree Rdr Link Collect LP Driver BSDef BSTest EolBounded EolCRLFDefs.
Open Scope Z_scope.

Definition ck (s : bytes) : bool :=
  beqRes (parseBlocks (crlf s)) (map (phiRoot s) (fst (parseBlocks s)), snd (parseBlocks s)).
Open Scope string_scope.
Definition bsl := String (ascii_of_nat 92) EmptyString.
Definition w1 := bs ("[a]: /u").
Definition w2 := bs ("[a]: /u 't'" ++ nl).
Definition w3 := bs ("[a" ++ nl ++ "b]: /u 'tt" ++ nl ++ "uu'" ++ nl ++ "text").
Definition w4 := bs ("[a]:" ++ nl ++ "/u" ++ nl ++ "'t'" ++ nl ++ "x").
Definition w5 := bs ("[a]: /u" ++ nl ++ "[b]: /v" ++ nl ++ "text" ++ nl ++ "more").
Definition w6 := bs ("[a]: /u 'bad" ++ nl ++ "x" ++ nl ++ nl ++ "y").
Definition w7 := bs ("[a]: /u" ++ nl ++ "===" ++ nl ++ "x").
Definition w8 := bs ("[a]: /u" ++ nl ++ "[c]: /d" ++ nl ++ "===" ++ nl).
Definition w9 := bs ("> [a" ++ nl ++ "> b]: /u" ++ nl ++ "> 'ti" ++ nl ++ "> tle'" ++ nl ++ "> rest" ++ nl ++ "lazy").
Definition w10 := bs (">" ++ tab ++ "[a]: /u" ++ nl ++ ">" ++ tab ++ "'t'" ++ nl ++ "x").
Definition w11 := bs ("- " ++ tab ++ "[a" ++ nl ++ tab ++ tab ++ "b]: <u v>" ++ nl ++ "  'x'" ++ nl).
Definition w12 := bs ("[a" ++ bsl ++ nl ++ "b]: /u" ++ bsl ++ nl ++ "'t" ++ bsl ++ nl ++ "u'" ++ nl).
Definition w13 := bs ("[a&amp;" ++ nl ++ "  b]: /u&amp;x '&#12;" ++ nl ++ " &x" ++ nl ++ "&'" ++ nl).
Definition w14 := bs ("[a]: <u" ++ nl ++ ">").
Definition w15 := bs ("[a]: /u 't' x" ++ nl ++ "[b]: /v" ++ tab ++ " " ++ nl ++ "  " ++ tab ++ "'t'  " ++ nl ++ "[c]" ++ nl).
Definition w16 := bs ("[a]: /u" ++ nl ++ "'t'" ++ nl ++ "===" ++ nl ++ "[b]: /v" ++ nl ++ "x" ++ nl ++ "---").
Definition w17 := bs ("[a]: /u (t" ++ nl ++ nl ++ "u)" ++ nl).
Definition w18 := bs ("[  a  " ++ nl ++ "   b  ]:" ++ nl ++ "   /u   " ++ nl ++ "   't'" ++ nl).
Definition ws := [w1;w2;w3;w4;w5;w6;w7;w8;w9;w10;w11;w12;w13;w14;w15;w16;w17;w18;t3;t4;t7;t9;t11;t12;t14;t15].
Eval vm_compute in map ck ws.

(* ---- onCloseParagraph directly, on hand-built paragraph blocks (entries as the block layer produces them) ---- *)
Require Import ShapesR IFBase EolGenCrlfRdrDefs EolGenCrlfRdrCor EolGenCrlfRdrRefute.
Definition mkP (K : Z) (R : bytes) (ik : list inline) : block := Blk K 0 (len R) [] ik 0 0 0 false false.
(* ">\t[a\n>\tb]: /u\n>\ttext": first line tail, then Indent (rest of the tab) + line tail per line *)
Definition y1 := bs (">" ++ tab ++ "[a" ++ nl ++ ">" ++ tab ++ "b]: /u" ++ nl ++ ">" ++ tab ++ "text").
Definition y1k := [Inl UnparsedKind 2 5 0 [] []; Inl IndentKind 6 7 2 [] []; Inl UnparsedKind 7 14 0 [] []; Inl IndentKind 15 16 2 [] []; Inl UnparsedKind 16 20 0 [] []].
(* setext heading case with the orphan block; two definitions then text; title on the next line; failed title *)
Definition y2 := bs ("[a]: /u" ++ nl ++ "[b]: /v 't'" ++ nl ++ "text" ++ nl).
Definition y2k := [mkI UnparsedKind 0 8; mkI UnparsedKind 8 20; mkI UnparsedKind 20 25].
Definition y3 := bs ("[a" ++ nl ++ "b]:" ++ nl ++ "/u" ++ nl ++ "'t" ++ nl ++ "u'" ++ nl ++ "x").
Definition y3k := [mkI UnparsedKind 0 3; mkI UnparsedKind 3 7; mkI UnparsedKind 7 10; mkI UnparsedKind 10 13; mkI UnparsedKind 13 16; mkI UnparsedKind 16 17].
Definition y4 := bs ("[a]: /u 'bad" ++ nl ++ "x").
Definition y4k := [mkI UnparsedKind 0 13; mkI UnparsedKind 13 14].
Eval vm_compute in map (fun x => (PEnb (fst x) (snd x), ocpEq (fst x) (mkP ParagraphKind (fst x) (snd x)), ocpEq (fst x) (mkP SetextHeadingKind (fst x) (snd x))))
  [(y1, y1k); (y2, y2k); (y3, y3k); (y4, y4k)].
Eval vm_compute in onCloseParagraph y3 (mkP SetextHeadingKind y3 y3k).
