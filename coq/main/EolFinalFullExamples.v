(* T63-F1: the statement parseFull_final_newline_statement (EolFinalFullDefs, with the function finFullRoots and the flag hbTail)
   checked by computation on test documents.  beqRes (EolBounded) is a boolean equality on results. *)
From Coq Require Import List ZArith Lia Bool String Ascii.
Import ListNotations.
Require Import Base Tree Driver Inl3e EolFinalDefs EolBounded EolFinalFullDefs.
Open Scope Z_scope.
Definition nlS := String (ascii_of_nat 10) EmptyString.
Definition tbS := String (ascii_of_nat 9) EmptyString.
Definition nulS := String (ascii_of_nat 0) EmptyString.
Fixpoint bsS (s : string) : bytes := match s with EmptyString => [] | String c r => Z.of_nat (nat_of_ascii c) :: bsS r end.
(* the hypotheses of the statement and its conclusion, as a boolean *)
Definition admissible (s : bytes) : bool := negb (match s with [] => true | _ => false end) && negb (endsEol s) && negb (lastByte s =? 62).
Definition chk (s : bytes) : bool :=
  negb (admissible s) || beqRes (parseFull (s ++ [10])) (finFullRoots (len s) (fst (parseFull s)), snd (parseFull s)).
Open Scope string_scope.
Definition tests : list string := [
 "abc"; "a *b*"; "a **b**"; "a `b`"; "a\"; "a  "; "a   "; "a \"; "a &amp;"; "a &amp"; "a <b"; "[a](b)"; "![a](b)"; "[a]: b" ++ nlS ++ "[a]"; "[a]: b" ++ nlS ++ "[a][]"; "[a]: b" ++ nlS ++ "[a][a]";
 "a*"; "a**"; "a_"; "a__"; "*a"; "a" ++ tbS; "a" ++ nulS; "> a"; "- a"; "- a" ++ nlS ++ "  b"; "a" ++ nlS ++ "==="; "a" ++ nlS ++ "---"; "# a"; "# a #"; "# a  "; "[a]: b"; "[a]: b 'c'";
 "```" ++ nlS ++ "x"; "```" ++ nlS ++ "x" ++ nlS ++ "```"; "    x"; "<div>" ++ nlS ++ "x"; "***"; "a" ++ nlS ++ "b  "; "a  " ++ nlS ++ "b"; "a\" ++ nlS ++ "b\"; "a `b"; "a [b"; "a ![b"; "a ]"; "a <a@b.c"; "*a*  "; "[a](b)  "; "`a`  "; "a  " ++ nlS ++ "b  "; "> a" ++ nlS ++ "b  "; "- a" ++ nlS ++ nlS ++ "  b  "; "1. a  "; "a" ++ tbS ++ "  "; "a  " ++ tbS; "a \  "; "a `  "; "[a](  "; "&amp;  "; "a" ++ nlS ++ "===  "; "#  "; "# a \#  "; "``` a  "; "<div>  "; "    a  "; "a *  "; "* a  "; "  "; "a" ++ nlS ++ "  "; "[a]: b  "; "[a]: b" ++ nlS ++ "c  "; "a" ++ nulS ++ "  "; "a <b  "; "a !  "; "a ![  "; "a __  "; "a ` b ` "; "``a`` `"; "1. a"; "> # a"; "- > a  "; "a" ++ tbS ++ tbS; " a"; "a&"; "a&#"; "a&#1;"; "*a*"; "_a_ "; "**a** *"; "[a]"; "[a][b"; "[a](b"; "[a]( b )"; "a <!--"; "a <?x"; "a </b"; "a  " ++ nulS;
 "[a]("; "a ](" ; "*a* [b](c 'd') `e`  "; "> - a" ++ nlS ++ ">   b  "; "a" ++ nlS ++ " b"; "a<b>"; "a <b> c"; "- a" ++ nlS ++ "- b  "
].
Close Scope string_scope.
Theorem examples_ok : forallb (fun s => chk (bsS s)) tests = true.
Proof. vm_compute. reflexivity. Qed.
(* the number of documents checked *)
Theorem examples_count : List.length tests = 105%nat. Proof. reflexivity. Qed.
