From Coq Require Import List ZArith Lia Bool.
Import ListNotations.
Require Import Base Tree Recog Props Rec16 Rec17 Rec18 RecBounds Cursor BShDef ShDef.
Open Scope Z_scope.

(* ---- what the recognizers guarantee about the bytes in front of them ---- *)
Lemma sub_from_upto (src : bytes) s k : sub src s (s + k) = upto (from_ src s) k.
Proof. unfold sub. replace (s + k - s) with k by lia. reflexivity. Qed.
Lemma upto_all {A} (l : list A) n : len l <= n -> upto l n = l.
Proof. intros H. unfold upto. apply firstn_all2. unfold len in H. lia. Qed.
Lemma sub_to_end (src : bytes) s : 0 <= s <= len src -> sub src s (len src) = from_ src s.
Proof. intros H. unfold sub. apply upto_all. rewrite len_from by lia. lia. Qed.

Lemma len_upto_le (l : bytes) n : 0 <= n <= len l -> len (upto l n) = n.
Proof. intros H. apply (split_at l n H). Qed.
Lemma lastZ_snoc l c : lastZ (l ++ [c]) = c.
Proof. unfold lastZ. rewrite rev_app_distr. reflexivity. Qed.
Lemma upto_app_exact {A} (a b : list A) : upto (a ++ b) (len a) = a.
Proof. unfold upto, len. rewrite Nat2Z.id. rewrite firstn_app, Nat.sub_diag, firstn_all. cbn. apply app_nil_r. Qed.

Lemma shape_marker R d n mend n0 : parseListMarker R = (d, n, mend) -> 0 <= mend -> shapeKN (upto R mend) ListMarkerKind n0 = true.
Proof.
  intros H Hm. pose proof (parseListMarker_sound R d n mend H Hm) as Hl. unfold shapeKN, shapeBlock. cbn [bkind].
  change (ListMarkerKind =? ListMarkerKind) with true. cbv iota. inversion Hl as [c rest Hc Hs|ds d0 rest Hlen Hdig Hd Hs]; subst.
  - change (upto (d :: rest) 1) with [d]. cbn [len length Z.of_nat Pos.of_succ_nat]. change (at_ [d] 0) with d.
    apply orb_true_iff. left. cbn. destruct Hc as [-> |[-> | ->]]; reflexivity.
  - apply orb_true_iff. right.
    assert (E : upto (ds ++ d :: rest) (len ds + 1) = ds ++ [d]).
    { replace (ds ++ d :: rest) with ((ds ++ [d]) ++ rest) by (rewrite <- app_assoc; reflexivity).
      replace (len ds + 1) with (len (ds ++ [d])) by (rewrite len_app; unfold len; cbn; lia). apply upto_app_exact. }
    rewrite E. rewrite len_app. replace (len [d]) with 1 by reflexivity. rewrite lastZ_snoc.
    replace (len ds + 1 - 1) with (len ds) by lia. rewrite upto_app_exact, Hdig.
    assert (L : 1 <= len ds <= 9) by (unfold len; lia).
    replace (2 <=? len ds + 1) with true by (symmetry; apply Z.leb_le; lia).
    replace (len ds + 1 <=? 10) with true by (symmetry; apply Z.leb_le; lia).
    destruct Hd as [-> | ->]; reflexivity.
Qed.

Lemma atx_level R level cs ce : parseATXHeading R = (level, cs, ce) -> 1 <= level -> level = countWhile (fun c => c =? 35) R.
Proof.
  unfold parseATXHeading. cbv zeta. set (lv := countWhile _ R). intros H Hl.
  destruct ((lv =? 0) || (6 <? lv)); [inversion H; lia|].
  destruct ((len R <=? lv) || _ || _); [inversion H; reflexivity|]. destruct (negb _); [inversion H; lia|].
  destruct (atx_scanBack _ _ _ _) as [e1 hit]. destruct (negb hit); [inversion H; reflexivity|].
  destruct (atx_trailing _ _ _ _) as [e2 mode]. destruct (mode =? 0); inversion H; reflexivity.
Qed.
Lemma allOf_upto_count R c : allOf (upto R (countWhile (fun x => x =? c) R)) c = true.
Proof.
  induction R as [|x r IH]; [reflexivity|]. cbn [countWhile]. destruct (Z.eqb_spec x c) as [E|E]; [|reflexivity].
  pose proof (countWhile_spec (fun x => x =? c) r) as (A & _). rewrite upto_cons by lia. unfold allOf in *. cbn [forallb]. rewrite IH.
  subst x. rewrite Z.eqb_refl. reflexivity.
Qed.
Lemma shape_atx R level cs ce : parseATXHeading R = (level, cs, ce) -> 1 <= level -> shapeKN R ATXHeadingKind level = true.
Proof.
  intros H Hl. rewrite (atx_level R level cs ce H Hl). unfold shapeKN, shapeBlock. cbn [bkind bn].
  change (ATXHeadingKind =? ListMarkerKind) with false. change (ATXHeadingKind =? ATXHeadingKind) with true. cbv iota zeta.
  pose proof (countWhile_spec (fun c => c =? 35) R) as (A & _ & C). rewrite allOf_upto_count.
  replace (countWhile (fun c => c =? 35) R <=? len R) with true by (symmetry; apply Z.leb_le; lia). cbn [andb].
  destruct (Z.ltb_spec (countWhile (fun c => c =? 35) R) (len R)) as [L|L]; [|reflexivity]. rewrite (C L). reflexivity.
Qed.

Lemma fence_head R fc fnn is_ ie : parseCodeFence R = (fc, fnn, is_, ie) -> fnn <> 0 ->
  3 <= len R /\ (at_ R 0 = 96 \/ at_ R 0 = 126) /\ at_ R 1 = at_ R 0 /\ at_ R 2 = at_ R 0.
Proof.
  intros H N. assert (Hp : 0 < fnn).
  { destruct (Z.lt_ge_cases 0 fnn) as [L|L]; [exact L|]. pose proof (parseCodeFence_none R fc fnn is_ ie H ltac:(lia)) as E. inversion E. lia. }
  destruct (parseCodeFence_sound R fc fnn is_ ie H Hp) as (A & B & C & _).
  rewrite (C 0), (C 1), (C 2) by lia. split; [lia|]. split; [exact A|split; reflexivity].
Qed.
Lemma quote_head R : hasBytePrefix R [62] = true -> 1 <= len R /\ at_ R 0 = 62.
Proof.
  destruct R as [|c r]; [discriminate|]. cbn [hasBytePrefix]. intros H. apply andb_true_iff in H. destruct H as [H _]. apply Z.eqb_eq in H. subst c.
  rewrite len_cons. pose proof (len_nonneg r). split; [lia|reflexivity].
Qed.
