From Coq Require Import List ZArith Lia Bool.
Import ListNotations.
Require Import Base Tree Rdr Link ShapesBase ShapesR IFBase.
Open Scope Z_scope.

(* ================================================================ C04 (1): the scanners of Link.v
   For each scanner X:   X_prog : the reader it returns is `prog`-related to the one it got (any fuel);
                         X_fuel : PL r -> mu r < f1 -> mu r < f2 -> X f1 r = X f2 r   (the result does not depend on the fuel
                                  as soon as the fuel exceeds the potential mu of the reader). *)

Lemma cur_facts src r : PL src r ->
  PL src (snd (current r)) /\ nu src (snd (current r)) = nu src r /\ r_pos (snd (current r)) = r_pos r.
Proof. intros H. split; [apply PL_current, H|]. split; [apply nu_current|apply pos_current]. Qed.

Ltac rstep src :=
  repeat match goal with
  | |- context [current ?r] =>
      match goal with Hr : PL src r |- _ =>
        let H := fresh "Hc" in let c := fresh "c" in let r' := fresh "r" in let E := fresh "Ec" in
        pose proof (cur_facts src r Hr) as H; destruct (current r) as [c r'] eqn:E; cbn [snd] in H;
        let H1 := fresh "HP" in let H2 := fresh "Hm" in let H3 := fresh "Hp" in destruct H as (H1 & H2 & H3)
      end
  | |- context [next ?r] =>
      match goal with Hr : PL src r |- _ =>
        let H := fresh "Hn" in let ok := fresh "ok" in let r' := fresh "r" in let E := fresh "En" in
        pose proof (next_W src r Hr) as H; destruct (next r) as [ok r'] eqn:E; cbn [snd fst] in H;
        let H1 := fresh "HP" in let H2 := fresh "Hp" in let H3 := fresh "Hm" in let H4 := fresh "Hlt" in let H5 := fresh "Hlp" in
        destruct H as (H1 & H2 & H3 & H4 & H5)
      end
  end.

(* close a prog goal from the chain of facts in the context *)
Ltac pfin := split; [assumption|split; [lia|split; [lia|lia]]].
(* use a prog fact (an induction hypothesis, or the lemma of a sub-scanner) on the reader x *)
Ltac puse L x :=
  let H := fresh "Hu" in pose proof (L x ltac:(assumption)) as H;
  let H1 := fresh "HP" in let H2 := fresh "Hp" in let H3 := fresh "Hm" in let H4 := fresh "Hlp" in destruct H as (H1 & H2 & H3 & H4).
(* case split on a boolean variable tested by the next `if` *)
Ltac dok :=
  match goal with
  | |- context [if negb ?b then _ else _] => is_var b; destruct b; cbn [negb]
  | |- context [if ?b then _ else _] => is_var b; destruct b
  end.
(* close prog r (.. X f x ..) by transitivity through the lemma / induction hypothesis L *)
Ltac ptr L := eapply prog_trans; [|apply L; assumption]; pfin.
Ltac f0s src H := pose proof (nu_nonneg src _ H); lia.
Ltac rec IH := apply IH; [assumption|lia|lia].
(* a sub-scanner F returning a pair (_, reader), with prog lemma L : forall fuel r, PL r -> prog r (snd (F fuel r)) *)
Ltac subp F L :=
  match goal with |- context [F ?fu ?x] =>
    let H := fresh "Hs" in pose proof (L fu x ltac:(assumption)) as H;
    let H1 := fresh "HP" in let H2 := fresh "Hp" in let H3 := fresh "Hm" in let H4 := fresh "Hlp" in destruct H as (H1 & H2 & H3 & H4);
    let ok := fresh "ok" in let r' := fresh "r" in destruct (F fu x) as [ok r'] eqn:?; cbn [snd] in H1, H2, H3, H4
  end.
(* the same for a sub-scanner returning just a reader *)
Ltac subr F L :=
  match goal with |- context [F ?fu ?x] =>
    let H := fresh "Hs" in pose proof (L fu x ltac:(assumption)) as H;
    let H1 := fresh "HP" in let H2 := fresh "Hp" in let H3 := fresh "Hm" in let H4 := fresh "Hlp" in destruct H as (H1 & H2 & H3 & H4);
    let r' := fresh "r" in set (r' := F fu x) in *; clearbody r'
  end.
Ltac oktrue :=
  repeat match goal with H : true = true -> _ |- _ => specialize (H eq_refl) end.

Section L.
  Variable src : bytes.
  Notation PL := (PL src).
  Notation prog := (prog src).
  Notation mu := (nu src).

  Ltac f0 H := f0s src H.

  (* ---------------------------------------------------------------- skipLinkSpace *)
  Lemma sls_loop_prog : forall fuel r, PL r -> prog r (snd (skipLinkSpace_loop fuel r)).
  Proof.
    induction fuel as [|f IH]; intros r H; [apply prog_refl; exact H|]. cbn [skipLinkSpace_loop]. rstep src.
    destruct (isSpaceTabOrLineEnding _); [|cbn [snd]; pfin]. rstep src. dok; [|cbn [snd]; pfin]. ptr IH.
  Qed.
  Lemma sls_loop_fuel : forall f1 f2 r, PL r -> mu r < Z.of_nat f1 -> mu r < Z.of_nat f2 ->
    skipLinkSpace_loop f1 r = skipLinkSpace_loop f2 r.
  Proof.
    induction f1 as [|f1 IH]; intros f2 r H H1 H2; [f0 H|]. destruct f2 as [|f2]; [f0 H|]. cbn [skipLinkSpace_loop]. rstep src.
    destruct (isSpaceTabOrLineEnding _); [|reflexivity]. rstep src. dok; [|reflexivity]. oktrue. rec IH.
  Qed.
  Lemma skipLinkSpace_prog fuel r : PL r -> prog r (snd (skipLinkSpace fuel r)).
  Proof. intros H. unfold skipLinkSpace. rstep src. destruct (_ =? 0); [cbn [snd]; pfin|]. ptr sls_loop_prog. Qed.
  Lemma skipLinkSpace_fuel f1 f2 r : PL r -> mu r < Z.of_nat f1 -> mu r < Z.of_nat f2 -> skipLinkSpace f1 r = skipLinkSpace f2 r.
  Proof. intros H H1 H2. unfold skipLinkSpace. rstep src. destruct (_ =? 0); [reflexivity|]. rec sls_loop_fuel. Qed.

  (* ---------------------------------------------------------------- skipSpacesAndTabs, readEOL *)
  Lemma sst_prog : forall fuel r, PL r -> prog r (snd (skipSpacesAndTabs fuel r)).
  Proof.
    induction fuel as [|f IH]; intros r H; [apply prog_refl; exact H|]. cbn [skipSpacesAndTabs]. rstep src.
    destruct (isSpTab _); [|cbn [snd]; pfin]. rstep src. dok; [|cbn [snd]; pfin]. ptr IH.
  Qed.
  Lemma sst_fuel : forall f1 f2 r, PL r -> mu r < Z.of_nat f1 -> mu r < Z.of_nat f2 -> skipSpacesAndTabs f1 r = skipSpacesAndTabs f2 r.
  Proof.
    induction f1 as [|f1 IH]; intros f2 r H H1 H2; [f0 H|]. destruct f2 as [|f2]; [f0 H|]. cbn [skipSpacesAndTabs]. rstep src.
    destruct (isSpTab _); [|reflexivity]. rstep src. dok; [|reflexivity]. oktrue. rec IH.
  Qed.
  Lemma readEOL_fuel f1 f2 r : PL r -> mu r < Z.of_nat f1 -> mu r < Z.of_nat f2 -> readEOL f1 r = readEOL f2 r.
  Proof. intros H H1 H2. unfold readEOL. rewrite (sst_fuel f1 f2 r H H1 H2). reflexivity. Qed.
  Lemma readEOL_prog fuel r : PL r -> prog r (snd (readEOL fuel r)).
  Proof.
    intros H. unfold readEOL. pose proof (sst_prog fuel r H) as (? & ? & ? & ?).
    destruct (skipSpacesAndTabs fuel r) as [ok r1]. cbn [snd] in *.
    dok; [|cbn [snd]; pfin]. rstep src. destruct (_ =? 13).
    - rstep src. dok; [|cbn [snd]; pfin]. rstep src. destruct (_ =? 10); [rstep src|]; cbn [snd]; pfin.
    - destruct (_ =? 10); [rstep src|]; cbn [snd]; pfin.
  Qed.

  (* ---------------------------------------------------------------- parseLinkLabel *)
  Lemma ll_skip_prog : forall fuel r chars r' c', PL r -> ll_skip fuel r chars = Some (r', c') -> prog r r'.
  Proof.
    induction fuel as [|f IH]; intros r chars r' c' H E; [discriminate|]. cbn [ll_skip] in E. revert E. rstep src.
    dok; [|discriminate]. rstep src. destruct (_ || _ || _); [discriminate|].
    destruct (negb _); [intros E; inversion E; subst; pfin|]. intros E.
    eapply prog_trans; [|eapply IH; [|exact E]; assumption]. pfin.
  Qed.
  Lemma ll_skip_fuel : forall f1 f2 r chars, PL r -> mu r < Z.of_nat f1 -> mu r < Z.of_nat f2 -> ll_skip f1 r chars = ll_skip f2 r chars.
  Proof.
    induction f1 as [|f1 IH]; intros f2 r chars H H1 H2; [f0 H|]. destruct f2 as [|f2]; [f0 H|]. cbn [ll_skip]. rstep src.
    dok; [|reflexivity]. oktrue. rstep src. destruct (_ || _ || _); [reflexivity|].
    destruct (negb _); [reflexivity|]. rec IH.
  Qed.
  Lemma ll_body_prog : forall fuel r chars ie r' ie', PL r -> ll_body fuel r chars ie = Some (r', ie') -> prog r r'.
  Proof.
    induction fuel as [|f IH]; intros r chars ie r' ie' H E; [discriminate|]. cbn [ll_body] in E. revert E. rstep src.
    destruct (negb _); [intros E; inversion E; subst; pfin|].
    destruct (_ =? 92).
    - rstep src. dok; [|discriminate]. rstep src. dok; [|discriminate]. intros E.
      eapply prog_trans; [|eapply IH; [|exact E]; assumption]. pfin.
    - rstep src. dok; [|discriminate]. intros E. eapply prog_trans; [|eapply IH; [|exact E]; assumption]. pfin.
  Qed.
  Lemma ll_body_fuel : forall f1 f2 r chars ie, PL r -> mu r < Z.of_nat f1 -> mu r < Z.of_nat f2 ->
    ll_body f1 r chars ie = ll_body f2 r chars ie.
  Proof.
    induction f1 as [|f1 IH]; intros f2 r chars ie H H1 H2; [f0 H|]. destruct f2 as [|f2]; [f0 H|]. cbn [ll_body]. rstep src.
    destruct (negb _); [reflexivity|]. destruct (_ =? 92).
    - rstep src. dok; [|reflexivity]. rstep src. dok; [|reflexivity]. oktrue. rec IH.
    - rstep src. dok; [|reflexivity]. oktrue. rec IH.
  Qed.
  Lemma parseLinkLabel_prog fuel r : PL r -> prog r (snd (parseLinkLabel fuel r)).
  Proof.
    intros H. unfold parseLinkLabel. rstep src. destruct (negb (_ =? 91)); [cbn [snd]; pfin|].
    match goal with |- context [ll_skip fuel ?x 0] => destruct (ll_skip fuel x 0) as [[r1 chars]|] eqn:E1; [|cbn [snd]; pfin] end.
    pose proof (ll_skip_prog _ _ _ _ _ ltac:(eassumption) E1) as (? & ? & ? & ?).
    destruct (ll_body fuel r1 chars (-1)) as [[r2 ie]|] eqn:E2; [|cbn [snd]; pfin].
    pose proof (ll_body_prog _ _ _ _ _ _ ltac:(eassumption) E2) as (? & ? & ? & ?). rstep src.
    destruct (negb (_ =? 93)); [cbn [snd]; pfin|]. rstep src. cbn [snd]. pfin.
  Qed.
  Lemma parseLinkLabel_fuel f1 f2 r : PL r -> mu r < Z.of_nat f1 -> mu r < Z.of_nat f2 -> parseLinkLabel f1 r = parseLinkLabel f2 r.
  Proof.
    intros H H1 H2. unfold parseLinkLabel. rstep src. destruct (negb (_ =? 91)); [reflexivity|].
    rewrite (ll_skip_fuel f1 f2) by (assumption || lia).
    match goal with |- context [ll_skip f2 ?x 0] => destruct (ll_skip f2 x 0) as [[r1 chars]|] eqn:E1; [|reflexivity] end.
    pose proof (ll_skip_prog _ _ _ _ _ ltac:(eassumption) E1) as (? & ? & ? & ?).
    rewrite (ll_body_fuel f1 f2 r1 chars (-1)) by (assumption || lia). reflexivity.
  Qed.

  (* ---------------------------------------------------------------- parseLinkDestination *)
  Lemma ld_angle_prog : forall fuel r start, PL r -> prog r (snd (ld_angle fuel r start)).
  Proof.
    induction fuel as [|f IH]; intros r start H; [apply prog_refl; exact H|]. cbn [ld_angle]. rstep src.
    dok; [|cbn [snd]; pfin]. rstep src. destruct (_ || _); [cbn [snd]; pfin|].
    destruct (_ =? 92).
    - rstep src. dok; [|cbn [snd]; pfin]. rstep src. destruct (_ || _); [cbn [snd]; pfin|]. ptr IH.
    - destruct (_ =? 62); [rstep src; cbn [snd]; pfin|]. ptr IH.
  Qed.
  Lemma ld_angle_fuel : forall f1 f2 r start, PL r -> mu r < Z.of_nat f1 -> mu r < Z.of_nat f2 -> ld_angle f1 r start = ld_angle f2 r start.
  Proof.
    induction f1 as [|f1 IH]; intros f2 r start H H1 H2; [f0 H|]. destruct f2 as [|f2]; [f0 H|]. cbn [ld_angle]. rstep src.
    dok; [|reflexivity]. oktrue. rstep src. destruct (_ || _); [reflexivity|].
    destruct (_ =? 92).
    - rstep src. dok; [|reflexivity]. rstep src. destruct (_ || _); [reflexivity|]. rec IH.
    - destruct (_ =? 62); [reflexivity|]. rec IH.
  Qed.
  Lemma ld_bare_prog : forall fuel r paren, PL r -> prog r (ld_bare fuel r paren).
  Proof.
    induction fuel as [|f IH]; intros r paren H; [apply prog_refl; exact H|]. cbn [ld_bare]. rstep src.
    destruct (_ || _); [pfin|].
    destruct (_ =? 92).
    - rstep src. dok; [|pfin]. rstep src. destruct (_ || _); [pfin|]. rstep src. dok; [|pfin]. ptr IH.
    - destruct (_ =? 40); [rstep src; dok; [|pfin]; ptr IH|].
      destruct (_ =? 41); [destruct (_ <? 0); [pfin|]; rstep src; dok; [|pfin]; ptr IH|].
      rstep src. dok; [|pfin]. ptr IH.
  Qed.
  Lemma ld_bare_fuel : forall f1 f2 r paren, PL r -> mu r < Z.of_nat f1 -> mu r < Z.of_nat f2 -> ld_bare f1 r paren = ld_bare f2 r paren.
  Proof.
    induction f1 as [|f1 IH]; intros f2 r paren H H1 H2; [f0 H|]. destruct f2 as [|f2]; [f0 H|]. cbn [ld_bare]. rstep src.
    destruct (_ || _); [reflexivity|].
    destruct (_ =? 92).
    - rstep src. dok; [|reflexivity]. rstep src. destruct (_ || _); [reflexivity|]. rstep src.
      dok; [|reflexivity]. oktrue. rec IH.
    - destruct (_ =? 40); [rstep src; dok; [|reflexivity]; oktrue; rec IH|].
      destruct (_ =? 41); [destruct (_ <? 0); [reflexivity|]; rstep src; dok; [|reflexivity]; oktrue; rec IH|].
      rstep src. dok; [|reflexivity]. oktrue. rec IH.
  Qed.
  Lemma parseLinkDestination_prog fuel r : PL r -> prog r (snd (parseLinkDestination fuel r)).
  Proof.
    intros H. unfold parseLinkDestination. rstep src.
    destruct (_ =? 60); [ptr ld_angle_prog|].
    destruct (_ && _ && _); [cbn [snd]; ptr ld_bare_prog|cbn [snd]; pfin].
  Qed.
  Lemma parseLinkDestination_fuel f1 f2 r : PL r -> mu r < Z.of_nat f1 -> mu r < Z.of_nat f2 ->
    parseLinkDestination f1 r = parseLinkDestination f2 r.
  Proof.
    intros H H1 H2. unfold parseLinkDestination. rstep src.
    destruct (_ =? 60); [rec ld_angle_fuel|].
    destruct (_ && _ && _); [|reflexivity]. rewrite (ld_bare_fuel f1 f2) by (assumption || lia). reflexivity.
  Qed.

  (* ---------------------------------------------------------------- parseLinkTitle *)
  Lemma lt_loop_prog : forall fuel r start term, PL r -> prog r (snd (lt_loop fuel r start term)).
  Proof.
    induction fuel as [|f IH]; intros r start term H; [apply prog_refl; exact H|]. cbn [lt_loop]. rstep src.
    dok; [|cbn [snd]; pfin]. rstep src.
    destruct (_ =? 92); [rstep src; dok; [|cbn [snd]; pfin]; ptr IH|].
    destruct (_ =? term); [rstep src; cbn [snd]; pfin|ptr IH].
  Qed.
  Lemma lt_loop_fuel : forall f1 f2 r start term, PL r -> mu r < Z.of_nat f1 -> mu r < Z.of_nat f2 ->
    lt_loop f1 r start term = lt_loop f2 r start term.
  Proof.
    induction f1 as [|f1 IH]; intros f2 r start term H H1 H2; [f0 H|]. destruct f2 as [|f2]; [f0 H|]. cbn [lt_loop]. rstep src.
    dok; [|reflexivity]. oktrue. rstep src.
    destruct (_ =? 92); [rstep src; dok; [|reflexivity]; rec IH|].
    destruct (_ =? term); [reflexivity|]. rec IH.
  Qed.
  Lemma parseLinkTitle_prog fuel r : PL r -> prog r (snd (parseLinkTitle fuel r)).
  Proof. intros H. unfold parseLinkTitle. rstep src. destruct (negb _); [cbn [snd]; pfin|]. ptr lt_loop_prog. Qed.
  Lemma parseLinkTitle_fuel f1 f2 r : PL r -> mu r < Z.of_nat f1 -> mu r < Z.of_nat f2 -> parseLinkTitle f1 r = parseLinkTitle f2 r.
  Proof. intros H H1 H2. unfold parseLinkTitle. rstep src. destruct (negb _); [reflexivity|]. rec lt_loop_fuel. Qed.
End L.
