From Coq Require Import List ZArith Lia Bool.
Import ListNotations.
Require Import Base Tree Rdr Link Collect LP ShapesBase ShapesR IFBase EolFinalDefs LADef EolGenRdrBase EolFinalFullRdrE.
Open Scope Z_scope.

(* C14 (i), final newline, inline pass, extension mode: collectTextNodes and transformLinkReferenceSpan. *)
Section CE.
Variable src : bytes.
Local Notation L := (len src).
Local Notation src2 := (src ++ [10]).
Hypothesis HL : 0 < L.
Hypothesis Hlast : isEOLz (at_ src (L - 1)) = false.
Local Notation ws := (ws src).
Local Notation WF := (WF src).

Ltac ecur r H Hp :=
  let Ec := fresh "Ec" in let Wc := fresh "Wc" in let Pc := fresh "Pc" in
  destruct (current_ws src HL Hlast r H Hp) as (Ec & Wc & Pc); rewrite Ec; destruct (current r) as [?c ?rc]; cbn [fst snd] in *.
Ltac enext r H :=
  let En := fresh "En" in let Wn := fresh "Wn" in let An := fresh "An" in
  destruct (next_ws src HL Hlast r H) as (En & Wn & An); rewrite En; destruct (next r) as [?ok ?rn]; cbn [fst snd] in *.

Lemma e_skipSameNode : forall f r node, WF r -> skipSameNode f (ws r) node = ws (skipSameNode f r node) /\ WF (skipSameNode f r node).
Proof.
  induction f as [|f IH]; intros r node H; [cbn; tauto|]. cbn [skipSameNode]. enext r H. destruct ok; cbn [negb]; [|tauto].
  rewrite curNode_ws. pose proof (WF_curNode src rn Wn) as [Wc _]. destruct (curNode rn) as [n r2]. cbn [fst snd] in *.
  destruct n as [m|]; [|tauto]. destruct (_ && _ && _); [apply IH, Wc|tauto].
Qed.
Lemma e_nextN : forall n r, WF r -> nextN n (ws r) = ws (nextN n r) /\ WF (nextN n r).
Proof. induction n as [|n IH]; intros r H; [cbn; tauto|]. cbn [nextN]. rewrite (next_ws1 src HL Hlast r H). cbn [snd]. apply IH, (WF_next src HL Hlast r H). Qed.

Lemma e_collect_loop : forall f r e tk esc ps acc, e <= L -> WF r -> collect_loop f (ws r) e tk esc ps acc = collect_loop f r e tk esc ps acc.
Proof.
  induction f as [|f IH]; intros r e tk esc ps acc He H; [reflexivity|]. cbn [collect_loop]. change (r_pos (ws r)) with (r_pos r).
  destruct (Z.leb_spec e (r_pos r)) as [Le|Lt]; [reflexivity|]. rewrite curNode_ws. pose proof (WF_curNode src r H) as [W0 _].
  pose proof (curNode_fields r) as F. cbv zeta in F. destruct (curNode r) as [cn r0]. cbn [fst snd] in *. destruct F as (_ & F2 & _).
  change (r_pos (ws r0)) with (r_pos r0). change (r_prev (ws r0)) with (r_prev r0).
  destruct (okind cn =? IndentKind).
  { destruct (e_skipSameNode (S f) r0 (match cn with Some n => n | None => mkI 0 0 0 end) W0) as [E1 W1]. rewrite E1. change (r_pos (ws ?x)) with (r_pos x). apply IH; assumption. }
  assert (Htail : forall x ps0 acc0, WF x ->
     (if e <=? r_pos x then (acc0, ps0) else let '(ok, r1) := next (ws x) in if negb ok then (acc0, ps0) else
        if jumped r1 then collect_loop f r1 e tk esc (r_pos r1) (if ps0 <=? r_prev r1 then acc0 ++ [mkI tk ps0 (r_prev r1 + 1)] else acc0) else collect_loop f r1 e tk esc ps0 acc0) =
     (if e <=? r_pos x then (acc0, ps0) else let '(ok, r1) := next x in if negb ok then (acc0, ps0) else
        if jumped r1 then collect_loop f r1 e tk esc (r_pos r1) (if ps0 <=? r_prev r1 then acc0 ++ [mkI tk ps0 (r_prev r1 + 1)] else acc0) else collect_loop f r1 e tk esc ps0 acc0)).
  { intros x ps0 acc0 Hx. destruct (e <=? r_pos x); [reflexivity|]. enext x Hx. destruct ok; cbn [negb]; [|reflexivity].
    rewrite jumped_ws. change (r_pos (ws rn)) with (r_pos rn). change (r_prev (ws rn)) with (r_prev rn). destruct (jumped rn); apply IH; assumption. }
  destruct (esc && (okind cn =? UnparsedKind)); [|apply Htail, W0].
  assert (P0 : r_pos r0 < L) by lia. ecur r0 W0 P0.
  destruct (c =? 92).
  - enext rc Wc. change (r_pos (ws rn)) with (r_pos rn). change (r_prev (ws rn)) with (r_prev rn).
    assert (Ecur : ok && (r_pos rn <? e) && isASCIIPunctuation (cur (ws rn)) = ok && (r_pos rn <? e) && isASCIIPunctuation (cur rn)).
    { destruct ok; [|reflexivity]. destruct (Z.ltb_spec (r_pos rn) e); [|reflexivity]. rewrite (cur_ws src HL Hlast rn Wn) by lia. reflexivity. }
    rewrite Ecur. clear Ecur. destruct (ok && (r_pos rn <? e) && isASCIIPunctuation (cur rn)); apply Htail, Wn.
  - change (r_pos (ws rc)) with (r_pos rc). destruct (c =? 38); [|apply Htail, Wc].
    destruct (remaining_ws src rc Wc) as [Er Wr]. rewrite Er. destruct (remainingNodeBytes rc) as [rem r2]. cbn [fst snd] in *.
    change (r_pos (ws r2)) with (r_pos r2). destruct (0 <=? _); [|apply Htail, Wr].
    destruct (e_nextN (Z.to_nat (parseCharacterEscape rem - 1)) r2 Wr) as [E3 W3]. rewrite E3. enext (nextN (Z.to_nat (parseCharacterEscape rem - 1)) r2) W3.
    destruct ok; cbn [negb]; [apply IH; assumption|reflexivity].
Qed.
Lemma e_collectTextNodes f r e tk esc : e <= L -> WF r -> collectTextNodes f (ws r) e tk esc = collectTextNodes f r e tk esc.
Proof. intros He H. unfold collectTextNodes. change (r_pos (ws r)) with (r_pos r). rewrite (e_collect_loop f r e tk esc (r_pos r) [] He H). reflexivity. Qed.

Definition tlrSkip (f : nat) (e : Z) (acc : bytes) : nat -> reader -> bytes :=
  fix skip (k : nat) (r : reader) : bytes :=
    match k with
    | O => acc
    | S k' =>
      if (r_pos r <? e) && isSpaceTabOrLineEnding (cur r) then
        let '(ok, r') := next (snd (current r)) in if ok then skip k' r' else tlr_loop f r' e acc
      else tlr_loop f r e acc
    end.
Lemma tlr_loop_S f r e acc : tlr_loop (S f) r e acc =
  if e <=? r_pos r then acc else
  let '(c, r1) := current r in
  if isSpaceTabOrLineEnding c then
    let acc := acc ++ [32] in
    let '(ok, r2) := next r1 in
    if negb ok then acc else tlrSkip f e acc (S f) r2
  else
    let acc := acc ++ [c] in
    let '(ok, r2) := next r1 in
    if negb ok then acc else tlr_loop f r2 e acc.
Proof. reflexivity. Qed.
Lemma e_tlr_loop : forall f r e acc, e <= L -> WF r -> tlr_loop f (ws r) e acc = tlr_loop f r e acc.
Proof.
  induction f as [|f IH]; intros r e acc He H; [reflexivity|]. rewrite !tlr_loop_S. change (r_pos (ws r)) with (r_pos r).
  destruct (Z.leb_spec e (r_pos r)) as [Le|Lt]; [reflexivity|]. assert (Hp : r_pos r < L) by lia. ecur r H Hp.
  destruct (isSpaceTabOrLineEnding c).
  - enext rc Wc. destruct ok; cbn [negb]; [|reflexivity].
    generalize (S f). intros k. clear En. revert rn Wn An. induction k as [|k IHk]; intros rn Wn An; [reflexivity|].
    cbn [tlrSkip]. change (r_pos (ws rn)) with (r_pos rn).
    destruct (Z.ltb_spec (r_pos rn) e) as [Lt2|Ge2]; cbn [andb]; [|apply IH; assumption].
    assert (Pn : r_pos rn < L) by lia. rewrite (cur_ws src HL Hlast rn Wn Pn). destruct (isSpaceTabOrLineEnding (cur rn)); [|apply IH; assumption].
    destruct (current_ws src HL Hlast rn Wn Pn) as (Ec2 & Wc2 & _). rewrite Ec2. cbn [snd].
    enext (snd (current rn)) Wc2. destruct ok; [apply IHk; assumption|apply IH; assumption].
  - enext rc Wc. destruct ok; cbn [negb]; [apply IH; assumption|reflexivity].
Qed.
Lemma e_transformLinkReferenceSpan f sp s e : e <= L -> Forall (sE src) sp -> s < L ->
  transformLinkReferenceSpan f src2 sp s e = transformLinkReferenceSpan f src sp s e.
Proof.
  intros He Hs Hlt. unfold transformLinkReferenceSpan. rewrite <- (ws_new src sp s). rewrite (e_tlr_loop f (newReader src sp s) e [] He (WF_new src sp s Hs Hlt)). reflexivity.
Qed.
End CE.
