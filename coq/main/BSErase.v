From Coq Require Import List ZArith Lia Bool.
Import ListNotations.
Require Import Base Tree Rdr Link Collect Html Recog LP Rules Starts Driver L2Kind L2CC BSDef BSRdr BSTree BSOcp BSOrph BSClose BSLine1 BSLine2 BSLine3.
Open Scope Z_scope.

(* trees up to the lastLineBlank flags *)
Fixpoint eraseB (b : block) : block :=
  match b with Blk k s e bk ik a n c l _ => Blk k s e (map eraseB bk) ik a n c l false end.

Lemma erase_fields b : bstart (eraseB b) = bstart b /\ bend (eraseB b) = bend b /\ bkind (eraseB b) = bkind b /\ bik (eraseB b) = bik b /\
  bkids (eraseB b) = map eraseB (bkids b).
Proof. destruct b; repeat split. Qed.

Lemma sp_erase M : forall b, sp M (eraseB b) <-> sp M b.
Proof.
  fix IH 1. intros [k s e bk ik a n c l lb]. cbn [eraseB sp].
  assert (Hc : forall lo, chain lo e (map eraseB bk) <-> chain lo e bk).
  { intros lo. apply (chain_map eraseB lo e bk). intros x. destruct (erase_fields x) as (A & B & _). split; assumption. }
  assert (Ha : allP (sp M) (map eraseB bk) <-> allP (sp M) bk).
  { clear Hc. induction bk as [|x r IHr]; [tauto|]. cbn [map allP]. rewrite (IH x), IHr. tauto. }
  rewrite Hc, Ha. tauto.
Qed.

Lemma lastBlock_erase b : lastBlock (eraseB b) = option_map eraseB (lastBlock b).
Proof.
  unfold lastBlock. destruct (erase_fields b) as (_ & _ & _ & _ & E). rewrite E, <- map_rev. destruct (rev (bkids b)); reflexivity.
Qed.
Lemma getAt_erase : forall d b, getAt d (eraseB b) = option_map eraseB (getAt d b).
Proof.
  induction d as [|d IH]; intros b; [reflexivity|]. cbn [getAt]. rewrite lastBlock_erase.
  destruct (lastBlock b) as [c|]; [apply IH|reflexivity].
Qed.

Lemma erase_ext a b : bkind a = bkind b -> bstart a = bstart b -> bend a = bend b -> bik a = bik b -> bindent a = bindent b ->
  bn a = bn b -> bchar a = bchar b -> bloose a = bloose b -> map eraseB (bkids a) = map eraseB (bkids b) -> eraseB a = eraseB b.
Proof. destruct a, b. cbn. intros; subst. f_equal. assumption. Qed.

Lemma erase_set_blast b v : eraseB (set_blast b v) = eraseB b. Proof. destruct b; reflexivity. Qed.
Lemma erase_set_lastBlocks b c c' : lastBlock b = Some c -> eraseB c' = eraseB c -> eraseB (set_lastBlocks b [c']) = eraseB b.
Proof.
  intros El Ec. pose proof (lastBlock_split b c El) as Es. unfold set_lastBlocks.
  apply erase_ext; try (destruct b; reflexivity). rewrite bkids_set_bkids. rewrite Es at 2. rewrite !map_app. cbn [map]. rewrite Ec. reflexivity.
Qed.
Lemma erase_updAt f : (forall x, eraseB (f x) = eraseB x) -> forall d r, eraseB (updAt d f r) = eraseB r.
Proof.
  intros Hf. induction d as [|d IH]; intros r; [apply Hf|]. cbn [updAt].
  destruct (lastBlock r) as [c|] eqn:El; [|reflexivity]. eapply erase_set_lastBlocks; [exact El|apply IH].
Qed.
Lemma erase_setLastBlankUpTo v : forall d rt, eraseB (setLastBlankUpTo d v rt) = eraseB rt.
Proof.
  induction d as [|d IH]; intros rt; cbn [setLastBlankUpTo].
  - apply erase_updAt. intros x. apply erase_set_blast.
  - rewrite IH. apply erase_updAt. intros x. apply erase_set_blast.
Qed.

(* the invariants see the tree only up to the flags *)
Lemma getAt_transfer r r' d x' : eraseB r' = eraseB r -> getAt d r' = Some x' -> exists x, getAt d r = Some x /\ eraseB x = eraseB x'.
Proof.
  intros E H. pose proof (getAt_erase d r') as H1. rewrite H in H1. cbn in H1. rewrite E, getAt_erase in H1.
  destruct (getAt d r) as [x|]; [|discriminate]. cbn in H1. inversion H1. exists x. split; [reflexivity|congruence].
Qed.
Lemma sp_transfer M x x' : eraseB x = eraseB x' -> sp M x -> sp M x'.
Proof. intros E H. apply sp_erase. rewrite <- E. apply sp_erase. exact H. Qed.
Lemma bend_transfer x x' : eraseB x = eraseB x' -> bend x' = bend x.
Proof. intros E. destruct (erase_fields x) as (_ & A & _). destruct (erase_fields x') as (_ & B & _). congruence. Qed.
Lemma bkind_transfer x x' : eraseB x = eraseB x' -> bkind x' = bkind x.
Proof. intros E. destruct (erase_fields x) as (_ & _ & A & _). destruct (erase_fields x') as (_ & _ & B & _). congruence. Qed.

Lemma BPb_transfer M p p' : eraseB (root p') = eraseB (root p) -> cdepth p' = cdepth p -> li p' = li p -> lineStart p' = lineStart p -> line p' = line p ->
  ccP p' -> BPb M p -> BPb M p'.
Proof.
  intros E E2 E3 E4 E5 Hcc (A & B & C & _). split; [unfold curP; rewrite E3, E4, E5; exact A|]. split; [eapply sp_transfer; [symmetry; exact E|exact B]|]. split; [|exact Hcc].
  intros j x' Hj Ex'. rewrite E2 in Hj. destruct (getAt_transfer _ _ _ _ E Ex') as (x & Ex & Ee). rewrite (bend_transfer _ _ Ee). apply (C j x Hj Ex).
Qed.
Lemma C1_transfer p p' : eraseB (root p') = eraseB (root p) -> cdepth p' = cdepth p -> lineStart p' = lineStart p -> C1 p -> C1 p'.
Proof.
  intros E E2 E4 H c' Ec' Oc'. rewrite E2 in Ec'. destruct (getAt_transfer _ _ _ _ E Ec') as (c & Ec & Ee).
  rewrite E4. eapply sp_transfer; [exact Ee|]. apply H; [exact Ec|]. rewrite <- (bend_transfer _ _ Ee). exact Oc'.
Qed.
Lemma LI_transfer p p' : eraseB (root p') = eraseB (root p) -> cdepth p' = cdepth p -> lineStart p' = lineStart p -> LI p -> LI p'.
Proof.
  intros E E2 E4 H c' Ec'. rewrite E2 in Ec'. destruct (getAt_transfer _ _ _ _ E Ec') as (c & Ec & Ee).
  rewrite E4, (bkind_transfer _ _ Ee). destruct (H c Ec) as [S|Wd]; [left; eapply sp_transfer; eassumption|right; exact Wd].
Qed.
Lemma containerKind_transfer p p' : eraseB (root p') = eraseB (root p) -> cdepth p' = cdepth p -> ccP p -> ccP p' -> containerKind p' = containerKind p.
Proof.
  intros E E2 D D'. destruct (wf_le p' (cdepth p') D' ltac:(lia)) as (x' & Ex'). rewrite (containerKind_at p' x' Ex').
  rewrite E2 in Ex'. destruct (getAt_transfer _ _ _ _ E Ex') as (x & Ex & Ee). rewrite (containerKind_at p x Ex). apply bkind_transfer, Ee.
Qed.
