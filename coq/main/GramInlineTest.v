From Coq Require Import List ZArith Lia Bool String Ascii.
Import ListNotations.
Require Import Base Tree Rdr Link Collect Html Recog LP Rules Starts Driver Render Inl3a Inl3e Props GramInline.
Open Scope Z_scope.

Fixpoint s2b (s : string) : bytes :=
  match s with EmptyString => [] | String a r => (let z := Z.of_N (N_of_ascii a) in if z =? 124 then 10 else z) :: s2b r end.
Definition chk (s : string) : bool * bool :=
  (forallb (fun r => leavesOK (gramI false) (rb_blk r)) (fst (parseFull (s2b s))),
   forallb (fun r => leavesOK (gramIw false) (rb_blk r)) (fst (parseFull (s2b s)))).
Open Scope string_scope.
Definition tests : list string := [
  "[a](""t"")|"; "[a](<b ""t"")|"; "[a](<b|""t"")|"; "[a]( 't')|"; "[a](<> ""t"")|"; "[a](<b> 't' )|"; "[a](  )|"; "[a]( (t) )|";
  "> [a](<b|> ""t"")|"; "# [a](<b ""t"") #|"; "[a](b|'t')|"; "- [a](<b|  ""t"")|";
  "*a **b** c* [l *e* ![i](u)](d 't') [a [b](c)](d) [![[x](y)](z)](w)|";
  "[foo]: /u|[bar]: /v||[foo][bar] [foo][] [foo] [*foo*][bar] [x][nope] `c|d` <http://x.y> <b> a  |b\|c|"
].
Eval vm_compute in (map chk tests).
