(* QInlCoreDef.v -- T64: the statement of the core of the inline simulation, and the facts about a leaf that the block layer provides
   (QFull3.v proves LeafHyps for every leaf of every tab-free document). *)
From Coq Require Import List ZArith Lia Bool.
Import ListNotations.
Require Import Base Tree Rdr Inl3a Inl3e ShapesR ShapesComp3 InlineShapes SpanHypDef QCutsDef QIRdrBase QInlDefs QInlBytesEmph QInlHtml QInlGapParen.
Open Scope Z_scope.

(* b: a leaf of D with its positions relative to its root block (source sD); c: its image in quote D (source sQ, the whole of quote D) *)
Record LeafHyps (sD sQ : bytes) (sg : Z -> Z) (b c : block) : Prop := mkLeafHyps {
  LH_good  : SGood sD sQ sg;
  LH_gap   : GapSp sD sQ sg;
  LH_gapp  : GapNoParen sD sQ sg;                   (* the byte behind the image of a line feed is not ')' *)
  LH_ne    : bik b <> [];
  LH_gsp   : Forall (gsp sD sg (bik b)) (bik b);
  LH_bik   : bikOK' sD b = true;                     (* InlineShapes: bikOK (spOK, ibudget <= len sD + 9, no CodeSpan entry), eok, IS6b.linesOK *)
  LH_ent   : entriesOKX sD b = true;
  LH_start : 0 <= bstart b;
  LH_end   : 0 < bend b <= len sD;
  LH_gt    : NoGtBehindLast sD (bik b);
  LH_kids  : Forall (fun u => ikids u = []) (bik b);
  LH_cbik  : bik c = map (mvS sg) (bik b);
  LH_cend  : bend c = sg (bend b - 1) + 1 }.

Definition parseInlines_quote_core_statement : Prop := forall sD sQ sg b c m,
  LeafHyps sD sQ sg b c -> parseInlines sQ m c = flat_map (qI3 sD sg) (parseInlines sD m b).
