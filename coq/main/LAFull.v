From Coq Require Import List ZArith Lia Bool.
Import ListNotations.
Require Import Base Tree Rdr Link Collect Html Recog Inl3e Driver Props L2Kind L2CC SpanHypDef SpanHyp
  LADef LA1 LA2 LA12 LA13 LA14 LAOcp LAPad.
Open Scope Z_scope.

(* ===== C03, first half, for the tree AFTER the inline pass: no byte of a root of parseFull is covered by two leaves =====
   Conditional on SpanHypDef.entriesOKroots (the entry conditions of InlineSpans.parseInlines_spans on the pre-inline trees).
   Block level: the invariant la (blocks in order inside their parents, entries in order inside their blocks, the leaves of an
   entry inside the entry, the entries of a definition in order).  Inline level: SpanHyp.rewriteB_inline_spans. *)

(* ---- ordIn and cover ---- *)
Lemma ordIn_cover : forall l lo hi, ordIn lo hi l -> forall p, (p < lo -> cover l p = 0) /\ (hi <= p -> cover l p = 0) /\ 0 <= cover l p <= 1.
Proof.
  induction l as [|se r IH]; intros lo hi H p; cbn [ordIn] in H.
  - rewrite cover_nil. split; [reflexivity|]. split; [reflexivity|lia].
  - destruct H as (A & B & C). pose proof (ordIn_le _ _ _ C) as Hle. destruct (IH _ _ C p) as (I1 & I2 & I3).
    rewrite cover_cons. unfold inb. destruct (Z.leb_spec (fst se) p) as [L1|L1]; destruct (Z.ltb_spec p (snd se)) as [L2|L2]; cbn [andb].
    + rewrite I1 by lia. split; [lia|]. split; lia.
    + split; [lia|]. split; [intros; rewrite I2 by lia; lia|lia].
    + rewrite I1 by lia. split; [lia|]. split; lia.
    + lia.
Qed.

(* ---- the leaves of inline nodes that satisfy Props.spansI lie in order inside the node ---- *)
Lemma leavesI_ord v src : forall i ps pe, spansI v src ps pe i = true -> ordIn (istart i) (iend i) (leavesI i).
Proof.
  fix IH 1. intros [k s e ind rf ks] ps pe H. cbn [spansI] in H. cbn [istart iend leavesI].
  apply andb_true_iff in H. destruct H as [H Hgo]. apply andb_true_iff in H. destruct H as [H _].
  apply andb_true_iff in H. destruct H as [H _]. apply andb_true_iff in H. destruct H as [H _].
  unfold span_valid in H. apply andb_true_iff in H. destruct H as [H _]. apply andb_true_iff in H. destruct H as [_ Hse]. apply Z.leb_le in Hse.
  match type of Hgo with ?g s ks = true =>
    enough (G : forall prev, prev <= e -> g prev ks = true -> ordIn prev e (flat_map leavesI ks))
      by (destruct ks as [|k0 kr]; [cbn [ordIn fst snd]; lia|apply (G s Hse Hgo)]) end.
  clear Hgo.
  induction ks as [|x r IHr]; intros prev Hp Hgo; [cbn [flat_map ordIn]; exact Hp|].
  apply andb_true_iff in Hgo. destruct Hgo as [Hgo Hr]. apply andb_true_iff in Hgo. destruct Hgo as [Hpx Hx]. apply Z.leb_le in Hpx.
  cbn [flat_map]. pose proof (IH x s e Hx) as Ox.
  assert (Hxe : iend x <= e).
  { destruct x as [k' s' e' ind' rf' ks']. cbn [spansI iend] in *. apply andb_true_iff in Hx. destruct Hx as [Hx _]. apply andb_true_iff in Hx. destruct Hx as [Hx _].
    apply andb_true_iff in Hx. destruct Hx as [_ Hx]. apply Z.leb_le in Hx. exact Hx. }
  eapply ordIn_cat; [eapply ordIn_lo; [exact Ox|exact Hpx]|]. apply IHr; [exact Hxe|exact Hr].
Qed.

(* ---- entries and children in order ---- *)
Lemma entries_ord src K : forall ik lo hi, tileS src lo hi (map ispan ik) -> Forall (eok src K) ik -> ordIn lo hi (flat_map leavesI ik).
Proof.
  induction ik as [|x l IH]; intros lo hi Ht Hf; cbn [map tileS flat_map ordIn] in *; [apply Ht|].
  destruct Ht as (A & _ & B & C). inversion Hf as [|? ? (_ & _ & Hx) Hl]; subst. cbn [ispan fst snd] in *.
  eapply ordIn_cat; [eapply ordIn_lo; [exact Hx|exact A]|apply IH; assumption].
Qed.
Lemma chain_ord src (P : block -> list (Z * Z)) : forall l lo hi, tchain src false lo hi l ->
  (forall c, In c l -> ordIn (bstart c) (bend c) (P c)) -> ordIn lo hi (flat_map P l).
Proof.
  induction l as [|c r IH]; intros lo hi Ht HP; cbn [tchain flat_map ordIn] in *; [apply Ht|].
  destruct Ht as (A & _ & C). destruct (bend c <? 0); [destruct C; discriminate|]. destruct C as [C1 C2].
  eapply ordIn_cat; [eapply ordIn_lo; [apply HP; left; reflexivity|exact A]|apply IH; [exact C2|intros x Hx; apply HP; right; exact Hx]].
Qed.
Lemma flat_map_map {A B C} (f : B -> list C) (g : A -> B) l : flat_map f (map g l) = flat_map (fun x => f (g x)) l.
Proof. induction l as [|x r IH]; [reflexivity|]. cbn [map flat_map]. rewrite IH. reflexivity. Qed.

Lemma leavesB_eq b : leavesB b =
  match bkids b, bik b with
  | [], [] => if bkind b =? ListMarkerKind then [(bstart b, bend b)] else []
  | [], _ => flat_map leavesI (bik b)
  | _, _ => flat_map leavesB (bkids b)
  end.
Proof. destruct b; reflexivity. Qed.
Lemma leaf_not_LM K : isLeafK K = true -> (K =? ListMarkerKind) = false.
Proof. intros H. destruct (Z.eqb_spec K ListMarkerKind) as [->|N]; [discriminate H|reflexivity]. Qed.

(* the facts of la about one closed block that matter here *)
Definition shapeB (src : bytes) (b : block) : Prop :=
  bstart b <= bend b /\
  (bkids b = [] -> ordIn (bstart b) (bend b) (leavesB b)) /\
  (bkids b <> [] -> bik b = [] /\ tchain src false (bstart b) (bend b) (bkids b)) /\
  (bik b <> [] -> bkids b = []).
Lemma la_shapeB src M b : cc b = true -> 0 <= bend b -> la src M b -> shapeB src b.
Proof.
  intros Hcc He H. pose proof H as H'. rewrite la_eq in H'. destruct H' as (A & B & _ & C & D).
  assert (Hse : bstart b <= bend b) by (destruct B as [B|[B _]]; lia).
  assert (Ehi : hiOf M b = bend b) by (apply hiOf_closed, He).
  assert (Eop : (bend b <? 0) = false) by (apply Z.ltb_ge; exact He).
  unfold shapeB. split; [exact Hse|]. unfold body in C. rewrite Ehi in C. rewrite leavesB_eq.
  destruct (isLeafK (bkind b)) eqn:EK.
  - assert (Hnk : bkids b = []) by (apply leaf_no_kids; [exact Hcc|unfold isContK; rewrite EK; reflexivity]).
    destruct C as (C1 & C2 & _). rewrite Hnk. split; [|split; [intros N; contradiction|intros _; reflexivity]].
    intros _. destruct (bik b) as [|x l] eqn:Ei; [rewrite (leaf_not_LM _ EK); cbn [ordIn]; exact Hse|]. rewrite <- Ei in *. eapply entries_ord; eassumption.
  - destruct (bkind b =? ListMarkerKind) eqn:ELM.
    + assert (Hnk : bkids b = []) by (apply leaf_no_kids; [exact Hcc|unfold isContK; rewrite EK, ELM; reflexivity]).
      destruct C as [_ Cik]. rewrite Hnk, Cik. split; [intros _; cbn [ordIn fst snd]; lia|]. split; [intros N; contradiction|intros N; contradiction].
    + destruct (bkind b =? LinkReferenceDefinitionKind) eqn:ELR.
      * assert (Hnk : bkids b = []) by (apply leaf_no_kids; [exact Hcc|unfold isContK; rewrite EK, ELM, ELR; reflexivity]).
        destruct C as [_ Co]. rewrite Hnk. split; [|split; [intros N; contradiction|intros _; reflexivity]].
        intros _. destruct (bik b) as [|x l] eqn:Ei; [cbn [ordIn]; exact Hse|]. exact Co.
      * destruct C as [C Cik]. rewrite Eop in C. rewrite Cik. split; [|split; [intros _; split; [reflexivity|exact C]|intros N; contradiction]].
        intros Hnk. rewrite Hnk. cbn [ordIn]. exact Hse.
Qed.
Lemma la_kids_ok src M b : cc b = true -> 0 <= bend b -> la src M b -> bkids b <> [] ->
  forall c, In c (bkids b) -> cc c = true /\ 0 <= bend c /\ la src M c.
Proof.
  intros Hcc He H Hne c Hc. destruct (la_shapeB src M b Hcc He H) as (_ & _ & S3 & _). destruct (S3 Hne) as [_ Ht].
  rewrite la_eq in H. destruct H as (_ & _ & _ & _ & D). apply cc_parts in Hcc. destruct Hcc as [_ Hcc]. unfold ccL in Hcc. rewrite forallb_forall in Hcc.
  split; [apply Hcc, Hc|]. split; [eapply tchain_closed_kids; eassumption|eapply allQ_In; eassumption].
Qed.

(* before the inline pass *)
Lemma leaves_pre src M : forall n b, (bheight b <= n)%nat -> cc b = true -> 0 <= bend b -> la src M b -> ordIn (bstart b) (bend b) (leavesB b).
Proof.
  induction n as [|n IH]; intros b Hh Hcc He H; [pose proof (bheight_pos b); lia|].
  destruct (la_shapeB src M b Hcc He H) as (S1 & S2 & S3 & S4).
  destruct (bkids b) as [|c0 cr] eqn:Ek; [apply S2; reflexivity|].
  destruct (S3 ltac:(discriminate)) as [Eik Ht]. rewrite leavesB_eq, Ek.
  apply (chain_ord src leavesB _ _ _ Ht). intros c Hc. rewrite <- Ek in Hc.
  destruct (la_kids_ok src M b Hcc He H ltac:(rewrite Ek; discriminate) c Hc) as (K1 & K2 & K3).
  apply IH; [pose proof (bheight_kid' b c Hc); lia|exact K1|exact K2|exact K3].
Qed.

(* after the inline pass *)
Lemma inlines_ord src s e : forall ks lo hi, lo <= hi -> ordered_inX lo hi ks = true -> forallb (spansI false src s e) ks = true ->
  ordIn lo hi (flat_map leavesI ks).
Proof.
  induction ks as [|k r IH]; intros lo hi Hle Ho Hs; cbn [flat_map ordIn]; [exact Hle|].
  cbn [ordered_inX forallb] in *. apply andb_true_iff in Ho. destruct Ho as [Ho Hr]. apply andb_true_iff in Ho. destruct Ho as [A B].
  apply Z.leb_le in A, B. apply andb_true_iff in Hs. destruct Hs as [Hk Hs].
  eapply ordIn_cat; [eapply ordIn_lo; [eapply leavesI_ord; exact Hk|exact A]|apply IH; assumption].
Qed.

Lemma leaves_post raw M src refs : forall fuel b, cc b = true -> 0 <= bend b -> la raw M b -> entriesOKB fuel src b = true ->
  ordIn (bstart b) (bend b) (leavesB (rewriteB fuel src refs b)).
Proof.
  induction fuel as [|f IH]; intros b Hcc He H Hok; [cbn [rewriteB]; apply (leaves_pre raw M (bheight b)); [lia|assumption..]|].
  destruct (la_shapeB raw M b Hcc He H) as (S1 & S2 & S3 & S4).
  pose proof (rewriteB_inline_spans (S f) src refs b Hok) as Hsp. cbn [spansAfter entriesOKB] in Hsp, Hok. cbn [rewriteB] in *.
  unfold isLeafU in *. destruct ((0 <? len (bik b)) && hasUnparsed b) eqn:E.
  - (* a leaf with unparsed text: its inline entries are replaced *)
    rewrite SpanHyp.bik_set_bik in Hsp. set (ks := parseInlines src refs b) in *.
    apply andb_true_iff in Hsp. destruct Hsp as [Ho Hs]. apply andb_true_iff in E. destruct E as [E _]. apply Z.ltb_lt in E.
    assert (Hne : bik b <> []) by (intros N; rewrite N in E; cbn in E; lia). specialize (S4 Hne).
    rewrite leavesB_eq. destruct b as [K s e bk ik a n c l lb]. cbn [set_bik bkids bik bkind bstart bend] in *. subst bk.
    destruct ks as [|k0 kr] eqn:Eks; [destruct (K =? ListMarkerKind); cbn [ordIn fst snd]; lia|]. rewrite <- Eks in *.
    eapply inlines_ord; eassumption.
  - (* anything else: the children are rewritten *)
    destruct (bkids b) as [|c0 cr] eqn:Ek.
    + cbn [map]. replace (set_bkids b []) with b by (destruct b; cbn [bkids set_bkids] in *; subst; reflexivity). apply S2. reflexivity.
    + destruct (S3 ltac:(discriminate)) as [Eik Ht]. rewrite leavesB_eq.
      assert (Ebk : bkids (set_bkids b (map (rewriteB f src refs) (c0 :: cr))) = map (rewriteB f src refs) (c0 :: cr)) by (destruct b; reflexivity).
      rewrite Ebk. cbn [map]. change (rewriteB f src refs c0 :: map (rewriteB f src refs) cr) with (map (rewriteB f src refs) (c0 :: cr)).
      rewrite flat_map_map.
      apply (chain_ord raw (fun x => leavesB (rewriteB f src refs x)) _ _ _ Ht). intros c Hc.
      assert (Hc' : In c (bkids b)) by (rewrite Ek; exact Hc).
      destruct (la_kids_ok raw M b Hcc He H ltac:(rewrite Ek; discriminate) c Hc') as (K1 & K2 & K3).
      apply IH; [exact K1|exact K2|exact K3|]. rewrite forallb_forall in Hok. apply Hok, Hc.
Qed.

(* ===== the corollary ===== *)
Theorem C03_no_dup_partial input : entriesOKroots (fst (parseBlocks input)) = true ->
  Forall (fun r => forall p, cover (leavesB (rb_blk r)) p <= 1) (fst (parseFull input)).
Proof.
  intros Hok. unfold parseFull.
  pose proof (parseBlocks_rootLA (fun _ => True) (fun src _ => OcpLoopSpec_all src) (fun _ _ _ => I) (fun _ _ _ => I) input I) as HR.
  destruct (parseBlocks input) as [roots code]. cbn [fst] in *.
  apply Forall_forall. intros r Hr. apply in_map_iff in Hr. destruct Hr as (r0 & <- & Hr0). cbn [rb_blk].
  rewrite Forall_forall in HR. destruct (HR r0 Hr0) as (raw & _ & _ & _ & E2 & Hcc & Hla & _).
  unfold entriesOKroots in Hok. rewrite forallb_forall in Hok. specialize (Hok r0 Hr0).
  assert (Hl : 0 <= len raw) by (unfold len; lia).
  pose proof (leaves_post raw (len raw) (rb_src r0) (fold_left (fun a r => extractB (bheight (rb_blk r)) (rb_blk r) a) roots [])
                (bheight (rb_blk r0)) (rb_blk r0) Hcc ltac:(lia) Hla Hok) as Ho.
  intros p. apply (ordIn_cover _ _ _ Ho p).
Qed.
Print Assumptions C03_no_dup_partial.

(* the same as the first conjunct of Props.chk_C03_root, evaluated on every position of the root's source *)
Corollary C03_no_dup_partial_bool input : entriesOKroots (fst (parseBlocks input)) = true ->
  forallb (fun r => forallb (fun p => cover (leavesB (rb_blk r)) p <=? 1) (range (len (rb_src r)))) (fst (parseFull input)) = true.
Proof.
  intros Hok. pose proof (C03_no_dup_partial input Hok) as H. rewrite Forall_forall in H.
  apply forallb_forall. intros r Hr. apply forallb_forall. intros p _. apply Z.leb_le. apply (H r Hr).
Qed.
Print Assumptions C03_no_dup_partial_bool.
