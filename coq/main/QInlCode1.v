(* QInlCode1.v -- T64 (code spans, part 1): parseCodeSpan in the two-run setting of the inline pass.
   The scanners cs_open / cs_run / cs_close of Inl3b.v on two related readers (QIRdrBase.RR with the inside-or-end clause).
   No reader in the state RX is ever looked at: a failed `next` ends the scan at once on both sides, and a step from a backtick
   never crosses a line feed.  The simulation holds for EVERY fuel (the same on both sides); fuel adequacy is used only to
   change the fuels afterwards (IFCode.parseCodeSpan_fuel). *)
From Coq Require Import List ZArith Lia Bool.
Import ListNotations.
Require Import Base Tables Utf8 Tree Rdr Link Collect Html Recog Inl3a Inl3b Inl3c Inl3d Driver Inl3e ShapesBase ShapesR IFBase IFLink IFCode QCutsDef QIRdrBase QInlDefs.
Open Scope Z_scope.

(* ---- lists of sorted spans: a position lies in at most one of them ---- *)
Lemma spW_unique src : forall l, spW src l = true -> forall u v p, In u l -> In v l ->
  istart u <= p < iend u -> istart v <= p < iend v -> u = v.
Proof.
  induction l as [|x l IH]; intros W u v p Hu Hv Pu Pv; [destruct Hu|].
  pose proof (spW_cons _ _ _ W) as (_ & _ & _ & D & Wl).
  destruct Hu as [<-|Hu]; destruct Hv as [<-|Hv].
  - reflexivity.
  - specialize (D v Hv). lia.
  - specialize (D u Hu). lia.
  - apply (IH Wl u v p); assumption.
Qed.

Lemma from_nth {A} (d : A) : forall (l : list A) i, 0 <= i < len l -> from_ l i = nth (Z.to_nat i) l d :: from_ l (i + 1).
Proof.
  intros l i H. unfold from_, len in *. replace (Z.to_nat (i + 1)) with (Datatypes.S (Z.to_nat i)) by lia.
  assert (Hn : (Z.to_nat i < length l)%nat) by lia. revert Hn. generalize (Z.to_nat i). clear H i.
  induction l as [|x l IH]; intros n Hn; [cbn in Hn; lia|]. destruct n as [|n]; [reflexivity|]. cbn [skipn nth]. apply IH. cbn in Hn. lia.
Qed.

Section QC.
  Variables (sD sQ : bytes) (sg : Z -> Z) (IK : list inline).
  Hypothesis SG : SGood sD sQ sg.
  Hypothesis IKw : spW sD IK = true.
  Notation RR := (QIRdrBase.RR sD sQ sg IK true).
  Notation sgE := (QIRdrBase.sgE sD sg).
  Notation gsp := (QIRdrBase.gsp sD sg IK).

  (* the position p lies in the entry u of IK *)
  Definition Ent (u : inline) (p : Z) : Prop := In u IK /\ gsp u /\ istart u <= p < iend u.

  Lemma Ent_unique u v p : Ent u p -> Ent v p -> u = v.
  Proof. intros (A & _ & B) (C & _ & D). apply (spW_unique sD IK IKw u v p); assumption. Qed.
  Lemma Ent_in u p : Ent u p -> 0 <= p < len sD.
  Proof. intros (_ & (A & B & C & _) & D). lia. Qed.
  Lemma Ent_sg u p : Ent u p -> sg p = sg (istart u) + (p - istart u).
  Proof. intros (_ & (A & B & C & T & _) & D). apply T, D. Qed.
  Lemma Ent_shift u p q : Ent u p -> p <= q < iend u -> Ent u q.
  Proof. intros (A & B & C) H. split; [exact A|]. split; [exact B|lia]. Qed.
  (* no line feed inside an entry except possibly as its last byte *)
  Lemma gsp_nolf u x : gsp u -> istart u <= x -> x + 1 < iend u -> at_ sD x <> 10.
  Proof.
    intros (A & B & C & T & _) H1 H2 E. pose proof (SG_lf _ _ _ SG x ltac:(lia) E) as L.
    rewrite (T x), (T (x + 1)) in L by lia. lia.
  Qed.

  Lemma RR_ent r r' node : RR r r' -> fst (curNode r) = Some node -> Ent node (r_pos r) /\ r_pos r' = sg (r_pos r).
  Proof.
    intros H E. destruct (bRR_curNode_in sD sQ sg IK true SG r r' node H E) as (G & Hin & Hp & _).
    split; [|exact Hp]. split; [|split; [exact G|exact Hin]].
    destruct H as (_ & _ & _ & _ & _ & _ & _ & _ & _ & _ & (preX & SX)).
    destruct (curNode_cases r) as [E0|(pre & m & rest & E1 & E0 & _)]; rewrite E0 in E; cbn [fst] in E; [discriminate|]. inversion E; subst m.
    rewrite SX, E1. apply in_or_app. right. apply in_or_app. right. left. reflexivity.
  Qed.
  Lemma RR_spans_gsp r r' : RR r r' -> Forall gsp (r_spans r).
  Proof. intros (_ & _ & _ & G & _). exact G. Qed.
  Lemma RR_src r r' : RR r r' -> r_src r = sD. Proof. intros (A & _). exact A. Qed.
  Lemma RR_posr r r' : RR r r' -> 0 <= r_pos r <= len sD /\ r_pos r' = sgE (r_pos r).
  Proof. intros (_ & _ & _ & _ & _ & _ & (P & _) & P' & _). split; assumption. Qed.

  (* after a successful step the reader is inside a span *)
  Lemma next_true_InNode r r1 : Forall gsp (r_spans r) -> next r = (true, r1) -> InNode r1.
  Proof.
    intros G H. destruct (next_true r r1 H) as (node & rest & Ec & Hh & (pre & Epre) & Es & Ep & Hcase).
    pose proof (spanHas_range _ _ Hh) as (R1 & R2 & R3).
    destruct Hcase as [(Ek & Epos & Esp)|[(Ek & Epos & Elt & Esp)|(pre' & j & rest' & Er & Esp & Epos & Ecase)]].
    - exists node. rewrite (curNode_head node rest r1 Esp); [reflexivity|]. rewrite Epos. exact Hh.
    - exists node. rewrite (curNode_head node rest r1 Esp); [reflexivity|]. rewrite Epos. apply spanHas_intro; lia.
    - assert (Gj : gsp j).
      { rewrite Forall_forall in G. apply G. rewrite Epre, Er. apply in_or_app. right. right. apply in_or_app. right. left. reflexivity. }
      destruct Gj as (A & B & _). exists j. rewrite (curNode_head j rest' r1 Esp); [reflexivity|]. rewrite Epos. apply spanHas_intro; lia.
  Qed.

  (* one step, any byte *)
  Lemma q_next r r' : RR r r' ->
    fst (next r') = fst (next r) /\ (fst (next r) = true -> RR (snd (next r)) (snd (next r')) /\ InNode (snd (next r))).
  Proof.
    intros H. pose proof (bRR_next sD sQ sg IK true SG IKw r r' H) as (E & D & _). split; [exact E|]. intros Hok.
    split; [destruct D as [D|[D _]]; [exact D|rewrite D in Hok; discriminate Hok]|].
    apply (next_true_InNode r); [apply (RR_spans_gsp r r' H)|]. clear E D. destruct (next r) as [ok r1]. cbn [fst snd] in *. subst ok. reflexivity.
  Qed.

  (* one step from a byte inside a span that is not a line feed *)
  Lemma q_next_in r r' : RR r r' -> InNode r -> at_ sD (r_pos r) <> 10 ->
    fst (next r') = fst (next r) /\ RR (snd (next r)) (snd (next r')) /\
    r_prev (snd (next r)) = r_pos r /\ r_pos (snd (next r)) = r_pos r + 1 /\
    (fst (next r) = true -> InNode (snd (next r)) /\ exists u, Ent u (r_pos r) /\ r_pos r + 1 < iend u).
  Proof.
    intros H (node & Hnode) N10. pose proof (bRR_next sD sQ sg IK true SG IKw r r' H) as (E & _ & D & _).
    split; [exact E|]. split; [exact (D N10)|].
    destruct (RR_ent r r' node H Hnode) as [Hent _]. pose proof Hent as (Hin & Gn & Hr). pose proof Gn as (Ga & Gb & Gc & Gt & Gk & Gl).
    destruct (next r) as [ok r1] eqn:En. cbn [fst snd]. destruct ok.
    - pose proof (bRR_next_pos sD sQ sg IK true SG r r' H ltac:(rewrite En; reflexivity) N10) as Hp. rewrite En in Hp. cbn [snd] in Hp.
      pose proof (next_true_InNode r r1 (RR_spans_gsp r r' H) En) as HI.
      destruct (next_true r r1 En) as (node0 & rest & Ec & Hh & (pre & Epre) & Es & Ep & Hcase).
      rewrite Ec in Hnode. cbn [fst] in Hnode. inversion Hnode; subst node0.
      split; [exact Ep|]. split; [exact Hp|]. intros _. split; [exact HI|]. exists node. split; [exact Hent|].
      destruct Hcase as [(Ek & _)|[(_ & _ & Elt & _)|(pre' & j & rest' & Er & Esp & Epos & Ecase)]]; [rewrite Gk in Ek; discriminate Ek|exact Elt|]. exfalso.
      destruct Ecase as [Ek|Ee]; [rewrite Gk in Ek; discriminate Ek|].
      assert (Gj : gsp j).
      { pose proof (RR_spans_gsp r r' H) as G. rewrite Forall_forall in G. apply G. rewrite Epre, Er. apply in_or_app. right. right. apply in_or_app. right. left. reflexivity. }
      destruct Gj as (Ja & Jb & Jc & _).
      destruct Gl as [Gl|[Gl|Gl]].
      + replace (iend node - 1) with (r_pos r) in Gl by lia. contradiction.
      + lia.
      + destruct H as (_ & _ & _ & _ & W & _ & _ & _ & _ & _ & (preX & SX)).
        assert (Wn : spW sD (node :: rest) = true) by (rewrite Epre in W; apply (spW_app_r sD pre), W).
        assert (Hr0 : rest = []).
        { apply (last_span_rest sD IK (SG_pos _ _ _ SG) pre node rest Wn Gb Gl). exists preX. rewrite SX, Epre. reflexivity. }
        rewrite Hr0 in Er. destruct pre'; discriminate Er.
    - destruct (next_false r r1 En) as (_ & _ & F). destruct (F node Hnode) as (F1 & F2 & _).
      split; [exact F1|]. split; [exact F2|discriminate].
  Qed.

  (* ---------------------------------------------------------------- cs_open *)
  Definition OpenR (p0 n0 : Z) (o o' : option (reader * Z * Z) * Z) : Prop :=
    match o, o' with
    | (None, c1), (None, c1') =>
        exists u, Ent u p0 /\ p0 <= c1 <= iend u /\ c1' = sg p0 + (c1 - p0) /\ (forall x, p0 <= x < c1 -> at_ sD x = 96)
    | (Some (r1, n1, c1), _), (Some (r1', n1', c1'), _) =>
        RR r1 r1' /\ InNode r1 /\ n1' = n1 /\ c1 = r_pos r1 /\ c1' = sg p0 + (c1 - p0) /\ c1 = p0 + (n1 - n0) /\ n0 <= n1 /\
        (exists u, Ent u p0 /\ c1 < iend u) /\ cur r1 <> 96 /\ (forall x, p0 <= x < c1 -> at_ sD x = 96)
    | _, _ => False
    end.

  Lemma q_cs_open : forall f r r' n, RR r r' -> InNode r ->
    OpenR (r_pos r) n (cs_open f r n (r_pos r)) (cs_open f r' n (r_pos r')).
  Proof.
    induction f as [|f IH]; intros r r' n H HI.
    { cbn [cs_open OpenR]. destruct HI as (node & Hn). destruct (RR_ent r r' node H Hn) as [He Hp]. exists node.
      split; [exact He|]. destruct He as (_ & _ & R). split; [lia|]. split; [lia|]. intros x Hx. lia. }
    cbn [cs_open]. rewrite (bRR_cur sD sQ sg IK true SG r r' H). destruct (Z.eqb_spec (cur r) 96) as [E96|N96].
    - destruct (cur_tick sD r (RR_src r r' H) E96) as (Hat & Hp0 & Hp1).
      destruct (bRR_current sD sQ sg IK true SG r r' H) as [_ H0]. pose proof (InNode_current r HI) as HI0.
      pose proof (pos_current r) as Ep0.
      destruct (q_next_in (snd (current r)) (snd (current r')) H0 HI0 ltac:(rewrite Ep0, Hat; lia)) as (Eo & H1 & Epv & Epos & Hok).
      rewrite Ep0 in *.
      destruct (next (snd (current r))) as [ok r1]. destruct (next (snd (current r'))) as [ok' r1']. cbn [fst snd] in *. subst ok'.
      destruct HI as (node & Hn). destruct (RR_ent r r' node H Hn) as [He Hp].
      destruct ok; cbn [negb].
      + destruct (Hok eq_refl) as (HI1 & u & Hu & Hlt). pose proof (Ent_unique _ _ _ Hu He) as ->.
        specialize (IH r1 r1' (n + 1) H1 HI1). rewrite Epos in IH |- *.
        assert (Es : sg (r_pos r + 1) = sg (r_pos r) + 1) by (apply (SG_succ _ _ _ SG); [lia|rewrite Hat; lia]).
        destruct (cs_open f r1 (n + 1) (r_pos r + 1)) as [[[[r2 n2] c2]|] c3]; destruct (cs_open f r1' (n + 1) (r_pos r1')) as [[[[r2' n2'] c2']|] c3']; cbn [OpenR] in *; try contradiction.
        * destruct IH as (I1 & I2 & I3 & I4 & I5 & I6 & I7 & (u & Iu & I8) & I9 & I10).
          assert (Eu : u = node) by (apply (Ent_unique u node (r_pos r + 1) Iu); apply (Ent_shift node (r_pos r)); [exact He|lia]). subst u.
          split; [exact I1|]. split; [exact I2|]. split; [exact I3|]. split; [exact I4|]. split; [lia|]. split; [lia|]. split; [lia|].
          split; [exists node; split; [exact He|exact I8]|]. split; [exact I9|].
          intros x Hx. destruct (Z.eq_dec x (r_pos r)) as [->|Nx]; [exact Hat|apply I10; lia].
        * destruct IH as (u & Iu & I1 & I2 & I3).
          assert (Eu : u = node) by (apply (Ent_unique u node (r_pos r + 1) Iu); apply (Ent_shift node (r_pos r)); [exact He|lia]). subst u.
          exists node. split; [exact He|]. split; [lia|]. split; [lia|].
          intros x Hx. destruct (Z.eq_dec x (r_pos r)) as [->|Nx]; [exact Hat|apply I3; lia].
      + cbn [OpenR]. exists node. split; [exact He|]. destruct He as (_ & _ & R). split; [lia|].
        destruct (RR_posr r1 r1' H1) as [_ P1]. rewrite Epos in P1.
        rewrite (bsgE_succ sD sQ sg SG (r_pos r) ltac:(lia) ltac:(left; rewrite Hat; lia)) in P1.
        split; [lia|]. intros x Hx. replace x with (r_pos r) by lia. exact Hat.
    - cbn [OpenR]. destruct HI as (node & Hn). destruct (RR_ent r r' node H Hn) as [He Hp].
      split; [exact H|]. split; [exists node; exact Hn|]. split; [reflexivity|]. split; [reflexivity|]. split; [lia|]. split; [lia|]. split; [lia|].
      split; [exists node; split; [exact He|destruct He as (_ & _ & R); lia]|]. split; [exact N96|]. intros x Hx. lia.
  Qed.

  (* ---------------------------------------------------------------- cs_run *)
  Definition RunR (u : inline) (pe : Z) (x x' : reader * Z * bool) : Prop :=
    snd (fst x') = snd (fst x) /\ snd x' = snd x /\ RR (fst (fst x)) (fst (fst x')) /\
    pe <= r_prev (fst (fst x)) < iend u /\ (forall y, pe <= y <= r_prev (fst (fst x)) -> at_ sD y = 96).

  Lemma q_cs_run : forall f r r' k u pe, RR r r' -> InNode r -> Ent u pe -> pe <= r_pos r < iend u ->
    (forall y, pe <= y <= r_pos r -> at_ sD y = 96) ->
    (f = O -> pe <= r_prev r < iend u /\ forall y, pe <= y <= r_prev r -> at_ sD y = 96) ->
    RunR u pe (cs_run f r k) (cs_run f r' k).
  Proof.
    induction f as [|f IH]; intros r r' k u pe H HI Hu Hr Hat H0.
    { cbn [cs_run]. unfold RunR. cbn [fst snd]. destruct (H0 eq_refl) as [A B]. split; [reflexivity|]. split; [reflexivity|]. split; [exact H|]. split; [exact A|exact B]. }
    clear H0. cbn [cs_run].
    destruct (q_next_in r r' H HI ltac:(rewrite (Hat (r_pos r)) by lia; lia)) as (Eo & H1 & Epv & Epos & Hok).
    destruct (next r) as [ok r1]. destruct (next r') as [ok' r1']. cbn [fst snd] in *. subst ok'.
    destruct ok; cbn [negb].
    - destruct (Hok eq_refl) as (HI1 & u1 & Hu1 & Hlt).
      assert (Eu : u1 = u) by (apply (Ent_unique u1 u (r_pos r) Hu1); apply (Ent_shift u pe); [exact Hu|lia]). subst u1.
      rewrite (bRR_cur sD sQ sg IK true SG r1 r1' H1).
      destruct (bRR_current sD sQ sg IK true SG r1 r1' H1) as [_ H2].
      destruct (current_fields r1) as (_ & C2 & _ & C4). cbv zeta in C2, C4.
      destruct (Z.eqb_spec (cur r1) 96) as [E96|N96].
      + destruct (cur_tick sD r1 (RR_src r1 r1' H1) E96) as (Hat1 & _).
        apply (IH _ _ (k + 1) u pe H2 (InNode_current r1 HI1) Hu).
        * rewrite C2, Epos. lia.
        * intros y Hy. rewrite C2, Epos in Hy. destruct (Z.eq_dec y (r_pos r + 1)) as [->|Ny]; [rewrite <- Epos; exact Hat1|apply Hat; lia].
        * intros _. rewrite C4, Epv. split; [lia|exact Hat].
      + unfold RunR. cbn [fst snd]. split; [reflexivity|]. split; [reflexivity|]. split; [exact H2|]. rewrite C4, Epv. split; [lia|exact Hat].
    - unfold RunR. cbn [fst snd]. split; [reflexivity|]. split; [reflexivity|]. split; [exact H1|]. rewrite Epv. split; [lia|exact Hat].
  Qed.

  (* ---------------------------------------------------------------- cs_close *)
  Definition CloseR (p0 : Z) (x x' : Z * Z) : Prop :=
    (x = (-1, -1) /\ x' = (-1, -1)) \/
    (exists u, Ent u (fst x) /\ p0 <= fst x /\ fst x < snd x <= iend u /\ (forall y, fst x <= y < snd x -> at_ sD y = 96) /\
               fst x' = sg (fst x) /\ snd x' = sg (snd x - 1) + 1).

  Lemma CloseR_le p q x x' : p <= q -> CloseR q x x' -> CloseR p x x'.
  Proof.
    intros L [A|(u & A & B & C)]; [left; exact A|right]. exists u. split; [exact A|]. split; [lia|exact C].
  Qed.

  Lemma q_cs_close : forall f r r' blen, RR r r' -> InNode r -> CloseR (r_pos r) (cs_close f r blen) (cs_close f r' blen).
  Proof.
    induction f as [|f IH]; intros r r' blen H HI; [left; split; reflexivity|].
    cbn [cs_close]. rewrite (bRR_cur sD sQ sg IK true SG r r' H).
    destruct (bRR_current sD sQ sg IK true SG r r' H) as [_ H0]. pose proof (InNode_current r HI) as HI0. pose proof (pos_current r) as Ep0.
    pose proof (RR_PL _ _ _ _ _ _ _ H0) as PL0.
    destruct (Z.eqb_spec (cur r) 96) as [E96|N96]; cbn [negb].
    - destruct (cur_tick sD r (RR_src r r' H) E96) as (Hat & Hp0 & Hp1).
      destruct HI as (node & Hn). destruct (RR_ent r r' node H Hn) as [He Hp]. pose proof He as (_ & _ & Hr).
      pose proof (q_cs_run (Datatypes.S f) (snd (current r)) (snd (current r')) 1 node (r_pos r) H0 HI0 He ltac:(rewrite Ep0; lia)
                   ltac:(intros y Hy; rewrite Ep0 in Hy; replace y with (r_pos r) by lia; exact Hat) ltac:(discriminate)) as HR.
      pose proof (cs_run_prog sD (Datatypes.S f) (snd (current r)) 1 PL0) as (PL1 & Pp1 & _).
      destruct (cs_run (Datatypes.S f) (snd (current r)) 1) as [[r1 k1] a1]. destruct (cs_run (Datatypes.S f) (snd (current r')) 1) as [[r1' k1'] a1'].
      destruct HR as (E1 & E2 & H1 & Hpv & Hticks). cbn [fst snd] in *. subst k1' a1'.
      destruct (k1 =? blen).
      + right. cbn [fst snd]. exists node. split; [exact He|]. split; [lia|]. split; [lia|]. split; [intros y Hy; apply Hticks; lia|]. split; [exact Hp|].
        destruct H1 as (_ & _ & _ & _ & _ & _ & _ & _ & [PV|PV] & _); [lia|]. destruct PV as [_ PV]. rewrite PV. replace (r_prev r1 + 1 - 1) with (r_prev r1) by lia. reflexivity.
      + destruct (q_next r1 r1' H1) as [Eo Hok]. pose proof (next_W sD r1 PL1) as (_ & Pp2 & _).
        destruct (next r1) as [ok r2]. destruct (next r1') as [ok' r2']. cbn [fst snd] in *. subst ok'.
        destruct ok; cbn [negb]; [|left; split; reflexivity]. destruct (Hok eq_refl) as [H2 HI2].
        apply (CloseR_le (r_pos r) (r_pos r2)); [lia|]. apply IH; assumption.
    - destruct (q_next (snd (current r)) (snd (current r')) H0) as [Eo Hok]. pose proof (next_W sD _ PL0) as (_ & Pp2 & _).
      destruct (next (snd (current r))) as [ok r2]. destruct (next (snd (current r'))) as [ok' r2']. cbn [fst snd] in *. subst ok'.
      destruct ok; cbn [negb]; [|left; split; reflexivity]. destruct (Hok eq_refl) as [H2 HI2].
      apply (CloseR_le (r_pos r) (r_pos r2)); [lia|]. apply IH; assumption.
  Qed.
End QC.

(* ---------------------------------------------------------------- parseCodeSpan *)
Lemma spW_app_lr src : forall a b x y, spW src (a ++ b) = true -> In x a -> In y b -> iend x <= istart y.
Proof.
  induction a as [|z a IH]; intros b x y W Hx Hy; [destruct Hx|]. cbn [app] in W. pose proof (spW_cons _ _ _ W) as (_ & _ & _ & D & Wr).
  destruct Hx as [<-|Hx]; [apply D, in_or_app; right; exact Hy|apply (IH b x y Wr Hx Hy)].
Qed.
Lemma skipn_nth_hd {A} (d : A) : forall n (l : list A) x r, skipn n l = x :: r -> nth n l d = x /\ (n < length l)%nat.
Proof.
  induction n as [|n IH]; intros l x r E; [cbn in E; subst l; cbn; split; [reflexivity|lia]|].
  destruct l as [|y l]; [discriminate E|]. cbn [skipn] in E. destruct (IH l x r E) as [Ha Hb]. cbn [nth length]. split; [exact Ha|lia].
Qed.
Lemma skipn_skipn_c {A} : forall a b (l : list A), skipn a (skipn b l) = skipn (a + b) l.
Proof.
  intros a b. revert a. induction b as [|b IH]; intros a l; [rewrite Nat.add_0_r; reflexivity|].
  destruct l as [|x l]; [rewrite !skipn_nil; reflexivity|]. replace (a + Datatypes.S b)%nat with (Datatypes.S (a + b)) by lia. cbn [skipn]. apply IH.
Qed.
Lemma ibudget_unparsed : forall l, Forall (fun u => ikind u = UnparsedKind) l -> ibudget l = 0.
Proof. induction l as [|u l IH]; intros H; [reflexivity|]. inversion H as [|? ? Hu Hl]; subst. cbn [ibudget]. rewrite Hu, (IH Hl). reflexivity. Qed.

(* the image of a result of parseCodeSpan that started at `start` *)
Definition csMap (sg : Z -> Z) (start : Z) (x : Z * Z * Z) : Z * Z * Z :=
  let '(cS, cE, sE) := x in
  (sg start + (cS - start), if sE <? 0 then -1 else sg cE, if sE <? 0 then -1 else sg (sE - 1) + 1).

(* what is known about a result (cS, cE, sE) of parseCodeSpan st start *)
Definition CSValid (sD : bytes) (st : ist) (start cS cE sE : Z) : Prop :=
  let u0 := nth (Z.to_nat (upos st)) (unp st) (mkI 0 0 0) in
  let k := nodeIndexForPosition (unpFrom st) cE in
  let uE := nth (Z.to_nat (upos st + k)) (unp st) (mkI 0 0 0) in
  istart u0 <= start /\ start <= cS /\ cS < iend u0 /\ cS <= cE /\ 0 <= k /\ upos st + k < len (unp st) /\
  istart uE <= cE /\ cE < sE /\ sE <= iend uE /\ sE <= len sD /\
  (forall y, start <= y < cS -> at_ sD y = 96) /\ (forall y, cE <= y < sE -> at_ sD y = 96).
Definition CSFacts (sD : bytes) (st : ist) (start : Z) (x : Z * Z * Z) : Prop :=
  let '(cS, cE, sE) := x in
  let u0 := nth (Z.to_nat (upos st)) (unp st) (mkI 0 0 0) in
  start <= cS <= iend u0 /\ (forall y, start <= y < cS -> at_ sD y = 96) /\
  ((cE = -1 /\ sE = -1) \/ CSValid sD st start cS cE sE).

Section P.
  Variables (sD sQ : bytes) (sg : Z -> Z).
  Hypothesis SG : SGood sD sQ sg.
  Variables (st st' : ist).
  Hypothesis HIR : IR sD sQ sg st st'.
  Hypothesis G : Forall (gsp sD sg (unp st)) (unp st).
  Hypothesis W : spW sD (unp st) = true.
  Hypothesis Hup : 0 <= upos st < len (unp st).
  Notation IK := (unp st).
  Notation u0 := (nth (Z.to_nat (upos st)) (unp st) (mkI 0 0 0)).
  Notation Ent := (Ent sD sg (unp st)).

  Lemma unpFrom_q : unpFrom st' = map (mvS sg) (unpFrom st).
  Proof. destruct HIR as (_ & _ & E1 & E2 & _). unfold unpFrom. rewrite E1, E2. apply from_map. Qed.
  Lemma unpFrom_hd : unpFrom st = u0 :: from_ (unp st) (upos st + 1).
  Proof. unfold unpFrom. apply from_nth. exact Hup. Qed.
  Lemma u0_in : In u0 IK. Proof. apply nth_In. unfold len in Hup. lia. Qed.
  Lemma u0_gsp : gsp sD sg IK u0. Proof. rewrite Forall_forall in G. apply G, u0_in. Qed.
  Lemma Ent_u0 p : istart u0 <= p < iend u0 -> Ent u0 p.
  Proof. intros H. split; [apply u0_in|]. split; [apply u0_gsp|exact H]. Qed.
  Lemma unpFrom_gsp : Forall (gsp sD sg IK) (unpFrom st).
  Proof. unfold unpFrom, from_. rewrite <- (firstn_skipn (Z.to_nat (upos st)) IK) in G at 2. apply Forall_app in G. apply G. Qed.
  Lemma unpFrom_w : spW sD (unpFrom st) = true. Proof. apply spW_from, W. Qed.

  (* the entry of a position behind `start` by its index *)
  Lemma ent_nth uE cE start : Ent u0 start -> Ent uE cE -> start <= cE ->
    let k := nodeIndexForPosition (unpFrom st) cE in
    0 <= k /\ upos st + k < len IK /\ nth (Z.to_nat (upos st + k)) IK (mkI 0 0 0) = uE.
  Proof.
    intros (_ & _ & R0) HE Hle. pose proof HE as (InE_ & GE & RE). cbv zeta. unfold nodeIndexForPosition.
    assert (HinF : In uE (unpFrom st)).
    { unfold unpFrom, from_. pose proof InE_ as X. rewrite <- (firstn_skipn (Z.to_nat (upos st)) IK) in X. apply in_app_or in X. destruct X as [X|X]; [exfalso|exact X].
      pose proof W as W2. rewrite <- (firstn_skipn (Z.to_nat (upos st)) IK) in W2.
      pose proof (spW_app_lr sD _ _ uE u0 W2 X) as L. fold (from_ IK (upos st)) in L. fold (unpFrom st) in L. rewrite unpFrom_hd in L. specialize (L ltac:(left; reflexivity)). lia. }
    pose proof (nodeIdx_found sD sg IK (SG_pos _ _ _ SG) (unpFrom st) cE 0 uE unpFrom_w unpFrom_gsp HinF RE ltac:(lia)) as K0.
    destruct (nodeIdx_split (unpFrom st) cE 0 ltac:(lia)) as [Hn|(_ & pre & n & rest & E1 & E2 & E3)]; [lia|].
    split; [exact K0|]. pose proof (spanHas_range _ _ E3) as (R1 & R2 & R3).
    assert (Hn : n = uE).
    { assert (InN : In n IK).
      { unfold unpFrom, from_ in E1. rewrite <- (firstn_skipn (Z.to_nat (upos st)) IK), E1. apply in_or_app. right. apply in_or_app. right. left. reflexivity. }
      apply (spW_unique sD IK W n uE cE InN InE_); lia. }
    subst n. unfold unpFrom, from_ in E2. rewrite skipn_skipn_c in E2.
    destruct (skipn_nth_hd (mkI 0 0 0) _ _ _ _ E2) as [A B]. unfold unpFrom, from_ in *.
    replace (Z.to_nat (upos st + nodeIdx (skipn (Z.to_nat (upos st)) IK) cE 0)) with (Z.to_nat (nodeIdx (skipn (Z.to_nat (upos st)) IK) cE 0 - 0) + Z.to_nat (upos st))%nat by lia.
    split; [unfold len; lia|exact A].
  Qed.

  Theorem q_parseCodeSpan_any f start : istart u0 <= start < iend u0 ->
    parseCodeSpan f st' (sg start) = csMap sg start (parseCodeSpan f st start) /\ CSFacts sD st start (parseCodeSpan f st start).
  Proof.
    intros Hs. pose proof (Ent_u0 start Hs) as He0. pose proof (Ent_in sD sg IK u0 start He0) as Hs0.
    destruct HIR as (Es & Es' & _). unfold parseCodeSpan. rewrite Es, Es', unpFrom_q.
    assert (HR : RR sD sQ sg IK true (newReader sD (unpFrom st) start) (newReader sQ (map (mvS sg) (unpFrom st)) (sg start))).
    { rewrite <- (bsgE_in sD sQ sg SG start) by lia. apply (bRR_new sD sQ sg IK true SG); [apply unpFrom_gsp|apply unpFrom_w|lia|lia| |].
      - intros _. right. left. exists u0. split; [rewrite unpFrom_hd; left; reflexivity|exact Hs].
      - exists (firstn (Z.to_nat (upos st)) IK). unfold unpFrom, from_. symmetry. apply firstn_skipn. }
    assert (HI : InNode (newReader sD (unpFrom st) start)).
    { exists u0. rewrite (curNode_head u0 (from_ IK (upos st + 1))); [reflexivity|apply unpFrom_hd|].
      cbn [newReader r_pos]. destruct u0_gsp as (A & _). apply spanHas_intro; lia. }
    pose proof (q_cs_open sD sQ sg IK SG W f _ _ 0 HR HI) as HO. cbn [newReader r_pos] in HO.
    destruct (cs_open f (newReader sD (unpFrom st) start) 0 start) as [[[[r1 n1] c1]|] c2];
      destruct (cs_open f (newReader sQ (map (mvS sg) (unpFrom st)) (sg start)) 0 (sg start)) as [[[[r1' n1'] c1']|] c2']; cbn [OpenR] in HO; try contradiction.
    - destruct HO as (H1 & HI1 & -> & Ec1 & Ec1' & Ec & Hn1 & (u & Hu & Hlt) & Hc & Hticks).
      pose proof (Ent_unique sD sg IK W _ _ _ Hu He0) as ->.
      pose proof (q_cs_close sD sQ sg IK SG W f r1 r1' n1 H1 HI1) as HC.
      destruct (cs_close f r1 n1) as [ce se]. destruct (cs_close f r1' n1) as [ce' se']. unfold csMap, CSFacts.
      destruct HC as [[A B]|(uE & HuE & Hle & Hse & HtE & Ece & Ese)]; cbn [fst snd] in *.
      + injection A as -> ->. injection B as -> ->. change (-1 <? 0) with true. cbv iota. split; [rewrite Ec1'; reflexivity|]. split; [lia|]. split; [exact Hticks|left; split; reflexivity].
      + pose proof (Ent_in sD sg IK uE ce HuE) as Hce.
        destruct (Z.ltb_spec se 0) as [L|L]; [lia|]. split; [rewrite Ec1', Ece, Ese; reflexivity|]. split; [lia|]. split; [exact Hticks|right].
        destruct (ent_nth uE ce start He0 HuE ltac:(lia)) as (K0 & K1 & K2). cbv zeta in K0, K1, K2.
        unfold CSValid. cbv zeta. rewrite K2. destruct HuE as (_ & (_ & _ & GE & _) & RE).
        repeat split; try assumption; try lia.
    - destruct HO as (u & Hu & Hr & Ec & Hticks). pose proof (Ent_unique sD sg IK W _ _ _ Hu He0) as ->.
      unfold csMap, CSFacts. cbn. split; [f_equal; f_equal; lia|]. split; [lia|]. split; [exact Hticks|left; split; reflexivity].
  Qed.

  (* ---- the fuels ---- *)
  Lemma spW_mvS : forall l, Forall (gsp sD sg IK) l -> spW sD l = true -> spW sQ (map (mvS sg) l) = true.
  Proof.
    induction l as [|i r IH]; intros Gl Wl; [reflexivity|]. inversion Gl as [|? ? Gi Gr]; subst. pose proof (spW_cons _ _ _ Wl) as (A & B & C & D & Wr).
    cbn [map spW]. rewrite (IH Gr Wr), andb_true_r. rewrite istart_mvS, (iend_mvS' sD sg IK (SG_pos _ _ _ SG) i Gi).
    pose proof Gi as (Ga & Gb & Gc & _).
    pose proof (SG_nn _ _ _ SG (istart i) Ga) as N1. pose proof (SG_lt _ _ _ SG (iend i - 1) ltac:(lia)) as N2.
    assert (N3 : sg (istart i) <= sg (iend i - 1)).
    { destruct (Z.eq_dec (istart i) (iend i - 1)) as [->|Ne]; [lia|]. pose proof (SG_mono _ _ _ SG (istart i) (iend i - 1) Ga ltac:(lia)). lia. }
    replace (0 <=? sg (istart i)) with true by (symmetry; apply Z.leb_le; lia).
    replace (sg (istart i) <=? sg (iend i - 1) + 1) with true by (symmetry; apply Z.leb_le; lia).
    replace (sg (iend i - 1) + 1 <=? len sQ) with true by (symmetry; apply Z.leb_le; lia). cbn [andb].
    apply forallb_forall. intros j' Hj'. apply in_map_iff in Hj'. destruct Hj' as (j & <- & Hj). rewrite istart_mvS. apply Z.leb_le.
    specialize (D j Hj). pose proof (SG_mono _ _ _ SG (iend i - 1) (istart j) ltac:(lia) ltac:(lia)). lia.
  Qed.
  Lemma unpFrom_budget : ibudget (unpFrom st) = 0.
  Proof. apply ibudget_unparsed. eapply Forall_impl; [|apply unpFrom_gsp]. intros u (_ & _ & _ & _ & K & _). exact K. Qed.
  Lemma unpFrom_budget_q : ibudget (unpFrom st') = 0.
  Proof.
    rewrite unpFrom_q. apply ibudget_unparsed. apply Forall_forall. intros u' Hu'. apply in_map_iff in Hu'. destruct Hu' as (u & <- & Hu).
    rewrite ikind_mvS. pose proof unpFrom_gsp as X. rewrite Forall_forall in X. destruct (X u Hu) as (_ & _ & _ & _ & K & _). exact K.
  Qed.

  (* 1. parseCodeSpan on the two sides, for all adequate fuels *)
  Theorem q_parseCodeSpan f f' start : istart u0 <= start < iend u0 -> len sD < Z.of_nat f -> len sQ < Z.of_nat f' ->
    parseCodeSpan f' st' (sg start) = csMap sg start (parseCodeSpan f st start) /\ CSFacts sD st start (parseCodeSpan f st start).
  Proof.
    intros Hs Hf Hf'. destruct HIR as (Es & Es' & _).
    destruct (q_parseCodeSpan_any (Nat.max f f') start Hs) as [E F].
    assert (E1 : parseCodeSpan f st start = parseCodeSpan (Nat.max f f') st start).
    { apply (parseCodeSpan_fuel sD); [exact Es|apply unpFrom_w| |]; rewrite unpFrom_budget; lia. }
    assert (E2 : parseCodeSpan f' st' (sg start) = parseCodeSpan (Nat.max f f') st' (sg start)).
    { apply (parseCodeSpan_fuel sQ); [exact Es'|rewrite unpFrom_q; apply spW_mvS; [apply unpFrom_gsp|apply unpFrom_w]| |]; rewrite unpFrom_budget_q; lia. }
    rewrite E1, E2. split; assumption.
  Qed.
  (* ... in particular for the fuels the tokeniser uses *)
  Theorem q_parseCodeSpan_rfuel start : istart u0 <= start < iend u0 ->
    parseCodeSpan (rfuelOf st') st' (sg start) = csMap sg start (parseCodeSpan (rfuelOf st) st start) /\ CSFacts sD st start (parseCodeSpan (rfuelOf st) st start).
  Proof.
    intros Hs. destruct HIR as (Es & Es' & _). apply q_parseCodeSpan; [exact Hs| |]; unfold rfuelOf; [rewrite Es|rewrite Es']; unfold len; lia.
  Qed.

  (* ---- the other forms of the images ---- *)
  (* cS: one past a backtick of the entry of `start`, when the scan moved at all *)
  Lemma csMap_cS start cS : istart u0 <= start -> start < cS <= iend u0 -> sg start + (cS - start) = sg (cS - 1) + 1.
  Proof.
    intros H1 H2. pose proof u0_gsp as (A & B & C & T & _). rewrite (T start), (T (cS - 1)) by lia. lia.
  Qed.
  Lemma csMap_cS_sgE start cS : istart u0 <= start < iend u0 -> start <= cS <= iend u0 -> (forall y, start <= y < cS -> at_ sD y = 96) ->
    sg start + (cS - start) = sgE sD sg cS.
  Proof.
    intros H1 H2 Ht. pose proof u0_gsp as (A & B & C & T & _). destruct (Z.eq_dec cS start) as [->|Ne].
    - rewrite (bsgE_in sD sQ sg SG) by lia. lia.
    - replace cS with ((cS - 1) + 1) at 2 by lia. rewrite (bsgE_succ sD sQ sg SG (cS - 1)) by (try lia; left; rewrite Ht by lia; lia).
      rewrite (T start), (T (cS - 1)) by lia. lia.
  Qed.
  (* a valid result: cS lies inside the entry *)
  Lemma csMap_cS_valid start cS : istart u0 <= start -> start <= cS < iend u0 -> sg start + (cS - start) = sg cS.
  Proof. intros H1 H2. pose proof u0_gsp as (A & B & C & T & _). rewrite (T start), (T cS) by lia. lia. Qed.
End P.

Print Assumptions q_parseCodeSpan.
Print Assumptions q_parseCodeSpan_rfuel.
Print Assumptions q_parseCodeSpan_any.
