From Coq Require Import List ZArith Lia Bool.
Import ListNotations.
Require Import Base Tables Utf8 Tree Rdr Link Collect Html Recog Props.
Require Import Inl3a Inl3e Leaf3e ShapesBase ShapesR ShapesA IS2 IS5a IS8b BndDefs BndRdr.
Open Scope Z_scope.

(* ================================================================== *)
(* BndScan: the link scanners (destination, title, label) cut next to  *)
(* ASCII bytes.                                                        *)
(* ================================================================== *)
Section Scan.
  Variable src : bytes.
  Hypothesis HV : asciiOK src.
  Notation bok := (boundary_ok src).
  Notation QR := (QR src).

  (* the fuel bound: a potential that every successful step decreases *)
  Definition MB (F : Z) (r : reader) : Prop := InNode r -> mu src r < F.
  Lemma MB_current F r : MB F r -> MB F (snd (current r)).
  Proof.
    intros H Hi. rewrite mu_current. apply H. destruct Hi as (n & Hn). destruct (curNode_current r) as [E|E].
    - exists n. rewrite <- E. exact Hn.
    - rewrite E in Hn. exists n. exact Hn.
  Qed.
  Lemma MB_next F r r1 : QR r -> MB F r -> next r = (true, r1) -> MB (F - 1) r1.
  Proof.
    intros HQ H En _. pose proof (next_mu src r r1 (QR_RI src r HQ) En) as Hm.
    destruct (next_true r r1 En) as (node & rest & Ec & _). assert (Hi : InNode r) by (exists node; rewrite Ec; reflexivity).
    specialize (H Hi). lia.
  Qed.
  Lemma MB_weaken F F' r : F <= F' -> MB F r -> MB F' r.
  Proof. intros Hle H Hi. specialize (H Hi). lia. Qed.
  Lemma MB_next' F r : QR r -> MB F r -> MB F (snd (next r)).
  Proof.
    intros HQ H. destruct (next r) as [[|] r1] eqn:En; cbn [snd].
    - apply (MB_weaken (F - 1)); [lia|eapply MB_next; eassumption].
    - intros (n & Hn). destruct (next_false r r1 En) as (E1 & _). rewrite (curNode_nil r1 E1) in Hn. discriminate.
  Qed.

  Lemma cur_real r c : cur r = c -> c <> 0 -> c <> 32 -> c < 128 -> at_ (r_src r) (r_pos r) = c /\ 0 <= r_pos r.
  Proof.
    intros Hc H0 H32 Hlt. destruct (cur_src r c Hc) as (A & B & _); [|split; [exact A|lia]].
    unfold synth. apply orb_false_iff. split; [|apply Z.eqb_neq; lia]. apply orb_false_iff. split; [|apply Z.eqb_neq; lia].
    apply orb_false_iff. split; [|apply Z.eqb_neq; lia]. apply orb_false_iff. split; apply Z.eqb_neq; assumption.
  Qed.
  Lemma current_cur r c r' : current r = (c, r') -> cur r = c /\ r' = snd (current r).
  Proof. intros E. unfold cur. rewrite E. split; reflexivity. Qed.

  (* skipLinkSpace *)
  Lemma failed_pos r r1 : QR r -> next r = (false, r1) -> QR r1 /\ bok (r_pos r1) = true.
  Proof.
    intros HQ En. pose proof (QR_next_false src HV r r1 HQ En) as HQ1. split; [exact HQ1|].
    destruct HQ1 as (_ & _ & [(x & Hx)|Hb]); [|exact Hb]. destruct (next_false r r1 En) as (E1 & _). rewrite (curNode_nil r1 E1) in Hx. discriminate.
  Qed.
  Lemma space_ascii c : isSpaceTabOrLineEnding c = true -> c < 128.
  Proof. unfold isSpaceTabOrLineEnding. intros H. repeat (apply orb_true_iff in H; destruct H as [H|H]); apply Z.eqb_eq in H; lia. Qed.

  Lemma QR_skipLinkSpace_loop F : forall fuel r, QR r -> MB F r -> bok (r_pos r) = true ->
    QR (snd (skipLinkSpace_loop fuel r)) /\ MB F (snd (skipLinkSpace_loop fuel r)) /\ bok (r_pos (snd (skipLinkSpace_loop fuel r))) = true.
  Proof.
    induction fuel as [|f IH]; intros r HQ HM Hb; [split; [exact HQ|split; [exact HM|exact Hb]]|]. cbn [skipLinkSpace_loop].
    pose proof (QR_current src r HQ) as HQ1. pose proof (MB_current F r HM) as HM1. pose proof (current_pos r) as Ep.
    destruct (current r) as [c r1] eqn:Ec. cbn [snd] in *. destruct (current_cur _ _ _ Ec) as (Hc & _).
    destruct (isSpaceTabOrLineEnding c) eqn:Esp; [|cbn [snd]; split; [exact HQ1|split; [exact HM1|rewrite Ep; exact Hb]]].
    pose proof (MB_next' F r1 HQ1 HM1) as HM2.
    destruct (next r1) as [[|] r2] eqn:En; cbn [snd] in *.
    - apply IH; [eapply QR_next_true; eassumption|exact HM2|].
      apply (next_good src HV r1 r2 HQ1 En). rewrite Ep. apply (cur_ascii src r c HQ Hc). apply space_ascii, Esp.
    - destruct (failed_pos r1 r2 HQ1 En) as [G1 G2]. split; [exact G1|split; [exact HM2|exact G2]].
  Qed.
  Lemma QR_skipLinkSpace F fuel r : QR r -> MB F r -> bok (r_pos r) = true ->
    QR (snd (skipLinkSpace fuel r)) /\ MB F (snd (skipLinkSpace fuel r)) /\ bok (r_pos (snd (skipLinkSpace fuel r))) = true.
  Proof.
    intros HQ HM Hb. unfold skipLinkSpace. pose proof (QR_current src r HQ) as HQ1. pose proof (MB_current F r HM) as HM1. pose proof (current_pos r) as Ep.
    destruct (current r) as [c r1]. cbn [snd] in *. destruct (c =? 0); [cbn [snd]; split; [exact HQ1|split; [exact HM1|rewrite Ep; exact Hb]]|].
    apply QR_skipLinkSpace_loop; try assumption. rewrite Ep. exact Hb.
  Qed.

  (* results of the form ((start, after the terminator), (start + 1, the terminator), reader) *)
  Definition resGood (res : (Z * Z) * (Z * Z) * reader) : Prop :=
    QR (snd res) /\
    (spanValid (fst (fst res)) = true ->
       bok (fst (fst (fst res))) = true /\ bok (snd (fst (fst res))) = true /\
       bok (fst (snd (fst res))) = true /\ bok (snd (snd (fst res))) = true).
  Lemma resGood_null tx r : QR r -> resGood (nullSpan, tx, r).
  Proof. intros H. split; [exact H|]. cbn. discriminate. Qed.

  (* the reader stands on the terminator (an ASCII byte) it has just been stepped onto *)
  Lemma term_good r0 r c r3 ok start : QR r0 -> InNode r0 -> r = snd (current r0) -> cur r0 = c -> c <> 0 -> c <> 32 -> c < 128 ->
    next r = (ok, r3) -> bok start = true -> bok (start + 1) = true ->
    resGood ((start, r_prev r3 + 1), (start + 1, r_prev r3), r3).
  Proof.
    intros HQ0 Hi Er Hc H0 H32 Hlt En Hs Hs1.
    pose proof (QR_current src r0 HQ0) as HQ. rewrite <- Er in HQ.
    assert (Hi' : InNode r) by (rewrite Er; apply InNode_current, Hi).
    destruct (cur_real r0 c Hc H0 H32 Hlt) as (Ha & Hp). rewrite (proj1 (QR_RI src r0 HQ0)) in Ha.
    pose proof (next_prev_in r ok r3 Hi' En) as Epv. rewrite Er, current_pos in Epv.
    split; [cbn [snd]; pose proof (QR_next src HV r HQ) as H; rewrite En in H; exact H|].
    cbn [fst snd]. intros _. rewrite Epv. repeat split; try assumption.
    - apply (bok_after src _ c HV); [replace (r_pos r0 + 1 - 1) with (r_pos r0) by lia; exact Ha|exact H0|exact Hlt].
    - apply (bok_byte src _ c Ha Hlt).
  Qed.

  Lemma ld_angle_good : forall fuel r start, QR r -> bok start = true -> bok (start + 1) = true -> resGood (ld_angle fuel r start).
  Proof.
    induction fuel as [|f IH]; intros r start HQ Hs Hs1; [apply resGood_null, HQ|]. cbn [ld_angle].
    pose proof (QR_next src HV r HQ) as HQ1. destruct (next r) as [ok r1] eqn:En. cbn [snd] in HQ1.
    destruct ok; cbn [negb]; [|apply resGood_null, HQ1].
    destruct (next_step src r r1 (QR_RI src r HQ) En) as (_ & Hi1 & _).
    pose proof (QR_current src r1 HQ1) as HQ2. destruct (current r1) as [c r2] eqn:Ec. cbn [snd] in HQ2.
    destruct (current_cur _ _ _ Ec) as (Hc & Er2).
    destruct ((c =? 13) || (c =? 10)); [apply resGood_null, HQ2|].
    destruct (Z.eqb_spec c 92).
    { pose proof (QR_next src HV r2 HQ2) as HQ3. destruct (next r2) as [ok2 r3]. cbn [snd] in HQ3.
      destruct ok2; cbn [negb]; [|apply resGood_null, HQ3].
      pose proof (QR_current src r3 HQ3) as HQ4. destruct (current r3) as [c2 r4]. cbn [snd] in HQ4.
      destruct ((c2 =? 10) || (c2 =? 13)); [apply resGood_null, HQ4|apply IH; assumption]. }
    destruct (Z.eqb_spec c 62) as [E62|N62]; [|apply IH; assumption].
    destruct (next r2) as [ok3 r3] eqn:En3.
    apply (term_good r1 r2 62 r3 ok3 start HQ1 Hi1 Er2); try assumption; try lia; try congruence.
  Qed.

  Lemma ld_bare_good : forall fuel r paren F, QR r -> MB F r -> F <= Z.of_nat fuel ->
    QR (ld_bare fuel r paren) /\ bok (r_pos (ld_bare fuel r paren)) = true.
  Proof.
    induction fuel as [|f IH]; intros r paren F HQ HM HF.
    { cbn [ld_bare]. split; [exact HQ|]. destruct HQ as (A & _ & [Hi|Hb]); [|exact Hb].
      pose proof (mu_nonneg src r A Hi). specialize (HM Hi). lia. }
    cbn [ld_bare].
    pose proof (QR_current src r HQ) as HQ1. pose proof (MB_current F r HM) as HM1.
    destruct (current r) as [c r1] eqn:Ec. cbn [snd] in *. destruct (current_cur _ _ _ Ec) as (Hc & Er1).
    assert (Hat : c < 128 -> bok (r_pos r1) = true).
    { intros Hlt. rewrite Er1, current_pos. apply bok_at. apply (cur_ascii src r c HQ Hc Hlt). }
    assert (Hstep : forall rr, QR rr -> MB F rr -> forall p,
              QR (let '(ok, r2) := next rr in if ok then ld_bare f r2 p else r2) /\
              bok (r_pos (let '(ok, r2) := next rr in if ok then ld_bare f r2 p else r2)) = true).
    { intros rr HQr HMr p. destruct (next rr) as [[|] r2] eqn:En.
      - apply (IH r2 p (F - 1)); [eapply QR_next_true; eassumption|eapply MB_next; eassumption|lia].
      - pose proof (QR_next_false src HV rr r2 HQr En) as HQ2. split; [exact HQ2|].
        destruct HQ2 as (_ & _ & [(x & Hx)|Hb]); [|exact Hb]. destruct (next_false rr r2 En) as (E1 & _). rewrite (curNode_nil r2 E1) in Hx. discriminate. }
    destruct (isASCIIControl c || (c =? 32)) eqn:Ectl.
    { split; [exact HQ1|]. apply Hat. unfold isASCIIControl in Ectl. apply orb_true_iff in Ectl. destruct Ectl as [E|E].
      - apply orb_true_iff in E. destruct E as [E|E]; [apply Z.leb_le in E; lia|apply Z.eqb_eq in E; lia].
      - apply Z.eqb_eq in E. lia. }
    destruct (c =? 92).
    { destruct (next r1) as [[|] r2] eqn:En; cbn [negb].
      - pose proof (QR_next_true src r1 r2 HQ1 En) as HQ2. pose proof (MB_next F r1 r2 HQ1 HM1 En) as HM2.
        pose proof (QR_current src r2 HQ2) as HQ3. pose proof (MB_current _ r2 HM2) as HM3. pose proof (current_pos r2) as Ep3.
        destruct (current r2) as [c2 r3] eqn:Ec2. cbn [snd] in *. destruct (current_cur _ _ _ Ec2) as (Hc2 & Er3).
        destruct (isASCIIControl c2 || (c2 =? 32)) eqn:Ectl2.
        { split; [exact HQ3|]. rewrite Ep3. apply bok_at. apply (cur_ascii src r2 c2 HQ2 Hc2).
          unfold isASCIIControl in Ectl2. apply orb_true_iff in Ectl2. destruct Ectl2 as [E|E].
          - apply orb_true_iff in E. destruct E as [E|E]; [apply Z.leb_le in E; lia|apply Z.eqb_eq in E; lia].
          - apply Z.eqb_eq in E. lia. }
        destruct (next r3) as [[|] r4] eqn:En4.
        + apply (IH r4 paren (F - 1 - 1)); [eapply QR_next_true; eassumption|eapply MB_next; eassumption|lia].
        + pose proof (QR_next_false src HV r3 r4 HQ3 En4) as HQ4. split; [exact HQ4|].
          destruct HQ4 as (_ & _ & [(x & Hx)|Hb]); [|exact Hb]. destruct (next_false r3 r4 En4) as (E1 & _). rewrite (curNode_nil r4 E1) in Hx. discriminate.
      - pose proof (QR_next_false src HV r1 r2 HQ1 En) as HQ2. split; [exact HQ2|].
        destruct HQ2 as (_ & _ & [(x & Hx)|Hb]); [|exact Hb]. destruct (next_false r1 r2 En) as (E1 & _). rewrite (curNode_nil r2 E1) in Hx. discriminate. }
    destruct (c =? 40); [apply Hstep; assumption|].
    destruct (Z.eqb_spec c 41) as [E41|N41]; [|apply Hstep; assumption].
    destruct (paren - 1 <? 0); [|apply Hstep; assumption]. split; [exact HQ1|apply Hat; lia].
  Qed.

  Lemma parseLinkDestination_good fuel r F : QR r -> MB F r -> F <= Z.of_nat fuel -> bok (r_pos r) = true ->
    resGood (parseLinkDestination fuel r).
  Proof.
    intros HQ HM HF Hb. unfold parseLinkDestination.
    pose proof (QR_current src r HQ) as HQ1. pose proof (MB_current F r HM) as HM1.
    destruct (current r) as [c r0] eqn:Ec. cbn [snd] in *. destruct (current_cur _ _ _ Ec) as (Hc & Er0).
    destruct (Z.eqb_spec c 60) as [E60|N60].
    { destruct (cur_real r c Hc ltac:(lia) ltac:(lia) ltac:(lia)) as (Ha & Hp). rewrite (proj1 (QR_RI src r HQ)) in Ha.
      apply ld_angle_good; [exact HQ1| |].
      - rewrite Er0, current_pos. exact Hb.
      - rewrite Er0, current_pos. apply (bok_after src _ c HV); [replace (r_pos r + 1 - 1) with (r_pos r) by lia; exact Ha|lia|lia]. }
    destruct (negb (isASCIIControl c) && negb (c =? 32) && negb (c =? 41)) eqn:Eok; [|apply resGood_null, HQ1].
    destruct (ld_bare_good fuel r0 0 F HQ1 HM1 HF) as [G1 G2].
    split; [exact G1|]. cbn [fst snd]. intros _.
    assert (Hs : bok (r_pos r0) = true) by (rewrite Er0, current_pos; exact Hb).
    repeat split; assumption.
  Qed.

  (* parseLinkTitle *)
  Lemma lt_loop_good : forall fuel r start term, QR r -> bok start = true -> bok (start + 1) = true ->
    term <> 0 -> term <> 32 -> term < 128 -> resGood (lt_loop fuel r start term).
  Proof.
    induction fuel as [|f IH]; intros r start term HQ Hs Hs1 T0 T32 Tlt; [apply resGood_null, HQ|]. cbn [lt_loop].
    pose proof (QR_next src HV r HQ) as HQ1. destruct (next r) as [ok r1] eqn:En. cbn [snd] in HQ1.
    destruct ok; cbn [negb]; [|apply resGood_null, HQ1].
    destruct (next_step src r r1 (QR_RI src r HQ) En) as (_ & Hi1 & _).
    pose proof (QR_current src r1 HQ1) as HQ2. destruct (current r1) as [c r2] eqn:Ec. cbn [snd] in HQ2.
    destruct (current_cur _ _ _ Ec) as (Hc & Er2).
    destruct (c =? 92).
    { pose proof (QR_next src HV r2 HQ2) as HQ3. destruct (next r2) as [ok2 r3]. cbn [snd] in HQ3.
      destruct ok2; cbn [negb]; [apply IH; assumption|apply resGood_null, HQ3]. }
    destruct (Z.eqb_spec c term) as [Et|Nt]; [|apply IH; assumption].
    destruct (next r2) as [ok3 r3] eqn:En3.
    apply (term_good r1 r2 term r3 ok3 start HQ1 Hi1 Er2); try assumption; try congruence.
  Qed.
  Lemma parseLinkTitle_good fuel r : QR r -> resGood (parseLinkTitle fuel r).
  Proof.
    intros HQ. unfold parseLinkTitle.
    pose proof (QR_current src r HQ) as HQ1. destruct (current r) as [c r0] eqn:Ec. cbn [snd] in *. destruct (current_cur _ _ _ Ec) as (Hc & Er0).
    destruct ((c =? 39) || (c =? 34) || (c =? 40)) eqn:Eq; cbn [negb]; [|apply resGood_null, HQ1].
    assert (Hcc : c = 39 \/ c = 34 \/ c = 40).
    { repeat (apply orb_true_iff in Eq; destruct Eq as [Eq|Eq]); apply Z.eqb_eq in Eq; tauto. }
    destruct (cur_real r c Hc ltac:(lia) ltac:(lia) ltac:(lia)) as (Ha & Hp). rewrite (proj1 (QR_RI src r HQ)) in Ha.
    apply lt_loop_good; [exact HQ1| | | | |].
    - rewrite Er0, current_pos. apply (bok_byte src _ c Ha). lia.
    - rewrite Er0, current_pos. apply (bok_after src _ c HV); [replace (r_pos r + 1 - 1) with (r_pos r) by lia; exact Ha|lia|lia].
    - destruct (c =? 40); lia.
    - destruct (c =? 40); lia.
    - destruct (c =? 40); lia.
  Qed.

  (* parseLinkLabel *)
  Lemma cur_indent r node r' : QR r -> curNode r = (Some node, r') -> ikind node = IndentKind -> cur r = 32.
  Proof.
    intros ((Es & Hok) & _ & _) Ec Hk.
    destruct (curNode_cases r) as [E|(pre & n & rest & Epre & E & E3)]; rewrite E in Ec; [discriminate|]. inversion Ec; subst n.
    rewrite Epre in Hok. apply spOK_app_r in Hok. pose proof (spOK_iend _ _ _ Hok) as Hi. pose proof (spanHas_range _ _ E3) as (R1 & R2 & R3).
    unfold cur, current. rewrite Es. replace (len src <=? r_pos r) with false by (symmetry; apply Z.leb_gt; lia).
    rewrite E. cbn [okind]. rewrite Hk. reflexivity.
  Qed.
  Lemma step_after r r1 c : QR r -> next r = (true, r1) -> cur r = c -> isSpaceTabOrLineEnding c = false ->
    bok (r_pos r + 1) = true \/ r_pos r + 1 = r_pos r1.
  Proof.
    intros HQ En Hc Hns. destruct (next_true r r1 En) as (node & rest & Ec & Hh & (pre & Epre) & _ & _ & Hcase).
    assert (Hni : ikind node <> IndentKind).
    { intros Hk. rewrite (cur_indent r node _ HQ Ec Hk) in Hc. subst c. discriminate. }
    destruct Hcase as [(Ek & _)|[(_ & Ep & _)|(pre' & j & rest' & Er & _ & _ & Ecase)]]; [contradiction|right; lia|left].
    destruct Ecase as [Ek|Ee]; [contradiction|]. pose proof (spanHas_range _ _ Hh) as (R1 & R2 & R3).
    replace (r_pos r + 1) with (iend node) by lia. apply gsp_end. apply (proj1 (proj2 HQ)). rewrite Epre. apply in_or_app. right. left. reflexivity.
  Qed.

  Lemma ll_skip_good : forall fuel r chars r' ch', QR r -> at_ src (r_pos r) < 128 -> ll_skip fuel r chars = Some (r', ch') ->
    QR r' /\ bok (r_pos r') = true.
  Proof.
    induction fuel as [|f IH]; intros r chars r' ch' HQ Ha H; [discriminate|]. cbn [ll_skip] in H.
    destruct (next r) as [[|] r1] eqn:En; cbn [negb] in H; [|discriminate].
    pose proof (QR_next_true src r r1 HQ En) as HQ1. pose proof (next_good src HV r r1 HQ En Ha) as Hb1.
    pose proof (QR_current src r1 HQ1) as HQ2. pose proof (current_pos r1) as Ep2.
    destruct (current r1) as [c r2] eqn:Ec. cbn [snd] in *. destruct (current_cur _ _ _ Ec) as (Hc & _).
    destruct (_ || _ || _); [discriminate|].
    destruct (isSpaceTabOrLineEnding c) eqn:Esp; cbn [negb] in H.
    - eapply (IH r2); [exact HQ2| |exact H]. rewrite Ep2. apply (cur_ascii src r1 c HQ1 Hc). apply space_ascii, Esp.
    - inversion H; subst. split; [exact HQ2|]. rewrite Ep2. exact Hb1.
  Qed.

  Lemma ll_body_good : forall fuel r chars ie r' ie', QR r -> (bok ie = true \/ ie = r_pos r) ->
    ll_body fuel r chars ie = Some (r', ie') -> QR r' /\ (bok ie' = true \/ ie' = r_pos r').
  Proof.
    induction fuel as [|f IH]; intros r chars ie r' ie' HQ Hie H; [discriminate|]. cbn [ll_body] in H.
    pose proof (QR_current src r HQ) as HQ1. pose proof (current_pos r) as Ep1. pose proof (cur_current r) as Ecc.
    destruct (current r) as [c r1] eqn:Ec. cbn [snd] in *. destruct (current_cur _ _ _ Ec) as (Hc & _).
    destruct (negb ((chars <? maxChars) && negb (c =? 91) && negb (c =? 93))).
    { inversion H; subst. split; [exact HQ1|]. rewrite Ep1. exact Hie. }
    assert (Hsp : isSpaceTabOrLineEnding c = true -> bok ie = true).
    { intros Esp. destruct Hie as [X|X]; [exact X|]. rewrite X. apply bok_at. apply (cur_ascii src r c HQ Hc). apply space_ascii, Esp. }
    destruct (Z.eqb_spec c 92) as [E92|N92].
    - destruct (cur_real r c Hc ltac:(lia) ltac:(lia) ltac:(lia)) as (Ha & Hp). rewrite (proj1 (QR_RI src r HQ)) in Ha.
      assert (Hg1 : bok (r_pos r1 + 1) = true).
      { rewrite Ep1. apply (bok_after src _ c HV); [replace (r_pos r + 1 - 1) with (r_pos r) by lia; exact Ha|lia|lia]. }
      destruct (next r1) as [[|] r2] eqn:En; cbn [negb] in H; [|discriminate].
      pose proof (QR_next_true src r1 r2 HQ1 En) as HQ2.
      pose proof (QR_current src r2 HQ2) as HQ3. pose proof (current_pos r2) as Ep3. pose proof (cur_current r2) as Ecc3.
      destruct (current r2) as [c2 r3] eqn:Ec2. cbn [snd] in *. destruct (current_cur _ _ _ Ec2) as (Hc2 & _).
      destruct (next r3) as [[|] r4] eqn:En4; cbn [negb] in H; [|discriminate].
      eapply (IH r4); [eapply QR_next_true; eassumption| |exact H].
      destruct (isSpaceTabOrLineEnding c2) eqn:Esp2; cbn [negb]; [left; exact Hg1|].
      apply (step_after r3 r4 c2 HQ3 En4); [rewrite Ecc3; exact Hc2|exact Esp2].
    - destruct (next r1) as [[|] r2] eqn:En; cbn [negb] in H; [|discriminate].
      eapply (IH r2); [eapply QR_next_true; eassumption| |exact H].
      destruct (isSpaceTabOrLineEnding c) eqn:Esp; cbn [negb]; [left; apply Hsp; reflexivity|].
      apply (step_after r1 r2 c HQ1 En); [rewrite Ecc; exact Hc|exact Esp].
  Qed.

  Lemma parseLinkLabel_good fuel r : QR r -> resGood (parseLinkLabel fuel r).
  Proof.
    intros HQ. unfold parseLinkLabel.
    pose proof (QR_current src r HQ) as HQ0. pose proof (current_pos r) as Ep0.
    destruct (current r) as [c r0] eqn:Ec. cbn [snd] in *. destruct (current_cur _ _ _ Ec) as (Hc & _).
    destruct (Z.eqb_spec c 91) as [E91|N91]; cbn [negb]; [|apply resGood_null, HQ0].
    destruct (cur_real r c Hc ltac:(lia) ltac:(lia) ltac:(lia)) as (Ha & Hp). rewrite (proj1 (QR_RI src r HQ)) in Ha.
    destruct (ll_skip fuel r0 0) as [[r1 chars]|] eqn:Esk; [|apply resGood_null, HQ0].
    assert (Ha0 : at_ src (r_pos r0) < 128) by (rewrite Ep0, Ha; lia).
    destruct (ll_skip_good fuel r0 0 r1 chars HQ0 Ha0 Esk) as [HQ1 Hb1].
    destruct (ll_body fuel r1 chars (-1)) as [[r2 ie]|] eqn:Ebd; [|apply resGood_null, HQ1].
    assert (Hie0 : bok (-1) = true \/ -1 = r_pos r1) by (left; apply bok_neg; lia).
    destruct (ll_body_good fuel r1 chars (-1) r2 ie HQ1 Hie0 Ebd) as [HQ2 Hie].
    pose proof (QR_current src r2 HQ2) as HQ3. pose proof (current_pos r2) as Ep3.
    destruct (current r2) as [c2 r3] eqn:Ec2. cbn [snd] in *. destruct (current_cur _ _ _ Ec2) as (Hc2 & _).
    destruct (Z.eqb_spec c2 93) as [E93|N93]; cbn [negb]; [|apply resGood_null, HQ3].
    destruct (cur_real r2 c2 Hc2 ltac:(lia) ltac:(lia) ltac:(lia)) as (Ha2 & Hp2). rewrite (proj1 (QR_RI src r2 HQ2)) in Ha2.
    pose proof (QR_next src HV r3 HQ3) as HQ4. destruct (next r3) as [ok4 r4]. cbn [snd] in HQ4.
    split; [exact HQ4|]. cbn [fst snd]. intros _. repeat split.
    - rewrite Ep0. apply (bok_byte src _ c Ha). lia.
    - rewrite Ep3. apply (bok_after src _ c2 HV); [replace (r_pos r2 + 1 - 1) with (r_pos r2) by lia; exact Ha2|lia|lia].
    - exact Hb1.
    - destruct Hie as [X|X]; [exact X|]. rewrite X. apply (bok_byte src _ c2 Ha2). lia.
  Qed.
End Scan.
