From Coq Require Import List ZArith Lia Bool.
Import ListNotations.
Require Import Base Tables Utf8 Tree Rdr Link Collect Html Recog Inl3a.
Open Scope Z_scope.

(* emphasisFlags (inlines.go:1322) *)
Definition emphasisFlags (src : bytes) (s e : Z) : Z :=
  let prevChar := if 0 <? s then fst (decodeLastRune (upto src s)) else 32 in
  let nextChar := if e <? len src then fst (decodeRune (from_ src e)) else 32 in
  let lf := negb (isUnicodeWhitespace nextChar) &&
            (negb (isUnicodePunctuation nextChar) || isUnicodeWhitespace prevChar || isUnicodePunctuation prevChar) in
  let rf := negb (isUnicodeWhitespace prevChar) &&
            (negb (isUnicodePunctuation prevChar) || isUnicodeWhitespace nextChar || isUnicodePunctuation nextChar) in
  let star := at_ src s =? 42 in
  (if lf && (star || negb rf || isUnicodePunctuation prevChar) then fOpener else 0) +
  (if rf && (star || negb lf || isUnicodePunctuation nextChar) then fCloser else 0).

(* parseHardLineBreakSpace (inlines.go:1933): (end, isHard) *)
Fixpoint hlb_rest (l : bytes) (i : Z) : Z * bool :=
  match l with
  | [] => (i, true)
  | c :: r => if (c =? 32) || (c =? 10) || (c =? 13) then hlb_rest r (i + 1) else (i, false)
  end.
Definition parseHardLineBreakSpace (rem : bytes) : Z * bool :=
  match rem with
  | 32 :: 32 :: r => hlb_rest r 2
  | 32 :: _ :: _ => (1, false)
  | 32 :: [] => (1, false)
  | _ => (0, false)
  end.

(* parseEmail / parseDomainLabel / parseAutolink (inlines.go:1600-1695) *)
Definition isEmailLocal (c : Z) : bool :=
  isASCIILetter c || isASCIIDigit c ||
  existsb (Z.eqb c) [46;33;35;36;37;38;39;42;43;47;61;63;94;95;96;123;124;125;126;45].
Definition isLabelChar (c : Z) := isASCIILetter c || isASCIIDigit c || (c =? 45).
Fixpoint dl_run (fuel : nat) (t : bytes) (e : Z) : Z :=
  match fuel with
  | O => e
  | S f => if (e <? 63) && (e <? len t) && isLabelChar (at_ t e) then dl_run f t (e + 1) else e
  end.
Definition parseDomainLabel (t : bytes) : Z :=
  if (len t <=? 0) || negb (isASCIILetter (at_ t 0) || isASCIIDigit (at_ t 0)) then -1 else
  let e := dl_run 64 t 1 in
  if at_ t (e - 1) =? 45 then -1 else
  if (e <? len t) && isLabelChar (at_ t e) then -1 else e.
Fixpoint em_labels (fuel : nat) (t : bytes) (e : Z) : Z :=
  match fuel with
  | O => e
  | S f =>
    if (e <? len t) && (at_ t e =? 46) then
      let n := parseDomainLabel (from_ t (e + 1)) in
      if n <? 0 then -1 else em_labels f t (e + 1 + n)
    else e
  end.
Definition parseEmail (t : bytes) : Z :=
  let e := countWhile isEmailLocal t in
  if e =? 0 then -1 else
  if (len t <=? e) || negb (at_ t e =? 64) then -1 else
  let e := e + 1 in
  let fl := parseDomainLabel (from_ t e) in
  if fl <? 0 then -1 else em_labels (S (length t)) t (e + fl).

Definition isSchemeChar (c : Z) := isASCIILetter c || isASCIIDigit c || (c =? 43) || (c =? 46) || (c =? 45).
Fixpoint al_uri (l : bytes) (e : Z) : Z :=
  match l with
  | [] => -1
  | c :: r => if c =? 62 then e + 1 else if isASCIIControl c || (c =? 32) || (c =? 60) then -1 else al_uri r (e + 1)
  end.
Definition parseAutolink (t : bytes) : Z :=
  if (len t <? 5) || negb (at_ t 0 =? 60) then -1 else
  let ee := parseEmail (from_ t 1) in
  if (0 <=? ee) && (1 + ee <? len t) && (at_ t (1 + ee) =? 62) then 2 + ee else
  if negb (isASCIILetter (at_ t 1)) then -1 else
  let e := 2 + countWhile isSchemeChar (from_ t 2) in
  if (e <? 3) || (33 <? e) then -1 else
  if (len t <=? e) || negb (at_ t e =? 58) then -1 else
  al_uri (from_ t (e + 1)) (e + 1).

(* parseCodeSpan (inlines.go:1435): (spanStart, spanEnd, contentStart, contentEnd) ; spanEnd = -1 when unterminated *)
Fixpoint cs_open (fuel : nat) (r : reader) (n : Z) (cstart : Z) : option (reader * Z * Z) * Z :=
  (* count opening backticks; None = input ended inside/after the run *)
  match fuel with
  | O => (None, cstart)
  | S f =>
    if cur r =? 96 then
      let '(ok, r1) := next (snd (current r)) in
      if negb ok then (None, r_pos r1) else cs_open f r1 (n + 1) (r_pos r1)
    else (Some (r, n, cstart), cstart)
  end.
Fixpoint cs_run (fuel : nat) (r : reader) (k : Z) : reader * Z * bool :=   (* r.next() && current=='`' loop *)
  match fuel with
  | O => (r, k, false)
  | S f =>
    let '(ok, r1) := next r in
    if negb ok then (r1, k, false) else
    if cur r1 =? 96 then cs_run f (snd (current r1)) (k + 1) else (snd (current r1), k, true)
  end.
Fixpoint cs_close (fuel : nat) (r : reader) (blen : Z) : Z * Z :=   (* (contentEnd, spanEnd) or (-1,-1) *)
  match fuel with
  | O => (-1, -1)
  | S f =>
    if negb (cur r =? 96) then
      let '(ok, r1) := next (snd (current r)) in if negb ok then (-1, -1) else cs_close f r1 blen
    else
      let potentialEnd := r_pos r in
      let '(r1, k, alive) := cs_run fuel (snd (current r)) 1 in
      if k =? blen then (potentialEnd, r_prev r1 + 1) else
      let '(ok, r2) := next r1 in if negb ok then (-1, -1) else cs_close f r2 blen
  end.
Definition parseCodeSpan (fuel : nat) (st : ist) (start : Z) : Z * Z * Z :=   (* contentStart, contentEnd, spanEnd *)
  let r := newReader (isrc st) (unpFrom st) start in
  match cs_open fuel r 0 start with
  | (None, cstart) => (cstart, -1, -1)
  | (Some (r1, n, cstart), _) => let '(ce, se) := cs_close fuel r1 n in (cstart, ce, se)
  end.
