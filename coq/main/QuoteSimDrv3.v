(* QuoteSimDrv3.v -- T51: the quoted run as a line loop under the open quote; blank lines, the end of input, the first line. *)
From Coq Require Import List ZArith Lia Bool Arith.
Import ListNotations.
Require Import Base Tree Rdr Link Collect Html Recog LP Rules Starts Driver Cursor CursorX Rec16 Rec17 Rec18 L2Kind L2CC NoPanic47 StreamFuel SliceBase SlicePara
  QuoteSimDefs QuoteSimTree QuoteSimNest QuoteSimQLine QuoteSimMap QuoteSimFuel QuoteSimReloc QuoteSimAux QuoteSimLines QuoteSimDrv1 QuoteSimDrv2.
Require BlankPrefix L2BndS.
Open Scope Z_scope.

Definition skel : block := Blk BlockQuoteKind 0 (-1) [] [] 0 0 0 false false.

Section QRun.
  Variable Q : bytes.
  Definition QS (lsq : Z) : bpst := {| buf := Q; bi := lineEnd Q lsq; boff := 0; bline := 1; pending := [] |}.
  Definition QL (f : nat) (stQ : Z) (bq : block) (lsq : Z) : nb := lineLoop f stQ [bq] lsq (QS lsq).

  Lemma QL_step f stQ bq lsq bq' st' :
    processLine stQ [bq] lsq (upto Q (lineEnd Q lsq)) = ([bq'], st', 0) -> isOpen bq' = true ->
    QL (S f) stQ bq lsq = QL f st' bq' (lineEnd Q lsq).
  Proof.
    intros E Ho. unfold QL. cbn [lineLoop]. cbn [buf bi QS]. rewrite E. change (negb (0 =? 0)) with false. cbv iota.
    unfold makeRoot. rewrite Ho. reflexivity.
  Qed.
  Definition qroot (b : block) : rootB :=
    {| rb_line := 1; rb_start := 0; rb_end := 0 + unpadded (upto Q (bend b)); rb_src := fillNulls (upto Q (bend b)); rb_blk := b |}.
  Definition qend (lsq : Z) (b : block) : bpst :=
    {| buf := from_ Q (bend b); bi := lineEnd Q lsq - bend b; boff := 0 + unpadded (upto Q (bend b));
       bline := 1 + lineCount (upto Q (bend b)); pending := [] |}.
  Lemma QL_fin f stQ bq lsq bq' st' :
    processLine stQ [bq] lsq (upto Q (lineEnd Q lsq)) = ([bq'], st', 0) -> isOpen bq' = false ->
    QL (S f) stQ bq lsq = NBBlock (qroot bq') (qend lsq bq').
  Proof.
    intros E Ho. unfold QL. cbn [lineLoop]. cbn [buf bi QS]. rewrite E. change (negb (0 =? 0)) with false. cbv iota.
    unfold makeRoot. rewrite Ho. reflexivity.
  Qed.
End QRun.

(* ---- the first line: the quote is opened by the line itself ---- *)
(* (stated for fuel S f: with fuel 0 both sides return their argument, and these differ in the state) *)
Lemma opening_loop_state f p s : guardO p = true -> opening_loop (S f) (withState p s) = opening_loop (S f) p.
Proof.
  intros Hg. cbn [opening_loop]. change (containerKind (withState p s)) with (containerKind p). unfold guardO in Hg. rewrite Hg.
  rewrite (tryStarts_state blockStarts p s blockStarts_ne). reflexivity.
Qed.

Lemma first_line src rest : from_ src 0 = 62 :: 32 :: rest -> noTabL (62 :: 32 :: rest) ->
  processLine 0 [] 0 src = processLine 0 [skel] 0 src.
Proof.
  intros Hl Ht. rewrite !processLine_tail. unfold processTail.
  rewrite (descend_quote 0 skel 0 src rest Hl eq_refl eq_refl).
  set (q1 := {| source := src; root := Blk documentKind 0 (-1) [skel] [] 0 0 0 false false; container := Some 1%nat; lineStart := 0;
                line := 62 :: 32 :: rest; li := 2; col := 2; tabRem := computeTabRem (62 :: 32 :: rest) 2 2; state := stDescending; panicked := 0 |}).
  change (bheight skel) with 1%nat. change (descend_loop 1 q1 1) with (true, q1). cbv beta iota zeta.
  change (state q1) with stDescending. change (stDescending =? stDescendTerminated) with false. cbn [negb].
  set (p0 := resetLP 0 [] 0 src). unfold descendOpenBlocks. change (descend_loop (bheight (root p0)) p0 0) with (true, withCont p0 (Some O)). cbv beta iota zeta.
  change (state (withCont p0 (Some O))) with 0. change (0 =? stDescendTerminated) with false. cbn [negb].
  unfold openNewBlocks. change (line (withCont p0 (Some O))) with (from_ src 0). change (line q1) with (62 :: 32 :: rest). rewrite Hl.
  pose proof (len2_pos 62 32 rest) as Hlen.
  destruct (Z.eqb_spec (len (62 :: 32 :: rest)) 0) as [E0|_]; [lia|].
  (* the first block start of the plain run opens the quote *)
  assert (Et : tryStarts blockStarts (withCont p0 (Some O)) = (true, withState q1 stOpenMatched)).
  { unfold blockStarts. cbn [tryStarts]. cbv zeta.
    set (p := withState (withCont p0 (Some O)) stOpening).
    assert (Ep : startBlockQuote p = withState q1 stOpenMatched).
    { unfold startBlockQuote. cbv zeta.
      assert (Ei : indent p = 0).
      { unfold indent, p, p0, resetLP. cbn [line li withState withCont setLP]. rewrite Hl. destruct (Z.leb_spec (len (62 :: 32 :: rest)) 0) as [L|L]; [lia|]. reflexivity. }
      rewrite Ei. change (codeBlockIndentLimit <=? 0) with false. cbv iota.
      assert (Eb : bytesAfterIndent p = 62 :: 32 :: rest) by (unfold bytesAfterIndent, LP.rest, p, p0, resetLP; cbn [line li withState withCont setLP]; rewrite Hl; reflexivity).
      rewrite Eb. change (hasBytePrefix (62 :: 32 :: rest) [62]) with true. cbn [negb]. rewrite consumeIndent_zero.
      set (p2 := openBlock p BlockQuoteKind).
      assert (E2 : p2 = {| source := src; root := Blk documentKind 0 (-1) [skel] [] 0 0 0 false false; container := Some 1%nat; lineStart := 0;
                          line := 62 :: 32 :: rest; li := 0; col := 0; tabRem := computeTabRem (62 :: 32 :: rest) 0 0; state := stOpenMatched; panicked := 0 |}).
      { unfold p2, p, p0, resetLP. rewrite Hl. reflexivity. }
      change (let p3 := advance p2 1 in if 0 <? indent p3 then consumeIndent p3 1 else p3) with
        (let p3 := advance (consumeIndent p2 0) 1 in if 0 <? indent p3 then consumeIndent p3 1 else p3) || idtac.
      pose proof (eatQuote_gen p2 rest ltac:(rewrite E2; reflexivity) ltac:(rewrite E2; reflexivity) ltac:(rewrite E2; reflexivity) ltac:(rewrite E2; reflexivity)) as Eq.
      unfold eatQuoteMarker in Eq. cbv zeta in Eq. rewrite consumeIndent_zero in Eq. rewrite Eq. rewrite E2. reflexivity. }
    rewrite Ep. reflexivity. }
  cbn [opening_loop]. change (containerKind (withCont p0 (Some O))) with documentKind.
  change ((documentKind =? ParagraphKind) || negb (acceptsLines documentKind)) with true. cbv iota. rewrite Et. cbv iota.
  change (state (withState q1 stOpenMatched)) with stOpenMatched. change (stOpenMatched =? stLineConsumed) with false. cbv iota.
  assert (Eo : opening_loop (length (62 :: 32 :: rest)) (withState q1 stOpenMatched) = opening_loop (S (length (62 :: 32 :: rest))) q1).
  { cbn [length].
    assert (Hg : guardO q1 = true) by reflexivity.
    rewrite (opening_loop_state _ q1 stOpenMatched Hg).
    assert (Fq : F q1).
    { split; [|split; cbn; discriminate]. unfold ccP, wf, q1, cdepth. cbn [root container]. split; [reflexivity|split; [reflexivity|eexists; reflexivity]]. }
    assert (Cq : CB q1) by (split; [exact Ht|cbn [li line q1]; lia]).
    apply opening_loop_fuel; [exact Fq|exact Cq| |]; unfold needO; rewrite Hg; cbn [li line q1]; unfold len; cbn [length]; lia. }
  rewrite Eo. reflexivity.
Qed.
Print Assumptions first_line.
