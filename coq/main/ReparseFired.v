From Coq Require Import List ZArith Lia Bool.
Import ListNotations.
Require Import Base Tree Rdr Link Collect Html Recog LP Rules Starts Driver L2Kind L2Kind2 L2CC TInv TStarts ReparsePass.
Open Scope Z_scope.

(* T50 continuation: a block start that changes the state of the line parser leaves it "fired" (open-matched or line-consumed). *)
Definition nz (q : lp) : Prop := state q = stOpenMatched \/ state q = stLineConsumed.
Lemma nz_ne0 q : nz q -> state q <> stOpening. Proof. intros [E|E]; rewrite E; discriminate. Qed.
Lemma nz_openBlock p K : st_open p -> nz (openBlock p K). Proof. intros H. left. apply state_openBlock, H. Qed.
Lemma nz_advance q n : nz q -> nz (advance q n). Proof. intros H. unfold nz. rewrite (state_advance_ne0 q n (nz_ne0 q H)). exact H. Qed.
Lemma nz_consumeIndent q n : nz q -> nz (consumeIndent q n). Proof. intros H. unfold nz. rewrite (state_consumeIndent_ne0 q n (nz_ne0 q H)). exact H. Qed.
Lemma nz_updCont q g : nz q -> nz (updCont q g). Proof. exact (fun H => H). Qed.
Lemma nz_collectInline q k n : nz q -> nz (collectInline q k n). Proof. intros H. unfold nz. rewrite (state_collectInline_ne0 q k n (nz_ne0 q H)). exact H. Qed.
Lemma nz_consumeLine q : nz q -> nz (consumeLine q).
Proof. intros [E|E]; right; [apply state_consumeLine_open; right; exact E|apply state_consumeLine_2, E]. Qed.
Lemma nz_endBlock q : nz q -> nz (endBlock q). Proof. intros H. unfold nz. rewrite (state_endBlock_ne0 q (nz_ne0 q H)). exact H. Qed.

Definition firedOr (f : lp -> lp) : Prop := forall p, st_open p -> f p = p \/ nz (f p).

Lemma fo_BQ : firedOr startBlockQuote.
Proof.
  intros p Hs. unfold startBlockQuote. cbv zeta. destruct (_ <=? _); [left; reflexivity|]. destruct (negb _); [left; reflexivity|]. right.
  assert (H : nz (advance (openBlock (consumeIndent p (indent p)) BlockQuoteKind) 1)) by (apply nz_advance, nz_openBlock, st_open_consumeIndent, Hs).
  destruct (0 <? _); [apply nz_consumeIndent, H|exact H].
Qed.
Lemma fo_ATX : firedOr startATX.
Proof.
  intros p Hs. unfold startATX. cbv zeta. destruct (_ <=? _); [left; reflexivity|]. destruct (parseATXHeading _) as [[lv cs] ce]. destruct (lv <? 1); [left; reflexivity|]. right.
  apply nz_endBlock, nz_consumeLine, nz_collectInline, nz_advance, nz_updCont, nz_openBlock, st_open_consumeIndent, Hs.
Qed.
Lemma fo_Fenced : firedOr startFenced.
Proof.
  intros p Hs. unfold startFenced. cbv zeta. destruct (_ <=? _); [left; reflexivity|]. destruct (parseCodeFence _) as [[[fc fnn] is_] ie]. destruct (fnn =? 0); [left; reflexivity|]. right.
  apply nz_consumeLine. destruct (spanValid _); [apply nz_collectInline, nz_advance|]; apply nz_updCont, nz_updCont, nz_openBlock, st_open_consumeIndent, Hs.
Qed.
Lemma fo_HTML : firedOr startHTML.
Proof.
  intros p Hs. unfold startHTML. cbv zeta. destruct (_ <=? _); [left; reflexivity|]. destruct (negb _); [left; reflexivity|]. destruct (_ <? 0); [left; reflexivity|].
  destruct (negb _ && _); [left; reflexivity|]. right. destruct (htmlEnd _ _); [apply nz_endBlock, nz_consumeLine, nz_collectInline|]; apply nz_updCont, nz_openBlock, Hs.
Qed.
Lemma fo_Setext : firedOr startSetext.
Proof.
  intros p Hs. unfold startSetext. cbv zeta. destruct (negb _); [left; reflexivity|]. destruct (_ <=? _); [left; reflexivity|]. destruct (_ =? 0); [left; reflexivity|].
  destruct (negb _); [left; reflexivity|]. right. apply nz_endBlock. right. apply state_consumeLine_open. exact Hs.
Qed.
Lemma fo_Thematic : firedOr startThematic.
Proof.
  intros p Hs. unfold startThematic. cbv zeta. destruct (_ <=? _); [left; reflexivity|]. destruct (_ <? 0); [left; reflexivity|]. right.
  apply nz_endBlock, nz_consumeLine, nz_advance, nz_openBlock, st_open_consumeIndent, Hs.
Qed.
Lemma fo_ListItem : firedOr startListItem.
Proof.
  intros p Hs. unfold startListItem. cbv zeta. destruct (_ <=? _); [left; reflexivity|]. destruct (parseListMarker _) as [[delim n] mend].
  destruct (_ || _); [left; reflexivity|]. destruct (_ && _); [left; reflexivity|]. right.
  set (p1 := consumeIndent p (indent p)). assert (S1 : st_open p1) by (apply st_open_consumeIndent, Hs).
  match goal with |- context [openBlock ?X ListItemKind] => set (p2 := X) end.
  assert (S2 : st_open p2) by (unfold p2; match goal with |- st_open (if ?c then _ else _) => destruct c end; [apply L2Kind2.st_open_openBlock, S1|exact S1]).
  match goal with |- context [endBlock ?X] => assert (H4 : nz (endBlock X)) by (apply nz_endBlock, nz_advance, nz_openBlock; exact (L2Kind2.st_open_openBlock p2 ListItemKind S2)) end.
  match goal with |- context [endBlock ?X] => set (q := endBlock X) in * end.
  destruct (isRestBlank q); [apply nz_consumeLine, nz_updCont, H4|].
  destruct (indent q <? 1); [apply nz_updCont, H4|]. destruct (4 <? indent q); apply nz_updCont, nz_consumeIndent, H4.
Qed.
Lemma fo_Indented : firedOr startIndented.
Proof.
  intros p Hs. unfold startIndented. destruct (_ || _ || _); [left; reflexivity|]. right. apply nz_openBlock, st_open_consumeIndent, Hs.
Qed.
Lemma blockStarts_fo : Forall firedOr blockStarts.
Proof.
  unfold blockStarts.
  apply Forall_cons; [apply fo_BQ|]. apply Forall_cons; [apply fo_ATX|]. apply Forall_cons; [apply fo_Fenced|].
  apply Forall_cons; [apply fo_HTML|]. apply Forall_cons; [apply fo_Setext|]. apply Forall_cons; [apply fo_Thematic|].
  apply Forall_cons; [apply fo_ListItem|]. apply Forall_cons; [apply fo_Indented|]. apply Forall_nil.
Qed.
