(* ===== LinesAccountedTest: the boolean checker for C03 (block half) run on sample documents before proving ===== *)
From Coq Require Import List ZArith Lia Bool String Ascii.
Import ListNotations.
Require Import Base Tree LP Driver Inl3e BSDef Props LADef BSTest.
Open Scope Z_scope.
Definition unc (r : rootB) : list Z :=
  let src := rb_src r in let ls := entryLeaves (rb_blk r) in
  filter (fun p => textual (at_ src p) && negb (cover ls p =? 1)) (range (len src)).
Definition chkL (input : bytes) :=
  let '(rs, code) := parseBlocks input in
  (map (fun r => (disjFromb 0 (entryLeaves (rb_blk r)), unc r)) rs, code).
Definition okL (input : bytes) : bool :=
  let '(rs, code) := chkL input in (code =? 0) && forallb (fun x => fst x && match snd x with [] => true | _ => false end) rs.
(* the checker on the documents of BSTest: every root's leaves are pairwise disjoint and no textual byte is uncovered *)
Example test_all : forallb okL (all ++ [t16;t17;t18]) = true. Proof. vm_compute. reflexivity. Qed.
Open Scope string_scope.
Definition u1 := bs ("# foo bar ## " ++ nl ++ "## a#" ++ nl ++ "#" ++ tab ++ "x \#" ++ nl ++ "# f#" ++ nl ++ "### ##" ++ nl).
Definition u2 := bs ("~~~ info str ~~~" ++ nl ++ "code" ++ nl ++ "  ~~~~  " ++ nl ++ "``` go&amp;\*" ++ nl ++ "x").
Definition u3 := bs ("<div>" ++ nl ++ "a b" ++ nl ++ nl ++ "<!-- x -->  y" ++ nl ++ "para" ++ nl ++ "<pre>" ++ nl ++ "x</pre> z" ++ nl).
Definition u4 := bs ("10) a" ++ nl ++ "    b" ++ nl ++ "11)" ++ tab ++ "c" ++ nl ++ "-" ++ tab ++ tab ++ "code" ++ nl).
Definition u5 := bs ("[fo\]o&amp;]: <a b\>c> 'ti\'t&lt;le'" ++ nl ++ "[x y" ++ nl ++ " z]:" ++ nl ++ " /url" ++ nl ++ "  (t1" ++ nl ++ "t2)" ++ nl ++ "rest" ++ nl).
Definition u6 := bs ("> [a" ++ nl ++ "> b]: /u" ++ nl ++ ">" ++ tab ++ "'t" ++ nl ++ "lazy'" ++ nl ++ "> more" ++ nl).
Definition u7 := bs ("a" ++ String (ascii_of_nat 0) "" ++ "b" ++ nl ++ "[" ++ String (ascii_of_nat 0) "" ++ "]: /" ++ String (ascii_of_nat 0) "" ++ nl ++ "    " ++ String (ascii_of_nat 0) "" ++ nl).
Definition u8 := bs ("foo" ++ nl ++ "  bar  " ++ nl ++ "===" ++ nl ++ " - - -" ++ nl ++ tab ++ "ic" ++ nl ++ " " ++ tab ++ " ic2" ++ nl ++ nl ++ " " ++ nl).
Definition u9 := bs ("[a]: /b 'x" ++ nl ++ nl ++ "[c]: /d 't' z" ++ nl ++ "[e]: /f" ++ nl ++ "'t' z" ++ nl ++ "[g]: <h" ++ nl).
Definition u10 := bs (" > " ++ tab ++ "x" ++ nl ++ "  1. " ++ tab ++ "y" ++ nl ++ ">" ++ tab ++ tab ++ "z" ++ nl).
(* headings, fences, HTML blocks, lists with tabs, link reference definitions (escapes, references, multi-line titles, NUL bytes, lazy lines), setext *)
Example test_more : forallb okL [u1;u2;u3;u4;u5;u6;u7;u8;u9;u10] = true. Proof. vm_compute. reflexivity. Qed.
