From Coq Require Import List ZArith Bool String Ascii.
Import ListNotations.
Require Import Base Tree Driver SliceReparse ReparseAll.
Open Scope Z_scope.
Fixpoint bs (s : string) : list Z := match s with EmptyString => [] | String a r => Z.of_nat (nat_of_ascii a) :: bs r end.
Definition nl := String (ascii_of_nat 10) EmptyString.
Definition cat (l : list string) : list Z := bs (String.concat nl l).
Definition flags (d : list Z) : list (Z * bool) := map (fun r => (bkind (rb_blk r), covered d r)) (fst (parseBlocks d)).
Open Scope string_scope.
Definition d1 := cat ["# Title"; ""; "Some text"; "more text"; ""; "- a"; "- b"; ""; "  c"; "- d"; ""; "> quote"; "> more"; ""; "    code"; "    more"; ""; "para"; ""].
Definition d2 := cat ["para"; "# heading directly"; "para2"; "***"; "- item"; "# h2"; "> q"; "***"; "    code"; "text"; ""].
Definition d3 := cat ["```go"; "func main() {}"; "```"; "after fence"; "~~~"; "unclosed fence"; ""; "still"].
Definition d4 := cat ["<div>"; "html *block*"; "</div>"; ""; "<!-- comment"; "spanning -->"; "para"; "<pre>"; "x"; "</pre>"; "tail"; ""].
Definition d5 := cat ["Setext"; "======"; "another"; "-----"; "text"; "text2"; "==="; ""; "1. one"; "2. two"; "   - nested"; "     deeper"; "3. three"; "para lazy"; ""; "end"].
Definition d6 := cat ["> - a"; ">   b"; "> - c"; "lazy"; ""; "> # h"; "> ```"; "> code"; "> ```"; "plain"; ""].
Definition d7 := cat ["- a"; ""; "- b"; ""; ""; "* new list"; "+ another"; "1) ord"; "2) ord2"; "text"; ""].
Definition d8 := cat [""; ""; "   indented para"; ""; ""; "    code"; ""; "    code2"; ""; ""; "#### h4 ####"; "___"; ""; ""].
Definition d9 := cat ["- item"; "  ```"; "  fenced in item"; "  ```"; "  > quote in item"; "  > more"; "- second"; ""; "      code in item"; "out"; ""].
Definition d10 := cat ["A paragraph with *emph* and `code`."; "Second line  "; "third\"; "fourth"; ""; "> quoted"; "lazy continuation"; "> again"; ""; "<span>inline html para</span>"; ""].
Definition d11 := cat ["text"; "- a"; "- b"; "> q"; "```"; "f"; "```"; "<div>"; "h"; ""; "    c"; "# x"].
Definition d12 := cat ["1. a"; ""; "   b"; ""; "   > c"; "   > d"; ""; "       e"; ""; "2. f"; "***"; "g"; "=="; ""].
(* the exceptions *)
Definition x1 := cat ["[foo]: /url"; ""; "para [foo]"; ""].
Definition x2 := cat ["[foo]: /url"; "rest of paragraph"; "# h"; ""].
Definition x3 := cat ["[not a def"; "# h"; "[also not]"; ""; "ok"; ""].
Definition x4 := cat ["> [x]: /u"; "> more"; "# h"; "- [y"; "# h2"; ""].
Definition x5 := cat ["[foo]: /url"; "[bar]: /url2"; "# h"; "text"; "==="; ""].
Definition d13 := cat ["See [the docs](http://x.y) and [ref][foo] here."; "- text first [x]"; "  more"; "> a [link](u)"; ""; "![img](a.png) starts with bang"; ""; "\\[escaped bracket"; "# h"; ""].
Definition d14 := cat ["Intro"; ""; "* item one"; ""; "  para in item"; ""; "      code in item"; ""; "* item two"; "  * sub a"; "  * sub b"; ""; "    sub para"; ""; "Final paragraph"; "over two lines."; ""; "---"; ""; "<table>"; "<tr><td>x</td></tr>"; "</table>"; ""; "    indented"; ""; "~~~ text"; "fence"; "~~~"; "## End"; ""].
Definition flagsR (d : list Z) : list (Z * bool) := map (fun r => (bkind (rb_blk r), coveredR d r)) (fst (parseBlocks d)).
Definition x6 := cat ["- [ ] task"; "- [x] done"; "# h"; ""].
Definition x7 := cat ["- [ ] task"; "- [x] done"; ""; "after"; ""].
Definition docs := [d1; d2; d3; d4; d5; d6; d7; d8; d9; d10; d11; d12; d13; d14].
Eval vm_compute in map flags [d13; d14].

(* every root of the 14 realistic documents is covered (69 roots) *)
Example covered_docs : forallb (fun d => forallb (covered d) (fst (parseBlocks d))) docs = true /\
                       map (fun d => List.length (fst (parseBlocks d))) docs = [6; 10; 3; 5; 5; 3; 4; 4; 2; 3; 7; 3; 6; 8]%nat.
Proof. vm_compute. split; reflexivity. Qed.

(* the exceptions: (kind of the root, covered) *)
Example covered_exceptions :
  map flags [x1; x2; x3; x4; x5] =
  [ [(LinkReferenceDefinitionKind, false); (ParagraphKind, true)];
    [(LinkReferenceDefinitionKind, false); (ParagraphKind, false); (ATXHeadingKind, false)];
    [(ParagraphKind, false); (ATXHeadingKind, true); (ParagraphKind, false); (ParagraphKind, true)];
    [(BlockQuoteKind, false); (ATXHeadingKind, true); (ListKind, false); (ATXHeadingKind, true)];
    [(LinkReferenceDefinitionKind, false); (LinkReferenceDefinitionKind, false); (ATXHeadingKind, false); (SetextHeadingKind, true)] ].
Proof. vm_compute. reflexivity. Qed.
(* a task list cut while its last paragraph "[x] done" is still open is excluded; closed by a blank line first, it is covered *)
Example covered_tasklist : flags x6 = [(ListKind, false); (ATXHeadingKind, true)] /\ flags x7 = [(ListKind, true); (ParagraphKind, true)].
Proof. vm_compute. split; reflexivity. Qed.
(* with the computed re-synchronisation: only the definitions and the paragraphs beginning with '[' on the spine remain *)
Example coveredR_exceptions :
  map flagsR [x1; x2; x3; x4; x5] =
  [ [(LinkReferenceDefinitionKind, false); (ParagraphKind, true)];
    [(LinkReferenceDefinitionKind, false); (ParagraphKind, true); (ATXHeadingKind, true)];
    [(ParagraphKind, false); (ATXHeadingKind, true); (ParagraphKind, false); (ParagraphKind, true)];
    [(BlockQuoteKind, false); (ATXHeadingKind, true); (ListKind, false); (ATXHeadingKind, true)];
    [(LinkReferenceDefinitionKind, false); (LinkReferenceDefinitionKind, false); (ATXHeadingKind, true); (SetextHeadingKind, true)] ].
Proof. vm_compute. reflexivity. Qed.
Example coveredR_docs : forallb (fun d => forallb (coveredR d) (fst (parseBlocks d))) docs = true.
Proof. vm_compute. reflexivity. Qed.
