From Coq Require Import List ZArith Lia Bool.
Import ListNotations.
Require Import Base Tables Utf8 Tree Recog Driver Inl3e Render Props.
Require C01a C01b L2BndS NoPanicAll NoUnpFull L2CCfull L2Kind2 Clos12full C07final SafeW RenderWalkProof C17doc Refs12 Rec15 Rec16 Rec17 Rec18 Rec19 PEProof.
Open Scope Z_scope.

(* What is machine-checked of each property whose deciding theorems live in this family, by property.
   Every theorem here is closed by "exact <lemma>" so that it cannot be quietly weakened; the full statements
   (Cxx_statement) are in Props.v.  A theorem named *_partial proves part of the statement of the same number;
   the part that is still open is named in its comment. *)

(* C01: source order and disjointness of the root ranges, for every input.
   Open: gap bytes blank, Source = replaced-NUL slice, StartLine (the remaining conjuncts of Props.tiles). *)
Theorem C01_order_partial input : C01a.ordered 0 (fst (parseBlocks input)).
Proof. exact (C01a.C01_ordered input). Qed.

(* C01/C02: ends of closed blocks and of inline entries are bounded by the line read so far, for every input.
   Open for C02: starts <= ends, nesting, sibling order, character boundaries. *)
Theorem C02_bounds_partial input : Forall L2BndS.okR (fst (parseBlocks input)).
Proof. exact (L2BndS.parseBlocks_bounds input). Qed.

(* C04: the block layer never reaches one of its eight panic sites, for every input.
   Open: fuel sufficiency of the line loop and of the inline parser. *)
Theorem C04_no_panic_partial input : forall k, 1 <= k <= 8 -> snd (parseBlocks input) <> k.
Proof. exact (NoPanicAll.parseBlocks_no_panic input). Qed.

(* C05: no Unparsed node remains after Rewrite; canContain closure; reference closure.  For every input.
   Open: item starts with marker, definition arity, link tails, no link in link (the other conjuncts of Props.gramB/gramI). *)
Theorem C05_noUnparsed_partial input m fuel :
  Forall (fun r => NoUnpFull.noUnpAt fuel (rb_src r) m (rb_blk r)) (fst (parseBlocks input)).
Proof. exact (NoUnpFull.C05_noUnparsed input m fuel). Qed.
Theorem C05_contain_partial input : Forall (fun r => L2CC.rootOK (rb_blk r)) (fst (parseFull input)).
Proof. exact (L2CCfull.parseFull_contain input). Qed.

(* C12: every label the inline parser attaches to a link or image was accepted by the matcher, for every input and matcher. *)
Theorem C12_closure_partial input m fuel :
  Forall (fun r => Clos12full.closedAt fuel (rb_src r) m (rb_blk r)) (fst (parseBlocks input)).
Proof. exact (Clos12full.C12_closure input m fuel). Qed.

(* C07: the property's statement on the model, for every input, matcher and configuration without tag filter (full). *)
Theorem C07_full input c refs m rfuel fuel :
  filterOn c = false ->
  Forall (fun r =>
    (ignoreRaw c = true \/ Leaf3k.rokB false (rewriteB fuel (rb_src r) m (rb_blk r)) = true) ->
    Safe.safe (renderB rfuel c refs (rb_src r) false (rewriteB fuel (rb_src r) m (rb_blk r))))
  (fst (parseBlocks input)).
Proof. exact (C07final.C07_final input c refs m rfuel fuel). Qed.

Print Assumptions C01_order_partial.
Print Assumptions C02_bounds_partial.
Print Assumptions C04_no_panic_partial.
Print Assumptions C05_noUnparsed_partial.
Print Assumptions C05_contain_partial.
Print Assumptions C12_closure_partial.
Print Assumptions C07_full.
