(* EmphTree.v -- the identity-based tree surgery of Inl3a.v (findNode / updNode / wrapIn / removeId) on a forest whose node
   identities are pairwise distinct, when the nodes concerned are at the top level.  Used by EmphSim.v. *)
From Coq Require Import List ZArith Lia Bool.
Import ListNotations.
Require Import Base Tree Inl3a GI0.
Open Scope Z_scope.

Fixpoint allId (n : pn) : list Z := match n with PN i _ _ _ _ _ ks => i :: flat_map allId ks end.
Definition allIds (l : list pn) : list Z := flat_map allId l.

Lemma allId_eq n : allId n = pid n :: allIds (pkids n). Proof. destruct n; reflexivity. Qed.
Lemma allIds_nil : allIds [] = []. Proof. reflexivity. Qed.
Lemma allIds_cons n l : allIds (n :: l) = pid n :: allIds (pkids n) ++ allIds l.
Proof. unfold allIds at 1. cbn [flat_map]. rewrite allId_eq. reflexivity. Qed.
Lemma allIds_app a b : allIds (a ++ b) = allIds a ++ allIds b. Proof. apply flat_map_app. Qed.
Lemma ids_sub_allIds id l : In id (ids l) -> In id (allIds l).
Proof.
  induction l as [|n l IH]; [intros []|]. cbn [ids map]. rewrite allIds_cons. intros [H|H]; [left; exact H|].
  right. apply in_or_app. right. apply IH. exact H.
Qed.
Lemma allIds_setSpan n s e : allId (setSpan n s e) = allId n. Proof. destruct n; reflexivity. Qed.

(* ---- findNode ---- *)
Lemma findNode_notin id : forall fuel l, ~ In id (allIds l) -> findNode fuel id l = None.
Proof.
  induction fuel as [|f IH]; intros l H; [reflexivity|]. destruct l as [|n r]; [reflexivity|]. cbn [findNode].
  rewrite allIds_cons in H.
  destruct (Z.eqb_spec (pid n) id) as [E|E]; [exfalso; apply H; left; exact E|].
  rewrite (IH (pkids n)) by (intros Hi; apply H; right; apply in_or_app; left; exact Hi).
  apply IH. intros Hi. apply H. right. apply in_or_app. right. exact Hi.
Qed.
Lemma findNode_at id : forall A fuel N B, pid N = id -> ~ In id (allIds A) -> (length A < fuel)%nat ->
  findNode fuel id (A ++ N :: B) = Some N.
Proof.
  induction A as [|n A IH]; intros fuel N B HN HA Hf; (destruct fuel as [|f]; [cbn in Hf; lia|]); cbn [app findNode].
  - rewrite HN, Z.eqb_refl. reflexivity.
  - rewrite allIds_cons in HA.
    destruct (Z.eqb_spec (pid n) id) as [E|E]; [exfalso; apply HA; left; exact E|].
    rewrite (findNode_notin id f (pkids n)) by (intros Hi; apply HA; right; apply in_or_app; left; exact Hi).
    apply IH; [exact HN| |cbn in Hf; lia]. intros Hi. apply HA. right. apply in_or_app. right. exact Hi.
Qed.
Lemma psize_pos n : (1 <= psize n)%nat. Proof. destruct n; cbn; lia. Qed.
Lemma fsize_length l : (length l < fsize l)%nat.
Proof.
  unfold fsize. induction l as [|n l IH]; cbn [fold_right length]; [lia|]. pose proof (psize_pos n). lia.
Qed.
Lemma nodeOf_at st A N B : rk st = A ++ N :: B -> ~ In (pid N) (allIds A) -> nodeOf st (pid N) = N.
Proof.
  intros E HA. unfold nodeOf. rewrite E. rewrite (findNode_at (pid N) A _ N B eq_refl HA); [reflexivity|].
  pose proof (fsize_length (A ++ N :: B)) as H. rewrite app_length in H. lia.
Qed.

(* ---- updNode ---- *)
Lemma updNode_notin id g : forall fuel l, ~ In id (allIds l) -> updNode fuel id g l = l.
Proof.
  induction fuel as [|f IH]; intros l H; [reflexivity|]. cbn [updNode].
  induction l as [|n r IHr]; [reflexivity|]. cbn [map]. rewrite allIds_cons in H.
  destruct (Z.eqb_spec (pid n) id) as [E|E]; [exfalso; apply H; left; exact E|].
  rewrite (IH (pkids n)) by (intros Hi; apply H; right; apply in_or_app; left; exact Hi).
  rewrite IHr by (intros Hi; apply H; right; apply in_or_app; right; exact Hi).
  destruct n; reflexivity.
Qed.
Lemma updNode_at id g fuel A N B : pid N = id -> ~ In id (allIds A) -> ~ In id (allIds B) ->
  updNode (S fuel) id g (A ++ N :: B) = A ++ g N :: B.
Proof.
  intros HN HA HB.
  pose proof (updNode_notin id g (S fuel) A HA) as EA. pose proof (updNode_notin id g (S fuel) B HB) as EB.
  cbn [updNode] in *. rewrite map_app. cbn [map]. rewrite EA, EB. rewrite HN, Z.eqb_refl. reflexivity.
Qed.
Lemma fsize_S l : exists f, fsize l = S f. Proof. unfold fsize. eexists. reflexivity. Qed.
Lemma updN_at st g A N B : rk st = A ++ N :: B -> ~ In (pid N) (allIds A) -> ~ In (pid N) (allIds B) ->
  rk (updN st (pid N) g) = A ++ g N :: B.
Proof.
  intros E HA HB. unfold updN. cbn [rk setRk]. destruct (fsize_S (rk st)) as [f Hf]. rewrite Hf, E.
  apply updNode_at; [reflexivity|exact HA|exact HB].
Qed.

(* ---- wrapIn ---- *)
Lemma splitAtId_at id : forall A N B, pid N = id -> ~ In id (ids A) -> splitAtId id (A ++ N :: B) = (A ++ [N], B).
Proof.
  induction A as [|n A IH]; intros N B HN HA; cbn [app splitAtId].
  - rewrite HN, Z.eqb_refl. reflexivity.
  - destruct (Z.eqb_spec (pid n) id) as [E|E]; [exfalso; apply HA; left; exact E|].
    rewrite (IH N B HN) by (intros Hi; apply HA; right; exact Hi). reflexivity.
Qed.
Lemma splitBeforeId_at id : forall M C D, pid C = id -> ~ In id (ids M) -> splitBeforeId (Some id) (M ++ C :: D) = (M, C :: D).
Proof.
  induction M as [|n M IH]; intros C D HC HM; cbn [app splitBeforeId].
  - rewrite HC, Z.eqb_refl. reflexivity.
  - destruct (Z.eqb_spec (pid n) id) as [E|E]; [exfalso; apply HM; left; exact E|].
    rewrite (IH C D HC) by (intros Hi; apply HM; right; exact Hi). reflexivity.
Qed.
Lemma wrapIn_at fuel newId kind es pend A O M C D :
  ~ In (pid O) (ids A) -> ~ In (pid C) (ids M) ->
  wrapIn (S fuel) newId kind (pid O) (Some (pid C)) (Some es) pend (A ++ O :: M ++ C :: D) =
  A ++ O :: PN newId kind (pe O) es 0 [] M :: C :: D.
Proof.
  intros HA HM. cbn [wrapIn].
  assert (Hh : hasId (pid O) (A ++ O :: M ++ C :: D) = true).
  { apply hasId_In. rewrite ids_app. apply in_or_app. right. left. reflexivity. }
  rewrite Hh. unfold wrapLevel. rewrite (splitAtId_at (pid O) A O _ eq_refl HA).
  rewrite rev_app_distr. cbn [rev app]. rewrite (splitBeforeId_at (pid C) M C D eq_refl HM).
  rewrite <- app_assoc. reflexivity.
Qed.
Lemma wrap_at st kind A O M C D :
  rk st = A ++ O :: M ++ C :: D -> ~ In (pid O) (ids A) -> ~ In (pid C) (ids M) ->
  ~ In (pid C) (allIds A) -> ~ In (pid C) (allId O) -> ~ In (pid C) (allIds M) ->
  rk (fst (wrap st kind (pid O) (Some (pid C)))) = A ++ O :: PN (nid st) kind (pe O) (ps C) 0 [] M :: C :: D.
Proof.
  intros E HA HM HCA HCO HCM. unfold wrap. cbn [fst rk bumpId setRk].
  assert (EC : nodeOf st (pid C) = C).
  { replace (A ++ O :: M ++ C :: D) with ((A ++ O :: M) ++ C :: D) in E by (rewrite <- app_assoc; reflexivity).
    apply (nodeOf_at st _ C D E). rewrite allIds_app, allIds_cons. intros Hi. apply in_app_or in Hi.
    destruct Hi as [Hi|Hi]; [exact (HCA Hi)|]. rewrite allId_eq in HCO.
    destruct Hi as [Hi|Hi]; [apply HCO; left; exact Hi|]. apply in_app_or in Hi.
    destruct Hi as [Hi|Hi]; [apply HCO; right; exact Hi|exact (HCM Hi)]. }
  rewrite EC. destruct (fsize_S (rk st)) as [f Hf]. rewrite Hf, E. apply wrapIn_at; assumption.
Qed.

(* ---- removeId ---- *)
Lemma filter_notin id : forall l, ~ In id (ids l) -> filter (fun n => negb (pid n =? id)) l = l.
Proof.
  induction l as [|n l IH]; intros H; [reflexivity|]. cbn [filter].
  destruct (Z.eqb_spec (pid n) id) as [E|E]; [exfalso; apply H; left; exact E|]. cbn [negb]. f_equal.
  apply IH. intros Hi. apply H. right. exact Hi.
Qed.
Lemma removeNode_at st A N B : rk st = A ++ N :: B -> ~ In (pid N) (ids A) -> ~ In (pid N) (ids B) ->
  rk (removeNode st (pid N)) = A ++ B.
Proof.
  intros E HA HB. unfold removeNode. cbn [rk setRk]. destruct (fsize_S (rk st)) as [f Hf]. rewrite Hf, E. cbn [removeId].
  assert (Hh : hasId (pid N) (A ++ N :: B) = true).
  { apply hasId_In. rewrite ids_app. apply in_or_app. right. left. reflexivity. }
  rewrite Hh. rewrite filter_app. cbn [filter]. rewrite Z.eqb_refl. cbn [negb].
  rewrite (filter_notin _ A HA), (filter_notin _ B HB). reflexivity.
Qed.

(* other components *)
Lemma nid_updN st id g : nid (updN st id g) = nid st. Proof. reflexivity. Qed.
Lemma nid_removeNode st id : nid (removeNode st id) = nid st. Proof. reflexivity. Qed.
Lemma nid_wrap st k a b : nid (fst (wrap st k a b)) = nid st + 1. Proof. reflexivity. Qed.
Lemma nid_setStk st v : nid (setStk st v) = nid st. Proof. reflexivity. Qed.
Lemma rk_setStk st v : rk (setStk st v) = rk st. Proof. reflexivity. Qed.
Lemma nodeOf_setStk st v id : nodeOf (setStk st v) id = nodeOf st id. Proof. reflexivity. Qed.
