From Coq Require Import List ZArith Lia Bool Permutation.
Import ListNotations.
Require Import Base Tables Utf8 Tree Rdr Link Collect Html Recog Inl3a Inl3b Inl3c Inl3d Driver Props.
Require Import SpanForest SpanIds SpanStack SpanEmph CoverLeaves.
Open Scope Z_scope.

(* ================================================================================================
   C03, coverage: processEmphasis loses no textual byte.  The delimiter nodes it shrinks or removes
   hold no textual byte; everything else keeps its leaves.
   ================================================================================================ *)
Lemma nthD_In (l : list delim) i : 0 <= i < len l -> In (nthD l i) l.
Proof. intros H. unfold nthD. apply nth_In. unfold len in H. lia. Qed.
Lemma incl_upto {A} (l : list A) i : incl (upto l i) l.
Proof. intros x Hx. unfold upto in Hx. rewrite <- (firstn_skipn (Z.to_nat i) l). apply in_or_app. left. exact Hx. Qed.
Lemma incl_from {A} (l : list A) i : incl (from_ l i) l.
Proof. intros x Hx. unfold from_ in Hx. rewrite <- (firstn_skipn (Z.to_nat i) l). apply in_or_app. right. exact Hx. Qed.
Lemma incl_delStack {A} (l : list A) i j : incl (delStack l i j) l.
Proof. unfold delStack. intros x Hx. apply in_app_or in Hx. destruct Hx as [Hx|Hx]; [apply (incl_upto l i); exact Hx|apply (incl_from l j); exact Hx]. Qed.

Section CovEmph.
  Variable src : bytes.
  (* the node holds no textual byte *)
  Definition NT (n : pn) : Prop := forall q, ps n <= q < pe n -> textual (at_ src q) = false.
  Definition NTG (G : list Z) (L : list pn) : Prop := forall n, In n L -> In (pid n) G -> NT n.
  Definition CovRel (G : list Z) (L L' : list pn) : Prop :=
    (L <> [] -> L' <> []) /\
    (NTG G L -> NTG G L' /\ forall p, textual (at_ src p) = true -> covF p L -> covF p L').
  Lemma CovRel_refl G L : CovRel G L L. Proof. split; [tauto|]. intros H. split; [exact H|tauto]. Qed.
  Lemma CovRel_trans G A B C : CovRel G A B -> CovRel G B C -> CovRel G A C.
  Proof.
    intros (A1 & A2) (B1 & B2). split; [tauto|]. intros H. destruct (A2 H) as [A3 A4]. destruct (B2 A3) as [B3 B4].
    split; [exact B3|]. intros p Hp Hc. apply B4; [exact Hp|]. apply A4; assumption.
  Qed.

  Definition GOK (G : list Z) (st : ist) : Prop := incl (map d_node (stk st)) G /\ Forall (fun i => i < nid st) G.
  Lemma GOK_mono G st st' : GOK G st -> frameE st st' -> incl (stk st') (stk st) -> GOK G st'.
  Proof.
    intros [A B] (_ & _ & _ & _ & _ & _ & Hn) Hi. split.
    - intros x Hx. apply A. apply in_map_iff in Hx. destruct Hx as (d & <- & Hd). apply in_map. apply Hi. exact Hd.
    - rewrite Forall_forall in *. intros x Hx. specialize (B x Hx). lia.
  Qed.

  Lemma NT_sub n s e : NT n -> ps n <= s -> e <= pe n -> NT (setSpan n s e).
  Proof. intros H A B q Hq. rewrite ps_setSpan, pe_setSpan in Hq. apply H. lia. Qed.

  Lemma step_rel G pa on pm cn pr k wid kind ons cns :
    leafy on -> leafy cn -> 1 <= k -> k <= pe on - ps on -> k <= pe cn - ps cn ->
    In (pid on) G -> In (pid cn) G -> ~ In wid G ->
    (ons = [setSpan on (ps on) (pe on - k)] \/ ons = []) -> (cns = [setSpan cn (ps cn + k) (pe cn)] \/ cns = []) ->
    CovRel G (pa ++ on :: pm ++ cn :: pr) (pa ++ ons ++ PN wid kind (pe on - k) (ps cn + k) 0 [] pm :: cns ++ pr).
  Proof.
    intros (Ko & _ & Po & _) (Kc & _ & Pc & _) Hk Hko Hkc Go Gc Gw Hons Hcns. split.
    { intros _ X. destruct pa; destruct ons; discriminate. }
    intros HNT.
    assert (NTo : NT on) by (apply HNT; [apply in_or_app; right; left; reflexivity|exact Go]).
    assert (NTc : NT cn) by (apply HNT; [apply in_or_app; right; right; apply in_or_app; right; left; reflexivity|exact Gc]).
    split.
    - intros n Hn Hg. apply in_app_or in Hn. destruct Hn as [Hn|Hn]; [apply HNT; [apply in_or_app; left; exact Hn|exact Hg]|].
      apply in_app_or in Hn. destruct Hn as [Hn|Hn].
      { destruct Hons as [->| ->]; [|destruct Hn]. destruct Hn as [<-|[]]. apply NT_sub; [exact NTo|lia|lia]. }
      destruct Hn as [<-|Hn]; [cbn [pid] in Hg; contradiction|].
      apply in_app_or in Hn. destruct Hn as [Hn|Hn].
      { destruct Hcns as [->| ->]; [|destruct Hn]. destruct Hn as [<-|[]]. apply NT_sub; [exact NTc|lia|lia]. }
      apply HNT; [|exact Hg]. apply in_or_app. right. right. apply in_or_app. right. right. exact Hn.
    - intros p Hp H.
      apply covF_app in H. destruct H as [H|H]; [apply covF_app; left; exact H|].
      apply covF_cons in H. destruct H as [H|H].
      { exfalso. apply covN_iff in H. destruct H as [[_ H]|[H _]]; [|contradiction]. rewrite (NTo p H) in Hp. discriminate. }
      apply covF_app in H. destruct H as [H|H].
      { apply covF_app. right. apply covF_app. right. apply covF_cons. left. apply covN_kids; [|exact H]. intros X. rewrite X in H. exact (covF_nil p H). }
      apply covF_cons in H. destruct H as [H|H].
      { exfalso. apply covN_iff in H. destruct H as [[_ H]|[H _]]; [|contradiction]. rewrite (NTc p H) in Hp. discriminate. }
      apply covF_app. right. apply covF_app. right. apply covF_cons. right. apply covF_app. right. exact H.
  Qed.

  Lemma pe_loop_cov c sb G : forall fuel st ob cp L,
    PEI c sb st L -> sb <= cp -> OBI sb ob -> GOK G st ->
    exists L', PEI c sb (pe_loop fuel st ob cp) L' /\ CovRel G L L' /\
               frameE st (pe_loop fuel st ob cp) /\ upto (stk (pe_loop fuel st ob cp)) sb = upto (stk st) sb.
  Proof.
    induction fuel as [|f IH]; intros st ob cp L HP Hcp Hob HG.
    { exists L. cbn [pe_loop]. split; [exact HP|]. split; [apply CovRel_refl|]. split; [apply frameE_refl|reflexivity]. }
    assert (Hclose : forall stF obF cpF LF, PEI c sb stF LF -> CovRel G L LF -> frameE st stF ->
              upto (stk stF) sb = upto (stk st) sb -> sb <= cpF -> OBI sb obF -> incl (stk stF) (stk st) ->
              exists L', PEI c sb (pe_loop f stF obF cpF) L' /\ CovRel G L L' /\
                         frameE st (pe_loop f stF obF cpF) /\ upto (stk (pe_loop f stF obF cpF)) sb = upto (stk st) sb).
    { intros stF obF cpF LF H1 H2 H3 H4 H5 H6 H7.
      assert (HGF : GOK G stF) by (apply (GOK_mono G st stF); assumption).
      destruct (IH stF obF cpF LF H1 H5 H6 HGF) as (L' & G1 & G2 & G3 & G4).
      exists L'. split; [exact G1|]. split; [eapply CovRel_trans; eassumption|]. split; [eapply frameE_trans; eassumption|].
      rewrite G4. exact H4. }
    cbn [pe_loop].
    pose proof (pe_findCloser_spec (S (length (stk st))) (stk st) cp ltac:(destruct HP; lia)) as Hfc.
    set (cp1 := pe_findCloser (S (length (stk st))) (stk st) cp) in *.
    destruct (Z.ltb_spec cp1 0) as [Hneg|Hpos].
    { exists L. split; [exact HP|]. split; [apply CovRel_refl|]. split; [apply frameE_refl|reflexivity]. }
    destruct Hfc as [Hfc|Hfc]; [lia|].
    set (c0 := nthD (stk st) cp1).
    pose proof (obIndex_range c0) as Hobi.
    pose proof (getOB_ge sb ob (obIndex c0) Hob Hobi) as Hlo.
    set (lo := getOB ob (obIndex c0)) in *.
    pose proof (pe_findOpener_spec (S (length (stk st))) (stk st) (cp1 - 1) lo c0) as Hfo.
    set (oi := pe_findOpener (S (length (stk st))) (stk st) (cp1 - 1) lo c0) in *.
    destruct (Z.leb_spec lo oi) as [Hm|Hnm].
    - specialize (Hfo Hm).
      set (o := nthD (stk st) oi) in *.
      set (strong := (2 <=? plen (nodeOf st (d_node o))) && (2 <=? plen (nodeOf st (d_node c0)))) in *.
      set (k := if strong then 2 else 1) in *. set (kind := if strong then StrongKind else EmphasisKind) in *.
      assert (Hsb0 : 0 <= sb) by (destruct HP; lia).
      destruct (pe_wrapped c sb st L oi cp1 k kind HP ltac:(lia) ltac:(lia) ltac:(lia))
        as (pa & on & pm & cn & pr & X1 & A & R & EL & Lon & Lcn & Eon & Ecn & Non & Ncn & SA & SR & LX & LA & EX1 & R4 & I4 & S4 & F4).
      fold o c0 in Eon, Ecn, Non, Ncn, R4, I4, S4, F4.
      set (st2 := updN (updN st (d_node o) (fun n => setSpan n (ps n) (pe n - k))) (d_node c0) (fun n => setSpan n (ps n + k) (pe n))) in *.
      destruct (wrap st2 kind (d_node o) (Some (d_node c0))) as [st3 wid] eqn:Ew.
      assert (E3 : st3 = fst (wrap st2 kind (d_node o) (Some (d_node c0)))) by (rewrite Ew; reflexivity).
      assert (Es : stk st3 = stk st) by (rewrite E3; reflexivity).
      rewrite Es. cbn [fst] in R4, I4, S4, F4.
      set (st4 := setStk st3 (delStack (stk st) (oi + 1) cp1)) in *.
      (* arithmetic of k *)
      pose proof Lon as (Kon & Pon & Son & Ton). pose proof Lcn as (Kcn & Pcn & Scn & Tcn).
      assert (Hk : 1 <= k /\ k <= pe on - ps on /\ k <= pe cn - ps cn).
      { unfold k, strong. rewrite Non, Ncn. rewrite !plen_ok by lia.
        destruct (Z.leb_spec 2 (pe on - ps on)); destruct (Z.leb_spec 2 (pe cn - ps cn)); cbn [andb]; lia. }
      set (on' := setSpan on (ps on) (pe on - k)) in *. set (cn' := setSpan cn (ps cn + k) (pe cn)) in *.
      set (W := PN (nid st) kind (pe on - k) (ps cn + k) 0 [] pm) in *.
      assert (Hw : forall lo hi, okF lo hi L -> okF lo hi (pa ++ on' :: W :: cn' :: pr)).
      { intros lo' hi' Hok. rewrite EL in Hok. apply okF_pe_step; try assumption; lia. }
      assert (Hin_o : In (d_node o) G) by (apply (proj1 HG); apply in_map; apply nthD_In; lia).
      assert (Hin_c : In (d_node c0) G) by (apply (proj1 HG); apply in_map; apply nthD_In; lia).
      assert (HWid : ~ In (nid st) G) by (intros X; destruct HG as [_ HG2]; rewrite Forall_forall in HG2; specialize (HG2 _ X); lia).
      assert (Hrel : forall ons cns, (ons = [on'] \/ ons = []) -> (cns = [cn'] \/ cns = []) -> CovRel G L (pa ++ ons ++ W :: cns ++ pr)).
      { intros ons cns Ho Hc. rewrite EL. apply (step_rel G pa on pm cn pr k (nid st) kind); try assumption; try lia; congruence. }
      assert (Hst4 : incl (stk st4) (stk st)) by (cbn [stk setStk st4]; apply incl_delStack).
      assert (Po : 0 < d_node o) by (rewrite <- Eon; exact Pon).
      assert (Pc : 0 < d_node c0) by (rewrite <- Ecn; exact Pcn).
      assert (Non4 : nodeOf st4 (d_node o) = on').
      { apply (st_nodeOf c pa on' (W :: cn' :: pr)); [exact R4|exact Po|unfold on'; rewrite pid_setSpan; exact Eon|apply I4]. }
      rewrite Non4.
      assert (OB1 : OBI sb (map (fun b : Z => if oi + 1 <? b then oi + 1 else b) ob)).
      { apply OBI_map; [exact Hob|]. intros b Hb. destruct (oi + 1 <? b); lia. }
      destruct (plen on' =? 0) eqn:E1.
      + (* the opener node is used up *)
        apply plen_setSpan_zero in E1; [|lia|lia].
        destruct (remove_both c pa on' (W :: cn' :: pr) st4 (X1 ++ A) o (c0 :: R) oi R4 I4 Po ltac:(unfold on'; rewrite pid_setSpan; exact Eon)
                    ltac:(rewrite S4, <- app_assoc; reflexivity) ltac:(rewrite len_app; lia)) as (R5 & I5 & S5 & F5).
        set (st5 := setStk (removeNode st4 (d_node o)) (delStack (stk st4) oi (oi + 1))) in *.
        assert (OB2 : OBI sb (map (fun b : Z => if oi <? b then b - 1 else b) (map (fun b : Z => if oi + 1 <? b then oi + 1 else b) ob))).
        { apply OBI_map; [exact OB1|]. intros b Hb. destruct (Z.ltb_spec oi b); lia. }
        assert (Ncn5 : nodeOf st5 (d_node c0) = cn').
        { apply (st_nodeOf c (pa ++ [W]) cn' pr); [rewrite R5, <- app_assoc; reflexivity|exact Pc|unfold cn'; rewrite pid_setSpan; exact Ecn|apply I5]. }
        rewrite Ncn5.
        destruct (plen cn' =? 0) eqn:E2.
        * apply plen_setSpan_zero in E2; [|lia|lia].
          destruct (remove_both c (pa ++ [W]) cn' pr st5 (X1 ++ A) c0 R (oi + 1 - 1) ltac:(rewrite R5, <- app_assoc; reflexivity) I5 Pc
                      ltac:(unfold cn'; rewrite pid_setSpan; exact Ecn) S5 ltac:(rewrite len_app; lia)) as (R6 & I6 & S6 & F6).
          rewrite <- app_assoc in R6. cbn [app] in R6. rewrite <- app_assoc in S6.
          destruct (PEI_build c sb _ X1 A [] [] R pa [] W [] pr o on' c0 cn' R6 I6 S6 LX SA (optD_none _ _) (optD_none _ _) SR) as [P6 U6].
          eapply Hclose; [exact P6|apply (Hrel [] []); right; reflexivity| |rewrite U6, EX1; reflexivity|lia|exact OB2|].
          -- eapply frameE_trans; [exact F4|]. eapply frameE_trans; [exact F5|exact F6].
          -- eapply incl_tran; [|exact Hst4]. eapply incl_tran; [cbn [stk setStk]; apply incl_delStack|]. cbn [stk setStk st5]. apply incl_delStack.
        * apply plen_setSpan_pos in E2; [|lia|lia].
          destruct (PEI_build c sb st5 X1 A [] [c0] R pa [] W [cn'] pr o on' c0 cn' R5 I5 ltac:(rewrite S5, <- app_assoc; reflexivity) LX SA
                      (optD_none _ _) (optD_some c0 cn' ltac:(apply leafy_setSpan; [exact Lcn|lia|lia]) ltac:(unfold cn'; rewrite pid_setSpan; exact Ecn)) SR) as [P6 U6].
          eapply Hclose; [exact P6|apply (Hrel [] [cn']); [right|left]; reflexivity| |rewrite U6, EX1; reflexivity|lia|exact OB2|].
          -- eapply frameE_trans; [exact F4|exact F5].
          -- eapply incl_tran; [|exact Hst4]. cbn [stk setStk st5]. apply incl_delStack.
      + apply plen_setSpan_pos in E1; [|lia|lia].
        assert (Lon' : leafy on') by (apply leafy_setSpan; [exact Lon|lia|lia]).
        assert (Ncn4 : nodeOf st4 (d_node c0) = cn').
        { apply (st_nodeOf c (pa ++ [on'; W]) cn' pr); [rewrite R4, <- app_assoc; reflexivity|exact Pc|unfold cn'; rewrite pid_setSpan; exact Ecn|apply I4]. }
        rewrite Ncn4.
        destruct (plen cn' =? 0) eqn:E2.
        * apply plen_setSpan_zero in E2; [|lia|lia].
          destruct (remove_both c (pa ++ [on'; W]) cn' pr st4 (X1 ++ A ++ [o]) c0 R (oi + 1) ltac:(rewrite R4, <- app_assoc; reflexivity) I4 Pc
                      ltac:(unfold cn'; rewrite pid_setSpan; exact Ecn) ltac:(rewrite S4, <- !app_assoc; reflexivity) ltac:(rewrite !len_app, len_cons, len_nil; lia)) as (R6 & I6 & S6 & F6).
          rewrite <- app_assoc in R6. cbn [app] in R6. rewrite <- !app_assoc in S6.
          destruct (PEI_build c sb _ X1 A [o] [] R pa [on'] W [] pr o on' c0 cn' R6 I6 S6 LX SA
                      (optD_some o on' Lon' ltac:(unfold on'; rewrite pid_setSpan; exact Eon)) (optD_none _ _) SR) as [P6 U6].
          eapply Hclose; [exact P6|apply (Hrel [on'] []); [left|right]; reflexivity| |rewrite U6, EX1; reflexivity|lia|exact OB1|].
          -- eapply frameE_trans; [exact F4|exact F6].
          -- eapply incl_tran; [|exact Hst4]. cbn [stk setStk]. apply incl_delStack.
        * apply plen_setSpan_pos in E2; [|lia|lia].
          destruct (PEI_build c sb st4 X1 A [o] [c0] R pa [on'] W [cn'] pr o on' c0 cn' R4 I4 S4 LX SA
                      (optD_some o on' Lon' ltac:(unfold on'; rewrite pid_setSpan; exact Eon))
                      (optD_some c0 cn' ltac:(apply leafy_setSpan; [exact Lcn|lia|lia]) ltac:(unfold cn'; rewrite pid_setSpan; exact Ecn)) SR) as [P6 U6].
          eapply Hclose; [exact P6|apply (Hrel [on'] [cn']); left; reflexivity|exact F4|rewrite U6, EX1; reflexivity|lia|exact OB1|exact Hst4].
    - (* no opener: move the bound, drop a pure closer *)
      assert (OB1 : OBI sb (setOB ob (obIndex c0) cp1)) by (apply OBI_setOB; [exact Hob|exact Hobi|lia]).
      destruct (negb (hasFlag c0 fOpener)).
      + destruct (PEI_delcloser c sb st L cp1 HP ltac:(lia)) as [HP' Hup].
        eapply Hclose; [exact HP'|apply CovRel_refl| |exact Hup|lia|exact OB1|cbn [stk setStk]; apply incl_delStack].
        unfold frameE. cbn. repeat split; try reflexivity; try lia.
      + eapply Hclose; [exact HP|apply CovRel_refl|apply frameE_refl|reflexivity|lia|exact OB1|apply incl_refl].
  Qed.

  Lemma processEmphasis_cov c sb G st L : PEI c sb st L -> GOK G st ->
    exists L', rk (processEmphasis st sb) = plug c L' /\ IdsOK (processEmphasis st sb) /\ CovRel G L L' /\
               frameE st (processEmphasis st sb) /\ stk (processEmphasis st sb) = upto (stk st) sb.
  Proof.
    intros HP HG. unfold processEmphasis.
    destruct (pe_loop_cov c sb G (4 * (length (stk st) + length (isrc st)) + 8) st (repeat sb 14) sb L HP ltac:(lia) (OBI_repeat sb) HG)
      as (L' & [R1 I1 S1 B1] & Hrel & Hfr & Hup).
    exists L'. cbn [rk stk setStk]. split; [exact R1|]. split; [exact I1|]. split; [exact Hrel|]. split; [exact Hfr|exact Hup].
  Qed.
  (* the level lemmas of SpanEmph and this one describe the same forest *)
  Lemma plug_inj_level c L L' : plug c L = plug c L' -> L = L'.
  Proof.
    destruct c as [|pre0 n0]; cbn [plug]; [tauto|]. intros H. apply app_inv_head in H. inversion H as [E]. destruct n0; cbn [setKids] in E. inversion E. reflexivity.
  Qed.
End CovEmph.
