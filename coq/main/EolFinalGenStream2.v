From Coq Require Import List ZArith Lia Bool.
Import ListNotations.
Require Import Base Tree Rdr Link Collect Html Recog LP Rules Starts Driver Rec16 Rec17 Rec18 L2Kind L2CC L2Bnd L2BndS
  BSDef BSTree BSLine10 BSShift BlockSpans ShDef ShSetext ShLine4 BlockShapes StreamFuel
  TPanicRange TDefs TInv TDesc TLine TLine2 TShift Total
  EolInv EolCRBytes EolCRLFSimTree EolCRLFSimStream EolFinalDefs EolFinalSimBytes EolFinalSimTree EolFinalGenOcp EolFinalGenTree EolFinalGenClose EolFinalSimStreamBase EolFinalGenStreamInv
  EolFinalGenLine EolFinalGenEof EolFinalGenStream1.
Require EolCRLFSimCtDef EolGenCtDef EolGenCtStream EolGenCt.
Require Import Props LADef LAPad.
Open Scope Z_scope.

(* C14 (i), final newline, stream level: skipLoop and NextBlock in the two runs. *)

Lemma lineEnd_nil i : lineEnd [] i = 0.
Proof. unfold lineEnd. rewrite from_nil_any. reflexivity. Qed.
Lemma skip_empty f s : buf s = [] -> bi s = 0 -> skipLoop f s = match f with O => NBStuck | S _ => NBEof s end.
Proof. intros Eb Ei. destruct f as [|f]; [reflexivity|]. cbn [skipLoop]. cbv zeta. rewrite Eb, Ei, lineEnd_nil. reflexivity. Qed.
Lemma relNB_empty f s s' : buf s = [] -> bi s = 0 -> buf s' = [] -> bi s' = 0 -> relNB (skipLoop f s) (skipLoop f s').
Proof. intros A B C D. rewrite (skip_empty f s A B), (skip_empty f s' C D). destruct f; exact I. Qed.

(* the single-run invariants of the first run between two NextBlock calls *)
Definition PINV (s : bpst) : Prop := DI s /\ (exists ns, SJS anyBuf s (pending s) ns) /\ topNoLM (pending s) = true /\ (exists nsx, EolGenCtStream.SJx s (pending s) nsx).

Section Sim2.
  Context {HO : OcpFinC}.
  Hypothesis H_tn : forall st K ls src, ccF K = true -> topNoLM K = true -> topNoLM (fst (fst (processLine st K ls src))) = true.
  Hypothesis H_sc : forall st K ls src L SS, EV src SS ls -> len src = L -> 0 <= ls -> ls + len (from_ src ls) = L -> lastOK (from_ src ls) ->
    ccF K = true -> forallb (qB2 L SS src) K = true -> forallb (scB L) (fst (fst (processLine st K ls src))) = true.
  Lemma LI_nil s : PadF (buf s) -> bi s = lineEnd (buf s) 0 -> isBlankLine (upto (buf s) (bi s)) = false -> LI 0 [] 0 s true.
  Proof.
    intros Hpf Hb Hbl. pose proof I as N. pose proof (len_nonneg (buf s)). unfold LI.
    split; [lia|]. split; [exact Hb|]. split; [reflexivity|]. split; [discriminate|]. split; [reflexivity|]. split; [exact I|]. split; [left; reflexivity|].
    split; [discriminate|]. split; [intros _; split; [exact Hbl|left; reflexivity]|]. split; [split; exact I|]. split; [split; exact I|]. split; [exact N|split; [reflexivity|exists true; apply EolGenCt.X_nil; assumption]].
  Qed.

  Lemma sim_skipLoop : forall fuel s s', sameBut s s' -> PadF (buf s) -> bi s = 0 -> bi s' = 0 -> pending s = [] -> pending s' = [] -> relNB (skipLoop fuel s) (skipLoop fuel s').
  Proof.
    induction fuel as [|f IH]; intros s s' HS Hpf Eb Eb' Ep Ep'; [exact I|].
    pose proof HS as (E1 & E2 & E3 & Lok & N91). pose proof (lastOK_pos _ Lok) as Lpos.
    cbn [skipLoop]. cbv zeta. rewrite Eb, Eb', E1.
    destruct (lineEnd_spec (buf s) 0 ltac:(lia)) as [A B].
    destruct (Z.lt_ge_cases (lineEnd (buf s) 0) (len (buf s))) as [Lt|Ge].
    - (* a line before the last one *)
      rewrite (lineEnd_app10_lt (buf s) 0 ltac:(lia) Lt). destruct (B Lt) as [Hpos _].
      replace (0 <? lineEnd (buf s) 0) with true by (symmetry; apply Z.ltb_lt; exact Hpos). cbn [negb].
      rewrite (upto_app10 (buf s) (lineEnd (buf s) 0)) by lia. rewrite (from_app10 (buf s) (lineEnd (buf s) 0)) by lia.
      destruct (isBlankLine (upto (buf s) (lineEnd (buf s) 0))) eqn:Ebl.
      + apply IH; cbn [buf bi pending]; try reflexivity; try assumption.
        2:{ apply (PadF_cut (buf s) _ Hpf); [lia|]. destruct (B Lt) as [_ B2]. right; right. unfold isEOLb in B2. apply orb_true_iff in B2. destruct B2 as [B2|B2]; apply Z.eqb_eq in B2; rewrite B2; discriminate. }
        split; [reflexivity|]. cbn [boff bline]. split; [rewrite E2; reflexivity|split; [rewrite E3; reflexivity|split; [apply lastOK_from; assumption|apply anyBuf_from, N91]]].
      + apply (sim_lineLoop H_tn H_sc f 0 [] 0 _ _ true); cbn [buf bi]; [apply LI_nil; cbn [buf bi]; [exact Hpf|reflexivity|exact Ebl]| | |exact Lpos].
        * split; [reflexivity|split; [exact E2|split; [exact E3|split; assumption]]].
        * symmetry. apply lineEnd_app10_lt; [lia|exact Lt].
    - (* the only line left is the last one *)
      assert (Ee : lineEnd (buf s) 0 = len (buf s)) by lia.
      pose proof (lineEnd_last_noEol (buf s) 0 ltac:(lia) (lastOK_plain _ Lok) Ee) as Hnoe.
      rewrite (lineEnd_app10_last (buf s) 0 ltac:(lia) Hnoe), Ee.
      replace (0 <? len (buf s)) with true by (symmetry; apply Z.ltb_lt; lia). replace (0 <? len (buf s) + 1) with true by (symmetry; apply Z.ltb_lt; lia). cbn [negb].
      replace (upto (buf s) (len (buf s))) with (buf s) by (symmetry; apply upto_all).
      replace (upto (buf s ++ [10]) (len (buf s) + 1)) with (buf s ++ [10]) by (symmetry; replace (len (buf s) + 1) with (len (buf s ++ [10])) by (rewrite fs_len_app, fs_len1; reflexivity); apply upto_all).
      rewrite isBlankLine_app'. change (isBlankLine [10]) with true. rewrite andb_true_r.
      destruct (isBlankLine (buf s)) eqn:Ebl.
      + apply relNB_empty; cbn [buf bi]; [apply from_all|reflexivity|apply from_app10_end|reflexivity].
      + apply (sim_lineLoop H_tn H_sc f 0 [] 0 _ _ true); cbn [buf bi]; [apply LI_nil; cbn [buf bi]; [exact Hpf|symmetry; exact Ee|rewrite upto_all; exact Ebl]| | |exact Lpos].
        * split; [reflexivity|split; [exact E2|split; [exact E3|split; assumption]]].
        * symmetry. apply lineEnd_app10_last; [lia|exact Hnoe].
  Qed.

  Lemma GoodL_cons_closed lo b l : GoodL lo (b :: l) -> isOpen b = false -> lo < bend b /\ GoodL (bend b) l.
  Proof. intros H E. cbn [GoodL] in H. rewrite E in H. exact H. Qed.
  (* what DI says about a closed first pending block that ends the buffer *)
  Lemma DI_last_alone s b rest ns : GoodL 0 (b :: rest) -> PIc (bi s) (b :: rest) -> bndL (bi s) ns (b :: rest) = true ->
    isOpen b = false -> bend b = bi s -> rest = [].
  Proof.
    intros HG HP Hb Ho Ee. destruct rest as [|c rest']; [reflexivity|]. exfalso.
    apply (GoodL_cons_closed 0 b (c :: rest')) in HG; [|exact Ho]. destruct HG as [_ HG].
    destruct (@exists_last _ (c :: rest') ltac:(discriminate)) as (pre & z & Ez).
    destruct (isOpen z) eqn:Eoz.
    - destruct (HP (b :: pre) z ltac:(rewrite Ez; reflexivity) Eoz) as [_ Hf]. apply Forall_inv in Hf. lia.
    - pose proof (GoodL_closed_gt _ _ HG) as Hgt. rewrite Ez in Hgt. apply Forall_app in Hgt. destruct Hgt as [_ Hz]. apply Forall_inv in Hz. specialize (Hz Eoz).
      destruct (bndL_ends (bi s) ns (b :: c :: rest') z Hb ltac:(right; rewrite Ez; apply in_or_app; right; left; reflexivity)) as [X|X]; [unfold isOpen in Eoz; apply Z.ltb_ge in Eoz; lia|lia].
  Qed.

  (* the line-entry invariant for the single open pending block *)
  Lemma LI_pending s S b0 ns ns2 nsx : buf S = buf s -> bi S = lineEnd (buf s) (bi s) -> pending s = [b0] -> isOpen b0 = true ->
    0 <= bi s <= len (buf s) -> bndL (bi s) ns [b0] = true -> (ns = false -> bi s = len (buf s)) -> ccF [b0] = true -> GoodL 0 [b0] -> 0 < bi s ->
    SJS anyBuf s [b0] ns2 -> topNoLM [b0] = true -> EolGenCtStream.SJx s (pending s) nsx -> LI 0 [b0] (bi s) S ns.
  Proof.
    intros EB EI Ep Eo Hb Hbnd Hns Hcc HG Hpos ((_ & _ & Hk) & Hsk & N91) Htn HSx.
    pose proof (EolGenCt.X_next s nsx HSx Hb ltac:(rewrite Ep; discriminate) ltac:(rewrite Ep; apply makeRoot_open, Eo)) as HLE. rewrite Ep in HLE.
    unfold LI. rewrite EB, EI. split; [lia|]. split; [reflexivity|]. split; [exact Hbnd|]. split; [exact Hns|]. split; [exact Hcc|]. split; [exact HG|].
    split; [right; split; [exact Hpos|exists b0; reflexivity]|]. split; [discriminate|]. split; [discriminate|]. split; [exact Hk|]. split; [exact Hsk|]. split; [exact N91|split; [exact Htn|]].
    exists nsx. unfold EolGenCt.LEy, EolGenCtStream.LEx in *. cbn [buf bi] in HLE. rewrite EB, EI. exact HLE.
  Qed.

  Lemma sim_nextBlock fuel s s' : PINV s -> (RA s s' \/ RB s s' \/ RC s s') -> relNB (nextBlock fuel s) (nextBlock fuel s').
  Proof.
    intros (HD & (ns2 & HJ) & Htn & (nsx & HSx)) HR. pose proof (EolGenCt.SJx_PadF _ _ _ HSx) as Hpf. destruct HD as ((ns & HSI) & Hcc & HG & HP). destruct HSI as (Hb & Hbnd & Hns).
    pose proof HJ as HJ0. destruct HJ as ((_ & _ & Hk) & Hsk & N91'). unfold nextBlock.
    destruct HR as [(HS & Eb & Epd & Hbi)|[(HS & Eb & Eb' & Epd & Hinv)|(A1 & A2 & A3 & A4 & A5 & A6)]].
    - (* before the last line *)
      pose proof HS as (E1 & E2 & E3 & Lok & N91). rewrite Epd.
      destruct (pending s) as [|b0 rest] eqn:Ep.
      + cbn [makeRoot]. rewrite Eb, E1, (upto_app10 (buf s) (bi s)) by lia. rewrite (from_app10 (buf s) (bi s)) by lia. rewrite E2, E3.
        apply sim_skipLoop; cbn [buf bi pending]; try reflexivity.
        * split; [reflexivity|split; [reflexivity|split; [reflexivity|split; [apply lastOK_from; [exact Lok|lia]|apply anyBuf_from, N91]]]].
        * destruct HSx as (_ & _ & Hb0 & _). apply (PadF_cut (buf s) (bi s) Hpf Hb Hb0).
      + destruct (isOpen b0) eqn:Eo.
        * rewrite (makeRoot_open b0 rest s Eo), (makeRoot_open b0 rest s' Eo).
          pose proof (GoodL_first_open b0 rest HG Eo) as Er. subst rest. destruct (HP [] b0 eq_refl Eo) as [Hpos _]. rewrite Eb.
          match goal with |- relNB (lineLoop _ _ _ _ ?S) (lineLoop _ _ _ _ ?S') => apply (sim_lineLoop H_tn H_sc fuel 0 [b0] (bi s) S S' ns) end; cbn [buf bi nextS].
          -- apply (LI_pending s _ b0 ns ns2 nsx); cbn [buf bi]; try assumption; try reflexivity. rewrite Ep. exact HSx.
          -- split; [exact E1|split; [exact E2|split; [exact E3|split; assumption]]].
          -- reflexivity.
          -- lia.
        * pose proof (closed_nonneg b0 Eo) as Hn0. destruct (bndL_ends _ _ _ b0 Hbnd (or_introl eq_refl)) as [X|X]; [lia|].
          destruct (makeRoot_A s s' b0 rest HS Eo Hn0 ltac:(lia) Eb) as (r & t & t' & M1 & M2 & St & Bt & Pt & Bt2 & But & Pdt).
          rewrite M1, M2. left. split; [reflexivity|]. split.
          -- left. split; [exact St|split; [exact Bt|split; [exact Pt|]]]. rewrite Bt2, But, len_from by lia. lia.
          -- rewrite Pdt. unfold topNoLM in *. cbn [forallb] in Htn. apply andb_true_iff in Htn. rewrite fb_map. erewrite fb_ext; [apply Htn|intros x; rewrite bkind_shiftB'; reflexivity].
    - (* after the last line *)
      pose proof HS as (E1 & E2 & E3 & Lok & N91). pose proof (len_nonneg (buf s)) as L0. rewrite Epd.
      destruct (pending s) as [|b0 rest] eqn:Ep.
      + cbn [map makeRoot]. apply relNB_empty; cbn [buf bi]; [rewrite Eb; apply from_all|reflexivity|rewrite Eb', E1; apply from_app10_end|reflexivity].
      + destruct (isOpen b0) eqn:Eo.
        * pose proof (GoodL_first_open b0 rest HG Eo) as Er. subst rest. cbn [map].
          rewrite (makeRoot_open b0 [] s Eo), (makeRoot_open (finB (len (buf s)) b0) [] s' ltac:(rewrite (isOpen_F _ L0); exact Eo)).
          assert (En : lineEnd (buf s) (bi s) = bi s) by (rewrite Eb; apply lineEnd_all).
          assert (En' : lineEnd (buf s') (bi s') = bi s') by (rewrite Eb', E1; apply lineEnd_app10_end).
          rewrite En, En'.
          destruct Hinv as (_ & Hsc & Htn2). cbn [forallb] in Hsc. apply andb_true_iff in Hsc.
          unfold topNoLM in Htn2. cbn [forallb] in Htn2. apply andb_true_iff in Htn2. destruct Htn2 as [Htn2 _]. apply negb_true_iff, Z.eqb_neq in Htn2.
          destruct Hsk as [Hsk _]. pose proof (shKids_lmB _ _ _ Hsk) as Hlm. cbn [forallb] in Hlm. apply andb_true_iff in Hlm.
          destruct (HP [] b0 eq_refl Eo) as [Hpos _].
          rewrite Eb at 1. rewrite Eb' at 1.
          match goal with |- relNB (lineLoop _ _ _ _ ?S) (lineLoop _ _ _ _ ?S') => apply (sim_eofLoop H_tn fuel 0 b0 S S' ns) end; cbn [buf bi]; try assumption; try tauto.
          rewrite <- Eb. apply (LI_pending s _ b0 ns ns2 nsx); cbn [buf bi]; try assumption; try reflexivity; [symmetry; exact En|rewrite Ep; exact HSx].
        * pose proof (closed_nonneg b0 Eo) as Hn0. destruct (bndL_ends _ _ _ b0 Hbnd (or_introl eq_refl)) as [X|X]; [lia|].
          destruct (Z.eq_dec (bend b0) (len (buf s))) as [EL|NL].
          -- pose proof (DI_last_alone s b0 rest ns HG HP Hbnd Eo ltac:(lia)) as Er. subst rest.
             destruct Hinv as (_ & _ & Htn2). unfold topNoLM in Htn2. cbn [forallb] in Htn2. apply andb_true_iff in Htn2. destruct Htn2 as [Htn2 _]. apply negb_true_iff, Z.eqb_neq in Htn2.
             destruct (makeRoot_B_last s s' b0 HS Eb Eb' Eo EL Htn2) as (r & t & r' & t' & M1 & M2 & Hr & Ht). cbn [map]. rewrite M1, M2. right. split; assumption.
          -- destruct (makeRoot_B_lt s s' b0 rest HS Eb Eb' Eo ltac:(lia) Hinv) as (r & t & t' & M1 & M2 & Hrb & Ht). rewrite M1, M2.
             left. split; [reflexivity|split; [right; exact Hrb|exact Ht]].
    - (* nothing left *)
      rewrite A3, A4. cbn [makeRoot]. rewrite A1, A2, A5, A6. apply relNB_empty; cbn [buf bi]; try reflexivity; apply from_nil_any.
  Qed.
End Sim2.
