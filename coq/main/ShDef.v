From Coq Require Import List ZArith Lia Bool.
Import ListNotations.
Require Import Base Tree Rdr Link LP Rules Driver Props L2Kind L2CC GramTree BSDef BSRdr BSTree BSClose BSShift Rec17 Rec18 BShDef.
Open Scope Z_scope.

(* ---- the shape invariant ---- *)
Definition shapeKN (t : bytes) (K n : Z) : bool := shapeBlock t (Blk K 0 0 [] [] 0 n 0 false false).
Lemma shapeBlock_KN t b : shapeBlock t b = shapeKN t (bkind b) (bn b).
Proof. destruct b; reflexivity. Qed.

Definition fence3 (src : bytes) (s : Z) : Prop :=
  (at_ src s = 96 \/ at_ src s = 126) /\ at_ src (s + 1) = at_ src s /\ at_ src (s + 2) = at_ src s.
(* an open block: its marker lies before M; headings and list markers are never left open *)
Definition openOK (src : bytes) (M K s : Z) : Prop :=
  (K = FencedCodeBlockKind -> s + 3 <= M /\ fence3 src s) /\
  (K = BlockQuoteKind -> s + 1 <= M /\ at_ src s = 62) /\
  K <> ATXHeadingKind /\ K <> ListMarkerKind /\ K <> SetextHeadingKind.
Definition closedL (l : list block) : Prop := allP (fun c => 0 <= bend c) l.

Fixpoint sh (src : bytes) (M : Z) (b : block) : Prop :=
  match b with Blk K s e bk ik _ n _ _ _ =>
    (0 <= e -> shapeKN (sub src s e) K n = true /\ closedL bk) /\
    (e < 0 -> openOK src M K s /\ closedL (removelast bk)) /\
    allP (sh src M) bk
  end.

Lemma sh_eq src M b : sh src M b <->
  ((0 <= bend b -> shapeKN (sub src (bstart b) (bend b)) (bkind b) (bn b) = true /\ closedL (bkids b)) /\
   (bend b < 0 -> openOK src M (bkind b) (bstart b) /\ closedL (removelast (bkids b))) /\
   allP (sh src M) (bkids b)).
Proof. destruct b; reflexivity. Qed.

Lemma openOK_mono src M M' K s : M <= M' -> openOK src M K s -> openOK src M' K s.
Proof. intros H (A & B & C). split; [intros E; destruct (A E); split; [lia|assumption]|]. split; [intros E; destruct (B E); split; [lia|assumption]|exact C]. Qed.

Lemma sh_mono src M M' : M <= M' -> forall b, sh src M b -> sh src M' b.
Proof.
  intros Hle. fix IH 1. intros [K s e bk ik a n c l lb]. cbn [sh]. intros (A & B & C).
  split; [exact A|]. split; [intros He; destruct (B He) as [B1 B2]; split; [eapply openOK_mono; eassumption|exact B2]|].
  clear A B. induction bk as [|x r IHr]; [exact I|]. destruct C as [C1 C2]. split; [apply IH, C1|apply IHr, C2].
Qed.
Lemma allP_sh_mono src M M' l : M <= M' -> allP (sh src M) l -> allP (sh src M') l.
Proof. intros H. apply allP_impl. apply sh_mono, H. Qed.

(* a closed block has only closed descendants: the bound is irrelevant *)
Lemma sh_closed_any src M M' : forall b, 0 <= bend b -> sh src M b -> sh src M' b.
Proof.
  fix IH 1. intros [K s e bk ik a n c l lb]. cbn [sh bend]. intros He (A & B & C).
  split; [exact A|]. split; [intros; lia|]. destruct (A He) as [_ Hc]. clear A B.
  induction bk as [|x r IHr]; [exact I|]. destruct C as [C1 C2]. destruct Hc as [H1 H2]. split; [apply IH; assumption|apply IHr; assumption].
Qed.
Lemma allP_sh_closed_any src M M' l : closedL l -> allP (sh src M) l -> allP (sh src M') l.
Proof.
  induction l as [|x r IH]; [intros; exact I|]. intros [A B] [C D]. split; [eapply sh_closed_any; eassumption|apply IH; assumption].
Qed.

(* ---- setters ---- *)
Lemma sh_set_bchar src M b v : sh src M (set_bchar b v) <-> sh src M b. Proof. destruct b; reflexivity. Qed.
Lemma sh_set_bindent src M b v : sh src M (set_bindent b v) <-> sh src M b. Proof. destruct b; reflexivity. Qed.
Lemma sh_set_bloose src M b v : sh src M (set_bloose b v) <-> sh src M b. Proof. destruct b; reflexivity. Qed.
Lemma sh_set_blast src M b v : sh src M (set_blast b v) <-> sh src M b. Proof. destruct b; reflexivity. Qed.
Lemma sh_set_bik src M b v : sh src M (set_bik b v) <-> sh src M b. Proof. destruct b; reflexivity. Qed.
Lemma bn_set_bkids b v : bn (set_bkids b v) = bn b. Proof. destruct b; reflexivity. Qed.
Lemma bn_set_lastBlocks b v : bn (set_lastBlocks b v) = bn b. Proof. destruct b; reflexivity. Qed.

Lemma closedL_app a b : closedL (a ++ b) <-> closedL a /\ closedL b. Proof. apply allP_app. Qed.
Lemma closedL_removelast l : closedL l -> closedL (removelast l).
Proof. intros H. apply allP_intro. intros x Hx. apply (allP_In _ _ _ H). apply removelast_In, Hx. Qed.
Lemma removelast_app_ne {A} (a l : list A) : l <> [] -> removelast (a ++ l) = a ++ removelast l.
Proof. intros H. apply removelast_app, H. Qed.
Lemma closedL_removelast_app a L : closedL a -> closedL (removelast L) -> closedL (removelast (a ++ L)).
Proof.
  intros A B. destruct L as [|x L]; [rewrite app_nil_r; apply closedL_removelast, A|].
  rewrite removelast_app by discriminate. apply closedL_app. split; assumption.
Qed.

Lemma sh_set_bkids src M b ks : sh src M b -> allP (sh src M) ks ->
  (0 <= bend b -> closedL ks) -> (bend b < 0 -> closedL (removelast ks)) -> sh src M (set_bkids b ks).
Proof.
  rewrite !sh_eq. rewrite bstart_set_bkids, bend_set_bkids, bkind_set_bkids, bn_set_bkids, bkids_set_bkids.
  intros (A & B & C) H1 H2 H3. split; [intros He; split; [apply A, He|apply H2, He]|]. split; [intros He; split; [apply B, He|apply H3, He]|exact H1].
Qed.

Lemma sh_lastBlock src M b c : sh src M b -> lastBlock b = Some c -> sh src M c.
Proof. rewrite sh_eq. intros (_ & _ & H) Hl. eapply allP_In; [exact H|eapply lastBlock_In; exact Hl]. Qed.
Lemma sh_getAt src M : forall d b x, sh src M b -> getAt d b = Some x -> sh src M x.
Proof.
  induction d as [|d IH]; intros b x Hb H; [inversion H; subst; exact Hb|]. cbn [getAt] in H.
  destruct (lastBlock b) as [c|] eqn:El; [|discriminate]. eapply IH; [|exact H]. eapply sh_lastBlock; eassumption.
Qed.

(* replace the last child by a list of closed blocks *)
Lemma sh_set_lastBlocks src M b c L : sh src M b -> lastBlock b = Some c -> allP (sh src M) L -> closedL L ->
  sh src M (set_lastBlocks b L).
Proof.
  intros Hb Hl HL Hc. unfold set_lastBlocks. pose proof (lastBlock_split b c Hl) as Es.
  pose proof Hb as Hb'. rewrite sh_eq in Hb'. destruct Hb' as (A & B & C).
  rewrite Es in C. apply allP_app in C. destruct C as [C1 _].
  apply sh_set_bkids; [exact Hb|apply allP_app; split; assumption| |].
  - intros He. destruct (A He) as [_ A2]. rewrite Es in A2. apply closedL_app in A2. apply closedL_app. tauto.
  - intros He. destruct (B He) as [_ B2]. apply closedL_removelast_app; [exact B2|apply closedL_removelast, Hc].
Qed.
(* replace the last child by one block that is closed when the old one was *)
Lemma sh_set_last1 src M b c c' : sh src M b -> lastBlock b = Some c -> sh src M c' -> (0 <= bend c -> 0 <= bend c') ->
  sh src M (set_lastBlocks b [c']).
Proof.
  intros Hb Hl Hc' Hcl. unfold set_lastBlocks. pose proof (lastBlock_split b c Hl) as Es.
  pose proof Hb as Hb'. rewrite sh_eq in Hb'. destruct Hb' as (A & B & C).
  rewrite Es in C. apply allP_app in C. destruct C as [C1 _].
  apply sh_set_bkids; [exact Hb|apply allP_app; split; [exact C1|split; [exact Hc'|exact I]]| |].
  - intros He. destruct (A He) as [_ A2]. rewrite Es in A2. apply closedL_app in A2. destruct A2 as [A2 [A3 _]].
    apply closedL_app. split; [exact A2|split; [apply Hcl, A3|exact I]].
  - intros He. destruct (B He) as [_ B2]. rewrite removelast_last. exact B2.
Qed.

Lemma sh_updAt_at src M f : forall d b, sh src M b ->
  (forall x, getAt d b = Some x -> sh src M x -> sh src M (f x) /\ (0 <= bend x -> 0 <= bend (f x))) ->
  sh src M (updAt d f b) /\ (0 <= bend b -> 0 <= bend (updAt d f b)).
Proof.
  induction d as [|d IH]; intros b Hb Hf; [apply Hf; [reflexivity|exact Hb]|]. cbn [updAt].
  destruct (lastBlock b) as [c|] eqn:El; [|tauto].
  destruct (IH c (sh_lastBlock src M b c Hb El)) as (A & B).
  { intros x Hx. apply Hf. cbn [getAt]. rewrite El. exact Hx. }
  split; [|rewrite bend_set_lastBlocks; tauto]. eapply sh_set_last1; eassumption.
Qed.

Lemma sh_append src M x y : sh src M x -> bend x < 0 -> closedL (bkids x) -> sh src M y -> sh src M (appendB y x).
Proof.
  intros Hx Ho Hc Hy. pose proof Hx as Hx'. rewrite sh_eq in Hx'. destruct Hx' as (_ & _ & C). unfold appendB.
  apply sh_set_bkids; [exact Hx|apply allP_app; split; [exact C|split; [exact Hy|exact I]]|intros; lia|].
  intros _. rewrite removelast_last. exact Hc.
Qed.

(* ---- the flags do not matter ---- *)
Lemma closedL_map g l : (forall x, bend (g x) = bend x) -> closedL (map g l) <-> closedL l.
Proof. intros Hg. unfold closedL. rewrite allP_map. induction l as [|x r IH]; cbn [allP]; [tauto|]. rewrite Hg, IH. tauto. Qed.
Lemma removelast_map {A B} (g : A -> B) l : removelast (map g l) = map g (removelast l).
Proof. induction l as [|x r IH]; [reflexivity|]. cbn [map removelast]. destruct r; [reflexivity|]. cbn [map] in *. rewrite IH. reflexivity. Qed.

(* ---- the source may grow ---- *)
Lemma upto_upto {A} (l : list A) a b : a <= b -> upto (upto l b) a = upto l a.
Proof. intros H. unfold upto. rewrite firstn_firstn. f_equal. lia. Qed.
Lemma from_upto {A} (l : list A) a b : 0 <= a -> from_ (upto l b) a = upto (from_ l a) (b - a).
Proof.
  intros Ha. unfold from_, upto. destruct (Z.le_gt_cases a b) as [L|L].
  - rewrite skipn_firstn_comm. f_equal. lia.
  - replace (Z.to_nat (b - a)) with O by lia. cbn [firstn]. apply skipn_all2. rewrite firstn_length. lia.
Qed.
Lemma sub_upto {A} (l : list A) H s e : 0 <= s -> e <= H -> sub (upto l H) s e = sub l s e.
Proof. intros Hs He. unfold sub. rewrite from_upto by exact Hs. apply upto_upto. lia. Qed.
Lemma at_upto' (l : bytes) H i : 0 <= i < H -> at_ (upto l H) i = at_ l i.
Proof.
  intros Hi. unfold at_. destruct (Z.ltb_spec i 0); [lia|]. unfold upto.
  destruct (Nat.lt_ge_cases (Z.to_nat i) (length (firstn (Z.to_nat H) l))) as [L|L].
  - rewrite <- (firstn_skipn (Z.to_nat H) l) at 2. rewrite app_nth1 by exact L. reflexivity.
  - rewrite nth_overflow by exact L. rewrite firstn_length in L. rewrite nth_overflow; [reflexivity|]. lia.
Qed.
Definition agree (src src' : bytes) (H : Z) : Prop := upto src H = upto src' H.
Lemma agree_sub src src' H s e : agree src src' H -> 0 <= s -> e <= H -> sub src s e = sub src' s e.
Proof. intros E Hs He. rewrite <- (sub_upto src H s e Hs He), <- (sub_upto src' H s e Hs He), E. reflexivity. Qed.
Lemma agree_at src src' H i : agree src src' H -> 0 <= i < H -> at_ src i = at_ src' i.
Proof. intros E Hi. rewrite <- (at_upto' src H i Hi), <- (at_upto' src' H i Hi), E. reflexivity. Qed.

Lemma openOK_agree src src' H M K s : agree src src' H -> M <= H -> 0 <= s -> openOK src M K s -> openOK src' M K s.
Proof.
  intros E HM Hs (A & B & C). split; [|split; [|exact C]].
  - intros Ek. destruct (A Ek) as [A1 (A2 & A3 & A4)]. split; [exact A1|]. unfold fence3.
    rewrite <- (agree_at src src' H s E), <- (agree_at src src' H (s + 1) E), <- (agree_at src src' H (s + 2) E) by lia. tauto.
  - intros Ek. destruct (B Ek) as [B1 B2]. split; [exact B1|]. rewrite <- (agree_at src src' H s E) by lia. exact B2.
Qed.
Lemma sh_agree src src' H M : agree src src' H -> M <= H -> forall b, sp H b -> sh src M b -> sh src' M b.
Proof.
  intros E HM. fix IH 1. intros [K s e bk ik a n c l lb]. cbn [sp sh]. intros (P1 & P2 & _ & _ & P5) (A & B & C).
  split; [|split].
  - intros He. destruct (A He) as [A1 A2]. split; [|exact A2]. rewrite <- (agree_sub src src' H s e E) by lia. exact A1.
  - intros He. destruct (B He) as [B1 B2]. split; [|exact B2]. eapply openOK_agree; try eassumption. lia.
  - clear A B. induction bk as [|x r IHr]; [exact I|]. destruct C as [C1 C2]. destruct P5 as [Q1 Q2]. split; [apply IH; assumption|apply IHr; assumption].
Qed.

(* ---- cutting the buffer (makeRoot) ---- *)
Lemma sub_from (l : bytes) n s e : 0 <= n <= s -> sub (from_ l n) (s - n) (e - n) = sub l s e.
Proof. intros H. unfold sub. rewrite from_from by lia. replace (n + (s - n)) with s by lia. f_equal. lia. Qed.
Lemma openOK_shift src M K s n : 0 <= n <= s -> openOK src M K s -> openOK (from_ src n) (M - n) K (s + - n).
Proof.
  intros Hn (A & B & C). split; [|split; [|exact C]].
  - intros Ek. destruct (A Ek) as [A1 (A2 & A3 & A4)]. split; [lia|]. unfold fence3. rewrite !at_from by lia.
    replace (n + (s + - n)) with s by lia. replace (n + (s + - n + 1)) with (s + 1) by lia. replace (n + (s + - n + 2)) with (s + 2) by lia. tauto.
  - intros Ek. destruct (B Ek) as [B1 B2]. split; [lia|]. rewrite at_from by lia. replace (n + (s + - n)) with s by lia. exact B2.
Qed.
Lemma sh_shift src n : 0 <= n -> forall M b, sp M b -> n <= bstart b -> (bend b < 0 \/ n <= bend b) -> sh src M b ->
  sh (from_ src n) (M - n) (shiftB (- n) b).
Proof.
  intros Hn M. fix IH 1. intros [K s e bk ik a nn c l lb] HS Hs He. cbn [bstart bend] in Hs, He. cbn [shiftB sh sp] in *.
  intros (A & B & C). destruct HS as (P1 & P2 & _ & P4 & P5).
  assert (Hst : forall x, In x bk -> n <= bstart x /\ (bend x < 0 \/ n <= bend x)).
  { intros x Hx. pose proof (chain_starts _ _ _ x P4 Hx). pose proof (sp_bounds M x (allP_In _ _ _ P5 Hx)).
    assert (Hx' : sp M x) by (eapply allP_In; eassumption). rewrite sp_eq in Hx'. split; [lia|]. destruct Hx' as (_ & Q & _). lia. }
  assert (Hcl : forall l0, (forall x, In x l0 -> In x bk) -> closedL l0 -> closedL (map (shiftB (- n)) l0)).
  { intros l0 Hin H0. unfold closedL. apply allP_map. apply allP_intro. intros x Hx. pose proof (allP_In _ _ _ H0 Hx) as Hb.
    cbn beta in Hb. rewrite bend_shiftB. destruct (Z.leb_spec 0 (bend x)); [|lia]. destruct (Hst x (Hin x Hx)) as [_ Q]. lia. }
  split; [|split].
  - destruct (Z.leb_spec 0 e) as [L|L]; [|intros; lia]. intros _. destruct (A L) as [A1 A2]. split.
    + replace (s + - n) with (s - n) by lia. replace (e + - n) with (e - n) by lia. rewrite sub_from by lia. exact A1.
    + apply Hcl; [tauto|exact A2].
  - destruct (Z.leb_spec 0 e) as [L|L]; [intros; lia|]. intros _. destruct (B L) as [B1 B2]. split; [apply openOK_shift; [lia|exact B1]|].
    rewrite removelast_map. apply Hcl; [intros x Hx; apply removelast_In, Hx|exact B2].
  - clear A B P4 Hcl. induction bk as [|x r IHr]; [exact I|]. destruct C as [C1 C2]. destruct P5 as [Q1 Q2]. cbn [map allP]. split.
    + destruct (Hst x (or_introl eq_refl)) as [S1 S2]. apply IH; assumption.
    + apply IHr; [exact Q2|exact C2|]. intros y Hy. apply Hst. right. exact Hy.
Qed.
