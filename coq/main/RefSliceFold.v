(* RefSliceFold.v -- Unicode case folding (Utf8.foldString over the generated foldTable) on ASCII input, the equality test
   Utf8.bytes_eqb, and non-emptiness of a normalised label (T44, property C12). *)
From Coq Require Import List ZArith Lia Bool.
Import ListNotations.
Require Import Base Tables Utf8 Collect SliceBase LabelNorm.
Open Scope Z_scope.

(* ---- bytes_eqb decides equality ---- *)
Lemma hasBytePrefix_refl : forall a, hasBytePrefix a a = true.
Proof. induction a as [|x a IH]; [reflexivity|]. cbn [hasBytePrefix]. rewrite Z.eqb_refl, IH. reflexivity. Qed.
Lemma hasBytePrefix_eq : forall b a, hasBytePrefix a b = true -> length a = length b -> a = b.
Proof.
  induction b as [|p ps IH]; intros a H Hl.
  - destruct a; [reflexivity|discriminate Hl].
  - destruct a as [|x xs]; [discriminate Hl|]. cbn [hasBytePrefix] in H. apply andb_true_iff in H. destruct H as [E H].
    apply Z.eqb_eq in E. subst p. f_equal. apply IH; [exact H|]. cbn [length] in Hl. lia.
Qed.
Lemma bytes_eqb_refl a : bytes_eqb a a = true.
Proof. unfold bytes_eqb. rewrite Z.eqb_refl, hasBytePrefix_refl. reflexivity. Qed.
Lemma bytes_eqb_eq a b : bytes_eqb a b = true -> a = b.
Proof.
  unfold bytes_eqb. intros H. apply andb_true_iff in H. destruct H as [El H]. apply Z.eqb_eq in El.
  apply hasBytePrefix_eq; [exact H|]. unfold len in El. lia.
Qed.
Lemma bytes_eqb_iff a b : bytes_eqb a b = true <-> a = b.
Proof. split; [apply bytes_eqb_eq|intros ->; apply bytes_eqb_refl]. Qed.
Lemma bytes_eqb_neq a b : a <> b -> bytes_eqb a b = false.
Proof. intros H. destruct (bytes_eqb a b) eqn:E; [|reflexivity]. exfalso. apply H, bytes_eqb_eq, E. Qed.

(* ---- folding one ASCII byte ---- *)
Definition foldB (c : Z) : bytes := match lookupFold foldTable c with Some v => v | None => [c] end.
Definition asciiB (c : Z) : Prop := 0 <= c < 128.

Definition leqb (x y : bytes) : bool := if list_eq_dec Z.eq_dec x y then true else false.
Lemma foldB_table : forallb (fun c => leqb (foldB c) [toLowerASCII c]) (map Z.of_nat (seq 0 128)) = true.
Proof. vm_compute. reflexivity. Qed.
Lemma foldB_ascii c : asciiB c -> foldB c = [toLowerASCII c].
Proof.
  intros Hc. pose proof foldB_table as H. rewrite forallb_forall in H.
  specialize (H c). unfold leqb in H. destruct (list_eq_dec Z.eq_dec (foldB c) [toLowerASCII c]) as [E|_]; [exact E|].
  assert (Hin : In c (map Z.of_nat (seq 0 128))).
  { apply in_map_iff. exists (Z.to_nat c). split; [unfold asciiB in Hc; lia|]. apply in_seq. unfold asciiB in Hc. lia. }
  specialize (H Hin). discriminate H.
Qed.

Lemma foldString_loop_S f s acc : foldString_loop (S f) s acc =
  match s with
  | [] => acc
  | b :: _ =>
    let '(r, w) := decodeRune s in
    let w := if w <? 1 then 1 else w in
    let chunk := upto s w in
    let out := if (r =? RuneError) && (w =? 1) then chunk
               else match lookupFold foldTable r with Some v => v | None => chunk end in
    foldString_loop f (from_ s w) (acc ++ out)
  end.
Proof. reflexivity. Qed.

Lemma foldString_loop_ascii : forall s fuel acc, Forall asciiB s -> (length s < fuel)%nat ->
  foldString_loop fuel s acc = acc ++ flat_map foldB s.
Proof.
  induction s as [|c s IH]; intros fuel acc HF Hfuel; (destruct fuel as [|f]; [cbn [length] in Hfuel; lia|]).
  - cbn. rewrite app_nil_r. reflexivity.
  - inversion HF as [|x y Hc HF' Exy]. unfold asciiB in Hc. rewrite foldString_loop_S.
    unfold decodeRune. destruct (Z.ltb_spec c 128) as [_|L]; [|lia].
    change (1 <? 1) with false. cbv iota zeta.
    change (upto (c :: s) 1) with [c]. change (from_ (c :: s) 1) with s.
    destruct (Z.eqb_spec c RuneError) as [E|_]; [unfold RuneError in E; lia|]. cbn [andb].
    rewrite (IH f _ HF') by (cbn [length] in Hfuel; lia).
    cbn [flat_map]. rewrite <- app_assoc. reflexivity.
Qed.

Theorem foldString_ascii s : Forall asciiB s -> foldString s = map toLowerASCII s.
Proof.
  intros HF. unfold foldString. rewrite (foldString_loop_ascii s _ [] HF) by lia. cbn [app].
  induction HF as [|c s Hc Hs IH]; [reflexivity|]. cbn [flat_map map]. rewrite (foldB_ascii c Hc), IH. reflexivity.
Qed.

(* ---- the whitespace part keeps ASCII bytes ASCII ---- *)
Lemma Forall_collapse (P : Z -> Prop) : P 32 -> forall l, Forall P l -> Forall P (collapse l).
Proof.
  intros H32. induction l as [|c r IH]; intros HF; [constructor|]. inversion HF as [|x y Hc HF' Exy].
  destruct (ws c) eqn:Ec.
  - destruct r as [|d r'].
    + cbn [collapse]. rewrite Ec. constructor; [exact H32|constructor].
    + change (collapse (c :: d :: r')) with (if ws c then if ws d then collapse (d :: r') else 32 :: collapse (d :: r') else c :: collapse (d :: r')).
      rewrite Ec. destruct (ws d); [apply IH; exact HF'|constructor; [exact H32|apply IH; exact HF']].
  - rewrite (collapse_nws_cons c r Ec). constructor; [exact Hc|apply IH; exact HF'].
Qed.
Lemma Forall_dropWhileB (P : Z -> Prop) f : forall l, Forall P l -> Forall P (dropWhileB f l).
Proof.
  induction l as [|c r IH]; intros HF; [constructor|]. cbn [dropWhileB]. destruct (f c); [|exact HF].
  apply IH. inversion HF; assumption.
Qed.
Lemma Forall_trim (P : Z -> Prop) l : Forall P l -> Forall P (trimAsciiWs l).
Proof. intros H. unfold trimAsciiWs. apply Forall_rev, Forall_dropWhileB, Forall_rev, Forall_dropWhileB, H. Qed.

Theorem norm_label_ascii l : Forall asciiB l -> norm_label l = map toLowerASCII (trimAsciiWs (collapse l)).
Proof.
  intros H. unfold norm_label. apply foldString_ascii. apply Forall_trim. apply Forall_collapse; [unfold asciiB; lia|exact H].
Qed.

(* ---- a label that starts with a non-blank byte has a non-empty normal form ---- *)
Lemma dropWhileB_snoc_nws : forall y c, ws c = false -> dropWhileB ws (y ++ [c]) <> [].
Proof.
  induction y as [|d y IH]; intros c Hc.
  - cbn [app dropWhileB]. rewrite Hc. discriminate.
  - cbn [app dropWhileB]. destruct (ws d); [apply IH; exact Hc|discriminate].
Qed.
Lemma trim_cons_nws c x : ws c = false -> trimAsciiWs (c :: x) <> [].
Proof.
  intros Hc. unfold trimAsciiWs. cbn [dropWhileB]. rewrite Hc. cbn [rev].
  intros E. apply (f_equal (@rev Z)) in E. rewrite rev_involutive in E. cbn [rev] in E.
  exact (dropWhileB_snoc_nws (rev x) c Hc E).
Qed.
Theorem norm_label_nonempty c l : Forall asciiB (c :: l) -> ws c = false -> (len (norm_label (c :: l)) =? 0) = false.
Proof.
  intros HF Hc. rewrite (norm_label_ascii _ HF). rewrite (collapse_nws_cons c l Hc).
  pose proof (trim_cons_nws c (collapse l) Hc) as Hne.
  destruct (trimAsciiWs (c :: collapse l)) as [|d t]; [contradiction|].
  cbn [map]. rewrite sl_len_cons. pose proof (sl_len_nonneg (map toLowerASCII t)). apply Z.eqb_neq. lia.
Qed.
